(* C04 over histories — the three phases of Proofs/SchedTreeRun.v again, from an
   arbitrary pre-state (doers may be GDone from an earlier run, not only GNew) and
   with the facts a FOLLOWING run needs: the doers lists never change, and every
   item that leaves the live forest is ended (generator GDone, a DoDoer's own deque
   empty).  Same structure: per phase one statement for the loop of a scheduler and
   one for a group, proved together by induction on fuel. *)
From Coq Require Import Permutation.
From Hio Require Import Base.Prelude Base.AMap Base.Time Model.Sched
  Proofs.SchedEqs Proofs.SchedFrame Proofs.SchedLife Proofs.SchedFlatDefs Proofs.SchedFlatRun
  Proofs.SchedTreeDefs Proofs.SchedTreeRun.

Section HRun.
Context {T : Type} `{Time T}.
Implicit Types s a : st T.

Variable vis : list id.
Variables tk z0 : T.
Hypothesis vis0 : In 0%N vis.

Notation ts_ok s := (all (t_ok1 s)).
Notation ts_wf D := (all (t_wf1 vis z0 D)).

(* ---------- ended doers, constant doers lists ---------- *)

Definition endedid s (x : id) : Prop :=
  get_gen s x = GDone /\
  match get (defs s) x with Some (FNest _ _ _) => deeds (get_sched s x) = [] | _ => True end.

Definition same_doers s s' : Prop := forall x, doers (get_sched s' x) = doers (get_sched s x).

Lemma sd_refl s : same_doers s s. Proof. intro x. reflexivity. Qed.
Lemma sd_trans a s (c : st T) : same_doers a s -> same_doers s c -> same_doers a c.
Proof. intros H1 H2 x. now rewrite H2, H1. Qed.
Lemma sd_gen a s i g : same_doers a s -> same_doers a (set_gen s i g).
Proof. intros H1 x. apply H1. Qed.
Lemma sd_emit a s k i : same_doers a s -> same_doers a (emit s k i).
Proof. intros H1 x. apply H1. Qed.
Lemma sd_done a s i d : same_doers a s -> same_doers a (set_done s i d).
Proof. intros H1 x. apply H1. Qed.
Lemma sd_deeds a s i d : same_doers a s -> same_doers a (set_deeds s i d).
Proof.
  intros H1 x. destruct (N.eq_dec x i) as [->|Hne].
  - rewrite doers_set_deeds_same. apply H1.
  - rewrite sched_set_deeds_other by exact Hne. apply H1.
Qed.

Lemma endedid_frame Xg Xs s s' x :
  frame Xg Xs s s' -> ~ In x Xg -> ~ In x Xs -> endedid s x -> endedid s' x.
Proof.
  intros (_ & D & FG & FS) Ng Ns [G E]. split; [now rewrite FG|]. rewrite D, FS by exact Ns. exact E.
Qed.

Lemma ended_leaf s (l : leaf T) : get_gen s (lf_id l) = GDone -> leaf_in (defs s) l -> endedid s (lf_id l).
Proof. intros G [D _]. split; [exact G|]. now rewrite D. Qed.

Lemma startable_frame Xg Xs s s' x : frame Xg Xs s s' -> ~ In x Xg -> startable s' x = startable s x.
Proof. intros (_ & _ & FG & _) Ng. unfold startable. now rewrite FG. Qed.

(* ---------- one leaf, with the extra facts ---------- *)

Lemma loop_leaf_step' f s sid (v : lv T) rest s' r o :
  recur_loop tk (S f) s sid = (s', r) -> oof s' = false ->
  deeds (get_sched s sid) = lv_deed v :: rest ->
  lv_ok s v -> leaf_in (defs s) (v_leaf v) -> In (lv_id v) vis -> out_ok vis s o ->
  exists s2 ov o',
    (if tleb (v_re v) (tyme s) then lv_step (sched_tock tk s sid) (tyme s) v o else (Some v, o)) = (ov, o') /\
    recur_loop tk f s2 sid = (s', r) /\
    deeds (get_sched s2 sid) = rest ++ match ov with Some v' => [lv_deed v'] | None => [] end /\
    match ov with Some v' => lv_ok s2 v' /\ v_leaf v' = v_leaf v | None => True end /\
    out_ok vis s2 o' /\ frame [lv_id v] [sid] s s2 /\
    same_doers s s2 /\ (ov = None -> get_gen s2 (lv_id v) = GDone).
Proof.
  intros E O Dq G [D P] V OK.
  rewrite recur_loop_S, Dq in E. unfold lv_deed in E. cbv zeta in E.
  change (tyme (set_deeds s sid rest)) with (tyme s) in E.
  destruct (tleb (v_re v) (tyme s)) eqn:Due.
  - destruct (gen_send tk f (set_deeds s sid rest) (lv_id v)) as [s2 g] eqn:Es.
    assert (O2 : oof s2 = false).
    { destruct g; try (inversion E; subst; assumption);
        apply oof_recur_loop in E; assumption. }
    pose proof (leaf_send tk _ _ _ _ _ _ _ _ Es O2 G D (pure_nth _ _ P)) as L.
    unfold lv_step. fold (lv_stp v) in L.
    destruct (f_out (lv_stp v)) as [x|rr| |] eqn:Fo; try contradiction.
    + destruct L as [-> ->].
      eexists _, _, _. split; [reflexivity|]. split; [exact E|].
      split; [rewrite deeds_set_deeds_same; rewrite !sched_set_gen, sched_emit, sched_set_gen, deeds_set_deeds_same; reflexivity|].
      split; [split; [|reflexivity]|split; [|split; [|split]]].
      * unfold lv_ok; cbn [v_leaf v_pc lv_id]. rewrite gen_set_deeds. apply gen_set_gen_same.
      * apply ok_deeds, ok_gen. apply (ok_emit_vis vis (set_gen (set_deeds s sid rest) (lv_id v) (GRun (v_pc v))) o Recur (lv_id v) V).
        apply ok_gen, ok_deeds. exact OK.
      * apply frame_deeds; [now left|]. apply frame_gen; [now left|]. apply frame_emit.
        apply frame_gen; [now left|]. apply frame_deeds; [now left|]. apply frame_refl.
      * apply sd_deeds, sd_gen, sd_emit, sd_gen, sd_deeds, sd_refl.
      * discriminate.
    + destruct L as [-> ->].
      eexists _, _, _. split; [reflexivity|]. split; [exact E|].
      split; [rewrite app_nil_r; cbv zeta; rewrite sched_set_done, sched_set_gen, !sched_emit, sched_set_gen; apply deeds_set_deeds_same|].
      split; [exact I|split; [|split; [|split]]].
      * apply (ok_return vis (emit (set_gen (set_deeds s sid rest) (lv_id v) (GRun (v_pc v))) Recur (lv_id v)) _ (v_leaf v) rr (lv_id v) eq_refl V).
        apply (ok_emit_vis vis (set_gen (set_deeds s sid rest) (lv_id v) (GRun (v_pc v))) o Recur (lv_id v) V).
        apply ok_gen, ok_deeds. exact OK.
      * cbv zeta. apply frame_done. apply frame_gen; [now left|]. do 3 apply frame_emit.
        apply frame_gen; [now left|]. apply frame_deeds; [now left|]. apply frame_refl.
      * cbv zeta. apply sd_done, sd_gen, sd_emit, sd_emit, sd_emit, sd_gen, sd_deeds, sd_refl.
      * intros _. cbv zeta. rewrite gen_set_done. apply gen_set_gen_same.
  - eexists _, (Some v), o. split; [reflexivity|]. split; [exact E|].
    split; [apply deeds_set_deeds_same|].
    split; [split; [exact G|reflexivity]|split; [|split; [|split]]].
    + apply ok_deeds, ok_deeds. exact OK.
    + apply frame_deeds; [now left|]. apply frame_deeds; [now left|]. apply frame_refl.
    + apply sd_deeds, sd_deeds, sd_refl.
    + discriminate.
Qed.

Lemma leaf_start' f s i k sc s' r :
  gen_start tk f s i = (s', r) -> oof s' = false ->
  startable s i = true -> get (defs s) i = Some (FLeaf k sc) ->
  pure_step (nth 0 sc default_step) = true ->
  match f_out (nth 0 sc default_step) with
  | OYield t => s' = set_gen (emit (set_gen s i (GRun 0)) Enter i) i (GSusp 1) /\ r = GYield t
  | OReturn rr =>
    s' = (let s2 := emit (emit (emit (set_gen s i (GRun 0)) Enter i) Clean i) Exit i in
          set_done (set_gen s2 i GDone) i (done_after k rr (get_done s2 i))) /\ r = GReturn
  | _ => False
  end.
Proof.
  intros E O G D P.
  destruct f as [|f]; [rewrite gen_start_O in E; inversion E; subst; discriminate|].
  rewrite gen_start_S in E. rewrite G in E. cbn [negb] in E. rewrite D in E.
  exact (run_step_pure tk _ _ _ _ _ _ _ _ E O P).
Qed.

Lemma enter_leaf_step' f s sid (l : leaf T) rest s' r o :
  enter_own tk (S f) s sid (lf_id l :: rest) = (s', r) -> oof s' = false ->
  startable s (lf_id l) = true -> leaf_in (defs s) l -> In (lf_id l) vis -> out_ok vis s o ->
  exists s2 ov o', lf_enter (tyme s) l o = (ov, o') /\
    enter_own tk f s2 sid rest = (s', r) /\
    deeds (get_sched s2 sid) = deeds (get_sched s sid) ++ match ov with Some v => [lv_deed v] | None => [] end /\
    match ov with Some v => lv_ok s2 v /\ v_leaf v = l | None => True end /\
    out_ok vis s2 o' /\ frame [lf_id l] [sid] s s2 /\
    same_doers s s2 /\ (ov = None -> get_gen s2 (lf_id l) = GDone).
Proof.
  intros E O G [D P] V OK.
  rewrite enter_own_S in E. cbv zeta in E.
  pose proof (oof_gen_start_enter tk _ _ _ _ _ _ _ E O) as O1.
  destruct (gen_start tk f (set_done s (lf_id l) (Some false)) (lf_id l)) as [s1 g] eqn:Es. cbn [fst] in O1.
  pose proof (leaf_start' _ _ _ _ _ _ _ Es O1 G D (pure_nth _ _ P)) as L.
  assert (OK0 : out_ok vis (emit (set_gen (set_done s (lf_id l) (Some false)) (lf_id l) (GRun 0)) Enter (lf_id l))
                       (o_emit (o_done o (lf_id l) (Some false)) Enter (lf_id l) (tyme s))).
  { apply (ok_emit_vis vis (set_gen (set_done s (lf_id l) (Some false)) (lf_id l) (GRun 0)) _ Enter (lf_id l) V).
    apply ok_gen. now apply ok_done_vis. }
  unfold lf_enter.
  destruct (f_out (nth 0 (lf_script l) default_step)) as [x|rr| |] eqn:Fo; try contradiction.
  - destruct L as [-> ->].
    eexists _, _, _. split; [reflexivity|]. split; [exact E|].
    split; [rewrite deeds_set_deeds_same; reflexivity|].
    split; [split; [|reflexivity]|split; [|split; [|split]]].
    + unfold lv_ok; cbn [v_leaf v_pc lv_id]. rewrite gen_set_deeds. apply gen_set_gen_same.
    + apply ok_deeds, ok_gen. exact OK0.
    + apply frame_deeds; [now left|]. apply frame_gen; [now left|]. apply frame_emit.
      apply frame_gen; [now left|]. apply frame_done. apply frame_refl.
    + apply sd_deeds, sd_gen, sd_emit, sd_gen, sd_done, sd_refl.
    + discriminate.
  - destruct L as [-> ->].
    eexists _, _, _. split; [reflexivity|]. split; [exact E|].
    split; [rewrite app_nil_r; reflexivity|].
    split; [exact I|split; [|split; [|split]]].
    + apply (ok_return vis _ _ l rr (lf_id l) eq_refl V OK0).
    + cbv zeta. apply frame_done. apply frame_gen; [now left|]. do 3 apply frame_emit.
      apply frame_gen; [now left|]. apply frame_done. apply frame_refl.
    + cbv zeta. apply sd_done, sd_gen, sd_emit, sd_emit, sd_emit, sd_gen, sd_done, sd_refl.
    + intros _. cbv zeta. rewrite gen_set_done. apply gen_set_gen_same.
Qed.

(* ---------- the recur pass ---------- *)

Definition loop_at' (f : nat) : Prop := forall sid (b : T) (U : list (titem T)) P s o s' r,
  recur_loop tk f s sid = (s', r) -> oof s' = false ->
  deeds (get_sched s sid) = map t_deed U ++ DMark :: P ->
  ts_ok s U -> ts_wf (defs s) U -> NoDup (sid :: ts_ids U) -> out_ok vis s o -> sched_tock tk s sid = b ->
  exists U' o', tpass (tabs z0) b (tyme s) U o = (U', o') /\ r = GReturn /\
    deeds (get_sched s' sid) = P ++ map t_deed U' /\ ts_ok s' U' /\ out_ok vis s' o' /\
    frame (ts_ids U) (sid :: ts_ids U) s s' /\
    same_doers s s' /\ (forall x, In x (ts_ids U) -> ~ In x (ts_ids U') -> endedid s' x).

Definition send_at' (f : nat) : Prop := forall s n npc (re : T) kids o s' r,
  gen_send tk f s n = (s', r) -> oof s' = false ->
  ts_ok s [IGroup n npc re kids] -> ts_wf (defs s) [IGroup n npc re kids] ->
  NoDup (n :: ts_ids kids) -> out_ok vis s o ->
  exists kids' o', tpass (tabs z0) (tabs z0) (tyme s) kids o = (kids', o') /\ out_ok vis s' o' /\
    frame (n :: ts_ids kids) (n :: ts_ids kids) s s' /\
    match kids' with
    | [] => r = GReturn /\ get_gen s' n = GDone
    | _ => r = GYield (Some (tabs z0)) /\ ts_ok s' [IGroup n npc re kids']
    end /\
    same_doers s s' /\ (forall x, In x (ts_ids kids) -> ~ In x (ts_ids kids') -> endedid s' x) /\
    (kids' = [] -> endedid s' n).

Lemma send_from_loop' f : loop_at' f -> send_at' (S (S f)).
Proof.
  intros L s n npc re kids o s' r E O G W ND OK.
  cbn [all t_ok1 t_wf1] in G, W. destruct G as [(Gn & Dq & K) _]. destruct W as [(NV & [kids0 D] & WK) _].
  pose proof (invis_ne0 vis vis0 n NV) as N0.
  pose proof ND as ND'. apply NoDup_cons_iff in ND' as [Nn NDk].
  rewrite gen_send_S, Gn, D in E. cbv zeta in E.
  set (s1 := emit (set_gen s n (GRun npc)) Recur n) in *.
  destruct (recur_pass tk (S f) s1 n) as [s2 g] eqn:Ep.
  assert (O2 : oof s2 = false).
  { destruct g; cbv beta iota zeta in E.
    1,2: destruct (deeds (get_sched s2 n)); cbn [andb negb] in E; inversion E; subst s';
      rewrite ?oof_set_gen, ?oof_emit in O; [apply oof_close_own in O|]; exact O.
    - inversion E; subst s'. rewrite oof_set_gen, oof_emit in O. apply oof_close_own in O.
      destruct kbd; exact O.
    - inversion E; subst; exact O. }
  rewrite recur_pass_S in Ep. cbv zeta in Ep.
  set (s1' := set_deeds s1 n (deeds (get_sched s1 n) ++ [DMark])) in *.
  assert (F1 : frame [n] [n] s s1').
  { unfold s1', s1. apply frame_deeds; [now left|]. apply frame_emit. apply frame_gen; [now left|]. apply frame_refl. }
  assert (SD1 : same_doers s s1') by (unfold s1', s1; apply sd_deeds, sd_emit, sd_gen, sd_refl).
  assert (OK1 : out_ok vis s1' o).
  { unfold s1', s1. apply ok_deeds. apply ok_emit_invis; [exact NV|]. now apply ok_gen. }
  assert (Dq1 : deeds (get_sched s1' n) = map t_deed kids ++ DMark :: []).
  { unfold s1'. rewrite deeds_set_deeds_same. unfold s1. rewrite sched_emit, sched_set_gen. now rewrite Dq. }
  assert (K1 : ts_ok s1' kids).
  { eapply ts_ok_frame; [exact F1| |exact K]. intros x Hx. split; intros [Heq|[]]; subst x; contradiction. }
  assert (B1 : sched_tock tk s1' n = tabs z0) by (eapply sched_tock_nest; [exact N0|exact D]).
  destruct (L n (tabs z0) kids [] s1' o s2 g Ep O2 Dq1 K1 WK ND OK1 B1)
    as (kids' & o' & Hp & -> & Dq2 & K2 & OK2 & F2 & SD2 & En2).
  change (tyme s1') with (tyme s) in Hp. cbn [app] in Dq2.
  exists kids', o'. split; [exact Hp|].
  assert (F12 : frame (n :: ts_ids kids) (n :: ts_ids kids) s s2).
  { eapply frame_trans.
    - eapply frame_weaken; [| |exact F1]; intros x [->|[]]; now left.
    - eapply frame_weaken; [| |exact F2]; [apply incl_tl, incl_refl|apply incl_refl]. }
  assert (D2 : get (defs s2) n = Some (FNest z0 false kids0)) by (destruct F12 as (_ & -> & _); exact D).
  cbv beta iota zeta in E. rewrite Dq2 in E.
  destruct kids' as [|k kids'']; cbn [map andb negb] in E.
  - inversion E; subst s' r; clear E.
    rewrite oof_set_gen, oof_emit in O.
    rewrite close_own_empty in * by (try exact O; rewrite sched_emit, sched_set_done; exact Dq2).
    set (sf := set_gen (emit (set_deeds (emit (set_done s2 n (Some true)) Clean n) n []) Exit n) n GDone).
    assert (Ff : frame [n] [n] s2 sf).
    { unfold sf. apply frame_gen; [now left|]. apply frame_emit. apply frame_deeds; [now left|].
      apply frame_emit. apply frame_done. apply frame_refl. }
    split; [|split; [|split; [|split; [|split]]]].
    + apply ok_gen. apply ok_emit_invis; [exact NV|]. apply ok_deeds. apply ok_emit_invis; [exact NV|].
      apply ok_done_invis; [exact NV|exact OK2].
    + eapply frame_trans; [exact F12|]. eapply frame_weaken; [| |exact Ff]; intros x [->|[]]; now left.
    + split; [reflexivity|]. apply gen_set_gen_same.
    + eapply sd_trans; [exact SD1|]. eapply sd_trans; [exact SD2|].
      unfold sf. apply sd_gen, sd_emit, sd_deeds, sd_emit, sd_done, sd_refl.
    + intros x Hx Hn. eapply endedid_frame; [exact Ff| | |apply En2; [exact Hx|exact Hn]];
        intros [Heq|[]]; subst x; contradiction.
    + intros _. split; [apply gen_set_gen_same|].
      change (defs sf) with (defs s2). rewrite D2.
      unfold sf. rewrite sched_set_gen, sched_emit. apply deeds_set_deeds_same.
  - inversion E; subst s' r; clear E.
    set (sf := set_gen (set_done s2 n (Some false)) n (GSusp npc)).
    assert (Ff : frame [n] [] s2 sf).
    { unfold sf. apply frame_gen; [now left|]. apply frame_done. apply frame_refl. }
    split; [|split; [|split; [|split; [|split]]]].
    + apply ok_gen. apply ok_done_invis; [exact NV|exact OK2].
    + apply frame_gen; [now left|]. apply frame_done. exact F12.
    + split; [reflexivity|]. cbn [all t_ok1].
      split; [|exact I]. split; [apply gen_set_gen_same|].
      split; [unfold sf; rewrite sched_set_gen, sched_set_done; exact Dq2|].
      apply (ts_ok_frame [n] [] s2 _ (k :: kids'') Ff); [|exact K2].
      intros x Hx. split; [|intros []]. intros [Heq|[]]. subst x. apply Nn.
      destruct (tpass_wf vis z0 (tabs z0) (tyme s) (defs s) kids _ _ _ _ Hp) as [Sub _].
      eapply subl_In; [exact Sub|exact Hx].
    + eapply sd_trans; [exact SD1|]. eapply sd_trans; [exact SD2|]. unfold sf. apply sd_gen, sd_done, sd_refl.
    + intros x Hx Hn. eapply endedid_frame; [exact Ff| |intros []|apply En2; [exact Hx|exact Hn]].
      intros [Heq|[]]; subst x; contradiction.
    + discriminate.
Qed.

Lemma ended_leaf_item s (v : lv T) : get_gen s (lv_id v) = GDone -> leaf_in (defs s) (v_leaf v) -> endedid s (lv_id v).
Proof. apply ended_leaf. Qed.

Lemma loop_step' f : loop_at' f -> send_at' f -> loop_at' (S f).
Proof.
  intros L Sd sid b U P s o s' r E O Dq G W ND OK B.
  destruct U as [|it U].
  - cbn [map app] in Dq. rewrite recur_loop_S, Dq in E. inversion E; subst s' r.
    exists [], o. split; [reflexivity|]. split; [reflexivity|].
    split; [rewrite deeds_set_deeds_same; now rewrite app_nil_r|].
    split; [exact I|]. split; [now apply ok_deeds|].
    split; [apply frame_deeds; [now left|apply frame_refl]|].
    split; [apply sd_deeds, sd_refl|intros x []].
  - cbn [map app] in Dq. destruct it as [v|n npc re kids].
    + (* a leaf *)
      cbn [all t_ok1 t_wf1 t_deed] in G, W, Dq. destruct G as [Gv GU]. destruct W as [[Dv Vv] WU].
      rewrite ts_ids_leaf in ND. destruct (nd_leaf _ _ _ ND) as (NDU & Nv & Nvs & Ns).
      destruct (loop_leaf_step' f s sid v _ s' r o E O Dq Gv Dv Vv OK)
        as (s2 & ov & o1 & Hst & E2 & Dq2 & Hov & OK2 & F2 & SD2 & Gd2).
      assert (FU : ts_ok s2 U).
      { eapply ts_ok_frame; [exact F2| |exact GU]. intros x Hx. split; intros [Heq|[]]; subst x; contradiction. }
      assert (WU2 : ts_wf (defs s2) U) by (destruct F2 as (_ & -> & _); exact WU).
      assert (T2 : tyme s2 = tyme s) by (destruct F2 as (-> & _); reflexivity).
      assert (B2 : sched_tock tk s2 sid = b) by (rewrite (sched_tock_frame _ _ _ _ _ _ F2); exact B).
      rewrite <- app_assoc in Dq2. cbn [app] in Dq2.
      destruct (L sid b U _ s2 o1 s' r E2 O Dq2 FU WU2 NDU OK2 B2)
        as (U' & o' & Hp & -> & Dq' & G' & OK' & F' & SD' & En').
      rewrite T2 in Hp. rewrite B in Hst.
      rewrite tpass_cons, tpass1_leaf, Hst, Hp. rewrite ts_ids_leaf.
      assert (FF : frame (lv_id v :: ts_ids U) (sid :: lv_id v :: ts_ids U) s s').
      { eapply frame_trans; [eapply frame_weaken; [| |exact F2]|eapply frame_weaken; [| |exact F']];
          intros x Hx; cbn [In] in *; tauto. }
      assert (SDD : same_doers s s') by (eapply sd_trans; eassumption).
      assert (Dv' : leaf_in (defs s') (v_leaf v)).
      { destruct F' as (_ & -> & _). destruct F2 as (_ & -> & _). exact Dv. }
      destruct ov as [v'|]; cbn [option_map].
      * destruct Hov as [Gv' Lv'].
        assert (Li : lv_id v' = lv_id v) by (unfold lv_id; now rewrite Lv').
        eexists _, _. split; [reflexivity|]. split; [reflexivity|].
        split; [rewrite Dq', <- app_assoc; reflexivity|].
        split; [|split; [exact OK'|split; [exact FF|split; [exact SDD|]]]].
        -- cbn [all t_ok1]. split; [|exact G'].
           eapply lv_ok_frame; [exact F'| |exact Gv']. rewrite Li. exact Nv.
        -- intros x Hx Hn. rewrite ts_ids_leaf, Li in Hn. apply En'.
           ++ destruct Hx as [Heq|Hx]; [exfalso; apply Hn; now left|exact Hx].
           ++ intro. apply Hn. now right.
      * eexists _, _. split; [reflexivity|]. split; [reflexivity|].
        split; [rewrite Dq', app_nil_r; reflexivity|]. split; [exact G'|].
        split; [exact OK'|split; [exact FF|split; [exact SDD|]]].
        intros x [Heq|Hx] Hn; [|now apply En'].
        subst x. apply ended_leaf_item; [|exact Dv'].
        destruct F' as (_ & _ & FG & _). rewrite FG; [now apply Gd2|exact Nv].
    + (* a group *)
      cbn [t_deed] in Dq.
      pose proof G as G0. pose proof W as W0.
      cbn [all t_ok1 t_wf1] in G, W. destruct G as [(Gn & Dqn & Kn) GU]. destruct W as [(NV & [kids0 Dn] & WK) WU].
      rewrite ts_ids_group in ND. destruct (nd_group _ _ _ _ ND) as (NDU & NDn & Nns & Nsk & Nsu & Disj).
      rewrite recur_loop_S, Dq in E. cbv zeta in E.
      set (rest := map t_deed U ++ DMark :: P) in *.
      change (tyme (set_deeds s sid rest)) with (tyme s) in E.
      rewrite tpass_cons, tpass1_group. rewrite ts_ids_group.
      destruct (tleb re (tyme s)) eqn:Due.
      * destruct (gen_send tk f (set_deeds s sid rest) n) as [s2 g] eqn:Es.
        assert (O2 : oof s2 = false).
        { destruct g; try (inversion E; subst; assumption); apply oof_recur_loop in E; assumption. }
        assert (F0 : frame [] [sid] s (set_deeds s sid rest)) by (apply frame_deeds; [now left|apply frame_refl]).
        assert (G1 : ts_ok (set_deeds s sid rest) [IGroup n npc re kids]).
        { eapply ts_ok_frame; [exact F0| |cbn [all t_ok1]; auto].
          intros x Hx. split; [intros []|]. intros [Heq|[]]. subst x.
          rewrite ts_ids_group, app_nil_r in Hx. destruct Hx as [Hx|Hx]; [now apply Nns|now apply Nsk]. }
        assert (W1 : ts_wf (defs (set_deeds s sid rest)) [IGroup n npc re kids]).
        { cbn [all t_wf1]. split; [|exact I]. split; [exact NV|]. split; [exists kids0; exact Dn|exact WK]. }
        destruct (Sd (set_deeds s sid rest) n npc re kids o s2 g Es O2 G1 W1 NDn (ok_deeds _ _ _ _ _ OK))
          as (kids' & o1 & Hk & OK2 & F2 & Hcase & SD2 & Ek2 & En2).
        change (tyme (set_deeds s sid rest)) with (tyme s) in Hk.
        assert (Hsub : forall x, In x (ts_ids kids') -> In x (ts_ids kids)).
        { intro x. apply subl_In. exact (proj1 (tpass_wf vis z0 _ _ (defs s) _ _ _ _ _ Hk)). }
        assert (F02 : frame (n :: ts_ids kids) (sid :: n :: ts_ids kids) s s2).
        { eapply frame_trans; [eapply frame_weaken; [| |exact F0]|eapply frame_weaken; [| |exact F2]];
            intros x Hx; cbn [In] in *; tauto. }
        assert (SD02 : same_doers s s2) by (eapply sd_trans; [apply sd_deeds, sd_refl|exact SD2]).
        assert (Dq0 : deeds (get_sched s2 sid) = rest).
        { destruct F2 as (_ & _ & _ & FS). rewrite FS; [apply deeds_set_deeds_same|].
          intros [Heq|Hx]; [now apply Nns|now apply Nsk]. }
        assert (HU : forall x, In x (ts_ids U) -> ~ In x (n :: ts_ids kids) /\ ~ In x (sid :: n :: ts_ids kids)).
        { intros x Hx. split; [intro Hin; exact (Disj x Hin Hx)|].
          intros [Heq|Hin]; [subst x; contradiction|exact (Disj x Hin Hx)]. }
        assert (FU : ts_ok s2 U) by (eapply ts_ok_frame; [exact F02|exact HU|exact GU]).
        assert (WU2 : ts_wf (defs s2) U) by (destruct F02 as (_ & -> & _); exact WU).
        assert (T2 : tyme s2 = tyme s) by (destruct F02 as (-> & _); reflexivity).
        assert (B2 : sched_tock tk s2 sid = b) by (rewrite (sched_tock_frame _ _ _ _ _ _ F02); exact B).
        assert (Hgk : forall x, In x (n :: ts_ids kids) -> ~ In x (ts_ids U) /\ ~ In x (sid :: ts_ids U)).
        { intros x Hin. split; [exact (Disj x Hin)|].
          intros [Heq|Hx2]; [|exact (Disj x Hin Hx2)].
          subst x. destruct Hin as [Hin|Hin]; [now apply Nns|now apply Nsk]. }
        rewrite Hk.
        destruct kids' as [|k kids''].
        -- destruct Hcase as [-> Gd]. unfold rest in Dq0.
           destruct (L sid b U P s2 o1 s' r E O Dq0 FU WU2 NDU OK2 B2)
             as (U' & o' & Hp & -> & Dq' & G' & OK' & F' & SD' & En').
           rewrite T2 in Hp. rewrite Hp.
           eexists _, _. split; [reflexivity|]. split; [reflexivity|]. split; [exact Dq'|].
           split; [exact G'|]. split; [exact OK'|].
           split; [|split; [eapply sd_trans; eassumption|]].
           ++ eapply frame_trans; [eapply frame_weaken; [| |exact F02]|eapply frame_weaken; [| |exact F']];
                intros x Hx; cbn [In] in *; rewrite ?in_app_iff in *; tauto.
           ++ intros x Hx Hn.
              assert (Hx' : In x (n :: ts_ids kids) \/ In x (ts_ids U)).
              { cbn [In] in *. rewrite in_app_iff in Hx. tauto. }
              destruct Hx' as [Hin|Hx']; [|now apply En'].
              destruct (Hgk x Hin) as [Hg1 Hg2].
              eapply endedid_frame; [exact F'|exact Hg1|exact Hg2|].
              destruct Hin as [<-|Hin]; [now apply En2|apply Ek2; [exact Hin|intros []]].
        -- destruct Hcase as (-> & Gs). cbv beta iota zeta in E.
           rewrite B2, T2 in E.
           set (re' := if tfalsy (tabs z0) then tadd (tyme s) b else tadd re (tabs z0)) in *.
           set (s3 := set_deeds s2 sid (deeds (get_sched s2 sid) ++ [DDeed n re'])) in *.
           assert (F3 : frame [] [sid] s2 s3) by (apply frame_deeds; [now left|apply frame_refl]).
           assert (Dq3 : deeds (get_sched s3 sid) = map t_deed U ++ DMark :: (P ++ [DDeed n re'])).
           { unfold s3. rewrite deeds_set_deeds_same, Dq0. unfold rest. now rewrite <- app_assoc. }
           assert (FU3 : ts_ok s3 U).
           { eapply ts_ok_frame; [exact F3| |exact FU]. intros x Hx. split; [intros []|].
             intros [Heq|[]]. subst x. contradiction. }
           assert (B3 : sched_tock tk s3 sid = b) by (rewrite (sched_tock_frame _ _ _ _ _ _ F3); exact B2).
           destruct (L sid b U _ s3 o1 s' r E O Dq3 FU3 WU2 NDU (ok_deeds _ _ _ _ _ OK2) B3)
             as (U' & o' & Hp & -> & Dq' & G' & OK' & F' & SD' & En').
           change (tyme s3) with (tyme s2) in Hp. rewrite T2 in Hp. rewrite Hp.
           eexists _, _. split; [reflexivity|]. split; [reflexivity|].
           split; [rewrite Dq', <- app_assoc; reflexivity|].
           split; [|split; [exact OK'|split; [|split]]].
           ++ change (ts_ok s' (IGroup n npc re' (k :: kids'') :: U')) with
                (t_ok1 s' (IGroup n npc re' (k :: kids'')) /\ ts_ok s' U').
              split; [|exact G'].
              assert (G3 : ts_ok s' [IGroup n npc re (k :: kids'')]).
              { apply (ts_ok_frame (ts_ids U) (sid :: ts_ids U) s3 s' _ F').
                - intros x Hx. rewrite ts_ids_group, app_nil_r in Hx. apply Hgk.
                  destruct Hx as [<-|Hx]; [now left|right; now apply Hsub].
                - apply (ts_ok_frame [] [sid] s2 s3 _ F3); [|exact Gs].
                  intros x Hx. split; [intros []|]. intros [Heq|[]]. subst x.
                  rewrite ts_ids_group, app_nil_r in Hx.
                  destruct Hx as [Hx|Hx]; [now apply Nns|apply Nsk; now apply Hsub]. }
              exact (proj1 G3).
           ++ eapply frame_trans; [eapply frame_weaken; [| |exact F02]|].
              1,2: intros x Hx; cbn [In] in *; rewrite ?in_app_iff in *; tauto.
              eapply frame_trans; [eapply frame_weaken; [| |exact F3]|eapply frame_weaken; [| |exact F']];
                intros x Hx; cbn [In] in *; rewrite ?in_app_iff in *; tauto.
           ++ eapply sd_trans; [exact SD02|]. eapply sd_trans; [|exact SD']. unfold s3. apply sd_deeds, sd_refl.
           ++ intros x Hx Hn. rewrite ts_ids_group in Hn.
              assert (Hn' : n <> x /\ ~ In x (ts_ids (k :: kids'')) /\ ~ In x (ts_ids U')).
              { cbn [In] in Hn. rewrite in_app_iff in Hn. tauto. }
              destruct Hn' as (Hn1 & Hn2 & Hn3).
              assert (Hx' : In x (ts_ids kids) \/ In x (ts_ids U)).
              { cbn [In] in Hx. rewrite in_app_iff in Hx. destruct Hx as [Heq|Hx]; [now subst x|exact Hx]. }
              destruct Hx' as [Hin|Hx']; [|now apply En'].
              destruct (Hgk x (or_intror Hin)) as [Hg1 Hg2].
              eapply endedid_frame; [exact F'|exact Hg1|exact Hg2|].
              eapply endedid_frame; [exact F3|intros []| |apply Ek2; [exact Hin|exact Hn2]].
              intros [Heq|[]]. subst x. now apply Nsk.
      * (* not due: rotated to the back untouched *)
        set (s3 := set_deeds (set_deeds s sid rest) sid (rest ++ [DDeed n re])) in *.
        assert (F3 : frame [] [sid] s s3).
        { unfold s3. apply frame_deeds; [now left|]. apply frame_deeds; [now left|]. apply frame_refl. }
        assert (Dq3 : deeds (get_sched s3 sid) = map t_deed U ++ DMark :: (P ++ [DDeed n re])).
        { unfold s3. rewrite deeds_set_deeds_same. unfold rest. now rewrite <- app_assoc. }
        assert (FU3 : ts_ok s3 U).
        { eapply ts_ok_frame; [exact F3| |exact GU]. intros x Hx. split; [intros []|].
          intros [Heq|[]]. subst x. contradiction. }
        assert (B3 : sched_tock tk s3 sid = b) by (rewrite (sched_tock_frame _ _ _ _ _ _ F3); exact B).
        destruct (L sid b U _ s3 o s' r E O Dq3 FU3 WU NDU (ok_deeds _ _ _ _ _ (ok_deeds _ _ _ _ _ OK)) B3)
          as (U' & o' & Hp & -> & Dq' & G' & OK' & F' & SD' & En').
        change (tyme s3) with (tyme s) in Hp. rewrite Hp.
        eexists _, _. split; [reflexivity|]. split; [reflexivity|].
        split; [rewrite Dq', <- app_assoc; reflexivity|].
        split; [|split; [exact OK'|split; [|split]]].
        -- change (ts_ok s' (IGroup n npc re kids :: U')) with (t_ok1 s' (IGroup n npc re kids) /\ ts_ok s' U').
           split; [|exact G'].
           assert (G3 : ts_ok s' [IGroup n npc re kids]).
           { apply (ts_ok_frame (ts_ids U) (sid :: ts_ids U) s3 s' _ F').
             - intros x Hx. rewrite ts_ids_group, app_nil_r in Hx.
               split; [exact (Disj x Hx)|].
               intros [Heq|Hx2]; [|exact (Disj x Hx Hx2)].
               subst x. destruct Hx as [Hx|Hx]; [now apply Nns|now apply Nsk].
             - apply (ts_ok_frame [] [sid] s s3 _ F3); [|cbn [all t_ok1]; auto].
               intros x Hx. split; [intros []|]. intros [Heq|[]]. subst x.
               rewrite ts_ids_group, app_nil_r in Hx. destruct Hx as [Hx|Hx]; [now apply Nns|now apply Nsk]. }
           exact (proj1 G3).
        -- eapply frame_trans; [eapply frame_weaken; [| |exact F3]|eapply frame_weaken; [| |exact F']];
             intros x Hx; cbn [In] in *; rewrite ?in_app_iff in *; tauto.
        -- eapply sd_trans; [|exact SD']. unfold s3. apply sd_deeds, sd_deeds, sd_refl.
        -- intros x Hx Hn. rewrite ts_ids_group in Hn. apply En'.
           ++ cbn [In] in *. rewrite in_app_iff in *. tauto.
           ++ cbn [In] in *. rewrite in_app_iff in *. tauto.
Qed.

Lemma pass_all' : forall f, loop_at' f /\ send_at' f /\ send_at' (S f).
Proof.
  induction f as [|f (L & S0 & S1)].
  - split; [|split].
    + intros sid b U P s o s' r E O. rewrite recur_loop_O in E. inversion E; subst; discriminate.
    + intros s n npc re kids o s' r E O. rewrite gen_send_O in E. inversion E; subst; discriminate.
    + intros s n npc re kids o s' r E O G W ND OK. exfalso.
      cbn [all t_ok1 t_wf1] in G, W. destruct G as [(Gn & _) _]. destruct W as [(_ & [kids0 D] & _) _].
      rewrite gen_send_S, Gn, D in E. cbv zeta in E. rewrite recur_pass_O in E. inversion E; subst; discriminate.
  - split; [now apply loop_step'|]. split; [exact S1|now apply send_from_loop'].
Qed.

(* ---------- enter, from a state in which the doers are startable (new or done) ---------- *)

Definition enter_at' (f : nat) : Prop := forall sid (gs : list (gtree T)) s o s' r,
  enter_own tk f s sid (map gt_top gs) = (s', r) -> oof s' = false ->
  (forall x, In x (gts_ids gs) -> startable s x = true) ->
  all (g_wf1 vis z0 (defs s)) gs -> all (g_st1 s) gs -> NoDup (sid :: gts_ids gs) -> out_ok vis s o ->
  exists its o', tenter (tyme s) gs o = (its, o') /\ r = GReturn /\
    deeds (get_sched s' sid) = deeds (get_sched s sid) ++ map t_deed its /\
    ts_ok s' its /\ out_ok vis s' o' /\ frame (gts_ids gs) (sid :: gts_ids gs) s s' /\
    same_doers s s' /\ (forall x, In x (gts_ids gs) -> ~ In x (ts_ids its) -> endedid s' x).

Definition start_at' (f : nat) : Prop := forall s n (kids : list (gtree T)) o s' r,
  gen_start tk f s n = (s', r) -> oof s' = false ->
  (forall x, In x (n :: gts_ids kids) -> startable s x = true) ->
  all (g_wf1 vis z0 (defs s)) [TGroup n kids] -> all (g_st1 s) [TGroup n kids] ->
  NoDup (n :: gts_ids kids) -> out_ok vis s o ->
  exists kids' o', tenter (tyme s) kids o = (kids', o') /\ r = GYield (Some (tabs z0)) /\
    get_gen s' n = GSusp 1 /\ deeds (get_sched s' n) = map t_deed kids' /\ ts_ok s' kids' /\
    out_ok vis s' o' /\ frame (n :: gts_ids kids) (n :: gts_ids kids) s s' /\
    same_doers s s' /\ (forall x, In x (gts_ids kids) -> ~ In x (ts_ids kids') -> endedid s' x).

Lemma start_from_enter' f : enter_at' f -> start_at' (S f).
Proof.
  intros En s n kids o s' r E O GN W St ND OK.
  cbn [all g_wf1 g_st1] in W, St. destruct W as [(NV & [kids0 D] & WK) _]. destruct St as [(Do & Dq & SK) _].
  pose proof ND as ND'. apply NoDup_cons_iff in ND' as [Nn NDk].
  assert (Gn : startable s n = true) by (apply GN; now left).
  rewrite gen_start_S in E. rewrite Gn in E. cbn [negb] in E. rewrite D in E.
  cbv zeta in E.
  set (s1 := emit (set_gen s n (GRun 0)) Enter n) in *.
  change (doers (get_sched s1 n)) with (doers (get_sched s n)) in E. rewrite Do in E.
  destruct (enter_own tk f s1 n (map gt_top kids)) as [s2 g] eqn:Ee.
  assert (O2 : oof s2 = false).
  { destruct g; inversion E; subst s'; rewrite ?oof_set_gen, ?oof_emit in O; try exact O.
    apply oof_close_own in O. destruct kbd; exact O. }
  assert (F1 : frame [n] [] s s1).
  { unfold s1. apply frame_emit. apply frame_gen; [now left|]. apply frame_refl. }
  assert (GK1 : forall x, In x (gts_ids kids) -> startable s1 x = true).
  { intros x Hx. rewrite (startable_frame _ _ _ _ _ F1); [apply GN; now right|].
    intros [Heq|[]]. subst x. contradiction. }
  assert (OK1 : out_ok vis s1 o) by (unfold s1; apply ok_emit_invis; [exact NV|now apply ok_gen]).
  assert (SK1 : all (g_st1 s1) kids) by (eapply gs_st_frame; [exact F1| |exact SK]; intros x Hx []).
  destruct (En n kids s1 o s2 g Ee O2 GK1 WK SK1 ND OK1)
    as (kids' & o' & Hp & -> & Dq2 & K2 & OK2 & F2 & SD2 & En2).
  change (tyme s1) with (tyme s) in Hp. change (get_sched s1 n) with (get_sched s n) in Dq2.
  rewrite Dq in Dq2. cbn [app] in Dq2.
  inversion E; subst s' r; clear E.
  assert (Ff : frame [n] [] s2 (set_gen s2 n (GSusp 1))) by (apply frame_gen; [now left|apply frame_refl]).
  exists kids', o'. split; [exact Hp|]. split; [reflexivity|].
  split; [apply gen_set_gen_same|]. split; [rewrite sched_set_gen; exact Dq2|].
  split; [|split; [|split; [|split]]].
  - apply (ts_ok_frame [n] [] s2 _ kids' Ff); [|exact K2].
    intros x Hx. split; [|intros []]. intros [Heq|[]]. subst x. apply Nn.
    eapply subl_In; [exact (proj1 (tenter_wf vis z0 _ (defs s) _ _ _ _ Hp))|exact Hx].
  - now apply ok_gen.
  - apply frame_gen; [now left|].
    eapply frame_trans; [eapply frame_weaken; [| |exact F1]|eapply frame_weaken; [| |exact F2]];
      intros x Hx; cbn [In] in *; tauto.
  - apply sd_gen. eapply sd_trans; [|exact SD2]. unfold s1. apply sd_emit, sd_gen, sd_refl.
  - intros x Hx Hn. eapply endedid_frame; [exact Ff| |intros []|now apply En2].
    intros [Heq|[]]. subst x. contradiction.
Qed.

Lemma enter_step' f : enter_at' f -> start_at' f -> enter_at' (S f).
Proof.
  intros En St0 sid gs s o s' r E O GN W St ND OK.
  destruct gs as [|g gs].
  - cbn [map] in E. rewrite enter_own_S in E. inversion E; subst s' r.
    exists [], o. split; [reflexivity|]. split; [reflexivity|].
    split; [now rewrite app_nil_r|]. split; [exact I|]. split; [exact OK|].
    split; [apply frame_refl|]. split; [apply sd_refl|intros x []].
  - cbn [map] in E. destruct g as [l|n kids].
    + cbn [all g_wf1 g_st1 gt_top] in W, St, E. destruct W as [[Dl Vl] WU]. destruct St as [_ SU].
      rewrite gts_ids_leaf in ND, GN. destruct (nd_leaf _ _ _ ND) as (NDU & Nl & Nls & Ns).
      assert (Gl : startable s (lf_id l) = true) by (apply GN; now left).
      destruct (enter_leaf_step' f s sid l _ s' r o E O Gl Dl Vl OK)
        as (s2 & ov & o1 & Hst & E2 & Dq2 & Hov & OK2 & F2 & SD2 & Gd2).
      assert (GN2 : forall x, In x (gts_ids gs) -> startable s2 x = true).
      { intros x Hx. rewrite (startable_frame _ _ _ _ _ F2); [apply GN; now right|].
        intros [Heq|[]]. subst x. contradiction. }
      assert (WU2 : all (g_wf1 vis z0 (defs s2)) gs) by (destruct F2 as (_ & -> & _); exact WU).
      assert (SU2 : all (g_st1 s2) gs).
      { eapply gs_st_frame; [exact F2| |exact SU]. intros x Hx [Heq|[]]. subst x. contradiction. }
      assert (T2 : tyme s2 = tyme s) by (destruct F2 as (-> & _); reflexivity).
      destruct (En sid gs s2 o1 s' r E2 O GN2 WU2 SU2 NDU OK2)
        as (its & o' & Hp & -> & Dq' & G' & OK' & F' & SD' & En').
      rewrite T2 in Hp. rewrite tenter_cons. cbn [tenter1]. rewrite Hst, Hp. rewrite Dq', Dq2, <- app_assoc.
      rewrite gts_ids_leaf.
      assert (FF : frame (lf_id l :: gts_ids gs) (sid :: lf_id l :: gts_ids gs) s s').
      { eapply frame_trans; [eapply frame_weaken; [| |exact F2]|eapply frame_weaken; [| |exact F']];
          intros x Hx; cbn [In] in *; tauto. }
      assert (SDD : same_doers s s') by (eapply sd_trans; eassumption).
      assert (Dl' : leaf_in (defs s') l).
      { destruct F' as (_ & -> & _). destruct F2 as (_ & -> & _). exact Dl. }
      destruct ov as [v|]; cbn [option_map].
      * destruct Hov as [Gv Lv].
        assert (Li : lv_id v = lf_id l) by (unfold lv_id; now rewrite Lv).
        eexists _, _. split; [reflexivity|]. split; [reflexivity|]. split; [reflexivity|].
        split; [|split; [exact OK'|split; [exact FF|split; [exact SDD|]]]].
        -- cbn [all t_ok1]. split; [|exact G'].
           eapply lv_ok_frame; [exact F'| |exact Gv]. rewrite Li. exact Nl.
        -- intros x Hx Hn. rewrite ts_ids_leaf, Li in Hn. apply En'.
           ++ destruct Hx as [Heq|Hx]; [exfalso; apply Hn; now left|exact Hx].
           ++ intro. apply Hn. now right.
      * eexists _, _. split; [reflexivity|]. split; [reflexivity|]. split; [reflexivity|].
        split; [exact G'|]. split; [exact OK'|split; [exact FF|split; [exact SDD|]]].
        intros x [Heq|Hx] Hn; [|now apply En'].
        subst x. apply ended_leaf; [|exact Dl'].
        destruct F' as (_ & _ & FG & _). rewrite FG; [now apply Gd2|exact Nl].
    + pose proof W as W0. pose proof St as St0'.
      cbn [all g_wf1 g_st1 gt_top] in W, St, E. destruct W as [(NV & Dn & WK) WU]. destruct St as [(Do & Dq & SK) SU].
      rewrite gts_ids_group in ND, GN. destruct (nd_group _ _ _ _ ND) as (NDU & NDn & Nns & Nsk & Nsu & Disj).
      rewrite enter_own_S in E. cbv zeta in E.
      set (s0 := set_done s n (Some false)) in *.
      pose proof (oof_gen_start_enter tk _ _ _ _ _ _ _ E O) as O1.
      destruct (gen_start tk f s0 n) as [s1 g] eqn:Es. cbn [fst] in O1.
      assert (GN0 : forall x, In x (n :: gts_ids kids) -> startable s0 x = true).
      { intros x Hx. change (startable s0 x) with (startable s x). apply GN. cbn [In] in *. rewrite in_app_iff. tauto. }
      assert (W1 : all (g_wf1 vis z0 (defs s0)) [TGroup n kids]).
      { cbn [all g_wf1]. split; [|exact I]. split; [exact NV|]. split; [exact Dn|exact WK]. }
      assert (S1 : all (g_st1 s0) [TGroup n kids]).
      { cbn [all g_st1]. split; [|exact I]. split; [exact Do|]. split; [exact Dq|].
        eapply (gs_st_frame [] [] s s0); [unfold s0; apply frame_done; apply frame_refl| |exact SK]. intros x Hx []. }
      destruct (St0 s0 n kids o s1 g Es O1 GN0 W1 S1 NDn (ok_done_invis _ _ _ _ _ NV OK))
        as (kids' & o1 & Hk & -> & Gs & Dqs & Ks & OK1 & F1 & SD1 & En1).
      change (tyme s0) with (tyme s) in Hk.
      assert (Hsub : forall x, In x (ts_ids kids') -> In x (gts_ids kids)).
      { intro x. apply subl_In. exact (proj1 (tenter_wf vis z0 _ (defs s) _ _ _ _ Hk)). }
      assert (F01 : frame (n :: gts_ids kids) (n :: gts_ids kids) s s1).
      { eapply frame_trans; [|exact F1]. unfold s0. apply frame_done. apply frame_refl. }
      assert (T1 : tyme s1 = tyme s) by (destruct F01 as (-> & _); reflexivity).
      rewrite T1 in E.
      set (s2 := set_deeds s1 sid (deeds (get_sched s1 sid) ++ [DDeed n (tyme s)])) in *.
      assert (F12 : frame [] [sid] s1 s2) by (apply frame_deeds; [now left|apply frame_refl]).
      assert (F2 : frame (n :: gts_ids kids) (sid :: n :: gts_ids kids) s s2).
      { eapply frame_trans; [eapply frame_weaken; [| |exact F01]|eapply frame_weaken; [| |exact F12]];
          intros x Hx; cbn [In] in *; tauto. }
      assert (SD02 : same_doers s s2).
      { eapply sd_trans; [|unfold s2; apply sd_deeds, sd_refl].
        eapply sd_trans; [|exact SD1]. unfold s0. apply sd_done, sd_refl. }
      assert (Dq2 : deeds (get_sched s2 sid) = deeds (get_sched s sid) ++ [DDeed n (tyme s)]).
      { unfold s2. rewrite deeds_set_deeds_same. destruct F01 as (_ & _ & _ & FS). rewrite FS; [reflexivity|].
        intros [Heq|Hx]; [now apply Nns|now apply Nsk]. }
      assert (GN2 : forall x, In x (gts_ids gs) -> startable s2 x = true).
      { intros x Hx. rewrite (startable_frame _ _ _ _ _ F2); [apply GN; right; apply in_or_app; now right|].
        intro Hin. exact (Disj x Hin Hx). }
      assert (WU2 : all (g_wf1 vis z0 (defs s2)) gs) by (destruct F2 as (_ & -> & _); exact WU).
      assert (SU2 : all (g_st1 s2) gs).
      { eapply gs_st_frame; [exact F2| |exact SU]. intros x Hx [Heq|Hin]; [subst x; contradiction|exact (Disj x Hin Hx)]. }
      assert (Hgk : forall x, In x (n :: gts_ids kids) -> ~ In x (gts_ids gs) /\ ~ In x (sid :: gts_ids gs)).
      { intros x Hin. split; [exact (Disj x Hin)|].
        intros [Heq|Hx2]; [|exact (Disj x Hin Hx2)].
        subst x. destruct Hin as [Hin|Hin]; [now apply Nns|now apply Nsk]. }
      destruct (En sid gs s2 o1 s' r E O GN2 WU2 SU2 NDU (ok_deeds _ _ _ _ _ OK1))
        as (its & o' & Hp & -> & Dq' & G' & OK' & F' & SD' & En').
      change (tyme s2) with (tyme s1) in Hp. rewrite T1 in Hp.
      rewrite tenter_cons, tenter1_group, Hk, Hp. rewrite Dq', Dq2, <- app_assoc. rewrite gts_ids_group.
      eexists _, _. split; [reflexivity|]. split; [reflexivity|]. split; [reflexivity|].
      split; [|split; [exact OK'|split; [|split]]].
      * change (ts_ok s' (IGroup n 1 (tyme s) kids' :: its)) with (t_ok1 s' (IGroup n 1 (tyme s) kids') /\ ts_ok s' its).
        split; [|exact G'].
        assert (G3 : ts_ok s' [IGroup n 1 (tyme s) kids']).
        { apply (ts_ok_frame (gts_ids gs) (sid :: gts_ids gs) s2 s' _ F').
          - intros x Hx. rewrite ts_ids_group, app_nil_r in Hx. apply Hgk.
            destruct Hx as [<-|Hx]; [now left|right; now apply Hsub].
          - apply (ts_ok_frame [] [sid] s1 s2 _ F12).
            + intros x Hx. split; [intros []|]. intros [Heq|[]]. subst x.
              rewrite ts_ids_group, app_nil_r in Hx.
              destruct Hx as [Hx|Hx]; [now apply Nns|apply Nsk; now apply Hsub].
            + cbn [all t_ok1]. auto. }
        exact (proj1 G3).
      * eapply frame_trans; [eapply frame_weaken; [| |exact F2]|eapply frame_weaken; [| |exact F']];
          intros x Hx; cbn [In] in *; rewrite ?in_app_iff in *; tauto.
      * eapply sd_trans; eassumption.
      * intros x Hx Hn. rewrite ts_ids_group in Hn.
        assert (Hn' : n <> x /\ ~ In x (ts_ids kids') /\ ~ In x (ts_ids its)).
        { cbn [In] in Hn. rewrite in_app_iff in Hn. tauto. }
        destruct Hn' as (Hn1 & Hn2 & Hn3).
        assert (Hx' : In x (gts_ids kids) \/ In x (gts_ids gs)).
        { cbn [In] in Hx. rewrite in_app_iff in Hx. destruct Hx as [Heq|Hx]; [now subst x|exact Hx]. }
        destruct Hx' as [Hin|Hx']; [|now apply En'].
        destruct (Hgk x (or_intror Hin)) as [Hg1 Hg2].
        eapply endedid_frame; [exact F'|exact Hg1|exact Hg2|].
        eapply endedid_frame; [exact F12|intros []| |apply En1; [exact Hin|exact Hn2]].
        intros [Heq|[]]. subst x. now apply Nsk.
Qed.

Lemma enter_all' : forall f, enter_at' f /\ start_at' f.
Proof.
  induction f as [|f [En St]].
  - split.
    + intros sid gs s o s' r E O. rewrite enter_own_O in E. inversion E; subst; discriminate.
    + intros s n kids o s' r E O. rewrite gen_start_O in E. inversion E; subst; discriminate.
  - split; [now apply enter_step'|now apply start_from_enter'].
Qed.

(* ---------- exit ---------- *)

Definition closel_at' (f : nat) : Prop := forall (L : list (titem T)) s o,
  oof (close_list tk f s (map t_deed L)) = false ->
  ts_ok s L -> ts_wf (defs s) L -> NoDup (ts_ids L) -> out_ok vis s o ->
  out_ok vis (close_list tk f s (map t_deed L)) (lvs_close (tyme s) (rev (tflatten (rev L))) o) /\
  frame (ts_ids L) (ts_ids L) s (close_list tk f s (map t_deed L)) /\
  same_doers s (close_list tk f s (map t_deed L)) /\
  (forall x, In x (ts_ids L) -> endedid (close_list tk f s (map t_deed L)) x).

Definition gclose_at' (f : nat) : Prop := forall s n npc (re : T) kids o,
  oof (gen_close tk f s n) = false ->
  ts_ok s [IGroup n npc re kids] -> ts_wf (defs s) [IGroup n npc re kids] ->
  NoDup (n :: ts_ids kids) -> out_ok vis s o ->
  out_ok vis (gen_close tk f s n) (lvs_close (tyme s) (rev (tflatten kids)) o) /\
  frame (n :: ts_ids kids) (n :: ts_ids kids) s (gen_close tk f s n) /\
  same_doers s (gen_close tk f s n) /\
  (forall x, In x (n :: ts_ids kids) -> endedid (gen_close tk f s n) x).

Lemma gclose_from' f : closel_at' f -> gclose_at' (S (S f)).
Proof.
  intros CL s n npc re kids o O G W ND OK.
  cbn [all t_ok1 t_wf1] in G, W. destruct G as [(Gn & Dq & K) _]. destruct W as [(NV & [kids0 D] & WK) _].
  pose proof ND as ND'. apply NoDup_cons_iff in ND' as [Nn NDk].
  rewrite gen_close_S, Gn, D in *. cbv zeta in *.
  set (s1 := emit (set_gen s n (GRun npc)) Cease n) in *.
  rewrite oof_set_gen, oof_emit in O.
  rewrite close_own_S in *. cbv zeta in *.
  change (get_sched s1 n) with (get_sched s n) in *. rewrite Dq in *.
  unfold unrotate in *. rewrite split_mark_ts in *. rewrite <- map_rev in *.
  set (s2 := set_deeds s1 n []) in *.
  assert (F2 : frame [n] [n] s s2).
  { unfold s2, s1. apply frame_deeds; [now left|]. apply frame_emit. apply frame_gen; [now left|]. apply frame_refl. }
  assert (OK2 : out_ok vis s2 o).
  { unfold s2, s1. apply ok_deeds. apply ok_emit_invis; [exact NV|]. now apply ok_gen. }
  assert (K2 : ts_ok s2 (rev kids)).
  { apply ts_ok_rev. eapply ts_ok_frame; [exact F2| |exact K].
    intros x Hx. split; intros [Heq|[]]; subst x; contradiction. }
  assert (ND2 : NoDup (ts_ids (rev kids))) by (eapply Permutation_NoDup; [apply ts_ids_rev|exact NDk]).
  assert (Hrev : forall x, In x (ts_ids (rev kids)) <-> In x (ts_ids kids)).
  { intro x. split; apply Permutation_in; [symmetry|]; apply ts_ids_rev. }
  destruct (CL (rev kids) s2 o O K2 (ts_wf_rev vis z0 _ _ WK) ND2 OK2) as (OK' & F' & SD' & En').
  set (s3 := close_list tk f s2 (map t_deed (rev kids))) in *.
  change (tyme s2) with (tyme s) in OK'. rewrite rev_involutive in OK'.
  assert (Ff : frame [n] [] s3 (set_gen (emit s3 Exit n) n GDone)).
  { apply frame_gen; [now left|]. apply frame_emit. apply frame_refl. }
  assert (F23 : frame (n :: ts_ids kids) (n :: ts_ids kids) s s3).
  { eapply frame_trans.
    - eapply frame_weaken; [| |exact F2]; intros x [->|[]]; now left.
    - eapply frame_weaken; [| |exact F']; intros x Hx; right; now apply Hrev. }
  split; [|split; [|split]].
  - apply ok_gen. apply ok_emit_invis; [exact NV|exact OK'].
  - apply frame_gen; [now left|]. apply frame_emit. exact F23.
  - apply sd_gen, sd_emit. eapply sd_trans; [|exact SD']. unfold s2, s1. apply sd_deeds, sd_emit, sd_gen, sd_refl.
  - intros x [Heq|Hx].
    + subst x. split; [apply gen_set_gen_same|].
      change (defs (set_gen (emit s3 Exit n) n GDone)) with (defs s3).
      destruct F23 as (_ & -> & _). rewrite D. rewrite sched_set_gen, sched_emit.
      destruct F' as (_ & _ & _ & FS). rewrite FS; [unfold s2; apply deeds_set_deeds_same|].
      intro Hx. apply Nn. now apply Hrev.
    + eapply endedid_frame; [exact Ff| |intros []|apply En'; now apply Hrev].
      intros [Heq|[]]. subst x. contradiction.
Qed.

Lemma closel_step' f : closel_at' f -> gclose_at' f -> closel_at' (S f).
Proof.
  intros CL GC L s o O G W ND OK.
  destruct L as [|it L].
  - cbn [map] in *. rewrite close_list_S. split; [exact OK|]. split; [apply frame_refl|].
    split; [apply sd_refl|intros x []].
  - rewrite close_order_cons. cbn [map] in *. destruct it as [v|n npc re kids].
    + cbn [all t_ok1 t_wf1 t_deed] in *. destruct G as [Gv GU]. destruct W as [[[Dv Pv] Vv] WU].
      rewrite ts_ids_leaf in *. apply NoDup_cons_iff in ND as [Nv NDU].
      change (lv_deed v :: map t_deed L) with (DDeed (lv_id v) (v_re v) :: map t_deed L) in *.
      rewrite close_list_deed in *.
      pose proof (oof_close_list _ _ _ _ O) as O1.
      rewrite (leaf_close _ _ _ _ _ _ _ O1 Gv Dv) in *.
      set (s1 := set_gen (emit (emit (set_gen s (lv_id v) (GRun (v_pc v))) Cease (lv_id v)) Exit (lv_id v)) (lv_id v) GDone) in *.
      assert (F1 : frame [lv_id v] [] s s1).
      { unfold s1. apply frame_gen; [now left|]. do 2 apply frame_emit. apply frame_gen; [now left|]. apply frame_refl. }
      assert (OK1 : out_ok vis s1 (lvs_close (tyme s) (rev (tflat1 (ILeaf v))) o)).
      { unfold s1. cbn [tflat1 rev app lvs_close]. apply ok_gen.
        apply (ok_emit_vis vis (emit (set_gen s (lv_id v) (GRun (v_pc v))) Cease (lv_id v)) _ Exit (lv_id v) Vv).
        apply (ok_emit_vis vis (set_gen s (lv_id v) (GRun (v_pc v))) _ Cease (lv_id v) Vv). now apply ok_gen. }
      assert (GU1 : ts_ok s1 L).
      { eapply ts_ok_frame; [exact F1| |exact GU]. intros x Hx. split; [|intros []].
        intros [Heq|[]]. subst x. contradiction. }
      destruct (CL L s1 _ O GU1 WU NDU OK1) as (OK' & F' & SD' & En').
      split; [exact OK'|]. split; [|split].
      * eapply frame_trans; [eapply frame_weaken; [| |exact F1]|eapply frame_weaken; [| |exact F']];
          intros x Hx; cbn [In] in *; tauto.
      * eapply sd_trans; [|exact SD']. unfold s1. apply sd_gen, sd_emit, sd_emit, sd_gen, sd_refl.
      * intros x [Heq|Hx]; [|now apply En'].
        subst x. eapply endedid_frame; [exact F'|exact Nv|exact Nv|].
        apply ended_leaf_item; [unfold s1; apply gen_set_gen_same|split; assumption].
    + pose proof G as G0. pose proof W as W0.
      cbn [all t_ok1 t_wf1 t_deed] in G, W. destruct G as [Gg GU]. destruct W as [Wg WU].
      rewrite ts_ids_group in *.
      change (n :: ts_ids kids ++ ts_ids L) with ((n :: ts_ids kids) ++ ts_ids L) in ND.
      pose proof (NoDup_app_l _ _ ND) as NDn. pose proof (NoDup_app_r _ _ ND) as NDU.
      pose proof (NoDup_app_disj _ _ ND) as Disj.
      cbn [t_deed] in *. rewrite close_list_deed in *.
      pose proof (oof_close_list _ _ _ _ O) as O1.
      assert (G1 : ts_ok s [IGroup n npc re kids]) by (cbn [all t_ok1]; auto).
      assert (W1 : ts_wf (defs s) [IGroup n npc re kids]) by (cbn [all t_wf1]; auto).
      destruct (GC s n npc re kids o O1 G1 W1 NDn OK) as (OK1 & F1 & SD1 & En1).
      set (s1 := gen_close tk f s n) in *.
      assert (GU1 : ts_ok s1 L).
      { eapply ts_ok_frame; [exact F1| |exact GU]. intros x Hx. split; intro Hin; exact (Disj x Hin Hx). }
      assert (WU1 : ts_wf (defs s1) L) by (destruct F1 as (_ & -> & _); exact WU).
      assert (T1 : tyme s1 = tyme s) by (destruct F1 as (-> & _); reflexivity).
      destruct (CL L s1 _ O GU1 WU1 NDU OK1) as (OK' & F' & SD' & En'). rewrite T1 in OK'.
      split; [exact OK'|]. split; [|split].
      * eapply frame_trans; [eapply frame_weaken; [| |exact F1]|eapply frame_weaken; [| |exact F']];
          intros x Hx; cbn [In] in *; rewrite ?in_app_iff in *; tauto.
      * eapply sd_trans; eassumption.
      * intros x Hx.
        assert (Hx' : In x (n :: ts_ids kids) \/ In x (ts_ids L)).
        { cbn [In] in *. rewrite in_app_iff in Hx. tauto. }
        destruct Hx' as [Hin|Hx']; [|now apply En'].
        eapply endedid_frame; [exact F'|exact (Disj x Hin)|exact (Disj x Hin)|now apply En1].
Qed.

Lemma close_all' : forall f, closel_at' f /\ gclose_at' f /\ gclose_at' (S f).
Proof.
  induction f as [|f (CL & G0 & G1)].
  - split; [|split].
    + intros L s o O. rewrite close_list_O in O. discriminate.
    + intros s n npc re kids o O. rewrite gen_close_O in O. discriminate.
    + intros s n npc re kids o O G W. exfalso.
      cbn [all t_ok1 t_wf1] in G, W. destruct G as [(Gn & _) _]. destruct W as [(_ & [kids0 D] & _) _].
      rewrite gen_close_S, Gn, D in O. cbv zeta in O. rewrite close_own_O in O. discriminate.
  - split; [now apply closel_step'|]. split; [exact G1|now apply gclose_from'].
Qed.

(* ---------- frames that ignore the tyme ---------- *)

Definition gframe (Xg Xs : list id) s s' : Prop :=
  defs s' = defs s /\
  (forall j, ~ In j Xg -> get_gen s' j = get_gen s j) /\
  (forall j, ~ In j Xs -> get_sched s' j = get_sched s j).

Lemma frame_gframe Xg Xs s s' : frame Xg Xs s s' -> gframe Xg Xs s s'.
Proof. intros (_ & D & G & S). repeat split; assumption. Qed.
Lemma gframe_refl Xg Xs s : gframe Xg Xs s s.
Proof. repeat split; reflexivity. Qed.
Lemma gframe_trans Xg Xs a s (c : st T) : gframe Xg Xs a s -> gframe Xg Xs s c -> gframe Xg Xs a c.
Proof.
  intros (D1 & G1 & S1) (D2 & G2 & S2). repeat split; try congruence.
  - intros j Hj. now rewrite G2, G1.
  - intros j Hj. now rewrite S2, S1.
Qed.
Lemma gframe_weaken Xg Xs Yg Ys a s : incl Xg Yg -> incl Xs Ys -> gframe Xg Xs a s -> gframe Yg Ys a s.
Proof.
  intros Ig Is (D1 & G1 & S1). repeat split; try assumption.
  - intros j Hj. apply G1. intro. apply Hj. now apply Ig.
  - intros j Hj. apply S1. intro. apply Hj. now apply Is.
Qed.
Lemma gf_tyme Xg Xs a s t : gframe Xg Xs a s -> gframe Xg Xs a (set_tyme s t).
Proof. intros (D1 & G1 & S1). repeat split; assumption. Qed.
Lemma gf_rlive Xg Xs a s (v : bool) : gframe Xg Xs a s -> gframe Xg Xs a (set_rlive s v).
Proof. intros (D1 & G1 & S1). repeat split; assumption. Qed.
Lemma gf_done Xg Xs a s i d : gframe Xg Xs a s -> gframe Xg Xs a (set_done s i d).
Proof. intros (D1 & G1 & S1). repeat split; assumption. Qed.
Lemma gf_emit Xg Xs a s k i : gframe Xg Xs a s -> gframe Xg Xs a (emit s k i).
Proof. intros (D1 & G1 & S1). repeat split; assumption. Qed.
Lemma gf_deeds Xg Xs a s i d : In i Xs -> gframe Xg Xs a s -> gframe Xg Xs a (set_deeds s i d).
Proof.
  intros Hi (D1 & G1 & S1). repeat split; try assumption.
  intros j Hj. rewrite sched_set_deeds_other; [now apply S1|]. intro; subst; contradiction.
Qed.
Lemma gf_sched Xg Xs a s i c : In i Xs -> gframe Xg Xs a s -> gframe Xg Xs a (set_sched s i c).
Proof.
  intros Hi (D1 & G1 & S1). repeat split; try assumption.
  intros j Hj. unfold get_sched, set_sched; cbn [scheds]. rewrite get_set_other; [now apply S1|].
  intro; subst; contradiction.
Qed.

Lemma endedid_gframe Xg Xs s s' x :
  gframe Xg Xs s s' -> ~ In x Xg -> ~ In x Xs -> endedid s x -> endedid s' x.
Proof.
  intros (D & FG & FS) Ng Ns [G E]. split; [now rewrite FG|]. rewrite D, FS by exact Ns. exact E.
Qed.

(* ---------- the cycle loop, with the state it leaves behind ---------- *)

Lemma root_pass_t' (U : list (titem T)) f s o s' r :
  recur_pass tk f s 0%N = (s', r) -> oof s' = false -> Rept vis z0 s U o ->
  exists U' o', tpass (tabs z0) tk (tyme s) U o = (U', o') /\
    r = GReturn /\ deeds (get_sched s' 0%N) = map t_deed U' /\
    ts_ok s' U' /\ out_ok vis s' o' /\ frame (ts_ids U) (0%N :: ts_ids U) s s' /\
    same_doers s s' /\ (forall x, In x (ts_ids U) -> ~ In x (ts_ids U') -> endedid s' x).
Proof.
  intros E O (Dq & G & W & ND & OK).
  destruct f as [|f]; [rewrite recur_pass_O in E; inversion E; subst; discriminate|].
  rewrite recur_pass_S in E. cbv zeta in E.
  set (s1 := set_deeds s 0%N (deeds (get_sched s 0%N) ++ [DMark])) in *.
  assert (F1 : frame [] [0%N] s s1) by (apply frame_deeds; [now left|apply frame_refl]).
  assert (Dq1 : deeds (get_sched s1 0%N) = map t_deed U ++ DMark :: []).
  { unfold s1. rewrite deeds_set_deeds_same. now rewrite Dq. }
  assert (G1 : ts_ok s1 U).
  { eapply ts_ok_frame; [exact F1| |exact G]. intros x Hx. split; [intros []|].
    intros [Heq|[]]. subst x. apply NoDup_cons_iff in ND as [N0 _]. contradiction. }
  destruct (pass_all' f) as (L & _).
  destruct (L 0%N tk U [] s1 o s' r E O Dq1 G1 W ND (ok_deeds _ _ _ _ _ OK) eq_refl)
    as (U' & o' & Hp & -> & Dq' & G' & OK' & F' & SD' & En').
  exists U', o'. split; [exact Hp|]. split; [reflexivity|]. split; [exact Dq'|].
  split; [exact G'|]. split; [exact OK'|]. split; [|split; [|exact En']].
  - eapply frame_trans; [eapply frame_weaken; [| |exact F1]|exact F']; intros x Hx; cbn [In] in *; tauto.
  - eapply sd_trans; [|exact SD']. unfold s1. apply sd_deeds, sd_refl.
Qed.

Lemma root_close_t' f s (its : list (titem T)) o :
  oof (close_own tk f s 0%N) = false ->
  deeds (get_sched s 0%N) = map t_deed its ->
  ts_ok s its -> ts_wf (defs s) its -> NoDup (0%N :: ts_ids its) -> out_ok vis s o ->
  out_ok vis (close_own tk f s 0%N) (tclose (tyme s) its o) /\
  tyme (close_own tk f s 0%N) = tyme s /\
  frame (ts_ids its) (0%N :: ts_ids its) s (close_own tk f s 0%N) /\
  same_doers s (close_own tk f s 0%N) /\
  (forall x, In x (ts_ids its) -> endedid (close_own tk f s 0%N) x) /\
  deeds (get_sched (close_own tk f s 0%N) 0%N) = [].
Proof.
  intros O Dq G W ND OK.
  destruct f as [|f]; [rewrite close_own_O in O; discriminate|].
  rewrite close_own_S in *. cbv zeta in *. rewrite Dq in *.
  unfold unrotate in *. rewrite split_mark_ts in *. rewrite <- map_rev in *.
  apply NoDup_cons_iff in ND as [N0 ND].
  set (s1 := set_deeds s 0%N []) in *.
  assert (F1 : frame [] [0%N] s s1) by (apply frame_deeds; [now left|apply frame_refl]).
  assert (G1 : ts_ok s1 (rev its)).
  { apply ts_ok_rev. eapply ts_ok_frame; [exact F1| |exact G]. intros x Hx. split; [intros []|].
    intros [Heq|[]]. subst x. contradiction. }
  assert (ND1 : NoDup (ts_ids (rev its))) by (eapply Permutation_NoDup; [apply ts_ids_rev|exact ND]).
  assert (Hrev : forall x, In x (ts_ids (rev its)) <-> In x (ts_ids its)).
  { intro x. split; apply Permutation_in; [symmetry|]; apply ts_ids_rev. }
  destruct (close_all' f) as (CL & _).
  destruct (CL (rev its) s1 o O G1 (ts_wf_rev vis z0 _ _ W) ND1 (ok_deeds _ _ _ _ _ OK)) as (OK' & F' & SD' & En').
  rewrite rev_involutive in OK'.
  split; [exact OK'|]. split; [destruct F' as (-> & _); reflexivity|].
  split; [|split; [|split]].
  - eapply frame_trans; [eapply frame_weaken; [| |exact F1]|eapply frame_weaken; [| |exact F']].
    + intros x [].
    + intros x Hx; cbn [In] in *; tauto.
    + intros x Hx. now apply Hrev.
    + intros x Hx. right. now apply Hrev.
  - eapply sd_trans; [|exact SD']. unfold s1. apply sd_deeds, sd_refl.
  - intros x Hx. apply En'. now apply Hrev.
  - destruct F' as (_ & _ & _ & FS). rewrite FS; [unfold s1; apply deeds_set_deeds_same|].
    intro Hx. apply N0. now apply Hrev.
Qed.

Lemma cycle_spec_t' (X : list id) : forall c f s its o limit stop,
  oof (cycle_loop tk c f s limit stop) = false -> Rept vis z0 s its o ->
  ~ In 0%N X -> incl (ts_ids its) X -> (forall x, In x X -> ~ In x (ts_ids its) -> endedid s x) ->
  exists t' o', tspec_cycles tk (tabs z0) c (tyme s) its o limit stop = Some (t', o') /\
    tyme (cycle_loop tk c f s limit stop) = t' /\ out_ok vis (cycle_loop tk c f s limit stop) o' /\
    gframe X (0%N :: X) s (cycle_loop tk c f s limit stop) /\
    same_doers s (cycle_loop tk c f s limit stop) /\
    (forall x, In x X -> endedid (cycle_loop tk c f s limit stop) x) /\
    deeds (get_sched (cycle_loop tk c f s limit stop) 0%N) = [].
Proof.
  induction c as [|c IH]; intros f s its o limit stop O R N0 Inc Dead; [discriminate|].
  pose proof R as (Dq & G & W & ND & OK).
  rewrite cycle_loop_S in *. destruct (recur_pass tk f s 0%N) as [s1 r] eqn:E. cbn [fst snd] in *.
  pose proof (after_pass_oof _ _ _ _ _ _ _ O) as O1.
  destruct (root_pass_t' its f s o s1 r E O1 R) as (its' & o1 & Hp & -> & Dq1 & G1 & OK1 & F1 & SD1 & En1).
  assert (T1 : tyme s1 = tyme s) by (destruct F1 as (-> & _); reflexivity).
  destruct (tpass_wf vis z0 (tabs z0) (tyme s) (defs s) its tk o its' o1 Hp) as [Sub Wf].
  assert (W1 : ts_wf (defs s1) its') by (destruct F1 as (_ & -> & _); auto).
  assert (ND1 : NoDup (0%N :: ts_ids its')) by (eapply subl_NoDup; [apply subl_keep; exact Sub|exact ND]).
  assert (Inc1 : incl (ts_ids its') X) by (intros x Hx; apply Inc; eapply subl_In; eassumption).
  assert (GF1 : gframe X (0%N :: X) s s1).
  { eapply gframe_weaken; [| |apply frame_gframe; exact F1]; intros x Hx; cbn [In] in *; auto.
    destruct Hx as [Hx|Hx]; auto. }
  assert (Dead1 : forall x, In x X -> ~ In x (ts_ids its') -> endedid s1 x).
  { intros x Hx Hn. destruct (in_dec N.eq_dec x (ts_ids its)) as [Hi|Hi]; [now apply En1|].
    eapply endedid_frame; [exact F1|exact Hi| |now apply Dead].
    intros [Heq|Hx2]; [subst x; contradiction|contradiction]. }
  cbn [tspec_cycles]. rewrite Hp.
  unfold after_pass in *. cbv zeta in *. rewrite T1 in *.
  set (s2 := set_tyme s1 (tadd (tyme s) tk)) in *.
  change (deeds (get_sched s2 0%N)) with (deeds (get_sched s1 0%N)) in *. rewrite Dq1 in *.
  change (tyme s2) with (tadd (tyme s) tk) in *.
  assert (GF2 : gframe X (0%N :: X) s s2) by (apply gf_tyme; exact GF1).
  assert (SD2 : same_doers s s2) by exact SD1.
  assert (Dead2 : forall x, In x X -> ~ In x (ts_ids its') -> endedid s2 x) by exact Dead1.
  destruct its' as [|it its''].
  - cbn [map] in *. rewrite oof_emit in O.
    rewrite close_own_empty in * by (try exact O; rewrite sched_set_done; exact Dq1).
    set (sf := emit (set_deeds (set_done s2 0%N (Some true)) 0%N []) DoReturn 0%N).
    assert (Ff : gframe [] [0%N] s2 sf).
    { unfold sf. apply gf_emit. apply gf_deeds; [now left|]. apply gf_done. apply gframe_refl. }
    eexists _, _. split; [reflexivity|]. split; [reflexivity|].
    split; [|split; [|split; [|split]]].
    + apply (ok_emit_vis vis (set_deeds (set_done s2 0%N (Some true)) 0%N []) _ DoReturn 0%N vis0).
      apply ok_deeds. apply ok_done_vis. apply ok_tyme. exact OK1.
    + eapply gframe_trans; [exact GF2|]. eapply gframe_weaken; [| |exact Ff]; intros x Hx; cbn [In] in *; tauto.
    + eapply sd_trans; [exact SD2|]. unfold sf. apply sd_emit, sd_deeds, sd_done, sd_refl.
    + intros x Hx. eapply endedid_gframe; [exact Ff|intros []| |apply Dead2; [exact Hx|intros []]].
      intros [Heq|[]]. subst x. contradiction.
    + unfold sf. rewrite sched_emit. apply deeds_set_deeds_same.
  - cbn [map] in O |- *.
    destruct (limited limit && tleb stop (tadd (tyme s) tk)).
    + rewrite oof_emit in O.
      destruct (root_close_t' f s2 (it :: its'') o1 O Dq1 (ts_ok_tyme _ _ _ G1) W1 ND1 (ok_tyme _ _ _ _ OK1))
        as (OK' & T' & F' & SD' & En' & Dq').
      set (sc := close_own tk f s2 0%N) in *.
      eexists _, _. split; [reflexivity|]. split; [exact T'|].
      split; [|split; [|split; [|split]]].
      * pose proof (ok_emit_vis vis sc _ DoReturn 0%N vis0 OK') as Xo.
        rewrite T' in Xo. exact Xo.
      * apply gf_emit. eapply gframe_trans; [exact GF2|].
        eapply gframe_weaken; [| |apply frame_gframe; exact F']; intros x Hx; cbn [In] in *; auto.
        destruct Hx as [Hx|Hx]; auto.
      * apply sd_emit. eapply sd_trans; eassumption.
      * intros x Hx. change (endedid sc x).
        destruct (in_dec N.eq_dec x (ts_ids (it :: its''))) as [Hi|Hi]; [now apply En'|].
        eapply endedid_frame; [exact F'|exact Hi| |now apply Dead2].
        intros [Heq|Hx2]; [subst x; contradiction|contradiction].
      * rewrite sched_emit. exact Dq'.
    + destruct (IH f s2 (it :: its'') o1 limit stop O) as (t' & o' & Hs & Ht & OKf & GFf & SDf & Enf & Dqf);
        [|exact N0|exact Inc1|exact Dead2|].
      * split; [exact Dq1|]. split; [apply ts_ok_tyme; exact G1|].
        split; [exact W1|split; [exact ND1|apply ok_tyme; exact OK1]].
      * change (tyme s2) with (tadd (tyme s) tk) in Hs.
        exists t', o'. split; [exact Hs|]. split; [exact Ht|]. split; [exact OKf|].
        split; [eapply gframe_trans; eassumption|]. split; [eapply sd_trans; eassumption|].
        split; [exact Enf|exact Dqf].
Qed.

(* ---------- one whole run from an arbitrary idle pre-state ---------- *)

(* every doer of the tree can be (re)started; every DoDoer has its kids as doers and an empty deque *)
Fixpoint g_idle1 s (g : gtree T) : Prop :=
  match g with
  | TLeaf l => startable s (lf_id l) = true
  | TGroup n kids =>
    startable s n = true /\ doers (get_sched s n) = map gt_top kids /\ deeds (get_sched s n) = [] /\
    all (g_idle1 s) kids
  end.

Lemma idle_startable s : forall G, all (g_idle1 s) G -> forall x, In x (gts_ids G) -> startable s x = true.
Proof.
  induction G as [|l r IH|n kids r IHk IH] using gtrees_ind; intros Hi x Hx.
  - destruct Hx.
  - cbn [all g_idle1] in Hi. rewrite gts_ids_leaf in Hx. destruct Hi as [Il Ir].
    destruct Hx as [<-|Hx]; [exact Il|now apply IH].
  - cbn [all g_idle1] in Hi. rewrite gts_ids_group in Hx. destruct Hi as [(In_ & _ & _ & Ik) Ir].
    destruct Hx as [<-|Hx]; [exact In_|]. apply in_app_or in Hx as [Hx|Hx]; [now apply IHk|now apply IH].
Qed.

Lemma idle_st s : forall G, all (g_idle1 s) G -> all (g_st1 s) G.
Proof.
  induction G as [|l r IH|n kids r IHk IH] using gtrees_ind; intro Hi; [exact I| |]; cbn [all g_idle1 g_st1] in *.
  - split; [exact I|]. apply IH, Hi.
  - destruct Hi as [(_ & Do & Dq & Ik) Ir]. split; [split; [exact Do|split; [exact Dq|auto]]|auto].
Qed.

Lemma idle_from_ended s0 s : forall G,
  all (g_idle1 s0) G -> all (g_wf1 vis z0 (defs s)) G -> same_doers s0 s ->
  (forall x, In x (gts_ids G) -> endedid s x) -> all (g_idle1 s) G.
Proof.
  intros G Hi W SD. revert Hi W.
  induction G as [|l r IH|n kids r IHk IH] using gtrees_ind; intros Hi W En; [exact I| |]; cbn [all g_idle1 g_wf1] in *.
  - destruct Hi as [_ Ir]. destruct W as [_ Wr]. split.
    + destruct (En (lf_id l)) as [Gd _]; [rewrite gts_ids_leaf; now left|]. unfold startable. now rewrite Gd.
    + apply IH; [exact Ir|exact Wr|]. intros x Hx. apply En. rewrite gts_ids_leaf. now right.
  - destruct Hi as [(_ & Do & _ & Ik) Ir]. destruct W as [(_ & [kids0 D] & Wk) Wr].
    destruct (En n) as [Gd Dq]; [rewrite gts_ids_group; now left|]. rewrite D in Dq.
    split; [split; [|split; [|split]]|].
    + unfold startable. now rewrite Gd.
    + rewrite SD. exact Do.
    + exact Dq.
    + apply IHk; [exact Ik|exact Wk|]. intros x Hx. apply En. rewrite gts_ids_group. right. apply in_or_app. now left.
    + apply IH; [exact Ir|exact Wr|]. intros x Hx. apply En. rewrite gts_ids_group. right. apply in_or_app. now right.
Qed.

Lemma idle_gframe Xg Xs s s' : forall G,
  gframe Xg Xs s s' -> (forall x, In x (gts_ids G) -> ~ In x Xg /\ ~ In x Xs) ->
  all (g_idle1 s) G -> all (g_idle1 s') G.
Proof.
  intros G (_ & FG & FS).
  induction G as [|l r IH|n kids r IHk IH] using gtrees_ind; intros Hn Hi; [exact I| |]; cbn [all g_idle1] in *.
  - destruct Hi as [Il Ir]. split.
    + unfold startable. rewrite FG; [exact Il|]. apply Hn. rewrite gts_ids_leaf. now left.
    + apply IH; [|exact Ir]. intros x Hx. apply Hn. rewrite gts_ids_leaf. now right.
  - destruct Hi as [(In_ & Do & Dq & Ik) Ir].
    assert (Hn' : ~ In n Xg /\ ~ In n Xs) by (apply Hn; rewrite gts_ids_group; now left).
    split; [split; [|split; [|split]]|].
    + unfold startable. rewrite FG; [exact In_|apply Hn'].
    + rewrite FS; [exact Do|apply Hn'].
    + rewrite FS; [exact Dq|apply Hn'].
    + apply IHk; [|exact Ik]. intros x Hx. apply Hn. rewrite gts_ids_group. right. apply in_or_app. now left.
    + apply IH; [|exact Ir]. intros x Hx. apply Hn. rewrite gts_ids_group. right. apply in_or_app. now right.
Qed.

(* the common body of Doist.do: enter the root doers, run the cycle loop *)
Definition run_tail (cycles fuel : nat) (limit : option T) (s0 : st T) (ds : list id) : st T :=
  let '(s1, r) := enter_own tk fuel s0 0%N ds in
  match r with
  | GRaise _ => emit (close_own tk fuel s1 0%N) DoRaise 0%N
  | GFuel => s1
  | _ =>
    let lim := option_map tabs limit in
    let stop := tadd (tyme s1) (match lim with Some l => l | None => tzero end) in
    cycle_loop tk cycles fuel (set_rlive s1 true) lim stop
  end.

Definition tspec_tail (cycles : nat) (limit : option T) (t : T) (cur : list (gtree T)) (o : out T) : option (T * out T) :=
  let '(its, o1) := tenter t cur o in
  let limit' := option_map tabs limit in
  let stop := tadd t (match limit' with Some l => l | None => tzero end) in
  tspec_cycles tk (tabs z0) cycles t its o1 limit' stop.

Lemma run_tail_oof cycles fuel limit s0 ds : oof s0 = true -> oof (run_tail cycles fuel limit s0 ds) = true.
Proof.
  intro O. unfold run_tail. destruct (enter_own tk fuel s0 0%N ds) as [s1 r] eqn:E.
  assert (O1 : oof s1 = true).
  { destruct (oof s1) eqn:X; [reflexivity|]. apply (oof_enter_own tk _ _ _ _ _ _ E) in X. congruence. }
  destruct r; cbv zeta; try exact O1; try (apply cycle_loop_oof_fwd; exact O1).
  rewrite oof_emit. now apply close_own_oof_fwd.
Qed.

Lemma tail_spec cycles fuel limit s0 (cur : list (gtree T)) o :
  oof (run_tail cycles fuel limit s0 (map gt_top cur)) = false ->
  all (g_wf1 vis z0 (defs s0)) cur -> all (g_idle1 s0) cur -> NoDup (0%N :: gts_ids cur) ->
  deeds (get_sched s0 0%N) = [] -> out_ok vis s0 o ->
  exists t' o', tspec_tail cycles limit (tyme s0) cur o = Some (t', o') /\
    tyme (run_tail cycles fuel limit s0 (map gt_top cur)) = t' /\
    out_ok vis (run_tail cycles fuel limit s0 (map gt_top cur)) o' /\
    gframe (gts_ids cur) (0%N :: gts_ids cur) s0 (run_tail cycles fuel limit s0 (map gt_top cur)) /\
    same_doers s0 (run_tail cycles fuel limit s0 (map gt_top cur)) /\
    (forall x, In x (gts_ids cur) -> endedid (run_tail cycles fuel limit s0 (map gt_top cur)) x) /\
    deeds (get_sched (run_tail cycles fuel limit s0 (map gt_top cur)) 0%N) = [].
Proof.
  intros O W Hi ND Dq0 OK. unfold run_tail in *.
  destruct (enter_own tk fuel s0 0%N (map gt_top cur)) as [s1 r] eqn:Ee.
  assert (O1 : oof s1 = false).
  { destruct r; try exact O.
    - apply oof_cycle_loop in O. exact O.
    - apply oof_cycle_loop in O. exact O.
    - rewrite oof_emit in O. now apply oof_close_own in O. }
  destruct (enter_all' fuel) as [En _].
  destruct (En 0%N cur s0 o s1 r Ee O1 (idle_startable _ _ Hi) W (idle_st _ _ Hi) ND OK)
    as (its & o1 & He & -> & Dq & G & OK1 & F & SD & En1).
  rewrite Dq0 in Dq. cbn [app] in Dq.
  assert (T1 : tyme s1 = tyme s0) by (destruct F as (-> & _); reflexivity).
  destruct (tenter_wf vis z0 (tyme s0) (defs s0) cur o its o1 He) as [Sub Wf].
  pose proof ND as ND'. apply NoDup_cons_iff in ND' as [N0 _].
  assert (R : Rept vis z0 (set_rlive s1 true) its o1).
  { split; [exact Dq|]. split; [apply ts_ok_rlive; exact G|].
    split; [change (defs (set_rlive s1 true)) with (defs s1); destruct F as (_ & -> & _); auto|].
    split; [eapply subl_NoDup; [apply subl_keep; exact Sub|exact ND]|].
    destruct OK1 as [E D]. split; assumption. }
  cbv zeta in *. rewrite T1 in O |- *.
  destruct (cycle_spec_t' (gts_ids cur) cycles fuel (set_rlive s1 true) its o1 _ _ O R N0)
    as (t' & o' & Hs & Ht & OK' & GF & SDc & Enc & Dqc).
  { intros x Hx. eapply subl_In; eassumption. }
  { intros x Hx Hn. exact (En1 x Hx Hn). }
  change (tyme (set_rlive s1 true)) with (tyme s1) in Hs. rewrite T1 in Hs.
  exists t', o'. split; [unfold tspec_tail; rewrite He; exact Hs|].
  split; [exact Ht|]. split; [exact OK'|].
  assert (GFa : gframe (gts_ids cur) (0%N :: gts_ids cur) s0 (set_rlive s1 true)).
  { apply gf_rlive. apply frame_gframe. exact F. }
  assert (SDa : same_doers s0 (cycle_loop tk cycles fuel (set_rlive s1 true) (option_map tabs limit)
                    (tadd (tyme s0) match option_map tabs limit with Some l => l | None => tzero end))).
  { eapply sd_trans; [|exact SDc]. exact SD. }
  split; [eapply gframe_trans; eassumption|]. split; [exact SDa|]. split; [exact Enc|exact Dqc].
Qed.

(* after a run: a doer is ended, or it was not touched *)
Lemma idle_mixed s0 s : forall G,
  all (g_idle1 s0) G -> all (g_wf1 vis z0 (defs s)) G -> same_doers s0 s ->
  (forall x, In x (gts_ids G) ->
     endedid s x \/ (get_gen s x = get_gen s0 x /\ get_sched s x = get_sched s0 x)) ->
  all (g_idle1 s) G.
Proof.
  intros G Hi W SD. revert Hi W.
  induction G as [|l r IH|n kids r IHk IH] using gtrees_ind; intros Hi W En; [exact I| |]; cbn [all g_idle1 g_wf1] in *.
  - destruct Hi as [Il Ir]. destruct W as [_ Wr]. split.
    + destruct (En (lf_id l)) as [[Gd _]|[Gg _]]; [rewrite gts_ids_leaf; now left| |]; unfold startable in *;
        [now rewrite Gd|now rewrite Gg].
    + apply IH; [exact Ir|exact Wr|]. intros x Hx. apply En. rewrite gts_ids_leaf. now right.
  - destruct Hi as [(In_ & Do & Dq0 & Ik) Ir]. destruct W as [(_ & [kids0 D] & Wk) Wr].
    split; [split; [|split; [|split]]|].
    + destruct (En n) as [[Gd _]|[Gg _]]; [rewrite gts_ids_group; now left| |]; unfold startable in *;
        [now rewrite Gd|now rewrite Gg].
    + rewrite SD. exact Do.
    + destruct (En n) as [[_ Dq]|[_ Gs]]; [rewrite gts_ids_group; now left| |].
      * now rewrite D in Dq.
      * now rewrite Gs.
    + apply IHk; [exact Ik|exact Wk|]. intros x Hx. apply En. rewrite gts_ids_group. right. apply in_or_app. now left.
    + apply IH; [exact Ir|exact Wr|]. intros x Hx. apply En. rewrite gts_ids_group. right. apply in_or_app. now right.
Qed.

Lemma idle_of_st s : forall G, all (g_st1 s) G -> (forall x, startable s x = true) -> all (g_idle1 s) G.
Proof.
  intros G St A. revert St.
  induction G as [|l r IH|n kids r IHk IH] using gtrees_ind; intro St; [exact I| |]; cbn [all g_idle1 g_st1] in *.
  - split; [apply A|apply IH, St].
  - destruct St as [(Do & Dq & Sk) Sr]. split; [split; [apply A|split; [exact Do|split; [exact Dq|auto]]]|auto].
Qed.

End HRun.
