(* On a reused parser the result of a message does not depend on the messages
   parsed before it. *)
From Hio Require Import Base.Prelude Model.HttpLine Model.Chunk Model.HttpMsg
  Proofs.HttpLineProofs Proofs.ChunkProofs Proofs.HttpMsgProofs.

Definition body_phase (s : mstate) : bool :=
  match m_phase s with PChunk _ _ _ _ | PFixed _ _ | PUntil _ _ => true | _ => false end.

(* same phase; the carried chunk attributes may differ only before a body starts *)
Definition eqc (s t : mstate) : Prop :=
  m_phase s = m_phase t /\ (body_phase s = true -> m_carry s = m_carry t).

Lemma eqc_refl s : eqc s s.
Proof. split; auto. Qed.

Lemma eqc_body_eq s t : eqc s t -> body_phase s = true -> s = t.
Proof. destruct s, t. intros [H1 H2] Hb. cbn in *. subst. rewrite (H2 Hb). reflexivity. Qed.

Definition res_eqc (x y : sres mstate (option msg)) : Prop :=
  match x, y with
  | Need, Need => True
  | Fail e, Fail e' => e = e'
  | Step s r o, Step t r' o' => r = r' /\ o = o' /\ eqc s t
  | _, _ => False
  end.

Lemma res_eqc_refl x : res_eqc x x.
Proof. destruct x; cbn; auto using eqc_refl. Qed.

Lemma stage_eqc k s t b : eqc s t -> res_eqc (msg_stage k s b) (msg_stage k t b).
Proof.
  intros He. destruct (body_phase s) eqn:Hb.
  - rewrite (eqc_body_eq s t He Hb). apply res_eqc_refl.
  - destruct s as [ph cy], t as [ph' cy']. destruct He as [Hp _]. cbn in Hp. subst ph'.
    unfold body_phase in Hb. cbn [m_phase] in Hb. unfold msg_stage. cbn [m_phase m_carry].
    destruct ph as [ct|h|sl h|hd cs body p|hd n|hd rbody]; try discriminate.
    + destruct (line_stage EHttp false b) as [|sk r l|e]; cbn; auto.
      destruct (match k with Req => parse_request_line l | Resp _ => parse_status_line l end) as [sl|e]; cbn; auto.
      destruct k as [|hd]; [|destruct (N.eqb (sl_status sl) 100)]; cbn; repeat split; auto; discriminate.
    + destruct (leader_step h b); cbn; auto; repeat split; auto; discriminate.
    + destruct (leader_step h b) as [|e|h' r|h' r]; cbn; auto.
      * repeat split; auto; discriminate.
      * apply res_eqc_refl.
Qed.

Lemma run_eqc k : forall f s t b,
  eqc s t ->
  snd (run (msg_stage k) f s b) = snd (run (msg_stage k) f t b) /\
  match fst (run (msg_stage k) f s b), fst (run (msg_stage k) f t b) with
  | Live s' b', Live t' b'' => b' = b'' /\ eqc s' t'
  | Dead e, Dead e' => e = e'
  | _, _ => False
  end.
Proof.
  induction f as [|f IH]; intros s t b He; [cbn; auto|].
  cbn [run]. pose proof (stage_eqc k s t b He) as Hs.
  destruct (msg_stage k s b) as [|s' r o|e], (msg_stage k t b) as [|t' r' o'|e']; cbn in Hs; try contradiction.
  - cbn. auto.
  - destruct Hs as [-> [-> He']]. destruct (IH s' t' r' He') as [Ho Hp].
    destruct (run (msg_stage k) f s' r') as [p os], (run (msg_stage k) f t' r') as [p' os']. cbn in *.
    split; [congruence|exact Hp].
  - subst. cbn. auto.
Qed.

(* a parser that has just finished a message: waiting for a start line with an
   empty buffer, whatever chunk attributes the finished message had *)
Definition between_messages (p : pstate mstate) : Prop :=
  exists cy, p = Live (start_state cy) [].

(* Per-message independence.  If the bytes w1 are exactly a sequence of
   complete messages (the parser fed w1 is between messages), then the messages
   decoded from any following bytes w2 on the SAME parser -- bodies, chunk
   parameters, trailers, persistence, everything observed -- are those a fresh
   parser decodes from w2 alone. *)
Theorem messages_independent k w1 w2 os1 p1 :
  feed (msg_stage k) init_state w1 = (p1, os1) -> between_messages p1 ->
  snd (feed (msg_stage k) init_state (w1 ++ w2)) = os1 ++ snd (feed (msg_stage k) init_state w2).
Proof.
  intros Hf [cy ->].
  pose proof (msg_feeds_concat k [w1; w2]) as Hc.
  cbn [concat feeds] in Hc. rewrite app_nil_r in Hc. rewrite <- Hc, Hf.
  destruct (feed (msg_stage k) (Live (start_state cy) []) w2) as [p2 os2] eqn:E2. cbn [snd].
  f_equal. rewrite app_nil_r.
  cbn [feed app] in E2 |- *. unfold init_state. cbn [app].
  assert (He : eqc (start_state cy) (start_state init_carry)) by (split; [reflexivity|discriminate]).
  destruct (run_eqc k (S (length w2)) _ _ w2 He) as [Ho _].
  rewrite E2 in Ho. cbn [snd] in Ho. exact Ho.
Qed.

(* ... hence for any list of byte strings each of which is a complete message
   sequence for a fresh parser: parsing them back to back on ONE parser gives,
   message by message, what fresh parsers give. *)
Theorem message_list_independent k : forall ws,
  Forall (fun w => between_messages (fst (feed (msg_stage k) init_state w))) ws ->
  snd (feed (msg_stage k) init_state (concat ws)) =
  concat (map (fun w => snd (feed (msg_stage k) init_state w)) ws).
Proof.
  induction ws as [|w ws IH]; intros H; [reflexivity|].
  inversion H; subst. cbn [concat map].
  destruct (feed (msg_stage k) init_state w) as [p1 os1] eqn:E. cbn [fst snd] in *.
  rewrite (messages_independent k w (concat ws) os1 p1 E H2), (IH H3). reflexivity.
Qed.

(* ------------------------------------------------------------------------ *)
(* Transfer-Encoding: chunked overrides Content-Length (RFC 7230 3.3.3). *)
Lemma chunked_length_ignored k sl h :
  te_chunked h = true ->
  head_length k sl h =
  match k with
  | Req => None
  | Resp head =>
    let st := sl_status sl in
    if N.eqb st 204 || N.eqb st 304 || (N.leb 100 st && N.ltb st 200) || head then Some 0%N else None
  end.
Proof.
  intros Hc. unfold head_length. rewrite Hc. destruct k as [|head]; [reflexivity|].
  destruct (N.eqb (sl_status sl) 204 || N.eqb (sl_status sl) 304
            || (N.leb 100 (sl_status sl) && N.ltb (sl_status sl) 200) || head); reflexivity.
Qed.

(* When the completed header block says chunked, the body is read by the chunk
   decoder whatever Content-Length says (any value, either header order), for
   requests and responses; the Content-Length value influences nothing
   (chunked_length_ignored: not even .length / the persistence decision). *)
Theorem chunked_overrides_length k sl h cy b h' r :
  leader_step h b = LDone h' r -> te_chunked h' = true ->
  msg_stage k {| m_phase := PLeader sl h; m_carry := cy |} b =
  Step {| m_phase := PChunk {| hd_start := sl; hd_headers := h'; hd_chunked := true;
                               hd_persisted := head_persisted k sl h' (head_length k sl h') |} CSize [] [];
          m_carry := init_carry |} r None.
Proof.
  intros Hl Hc. unfold msg_stage. cbn [m_phase m_carry]. rewrite Hl, Hc. reflexivity.
Qed.

(* ------------------------------------------------------------------------ *)
(* The coding name is matched whatever the case of the header name, the case
   of the value and the blanks around the value. *)
Lemma bytes_eqb_refl : forall l, bytes_eqb l l = true.
Proof. induction l as [|x l IH]; [reflexivity|]. cbn. rewrite N.eqb_refl. exact IH. Qed.

Lemma dget_dset_same {V} : forall (d : list (bytes * V)) k v, dget (dset d k v) k = Some v.
Proof.
  induction d as [|[k' v'] d IH]; intros k v; cbn.
  - rewrite bytes_eqb_refl. reflexivity.
  - destruct (bytes_eqb k k') eqn:E; cbn.
    + rewrite bytes_eqb_refl. reflexivity.
    + rewrite E. apply IH.
Qed.

Theorem chunked_name_value_folded h name value :
  lowerk name = s_te -> value <> [] ->
  te_chunked (hset h name value) = bytes_eqb (lowerk (strip ws_l1 value)) s_chunked.
Proof.
  intros Hn Hv. unfold te_chunked, hset, hget. rewrite Hn, dget_dset_same.
  destruct value; [congruence|]. reflexivity.
Qed.
