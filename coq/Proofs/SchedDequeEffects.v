(* Runtime extend / remove (C06): what one EExtend and one ERemove effect does,
   as executed by run_effects on a live target. *)
From Hio Require Import Base.Prelude Base.AMap Base.Time Model.Sched Proofs.SchedEqs Proofs.SchedFrame Proofs.SchedLife
  Proofs.SchedDeque Proofs.SchedDequeHold Proofs.SchedDequeAll Proofs.SchedDequeUniq Proofs.SchedDequeOrder.

Section Effects.
Context {T : Type} `{Time T}.
Implicit Types s a b : st T.
Variable tk : T.

(* ---------- only gen_send emits Recur ---------- *)

Definition NRc a s : Prop := exists seg, trace s = seg ++ trace a /\ Forall (fun e : ev T => e_kind e <> Recur) seg.

Lemma nrc_refl a : NRc a a. Proof. exists []. split; [reflexivity|constructor]. Qed.
Lemma nrc_emit a s k i : k <> Recur -> NRc a s -> NRc a (emit s k i).
Proof.
  intros Hk (seg & Tr & F). exists ({| e_kind := k; e_id := i; e_tyme := tyme s |} :: seg). split.
  - cbn [trace emit]. now rewrite Tr.
  - constructor; [exact Hk|exact F].
Qed.
Lemma nrc_gen a s i g : NRc a s -> NRc a (set_gen s i g). Proof. exact (fun x => x). Qed.
Lemma nrc_done a s i d : NRc a s -> NRc a (set_done s i d). Proof. exact (fun x => x). Qed.
Lemma nrc_sched a s i c : NRc a s -> NRc a (set_sched s i c). Proof. exact (fun x => x). Qed.
Lemma nrc_deeds a s i c : NRc a s -> NRc a (set_deeds s i c). Proof. exact (fun x => x). Qed.
Lemma nrc_oof a s : NRc a s -> NRc a (out_of_fuel s). Proof. exact (fun x => x). Qed.
Lemma nrc_if a s1 s2 (c : bool) : NRc a s1 -> NRc a s2 -> NRc a (if c then s1 else s2). Proof. destruct c; auto. Qed.

Definition norecur_at (f : nat) : Prop :=
  (forall a s i s' r, NRc a s -> gen_start tk f s i = (s', r) -> NRc a s') /\
  (forall a s i k sc pc s' r, NRc a s -> run_step tk f s i k sc pc = (s', r) -> NRc a s') /\
  (forall a s i, NRc a s -> NRc a (gen_close tk f s i)) /\
  (forall a s i, NRc a s -> NRc a (close_own tk f s i)) /\
  (forall a s ds, NRc a s -> NRc a (close_list tk f s ds)) /\
  (forall a s sid ids s' r, NRc a s -> enter_own tk f s sid ids = (s', r) -> NRc a s') /\
  (forall a s ids acc s' r acc', NRc a s -> enter_local tk f s ids acc = (s', r, acc') -> NRc a s') /\
  (forall a s c es s' r, NRc a s -> run_effects tk f s c es = (s', r) -> NRc a s').

Lemma norecur_all : forall f, norecur_at f.
Proof.
  induction f as [|f IH].
  - unfold norecur_at. repeat match goal with |- _ /\ _ => split end; intros;
      try match goal with E : _ = _ |- _ => cbn in E; inversion E; subst; clear E end; cbn; assumption.
  - destruct IH as (Ist & Irs & Icl & Ico & Ili & Ieo & Iel & Ief).
    Ltac goN Ist Irs Icl Ico Ili Ieo Iel Ief :=
      let rec loop :=
        match goal with
        | H : NRc ?a ?s |- NRc ?a ?s => exact H
        | |- _ <> Recur => discriminate
        | |- NRc _ (emit _ _ _) => apply nrc_emit; loop
        | |- NRc _ (set_gen _ _ _) => apply nrc_gen; loop
        | |- NRc _ (set_done _ _ _) => apply nrc_done; loop
        | |- NRc _ (set_deeds _ _ _) => apply nrc_deeds; loop
        | |- NRc _ (set_sched _ _ _) => apply nrc_sched; loop
        | |- NRc _ (out_of_fuel _) => apply nrc_oof; loop
        | |- NRc _ (if _ then _ else _) => apply nrc_if; loop
        | |- NRc _ (gen_close _ _ _ _) => apply Icl; loop
        | |- NRc _ (close_own _ _ _ _) => apply Ico; loop
        | |- NRc _ (close_list _ _ _ _) => apply Ili; loop
        | E : gen_start _ _ _ _ = (?s1, _) |- NRc _ ?s1 => eapply Ist; [|exact E]; loop
        | E : run_step _ _ _ _ _ _ _ = (?s1, _) |- NRc _ ?s1 => eapply Irs; [|exact E]; loop
        | E : enter_own _ _ _ _ _ = (?s1, _) |- NRc _ ?s1 => eapply Ieo; [|exact E]; loop
        | E : enter_local _ _ _ _ _ = (?s1, _, _) |- NRc _ ?s1 => eapply Iel; [|exact E]; loop
        | E : run_effects _ _ _ _ _ = (?s1, _) |- NRc _ ?s1 => eapply Ief; [|exact E]; loop
        end in loop.
    unfold norecur_at. repeat match goal with |- _ /\ _ => split end; intros.
    + rewrite gen_start_S in *. brk; fin; goN Ist Irs Icl Ico Ili Ieo Iel Ief.
    + rewrite run_step_S in *. brk; fin; goN Ist Irs Icl Ico Ili Ieo Iel Ief.
    + rewrite gen_close_S. brk; goN Ist Irs Icl Ico Ili Ieo Iel Ief.
    + rewrite close_own_S. cbv zeta. goN Ist Irs Icl Ico Ili Ieo Iel Ief.
    + rewrite close_list_S. brk; goN Ist Irs Icl Ico Ili Ieo Iel Ief.
    + rewrite enter_own_S in *. brk; fin; goN Ist Irs Icl Ico Ili Ieo Iel Ief.
    + rewrite enter_local_S in *. brk; fin; goN Ist Irs Icl Ico Ili Ieo Iel Ief.
    + rewrite run_effects_S in *. brk; fin; goN Ist Irs Icl Ico Ili Ieo Iel Ief.
Qed.

(* ---------- extend ---------- *)

Definition new_of s (t : id) (news : list id) : list id :=
  dedupe (filter (fun d => negb (memN d (doers (get_sched s t)))) news) [].

(* the window of one extend(): the new doers are entered (and run their step 0)
   at the unchanged tyme, nothing recurs, then doers and deeds are appended and
   ExtRet is emitted *)
Theorem extend_step f s c t news rest s' r :
  live s t = true ->
  run_effects tk (S f) s c (EExtend t news :: rest) = (s', r) ->
  exists s1 r1 acc seg,
    enter_local tk f s (new_of s t news) [] = (s1, r1, acc) /\
    tyme s1 = tyme s /\ trace s1 = seg ++ trace s /\
    Forall (fun e => e_kind e <> Recur /\ e_tyme e = tyme s) seg /\
    match r1 with
    | GRaise kbd => (s', r) = (s1, GRaise kbd)
    | GFuel => (s', r) = (s1, GFuel)
    | _ => run_effects tk f
             (emit (set_sched s1 t {| doers := doers (get_sched s1 t) ++ new_of s t news;
                                      deeds := deeds (get_sched s1 t) ++ acc |}) ExtRet c) c rest = (s', r)
    end.
Proof.
  intros Lv E. rewrite run_effects_S in E. rewrite Lv in E. cbn [negb] in E. cbv zeta in E.
  fold (new_of s t news) in E.
  destruct (enter_local tk f s (new_of s t news) []) as [[s1 r1] acc] eqn:Ee.
  destruct (frame_all tk f) as (_ & _ & _ & _ & _ & _ & _ & Fel & _).
  pose proof (Fel s s _ _ _ _ _ (st_refl s) Ee) as St.
  destruct (steps_trace_tyme s s1 St) as (seg & Tr & Ft).
  destruct (norecur_all f) as (_ & _ & _ & _ & _ & _ & Nel & _).
  destruct (Nel s s _ _ _ _ _ (nrc_refl s) Ee) as (seg' & Tr' & Fn).
  assert (seg' = seg) by (rewrite Tr in Tr'; now apply app_inv_tail in Tr'). subst seg'.
  exists s1, r1, acc, seg. split; [reflexivity|]. split; [now apply steps_tyme|]. split; [exact Tr|].
  split.
  - apply Forall_forall. intros e Hin. rewrite Forall_forall in Ft, Fn. split; [now apply Fn|now apply Ft].
  - destruct r1; try (symmetry; exact E); exact E.
Qed.

Lemma dedupe_nil seen : dedupe [] seen = []. Proof. reflexivity. Qed.

Lemma new_of_present s t news : (forall x, In x news -> In x (doers (get_sched s t))) -> new_of s t news = [].
Proof.
  intro Hp. unfold new_of. rewrite filter_none; [reflexivity|].
  intros x Hx. apply negb_false_iff. apply memN_in. now apply Hp.
Qed.

(* extending with doers that are all present changes nothing but the ExtRet event *)
Theorem extend_present f s c t news rest s' r :
  live s t = true -> (forall x, In x news -> In x (doers (get_sched s t))) ->
  run_effects tk (S (S f)) s c (EExtend t news :: rest) = (s', r) ->
  exists s2, run_effects tk (S f) s2 c rest = (s', r) /\
    trace s2 = {| e_kind := ExtRet; e_id := c; e_tyme := tyme s |} :: trace s /\
    (forall x, get_sched s2 x = get_sched s x) /\ gens s2 = gens s /\ dones s2 = dones s /\ tyme s2 = tyme s.
Proof.
  intros Lv Hp E. destruct (extend_step _ _ _ _ _ _ _ _ Lv E) as (s1 & r1 & acc & seg & Ee & _ & _ & _ & M).
  rewrite (new_of_present s t news Hp) in *. rewrite enter_local_S in Ee. inversion Ee; subst s1 r1 acc. clear Ee.
  eexists. split; [exact M|]. split; [reflexivity|]. split; [|repeat split].
  intro x. change (get_sched (set_sched s t {| doers := doers (get_sched s t) ++ []; deeds := deeds (get_sched s t) ++ [] |}) x = get_sched s x).
  rewrite !app_nil_r. destruct (N.eq_dec x t) as [Heq|Hne].
  - subst x. rewrite sched_set_same. now destruct (get_sched s t).
  - now apply sched_set_other.
Qed.

(* the new deeds go behind the marker of a pass that is under way *)
Lemma split_mark_app (u r acc a0 : list (deed T)) :
  ~ In DMark u -> split_mark (u ++ DMark :: r ++ acc) a0 = Some (rev a0 ++ u, r ++ acc).
Proof.
  revert a0. induction u as [|d u IH]; intros a0 Hn.
  - cbn. now rewrite app_nil_r.
  - destruct d as [|i re]; [exfalso; apply Hn; now left|].
    cbn [app split_mark]. rewrite IH by (intro Hx; apply Hn; now right).
    cbn [rev]. now rewrite <- app_assoc.
Qed.

Theorem extend_behind_marker (u r acc : list (deed T)) :
  ~ In DMark u ->
  split_mark ((u ++ DMark :: r) ++ acc) [] = Some (u, r ++ acc) /\ unrotate ((u ++ DMark :: r) ++ acc) = (r ++ acc) ++ u.
Proof.
  intro Hn. rewrite <- app_assoc. cbn [app]. unfold unrotate. rewrite (split_mark_app u r acc [] Hn). split; reflexivity.
Qed.

(* ---------- remove ---------- *)

Lemma doers_close : forall f,
  (forall s i x, doers (get_sched (gen_close tk f s i) x) = doers (get_sched s x)) /\
  (forall s sid x, doers (get_sched (close_own tk f s sid) x) = doers (get_sched s x)) /\
  (forall s ds x, doers (get_sched (close_list tk f s ds) x) = doers (get_sched s x)).
Proof.
  assert (SD : forall s sid l x, doers (get_sched (set_deeds s sid l) x) = doers (get_sched s x)).
  { intros s sid l x. unfold set_deeds. destruct (N.eq_dec x sid) as [Heq|Hne].
    - subst x. now rewrite sched_set_same.
    - now rewrite sched_set_other. }
  induction f as [|f (Icl & Ico & Ili)]; [repeat split; intros; reflexivity|].
  repeat split; intros.
  - rewrite gen_close_S. destruct (get_gen s i); try reflexivity.
    destruct (get (defs s) i) as [[k sc|t0 al kids]|]; try reflexivity.
    cbv zeta. change (doers (get_sched (close_own tk f (emit (set_gen s i (GRun pc)) Cease i) i) x) = doers (get_sched s x)).
    now rewrite Ico.
  - rewrite close_own_S. cbv zeta. now rewrite Ili, SD.
  - rewrite close_list_S. destruct ds as [|[|i re] r]; [reflexivity|apply Ili|]. now rewrite Ili, Icl.
Qed.

Definition rdoers_of s (t : id) (who : list id) : list id :=
  dedupe (filter (fun d => memN d (doers (get_sched s t))) who) [].
Definition is_rem (rd : list id) (d : deed T) : bool := match d with DDeed i _ => memN i rd | DMark => false end.

Theorem remove_step f s c t who rest s' r X :
  live s t = true -> Hold s X -> Hold2 s X ->
  run_effects tk (S f) s c (ERemove t who :: rest) = (s', r) ->
  let rd := rdoers_of s t who in
  let rdeeds := filter (is_rem rd) (unrotate (dq s t)) in
  let s1 := set_sched s t {| doers := fold_left (fun l d => remove_first d l) rd (doers (get_sched s t));
                             deeds := filter (fun d => negb (is_rem rd d)) (dq s t) |} in
  let s2 := close_list tk f s1 (rev rdeeds) in
  run_effects tk f (emit s2 RemRet c) c rest = (s', r) /\
  (oof s2 = false ->
     (exists seg, trace s2 = seg ++ trace s /\ tops (dids (rev rdeeds)) seg = dids (rev rdeeds) /\
                  Forall (fun e => e_tyme e = tyme s) seg) /\
     (forall i, In i (dids rdeeds) -> get_gen s2 i = GDone /\ forall sid, ~ In i (qids s2 sid)) /\
     doers (get_sched s2 t) = fold_left (fun l d => remove_first d l) rd (doers (get_sched s t)) /\
     (running s c -> running s2 c) /\ Hold s2 X /\ Hold2 s2 X).
Proof.
  intros Lv Hh Hh2 E. rewrite run_effects_S in E. rewrite Lv in E. cbn [negb] in E. cbv zeta in E.
  intros rd rdeeds s1 s2. split; [exact E|]. intro O.
  assert (H1 : Hold s1 (dids (rev rdeeds) ++ X)) by (apply hold_remove; exact Hh).
  assert (H21 : Hold2 s1 (dids (rev rdeeds) ++ X)) by (apply hold2_remove; exact Hh2).
  destruct (close_list_order tk f s1 (rev rdeeds) X H1 H21 O) as (seg & Tr & Top).
  assert (Hs2 : Hold s2 X).
  { destruct (hold_all tk f) as (_ & _ & _ & _ & _ & Ili & _).
    destruct (Ili s1 X (rev rdeeds) (or_intror H1)) as [Ob|Hx]; [unfold s2 in O; congruence|exact Hx]. }
  assert (H2s2 : Hold2 s2 X).
  { destruct (hold2_all tk f) as (_ & _ & _ & _ & _ & Ili & _).
    destruct (Ili s1 X (rev rdeeds) (or_intror H21)) as [Ob|Hx]; [unfold s2 in O; congruence|exact Hx]. }
  split; [|split; [|split; [|split; [|split]]]].
  - exists seg. split; [exact Tr|]. split; [exact Top|].
    destruct (frame_all tk f) as (_ & _ & _ & _ & _ & Fli & _).
    destruct (steps_trace_tyme s1 s2 (Fli s1 s1 (rev rdeeds) (st_refl s1))) as (seg' & Tr' & Ft).
    assert (seg' = seg) by (apply (app_inv_tail (trace s1)); rewrite <- Tr'; exact Tr). subst seg'. exact Ft.
  - intros i Hi.
    assert (Hi' : In i (dids (rev rdeeds))) by (now apply dids_rev_in).
    rewrite <- Top in Hi'. unfold tops in Hi'. apply in_map_iff in Hi'. destruct Hi' as (e & Hid & He).
    apply filter_In in He. destruct He as [He Hc]. apply andb_true_iff in Hc. destruct Hc as [Hc _].
    apply in_rev in He.
    destruct (cl_all tk f) as (_ & _ & Ili). destruct (Ili s1 (rev rdeeds)) as (seg' & Tr' & _ & Ce).
    assert (seg' = seg) by (apply (app_inv_tail (trace s1)); rewrite <- Tr'; exact Tr). subst seg'.
    destruct (Ce e He Hc) as [_ Dn]. rewrite Hid in Dn. split; [exact Dn|].
    intros sid Hin. destruct (h2_susp _ _ _ H2s2 i) as [pc S]; [right; now exists sid|]. unfold s2 in S. congruence.
  - destruct (doers_close f) as (_ & _ & Dl). unfold s2. rewrite Dl. unfold s1. now rewrite sched_set_same.
  - intro R. destruct (framej_all tk c f) as (_ & _ & _ & _ & _ & Fli & _).
    eapply running_noj; [exact R|]. apply (Fli s s1 (rev rdeeds) R). split; reflexivity.
  - exact Hs2.
  - exact H2s2.
Qed.

(* ---------- every new doer is entered inside the window of extend() ---------- *)

Definition ent a s (i : id) : Prop :=
  exists seg e, trace s = seg ++ trace a /\ In e seg /\ e_kind e = Enter /\ e_id e = i.

Record EN a s : Prop := {
  en_tr : exists seg, trace s = seg ++ trace a;
  en_defs : defs s = defs a;
  en_gen : forall i, startable a i = true -> get_gen s i = get_gen a i \/ ent a s i }.

Lemma ent_mono a s s' i : ent a s i -> (exists seg, trace s' = seg ++ trace s) -> ent a s' i.
Proof.
  intros (seg & e & Tr & Hin & Hk & Hi) (seg2 & Tr2). exists (seg2 ++ seg), e.
  split; [now rewrite Tr2, Tr, app_assoc|]. split; [apply in_or_app; now right|]. now split.
Qed.

Lemma en_refl a : EN a a.
Proof. split; [now exists []|reflexivity|intros; now left]. Qed.
Lemma en_same a s s' : trace s' = trace s -> defs s' = defs s -> (forall i, get_gen s' i = get_gen s i) -> EN a s -> EN a s'.
Proof.
  intros Ht Hd Hg [Tr D G]. split.
  - destruct Tr as [seg Tr]. exists seg. congruence.
  - congruence.
  - intros i Si. destruct (G i Si) as [E|E]; [left; now rewrite Hg|right].
    destruct E as (seg & e & Tr' & R). exists seg, e. split; [congruence|exact R].
Qed.
Lemma en_done a s i d : EN a s -> EN a (set_done s i d). Proof. now apply en_same. Qed.
Lemma en_sched a s i c : EN a s -> EN a (set_sched s i c). Proof. now apply en_same. Qed.
Lemma en_deeds a s i c : EN a s -> EN a (set_deeds s i c). Proof. now apply en_same. Qed.
Lemma en_oof a s : EN a s -> EN a (out_of_fuel s). Proof. now apply en_same. Qed.
Lemma en_if a s1 s2 (c : bool) : EN a s1 -> EN a s2 -> EN a (if c then s1 else s2). Proof. destruct c; auto. Qed.
Lemma en_emit a s k i : EN a s -> EN a (emit s k i).
Proof.
  intros [[seg Tr] D G]. split.
  - eexists (_ :: seg). cbn [trace emit]. now rewrite Tr.
  - exact D.
  - intros j Sj. destruct (G j Sj) as [E|E]; [now left|right].
    eapply ent_mono; [exact E|]. now eexists [_].
Qed.
(* a generator that is not startable now but was in [a] has been entered since *)
Lemma en_gen_live a s j g : startable s j = false -> EN a s -> EN a (set_gen s j g).
Proof.
  intros Ns [Tr D G]. split; [exact Tr|exact D|].
  intros i Si. destruct (N.eq_dec i j) as [Heq|Hne].
  - subst i. destruct (G j Si) as [E|E]; [|right; exact E].
    exfalso. unfold startable in *. rewrite E in Ns. congruence.
  - rewrite gen_set_gen_other by exact Hne. destruct (G i Si) as [E|E]; [now left|right; exact E].
Qed.
Lemma en_start a s j : EN a s -> EN a (emit (set_gen s j (GRun 0)) Enter j) /\ ent a (emit (set_gen s j (GRun 0)) Enter j) j.
Proof.
  intros [[seg Tr] D G].
  assert (Ej : ent a (emit (set_gen s j (GRun 0)) Enter j) j).
  { eexists (_ :: seg), _. split; [cbn [trace emit set_gen]; now rewrite Tr|]. split; [now left|]. split; reflexivity. }
  split; [|exact Ej]. split.
  - eexists (_ :: seg). cbn [trace emit set_gen]. now rewrite Tr.
  - exact D.
  - intros i Si. destruct (N.eq_dec i j) as [Heq|Hne]; [subst i; now right|].
    rewrite gen_emit, gen_set_gen_other by exact Hne. destruct (G i Si) as [E|E]; [now left|right].
    eapply ent_mono; [exact E|]. now eexists [_].
Qed.

Lemma run_not_startable s i : running s i -> startable s i = false.
Proof. intros [pc R]. unfold startable. now rewrite R. Qed.

Definition en_at (f : nat) : Prop :=
  (forall a s i s' r, EN a s -> gen_start tk f s i = (s', r) ->
      EN a s' /\ (r <> GFuel -> startable a i = true -> get (defs a) i <> None -> ent a s' i)) /\
  (forall a s i k sc pc s' r, EN a s -> running s i -> run_step tk f s i k sc pc = (s', r) -> EN a s') /\
  (forall a s i, EN a s -> EN a (gen_close tk f s i)) /\
  (forall a s i, EN a s -> EN a (close_own tk f s i)) /\
  (forall a s ds, EN a s -> EN a (close_list tk f s ds)) /\
  (forall a s sid ids s' r, EN a s -> enter_own tk f s sid ids = (s', r) -> EN a s') /\
  (forall a s ids acc s' r acc', EN a s -> enter_local tk f s ids acc = (s', r, acc') ->
      EN a s' /\ (r = GReturn -> forall i, In i ids -> startable a i = true -> get (defs a) i <> None -> ent a s' i)) /\
  (forall a s c es s' r, EN a s -> run_effects tk f s c es = (s', r) -> EN a s').

Lemma grow_start f s i s' r : gen_start tk f s i = (s', r) -> exists seg, trace s' = seg ++ trace s.
Proof.
  intro E. destruct (frame_all tk f) as (Fst & _). apply steps_trace. eapply Fst; [apply st_refl|exact E].
Qed.
Lemma grow_local f s ids acc s' r acc' : enter_local tk f s ids acc = (s', r, acc') -> exists seg, trace s' = seg ++ trace s.
Proof.
  intro E. destruct (frame_all tk f) as (_ & _ & _ & _ & _ & _ & _ & Fel & _). apply steps_trace.
  eapply Fel; [apply st_refl|exact E].
Qed.

Lemma en_all : forall f, en_at f.
Proof.
  induction f as [|f IH].
  - unfold en_at. repeat match goal with |- _ /\ _ => split end; intros;
      try match goal with E : _ = _ |- _ => cbn in E; inversion E; subst; clear E end; cbn;
      first [ apply en_oof; assumption
            | split; [apply en_oof; assumption | intro Hx; try discriminate; exfalso; now apply Hx] ].
  - destruct IH as (Ist & Irs & Icl & Ico & Ili & Ieo & Iel & Ief).
    unfold en_at. repeat match goal with |- _ /\ _ => split end.
    + (* gen_start *)
      intros a s i s' r En E. rewrite gen_start_S in E.
      destruct (startable s i) eqn:St; cbn [negb] in E.
      2:{ fin. split; [exact En|]. intros _ Sa _. destruct (en_gen _ _ En i Sa) as [G|G]; [|exact G].
          exfalso. unfold startable in *. rewrite G in St. congruence. }
      destruct (get (defs s) i) as [[k sc|t0 al kids]|] eqn:D.
      * destruct (en_start a s i En) as [En1 Ei].
        split.
        -- eapply Irs; [exact En1| |exact E]. exists 0%nat. apply gen_set_gen_same.
        -- intros _ _ _. eapply ent_mono; [exact Ei|].
           destruct (frame_all tk f) as (_ & Frs & _). apply steps_trace. eapply Frs; [apply st_refl|exact E].
      * cbv zeta in E. destruct (en_start a s i En) as [En1 Ei].
        set (s1 := emit (set_gen s i (GRun 0)) Enter i) in *.
        destruct (enter_own tk f s1 i _) as [s2 r0] eqn:Ee.
        assert (En2 : EN a s2) by (eapply Ieo; [exact En1|exact Ee]).
        assert (R2 : running s2 i).
        { destruct (keep_all tk f i) as (_ & _ & _ & K & _). eapply K; [|exact Ee]. exists 0%nat. apply gen_set_gen_same. }
        assert (G2 : exists seg, trace s2 = seg ++ trace s1).
        { destruct (frame_all tk f) as (_ & _ & _ & _ & _ & _ & Feo & _). apply steps_trace.
          eapply Feo; [apply st_refl|exact Ee]. }
        assert (Ei2 : ent a s2 i) by (eapply ent_mono; [exact Ei|exact G2]).
        assert (Fin : forall s3, EN a s3 -> running s3 i -> (exists seg, trace s3 = seg ++ trace s2) ->
                      EN a (set_gen (emit (close_own tk f s3 i) Exit i) i GDone) /\
                      ent a (set_gen (emit (close_own tk f s3 i) Exit i) i GDone) i).
        { intros s3 En3 R3 G3. split.
          - apply en_gen_live; [|apply en_emit, Ico; exact En3].
            apply run_not_startable. destruct (keep_all tk f i) as (_ & _ & K & _). now apply K.
          - eapply ent_mono; [exact Ei2|]. destruct G3 as [seg3 T3].
            destruct (frame_all tk f) as (_ & _ & _ & _ & Fco & _).
            destruct (steps_trace s3 _ (Fco s3 s3 i (st_refl s3))) as [seg4 T4].
            eexists (_ :: seg4 ++ seg3). cbn [trace set_gen emit app]. rewrite T4, T3, app_assoc. reflexivity. }
        destruct r0; fin.
        -- split; [apply en_gen_live; [now apply run_not_startable|exact En2]|]. intros _ _ _. exact Ei2.
        -- split; [apply en_gen_live; [now apply run_not_startable|exact En2]|]. intros _ _ _. exact Ei2.
        -- destruct (Fin (if kbd then s2 else emit s2 Abort i)) as [A B].
           ++ destruct kbd; [exact En2|apply en_emit; exact En2].
           ++ destruct kbd; exact R2.
           ++ destruct kbd; [now exists []|now eexists [_]].
           ++ split; [exact A|intros _ _ _; exact B].
        -- split; [exact En2|congruence].
      * fin. split; [exact En|]. intros _ _ Dn. rewrite <- (en_defs _ _ En) in Dn. congruence.
    + (* run_step *)
      intros a s i k sc pc s' r En R E. rewrite run_step_S in E. cbv zeta in E.
      destruct (run_effects tk f s i _) as [s1 r0] eqn:Ee.
      assert (En1 : EN a s1) by (eapply Ief; [exact En|exact Ee]).
      assert (R1 : running s1 i).
      { destruct (keep_all tk f i) as (_ & _ & _ & _ & _ & K & _). eapply K; eassumption. }
      assert (N1 : startable s1 i = false) by now apply run_not_startable.
      destruct r0; [| |destruct kbd|]; cbv beta iota zeta in E;
        try (destruct (f_out _)); fin; try exact En1;
        repeat first [exact En1 | exact N1 | apply en_done | apply en_emit | apply en_gen_live].
    + (* gen_close *)
      intros a s i En. rewrite gen_close_S.
      destruct (get_gen s i) eqn:G; try exact En.
      assert (Ns : startable s i = false) by (unfold startable; now rewrite G).
      destruct (get (defs s) i) as [[k sc|t0 al kids]|]; [| |exact En].
      * apply en_gen_live; [|apply en_emit, en_emit, en_gen_live; [exact Ns|exact En]].
        unfold startable. rewrite !gen_emit, gen_set_gen_same. reflexivity.
      * cbv zeta. apply en_gen_live; [|apply en_emit, Ico, en_emit, en_gen_live; [exact Ns|exact En]].
        apply run_not_startable. destruct (keep_all tk f i) as (_ & _ & K & _). apply K.
        exists pc. apply gen_set_gen_same.
    + intros a s i En. rewrite close_own_S. cbv zeta. apply Ili, en_deeds. exact En.
    + intros a s ds En. rewrite close_list_S. destruct ds as [|[|i re] r]; [exact En|now apply Ili|].
      apply Ili, Icl. exact En.
    + (* enter_own *)
      intros a s sid ids s' r En E. rewrite enter_own_S in E.
      destruct ids as [|i rest]; [fin; exact En|]. cbv zeta in E.
      destruct (gen_start tk f _ i) as [s1 r0] eqn:Eg.
      destruct (Ist a _ i _ _ (en_done a s i (Some false) En) Eg) as [En1 _].
      destruct r0; fin; try exact En1.
      * eapply Ieo; [|exact E]. apply en_deeds. exact En1.
      * eapply Ieo; [exact En1|exact E].
    + (* enter_local *)
      intros a s ids acc s' r acc' En E. rewrite enter_local_S in E.
      destruct ids as [|i rest]; [fin; split; [exact En|intros _ i []]|]. cbv zeta in E.
      destruct (gen_start tk f _ i) as [s1 r0] eqn:Eg.
      destruct (Ist a _ i _ _ (en_done a s i (Some false) En) Eg) as [En1 Ei].
      destruct r0; fin.
      * destruct (Iel a _ _ _ _ _ _ En1 E) as [En' All]. split; [exact En'|].
        intros Hr j [Hj|Hj] Sj Dj; [subst j|now apply All].
        eapply ent_mono; [apply Ei; [discriminate|exact Sj|exact Dj]|]. eapply grow_local; exact E.
      * destruct (Iel a _ _ _ _ _ _ En1 E) as [En' All]. split; [exact En'|].
        intros Hr j [Hj|Hj] Sj Dj; [subst j|now apply All].
        eapply ent_mono; [apply Ei; [discriminate|exact Sj|exact Dj]|]. eapply grow_local; exact E.
      * split; [apply Ili; exact En1|discriminate].
      * split; [exact En1|discriminate].
    + (* run_effects *)
      intros a s c es s' r En E. rewrite run_effects_S in E.
      destruct es as [|e rest]; [fin; exact En|].
      destruct (negb (live s match e with EExtend t _ => t | ERemove t _ => t end)); [eapply Ief; eassumption|].
      destruct e as [t news|t who]; cbv zeta in E.
      * destruct (enter_local tk f s _ []) as [[s1 r0] acc] eqn:Ee.
        destruct (Iel a _ _ _ _ _ _ En Ee) as [En1 _].
        destruct r0; fin; try exact En1.
        -- eapply Ief; [|exact E]. apply en_emit, en_sched. exact En1.
        -- eapply Ief; [|exact E]. apply en_emit, en_sched. exact En1.
      * eapply Ief; [|exact E]. apply en_emit, Ili, en_sched. exact En.
Qed.

(* the new doers that were startable when extend() was called (the doers "added")
   each have an Enter event inside the window, when the window completes *)
Theorem extend_enters f s t news s1 acc :
  enter_local tk f s (new_of s t news) [] = (s1, GReturn, acc) ->
  forall i, In i (new_of s t news) -> startable s i = true -> get (defs s) i <> None ->
  exists seg e, trace s1 = seg ++ trace s /\ In e seg /\ e_kind e = Enter /\ e_id e = i.
Proof.
  intros Ee i Hi Si Di. destruct (en_all f) as (_ & _ & _ & _ & _ & _ & Iel & _).
  destruct (Iel s s _ _ _ _ _ (en_refl s) Ee) as [_ All]. exact (All eq_refl i Hi Si Di).
Qed.

End Effects.
