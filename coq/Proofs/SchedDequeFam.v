(* Stability of the "start family" (gen_start, run_step at pc 0, enter_own,
   enter_local, run_effects without remove, and the closes they perform on what
   they themselves started): relative to a reference state [a], doers that were
   live in [a] are not touched, deques only receive doers that were startable in
   [a], and deques of doers startable in [a] hold only such doers.  Needed for
   extend() of a suspended DoDoer: it is still the same live DoDoer when the
   enter of the new doers is over — under the static hypothesis [w_nr0]. *)
From Hio Require Import Base.Prelude Base.AMap Base.Time Model.Sched Proofs.SchedEqs Proofs.SchedFrame Proofs.SchedLife Proofs.SchedDeque Proofs.SchedDequeHold.

Section Fam.
Context {T : Type} `{Time T}.
Implicit Types s a b : st T.
Variable tk : T.

Record Fam a s : Prop := {
  fm_gen : forall j, startable a j = false -> get_gen s j = get_gen a j;
  fm_dq : forall sid j, In j (qids a sid) -> In j (qids s sid);
  fm_fresh : forall sid, sid <> 0%N -> startable a sid = true -> forall j, In j (qids s sid) -> startable a j = true;
  fm_defs : defs s = defs a }.

Lemma fam_refl a : (forall sid, sid <> 0%N -> startable a sid = true -> dq a sid = []) -> Fam a a.
Proof.
  intro La. split; try reflexivity; auto.
  intros sid Hz St j Hj. unfold qids in Hj. rewrite (La sid Hz St) in Hj. contradiction.
Qed.
Lemma fam_emit a s k i : Fam a s -> Fam a (emit s k i). Proof. intros [A B C D]. split; assumption. Qed.
Lemma fam_done a s i d : Fam a s -> Fam a (set_done s i d). Proof. intros [A B C D]. split; assumption. Qed.
Lemma fam_oof a s : Fam a s -> Fam a (out_of_fuel s). Proof. intros [A B C D]. split; assumption. Qed.
Lemma fam_if a s1 s2 (c : bool) : Fam a s1 -> Fam a s2 -> Fam a (if c then s1 else s2). Proof. destruct c; auto. Qed.
Lemma fam_gen a s i g : startable a i = true -> Fam a s -> Fam a (set_gen s i g).
Proof.
  intros St [A B C D]. split; try assumption.
  intros j Sj. rewrite gen_set_gen_other; [now apply A|]. intro Heq. subst j. congruence.
Qed.
Lemma fam_push a s sid c' ds' :
  deeds c' = dq s sid ++ ds' ->
  (forall j, In j (dids ds') -> startable a j = true) ->
  Fam a s -> Fam a (set_sched s sid c').
Proof.
  intros Dc Fr [A B C D]. split; try assumption.
  - intros x j Hj. destruct (N.eq_dec x sid) as [Heq|Hne].
    + subst x. unfold qids. rewrite dq_set_same, Dc, dids_app. apply in_or_app. left. now apply B.
    + unfold qids. rewrite dq_set_other by exact Hne. now apply B.
  - intros x Hz St j Hj. destruct (N.eq_dec x sid) as [Heq|Hne].
    + subst x. unfold qids in Hj. rewrite dq_set_same, Dc, dids_app in Hj. apply in_app_or in Hj.
      destruct Hj as [Hj|Hj]; [eapply C; eassumption|now apply Fr].
    + unfold qids in Hj. rewrite dq_set_other in Hj by exact Hne. eapply C; eassumption.
Qed.
Lemma fam_append a s sid ds' :
  (forall j, In j (dids ds') -> startable a j = true) ->
  Fam a s -> Fam a (set_deeds s sid (deeds (get_sched s sid) ++ ds')).
Proof. intros. unfold set_deeds. eapply fam_push; [reflexivity|eassumption|assumption]. Qed.
Lemma fam_clear a s sid : dq a sid = [] -> Fam a s -> Fam a (set_deeds s sid []).
Proof.
  intros Qa [A B C D]. split; try assumption.
  - intros x j Hj. destruct (N.eq_dec x sid) as [Heq|Hne].
    + subst x. unfold qids in Hj. rewrite Qa in Hj. contradiction.
    + unfold qids. rewrite dq_deeds_other by exact Hne. now apply B.
  - intros x Hz St j Hj. destruct (N.eq_dec x sid) as [Heq|Hne].
    + subst x. unfold qids in Hj. rewrite dq_deeds_same in Hj. contradiction.
    + unfold qids in Hj. rewrite dq_deeds_other in Hj by exact Hne. eapply C; eassumption.
Qed.

Lemma fam_startable a s i : Fam a s -> startable s i = true -> startable a i = true.
Proof.
  intros F St. destruct (startable a i) eqn:Sa; [reflexivity|].
  unfold startable in *. rewrite (fm_gen _ _ F i Sa) in St. congruence.
Qed.

Lemma gen_start_yield f s i s' t : gen_start tk f s i = (s', GYield t) -> startable s i = true.
Proof.
  destruct f as [|f]; [cbn; discriminate|]. rewrite gen_start_S.
  destruct (startable s i); [reflexivity|cbn; discriminate].
Qed.

Section Ref.
Variable a : st T.
Hypothesis Wa : W (defs a).
Hypothesis La : forall sid, sid <> 0%N -> startable a sid = true -> dq a sid = [].

Definition fresh (l : list id) : Prop := forall j, In j l -> startable a j = true.
Definition noremove (es : list effect) : Prop := Forall (fun e => is_remove e = false) es.

Definition fam_at (f : nat) : Prop :=
  (forall s i s' r, Fam a s -> gen_start tk f s i = (s', r) -> Fam a s') /\
  (forall s i k sc s' r, Fam a s -> startable a i = true -> get (defs a) i = Some (FLeaf k sc) ->
                         run_step tk f s i k sc 0 = (s', r) -> Fam a s') /\
  (forall s i, Fam a s -> startable a i = true -> Fam a (gen_close tk f s i)) /\
  (forall s sid, Fam a s -> startable a sid = true -> sid <> 0%N -> Fam a (close_own tk f s sid)) /\
  (forall s (ds : list (deed T)), Fam a s -> fresh (dids ds) -> Fam a (close_list tk f s ds)) /\
  (forall s sid ids s' r, Fam a s -> startable a sid = true -> sid <> 0%N ->
                          enter_own tk f s sid ids = (s', r) -> Fam a s') /\
  (forall s ids (acc : list (deed T)) s' r acc', Fam a s -> fresh (dids acc) ->
                               enter_local tk f s ids acc = (s', r, acc') -> Fam a s' /\ fresh (dids acc')) /\
  (forall s c es s' r, Fam a s -> noremove es -> run_effects tk f s c es = (s', r) -> Fam a s').

Lemma nest_ne0 s i t0 al kids : Fam a s -> get (defs s) i = Some (FNest t0 al kids) -> i <> 0%N.
Proof. intros F D Heq. subst i. rewrite (fm_defs _ _ F), (w_root _ Wa) in D. discriminate. Qed.

Lemma fresh_snoc (acc : list (deed T)) i re : fresh (dids acc) -> startable a i = true -> fresh (dids (acc ++ [DDeed i re])).
Proof.
  intros Fa Si j Hj. rewrite dids_app in Hj. apply in_app_or in Hj. destruct Hj as [Hj|[Hj|[]]]; [now apply Fa|now subst j].
Qed.

Lemma fam_all : forall f, fam_at f.
Proof.
  induction f as [|f IH].
  - unfold fam_at. repeat match goal with |- _ /\ _ => split end; intros;
      try match goal with E : _ = _ |- _ => cbn in E; inversion E; subst; clear E end; cbn;
      try (apply fam_oof; assumption); try assumption.
    split; [apply fam_oof; assumption|assumption].
  - destruct IH as (Ist & Irs & Icl & Ico & Ili & Ieo & Iel & Ief).
    unfold fam_at. repeat match goal with |- _ /\ _ => split end.
    + (* gen_start *)
      intros s i s' r F E. rewrite gen_start_S in E.
      destruct (startable s i) eqn:St; cbn [negb] in E; [|fin; assumption].
      pose proof (fam_startable _ _ i F St) as Sa.
      destruct (get (defs s) i) as [[k sc|t0 al kids]|] eqn:D; [| |fin; assumption].
      * eapply Irs; [| | |exact E].
        -- apply fam_emit, fam_gen; assumption.
        -- exact Sa.
        -- rewrite <- (fm_defs _ _ F). exact D.
      * pose proof (nest_ne0 _ _ _ _ _ F D) as Hz. cbv zeta in E.
        destruct (enter_own tk f _ i _) as [s2 r0] eqn:Ee.
        assert (F2 : Fam a s2).
        { eapply Ieo; [| | |exact Ee]; [apply fam_emit, fam_gen; assumption|exact Sa|exact Hz]. }
        destruct r0; fin; try assumption; try (apply fam_gen; assumption).
        apply fam_gen; [exact Sa|]. apply fam_emit. apply Ico; [|exact Sa|exact Hz].
        apply fam_if; [assumption|apply fam_emit; assumption].
    + (* run_step at pc 0 *)
      intros s i k sc s' r F Sa D E. rewrite run_step_S in E. cbv zeta in E.
      destruct (run_effects tk f s i _) as [s1 r0] eqn:Ee.
      assert (F1 : Fam a s1).
      { eapply Ief; [exact F| |exact Ee]. exact (w_nr0 _ Wa i k sc D). }
      destruct r0; [| |destruct kbd|]; cbv beta iota zeta in E;
        try (destruct (f_out _)); fin;
        repeat first [assumption | apply fam_done | apply fam_emit | apply fam_gen].
    + (* gen_close *)
      intros s i F Sa. rewrite gen_close_S.
      destruct (get_gen s i) eqn:G; try assumption.
      destruct (get (defs s) i) as [[k sc|t0 al kids]|] eqn:D; [| |assumption].
      * repeat first [assumption | apply fam_emit | apply fam_gen].
      * cbv zeta. pose proof (nest_ne0 _ _ _ _ _ F D) as Hz.
        apply fam_gen; [exact Sa|]. apply fam_emit. apply Ico; [|exact Sa|exact Hz].
        repeat first [assumption | apply fam_emit | apply fam_gen].
    + (* close_own *)
      intros s sid F Sa Hz. rewrite close_own_S. cbv zeta. apply Ili.
      * apply fam_clear; [now apply La|exact F].
      * intros j Hj. apply (proj1 (dids_rev_in _ _)) in Hj. apply (proj1 (dids_unrotate_in _ _)) in Hj. exact (fm_fresh _ _ F sid Hz Sa j Hj).
    + (* close_list *)
      intros s ds F Fr. rewrite close_list_S. destruct ds as [|[|i re] r]; [assumption| |].
      * apply Ili; [exact F|]. exact Fr.
      * apply Ili; [apply Icl; [exact F|apply Fr; now left]|]. intros j Hj. apply Fr. now right.
    + (* enter_own *)
      intros s sid ids s' r F Sa Hz E. rewrite enter_own_S in E.
      destruct ids as [|i rest]; [fin; assumption|]. cbv zeta in E.
      destruct (gen_start tk f _ i) as [s1 r0] eqn:Eg.
      assert (F1 : Fam a s1) by (eapply Ist; [apply fam_done; exact F|exact Eg]).
      destruct r0; fin; try assumption.
      * eapply Ieo; [| | |exact E]; try assumption.
        apply fam_append; [|exact F1].
        intros j [Hj|[]]. subst j. apply (fam_startable _ (set_done s i (Some false))); [apply fam_done; exact F|].
        eapply gen_start_yield; exact Eg.
      * eapply Ieo; [| | |exact E]; assumption.
    + (* enter_local *)
      intros s ids acc s' r acc' F Fr E. rewrite enter_local_S in E.
      destruct ids as [|i rest]; [fin; split; assumption|]. cbv zeta in E.
      destruct (gen_start tk f _ i) as [s1 r0] eqn:Eg.
      assert (F1 : Fam a s1) by (eapply Ist; [apply fam_done; exact F|exact Eg]).
      destruct r0; fin.
      * eapply Iel; [| |exact E]; [exact F1|]. apply fresh_snoc; [exact Fr|].
        apply (fam_startable _ (set_done s i (Some false))); [apply fam_done; exact F|].
        eapply gen_start_yield; exact Eg.
      * eapply Iel; [| |exact E]; assumption.
      * split; [|intros j []]. apply Ili; [exact F1|]. intros j Hj. apply (proj1 (dids_rev_in _ _)) in Hj. now apply Fr.
      * split; assumption.
    + (* run_effects *)
      intros s c es s' r F Nr E. rewrite run_effects_S in E.
      destruct es as [|e rest]; [fin; assumption|].
      inversion Nr as [|e0 rest0 He Hrest]; subst.
      destruct (negb (live s match e with EExtend t _ => t | ERemove t _ => t end)); [eapply Ief; eassumption|].
      destruct e as [t news|t who]; [|discriminate]. cbv zeta in E.
      destruct (enter_local tk f s _ []) as [[s1 r0] acc] eqn:Ee.
      destruct (Iel _ _ _ _ _ _ F (fun j (Hj : In j (dids [])) => match Hj with end) Ee) as [F1 Fa].
      destruct r0; fin; try assumption.
      * eapply Ief; [|exact Hrest|exact E]. apply fam_emit. eapply fam_push; [reflexivity|exact Fa|exact F1].
      * eapply Ief; [|exact Hrest|exact E]. apply fam_emit. eapply fam_push; [reflexivity|exact Fa|exact F1].
Qed.

End Ref.

(* what stability is used for: a suspended, anchored doer stays so *)
Lemma fam_keeps a s X t :
  Fam a s -> is_susp a t -> anc a X t -> is_susp s t /\ anc s X t.
Proof.
  intros F [pc S] A. split.
  - exists pc. rewrite (fm_gen _ _ F); [exact S|]. unfold startable. now rewrite S.
  - clear S. unfold anc in *. induction A as [j Hj|j Hj|j x pc' R Hj|j x A IH Hj].
    + now apply an_extra.
    + apply an_root. now apply (fm_dq _ _ F).
    + eapply an_run; [|apply (fm_dq _ _ F); exact Hj].
      rewrite (fm_gen _ _ F); [exact R|]. unfold startable. now rewrite R.
    + eapply an_sub; [exact IH|apply (fm_dq _ _ F); exact Hj].
Qed.

End Fam.
