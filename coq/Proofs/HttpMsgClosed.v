(* The .closed flag does not change what is decoded while the rest of the
   chunked message is buffered. *)
From Hio Require Import Base.Prelude Model.HttpLine Model.Chunk Model.HttpMsg
  Proofs.HttpLineProofs Proofs.ChunkProofs Proofs.HttpMsgProofs.

Definition chunk_phase (s : mstate) : Prop :=
  match m_phase s with PChunk _ _ _ _ => True | _ => False end.

(* run a parser until its first completed message *)
Fixpoint run_to_msg (stage : mstate -> bytes -> sres mstate (option msg)) (fuel : nat) (s : mstate) (b : bytes)
  : option (mstate * bytes * msg) :=
  match fuel with
  | 0 => None
  | S f => match stage s b with
           | Step s' b' (Some m) => Some (s', b', m)
           | Step s' b' None => run_to_msg stage f s' b'
           | _ => None
           end
  end.

Lemma chunk_stage_nil cs : chunk_stage cs [] = Need.
Proof.
  destruct cs as [|n p|n p d|p h|]; cbn [chunk_stage]; try reflexivity.
  unfold lenN. cbn [length]. destruct n; reflexivity.
Qed.

Lemma chunk_phase_nil k s : chunk_phase s -> msg_stage k s [] = Need.
Proof.
  destruct s as [ph cy]. unfold chunk_phase, msg_stage. cbn [m_phase m_carry].
  destruct ph; try contradiction. intros _. rewrite chunk_stage_nil. reflexivity.
Qed.

(* one step: same result whenever bytes remain afterwards or the message completes *)
Lemma closed_step_same k s b s' r o :
  chunk_phase s -> msg_stage k s b = Step s' r o -> (r <> [] \/ o <> None) ->
  msg_stage_closed k s b = Step s' r o /\ (o = None -> chunk_phase s').
Proof.
  destruct s as [ph cy]. unfold chunk_phase, msg_stage, msg_stage_closed. cbn [m_phase m_carry].
  destruct ph as [ct|h|sl h|hd cs body p|hd n|hd rbody]; try contradiction. intros _ H Hr.
  destruct b as [|x b0]; [rewrite chunk_stage_nil in H; discriminate|]. cbn [is_nil].
  destruct (chunk_stage cs (x :: b0)) as [|cs' r' o'|e]; try discriminate.
  destruct o' as [ch|].
  - destruct (N.eqb (k_size ch) 0).
    + inversion H; subst. split; [reflexivity|discriminate].
    + inversion H; subst. destruct Hr as [Hr|Hr]; [|congruence].
      destruct r as [|y r0]; [congruence|]. cbn [is_nil]. split; [reflexivity|]. intros _. exact I.
  - inversion H; subst. split; [reflexivity|]. intros _. exact I.
Qed.

Lemma open_step_phase k s b s' r :
  chunk_phase s -> msg_stage k s b = Step s' r None -> chunk_phase s'.
Proof.
  destruct s as [ph cy]. unfold chunk_phase, msg_stage. cbn [m_phase m_carry].
  destruct ph; try contradiction. intros _ E.
  destruct (chunk_stage cs b) as [|cs' r' o'|e']; try discriminate.
  destruct o' as [ch|]; [destruct (N.eqb (k_size ch) 0); inversion E; subst|inversion E; subst]; exact I.
Qed.

(* If the buffered bytes hold the rest of a chunked message (the parser with
   .closed False completes it from them), the parser with .closed True decodes
   exactly the same message -- same body, parameters, trailers -- and leaves the
   same bytes behind, for requests and responses.  Closure only shows when the
   buffer runs dry before the last-chunk. *)
Theorem closed_irrelevant_while_data : forall k f s b x,
  chunk_phase s ->
  run_to_msg (msg_stage k) f s b = Some x ->
  run_to_msg (msg_stage_closed k) f s b = Some x.
Proof.
  induction f as [|f IH]; intros s b x Hc H; [discriminate|].
  cbn [run_to_msg] in *.
  destruct (msg_stage k s b) as [|s' b' o|e] eqn:E; try discriminate.
  destruct o as [m|].
  - destruct (closed_step_same k s b s' b' (Some m) Hc E ltac:(right; discriminate)) as [Ec _].
    rewrite Ec. exact H.
  - pose proof (open_step_phase k s b s' b' Hc E) as Hp'.
    assert (Hb : b' <> []).
    { intros ->. destruct f; [discriminate|]. cbn [run_to_msg] in H.
      rewrite (chunk_phase_nil k s' Hp') in H. discriminate. }
    destruct (closed_step_same k s b s' b' None Hc E ltac:(left; exact Hb)) as [Ec Hp].
    rewrite Ec. apply IH; [apply Hp; reflexivity|exact H].
Qed.
