(* decode (encode ...) = the body, extensions and trailers that were encoded. *)
From Hio Require Import Base.Prelude Model.HttpLine Model.Chunk
  Proofs.HttpLineProofs Proofs.ChunkProofs.
From Coq Require Import ZifyBool.

(* --------------------------------------------------- fuel-free unrolling *)
Definition runA (s : cstate) (b : bytes) := run chunk_stage (S (length b)) s b.

Lemma runA_step s b s' b' o :
  chunk_stage s b = Step s' b' o ->
  runA s b = let (p, os) := runA s' b' in (p, o :: os).
Proof.
  intros E. unfold runA. rewrite run_S, E.
  pose proof (chunk_shrinks _ _ _ _ _ E) as Hs.
  rewrite (run_fuel chunk_stage chunk_shrinks (length b) (S (length b')) s' b') by lia.
  reflexivity.
Qed.

Lemma runA_need s b : chunk_stage s b = Need -> runA s b = (Live s b, []).
Proof. intros E. unfold runA. rewrite run_S, E. reflexivity. Qed.

(* ------------------------------------------------------------ list facts *)
Lemma partition1_app sep a c :
  ~ In sep a -> partition1 sep (a ++ sep :: c) = (a, true, c).
Proof.
  induction a as [|x a IH]; intros Hn; cbn [app partition1].
  - rewrite N.eqb_refl. reflexivity.
  - assert (E : N.eqb x sep = false) by (apply N.eqb_neq; intros ->; apply Hn; left; reflexivity).
    rewrite E, IH by (intros Hi; apply Hn; right; exact Hi). reflexivity.
Qed.

Lemma partition1_none sep a :
  ~ In sep a -> partition1 sep a = (a, false, []).
Proof.
  induction a as [|x a IH]; intros Hn; cbn [partition1]; [reflexivity|].
  assert (E : N.eqb x sep = false) by (apply N.eqb_neq; intros ->; apply Hn; left; reflexivity).
  rewrite E, IH by (intros Hi; apply Hn; right; exact Hi). reflexivity.
Qed.

Lemma lstrip_id ws l : (forall x, In x l -> ws x = false) -> lstrip ws l = l.
Proof.
  destruct l as [|x l]; [reflexivity|]. intros H. cbn. rewrite (H x) by (left; reflexivity). reflexivity.
Qed.

Lemma strip_id ws l : (forall x, In x l -> ws x = false) -> strip ws l = l.
Proof.
  intros H. unfold strip, frev. rewrite <- !rev_alt. rewrite (lstrip_id ws l H).
  rewrite lstrip_id by (intros x Hx; apply H; apply in_rev; exact Hx).
  apply rev_involutive.
Qed.

Lemma is_hex_not_special x : is_hex x = true ->
  ws_sptab x = false /\ x <> 59%N /\ x <> CRb /\ x <> LFb.
Proof.
  unfold is_hex, ws_sptab, CRb, LFb. intros H.
  repeat split; lia.
Qed.

Lemma forallb_hex_facts l : forallb is_hex l = true ->
  (forall x, In x l -> ws_sptab x = false) /\ ~ In 59%N l /\ ~ In CRb l.
Proof.
  intros H. rewrite forallb_forall in H. repeat split.
  - intros x Hx. exact (proj1 (is_hex_not_special x (H x Hx))).
  - intros Hi. destruct (is_hex_not_special _ (H _ Hi)) as [_ [H1 _]]. apply H1. reflexivity.
  - intros Hi. destruct (is_hex_not_special _ (H _ Hi)) as [_ [_ [H1 _]]]. apply H1. reflexivity.
Qed.

Lemma dset_length {V} (d : list (bytes * V)) k v : length (dset d k v) <= S (length d).
Proof.
  induction d as [|[k' v'] d IH]; cbn; [lia|].
  destruct (bytes_eqb k k'); cbn; lia.
Qed.

(* -------------------------------------------------------- well-formedness *)
(* extension text: empty, or ';' followed by anything without CR *)
Definition ext_text_ok (e : bytes) : Prop :=
  ~ In CRb e /\ (e = [] \/ exists e', e = 59%N :: e').
(* the parameters a size line with extension text e yields *)
Definition ext_parms (e : bytes) : parms :=
  match e with
  | _ :: e' => if is_nil e' then [] else parse_exts e'
  | [] => []
  end.

Record wf_chunk (c : echunk) : Prop := {
  wf_hexne : e_hex c <> [];
  wf_hex : forallb is_hex (e_hex c) = true;
  wf_val : hex_value (e_hex c) = lenN (e_data c);
  wf_nz : e_data c <> [];
  wf_ext : ext_text_ok (e_ext c);
  wf_len : (lenN (e_hex c ++ e_ext c) <= max_line)%N
}.

Definition wf_trailer (kv : bytes * bytes) : Prop :=
  ~ In 58%N (fst kv) /\ ~ In LFb (fst kv) /\ ~ In LFb (snd kv)
  /\ (lenN (fst kv ++ [58; 32]%N ++ snd kv) <= max_line)%N.

(* ---------------------------------------------------------- the size line *)
Lemma parse_size_line_wf hx e :
  hx <> [] -> forallb is_hex hx = true -> ext_text_ok e ->
  parse_size_line (hx ++ e) = Ok (hex_value hx, ext_parms e).
Proof.
  intros Hne Hh [_ He]. destruct (forallb_hex_facts hx Hh) as [Hws [H59 _]].
  unfold parse_size_line.
  destruct He as [->|[e' ->]].
  - rewrite app_nil_r, (partition1_none 59 hx H59).
    rewrite (strip_id _ _ Hws), Hh.
    destruct hx; [congruence|]. reflexivity.
  - rewrite (partition1_app 59 hx e' H59).
    rewrite (strip_id _ _ Hws), Hh.
    destruct hx; [congruence|]. cbn [is_nil orb negb ext_parms].
    destruct (is_nil e'); reflexivity.
Qed.

Lemma size_step hx e rest :
  hx <> [] -> forallb is_hex hx = true -> ext_text_ok e ->
  (lenN (hx ++ e) <= max_line)%N ->
  chunk_stage CSize ((hx ++ e) ++ CRLFb ++ rest) =
  if N.eqb (hex_value hx) 0 then Step (CTrail (ext_parms e) []) rest None
  else Step (CData (hex_value hx) (ext_parms e)) rest None.
Proof.
  intros Hne Hh He Hl. cbn [chunk_stage]. unfold CRLFb. cbn [app].
  destruct (forallb_hex_facts hx Hh) as [_ [_ Hcr]].
  assert (Hn : ~ In CRb (hx ++ e)).
  { intros Hi. apply in_app_or in Hi. destruct Hi as [Hi|Hi]; [exact (Hcr Hi)|exact (proj1 He Hi)]. }
  rewrite (line_stage_crlf_line _ rest Hn Hl).
  rewrite (parse_size_line_wf hx e Hne Hh He). reflexivity.
Qed.

(* -------------------------------------------------------------- one chunk *)
Definition chunk_of (c : echunk) : chunk :=
  {| k_size := lenN (e_data c); k_parms := ext_parms (e_ext c); k_trails := []; k_data := e_data c |}.

Lemma run_chunk c rest :
  wf_chunk c ->
  runA CSize (render_chunk c ++ rest) =
  let (p, os) := runA CSize rest in (p, None :: None :: Some (chunk_of c) :: os).
Proof.
  intros [Hne Hh Hv Hnz He Hl].
  assert (Hn0 : N.eqb (hex_value (e_hex c)) 0 = false).
  { apply N.eqb_neq. rewrite Hv. unfold lenN. destruct (e_data c); [congruence|]. cbn [length]. lia. }
  unfold render_chunk.
  replace ((e_hex c ++ e_ext c ++ CRLFb ++ e_data c ++ CRLFb) ++ rest)
    with ((e_hex c ++ e_ext c) ++ CRLFb ++ (e_data c ++ CRLFb ++ rest))
    by (rewrite <- !app_assoc; reflexivity).
  rewrite (runA_step _ _ _ _ _ (eq_trans (size_step _ _ _ Hne Hh He Hl) ltac:(rewrite Hn0; reflexivity))).
  (* data *)
  assert (Ed : chunk_stage (CData (hex_value (e_hex c)) (ext_parms (e_ext c))) (e_data c ++ CRLFb ++ rest)
               = Step (CEnd (lenN (e_data c)) (ext_parms (e_ext c)) (e_data c)) (CRLFb ++ rest) None).
  { cbn [chunk_stage]. rewrite Hv, <- Hv, Hn0, Hv.
    assert (E1 : N.ltb (lenN (e_data c ++ CRLFb ++ rest)) (lenN (e_data c)) = false)
      by (apply N.ltb_ge; unfold lenN; rewrite app_length; lia).
    rewrite E1. cbn [orb]. unfold lenN. rewrite Nat2N.id.
    rewrite firstn_app_le, firstn_all by lia.
    rewrite skipn_app_le, skipn_all by lia. reflexivity. }
  rewrite (runA_step _ _ _ _ _ Ed).
  assert (Ee : chunk_stage (CEnd (lenN (e_data c)) (ext_parms (e_ext c)) (e_data c)) (CRLFb ++ rest)
               = Step CSize rest (Some (chunk_of c))).
  { cbn [chunk_stage]. unfold CRLFb. cbn [app].
    change (CRb :: LFb :: rest) with ([] ++ CRb :: LFb :: rest).
    rewrite line_stage_crlf_line; [reflexivity|intros []|cbn; lia]. }
  rewrite (runA_step _ _ _ _ _ Ee).
  destruct (runA CSize rest). reflexivity.
Qed.

Lemma run_chunks cs rest :
  Forall wf_chunk cs ->
  runA CSize (concat (map render_chunk cs) ++ rest) =
  let (p, os) := runA CSize rest in
  (p, flat_map (fun c => [None; None; Some (chunk_of c)]) cs ++ os).
Proof.
  induction cs as [|c cs IH]; intros Hwf.
  - cbn [map concat flat_map app]. destruct (runA CSize rest). reflexivity.
  - inversion Hwf; subst. cbn [map concat flat_map]. rewrite <- app_assoc.
    rewrite (run_chunk c _ H1), (IH H2).
    destruct (runA CSize rest). cbn [app]. reflexivity.
Qed.

(* --------------------------------------------------------------- trailers *)
Lemma scan_lf_line : forall l r, ~ In LFb l -> scan_lf (l ++ LFb :: r) = Some (l, r).
Proof.
  induction l as [|x l IH]; intros r Hn; cbn [app scan_lf].
  - rewrite N.eqb_refl. reflexivity.
  - assert (E : N.eqb x LFb = false) by (apply N.eqb_neq; intros ->; apply Hn; left; reflexivity).
    rewrite E, IH by (intros Hi; apply Hn; right; exact Hi). reflexivity.
Qed.

Lemma strip_last_cr_snoc : forall l, strip_last_cr (l ++ [CRb]) = l.
Proof.
  induction l as [|x l IH]; [reflexivity|].
  cbn [app]. destruct (l ++ [CRb]) as [|y t] eqn:E.
  - destruct l; discriminate.
  - change (strip_last_cr (x :: y :: t)) with (x :: strip_last_cr (y :: t)).
    rewrite IH. reflexivity.
Qed.

Lemma line_stage_http_line l r :
  ~ In LFb l -> (lenN l <= max_line)%N ->
  line_stage EHttp false (l ++ CRLFb ++ r) = Step false r l.
Proof.
  intros Hn Hl. unfold line_stage. cbn [andb skipped scan]. unfold CRLFb. cbn [app].
  replace (l ++ CRb :: LFb :: r) with ((l ++ [CRb]) ++ LFb :: r) by (rewrite <- app_assoc; reflexivity).
  rewrite scan_lf_line.
  - rewrite strip_last_cr_snoc.
    assert (E : N.ltb max_line (lenN l) = false) by (apply N.ltb_ge; exact Hl).
    rewrite E. reflexivity.
  - intros Hi. apply in_app_or in Hi. destruct Hi as [Hi|[Hi|[]]]; [exact (Hn Hi)|discriminate].
Qed.

Lemma partition_cs_cons x t :
  x <> 58%N ->
  partition_cs (x :: t) = match partition_cs t with Some (a, c) => Some (x :: a, c) | None => None end.
Proof.
  intros Hx. destruct t as [|y t']; [reflexivity|].
  cbn [partition_cs].
  assert (E : N.eqb x 58 = false) by (apply N.eqb_neq; exact Hx).
  rewrite E. reflexivity.
Qed.

Lemma partition_cs_app : forall k v, ~ In 58%N k -> partition_cs (k ++ [58; 32]%N ++ v) = Some (k, v).
Proof.
  induction k as [|x k IH]; intros v Hn.
  - reflexivity.
  - cbn [app]. rewrite partition_cs_cons by (intros ->; apply Hn; left; reflexivity).
    change (k ++ 58%N :: 32%N :: v) with (k ++ [58; 32]%N ++ v).
    rewrite IH by (intros Hi; apply Hn; right; exact Hi). reflexivity.
Qed.

Lemma trailer_step h kv rest :
  wf_trailer kv -> length h < max_headers ->
  leader_step h (render_trailer kv ++ rest) = LMore (hset h (fst kv) (snd kv)) rest.
Proof.
  intros [H58 [Hk [Hv Hl]]] Hh. unfold leader_step, render_trailer.
  replace ((fst kv ++ [58; 32]%N ++ snd kv ++ CRLFb) ++ rest)
    with ((fst kv ++ [58; 32]%N ++ snd kv) ++ CRLFb ++ rest)
    by (rewrite <- !app_assoc; reflexivity).
  rewrite line_stage_http_line; [|
    intros Hi; apply in_app_or in Hi; destruct Hi as [Hi|Hi]; [exact (Hk Hi)|];
    apply in_app_or in Hi; destruct Hi as [[Hi|[Hi|[]]]|Hi]; [discriminate|discriminate|exact (Hv Hi)] | exact Hl].
  assert (En : is_nil (fst kv ++ [58; 32]%N ++ snd kv) = false) by (destruct (fst kv); reflexivity).
  rewrite En, (partition_cs_app _ _ H58).
  pose proof (dset_length h (lowerk (fst kv)) (snd kv)) as Hd. unfold hset.
  assert (E2 : Nat.ltb max_headers (length (dset h (lowerk (fst kv)) (snd kv))) = false)
    by (apply Nat.ltb_ge; lia).
  rewrite E2. reflexivity.
Qed.

Definition trails_fold (h : headers) (trs : list (bytes * bytes)) : headers :=
  fold_left (fun h kv => hset h (fst kv) (snd kv)) trs h.

Lemma trails_fold_length trs : forall h, length (trails_fold h trs) <= length h + length trs.
Proof.
  induction trs as [|kv trs IH]; intros h; cbn [trails_fold fold_left length]; [lia|].
  specialize (IH (hset h (fst kv) (snd kv))). unfold trails_fold in IH.
  pose proof (dset_length h (lowerk (fst kv)) (snd kv)). unfold hset in *. lia.
Qed.

Lemma run_trailers p trs : forall h tail,
  Forall wf_trailer trs -> length h + length trs <= max_headers ->
  runA (CTrail p h) (concat (map render_trailer trs) ++ CRLFb ++ tail) =
  (Live CFin tail,
   map (fun _ => None) trs ++
   [Some {| k_size := 0; k_parms := p; k_trails := trails_fold h trs; k_data := [] |}]).
Proof.
  induction trs as [|kv trs IH]; intros h tail Hwf Hlen.
  - cbn [map concat app trails_fold fold_left].
    assert (E : chunk_stage (CTrail p h) (CRLFb ++ tail)
                = Step CFin tail (Some {| k_size := 0; k_parms := p; k_trails := h; k_data := [] |})).
    { cbn [chunk_stage]. unfold leader_step.
      change (CRLFb ++ tail) with ([] ++ CRLFb ++ tail).
      rewrite line_stage_http_line; [|intros []|cbn; lia]. cbn [is_nil].
      cbn [length] in Hlen.
      assert (E2 : Nat.ltb max_headers (length h) = false) by (apply Nat.ltb_ge; lia).
      rewrite E2. reflexivity. }
    rewrite (runA_step _ _ _ _ _ E), (runA_need CFin tail eq_refl). reflexivity.
  - inversion Hwf; subst. cbn [map concat length] in *. rewrite <- app_assoc.
    assert (E : chunk_stage (CTrail p h) (render_trailer kv ++ concat (map render_trailer trs) ++ CRLFb ++ tail)
                = Step (CTrail p (hset h (fst kv) (snd kv))) (concat (map render_trailer trs) ++ CRLFb ++ tail) None).
    { cbn [chunk_stage]. rewrite trailer_step by (assumption || lia). reflexivity. }
    rewrite (runA_step _ _ _ _ _ E).
    rewrite IH; [reflexivity|assumption|].
    pose proof (dset_length h (lowerk (fst kv)) (snd kv)). unfold hset. lia.
Qed.

(* ------------------------------------------------------------- round trip *)
Definition zeros_ok (z : bytes) : Prop := z <> [] /\ forallb (N.eqb 48) z = true.

Lemma zeros_hex z : zeros_ok z -> forallb is_hex z = true /\ hex_value z = 0%N.
Proof.
  intros [_ Hz]. split.
  - rewrite forallb_forall in *. intros x Hx. specialize (Hz x Hx). apply N.eqb_eq in Hz. subst. reflexivity.
  - unfold hex_value.
    assert (G : forall a, a = 0%N -> fold_left (fun a x => (16 * a + hex_val x)%N) z a = 0%N).
    { induction z as [|x z IH]; intros a Ha; cbn [fold_left]; [exact Ha|].
      cbn [forallb] in Hz. apply andb_prop in Hz. destruct Hz as [Hx Hz].
      apply N.eqb_eq in Hx. subst. apply IH; [exact Hz|reflexivity]. }
    apply G. reflexivity.
Qed.

Definition sent_chunks (cs : list echunk) (lastext : bytes) (trs : list (bytes * bytes)) : list chunk :=
  map chunk_of cs ++
  [{| k_size := 0; k_parms := ext_parms lastext; k_trails := trails_fold [] trs; k_data := [] |}].

Lemma somes_app {A} (l1 l2 : list (option A)) : somes (l1 ++ l2) = somes l1 ++ somes l2.
Proof. unfold somes. apply flat_map_app. Qed.

Lemma somes_none_cons {A} (l : list (option A)) : somes (None :: l) = somes l.
Proof. reflexivity. Qed.

Lemma somes_chunks cs :
  somes (flat_map (fun c => [None; None; Some (chunk_of c)]) cs) = map chunk_of cs.
Proof. induction cs as [|c cs IH]; [reflexivity|]. cbn. f_equal. exact IH. Qed.

Lemma somes_nones {A B} (l : list B) : somes (map (fun _ => @None A) l) = [].
Proof. induction l; [reflexivity|exact IHl]. Qed.

Theorem feed_encoded cs zeros lastext trs tail :
  Forall wf_chunk cs -> zeros_ok zeros -> ext_text_ok lastext ->
  (lenN (zeros ++ lastext) <= max_line)%N ->
  Forall wf_trailer trs -> length trs <= max_headers ->
  exists os,
    feed chunk_stage (Live CSize []) (encode_chunked cs zeros lastext trs ++ tail) = (Live CFin tail, os)
    /\ somes os = sent_chunks cs lastext trs.
Proof.
  intros Hcs Hz He Hl Htr Hn.
  destruct (zeros_hex zeros Hz) as [Hzh Hzv].
  cbn [feed app]. fold (runA CSize (encode_chunked cs zeros lastext trs ++ tail)).
  unfold encode_chunked. rewrite <- app_assoc.
  rewrite (run_chunks cs _ Hcs).
  replace ((zeros ++ lastext ++ CRLFb ++ concat (map render_trailer trs) ++ CRLFb) ++ tail)
    with ((zeros ++ lastext) ++ CRLFb ++ (concat (map render_trailer trs) ++ CRLFb ++ tail))
    by (rewrite <- !app_assoc; reflexivity).
  pose proof (size_step zeros lastext (concat (map render_trailer trs) ++ CRLFb ++ tail)
                (proj1 Hz) Hzh He Hl) as Es.
  rewrite Hzv in Es. cbn [N.eqb] in Es.
  rewrite (runA_step _ _ _ _ _ Es).
  rewrite (run_trailers _ trs [] tail Htr) by (cbn; lia).
  eexists. split; [reflexivity|].
  rewrite somes_app, somes_chunks, somes_none_cons.
  rewrite somes_app, somes_nones. reflexivity.
Qed.

Theorem decode_encoded cs zeros lastext trs tail :
  Forall wf_chunk cs -> zeros_ok zeros -> ext_text_ok lastext ->
  (lenN (zeros ++ lastext) <= max_line)%N ->
  Forall wf_trailer trs -> length trs <= max_headers ->
  decode (encode_chunked cs zeros lastext trs ++ tail) =
  DOk {| d_body := concat (map e_data cs);
         d_parms := parms_of (sent_chunks cs lastext trs);
         d_trails := trails_fold [] trs;
         d_rest := tail |}.
Proof.
  intros Hcs Hz He Hl Htr Hn.
  destruct (feed_encoded cs zeros lastext trs tail Hcs Hz He Hl Htr Hn) as [os [Hf Hs]].
  unfold decode, decode_reads. cbn [feeds].
  rewrite Hf. cbn [app]. rewrite app_nil_r, Hs.
  f_equal. f_equal.
  - unfold body_of, sent_chunks. rewrite map_app, concat_app. cbn [map concat k_data].
    rewrite !app_nil_r, map_map. reflexivity.
  - unfold trails_of, sent_chunks. rewrite rev_app_distr. reflexivity.
Qed.

(* ------------------------------------------- extension text round trip *)
Definition tok (l : bytes) : Prop :=
  forall x, In x l -> x <> 59%N /\ x <> 61%N /\ ws_ascii x = false.
Definition wf_extnv (nv : bytes * option bytes) : Prop :=
  tok (fst nv) /\ fst nv <> [] /\
  match snd nv with Some v => tok v /\ v <> [] | None => True end.

Definition ext_body (nv : bytes * option bytes) : bytes :=
  fst nv ++ match snd nv with Some v => 61%N :: v | None => [] end.

Lemma render_exts_cons nv l : render_exts (nv :: l) = 59%N :: ext_body nv ++ render_exts l.
Proof. reflexivity. Qed.

Lemma split1_none sep a : ~ In sep a -> split1 sep a = [a].
Proof.
  induction a as [|x a IH]; intros Hn; cbn [split1]; [reflexivity|].
  assert (E : N.eqb x sep = false) by (apply N.eqb_neq; intros ->; apply Hn; left; reflexivity).
  rewrite E, IH by (intros Hi; apply Hn; right; exact Hi). reflexivity.
Qed.

Lemma split1_app sep a c : ~ In sep a -> split1 sep (a ++ sep :: c) = a :: split1 sep c.
Proof.
  induction a as [|x a IH]; intros Hn; cbn [app split1].
  - rewrite N.eqb_refl. reflexivity.
  - assert (E : N.eqb x sep = false) by (apply N.eqb_neq; intros ->; apply Hn; left; reflexivity).
    rewrite E, IH by (intros Hi; apply Hn; right; exact Hi). reflexivity.
Qed.

Lemma ext_body_no59 nv : wf_extnv nv -> ~ In 59%N (ext_body nv).
Proof.
  intros [Hn [_ Hv]] Hi. unfold ext_body in Hi. apply in_app_or in Hi. destruct Hi as [Hi|Hi].
  - destruct (Hn _ Hi) as [H _]. congruence.
  - destruct (snd nv) as [v|]; [|exact Hi]. destruct Hi as [Hi|Hi]; [discriminate|].
    destruct (proj1 Hv _ Hi) as [H _]. congruence.
Qed.

Lemma split_render : forall l nv,
  wf_extnv nv -> Forall wf_extnv l ->
  split1 59 (ext_body nv ++ render_exts l) = ext_body nv :: map ext_body l.
Proof.
  induction l as [|nv' l IH]; intros nv Hnv Hl.
  - cbn [render_exts map concat]. rewrite app_nil_r. apply split1_none, ext_body_no59, Hnv.
  - inversion Hl; subst. rewrite render_exts_cons.
    rewrite split1_app by (apply ext_body_no59, Hnv).
    rewrite IH by assumption. reflexivity.
Qed.

Lemma tok_strip l : tok l -> strip ws_ascii l = l.
Proof. intros H. apply strip_id. intros x Hx. apply (H x Hx). Qed.

Lemma parse_ext_body p nv : wf_extnv nv -> parse_ext p (ext_body nv) = dset p (fst nv) (snd nv).
Proof.
  intros [Hn [Hne Hv]]. unfold parse_ext, ext_body.
  assert (H61 : ~ In 61%N (fst nv)) by (intros Hi; destruct (Hn _ Hi) as [_ [H _]]; congruence).
  destruct (snd nv) as [v|].
  - destruct Hv as [Hv Hvne].
    rewrite strip_id.
    + rewrite (partition1_app 61 (fst nv) v H61). rewrite (tok_strip _ Hn), (tok_strip _ Hv).
      destruct v; [congruence|]. reflexivity.
    + intros x Hx. apply in_app_or in Hx. destruct Hx as [Hx|[Hx|Hx]].
      * apply (Hn x Hx). * subst. reflexivity. * apply (Hv x Hx).
  - rewrite app_nil_r, (tok_strip _ Hn), (partition1_none 61 (fst nv) H61), (tok_strip _ Hn).
    reflexivity.
Qed.

Lemma fold_parse_ext : forall l p, Forall wf_extnv l ->
  fold_left parse_ext (map ext_body l) p = fold_left (fun p nv => dset p (fst nv) (snd nv)) l p.
Proof.
  induction l as [|nv l IH]; intros p Hl; [reflexivity|].
  inversion Hl; subst. cbn [map fold_left]. rewrite parse_ext_body by assumption. apply IH. assumption.
Qed.

(* the parameters recovered from rendered extensions are those extensions
   (dict semantics: a repeated name keeps its first position, last value) *)
Theorem ext_parms_render l : Forall wf_extnv l ->
  ext_parms (render_exts l) = fold_left (fun p nv => dset p (fst nv) (snd nv)) l [].
Proof.
  intros Hl. destruct l as [|nv l]; [reflexivity|].
  inversion Hl; subst. rewrite render_exts_cons. cbn [ext_parms].
  assert (E : is_nil (ext_body nv ++ render_exts l) = false).
  { unfold ext_body. destruct (fst nv) eqn:Ef; [destruct H1 as [_ [Hne _]]; congruence|reflexivity]. }
  rewrite E. unfold parse_exts. rewrite split_render by assumption.
  change (ext_body nv :: map ext_body l) with (map ext_body (nv :: l)).
  apply fold_parse_ext. exact Hl.
Qed.

Lemma render_exts_ok l : Forall wf_extnv l -> ext_text_ok (render_exts l).
Proof.
  intros Hl. split.
  - induction Hl as [|nv l Hnv Hl IH]; [intros []|].
    rewrite render_exts_cons. intros [Hi|Hi]; [discriminate|].
    apply in_app_or in Hi. destruct Hi as [Hi|Hi]; [|exact (IH Hi)].
    destruct Hnv as [Hn [_ Hv]]. unfold ext_body in Hi. apply in_app_or in Hi.
    assert (Hws : ws_ascii CRb = true) by reflexivity.
    destruct Hi as [Hi|Hi].
    + destruct (Hn _ Hi) as [_ [_ H]]. congruence.
    + destruct (snd nv) as [v|]; [|exact Hi]. destruct Hi as [Hi|Hi]; [discriminate|].
      destruct (proj1 Hv _ Hi) as [_ [_ H]]. congruence.
  - destruct l as [|nv l]; [left; reflexivity|right]. rewrite render_exts_cons. eexists. reflexivity.
Qed.

(* ------------------------------------------------------------- packChunk *)
Definition all_below (n : N) (f : N -> bool) : bool :=
  N.recursion true (fun i acc => f i && acc) n.

Lemma all_below_spec f : forall n, all_below n f = true -> forall i, (i < n)%N -> f i = true.
Proof.
  induction n using N.peano_ind; intros H i Hi; [lia|].
  unfold all_below in H.
  rewrite N.recursion_succ in H; [|reflexivity|intros ? ? -> ? ? ->; reflexivity].
  apply andb_prop in H. destruct H as [Hn Hr].
  destruct (N.eq_dec i n) as [->|Hne]; [exact Hn|].
  apply IHn; [exact Hr|lia].
Qed.

Definition to_hex_ok (n : N) : bool :=
  let hx := to_hex n in
  negb (is_nil hx) && forallb is_hex hx && N.eqb (hex_value hx) n && N.leb (lenN hx) 8.

Lemma to_hex_ok_small : forall n, (n < 65536)%N -> to_hex_ok n = true.
Proof. apply all_below_spec. vm_compute. reflexivity. Qed.

Definition echunk_of_msg (m : bytes) : echunk :=
  {| e_hex := to_hex (lenN m); e_ext := []; e_data := m |}.

Lemma render_pack m : render_chunk (echunk_of_msg m) = pack_chunk m.
Proof. reflexivity. Qed.

Lemma wf_echunk_of_msg m : m <> [] -> (lenN m < 65536)%N -> wf_chunk (echunk_of_msg m).
Proof.
  intros Hne Hl. pose proof (to_hex_ok_small _ Hl) as H. unfold to_hex_ok in H.
  apply andb_prop in H. destruct H as [H H4]. apply andb_prop in H. destruct H as [H H3].
  apply andb_prop in H. destruct H as [H1 H2].
  constructor; cbn [echunk_of_msg e_hex e_ext e_data].
  - destruct (to_hex (lenN m)); [discriminate|congruence].
  - exact H2.
  - apply N.eqb_eq. exact H3.
  - exact Hne.
  - split; [intros []|left; reflexivity].
  - rewrite app_nil_r. apply N.leb_le in H4. unfold max_line. lia.
Qed.

Definition last_chunk_plain : bytes := [48; 13; 10; 13; 10]%N.   (* b"0\r\n\r\n" *)

Lemma parms_of_plain msgs : parms_of (sent_chunks (map echunk_of_msg msgs) [] []) = [].
Proof.
  unfold parms_of, sent_chunks. rewrite fold_left_app.
  assert (G : forall acc, fold_left (fun acc c => dupdate acc (k_parms c)) (map chunk_of (map echunk_of_msg msgs)) acc = acc).
  { induction msgs as [|m msgs IH]; intros acc; [reflexivity|]. cbn [map fold_left]. rewrite IH. reflexivity. }
  rewrite G. reflexivity.
Qed.

Theorem decode_packed msgs tail :
  Forall (fun m => m <> [] /\ (lenN m < 65536)%N) msgs ->
  decode (concat (map pack_chunk msgs) ++ last_chunk_plain ++ tail) =
  DOk {| d_body := concat msgs; d_parms := []; d_trails := []; d_rest := tail |}.
Proof.
  intros Hm.
  pose proof (decode_encoded (map echunk_of_msg msgs) [48%N] [] [] tail) as H.
  unfold encode_chunked in H. cbn [map concat app] in H.
  rewrite map_map in H.
  rewrite (map_ext _ pack_chunk render_pack) in H.
  unfold last_chunk_plain.
  replace ((concat (map pack_chunk msgs) ++ 48%N :: CRLFb ++ CRLFb) ++ tail)
    with (concat (map pack_chunk msgs) ++ [48; 13; 10; 13; 10]%N ++ tail) in H
    by (rewrite <- app_assoc; reflexivity).
  rewrite H.
  - f_equal. f_equal.
    + rewrite map_map. cbn [echunk_of_msg e_data]. rewrite map_id. reflexivity.
    + apply parms_of_plain.
  - clear H. induction Hm as [|m msgs [Hne Hl] Hm IH]; constructor; [apply wf_echunk_of_msg; assumption|exact IH].
  - split; [discriminate|reflexivity].
  - split; [intros []|left; reflexivity].
  - cbn. unfold max_line. lia.
  - constructor.
  - cbn. lia.
Qed.
