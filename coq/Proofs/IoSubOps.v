(* What every cursor scan and put of the Io functions does on a db written as
   L ++ blk k m ++ R  (Proofs/IoSubBlock.v). *)
From Hio Require Import Base.Prelude Base.ListFacts Model.Lmdb Model.IoSub
  Proofs.LmdbProofs Proofs.IoSubHex Proofs.IoSubBlock.
Local Open Scope N_scope.

(* consecutive ordinals from j *)
Fixpoint enum (j : N) (vs : list bytes) : list (N * bytes) :=
  match vs with [] => [] | v :: vs' => (j, v) :: enum (j + 1) vs' end.

Lemma map_snd_enum j vs : map snd (enum j vs) = vs.
Proof. revert j. induction vs as [|v vs IH]; intros j; simpl; [reflexivity|]. now rewrite IH. Qed.

Lemma enum_lower j vs : Forall (fun iv => j <= fst iv) (enum j vs).
Proof.
  revert j. induction vs as [|v vs IH]; intros j; simpl; constructor; simpl; [lia|].
  eapply Forall_impl; [|apply IH]. intros iv H. simpl in H. lia.
Qed.

Lemma incr_enum B j vs : j + N.of_nat (length vs) <= B -> incr B (enum j vs).
Proof.
  revert j. induction vs as [|v vs IH]; intros j H; cbn [enum incr fst]; auto.
  cbn [length] in H. rewrite Nat2N.inj_succ in H. repeat split; [lia| |apply IH; lia].
  eapply Forall_impl; [|apply enum_lower]. intros iv Hiv. cbn [fst] in *. lia.
Qed.

Lemma incr_app B m1 m2 :
  incr B m1 -> incr B m2 -> (forall a b, In a m1 -> In b m2 -> fst a < fst b) -> incr B (m1 ++ m2).
Proof.
  induction m1 as [|a m1 IH]; simpl; intros H1 H2 H; auto.
  destruct H1 as (Ha & Hf & Hi). split; [auto|]. split.
  - rewrite Forall_app. split; auto. apply Forall_forall. intros b Hb. apply H; auto.
  - apply IH; auto.
Qed.

(* the first (ion, value) whose value is val removed *)
Fixpoint rmfirst (val : bytes) (m : list (N * bytes)) : option (list (N * bytes)) :=
  match m with
  | [] => None
  | iv :: m' => if bytes_eqb val (snd iv) then Some m'
                else match rmfirst val m' with Some r => Some (iv :: r) | None => None end
  end.

Lemma rmfirst_spec val m :
  match rmfirst val m with
  | Some m' => existsb (bytes_eqb val) (map snd m) = true /\ map snd m' = remove1 val (map snd m)
  | None => existsb (bytes_eqb val) (map snd m) = false
  end.
Proof.
  induction m as [|iv m IH]; simpl; auto.
  destruct (bytes_eqb val (snd iv)) eqn:E; simpl; auto.
  destruct (rmfirst val m); simpl.
  - destruct IH as [H1 H2]. split; auto. now rewrite H2.
  - assumption.
Qed.

Lemma rmfirst_incr B val m m' : incr B m -> rmfirst val m = Some m' -> incr B m'.
Proof.
  revert m'. induction m as [|iv m IH]; simpl; intros m' H E; [discriminate|].
  destruct H as (H1 & H2 & H3). destruct (bytes_eqb val (snd iv)).
  - injection E as <-. assumption.
  - destruct (rmfirst val m) as [r|] eqn:Er; [|discriminate]. injection E as <-.
    simpl. repeat split; auto.
    + clear -H2 Er. revert r Er. induction m as [|jv m IH]; simpl; intros r Er; [discriminate|].
      inversion H2; subst. destruct (bytes_eqb val (snd jv)).
      * injection Er as <-. assumption.
      * destruct (rmfirst val m) as [r'|]; [|discriminate]. injection Er as <-. constructor; auto.
Qed.

Lemma next_ion_spec B m : incr B m ->
  Forall (fun iv => fst iv < next_ion m) m /\ next_ion m <= B.
Proof.
  unfold next_ion. induction m as [|[i v] m IH]; simpl; intros H.
  - split; [constructor|lia].
  - destruct H as (H1 & H2 & H3). specialize (IH H3).
    destruct m as [|[j w] m'].
    + simpl. split; [constructor; [simpl; lia|constructor]|lia].
    + (* the last element of a non-empty tail is the last element of the whole *)
      assert (E : rev ((i, v) :: (j, w) :: m') = rev ((j, w) :: m') ++ [(i, v)]) by reflexivity.
      simpl in IH |- *. destruct (rev m' ++ [(j, w)]) as [|[l x] t] eqn:Er.
      * destruct (rev m'); discriminate.
      * simpl. destruct IH as [IH1 IH2]. split; auto.
        constructor; auto. simpl. inversion H2; subst. inversion IH1; subst. simpl in *. lia.
Qed.

Lemma rev_nil_inv {A} (l : list A) : rev l = [] -> l = [].
Proof. intros H. apply (f_equal (@rev A)) in H. now rewrite rev_involutive in H. Qed.

Section Ops.
  Variable U : bytes -> Prop.
  Hypothesis U_indep : forall k k', U k -> U k' -> k <> k' -> indep2 k k'.
  Variables (k : bytes) (B : N) (L R : dbb).
  Hypothesis D : Dec U k B L R.

  Let Uk : U k := dec_U _ _ _ _ _ D.
  Let HB : B <= maxsuffix := dec_B _ _ _ _ _ D.

  Lemma ion_small m iv : incr B m -> In iv m -> fst iv < ionmax.
  Proof.
    intros Hm Hin. pose proof (incr_bound _ _ Hm) as Hb. rewrite Forall_forall in Hb.
    specialize (Hb _ Hin). pose proof maxsuffix_lt. pose proof (dec_B _ _ _ _ _ D). lia.
  Qed.

  Lemma R_head : match R with
                 | [] => True
                 | e :: _ => exists k' i, k' <> k /\ unsuffix (fst e) = Ok (k', i)
                 end.
  Proof.
    destruct R as [|e R']; auto. pose proof (dec_above _ _ _ _ _ D) as A. inversion A; subst.
    eapply above_key; eauto.
  Qed.

  Lemma R_gt j : match R with
                 | [] => True
                 | e :: _ => blt (fst e) (suffix k j) = false
                 end.
  Proof.
    destruct R as [|e R']; auto. pose proof (dec_above _ _ _ _ _ D) as A. inversion A; subst.
    apply blt_asym. now apply (above_gt U U_indep).
  Qed.

  Lemma seek_lo m : incr B m -> seek (L ++ blk k m ++ R) (suffix k 0) = (L, blk k m ++ R).
  Proof.
    intros Hm. apply seek_split.
    - eapply Forall_impl; [|exact (dec_below _ _ _ _ _ D)]. intros e He. now apply (below_lt U U_indep).
    - destruct m as [|[i v] m]; simpl.
      + apply R_gt.
      + rewrite suffix_lt_same.
        * apply N.ltb_ge. lia.
        * apply (ion_small ((i, v) :: m) (i, v)); auto. now left.
        * pose proof maxsuffix_lt. lia.
  Qed.

  Lemma seek_hi m : incr B m ->
    seek (L ++ blk k m ++ R) (suffix k maxsuffix) = (L ++ blk k m, R).
  Proof.
    intros Hm. rewrite app_assoc. apply seek_split.
    - unfold kgt. rewrite Forall_app. split.
      + eapply Forall_impl; [|exact (dec_below _ _ _ _ _ D)]. intros e He. now apply (below_lt U U_indep).
      + unfold blk. rewrite Forall_map. pose proof (incr_bound _ _ Hm) as Hb.
        eapply Forall_impl; [|exact Hb]. intros iv Hiv. simpl.
        pose proof maxsuffix_lt. pose proof (dec_B _ _ _ _ _ D).
        cbn beta in Hiv. rewrite suffix_lt_same; [apply N.ltb_lt|..]; lia.
    - apply R_gt.
  Qed.

  Lemma scan_R : scan k R = Ok [].
  Proof.
    pose proof R_head as H. destruct R as [|[ik v] R']; simpl; auto.
    destruct H as (k' & i & Hne & E). simpl in E. rewrite E. now rewrite beqb_neq.
  Qed.

  Lemma scan_blk m : incr B m -> scan k (blk k m ++ R) = Ok m.
  Proof.
    induction m as [|[i v] m IH]; intros Hm.
    - apply scan_R.
    - simpl. rewrite unsuffix_suffix by (apply (ion_small ((i, v) :: m) (i, v)); auto; now left).
      rewrite beqb_refl. destruct Hm as (_ & _ & Hm). now rewrite IH.
  Qed.

  Lemma rem_scan_R : rem_scan k R = Ok (R, false).
  Proof.
    pose proof R_head as H. destruct R as [|[ik v] R']; simpl; auto.
    destruct H as (k' & i & Hne & E). simpl in E. rewrite E. now rewrite beqb_neq.
  Qed.

  Lemma rem_scan_blk m : incr B m -> rem_scan k (blk k m ++ R) = Ok (R, nonempty m).
  Proof.
    induction m as [|[i v] m IH]; intros Hm.
    - apply rem_scan_R.
    - simpl. rewrite unsuffix_suffix by (apply (ion_small ((i, v) :: m) (i, v)); auto; now left).
      rewrite beqb_refl. destruct Hm as (_ & _ & Hm). now rewrite IH.
  Qed.

  Lemma remval_R val : remval_scan k val R = Ok None.
  Proof.
    pose proof R_head as H. destruct R as [|[ik v] R']; simpl; auto.
    destruct H as (k' & i & Hne & E). simpl in E. rewrite E. now rewrite beqb_neq.
  Qed.

  Lemma remval_blk val m : incr B m ->
    remval_scan k val (blk k m ++ R) =
    Ok (match rmfirst val m with Some m' => Some (blk k m' ++ R) | None => None end).
  Proof.
    induction m as [|[i v] m IH]; intros Hm.
    - apply remval_R.
    - simpl. rewrite unsuffix_suffix by (apply (ion_small ((i, v) :: m) (i, v)); auto; now left).
      rewrite beqb_refl. destruct (bytes_eqb val v); [reflexivity|].
      destruct Hm as (_ & _ & Hm). rewrite IH by assumption. now destruct (rmfirst val m).
  Qed.

  (* put of a new last entry of k *)
  Lemma put_new ow m j v :
    Forall (fun iv => fst iv < j) m -> j < ionmax ->
    db_put ow (L ++ blk k m ++ R) (suffix k j) v = (L ++ blk k (m ++ [(j, v)]) ++ R, true).
  Proof.
    intros Hm Hj. rewrite app_assoc, db_put_mid.
    - rewrite blk_app. simpl. now rewrite <- !app_assoc.
    - unfold kgt. rewrite Forall_app. split.
      + eapply Forall_impl; [|exact (dec_below _ _ _ _ _ D)]. intros e He. now apply (below_lt U U_indep).
      + unfold blk. rewrite Forall_map. eapply Forall_impl; [|exact Hm]. intros iv Hiv. simpl in *.
        rewrite suffix_lt_same; [apply N.ltb_lt|..]; lia.
    - eapply Forall_impl; [|exact (dec_above _ _ _ _ _ D)]. intros e He. now apply (above_gt U U_indep).
  Qed.

  Lemma put_from_new ow orr vs : forall m j res,
    Forall (fun iv => fst iv < j) m -> j + N.of_nat (length vs) <= ionmax ->
    put_from ow orr (L ++ blk k m ++ R) k j vs res =
      (L ++ blk k (m ++ enum j vs) ++ R, match vs with [] => res | _ => true end).
  Proof.
    induction vs as [|v vs IH]; intros m j res Hm Hj.
    - simpl. now rewrite app_nil_r.
    - cbn [put_from]. cbn [length] in Hj. rewrite Nat2N.inj_succ in Hj. rewrite put_new by (auto; lia).
      rewrite IH.
      + rewrite <- app_assoc. simpl. f_equal. destruct vs; destruct orr; reflexivity.
      + rewrite Forall_app. split.
        * eapply Forall_impl; [|exact Hm]. intros iv H. simpl in *. lia.
        * constructor; [simpl; lia|constructor].
      + lia.
  Qed.

  (* lookups *)
  Lemma get_last m0 i v : incr B (m0 ++ [(i, v)]) ->
    db_get (L ++ blk k (m0 ++ [(i, v)]) ++ R) (suffix k i) = Some v.
  Proof.
    intros Hm. pose proof maxsuffix_lt as ML.
    assert (Hi : i < ionmax) by (apply (ion_small _ (i, v) Hm); rewrite in_app_iff; right; now left).
    rewrite db_get_skip.
    - rewrite blk_app, <- app_assoc. rewrite db_get_skip.
      + simpl. now rewrite bcmp_refl.
      + unfold blk. rewrite Forall_map. apply Forall_forall. intros [j w] Hin. simpl.
        apply blt_neq. rewrite suffix_lt_same; auto.
        * apply N.ltb_lt. clear -Hm Hin. induction m0 as [|a m0 IH]; simpl in *; [tauto|].
          destruct Hm as (H1 & H2 & H3). destruct Hin as [->|Hin]; [|auto].
          rewrite Forall_app in H2. destruct H2 as [_ H2]. inversion H2; subst. assumption.
        * apply (ion_small _ (j, w) Hm). rewrite in_app_iff. now left.
    - eapply Forall_impl; [|exact (dec_below _ _ _ _ _ D)]. intros e He.
      apply blt_neq. now apply (below_lt U U_indep).
  Qed.

  (* the entry before the position of  suffix k MaxSuffix *)
  Lemma last_lookup m : incr B m ->
    match last_entry (L ++ blk k m) with
    | None => Ok None
    | Some (ik, _) => match unsuffix ik with
                      | Exc e => Exc e
                      | Ok (ck, ci) => Ok (if bytes_eqb ck k then Some ci else None)
                      end
    end = Ok (option_map fst (olast m)).
  Proof.
    intros Hm. destruct (rev m) as [|[i v] t] eqn:Er.
    - assert (m = []) as -> by now apply rev_nil_inv.
      simpl. rewrite app_nil_r. unfold olast, last_entry; simpl.
      destruct (rev L) as [|l t'] eqn:El; [reflexivity|].
      assert (Hin : In l L) by (apply in_rev; rewrite El; now left).
      pose proof (dec_below _ _ _ _ _ D) as Bl. rewrite Forall_forall in Bl.
      destruct (below_key U k l (Bl l Hin)) as (k' & i & Hne & E).
      destruct l as [ik w]. simpl in E. rewrite E. now rewrite beqb_neq.
    - assert (Em : m = rev t ++ [(i, v)]) by (rewrite <- (rev_involutive m), Er; reflexivity).
      unfold olast. rewrite Er. simpl. rewrite Em, blk_app, app_assoc. simpl. rewrite last_entry_app.
      rewrite unsuffix_suffix, beqb_refl; [reflexivity|].
      apply (ion_small m (i, v) Hm). rewrite Em, in_app_iff. right. now left.
  Qed.
End Ops.
