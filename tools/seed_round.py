#!/usr/bin/env python3
"""Prepare one round of the seeded-change campaign: for every property a prompt (property text only, plus the
mechanisms already used in earlier rounds, which the new change must avoid) and a scratch worktree of /repo.
usage: tools/seed_round.py <round-number> [Cxx ...]   -> /tmp/seed<r>-Cxx (worktree), /tmp/seed<r>-Cxx-out, /tmp/seed<r>-Cxx-prompt.txt
The sub-agents get nothing from /verif; results are evaluated with tools/seed_eval.sh."""
import json, subprocess, sys, pathlib
HERE = pathlib.Path(__file__).resolve().parent
PREV = json.loads((HERE / "seed_prev.json").read_text())
r = sys.argv[1]
props = {}
for l in (HERE.parent / "properties.jsonl").read_text().splitlines():
    d = json.loads(l)
    props[d["id"]] = d
ids = sys.argv[2:] or sorted(props)
tmpl = (HERE / "seed_prompt.txt").read_text()
for pid in ids:
    d = props[pid]
    text = (f"{d['title']}\n\n{d['statement']}\n\nScope: {d['quantifier']['text']}\n\n"
            f"Anchored in: {', '.join(d['anchors']['files'])}")
    prev = PREV.get(pid, [])
    pv = ""
    if prev:
        pv = ("Other engineers already seeded these changes for the same property: " +
              "; ".join(f'({n + 1}) "{m}"' for n, m in enumerate(prev)) +
              ". Yours must use a DIFFERENT mechanism in a different function or code path from all of them — look for "
              "behaviour the property covers that lives elsewhere in the anchored source files (other classes/variants, "
              "other entry points of the public API, state carried across calls or across several objects, configuration "
              "combinations, error/edge paths), ideally needing two cooperating sites, a fault at a particular point, or a "
              "multi-step history to manifest.")
    wt, out = f"/tmp/seed{r}-{pid}", f"/tmp/seed{r}-{pid}-out"
    p = tmpl.replace("{WT}", wt).replace("{OUT}", out).replace("{PROP}", text).replace("{PREV}", pv)
    pathlib.Path(f"/tmp/seed{r}-{pid}-prompt.txt").write_text(p)
    pathlib.Path(out).mkdir(exist_ok=True)
    if not pathlib.Path(wt).exists():
        subprocess.run(["git", "-C", "/repo", "worktree", "add", "-q", "--detach", wt, "HEAD"], check=True)
print(len(ids), "prompts and worktrees prepared")
