(* C05, part 3: the exact done-flag rule for leaf doers, as an invariant of all
   eleven interpreter functions (every program, every time instance):

     never entered                                  -> flag is not True
     last lifecycle  Enter Recur^n Clean Exit       -> flag = done_after kind r False
        (finished by itself)                           where step n of the script is `return r`
     entered, any other situation (still running,   -> flag = False
        suspended, force-closed, raised, interrupted)

   i.e. enter sets False, the flag becomes the returned value exactly when the
   doer finishes on its own, and stays False otherwise. *)
From Hio Require Import Base.Prelude Base.AMap Base.Time Model.Sched Proofs.SchedEqs Proofs.SchedFrame Proofs.SchedLife
  Proofs.SchedCycleTick Proofs.SchedCycleDue Proofs.SchedCycleStop Proofs.SchedCycleDone.

Section Flag.
Context {T : Type} `{Time T}.
Implicit Types s : st T.
Variable tk : T.
Variable D : amap (fdef T).

(* l = lifecycle events of the doer, newest first; d = its flag *)
Definition flag_ok (k : kind) (sc : list (fstep T)) (l : list ekind) (d : option bool) : Prop :=
  match l with
  | [] => d <> Some true
  | Exit :: Clean :: rest =>
      exists n older r, rest = repeat Recur n ++ Enter :: older /\
                        f_out (nth n sc default_step) = OReturn r /\ d = done_after k r (Some false)
  | _ => d = Some false
  end.

(* an open lifecycle (head is not Exit): the flag is False *)
Lemma flag_open k sc e rest d : e <> Exit -> (flag_ok k sc (e :: rest) d <-> d = Some false).
Proof. intro Ne. destruct e; try (cbn; tauto); try congruence. Qed.

Lemma flag_run k sc pc older d : flag_ok k sc (repeat Recur pc ++ Enter :: older) d <-> d = Some false.
Proof. destruct pc; cbn [repeat app]; apply flag_open; discriminate. Qed.

Lemma flag_forced k sc e rest d : e <> Clean -> (flag_ok k sc (Exit :: e :: rest) d <-> d = Some false).
Proof. intro Ne. destruct e; try (cbn; tauto); try congruence. Qed.

Lemma flag_kbd k sc pc older d : flag_ok k sc (Exit :: repeat Recur pc ++ Enter :: older) d <-> d = Some false.
Proof. destruct pc; cbn [repeat app]; apply flag_forced; discriminate. Qed.

(* a DoDoer that is not `always`: its flag is True exactly after it returned by
   itself (which it does exactly when its deque is empty after a pass), False
   otherwise; no claim between its Clean and its Exit *)
Definition nflag_ok (l : list ekind) (d : option bool) : Prop :=
  match l with
  | [] => d <> Some true
  | Exit :: Clean :: _ => d = Some true
  | Clean :: _ => True
  | _ => d = Some false
  end.

Lemma nflag_open e rest d : e <> Exit -> e <> Clean -> (nflag_ok (e :: rest) d <-> d = Some false).
Proof. intros N1 N2. destruct e; try (cbn; tauto); try congruence. Qed.
Lemma nflag_run pc older d : nflag_ok (repeat Recur pc ++ Enter :: older) d <-> d = Some false.
Proof. destruct pc; cbn [repeat app]; apply nflag_open; discriminate. Qed.
Lemma nflag_forced e rest d : e <> Clean -> (nflag_ok (Exit :: e :: rest) d <-> d = Some false).
Proof. intro Ne. destruct e; try (cbn; tauto); try congruence. Qed.
Lemma nflag_false_open e rest : e <> Exit -> nflag_ok (e :: rest) (Some false).
Proof. intro Ne. destruct e; cbn; auto; congruence. Qed.

Definition xj s (i : id) : Prop :=
  match get D i with
  | Some (FLeaf k sc) =>
    (forall pc, get_gen s i = GSusp pc -> exists n older, pc = S n /\ evs i s = repeat Recur n ++ Enter :: older) /\
    (forall pc, get_gen s i = GRun pc -> exists e rest, evs i s = e :: rest /\ e <> Exit) /\
    flag_ok k sc (evs i s) (get_done s i)
  | Some (FNest _ false _) =>
    (forall pc, get_gen s i = GSusp pc -> exists n older, evs i s = repeat Recur n ++ Enter :: older) /\
    (forall pc, get_gen s i = GRun pc -> exists e rest, evs i s = e :: rest /\ e <> Exit) /\
    nflag_ok (evs i s) (get_done s i)
  | _ => True
  end.

(* doers the invariant says nothing about: `always` DoDoers and undefined numbers *)
Definition untracked (i : id) : Prop :=
  match get D i with Some (FLeaf _ _) | Some (FNest _ false _) => False | _ => True end.

Definition XCore s : Prop := defs s = D /\ forall i, xj s i.

Lemma xj_same s s' j : same_at j s s' -> xj s j -> xj s' j.
Proof. intros (G & E & Dn) Hd. unfold xj in *. rewrite G, E, Dn. exact Hd. Qed.

Lemma xc_only i s s' :
  XCore s -> defs s' = defs s -> (forall j, j <> i -> same_at j s s') -> xj s' i -> XCore s'.
Proof.
  intros (Df & A) E O Ki. split; [congruence|]. intro j.
  destruct (N.eq_dec j i) as [->|Hne]; [exact Ki|]. eapply xj_same; [apply O; exact Hne|apply A].
Qed.

Lemma xc_all s s' : XCore s -> defs s' = defs s -> (forall j, same_at j s s') -> XCore s'.
Proof. intros (Df & A) E O. split; [congruence|]. intro j. eapply xj_same; [apply O|apply A]. Qed.

Lemma xc_deeds s i d : XCore s -> XCore (set_deeds s i d).
Proof. intro L. eapply xc_all; [exact L|reflexivity|]. intro j. repeat split. Qed.
Lemma xc_sched s i c : XCore s -> XCore (set_sched s i c).
Proof. intro L. eapply xc_all; [exact L|reflexivity|]. intro j. repeat split. Qed.
Lemma xc_oof s : XCore s -> XCore (out_of_fuel s).
Proof. intro L. eapply xc_all; [exact L|reflexivity|]. intro j. repeat split. Qed.
Lemma xc_ext s i : XCore s -> XCore (emit s ExtRet i).
Proof. intro L. eapply xc_all; [exact L|reflexivity|]. intro j. split; [reflexivity|]. split; [now apply evs_emit_nonlife|reflexivity]. Qed.
Lemma xc_rem s i : XCore s -> XCore (emit s RemRet i).
Proof. intro L. eapply xc_all; [exact L|reflexivity|]. intro j. split; [reflexivity|]. split; [now apply evs_emit_nonlife|reflexivity]. Qed.
Lemma xc_tyme s t : XCore s -> XCore (set_tyme s t).
Proof. intro L. eapply xc_all; [exact L|reflexivity|]. intro j. repeat split. Qed.
Lemma xc_rlive s v : XCore s -> XCore (set_rlive s v).
Proof. intro L. eapply xc_all; [exact L|reflexivity|]. intro j. repeat split. Qed.
Lemma xc_top s k i : is_life k = false -> XCore s -> XCore (emit s k i).
Proof. intros K L. eapply xc_all; [exact L|reflexivity|]. intro j. split; [reflexivity|]. split; [now apply evs_emit_nonlife|reflexivity]. Qed.

Ltac sa :=
  let j := fresh "j" in let Hj := fresh "Hj" in
  intros j Hj;
  repeat first [apply sa_emit; [congruence|] | apply sa_gen; [exact Hj|] | apply sa_done; [exact Hj|] | apply same_refl].

(* anything that is not a leaf *)
Lemma xcn_only i s s' :
  untracked i -> XCore s -> defs s' = defs s -> (forall j, j <> i -> same_at j s s') -> XCore s'.
Proof.
  intros N L E O. eapply xc_only; [exact L|exact E|exact O|]. unfold xj. unfold untracked in N.
  destruct (get D i) as [[k sc|t0 [|] kids]|]; try exact I; destruct N.
Qed.
Lemma nest_not_leaf i t0 kids : get D i = Some (FNest t0 true kids) -> untracked i.
Proof. intros E. unfold untracked. now rewrite E. Qed.
Lemma xcn_emit i s k t0 kids : get D i = Some (FNest t0 true kids) -> XCore s -> XCore (emit s k i).
Proof. intros N L. eapply xcn_only; [eapply nest_not_leaf; exact N|exact L|reflexivity|sa]. Qed.
Lemma xcn_gen i s g t0 kids : get D i = Some (FNest t0 true kids) -> XCore s -> XCore (set_gen s i g).
Proof. intros N L. eapply xcn_only; [eapply nest_not_leaf; exact N|exact L|reflexivity|sa]. Qed.
Lemma xcn_done i s d t0 kids : get D i = Some (FNest t0 true kids) -> XCore s -> XCore (set_done s i d).
Proof. intros N L. eapply xcn_only; [eapply nest_not_leaf; exact N|exact L|reflexivity|sa]. Qed.
Lemma xcn_if i s (b : bool) k t0 kids : get D i = Some (FNest t0 true kids) -> XCore s -> XCore (if b then s else emit s k i).
Proof. intros N L. destruct b; [exact L|]. eapply xcn_emit; eassumption. Qed.

Lemma susp_shape_x s i k sc pc :
  XCore s -> get D i = Some (FLeaf k sc) -> get_gen s i = GSusp pc ->
  exists n older, pc = S n /\ evs i s = repeat Recur n ++ Enter :: older.
Proof. intros (_ & A) Lf G. specialize (A i). unfold xj in A. rewrite Lf in A. destruct A as (A1 & _). exact (A1 pc G). Qed.

Lemma leaf_flag s i k sc : XCore s -> get D i = Some (FLeaf k sc) -> flag_ok k sc (evs i s) (get_done s i).
Proof. intros (_ & A) Lf. specialize (A i). unfold xj in A. rewrite Lf in A. apply A. Qed.

(* ---------- the invariant: meaningful only while no budget has run out ---------- *)

Definition XInv s : Prop := oof s = true \/ XCore s.

Lemma xl s s' : (oof s = true -> oof s' = true) -> (XCore s -> XCore s') -> XInv s -> XInv s'.
Proof. intros O C [X|X]; [left; auto|right; auto]. Qed.

Lemma xinv_deeds s i d : XInv s -> XInv (set_deeds s i d). Proof. apply xl; [auto|apply xc_deeds]. Qed.
Lemma xinv_sched s i c : XInv s -> XInv (set_sched s i c). Proof. apply xl; [auto|apply xc_sched]. Qed.
Lemma xinv_oof s : XInv s -> XInv (out_of_fuel s). Proof. intros _. left. reflexivity. Qed.
Lemma xinv_ext s i : XInv s -> XInv (emit s ExtRet i). Proof. apply xl; [auto|apply xc_ext]. Qed.
Lemma xinv_rem s i : XInv s -> XInv (emit s RemRet i). Proof. apply xl; [auto|apply xc_rem]. Qed.
Lemma xinv_tyme s t : XInv s -> XInv (set_tyme s t). Proof. apply xl; [auto|apply xc_tyme]. Qed.
Lemma xinv_rlive s v : XInv s -> XInv (set_rlive s v). Proof. apply xl; [auto|apply xc_rlive]. Qed.
Lemma xinv_top s k i : is_life k = false -> XInv s -> XInv (emit s k i).
Proof. intro K. apply xl; [auto|now apply xc_top]. Qed.
Lemma xn_emit i s k t0 kids : get D i = Some (FNest t0 true kids) -> XInv s -> XInv (emit s k i).
Proof. intro N. apply xl; [auto|eapply xcn_emit; exact N]. Qed.
Lemma xn_gen i s g t0 kids : get D i = Some (FNest t0 true kids) -> XInv s -> XInv (set_gen s i g).
Proof. intro N. apply xl; [auto|eapply xcn_gen; exact N]. Qed.
Lemma xn_done i s d t0 kids : get D i = Some (FNest t0 true kids) -> XInv s -> XInv (set_done s i d).
Proof. intro N. apply xl; [auto|eapply xcn_done; exact N]. Qed.
Lemma xn_if i s (b : bool) k t0 kids : get D i = Some (FNest t0 true kids) -> XInv s -> XInv (if b then s else emit s k i).
Proof. intros N L. destruct b; [exact L|]. eapply xn_emit; eassumption. Qed.

(* stickiness of oof through each function (from the frame theorem) *)
Lemma oof_start f s i s' r : gen_start tk f s i = (s', r) -> oof s = true -> oof s' = true.
Proof. intros E. apply steps_oof. destruct (frame_all tk f) as (I & _). eapply I; [apply st_refl|exact E]. Qed.
Lemma oof_step f s i k sc pc s' r : run_step tk f s i k sc pc = (s', r) -> oof s = true -> oof s' = true.
Proof. intros E. apply steps_oof. destruct (frame_all tk f) as (_ & I & _). eapply I; [apply st_refl|exact E]. Qed.
Lemma oof_send f s i s' r : gen_send tk f s i = (s', r) -> oof s = true -> oof s' = true.
Proof. intros E. apply steps_oof. destruct (frame_all tk f) as (_ & _ & I & _). eapply I; [apply st_refl|exact E]. Qed.
Lemma oof_close f s i : oof s = true -> oof (gen_close tk f s i) = true.
Proof. apply steps_oof. destruct (frame_all tk f) as (_ & _ & _ & I & _). apply I, st_refl. Qed.

(* ---------- preserved by every function ---------- *)

Definition xinv_at (f : nat) : Prop :=
  (forall s i s' r, XInv s -> gen_start tk f (set_done s i (Some false)) i = (s', r) -> XInv s') /\
  (forall s i k sc pc older s' r, XInv s -> get D i = Some (FLeaf k sc) -> get_gen s i = GRun pc ->
      evs i s = repeat Recur pc ++ Enter :: older -> run_step tk f s i k sc pc = (s', r) -> XInv s') /\
  (forall s i s' r, XInv s -> gen_send tk f s i = (s', r) -> XInv s') /\
  (forall s i, XInv s -> XInv (gen_close tk f s i)) /\
  (forall s i, XInv s -> XInv (close_own tk f s i)) /\
  (forall s ds, XInv s -> XInv (close_list tk f s ds)) /\
  (forall s sid ids s' r, XInv s -> enter_own tk f s sid ids = (s', r) -> XInv s') /\
  (forall s ids acc s' r acc', XInv s -> enter_local tk f s ids acc = (s', r, acc') -> XInv s') /\
  (forall s c es s' r, XInv s -> run_effects tk f s c es = (s', r) -> XInv s') /\
  (forall s sid s' r, XInv s -> recur_pass tk f s sid = (s', r) -> XInv s') /\
  (forall s sid s' r, XInv s -> recur_loop tk f s sid = (s', r) -> XInv s').

Ltac brk :=
  cbv zeta in *;
  repeat (match goal with
  | H : context [match ?x with _ => _ end] |- _ => destruct x eqn:?
  | |- context [match ?x with _ => _ end] => destruct x eqn:?
  end; cbv zeta in *).

Ltac fin :=
  repeat match goal with
  | H : (_, _) = (_, _) |- _ => inversion H; subst; clear H
  | H : (_, _, _) = (_, _, _) |- _ => inversion H; subst; clear H
  end.

Ltac goX Ist Isd Icl Ico Ili Ieo Iel Ief Irp Irl :=
  let rec loop :=
    match goal with
    | H : XInv ?s |- XInv ?s => exact H
    | |- XInv (set_deeds _ _ _) => apply xinv_deeds; loop
    | |- XInv (set_sched _ _ _) => apply xinv_sched; loop
    | |- XInv (out_of_fuel _) => apply xinv_oof; loop
    | |- XInv (emit _ ExtRet _) => apply xinv_ext; loop
    | |- XInv (emit _ RemRet _) => apply xinv_rem; loop
    | |- XInv (emit _ _ _) => eapply xn_emit; [eassumption|]; loop
    | |- XInv (set_gen _ _ _) => eapply xn_gen; [eassumption|]; loop
    | |- XInv (set_done _ _ _) => eapply xn_done; [eassumption|]; loop
    | |- XInv (if _ then _ else emit _ _ _) => eapply xn_if; [eassumption|]; loop
    | |- XInv (gen_close _ _ _ _) => apply Icl; loop
    | |- XInv (close_own _ _ _ _) => apply Ico; loop
    | |- XInv (close_list _ _ _ _) => apply Ili; loop
    | E : gen_start _ _ (set_done _ _ (Some false)) _ = (?s1, _) |- XInv ?s1 => eapply Ist; [|exact E]; loop
    | E : gen_send _ _ _ _ = (?s1, _) |- XInv ?s1 => eapply Isd; [|exact E]; loop
    | E : enter_own _ _ _ _ _ = (?s1, _) |- XInv ?s1 => eapply Ieo; [|exact E]; loop
    | E : enter_local _ _ _ _ _ = (?s1, _, _) |- XInv ?s1 => eapply Iel; [|exact E]; loop
    | E : run_effects _ _ _ _ _ = (?s1, _) |- XInv ?s1 => eapply Ief; [|exact E]; loop
    | E : recur_pass _ _ _ _ = (?s1, _) |- XInv ?s1 => eapply Irp; [|exact E]; loop
    | E : recur_loop _ _ _ _ = (?s1, _) |- XInv ?s1 => eapply Irl; [|exact E]; loop
    end in loop.

(* the flag of leaf i was just set False: every clause of i holds as soon as its
   lifecycle is open *)
Lemma leaf_open i s s' k sc e rest :
  get D i = Some (FLeaf k sc) -> XCore s -> defs s' = defs s -> (forall j, j <> i -> same_at j s s') ->
  (forall pc, get_gen s' i = GSusp pc -> exists n older, pc = S n /\ evs i s' = repeat Recur n ++ Enter :: older) ->
  evs i s' = e :: rest -> e <> Exit -> get_done s' i = Some false -> XCore s'.
Proof.
  intros Lf L E O Sh Ev Ne Dn. eapply xc_only; [exact L|exact E|exact O|]. unfold xj. rewrite Lf.
  split; [exact Sh|]. split.
  - intros pc _. exists e, rest. split; [exact Ev|exact Ne].
  - rewrite Ev, Dn. now apply flag_open.
Qed.

(* the lifecycle of leaf i has ended, not by its own return *)
Lemma leaf_forced i s s' k sc l :
  get D i = Some (FLeaf k sc) -> XCore s -> defs s' = defs s -> (forall j, j <> i -> same_at j s s') ->
  get_gen s' i = GDone -> evs i s' = l -> flag_ok k sc l (Some false) -> get_done s' i = Some false -> XCore s'.
Proof.
  intros Lf L E O G Ev Fl Dn. eapply xc_only; [exact L|exact E|exact O|]. unfold xj. rewrite Lf.
  split; [intros pc X; rewrite G in X; discriminate|]. split; [intros pc X; rewrite G in X; discriminate|].
  rewrite Ev, Dn. exact Fl.
Qed.

(* ---------- non-`always` DoDoers ---------- *)

Lemma nest_live i s s' t0 kids e rest :
  get D i = Some (FNest t0 false kids) -> XCore s -> defs s' = defs s -> (forall j, j <> i -> same_at j s s') ->
  (forall pc, get_gen s' i = GSusp pc -> exists n older, evs i s' = repeat Recur n ++ Enter :: older) ->
  evs i s' = e :: rest -> e <> Exit -> nflag_ok (e :: rest) (get_done s' i) -> XCore s'.
Proof.
  intros N L E O Sh Ev Ne Fl. eapply xc_only; [exact L|exact E|exact O|]. unfold xj. rewrite N.
  split; [exact Sh|]. split; [intros pc _; exists e, rest; split; [exact Ev|exact Ne]|]. rewrite Ev. exact Fl.
Qed.

Lemma nest_ended i s s' t0 kids l :
  get D i = Some (FNest t0 false kids) -> XCore s -> defs s' = defs s -> (forall j, j <> i -> same_at j s s') ->
  get_gen s' i = GDone -> evs i s' = l -> nflag_ok l (get_done s' i) -> XCore s'.
Proof.
  intros N L E O G Ev Fl. eapply xc_only; [exact L|exact E|exact O|]. unfold xj. rewrite N.
  split; [intros pc X; rewrite G in X; discriminate|]. split; [intros pc X; rewrite G in X; discriminate|].
  rewrite Ev. exact Fl.
Qed.

Lemma nest_flag s i t0 kids : XCore s -> get D i = Some (FNest t0 false kids) -> nflag_ok (evs i s) (get_done s i).
Proof. intros (_ & A) N. specialize (A i). unfold xj in A. rewrite N in A. apply A. Qed.
Lemma nest_susp s i t0 kids pc : XCore s -> get D i = Some (FNest t0 false kids) -> get_gen s i = GSusp pc ->
  exists n older, evs i s = repeat Recur n ++ Enter :: older.
Proof. intros (_ & A) N G. specialize (A i). unfold xj in A. rewrite N in A. destruct A as (A1 & _). exact (A1 pc G). Qed.
Lemma nest_run s i t0 kids pc : XCore s -> get D i = Some (FNest t0 false kids) -> get_gen s i = GRun pc ->
  exists e rest, evs i s = e :: rest /\ e <> Exit.
Proof. intros (_ & A) N G. specialize (A i). unfold xj in A. rewrite N in A. destruct A as (_ & A2 & _). exact (A2 pc G). Qed.

Lemma nest_open_done s i t0 kids e rest :
  XCore s -> get D i = Some (FNest t0 false kids) -> evs i s = e :: rest -> e <> Exit -> e <> Clean ->
  get_done s i = Some false.
Proof. intros C N Ev N1 N2. pose proof (nest_flag s i t0 kids C N) as Fl. rewrite Ev in Fl. now apply nflag_open in Fl. Qed.

(* the common ending of a DoDoer's generator: exit of its own deque, Exit, done *)
Lemma nest_finish f s3 i t0 kids e rest :
  (forall s i, XInv s -> XInv (close_own tk f s i)) ->
  get D i = Some (FNest t0 false kids) -> XInv s3 ->
  (XCore s3 -> (exists pc, get_gen s3 i = GRun pc) /\ evs i s3 = e :: rest /\
               nflag_ok (Exit :: e :: rest) (get_done s3 i)) ->
  XInv (set_gen (emit (close_own tk f s3 i) Exit i) i GDone).
Proof.
  intros Ico N X3 Facts.
  destruct X3 as [O3|C3].
  { left. cbn [oof set_gen emit]. eapply steps_oof; [apply close_own_steps|exact O3]. }
  destruct (Facts C3) as ((pc & G3) & Ev3 & Fl3).
  destruct (Ico s3 i (or_intror C3)) as [O4|C4]; [left; exact O4|]. right.
  assert (N4 : noj i s3 (close_own tk f s3 i)).
  { destruct (framej_all tk i f) as (_ & _ & _ & _ & Fco & _). apply Fco; [exists pc; exact G3|apply noj_refl]. }
  destruct N4 as (G4 & E4).
  eapply (nest_ended i (close_own tk f s3 i) _ t0 kids (Exit :: e :: rest)); [exact N|exact C4|reflexivity|sa|apply gen_set_gen_same| |].
  - rewrite evs_set_gen, evs_emit_same by reflexivity. now rewrite E4, Ev3.
  - change (get_done (set_gen (emit ?a _ _) _ _) ?j) with (get_done a j).
    rewrite (closes_done _ _ i (close_own_closes tk f s3 i)). exact Fl3.
Qed.

Lemma xinv_allf : forall f, xinv_at f.
Proof.
  induction f as [|f IH].
  - unfold xinv_at. repeat match goal with |- _ /\ _ => split end; intros.
    all: try match goal with
         | E : _ = (_, _) |- _ => cbn in E; inversion E; subst; clear E
         end; cbn; try assumption; try (left; reflexivity).
  - destruct IH as (Ist & Irs & Isd & Icl & Ico & Ili & Ieo & Iel & Ief & Irp & Irl).
    unfold xinv_at. repeat match goal with |- _ /\ _ => split end; intros.
    + (* gen_start, called on a state whose flag i was just set False *)
      rename H0 into L, H1 into E.
      destruct L as [O|L]; [left; eapply oof_start; [exact E|exact O]|].
      assert (Df : defs s = D) by apply L.
      rewrite gen_start_S in E.
      change (startable (set_done s i (Some false)) i) with (startable s i) in E.
      change (get (defs (set_done s i (Some false))) i) with (get (defs s) i) in E. rewrite Df in E.
      destruct (get D i) as [[k script|t0 always kids]|] eqn:Gi.
      * (* leaf *)
        destruct (startable s i) eqn:St; cbn [negb] in E.
        -- (* started: Enter *)
           assert (L0 : XCore (emit (set_gen (set_done s i (Some false)) i (GRun 0)) Enter i)).
           { eapply (leaf_open i s _ k script Enter (evs i s)); [exact Gi|exact L|reflexivity|sa| | |discriminate|].
             - intros pc G. rewrite gen_emit, gen_set_gen_same in G. discriminate.
             - rewrite evs_emit_same by reflexivity. reflexivity.
             - apply get_done_same. }
           eapply (Irs _ i k script 0%nat (evs i s)); [right; exact L0|exact Gi| | |exact E].
           ++ rewrite gen_emit. apply gen_set_gen_same.
           ++ rewrite evs_emit_same by reflexivity. reflexivity.
        -- (* already suspended or executing: only the flag is written, and it was False *)
           fin. right.
           assert (Op : exists e rest, evs i s = e :: rest /\ e <> Exit).
           { destruct L as (_ & A). specialize (A i). unfold xj in A. rewrite Gi in A. destruct A as (A1 & A2 & _).
             unfold startable in St. destruct (get_gen s i) eqn:G; try discriminate.
             - destruct (A1 pc eq_refl) as (n & older & _ & Ev). rewrite Ev.
               destruct n; cbn; eexists _, _; (split; [reflexivity|discriminate]).
             - exact (A2 pc eq_refl). }
           destruct Op as (e & rest & Ev & Ne).
           eapply (leaf_open i s _ k script e rest); [exact Gi|exact L|reflexivity|sa| |exact Ev|exact Ne|apply get_done_same].
           intros pc G. destruct L as (_ & A). specialize (A i). unfold xj in A. rewrite Gi in A. exact (proj1 A pc G).
      * (* DoDoer *)
        destruct always.
        { assert (L0 : XInv (set_done s i (Some false))) by (eapply xn_done; [exact Gi|right; exact L]).
          destruct (startable s i) eqn:St; cbn [negb] in E; [|fin; exact L0].
          cbv zeta in E.
          destruct (enter_own tk f _ i _) as [s2 r0] eqn:Ee.
          destruct r0; fin; goX Ist Isd Icl Ico Ili Ieo Iel Ief Irp Irl. }
        destruct (startable s i) eqn:St; cbn [negb] in E.
        -- (* started: Enter, enter of its own doers, first yield *)
           cbv zeta in E.
           set (s1 := emit (set_gen (set_done s i (Some false)) i (GRun 0)) Enter i) in *.
           assert (L1 : XCore s1).
           { eapply (nest_live i s s1 t0 kids Enter (evs i s)); [exact Gi|exact L|reflexivity|unfold s1; sa| | |discriminate|].
             - intros pc G. unfold s1 in G. rewrite gen_emit, gen_set_gen_same in G. discriminate.
             - unfold s1. rewrite evs_emit_same by reflexivity. reflexivity.
             - apply nflag_open; [discriminate|discriminate|]. unfold s1.
               change (get_done (emit (set_gen ?a _ _) _ _) ?j) with (get_done a j). apply get_done_same. }
           destruct (enter_own tk f s1 i _) as [s2 r0] eqn:Ee.
           assert (L2 : XInv s2) by (eapply Ieo; [right; exact L1|exact Ee]).
           assert (N2 : get_gen s2 i = GRun 0 /\ evs i s2 = Enter :: evs i s).
           { assert (N2 : noj i s1 s2).
             { destruct (framej_all tk i f) as (_ & _ & _ & _ & _ & _ & Feo & _).
               eapply Feo; [exists 0%nat; unfold s1; rewrite gen_emit; apply gen_set_gen_same|apply noj_refl|exact Ee]. }
             destruct N2 as (G2 & E2). split.
             - rewrite G2. unfold s1. rewrite gen_emit. apply gen_set_gen_same.
             - rewrite E2. unfold s1. rewrite evs_emit_same by reflexivity. reflexivity. }
           destruct N2 as (G2 & Ev2).
           assert (Susp : XInv (set_gen s2 i (GSusp 1))).
           { revert L2. apply xl; [auto|]. intro C2.
             eapply (nest_live i s2 _ t0 kids Enter (evs i s)); [exact Gi|exact C2|reflexivity|sa| |rewrite evs_set_gen; exact Ev2|discriminate|].
             - intros pc _. exists 0%nat, (evs i s). rewrite evs_set_gen. exact Ev2.
             - apply nflag_open; [discriminate|discriminate|].
               exact (nest_open_done s2 i t0 kids Enter (evs i s) C2 Gi Ev2 ltac:(discriminate) ltac:(discriminate)). }
           destruct r0 as [t1| |kbd|]; fin; try exact Susp; try exact L2.
           destruct kbd.
           ++ eapply (nest_finish f s2 i t0 kids Enter (evs i s)); [exact Ico|exact Gi|exact L2|].
              intro C2. split; [exists 0%nat; exact G2|]. split; [exact Ev2|].
              apply nflag_forced; [discriminate|].
              exact (nest_open_done s2 i t0 kids Enter (evs i s) C2 Gi Ev2 ltac:(discriminate) ltac:(discriminate)).
           ++ assert (Ev3 : evs i (emit s2 Abort i) = Abort :: Enter :: evs i s).
              { rewrite evs_emit_same by reflexivity. now rewrite Ev2. }
              eapply (nest_finish f (emit s2 Abort i) i t0 kids Abort (Enter :: evs i s)); [exact Ico|exact Gi| |].
              ** revert L2. apply xl; [auto|]. intro C2.
                 eapply (nest_live i s2 _ t0 kids Abort (Enter :: evs i s)); [exact Gi|exact C2|reflexivity|sa| |exact Ev3|discriminate|].
                 --- intros pc G. rewrite gen_emit, G2 in G. discriminate.
                 --- apply nflag_open; [discriminate|discriminate|].
                     exact (nest_open_done s2 i t0 kids Enter (evs i s) C2 Gi Ev2 ltac:(discriminate) ltac:(discriminate)).
              ** intro C3. split; [exists 0%nat; rewrite gen_emit; exact G2|]. split; [exact Ev3|].
                 apply nflag_forced; [discriminate|].
                 exact (nest_open_done _ i t0 kids Abort (Enter :: evs i s) C3 Gi Ev3 ltac:(discriminate) ltac:(discriminate)).
        -- (* already suspended or executing: only the flag is written *)
           fin. right.
           assert (Op : exists e rest, evs i s = e :: rest /\ e <> Exit).
           { unfold startable in St. destruct (get_gen s i) eqn:G; try discriminate.
             - destruct (nest_susp s i t0 kids pc L Gi G) as (n & older & Ev). rewrite Ev.
               destruct n; cbn; eexists _, _; (split; [reflexivity|discriminate]).
             - exact (nest_run s i t0 kids pc L Gi G). }
           destruct Op as (e & rest & Ev & Ne).
           eapply (nest_live i s _ t0 kids e rest); [exact Gi|exact L|reflexivity|sa| |exact Ev|exact Ne|].
           ++ intros pc G. exact (nest_susp s i t0 kids pc L Gi G).
           ++ rewrite get_done_same. now apply nflag_false_open.
      * (* no such doer *)
        assert (L0 : XCore (set_done s i (Some false))).
        { eapply xcn_only; [|exact L|reflexivity|sa]. unfold untracked. now rewrite Gi. }
        destruct (startable s i); cbn [negb] in E; fin; right; exact L0.
    + (* run_step *)
      rename H0 into L, H1 into Lf, H2 into Rn, H3 into Ev, H4 into E.
      destruct L as [O|L]; [left; eapply oof_step; [exact E|exact O]|].
      rewrite run_step_S in E. cbv zeta in E.
      destruct (run_effects tk f s i _) as [s1 r0] eqn:Ee.
      assert (L1 : XInv s1) by (eapply Ief; [right; exact L|exact Ee]).
      destruct L1 as [O1|L1].
      { left. destruct r0 as [t0| |kbd|]; [| | |fin; exact O1];
          try (destruct (f_out _)); try destruct kbd; fin; exact O1. }
      assert (N1 : noj i s s1).
      { destruct (framej_all tk i f) as (_ & _ & _ & _ & _ & _ & _ & _ & Fef & _).
        eapply Fef; [exists pc; exact Rn|apply noj_refl|exact Ee]. }
      destruct N1 as (G1 & E1). rewrite <- E1 in Ev.
      assert (Dn1 : get_done s1 i = Some false).
      { pose proof (leaf_flag s1 i k sc L1 Lf) as Fl. rewrite Ev in Fl. now apply flag_run in Fl. }
      right.
      destruct r0 as [t0| |kbd|]; cbv beta iota zeta in E.
      4: (fin; exact L1).
      3: { (* the effects raised *)
        destruct kbd; fin.
        - eapply (leaf_forced i s1 _ k sc); [exact Lf|exact L1|reflexivity|sa|apply gen_set_gen_same| | |exact Dn1].
          + rewrite evs_set_gen, evs_emit_same by reflexivity. rewrite Ev. reflexivity.
          + now apply flag_kbd.
        - eapply (leaf_forced i s1 _ k sc); [exact Lf|exact L1|reflexivity|sa|apply gen_set_gen_same| | |exact Dn1].
          + rewrite evs_set_gen, evs_emit_same by reflexivity. rewrite evs_emit_same by reflexivity. reflexivity.
          + apply flag_forced; [discriminate|reflexivity]. }
      all: destruct (f_out (nth pc sc default_step)) as [t|rv| |] eqn:Eo; fin.
      all: try (eapply (leaf_forced i s1 _ k sc); [exact Lf|exact L1|reflexivity|sa|apply gen_set_gen_same| | |exact Dn1];
                [rewrite evs_set_gen, evs_emit_same by reflexivity; try (rewrite evs_emit_same by reflexivity); try rewrite Ev; reflexivity
                |first [now apply flag_kbd|apply flag_forced; [discriminate|reflexivity]]]).
      * (* yield *)
        destruct pc as [|pc'] eqn:Epc.
        -- eapply (leaf_open i s1 _ k sc Enter older); [exact Lf|exact L1|reflexivity|sa| |rewrite evs_set_gen; exact Ev|discriminate|exact Dn1].
           intros pc2 G2. rewrite gen_set_gen_same in G2. inversion G2; subst pc2. exists 0%nat, older. split; [reflexivity|].
           rewrite evs_set_gen. exact Ev.
        -- eapply (leaf_open i s1 _ k sc Recur (repeat Recur pc' ++ Enter :: older)); [exact Lf|exact L1|reflexivity|sa| |rewrite evs_set_gen; exact Ev|discriminate|exact Dn1].
           intros pc2 G2. rewrite gen_set_gen_same in G2. inversion G2; subst pc2. exists (S pc'), older. split; [reflexivity|].
           rewrite evs_set_gen. exact Ev.
      * (* return rv *)
        eapply xc_only; [exact L1|reflexivity|sa|]. unfold xj. rewrite Lf.
        split; [intros pc2 G2; rewrite gen_set_done, gen_set_gen_same in G2; discriminate|].
        split; [intros pc2 G2; rewrite gen_set_done, gen_set_gen_same in G2; discriminate|].
        rewrite evs_set_done, evs_set_gen, evs_emit_same by reflexivity. rewrite evs_emit_same by reflexivity.
        rewrite Ev, get_done_same. cbn [flag_ok]. exists pc, older, rv.
        split; [reflexivity|]. split; [exact Eo|].
        change (get_done (emit (emit s1 Clean i) Exit i) i) with (get_done s1 i). now rewrite Dn1.
      * (* yield *)
        destruct pc as [|pc'] eqn:Epc.
        -- eapply (leaf_open i s1 _ k sc Enter older); [exact Lf|exact L1|reflexivity|sa| |rewrite evs_set_gen; exact Ev|discriminate|exact Dn1].
           intros pc2 G2. rewrite gen_set_gen_same in G2. inversion G2; subst pc2. exists 0%nat, older. split; [reflexivity|].
           rewrite evs_set_gen. exact Ev.
        -- eapply (leaf_open i s1 _ k sc Recur (repeat Recur pc' ++ Enter :: older)); [exact Lf|exact L1|reflexivity|sa| |rewrite evs_set_gen; exact Ev|discriminate|exact Dn1].
           intros pc2 G2. rewrite gen_set_gen_same in G2. inversion G2; subst pc2. exists (S pc'), older. split; [reflexivity|].
           rewrite evs_set_gen. exact Ev.
      * (* return rv *)
        eapply xc_only; [exact L1|reflexivity|sa|]. unfold xj. rewrite Lf.
        split; [intros pc2 G2; rewrite gen_set_done, gen_set_gen_same in G2; discriminate|].
        split; [intros pc2 G2; rewrite gen_set_done, gen_set_gen_same in G2; discriminate|].
        rewrite evs_set_done, evs_set_gen, evs_emit_same by reflexivity. rewrite evs_emit_same by reflexivity.
        rewrite Ev, get_done_same. cbn [flag_ok]. exists pc, older, rv.
        split; [reflexivity|]. split; [exact Eo|].
        change (get_done (emit (emit s1 Clean i) Exit i) i) with (get_done s1 i). now rewrite Dn1.
    + (* gen_send *)
      rename H0 into L, H1 into E.
      destruct L as [O|L]; [left; eapply oof_send; [exact E|exact O]|].
      rewrite gen_send_S in E.
      destruct (get_gen s i) eqn:G; try (fin; right; assumption).
      assert (Df : defs s = D) by apply L. rewrite Df in E.
      destruct (get D i) as [[k script|t0 always kids]|] eqn:Gi; [| |fin; right; assumption].
      * destruct (susp_shape_x s i k script pc L Gi G) as (n & older & -> & Ev).
        assert (Dn : get_done s i = Some false).
        { pose proof (leaf_flag s i k script L Gi) as Fl. rewrite Ev in Fl. now apply flag_run in Fl. }
        assert (L0 : XCore (emit (set_gen s i (GRun (S n))) Recur i)).
        { eapply (leaf_open i s _ k script Recur (evs i s)); [exact Gi|exact L|reflexivity|sa| | |discriminate|exact Dn].
          - intros pc G'. rewrite gen_emit, gen_set_gen_same in G'. discriminate.
          - rewrite evs_emit_same by reflexivity. reflexivity. }
        eapply (Irs _ i k script (S n) older); [right; exact L0|exact Gi| | |exact E].
        -- rewrite gen_emit. apply gen_set_gen_same.
        -- rewrite evs_emit_same by reflexivity. rewrite evs_set_gen, Ev. reflexivity.
      * cbv zeta in E. assert (LL : XInv s) by (right; exact L).
        destruct always.
        { destruct (recur_pass tk f _ i) as [s2 r0] eqn:Ee.
          destruct r0; cbv beta iota zeta in E;
            try (match type of E with (if ?c then _ else _) = _ => destruct c end); fin;
            goX Ist Isd Icl Ico Ili Ieo Iel Ief Irp Irl. }
        (* a DoDoer that is not `always` *)
        destruct (nest_susp s i t0 kids pc L Gi G) as (n & older & Ev).
        assert (Dn : get_done s i = Some false).
        { pose proof (nest_flag s i t0 kids L Gi) as Fl. rewrite Ev in Fl. now apply nflag_run in Fl. }
        set (s1 := emit (set_gen s i (GRun pc)) Recur i) in *.
        assert (Ev1 : evs i s1 = Recur :: evs i s) by (unfold s1; rewrite evs_emit_same by reflexivity; reflexivity).
        assert (L1 : XCore s1).
        { eapply (nest_live i s s1 t0 kids Recur (evs i s)); [exact Gi|exact L|reflexivity|unfold s1; sa| |exact Ev1|discriminate|].
          - intros pc' G'. unfold s1 in G'. rewrite gen_emit, gen_set_gen_same in G'. discriminate.
          - apply nflag_open; [discriminate|discriminate|exact Dn]. }
        destruct (recur_pass tk f s1 i) as [s2 r0] eqn:Ee.
        assert (L2 : XInv s2) by (eapply Irp; [right; exact L1|exact Ee]).
        assert (N2 : get_gen s2 i = GRun pc /\ evs i s2 = Recur :: evs i s).
        { assert (N2 : noj i s1 s2).
          { destruct (framej_all tk i f) as (_ & _ & _ & _ & _ & _ & _ & _ & _ & Frp & _).
            eapply Frp; [exists pc; unfold s1; rewrite gen_emit; apply gen_set_gen_same|apply noj_refl|exact Ee]. }
          destruct N2 as (G2 & E2). split; [rewrite G2; unfold s1; rewrite gen_emit; apply gen_set_gen_same|now rewrite E2]. }
        destruct N2 as (G2 & Ev2).
        assert (Raise : forall kbd : bool, XInv (set_gen (emit (close_own tk f (if kbd then s2 else emit s2 Abort i) i) Exit i) i GDone)).
        { intros [|].
          - eapply (nest_finish f s2 i t0 kids Recur (evs i s)); [exact Ico|exact Gi|exact L2|].
            intro C2. split; [exists pc; exact G2|]. split; [exact Ev2|]. apply nflag_forced; [discriminate|].
            exact (nest_open_done s2 i t0 kids Recur (evs i s) C2 Gi Ev2 ltac:(discriminate) ltac:(discriminate)).
          - assert (Ev3 : evs i (emit s2 Abort i) = Abort :: Recur :: evs i s).
            { rewrite evs_emit_same by reflexivity. now rewrite Ev2. }
            eapply (nest_finish f (emit s2 Abort i) i t0 kids Abort (Recur :: evs i s)); [exact Ico|exact Gi| |].
            + revert L2. apply xl; [auto|]. intro C2.
              eapply (nest_live i s2 _ t0 kids Abort (Recur :: evs i s)); [exact Gi|exact C2|reflexivity|sa| |exact Ev3|discriminate|].
              * intros pc' G'. rewrite gen_emit, G2 in G'. discriminate.
              * apply nflag_open; [discriminate|discriminate|].
                exact (nest_open_done s2 i t0 kids Recur (evs i s) C2 Gi Ev2 ltac:(discriminate) ltac:(discriminate)).
            + intro C3. split; [exists pc; rewrite gen_emit; exact G2|]. split; [exact Ev3|].
              apply nflag_forced; [discriminate|].
              exact (nest_open_done _ i t0 kids Abort (Recur :: evs i s) C3 Gi Ev3 ltac:(discriminate) ltac:(discriminate)). }
        assert (Done : forall e : bool,
          (if e && negb false
           then XInv (set_gen (emit (close_own tk f (emit (set_done s2 i (Some e)) Clean i) i) Exit i) i GDone)
           else XInv (set_gen (set_done s2 i (Some e)) i (GSusp pc)))).
        { intros [|]; cbn [andb negb].
          - (* deque empty: done := True, Clean, exit, Exit *)
            assert (Ev3 : evs i (emit (set_done s2 i (Some true)) Clean i) = Clean :: Recur :: evs i s).
            { rewrite evs_emit_same by reflexivity. rewrite evs_set_done. now rewrite Ev2. }
            eapply (nest_finish f _ i t0 kids Clean (Recur :: evs i s)); [exact Ico|exact Gi| |].
            + revert L2. apply xl; [auto|]. intro C2.
              eapply (nest_live i s2 _ t0 kids Clean (Recur :: evs i s)); [exact Gi|exact C2|reflexivity|sa| |exact Ev3|discriminate|exact I].
              intros pc' G'. rewrite gen_emit, gen_set_done, G2 in G'. discriminate.
            + intro C3. split; [exists pc; rewrite gen_emit, gen_set_done; exact G2|]. split; [exact Ev3|].
              cbn [nflag_ok]. change (get_done (emit ?a _ _) ?j) with (get_done a j). apply get_done_same.
          - (* still busy: done := False, suspended again *)
            revert L2. apply xl; [auto|]. intro C2.
            assert (Ev3 : evs i (set_gen (set_done s2 i (Some false)) i (GSusp pc)) = Recur :: evs i s).
            { rewrite evs_set_gen, evs_set_done. exact Ev2. }
            eapply (nest_live i s2 _ t0 kids Recur (evs i s)); [exact Gi|exact C2|reflexivity|sa| |exact Ev3|discriminate|].
            + intros pc' _. exists (S n), older. rewrite Ev3, Ev. reflexivity.
            + apply nflag_open; [discriminate|discriminate|].
              change (get_done (set_gen ?a _ _) ?j) with (get_done a j). apply get_done_same. }
        destruct r0 as [t1| |kbd|]; cbv beta iota zeta in E.
        -- specialize (Done (match deeds (get_sched s2 i) with [] => true | _ => false end)).
           destruct (_ && _); fin; exact Done.
        -- specialize (Done (match deeds (get_sched s2 i) with [] => true | _ => false end)).
           destruct (_ && _); fin; exact Done.
        -- fin. apply Raise.
        -- fin. exact L2.
    + (* gen_close *)
      rename H0 into L.
      destruct L as [O|L]; [left; now apply oof_close|].
      rewrite gen_close_S.
      destruct (get_gen s i) eqn:G; try (right; assumption).
      assert (Df : defs s = D) by apply L. rewrite Df.
      destruct (get D i) as [[k script|t0 always kids]|] eqn:Gi; [| |right; assumption].
      * destruct (susp_shape_x s i k script pc L Gi G) as (n & older & -> & Ev).
        assert (Dn : get_done s i = Some false).
        { pose proof (leaf_flag s i k script L Gi) as Fl. rewrite Ev in Fl. now apply flag_run in Fl. }
        right. eapply (leaf_forced i s _ k script); [exact Gi|exact L|reflexivity|sa|apply gen_set_gen_same| | |exact Dn].
        -- rewrite evs_set_gen, evs_emit_same by reflexivity. rewrite evs_emit_same by reflexivity. reflexivity.
        -- apply flag_forced; [discriminate|reflexivity].
      * cbv zeta. assert (LL : XInv s) by (right; exact L).
        destruct always; [goX Ist Isd Icl Ico Ili Ieo Iel Ief Irp Irl|].
        destruct (nest_susp s i t0 kids pc L Gi G) as (n & older & Ev).
        assert (Dn : get_done s i = Some false).
        { pose proof (nest_flag s i t0 kids L Gi) as Fl. rewrite Ev in Fl. now apply nflag_run in Fl. }
        assert (Ev3 : evs i (emit (set_gen s i (GRun pc)) Cease i) = Cease :: evs i s).
        { rewrite evs_emit_same by reflexivity. reflexivity. }
        eapply (nest_finish f _ i t0 kids Cease (evs i s)); [exact Ico|exact Gi| |].
        -- right. eapply (nest_live i s _ t0 kids Cease (evs i s)); [exact Gi|exact L|reflexivity|sa| |exact Ev3|discriminate|].
           ++ intros pc' G'. rewrite gen_emit, gen_set_gen_same in G'. discriminate.
           ++ apply nflag_open; [discriminate|discriminate|exact Dn].
        -- intro C3. split; [exists pc; rewrite gen_emit; apply gen_set_gen_same|]. split; [exact Ev3|].
           apply nflag_forced; [discriminate|exact Dn].
    + rewrite close_own_S. cbv zeta. goX Ist Isd Icl Ico Ili Ieo Iel Ief Irp Irl.
    + rewrite close_list_S. brk; goX Ist Isd Icl Ico Ili Ieo Iel Ief Irp Irl.
    + rewrite enter_own_S in *. brk; fin; goX Ist Isd Icl Ico Ili Ieo Iel Ief Irp Irl.
    + rewrite enter_local_S in *. brk; fin; goX Ist Isd Icl Ico Ili Ieo Iel Ief Irp Irl.
    + rewrite run_effects_S in *. brk; fin; goX Ist Isd Icl Ico Ili Ieo Iel Ief Irp Irl.
    + rewrite recur_pass_S in *. cbv zeta in *. goX Ist Isd Icl Ico Ili Ieo Iel Ief Irp Irl.
    + rewrite recur_loop_S in *. brk; fin; goX Ist Isd Icl Ico Ili Ieo Iel Ief Irp Irl.
Qed.

End Flag.

(* ---------- whole runs ---------- *)
Section FlagRun.
Context {T : Type} `{Time T}.
Implicit Types s : st T.

Lemma xcore_init (p : prog T) : XCore (p_defs p) (init_st p).
Proof.
  split; [reflexivity|]. intro i. unfold xj.
  assert (Nd : get_done (init_st p) i <> Some true).
  { unfold get_done, init_st; cbn [dones get]. destruct (N.eqb i 0); discriminate. }
  destruct (get (p_defs p) i) as [[k sc|t0 [|] kids]|]; try exact I.
  - split; [intros pc G; unfold get_gen, init_st in G; cbn [gens get] in G; discriminate|].
    split; [intros pc G; unfold get_gen, init_st in G; cbn [gens get] in G; discriminate|].
    change (evs i (init_st p)) with (@nil ekind). exact Nd.
  - split; [intros pc G; unfold get_gen, init_st in G; cbn [gens get] in G; discriminate|].
    split; [intros pc G; unfold get_gen, init_st in G; cbn [gens get] in G; discriminate|].
    change (evs i (init_st p)) with (@nil ekind). exact Nd.
Qed.

Lemma xinv_root_done D s d : get D 0%N = None -> XInv D s -> XInv D (set_done s 0%N d).
Proof.
  intro R. apply xl; [auto|]. intro L. eapply (xcn_only D 0%N); [|exact L|reflexivity|].
  - unfold untracked. now rewrite R.
  - intros j Hj. split; [reflexivity|]. split; [reflexivity|]. now apply get_done_other.
Qed.

Lemma xinv_recur_pass tk D fuel s sid s' r : XInv D s -> recur_pass tk fuel s sid = (s', r) -> XInv D s'.
Proof. intros L E. destruct (xinv_allf tk D fuel) as (_ & _ & _ & _ & _ & _ & _ & _ & _ & Irp & _). eapply Irp; eassumption. Qed.
Lemma xinv_close_own tk D fuel s sid : XInv D s -> XInv D (close_own tk fuel s sid).
Proof. intros L. destruct (xinv_allf tk D fuel) as (_ & _ & _ & _ & Ico & _). now apply Ico. Qed.
Lemma xinv_enter_own tk D fuel s sid ids s' r : XInv D s -> enter_own tk fuel s sid ids = (s', r) -> XInv D s'.
Proof. intros L E. destruct (xinv_allf tk D fuel) as (_ & _ & _ & _ & _ & _ & Ieo & _). eapply Ieo; eassumption. Qed.

Lemma cycle_loop_xinv tk D cycles : forall fuel s limit stop,
  get D 0%N = None -> XInv D s -> XInv D (cycle_loop tk cycles fuel s limit stop).
Proof.
  induction cycles as [|c IH]; intros fuel s limit stop R L; cbn [cycle_loop]; [left; reflexivity|].
  destruct (recur_pass tk fuel s 0%N) as [s1 r] eqn:E.
  assert (L1 : XInv D s1) by (eapply xinv_recur_pass; eassumption).
  assert (End : forall s k, is_life k = false -> XInv D s -> XInv D (emit (close_own tk fuel s 0%N) k 0%N)).
  { intros s0 k K L0. apply xinv_top; [exact K|]. now apply xinv_close_own. }
  assert (Tick : XInv D
      (let s2 := set_tyme s1 (tadd (tyme s1) tk) in
       match deeds (get_sched s2 0%N) with
       | [] => emit (close_own tk fuel (set_done s2 0%N (Some true)) 0%N) DoReturn 0%N
       | _ => if (match limit with Some l => negb (tfalsy l) | None => false end) && tleb stop (tyme s2)
              then emit (close_own tk fuel s2 0%N) DoReturn 0%N
              else cycle_loop tk c fuel s2 limit stop
       end)).
  { cbv zeta. assert (L2 : XInv D (set_tyme s1 (tadd (tyme s1) tk))) by now apply xinv_tyme.
    destruct (deeds _).
    - apply End; [reflexivity|]. now apply xinv_root_done.
    - destruct (_ && _); [now apply End|now apply IH]. }
  destruct r as [t| |[|]|]; try exact Tick; try (apply End; [reflexivity|exact L1]). exact L1.
Qed.

(* the exact flag rule holds for every leaf in the final state of every run that
   stayed within its budgets, for programs in which no doer is numbered 0 *)
Lemma do_run_xinv cycles fuel (p : prog T) :
  get (p_defs p) 0%N = None -> XInv (p_defs p) (do_run cycles fuel p).
Proof.
  intro R. unfold do_run.
  destruct (enter_own (p_tock p) fuel (init_st p) 0%N (p_doers p)) as [s1 r] eqn:E.
  assert (L1 : XInv (p_defs p) s1) by (eapply xinv_enter_own; [right; apply xcore_init|exact E]).
  destruct r as [t| |kb|]; try exact L1.
  - apply cycle_loop_xinv; [exact R|now apply xinv_rlive].
  - apply cycle_loop_xinv; [exact R|now apply xinv_rlive].
  - apply xinv_top; [reflexivity|]. now apply xinv_close_own.
Qed.

Theorem do_run_flags cycles fuel (p : prog T) :
  get (p_defs p) 0%N = None -> oof (do_run cycles fuel p) = false ->
  forall i k sc, get (p_defs p) i = Some (FLeaf k sc) ->
    flag_ok k sc (evs i (do_run cycles fuel p)) (get_done (do_run cycles fuel p) i).
Proof.
  intros R O i k sc Lf. destruct (do_run_xinv cycles fuel p R) as [X|X]; [congruence|].
  now apply leaf_flag with (D := p_defs p).
Qed.

(* the same for DoDoers that are not `always` *)
Theorem do_run_nest_flags cycles fuel (p : prog T) :
  get (p_defs p) 0%N = None -> oof (do_run cycles fuel p) = false ->
  forall i t0 kids, get (p_defs p) i = Some (FNest t0 false kids) ->
    nflag_ok (evs i (do_run cycles fuel p)) (get_done (do_run cycles fuel p) i).
Proof.
  intros R O i t0 kids N. destruct (do_run_xinv cycles fuel p R) as [X|X]; [congruence|].
  now apply nest_flag with (D := p_defs p) (t0 := t0) (kids := kids).
Qed.

End FlagRun.
