(* C04, arbitrary depth — Model/Sched.v on static regrouping TREES computes the
   structural specification of Proofs/SchedTreeDefs.v.  Each phase (recur pass,
   enter, exit) is one statement for "the loop of a scheduler" and one for "a
   group", proved together by induction on fuel; the leaf-level lemmas, frames
   and [out_ok] are those of Proofs/SchedFlatRun.v. *)
From Coq Require Import Permutation.
From Hio Require Import Base.Prelude Base.AMap Base.Time Model.Sched
  Proofs.SchedEqs Proofs.SchedFrame Proofs.SchedLife Proofs.SchedFlatDefs Proofs.SchedFlatRun
  Proofs.SchedTreeDefs.

Section TRun.
Context {T : Type} `{Time T}.
Implicit Types s a : st T.

Variable vis : list id.      (* the root (0) and the leaves *)
Variables tk z0 : T.
Hypothesis vis0 : In 0%N vis.

(* ---------- representation of a forest of items in a state ---------- *)

Definition t_deed (it : titem T) : deed T :=
  match it with ILeaf v => lv_deed v | IGroup n _ re _ => DDeed n re end.

Fixpoint t_ok1 s (it : titem T) : Prop :=
  match it with
  | ILeaf v => lv_ok s v
  | IGroup n npc _ kids =>
    get_gen s n = GSusp npc /\ deeds (get_sched s n) = map t_deed kids /\ all (t_ok1 s) kids
  end.
Notation ts_ok s := (all (t_ok1 s)).

Fixpoint t_wf1 (D : amap (fdef T)) (it : titem T) : Prop :=
  match it with
  | ILeaf v => leaf_in D (v_leaf v) /\ In (lv_id v) vis
  | IGroup n _ _ kids =>
    ~ In n vis /\ (exists kids0, get D n = Some (FNest z0 false kids0)) /\ all (t_wf1 D) kids
  end.
Notation ts_wf D := (all (t_wf1 D)).

Lemma ts_ids_leaf (v : lv T) r : ts_ids (ILeaf v :: r) = lv_id v :: ts_ids r.
Proof. reflexivity. Qed.
Lemma ts_ids_group n npc (re : T) kids r : ts_ids (IGroup n npc re kids :: r) = n :: ts_ids kids ++ ts_ids r.
Proof. reflexivity. Qed.
Lemma ts_ids_app (a b : list (titem T)) : ts_ids (a ++ b) = ts_ids a ++ ts_ids b.
Proof. apply flat_map_app. Qed.

Ltac ids_tac :=
  let x := fresh "x" in let Hx := fresh "Hx" in
  intros x Hx; rewrite ?ts_ids_leaf, ?ts_ids_group in Hx; rewrite ?ts_ids_leaf, ?ts_ids_group;
  cbn [In app] in Hx |- *; rewrite ?in_app_iff in Hx; rewrite ?in_app_iff; cbn [In] in Hx |- *; tauto.

Lemma ts_ok_frame Xg Xs s s' : forall its,
  frame Xg Xs s s' -> (forall x, In x (ts_ids its) -> ~ In x Xg /\ ~ In x Xs) -> ts_ok s its -> ts_ok s' its.
Proof.
  intros its F. induction its as [|v r IH|n npc re kids r IHk IH] using titems_ind; intros Hn G.
  - exact I.
  - cbn [all t_ok1] in *. destruct G as [Gv Gr]. split.
    + eapply lv_ok_frame; [exact F| |exact Gv]. apply Hn. rewrite ts_ids_leaf. now left.
    + apply IH; [|exact Gr]. intros x Hx. apply Hn. rewrite ts_ids_leaf. now right.
  - cbn [all t_ok1] in *. destruct G as [(Gn & Dq & Gk) Gr].
    assert (Hn' : ~ In n Xg /\ ~ In n Xs) by (apply Hn; rewrite ts_ids_group; now left).
    pose proof F as (_ & _ & FG & FS).
    split; [split; [|split]|].
    + rewrite FG; [exact Gn|apply Hn'].
    + rewrite FS; [exact Dq|apply Hn'].
    + apply IHk; [|exact Gk]. intros x Hx. apply Hn. rewrite ts_ids_group. right. apply in_or_app. now left.
    + apply IH; [|exact Gr]. intros x Hx. apply Hn. rewrite ts_ids_group. right. apply in_or_app. now right.
Qed.

Lemma ts_ok_app s (a b : list (titem T)) : ts_ok s (a ++ b) <-> ts_ok s a /\ ts_ok s b.
Proof. apply all_app. Qed.
Lemma ts_ok_rev s (l : list (titem T)) : ts_ok s l -> ts_ok s (rev l).
Proof. rewrite !all_Forall. apply Forall_rev. Qed.
Lemma ts_wf_rev D (l : list (titem T)) : ts_wf D l -> ts_wf D (rev l).
Proof. rewrite !all_Forall. apply Forall_rev. Qed.
Lemma ts_ids_rev (l : list (titem T)) : Permutation (ts_ids l) (ts_ids (rev l)).
Proof. unfold ts_ids. apply Permutation_flat_map. apply Permutation_rev. Qed.

Lemma ts_ok_tyme s t : forall its, ts_ok s its -> ts_ok (set_tyme s t) its.
Proof.
  induction its as [|v r IH|n npc re kids r IHk IH] using titems_ind; intro G; [exact I| |];
    cbn [all t_ok1] in *.
  - destruct G as [Gv Gr]. split; [exact Gv|auto].
  - destruct G as [(Gn & Dq & Gk) Gr]. split; [split; [exact Gn|split; [exact Dq|auto]]|auto].
Qed.
Lemma ts_ok_rlive s (v : bool) : forall its, ts_ok s its -> ts_ok (set_rlive s v) its.
Proof.
  induction its as [|w r IH|n npc re kids r IHk IH] using titems_ind; intro G; [exact I| |];
    cbn [all t_ok1] in *.
  - destruct G as [Gv Gr]. split; [exact Gv|auto].
  - destruct G as [(Gn & Dq & Gk) Gr]. split; [split; [exact Gn|split; [exact Dq|auto]]|auto].
Qed.

(* ---------- what a pass keeps ---------- *)

Lemma tpass_cons (zb b t : T) (it : titem T) r o :
  tpass zb b t (it :: r) o =
  let '(ox, o1) := tpass1 zb b t it o in
  let '(r', o2) := tpass zb b t r o1 in
  (match ox with Some y => y :: r' | None => r' end, o2).
Proof. reflexivity. Qed.

Lemma tpass1_leaf (zb b t : T) (v : lv T) o :
  tpass1 zb b t (ILeaf v) o =
  let '(ov, o1) := (if tleb (v_re v) t then lv_step b t v o else (Some v, o)) in (option_map ILeaf ov, o1).
Proof. cbn [tpass1]. destruct (tleb (v_re v) t); [|reflexivity]. destruct (lv_step b t v o); reflexivity. Qed.

Lemma tpass1_group (zb b t : T) n npc re kids o :
  tpass1 zb b t (IGroup n npc re kids) o =
  if tleb re t then
    let '(kids', o1) := tpass zb zb t kids o in
    (match kids' with
     | [] => None
     | _ => Some (IGroup n npc (if tfalsy zb then tadd t b else tadd re zb) kids')
     end, o1)
  else (Some (IGroup n npc re kids), o).
Proof. reflexivity. Qed.

Lemma tpass_wf (zb t : T) D : forall (U : list (titem T)) (b : T) o U' o',
  tpass zb b t U o = (U', o') ->
  subl (ts_ids U') (ts_ids U) /\ (ts_wf D U -> ts_wf D U').
Proof.
  induction U as [|v U IH|n npc re kids U IHk IH] using titems_ind; intros b o U' o' E.
  - inversion E; subst. split; [apply subl_nil|auto].
  - rewrite tpass_cons, tpass1_leaf in E. rewrite ts_ids_leaf.
    destruct (if tleb (v_re v) t then lv_step b t v o else (Some v, o)) as [ov o1] eqn:Es.
    destruct (tpass zb b t U o1) as [r' o2] eqn:Ep. destruct (IH _ _ _ _ Ep) as [S W].
    assert (Lv : forall v', ov = Some v' -> v_leaf v' = v_leaf v).
    { intros v' ->. destruct (tleb (v_re v) t); [eapply lv_step_leaf; exact Es|inversion Es; reflexivity]. }
    destruct ov as [v'|]; cbn [option_map] in E; inversion E; subst.
    + specialize (Lv v' eq_refl).
      assert (Li : lv_id v' = lv_id v) by (unfold lv_id; now rewrite Lv).
      rewrite ts_ids_leaf, Li. split; [now apply subl_keep|].
      cbn [all t_wf1]. rewrite Li, Lv. intros [Wv Wr]. split; [exact Wv|auto].
    + split; [now apply subl_skip|]. cbn [all t_wf1]. intros [_ Wr]. auto.
  - rewrite tpass_cons, tpass1_group in E. rewrite ts_ids_group.
    destruct (tleb re t).
    + destruct (tpass zb zb t kids o) as [kids' o1] eqn:Ek.
      destruct (tpass zb b t U o1) as [r' o2] eqn:Ep.
      destruct (IHk _ _ _ _ Ek) as [Sk Wk]. destruct (IH _ _ _ _ Ep) as [S W].
      destruct kids' as [|k kids'']; inversion E; subst.
      * split; [apply subl_skip; apply (subl_app [] (ts_ids kids)); [apply subl_nil_l|exact S]|].
        cbn [all t_wf1]. intros [_ Wr]. auto.
      * rewrite ts_ids_group. split; [apply subl_keep; apply subl_app; assumption|].
        cbn [all t_wf1]. intros [(NV & Dn & Wkk) Wr]. split; [split; [exact NV|split; [exact Dn|exact (Wk Wkk)]]|auto].
    + destruct (tpass zb b t U o) as [r' o2] eqn:Ep. destruct (IH _ _ _ _ Ep) as [S W].
      inversion E; subst. rewrite ts_ids_group. split; [apply subl_keep; apply subl_app; [apply subl_refl|exact S]|].
      cbn [all t_wf1]. intros [Wg Wr]. split; [exact Wg|auto].
Qed.

(* ---------- NoDup bookkeeping ---------- *)

Lemma nd_leaf (sid i : id) l : NoDup (sid :: i :: l) -> NoDup (sid :: l) /\ ~ In i l /\ i <> sid /\ ~ In sid l.
Proof.
  intro N. apply NoDup_cons_iff in N as [N1 N]. apply NoDup_cons_iff in N as [N2 N].
  split; [constructor; [intro; apply N1; now right|exact N]|].
  split; [exact N2|]. split; [intro; subst; apply N1; now left|intro; apply N1; now right].
Qed.

Lemma nd_group (sid n : id) k l : NoDup (sid :: n :: k ++ l) ->
  NoDup (sid :: l) /\ NoDup (n :: k) /\ n <> sid /\ ~ In sid k /\ ~ In sid l /\
  (forall x, In x (n :: k) -> ~ In x l).
Proof.
  intro N. apply NoDup_cons_iff in N as [N1 N].
  change (n :: k ++ l) with ((n :: k) ++ l) in N, N1.
  split; [constructor; [intro; apply N1; apply in_or_app; now right|eapply NoDup_app_r; exact N]|].
  split; [eapply NoDup_app_l; exact N|].
  split; [intro; subst; apply N1; now left|].
  split; [intro; apply N1; apply in_or_app; left; now right|].
  split; [intro; apply N1; apply in_or_app; now right|].
  apply NoDup_app_disj. exact N.
Qed.

(* ---------- the recur pass: loop of a scheduler and recur of a group, by induction on fuel ---------- *)

Definition loop_at (f : nat) : Prop := forall sid (b : T) (U : list (titem T)) P s o s' r,
  recur_loop tk f s sid = (s', r) -> oof s' = false ->
  deeds (get_sched s sid) = map t_deed U ++ DMark :: P ->
  ts_ok s U -> ts_wf (defs s) U -> NoDup (sid :: ts_ids U) -> out_ok vis s o -> sched_tock tk s sid = b ->
  exists U' o', tpass (tabs z0) b (tyme s) U o = (U', o') /\ r = GReturn /\
    deeds (get_sched s' sid) = P ++ map t_deed U' /\ ts_ok s' U' /\ out_ok vis s' o' /\
    frame (ts_ids U) (sid :: ts_ids U) s s'.

Definition send_at (f : nat) : Prop := forall s n npc (re : T) kids o s' r,
  gen_send tk f s n = (s', r) -> oof s' = false ->
  ts_ok s [IGroup n npc re kids] -> ts_wf (defs s) [IGroup n npc re kids] ->
  NoDup (n :: ts_ids kids) -> out_ok vis s o ->
  exists kids' o', tpass (tabs z0) (tabs z0) (tyme s) kids o = (kids', o') /\ out_ok vis s' o' /\
    frame (n :: ts_ids kids) (n :: ts_ids kids) s s' /\
    match kids' with
    | [] => r = GReturn /\ get_gen s' n = GDone
    | _ => r = GYield (Some (tabs z0)) /\ ts_ok s' [IGroup n npc re kids']
    end.

Lemma invis_ne0 n : ~ In n vis -> n <> 0%N.
Proof. intros NV E. subst. contradiction. Qed.

Lemma send_from_loop f : loop_at f -> send_at (S (S f)).
Proof.
  intros L s n npc re kids o s' r E O G W ND OK.
  cbn [all t_ok1 t_wf1] in G, W. destruct G as [(Gn & Dq & K) _]. destruct W as [(NV & [kids0 D] & WK) _].
  pose proof (invis_ne0 n NV) as N0.
  pose proof ND as ND'. apply NoDup_cons_iff in ND' as [Nn NDk].
  rewrite gen_send_S, Gn, D in E. cbv zeta in E.
  set (s1 := emit (set_gen s n (GRun npc)) Recur n) in *.
  destruct (recur_pass tk (S f) s1 n) as [s2 g] eqn:Ep.
  assert (O2 : oof s2 = false).
  { destruct g; cbv beta iota zeta in E.
    1,2: destruct (deeds (get_sched s2 n)); cbn [andb negb] in E; inversion E; subst s';
      rewrite ?oof_set_gen, ?oof_emit in O; [apply oof_close_own in O|]; exact O.
    - inversion E; subst s'. rewrite oof_set_gen, oof_emit in O. apply oof_close_own in O.
      destruct kbd; exact O.
    - inversion E; subst; exact O. }
  rewrite recur_pass_S in Ep. cbv zeta in Ep.
  set (s1' := set_deeds s1 n (deeds (get_sched s1 n) ++ [DMark])) in *.
  assert (F1 : frame [n] [n] s s1').
  { unfold s1', s1. apply frame_deeds; [now left|]. apply frame_emit. apply frame_gen; [now left|]. apply frame_refl. }
  assert (OK1 : out_ok vis s1' o).
  { unfold s1', s1. apply ok_deeds. apply ok_emit_invis; [exact NV|]. now apply ok_gen. }
  assert (Dq1 : deeds (get_sched s1' n) = map t_deed kids ++ DMark :: []).
  { unfold s1'. rewrite deeds_set_deeds_same. unfold s1. rewrite sched_emit, sched_set_gen. now rewrite Dq. }
  assert (K1 : ts_ok s1' kids).
  { eapply ts_ok_frame; [exact F1| |exact K]. intros x Hx. split; intros [Heq|[]]; subst x; contradiction. }
  assert (B1 : sched_tock tk s1' n = tabs z0) by (eapply sched_tock_nest; [exact N0|exact D]).
  destruct (L n (tabs z0) kids [] s1' o s2 g Ep O2 Dq1 K1 WK ND OK1 B1)
    as (kids' & o' & Hp & -> & Dq2 & K2 & OK2 & F2).
  change (tyme s1') with (tyme s) in Hp. cbn [app] in Dq2.
  exists kids', o'. split; [exact Hp|].
  assert (F12 : frame (n :: ts_ids kids) (n :: ts_ids kids) s s2).
  { eapply frame_trans.
    - eapply frame_weaken; [| |exact F1]; intros x [->|[]]; now left.
    - eapply frame_weaken; [| |exact F2]; [apply incl_tl, incl_refl|apply incl_refl]. }
  cbv beta iota zeta in E. rewrite Dq2 in E.
  destruct kids' as [|k kids'']; cbn [map andb negb] in E.
  - inversion E; subst s' r; clear E.
    rewrite oof_set_gen, oof_emit in O.
    rewrite close_own_empty in * by (try exact O; rewrite sched_emit, sched_set_done; exact Dq2).
    split; [|split].
    + apply ok_gen. apply ok_emit_invis; [exact NV|]. apply ok_deeds. apply ok_emit_invis; [exact NV|].
      apply ok_done_invis; [exact NV|exact OK2].
    + apply frame_gen; [now left|]. apply frame_emit. apply frame_deeds; [now left|].
      apply frame_emit. apply frame_done. exact F12.
    + split; [reflexivity|]. apply gen_set_gen_same.
  - inversion E; subst s' r; clear E.
    split; [|split].
    + apply ok_gen. apply ok_done_invis; [exact NV|exact OK2].
    + apply frame_gen; [now left|]. apply frame_done. exact F12.
    + split; [reflexivity|]. cbn [all t_ok1].
      split; [|exact I]. split; [apply gen_set_gen_same|].
      split; [rewrite sched_set_gen, sched_set_done; exact Dq2|].
      apply (ts_ok_frame [n] [] s2 _ (k :: kids'')); [| |exact K2].
      * apply frame_gen; [now left|]. apply frame_done. apply frame_refl.
      * intros x Hx. split; [|intros []]. intros [Heq|[]]. subst x. apply Nn.
        destruct (tpass_wf (tabs z0) (tyme s) (defs s) kids _ _ _ _ Hp) as [Sub _].
        eapply subl_In; [exact Sub|exact Hx].
Qed.

Lemma loop_step f : loop_at f -> send_at f -> loop_at (S f).
Proof.
  intros L Sd sid b U P s o s' r E O Dq G W ND OK B.
  destruct U as [|it U].
  - cbn [map app] in Dq. rewrite recur_loop_S, Dq in E. inversion E; subst s' r.
    exists [], o. split; [reflexivity|]. split; [reflexivity|].
    split; [rewrite deeds_set_deeds_same; now rewrite app_nil_r|].
    split; [exact I|]. split; [now apply ok_deeds|].
    apply frame_deeds; [now left|apply frame_refl].
  - cbn [map app] in Dq. destruct it as [v|n npc re kids].
    + (* a leaf *)
      cbn [all t_ok1 t_wf1 t_deed] in G, W, Dq. destruct G as [Gv GU]. destruct W as [[Dv Vv] WU].
      rewrite ts_ids_leaf in ND. destruct (nd_leaf _ _ _ ND) as (NDU & Nv & Nvs & Ns).
      destruct (loop_leaf_step vis tk f s sid v _ s' r o E O Dq Gv Dv Vv OK)
        as (s2 & ov & o1 & Hst & E2 & Dq2 & Hov & OK2 & F2).
      assert (FU : ts_ok s2 U).
      { eapply ts_ok_frame; [exact F2| |exact GU]. intros x Hx. split; intros [Heq|[]]; subst x; contradiction. }
      assert (WU2 : ts_wf (defs s2) U) by (destruct F2 as (_ & -> & _); exact WU).
      assert (T2 : tyme s2 = tyme s) by (destruct F2 as (-> & _); reflexivity).
      assert (B2 : sched_tock tk s2 sid = b) by (rewrite (sched_tock_frame _ _ _ _ _ _ F2); exact B).
      rewrite <- app_assoc in Dq2. cbn [app] in Dq2.
      destruct (L sid b U _ s2 o1 s' r E2 O Dq2 FU WU2 NDU OK2 B2) as (U' & o' & Hp & -> & Dq' & G' & OK' & F').
      rewrite T2 in Hp. rewrite B in Hst.
      rewrite tpass_cons, tpass1_leaf, Hst, Hp. rewrite ts_ids_leaf.
      assert (FF : frame (lv_id v :: ts_ids U) (sid :: lv_id v :: ts_ids U) s s').
      { eapply frame_trans; [eapply frame_weaken; [| |exact F2]|eapply frame_weaken; [| |exact F']];
          intros x Hx; cbn [In] in *; tauto. }
      destruct ov as [v'|]; cbn [option_map].
      * destruct Hov as [Gv' Lv'].
        eexists _, _. split; [reflexivity|]. split; [reflexivity|].
        split; [rewrite Dq', <- app_assoc; reflexivity|].
        split; [|split; assumption].
        cbn [all t_ok1]. split; [|exact G'].
        eapply lv_ok_frame; [exact F'| |exact Gv']. unfold lv_id. rewrite Lv'. exact Nv.
      * eexists _, _. split; [reflexivity|]. split; [reflexivity|].
        split; [rewrite Dq', app_nil_r; reflexivity|]. split; [exact G'|split; assumption].
    + (* a group *)
      cbn [t_deed] in Dq.
      pose proof G as G0. pose proof W as W0.
      cbn [all t_ok1 t_wf1] in G, W. destruct G as [(Gn & Dqn & Kn) GU]. destruct W as [(NV & [kids0 Dn] & WK) WU].
      rewrite ts_ids_group in ND. destruct (nd_group _ _ _ _ ND) as (NDU & NDn & Nns & Nsk & Nsu & Disj).
      rewrite recur_loop_S, Dq in E. cbv zeta in E.
      set (rest := map t_deed U ++ DMark :: P) in *.
      change (tyme (set_deeds s sid rest)) with (tyme s) in E.
      rewrite tpass_cons, tpass1_group. rewrite ts_ids_group.
      destruct (tleb re (tyme s)) eqn:Due.
      * destruct (gen_send tk f (set_deeds s sid rest) n) as [s2 g] eqn:Es.
        assert (O2 : oof s2 = false).
        { destruct g; try (inversion E; subst; assumption); apply oof_recur_loop in E; assumption. }
        assert (F0 : frame [] [sid] s (set_deeds s sid rest)) by (apply frame_deeds; [now left|apply frame_refl]).
        assert (G1 : ts_ok (set_deeds s sid rest) [IGroup n npc re kids]).
        { eapply ts_ok_frame; [exact F0| |cbn [all t_ok1]; auto].
          intros x Hx. split; [intros []|]. intros [Heq|[]]. subst x.
          rewrite ts_ids_group, app_nil_r in Hx. destruct Hx as [Hx|Hx]; [now apply Nns|now apply Nsk]. }
        assert (W1 : ts_wf (defs (set_deeds s sid rest)) [IGroup n npc re kids]).
        { cbn [all t_wf1]. split; [|exact I]. split; [exact NV|]. split; [exists kids0; exact Dn|exact WK]. }
        destruct (Sd (set_deeds s sid rest) n npc re kids o s2 g Es O2 G1 W1 NDn (ok_deeds _ _ _ _ _ OK))
          as (kids' & o1 & Hk & OK2 & F2 & Hcase).
        change (tyme (set_deeds s sid rest)) with (tyme s) in Hk.
        assert (Hsub : forall x, In x (ts_ids kids') -> In x (ts_ids kids)).
        { intro x. apply subl_In. exact (proj1 (tpass_wf _ _ (defs s) _ _ _ _ _ Hk)). }
        assert (F02 : frame (n :: ts_ids kids) (sid :: n :: ts_ids kids) s s2).
        { eapply frame_trans; [eapply frame_weaken; [| |exact F0]|eapply frame_weaken; [| |exact F2]];
            intros x Hx; cbn [In] in *; tauto. }
        assert (Dq0 : deeds (get_sched s2 sid) = rest).
        { destruct F2 as (_ & _ & _ & FS). rewrite FS; [apply deeds_set_deeds_same|].
          intros [Heq|Hx]; [now apply Nns|now apply Nsk]. }
        assert (HU : forall x, In x (ts_ids U) -> ~ In x (n :: ts_ids kids) /\ ~ In x (sid :: n :: ts_ids kids)).
        { intros x Hx. split; [intro Hin; exact (Disj x Hin Hx)|].
          intros [Heq|Hin]; [subst x; contradiction|exact (Disj x Hin Hx)]. }
        assert (FU : ts_ok s2 U) by (eapply ts_ok_frame; [exact F02|exact HU|exact GU]).
        assert (WU2 : ts_wf (defs s2) U) by (destruct F02 as (_ & -> & _); exact WU).
        assert (T2 : tyme s2 = tyme s) by (destruct F02 as (-> & _); reflexivity).
        assert (B2 : sched_tock tk s2 sid = b) by (rewrite (sched_tock_frame _ _ _ _ _ _ F02); exact B).
        rewrite Hk.
        destruct kids' as [|k kids''].
        -- destruct Hcase as [-> Gd]. unfold rest in Dq0.
           destruct (L sid b U P s2 o1 s' r E O Dq0 FU WU2 NDU OK2 B2) as (U' & o' & Hp & -> & Dq' & G' & OK' & F').
           rewrite T2 in Hp. rewrite Hp.
           eexists _, _. split; [reflexivity|]. split; [reflexivity|]. split; [exact Dq'|].
           split; [exact G'|]. split; [exact OK'|].
           eapply frame_trans; [eapply frame_weaken; [| |exact F02]|eapply frame_weaken; [| |exact F']];
             intros x Hx; cbn [In] in *; rewrite ?in_app_iff in *; tauto.
        -- destruct Hcase as (-> & Gs). cbv beta iota zeta in E.
           rewrite B2, T2 in E.
           set (re' := if tfalsy (tabs z0) then tadd (tyme s) b else tadd re (tabs z0)) in *.
           set (s3 := set_deeds s2 sid (deeds (get_sched s2 sid) ++ [DDeed n re'])) in *.
           assert (F3 : frame [] [sid] s2 s3) by (apply frame_deeds; [now left|apply frame_refl]).
           assert (Dq3 : deeds (get_sched s3 sid) = map t_deed U ++ DMark :: (P ++ [DDeed n re'])).
           { unfold s3. rewrite deeds_set_deeds_same, Dq0. unfold rest. now rewrite <- app_assoc. }
           assert (FU3 : ts_ok s3 U).
           { eapply ts_ok_frame; [exact F3| |exact FU]. intros x Hx. split; [intros []|].
             intros [Heq|[]]. subst x. contradiction. }
           assert (B3 : sched_tock tk s3 sid = b) by (rewrite (sched_tock_frame _ _ _ _ _ _ F3); exact B2).
           destruct (L sid b U _ s3 o1 s' r E O Dq3 FU3 WU2 NDU (ok_deeds _ _ _ _ _ OK2) B3)
             as (U' & o' & Hp & -> & Dq' & G' & OK' & F').
           change (tyme s3) with (tyme s2) in Hp. rewrite T2 in Hp. rewrite Hp.
           eexists _, _. split; [reflexivity|]. split; [reflexivity|].
           split; [rewrite Dq', <- app_assoc; reflexivity|].
           split; [|split; [exact OK'|]].
           ++ change (ts_ok s' (IGroup n npc re' (k :: kids'') :: U')) with
                (t_ok1 s' (IGroup n npc re' (k :: kids'')) /\ ts_ok s' U').
              split; [|exact G'].
              assert (G3 : ts_ok s' [IGroup n npc re (k :: kids'')]).
              { apply (ts_ok_frame (ts_ids U) (sid :: ts_ids U) s3 s' _ F').
                - intros x Hx. rewrite ts_ids_group, app_nil_r in Hx.
                  assert (Hin : In x (n :: ts_ids kids)).
                  { destruct Hx as [<-|Hx]; [now left|right; now apply Hsub]. }
                  split; [exact (Disj x Hin)|].
                  intros [Heq|Hx2]; [|exact (Disj x Hin Hx2)].
                  subst x. destruct Hin as [Hin|Hin]; [now apply Nns|now apply Nsk].
                - apply (ts_ok_frame [] [sid] s2 s3 _ F3); [|exact Gs].
                  intros x Hx. split; [intros []|]. intros [Heq|[]]. subst x.
                  rewrite ts_ids_group, app_nil_r in Hx.
                  destruct Hx as [Hx|Hx]; [now apply Nns|apply Nsk; now apply Hsub]. }
              exact (proj1 G3).
           ++ eapply frame_trans; [eapply frame_weaken; [| |exact F02]|].
              1,2: intros x Hx; cbn [In] in *; rewrite ?in_app_iff in *; tauto.
              eapply frame_trans; [eapply frame_weaken; [| |exact F3]|eapply frame_weaken; [| |exact F']];
                intros x Hx; cbn [In] in *; rewrite ?in_app_iff in *; tauto.
      * (* not due: rotated to the back untouched *)
        set (s3 := set_deeds (set_deeds s sid rest) sid (rest ++ [DDeed n re])) in *.
        assert (F3 : frame [] [sid] s s3).
        { unfold s3. apply frame_deeds; [now left|]. apply frame_deeds; [now left|]. apply frame_refl. }
        assert (Dq3 : deeds (get_sched s3 sid) = map t_deed U ++ DMark :: (P ++ [DDeed n re])).
        { unfold s3. rewrite deeds_set_deeds_same. unfold rest. now rewrite <- app_assoc. }
        assert (FU3 : ts_ok s3 U).
        { eapply ts_ok_frame; [exact F3| |exact GU]. intros x Hx. split; [intros []|].
          intros [Heq|[]]. subst x. contradiction. }
        assert (B3 : sched_tock tk s3 sid = b) by (rewrite (sched_tock_frame _ _ _ _ _ _ F3); exact B).
        destruct (L sid b U _ s3 o s' r E O Dq3 FU3 WU NDU (ok_deeds _ _ _ _ _ (ok_deeds _ _ _ _ _ OK)) B3)
          as (U' & o' & Hp & -> & Dq' & G' & OK' & F').
        change (tyme s3) with (tyme s) in Hp. rewrite Hp.
        eexists _, _. split; [reflexivity|]. split; [reflexivity|].
        split; [rewrite Dq', <- app_assoc; reflexivity|].
        split; [|split; [exact OK'|]].
        -- change (ts_ok s' (IGroup n npc re kids :: U')) with (t_ok1 s' (IGroup n npc re kids) /\ ts_ok s' U').
           split; [|exact G'].
           assert (G3 : ts_ok s' [IGroup n npc re kids]).
           { apply (ts_ok_frame (ts_ids U) (sid :: ts_ids U) s3 s' _ F').
             - intros x Hx. rewrite ts_ids_group, app_nil_r in Hx.
               split; [exact (Disj x Hx)|].
               intros [Heq|Hx2]; [|exact (Disj x Hx Hx2)].
               subst x. destruct Hx as [Hx|Hx]; [now apply Nns|now apply Nsk].
             - apply (ts_ok_frame [] [sid] s s3 _ F3); [|cbn [all t_ok1]; auto].
               intros x Hx. split; [intros []|]. intros [Heq|[]]. subst x.
               rewrite ts_ids_group, app_nil_r in Hx. destruct Hx as [Hx|Hx]; [now apply Nns|now apply Nsk]. }
           exact (proj1 G3).
        -- eapply frame_trans; [eapply frame_weaken; [| |exact F3]|eapply frame_weaken; [| |exact F']];
             intros x Hx; cbn [In] in *; rewrite ?in_app_iff in *; tauto.
Qed.

Lemma loop_at_0 : loop_at 0.
Proof. intros sid b U P s o s' r E O. rewrite recur_loop_O in E. inversion E; subst; discriminate. Qed.
Lemma send_at_0 : send_at 0.
Proof. intros s n npc re kids o s' r E O. rewrite gen_send_O in E. inversion E; subst; discriminate. Qed.
Lemma send_at_1 : send_at 1.
Proof.
  intros s n npc re kids o s' r E O G W ND OK. exfalso.
  cbn [all t_ok1 t_wf1] in G, W. destruct G as [(Gn & _) _]. destruct W as [(_ & [kids0 D] & _) _].
  rewrite gen_send_S, Gn, D in E. cbv zeta in E. rewrite recur_pass_O in E. inversion E; subst; discriminate.
Qed.

Lemma pass_all : forall f, loop_at f /\ send_at f /\ send_at (S f).
Proof.
  induction f as [|f (L & S0 & S1)].
  - split; [exact loop_at_0|split; [exact send_at_0|exact send_at_1]].
  - split; [now apply loop_step|]. split; [exact S1|now apply send_from_loop].
Qed.

(* ---------- enter ---------- *)

Fixpoint g_wf1 (D : amap (fdef T)) (g : gtree T) : Prop :=
  match g with
  | TLeaf l => leaf_in D l /\ In (lf_id l) vis
  | TGroup n kids =>
    ~ In n vis /\ (exists kids0, get D n = Some (FNest z0 false kids0)) /\ all (g_wf1 D) kids
  end.
(* before enter: the doers of every DoDoer are its kids, its deque is empty *)
Fixpoint g_st1 s (g : gtree T) : Prop :=
  match g with
  | TLeaf _ => True
  | TGroup n kids =>
    doers (get_sched s n) = map gt_top kids /\ deeds (get_sched s n) = [] /\ all (g_st1 s) kids
  end.

Lemma gts_ids_leaf (l : leaf T) r : gts_ids (TLeaf l :: r) = lf_id l :: gts_ids r.
Proof. reflexivity. Qed.
Lemma gts_ids_group n (kids r : list (gtree T)) : gts_ids (TGroup n kids :: r) = n :: gts_ids kids ++ gts_ids r.
Proof. reflexivity. Qed.

Lemma gs_st_frame Xg Xs s s' : forall gs,
  frame Xg Xs s s' -> (forall x, In x (gts_ids gs) -> ~ In x Xs) -> all (g_st1 s) gs -> all (g_st1 s') gs.
Proof.
  intros gs F. induction gs as [|l r IH|n kids r IHk IH] using gtrees_ind; intros Hn G.
  - exact I.
  - cbn [all g_st1] in *. split; [exact I|]. apply IH; [|apply G].
    intros x Hx. apply Hn. rewrite gts_ids_leaf. now right.
  - cbn [all g_st1] in *. destruct G as [(Do & Dq & Gk) Gr].
    destruct F as (_ & _ & _ & FS).
    assert (Nn : ~ In n Xs) by (apply Hn; rewrite gts_ids_group; now left).
    split; [split; [|split]|].
    + rewrite FS; [exact Do|exact Nn].
    + rewrite FS; [exact Dq|exact Nn].
    + apply IHk; [|exact Gk]. intros x Hx. apply Hn. rewrite gts_ids_group. right. apply in_or_app. now left.
    + apply IH; [|exact Gr]. intros x Hx. apply Hn. rewrite gts_ids_group. right. apply in_or_app. now right.
Qed.

Lemma tenter_cons (t : T) (g : gtree T) r o :
  tenter t (g :: r) o =
  let '(ox, o1) := tenter1 t g o in
  let '(r', o2) := tenter t r o1 in
  (match ox with Some y => y :: r' | None => r' end, o2).
Proof. reflexivity. Qed.
Lemma tenter1_group (t : T) n kids o :
  tenter1 t (TGroup n kids) o = let '(kids', o1) := tenter t kids o in (Some (IGroup n 1 t kids'), o1).
Proof. reflexivity. Qed.

Lemma tenter_wf (t : T) D : forall (gs : list (gtree T)) o its o',
  tenter t gs o = (its, o') ->
  subl (ts_ids its) (gts_ids gs) /\ (all (g_wf1 D) gs -> ts_wf D its).
Proof.
  induction gs as [|l gs IH|n kids gs IHk IH] using gtrees_ind; intros o its o' E.
  - inversion E; subst. split; [apply subl_nil|auto].
  - rewrite tenter_cons in E. cbn [tenter1] in E. rewrite gts_ids_leaf.
    destruct (lf_enter t l o) as [ov o1] eqn:El.
    destruct (tenter t gs o1) as [r' o2] eqn:Ep. destruct (IH _ _ _ Ep) as [S W].
    destruct ov as [v|]; cbn [option_map] in E; inversion E; subst.
    + pose proof (lf_enter_leaf _ _ _ _ _ El) as Lv.
      assert (Li : lv_id v = lf_id l) by (unfold lv_id; now rewrite Lv).
      rewrite ts_ids_leaf, Li. split; [now apply subl_keep|].
      cbn [all t_wf1 g_wf1]. rewrite Li, Lv. intros [Wv Wr]. split; [exact Wv|auto].
    + split; [now apply subl_skip|]. cbn [all g_wf1]. intros [_ Wr]. auto.
  - rewrite tenter_cons, tenter1_group in E. rewrite gts_ids_group.
    destruct (tenter t kids o) as [kids' o1] eqn:Ek.
    destruct (tenter t gs o1) as [r' o2] eqn:Ep.
    destruct (IHk _ _ _ Ek) as [Sk Wk]. destruct (IH _ _ _ Ep) as [S W].
    inversion E; subst. rewrite ts_ids_group. split; [apply subl_keep; apply subl_app; assumption|].
    cbn [all t_wf1 g_wf1]. intros [(NV & Dn & Wkk) Wr]. split; [split; [exact NV|split; [exact Dn|auto]]|auto].
Qed.

Definition enter_at (f : nat) : Prop := forall sid (gs : list (gtree T)) s o s' r,
  enter_own tk f s sid (map gt_top gs) = (s', r) -> oof s' = false ->
  (forall x, In x (gts_ids gs) -> get_gen s x = GNew) ->
  all (g_wf1 (defs s)) gs -> all (g_st1 s) gs -> NoDup (sid :: gts_ids gs) -> out_ok vis s o ->
  exists its o', tenter (tyme s) gs o = (its, o') /\ r = GReturn /\
    deeds (get_sched s' sid) = deeds (get_sched s sid) ++ map t_deed its /\
    ts_ok s' its /\ out_ok vis s' o' /\ frame (gts_ids gs) (sid :: gts_ids gs) s s'.

Definition start_at (f : nat) : Prop := forall s n (kids : list (gtree T)) o s' r,
  gen_start tk f s n = (s', r) -> oof s' = false ->
  (forall x, In x (n :: gts_ids kids) -> get_gen s x = GNew) ->
  all (g_wf1 (defs s)) [TGroup n kids] -> all (g_st1 s) [TGroup n kids] ->
  NoDup (n :: gts_ids kids) -> out_ok vis s o ->
  exists kids' o', tenter (tyme s) kids o = (kids', o') /\ r = GYield (Some (tabs z0)) /\
    get_gen s' n = GSusp 1 /\ deeds (get_sched s' n) = map t_deed kids' /\ ts_ok s' kids' /\
    out_ok vis s' o' /\ frame (n :: gts_ids kids) (n :: gts_ids kids) s s'.

Lemma start_from_enter f : enter_at f -> start_at (S f).
Proof.
  intros En s n kids o s' r E O GN W St ND OK.
  cbn [all g_wf1 g_st1] in W, St. destruct W as [(NV & [kids0 D] & WK) _]. destruct St as [(Do & Dq & SK) _].
  pose proof ND as ND'. apply NoDup_cons_iff in ND' as [Nn NDk].
  assert (Gn : get_gen s n = GNew) by (apply GN; now left).
  rewrite gen_start_S in E. unfold startable in E. rewrite Gn in E. cbn [negb] in E. rewrite D in E.
  cbv zeta in E.
  set (s1 := emit (set_gen s n (GRun 0)) Enter n) in *.
  change (doers (get_sched s1 n)) with (doers (get_sched s n)) in E. rewrite Do in E.
  destruct (enter_own tk f s1 n (map gt_top kids)) as [s2 g] eqn:Ee.
  assert (O2 : oof s2 = false).
  { destruct g; inversion E; subst s'; rewrite ?oof_set_gen, ?oof_emit in O; try exact O.
    apply oof_close_own in O. destruct kbd; exact O. }
  assert (F1 : frame [n] [] s s1).
  { unfold s1. apply frame_emit. apply frame_gen; [now left|]. apply frame_refl. }
  assert (GK1 : forall x, In x (gts_ids kids) -> get_gen s1 x = GNew).
  { intros x Hx. destruct F1 as (_ & _ & FG & _). rewrite FG; [apply GN; now right|].
    intros [Heq|[]]. subst x. contradiction. }
  assert (OK1 : out_ok vis s1 o) by (unfold s1; apply ok_emit_invis; [exact NV|now apply ok_gen]).
  assert (SK1 : all (g_st1 s1) kids) by (eapply gs_st_frame; [exact F1| |exact SK]; intros x Hx []).
  destruct (En n kids s1 o s2 g Ee O2 GK1 WK SK1 ND OK1)
    as (kids' & o' & Hp & -> & Dq2 & K2 & OK2 & F2).
  change (tyme s1) with (tyme s) in Hp. change (get_sched s1 n) with (get_sched s n) in Dq2.
  rewrite Dq in Dq2. cbn [app] in Dq2.
  inversion E; subst s' r; clear E.
  exists kids', o'. split; [exact Hp|]. split; [reflexivity|].
  split; [apply gen_set_gen_same|]. split; [rewrite sched_set_gen; exact Dq2|].
  split; [|split].
  - apply (ts_ok_frame [n] [] s2 _ kids'); [| |exact K2].
    + apply frame_gen; [now left|]. apply frame_refl.
    + intros x Hx. split; [|intros []]. intros [Heq|[]]. subst x. apply Nn.
      eapply subl_In; [exact (proj1 (tenter_wf _ (defs s) _ _ _ _ Hp))|exact Hx].
  - now apply ok_gen.
  - apply frame_gen; [now left|].
    eapply frame_trans; [eapply frame_weaken; [| |exact F1]|eapply frame_weaken; [| |exact F2]];
      intros x Hx; cbn [In] in *; tauto.
Qed.

Lemma enter_step f : enter_at f -> start_at f -> enter_at (S f).
Proof.
  intros En St0 sid gs s o s' r E O GN W St ND OK.
  destruct gs as [|g gs].
  - cbn [map] in E. rewrite enter_own_S in E. inversion E; subst s' r.
    exists [], o. split; [reflexivity|]. split; [reflexivity|].
    split; [now rewrite app_nil_r|]. split; [exact I|]. split; [exact OK|apply frame_refl].
  - cbn [map] in E. destruct g as [l|n kids].
    + cbn [all g_wf1 g_st1 gt_top] in W, St, E. destruct W as [[Dl Vl] WU]. destruct St as [_ SU].
      rewrite gts_ids_leaf in ND, GN. destruct (nd_leaf _ _ _ ND) as (NDU & Nl & Nls & Ns).
      assert (Gl : get_gen s (lf_id l) = GNew) by (apply GN; now left).
      destruct (enter_leaf_step vis tk f s sid l _ s' r o E O Gl Dl Vl OK)
        as (s2 & ov & o1 & Hst & E2 & Dq2 & Hov & OK2 & F2).
      assert (GN2 : forall x, In x (gts_ids gs) -> get_gen s2 x = GNew).
      { intros x Hx. destruct F2 as (_ & _ & FG & _). rewrite FG; [apply GN; now right|].
        intros [Heq|[]]. subst x. contradiction. }
      assert (WU2 : all (g_wf1 (defs s2)) gs) by (destruct F2 as (_ & -> & _); exact WU).
      assert (SU2 : all (g_st1 s2) gs).
      { eapply gs_st_frame; [exact F2| |exact SU]. intros x Hx [Heq|[]]. subst x. contradiction. }
      assert (T2 : tyme s2 = tyme s) by (destruct F2 as (-> & _); reflexivity).
      destruct (En sid gs s2 o1 s' r E2 O GN2 WU2 SU2 NDU OK2) as (its & o' & Hp & -> & Dq' & G' & OK' & F').
      rewrite T2 in Hp. rewrite tenter_cons. cbn [tenter1]. rewrite Hst, Hp. rewrite Dq', Dq2, <- app_assoc.
      rewrite gts_ids_leaf.
      assert (FF : frame (lf_id l :: gts_ids gs) (sid :: lf_id l :: gts_ids gs) s s').
      { eapply frame_trans; [eapply frame_weaken; [| |exact F2]|eapply frame_weaken; [| |exact F']];
          intros x Hx; cbn [In] in *; tauto. }
      destruct ov as [v|]; cbn [option_map].
      * destruct Hov as [Gv Lv].
        eexists _, _. split; [reflexivity|]. split; [reflexivity|]. split; [reflexivity|].
        split; [|split; assumption].
        cbn [all t_ok1]. split; [|exact G'].
        eapply lv_ok_frame; [exact F'| |exact Gv]. unfold lv_id. rewrite Lv. exact Nl.
      * eexists _, _. split; [reflexivity|]. split; [reflexivity|]. split; [reflexivity|].
        split; [exact G'|split; assumption].
    + pose proof W as W0. pose proof St as St0'.
      cbn [all g_wf1 g_st1 gt_top] in W, St, E. destruct W as [(NV & Dn & WK) WU]. destruct St as [(Do & Dq & SK) SU].
      rewrite gts_ids_group in ND, GN. destruct (nd_group _ _ _ _ ND) as (NDU & NDn & Nns & Nsk & Nsu & Disj).
      rewrite enter_own_S in E. cbv zeta in E.
      set (s0 := set_done s n (Some false)) in *.
      pose proof (oof_gen_start_enter tk _ _ _ _ _ _ _ E O) as O1.
      destruct (gen_start tk f s0 n) as [s1 g] eqn:Es. cbn [fst] in O1.
      assert (GN0 : forall x, In x (n :: gts_ids kids) -> get_gen s0 x = GNew).
      { intros x Hx. unfold s0. rewrite gen_set_done. apply GN. cbn [In] in *. rewrite in_app_iff. tauto. }
      assert (W1 : all (g_wf1 (defs s0)) [TGroup n kids]).
      { cbn [all g_wf1]. split; [|exact I]. split; [exact NV|]. split; [exact Dn|exact WK]. }
      assert (S1 : all (g_st1 s0) [TGroup n kids]).
      { cbn [all g_st1]. split; [|exact I]. split; [exact Do|]. split; [exact Dq|].
        eapply (gs_st_frame [] [] s s0); [unfold s0; apply frame_done; apply frame_refl| |exact SK]. intros x Hx []. }
      destruct (St0 s0 n kids o s1 g Es O1 GN0 W1 S1 NDn (ok_done_invis _ _ _ _ _ NV OK))
        as (kids' & o1 & Hk & -> & Gs & Dqs & Ks & OK1 & F1).
      change (tyme s0) with (tyme s) in Hk.
      assert (Hsub : forall x, In x (ts_ids kids') -> In x (gts_ids kids)).
      { intro x. apply subl_In. exact (proj1 (tenter_wf _ (defs s) _ _ _ _ Hk)). }
      assert (F01 : frame (n :: gts_ids kids) (n :: gts_ids kids) s s1).
      { eapply frame_trans; [|exact F1]. unfold s0. apply frame_done. apply frame_refl. }
      assert (T1 : tyme s1 = tyme s) by (destruct F01 as (-> & _); reflexivity).
      rewrite T1 in E.
      set (s2 := set_deeds s1 sid (deeds (get_sched s1 sid) ++ [DDeed n (tyme s)])) in *.
      assert (F12 : frame [] [sid] s1 s2) by (apply frame_deeds; [now left|apply frame_refl]).
      assert (F2 : frame (n :: gts_ids kids) (sid :: n :: gts_ids kids) s s2).
      { eapply frame_trans; [eapply frame_weaken; [| |exact F01]|eapply frame_weaken; [| |exact F12]];
          intros x Hx; cbn [In] in *; tauto. }
      assert (Dq2 : deeds (get_sched s2 sid) = deeds (get_sched s sid) ++ [DDeed n (tyme s)]).
      { unfold s2. rewrite deeds_set_deeds_same. destruct F01 as (_ & _ & _ & FS). rewrite FS; [reflexivity|].
        intros [Heq|Hx]; [now apply Nns|now apply Nsk]. }
      assert (GN2 : forall x, In x (gts_ids gs) -> get_gen s2 x = GNew).
      { intros x Hx. destruct F2 as (_ & _ & FG & _). rewrite FG; [apply GN; right; apply in_or_app; now right|].
        intro Hin. exact (Disj x Hin Hx). }
      assert (WU2 : all (g_wf1 (defs s2)) gs) by (destruct F2 as (_ & -> & _); exact WU).
      assert (SU2 : all (g_st1 s2) gs).
      { eapply gs_st_frame; [exact F2| |exact SU]. intros x Hx [Heq|Hin]; [subst x; contradiction|exact (Disj x Hin Hx)]. }
      destruct (En sid gs s2 o1 s' r E O GN2 WU2 SU2 NDU (ok_deeds _ _ _ _ _ OK1))
        as (its & o' & Hp & -> & Dq' & G' & OK' & F').
      change (tyme s2) with (tyme s1) in Hp. rewrite T1 in Hp.
      rewrite tenter_cons, tenter1_group, Hk, Hp. rewrite Dq', Dq2, <- app_assoc. rewrite gts_ids_group.
      eexists _, _. split; [reflexivity|]. split; [reflexivity|]. split; [reflexivity|].
      split; [|split; [exact OK'|]].
      * change (ts_ok s' (IGroup n 1 (tyme s) kids' :: its)) with (t_ok1 s' (IGroup n 1 (tyme s) kids') /\ ts_ok s' its).
        split; [|exact G'].
        assert (G3 : ts_ok s' [IGroup n 1 (tyme s) kids']).
        { apply (ts_ok_frame (gts_ids gs) (sid :: gts_ids gs) s2 s' _ F').
          - intros x Hx. rewrite ts_ids_group, app_nil_r in Hx.
            assert (Hin : In x (n :: gts_ids kids)).
            { destruct Hx as [<-|Hx]; [now left|right; now apply Hsub]. }
            split; [exact (Disj x Hin)|].
            intros [Heq|Hx2]; [|exact (Disj x Hin Hx2)].
            subst x. destruct Hin as [Hin|Hin]; [now apply Nns|now apply Nsk].
          - apply (ts_ok_frame [] [sid] s1 s2 _ F12).
            + intros x Hx. split; [intros []|]. intros [Heq|[]]. subst x.
              rewrite ts_ids_group, app_nil_r in Hx.
              destruct Hx as [Hx|Hx]; [now apply Nns|apply Nsk; now apply Hsub].
            + cbn [all t_ok1]. auto. }
        exact (proj1 G3).
      * eapply frame_trans; [eapply frame_weaken; [| |exact F2]|eapply frame_weaken; [| |exact F']];
          intros x Hx; cbn [In] in *; rewrite ?in_app_iff in *; tauto.
Qed.

Lemma enter_all : forall f, enter_at f /\ start_at f.
Proof.
  induction f as [|f [En St]].
  - split.
    + intros sid gs s o s' r E O. rewrite enter_own_O in E. inversion E; subst; discriminate.
    + intros s n kids o s' r E O. rewrite gen_start_O in E. inversion E; subst; discriminate.
  - split; [now apply enter_step|now apply start_from_enter].
Qed.

(* ---------- exit ---------- *)

Lemma lvs_close_app' (t : T) : forall (a c : list (lv T)) o, lvs_close t (a ++ c) o = lvs_close t c (lvs_close t a o).
Proof. induction a as [|v a IH]; intros c o; cbn [app lvs_close]; [reflexivity|apply IH]. Qed.

Lemma tflatten_app (a c : list (titem T)) : tflatten (a ++ c) = tflatten a ++ tflatten c.
Proof. apply flat_map_app. Qed.

(* the leaves closed by closing the items of L in list order *)
Lemma close_order_cons (t : T) (it : titem T) L o :
  lvs_close t (rev (tflatten (rev (it :: L)))) o =
  lvs_close t (rev (tflatten (rev L))) (lvs_close t (rev (tflat1 it)) o).
Proof.
  cbn [rev]. rewrite tflatten_app, rev_app_distr, lvs_close_app'.
  unfold tflatten at 2. cbn [flat_map]. now rewrite app_nil_r.
Qed.

Lemma split_mark_ts (its : list (titem T)) : forall acc, split_mark (map t_deed its) acc = None.
Proof.
  induction its as [|it its IH]; intro acc; cbn [map split_mark]; [reflexivity|].
  destruct it; cbn [t_deed lv_deed]; apply IH.
Qed.

Definition closel_at (f : nat) : Prop := forall (L : list (titem T)) s o,
  oof (close_list tk f s (map t_deed L)) = false ->
  ts_ok s L -> ts_wf (defs s) L -> NoDup (ts_ids L) -> out_ok vis s o ->
  out_ok vis (close_list tk f s (map t_deed L)) (lvs_close (tyme s) (rev (tflatten (rev L))) o) /\
  frame (ts_ids L) (ts_ids L) s (close_list tk f s (map t_deed L)).

Definition gclose_at (f : nat) : Prop := forall s n npc (re : T) kids o,
  oof (gen_close tk f s n) = false ->
  ts_ok s [IGroup n npc re kids] -> ts_wf (defs s) [IGroup n npc re kids] ->
  NoDup (n :: ts_ids kids) -> out_ok vis s o ->
  out_ok vis (gen_close tk f s n) (lvs_close (tyme s) (rev (tflatten kids)) o) /\
  frame (n :: ts_ids kids) (n :: ts_ids kids) s (gen_close tk f s n).

Lemma gclose_from f : closel_at f -> gclose_at (S (S f)).
Proof.
  intros CL s n npc re kids o O G W ND OK.
  cbn [all t_ok1 t_wf1] in G, W. destruct G as [(Gn & Dq & K) _]. destruct W as [(NV & [kids0 D] & WK) _].
  pose proof ND as ND'. apply NoDup_cons_iff in ND' as [Nn NDk].
  rewrite gen_close_S, Gn, D in *. cbv zeta in *.
  set (s1 := emit (set_gen s n (GRun npc)) Cease n) in *.
  rewrite oof_set_gen, oof_emit in O.
  rewrite close_own_S in *. cbv zeta in *.
  change (get_sched s1 n) with (get_sched s n) in *. rewrite Dq in *.
  unfold unrotate in *. rewrite split_mark_ts in *. rewrite <- map_rev in *.
  set (s2 := set_deeds s1 n []) in *.
  assert (F2 : frame [n] [n] s s2).
  { unfold s2, s1. apply frame_deeds; [now left|]. apply frame_emit. apply frame_gen; [now left|]. apply frame_refl. }
  assert (OK2 : out_ok vis s2 o).
  { unfold s2, s1. apply ok_deeds. apply ok_emit_invis; [exact NV|]. now apply ok_gen. }
  assert (K2 : ts_ok s2 (rev kids)).
  { apply ts_ok_rev. eapply ts_ok_frame; [exact F2| |exact K].
    intros x Hx. split; intros [Heq|[]]; subst x; contradiction. }
  assert (ND2 : NoDup (ts_ids (rev kids))) by (eapply Permutation_NoDup; [apply ts_ids_rev|exact NDk]).
  destruct (CL (rev kids) s2 o O K2 (ts_wf_rev _ _ WK) ND2 OK2) as [OK' F'].
  change (tyme s2) with (tyme s) in OK'. rewrite rev_involutive in OK'.
  split.
  - apply ok_gen. apply ok_emit_invis; [exact NV|exact OK'].
  - apply frame_gen; [now left|]. apply frame_emit.
    eapply frame_trans.
    + eapply frame_weaken; [| |exact F2]; intros x [->|[]]; now left.
    + eapply frame_weaken; [| |exact F']; intros x Hx; right;
        (eapply Permutation_in; [symmetry; apply ts_ids_rev|exact Hx]).
Qed.

Lemma closel_step f : closel_at f -> gclose_at f -> closel_at (S f).
Proof.
  intros CL GC L s o O G W ND OK.
  destruct L as [|it L].
  - cbn [map] in *. rewrite close_list_S. split; [exact OK|apply frame_refl].
  - rewrite close_order_cons. cbn [map] in *. destruct it as [v|n npc re kids].
    + cbn [all t_ok1 t_wf1 t_deed] in *. destruct G as [Gv GU]. destruct W as [[[Dv Pv] Vv] WU].
      rewrite ts_ids_leaf in *. apply NoDup_cons_iff in ND as [Nv NDU].
      change (lv_deed v :: map t_deed L) with (DDeed (lv_id v) (v_re v) :: map t_deed L) in *.
      rewrite close_list_deed in *.
      pose proof (oof_close_list _ _ _ _ O) as O1.
      rewrite (leaf_close _ _ _ _ _ _ _ O1 Gv Dv) in *.
      set (s1 := set_gen (emit (emit (set_gen s (lv_id v) (GRun (v_pc v))) Cease (lv_id v)) Exit (lv_id v)) (lv_id v) GDone) in *.
      assert (F1 : frame [lv_id v] [] s s1).
      { unfold s1. apply frame_gen; [now left|]. do 2 apply frame_emit. apply frame_gen; [now left|]. apply frame_refl. }
      assert (OK1 : out_ok vis s1 (lvs_close (tyme s) (rev (tflat1 (ILeaf v))) o)).
      { unfold s1. cbn [tflat1 rev app lvs_close]. apply ok_gen.
        apply (ok_emit_vis vis (emit (set_gen s (lv_id v) (GRun (v_pc v))) Cease (lv_id v)) _ Exit (lv_id v) Vv).
        apply (ok_emit_vis vis (set_gen s (lv_id v) (GRun (v_pc v))) _ Cease (lv_id v) Vv). now apply ok_gen. }
      assert (GU1 : ts_ok s1 L).
      { eapply ts_ok_frame; [exact F1| |exact GU]. intros x Hx. split; [|intros []].
        intros [Heq|[]]. subst x. contradiction. }
      destruct (CL L s1 _ O GU1 WU NDU OK1) as [OK' F'].
      split; [exact OK'|].
      eapply frame_trans; [eapply frame_weaken; [| |exact F1]|eapply frame_weaken; [| |exact F']];
        intros x Hx; cbn [In] in *; tauto.
    + pose proof G as G0. pose proof W as W0.
      cbn [all t_ok1 t_wf1 t_deed] in G, W. destruct G as [Gg GU]. destruct W as [Wg WU].
      rewrite ts_ids_group in *.
      change (n :: ts_ids kids ++ ts_ids L) with ((n :: ts_ids kids) ++ ts_ids L) in ND.
      pose proof (NoDup_app_l _ _ ND) as NDn. pose proof (NoDup_app_r _ _ ND) as NDU.
      pose proof (NoDup_app_disj _ _ ND) as Disj.
      cbn [t_deed] in *. rewrite close_list_deed in *.
      pose proof (oof_close_list _ _ _ _ O) as O1.
      assert (G1 : ts_ok s [IGroup n npc re kids]) by (cbn [all t_ok1]; auto).
      assert (W1 : ts_wf (defs s) [IGroup n npc re kids]) by (cbn [all t_wf1]; auto).
      destruct (GC s n npc re kids o O1 G1 W1 NDn OK) as [OK1 F1].
      set (s1 := gen_close tk f s n) in *.
      assert (GU1 : ts_ok s1 L).
      { eapply ts_ok_frame; [exact F1| |exact GU]. intros x Hx. split; intro Hin; exact (Disj x Hin Hx). }
      assert (WU1 : ts_wf (defs s1) L) by (destruct F1 as (_ & -> & _); exact WU).
      assert (T1 : tyme s1 = tyme s) by (destruct F1 as (-> & _); reflexivity).
      destruct (CL L s1 _ O GU1 WU1 NDU OK1) as [OK' F']. rewrite T1 in OK'.
      split; [exact OK'|].
      eapply frame_trans; [eapply frame_weaken; [| |exact F1]|eapply frame_weaken; [| |exact F']];
        intros x Hx; cbn [In] in *; rewrite ?in_app_iff in *; tauto.
Qed.

Lemma close_all : forall f, closel_at f /\ gclose_at f /\ gclose_at (S f).
Proof.
  induction f as [|f (CL & G0 & G1)].
  - split; [|split].
    + intros L s o O. rewrite close_list_O in O. discriminate.
    + intros s n npc re kids o O. rewrite gen_close_O in O. discriminate.
    + intros s n npc re kids o O G W. exfalso.
      cbn [all t_ok1 t_wf1] in G, W. destruct G as [(Gn & _) _]. destruct W as [(_ & [kids0 D] & _) _].
      rewrite gen_close_S, Gn, D in O. cbv zeta in O. rewrite close_own_O in O. discriminate.
  - split; [now apply closel_step|]. split; [exact G1|now apply gclose_from].
Qed.

Lemma root_close_t f s (its : list (titem T)) o :
  oof (close_own tk f s 0%N) = false ->
  deeds (get_sched s 0%N) = map t_deed its ->
  ts_ok s its -> ts_wf (defs s) its -> NoDup (0%N :: ts_ids its) -> out_ok vis s o ->
  out_ok vis (close_own tk f s 0%N) (tclose (tyme s) its o) /\
  tyme (close_own tk f s 0%N) = tyme s.
Proof.
  intros O Dq G W ND OK.
  destruct f as [|f]; [rewrite close_own_O in O; discriminate|].
  rewrite close_own_S in *. cbv zeta in *. rewrite Dq in *.
  unfold unrotate in *. rewrite split_mark_ts in *. rewrite <- map_rev in *.
  apply NoDup_cons_iff in ND as [N0 ND].
  set (s1 := set_deeds s 0%N []) in *.
  assert (F1 : frame [] [0%N] s s1) by (apply frame_deeds; [now left|apply frame_refl]).
  assert (G1 : ts_ok s1 (rev its)).
  { apply ts_ok_rev. eapply ts_ok_frame; [exact F1| |exact G]. intros x Hx. split; [intros []|].
    intros [Heq|[]]. subst x. contradiction. }
  assert (ND1 : NoDup (ts_ids (rev its))) by (eapply Permutation_NoDup; [apply ts_ids_rev|exact ND]).
  destruct (close_all f) as (CL & _).
  destruct (CL (rev its) s1 o O G1 (ts_wf_rev _ _ W) ND1 (ok_deeds _ _ _ _ _ OK)) as [OK' F'].
  rewrite rev_involutive in OK'.
  split; [exact OK'|]. destruct F' as (-> & _). reflexivity.
Qed.

(* ---------- the cycle loop ---------- *)

Definition Rept s (its : list (titem T)) (o : out T) : Prop :=
  deeds (get_sched s 0%N) = map t_deed its /\ ts_ok s its /\
  ts_wf (defs s) its /\ NoDup (0%N :: ts_ids its) /\ out_ok vis s o.

Lemma root_pass_t (U : list (titem T)) f s o s' r :
  recur_pass tk f s 0%N = (s', r) -> oof s' = false -> Rept s U o ->
  exists U' o', tpass (tabs z0) tk (tyme s) U o = (U', o') /\
    r = GReturn /\ deeds (get_sched s' 0%N) = map t_deed U' /\
    ts_ok s' U' /\ out_ok vis s' o' /\ frame (ts_ids U) (0%N :: ts_ids U) s s'.
Proof.
  intros E O (Dq & G & W & ND & OK).
  destruct f as [|f]; [rewrite recur_pass_O in E; inversion E; subst; discriminate|].
  rewrite recur_pass_S in E. cbv zeta in E.
  set (s1 := set_deeds s 0%N (deeds (get_sched s 0%N) ++ [DMark])) in *.
  assert (F1 : frame [] [0%N] s s1) by (apply frame_deeds; [now left|apply frame_refl]).
  assert (Dq1 : deeds (get_sched s1 0%N) = map t_deed U ++ DMark :: []).
  { unfold s1. rewrite deeds_set_deeds_same. now rewrite Dq. }
  assert (G1 : ts_ok s1 U).
  { eapply ts_ok_frame; [exact F1| |exact G]. intros x Hx. split; [intros []|].
    intros [Heq|[]]. subst x. apply NoDup_cons_iff in ND as [N0 _]. contradiction. }
  destruct (pass_all f) as (L & _).
  destruct (L 0%N tk U [] s1 o s' r E O Dq1 G1 W ND (ok_deeds _ _ _ _ _ OK) eq_refl)
    as (U' & o' & Hp & -> & Dq' & G' & OK' & F').
  exists U', o'. split; [exact Hp|]. split; [reflexivity|]. split; [exact Dq'|].
  split; [exact G'|]. split; [exact OK'|].
  eapply frame_trans; [eapply frame_weaken; [| |exact F1]|exact F']; intros x Hx; cbn [In] in *; tauto.
Qed.

Lemma cycle_spec_t : forall c f s its o limit stop,
  oof (cycle_loop tk c f s limit stop) = false -> Rept s its o ->
  exists t' o', tspec_cycles tk (tabs z0) c (tyme s) its o limit stop = Some (t', o') /\
    tyme (cycle_loop tk c f s limit stop) = t' /\ out_ok vis (cycle_loop tk c f s limit stop) o'.
Proof.
  induction c as [|c IH]; intros f s its o limit stop O R; [discriminate|].
  pose proof R as (Dq & G & W & ND & OK).
  rewrite cycle_loop_S in *. destruct (recur_pass tk f s 0%N) as [s1 r] eqn:E. cbn [fst snd] in *.
  pose proof (after_pass_oof _ _ _ _ _ _ _ O) as O1.
  destruct (root_pass_t its f s o s1 r E O1 R) as (its' & o1 & Hp & -> & Dq1 & G1 & OK1 & F1).
  assert (T1 : tyme s1 = tyme s) by (destruct F1 as (-> & _); reflexivity).
  destruct (tpass_wf (tabs z0) (tyme s) (defs s) its tk o its' o1 Hp) as [Sub Wf].
  assert (W1 : ts_wf (defs s1) its') by (destruct F1 as (_ & -> & _); auto).
  assert (ND1 : NoDup (0%N :: ts_ids its')) by (eapply subl_NoDup; [apply subl_keep; exact Sub|exact ND]).
  cbn [tspec_cycles]. rewrite Hp.
  unfold after_pass in *. cbv zeta in *. rewrite T1 in *.
  set (s2 := set_tyme s1 (tadd (tyme s) tk)) in *.
  change (deeds (get_sched s2 0%N)) with (deeds (get_sched s1 0%N)) in *. rewrite Dq1 in *.
  change (tyme s2) with (tadd (tyme s) tk) in *.
  destruct its' as [|it its''].
  - cbn [map] in *. rewrite oof_emit in O.
    rewrite close_own_empty in * by (try exact O; rewrite sched_set_done; exact Dq1).
    eexists _, _. split; [reflexivity|]. split; [reflexivity|].
    apply (ok_emit_vis vis (set_deeds (set_done s2 0%N (Some true)) 0%N []) _ DoReturn 0%N vis0).
    apply ok_deeds. apply ok_done_vis. apply ok_tyme. exact OK1.
  - cbn [map] in O |- *.
    destruct (limited limit && tleb stop (tadd (tyme s) tk)).
    + rewrite oof_emit in O.
      destruct (root_close_t f s2 (it :: its'') o1 O Dq1 (ts_ok_tyme _ _ _ G1) W1 ND1 (ok_tyme _ _ _ _ OK1)) as [OK' T'].
      eexists _, _. split; [reflexivity|]. split; [exact T'|].
      pose proof (ok_emit_vis vis (close_own tk f s2 0%N) _ DoReturn 0%N vis0 OK') as X.
      rewrite T' in X. exact X.
    + apply (IH f s2 (it :: its'') o1 limit stop); [exact O|].
      split; [exact Dq1|]. split; [apply ts_ok_tyme; exact G1|].
      split; [exact W1|split; [exact ND1|apply ok_tyme; exact OK1]].
Qed.

End TRun.
