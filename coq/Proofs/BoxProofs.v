(* Lemmas about Model/Box.v *)
From Hio Require Import Base.Prelude Model.Box.

(* ---- exen_split: the cut is the maximal common prefix that stops at far ---- *)
Definition is_split (far : nat) (nears fars c no fo : list nat) : Prop :=
  nears = c ++ no /\ fars = c ++ fo /\ ~ In far c /\
  exists n ns f fs, no = n :: ns /\ fo = f :: fs /\ (far = n \/ f <> n).

Lemma exen_split_sound : forall far nears fars c no fo,
  exen_split far nears fars = Some (c, no, fo) -> is_split far nears fars c no fo.
Proof.
  intros far nears; induction nears as [|n ns IH]; intros fars c no fo H; simpl in H.
  - discriminate.
  - destruct fars as [|f fs]; [discriminate|].
    destruct (Nat.eqb far n || negb (Nat.eqb f n)) eqn:Ec.
    + inversion H; subst; clear H. repeat split; auto.
      exists n, ns, f, fs. repeat split; auto.
      apply orb_true_iff in Ec. destruct Ec as [Ec|Ec].
      * left. now apply Nat.eqb_eq.
      * right. apply negb_true_iff, Nat.eqb_neq in Ec. exact Ec.
    + apply orb_false_iff in Ec. destruct Ec as [E1 E2].
      apply Nat.eqb_neq in E1. apply negb_false_iff, Nat.eqb_eq in E2. subst f.
      destruct (exen_split far ns fs) as [[[c' no'] fo']|] eqn:Er; [|discriminate].
      inversion H; subst; clear H.
      destruct (IH _ _ _ _ Er) as (H1 & H2 & H3 & H4).
      repeat split.
      * simpl. now f_equal.
      * simpl. now f_equal.
      * simpl. intros [Hx|Hx]; [congruence|auto].
      * exact H4.
Qed.

Lemma exen_split_complete : forall far c nears fars no fo,
  is_split far nears fars c no fo -> exen_split far nears fars = Some (c, no, fo).
Proof.
  intros far c; induction c as [|x c IH]; intros nears fars no fo (H1 & H2 & H3 & n & ns & f & fs & Hn & Hf & Hd).
  - simpl in *. subst. simpl.
    replace (Nat.eqb far n || negb (Nat.eqb f n)) with true; [reflexivity|].
    symmetry. apply orb_true_iff. destruct Hd as [Hd|Hd].
    + left. now apply Nat.eqb_eq.
    + right. apply negb_true_iff. now apply Nat.eqb_neq.
  - subst nears fars. simpl.
    assert (Hx : far <> x) by (intro; apply H3; left; congruence).
    replace (Nat.eqb far x) with false by (symmetry; now apply Nat.eqb_neq).
    rewrite Nat.eqb_refl. simpl.
    rewrite (IH (c ++ no) (c ++ fo) no fo); [reflexivity|].
    repeat split; auto.
    + intro Hc. apply H3. now right.
    + exists n, ns, f, fs. auto.
Qed.
