(* Respondent.leid / .retry: what is tracked across reads and connections. *)
From Hio Require Import Base.Prelude Model.HttpLine Model.Chunk Model.Sse
  Proofs.HttpLineProofs Proofs.ChunkProofs Proofs.ChunkRoundtrip Proofs.SseProofs Proofs.SseSpec.

(* once set, the event source's id and retry are never unset *)
Definition le_est (e e' : est) : Prop :=
  (s_id e <> None -> s_id e' <> None) /\ (s_retry e <> None -> s_retry e' <> None).

Lemma le_est_refl e : le_est e e.
Proof. split; auto. Qed.
Lemma le_est_trans a b c : le_est a b -> le_est b c -> le_est a c.
Proof. intros [H1 H2] [H3 H4]. split; auto. Qed.

Lemma sse_line_mono e l : le_est e (fst (sse_line e l)).
Proof.
  unfold sse_line. destruct (is_nil l).
  - destruct (is_nil (s_parts e)); split; cbn; auto.
  - destruct (partition1 58 l) as [[field sep] value].
    destruct (sep && is_nil field); [apply le_est_refl|].
    destruct (bytes_eqb field f_event); [split; cbn; auto|].
    destruct (bytes_eqb field f_data); [split; cbn; auto|].
    destruct (bytes_eqb field f_id).
    { destruct (existsb (N.eqb 0) (drop_space value)); [apply le_est_refl|]. split; cbn; auto. discriminate. }
    destruct (bytes_eqb field f_retry).
    { destruct (negb (is_nil (drop_space value)) && forallb is_dec (drop_space value)
                && Nat.leb (length (drop_space value)) max_int_digits); [|apply le_est_refl].
      split; cbn; auto. discriminate. }
    apply le_est_refl.
Qed.

Lemma run_mono : forall f s b s' b' os,
  run sse_stage f s b = (Live s' b', os) -> le_est (snd s) (snd s').
Proof.
  induction f as [|f IH]; intros s b s' b' os H; cbn [run] in H.
  - inversion H; subst. apply le_est_refl.
  - unfold sse_stage in H at 1.
    destruct (line_stage ESse (fst s) b) as [|k r l|e].
    + inversion H; subst. apply le_est_refl.
    + pose proof (sse_line_mono (snd s) l) as Hm.
      destruct (sse_line (snd s) l) as [e1 o]. cbn [fst] in Hm.
      destruct (run sse_stage f (k, e1) r) as [p os'] eqn:Er. inversion H; subst.
      eapply le_est_trans; [exact Hm|]. apply (IH _ _ _ _ _ Er).
    + discriminate.
Qed.

Lemma sync_sync r e e' : le_est e e' -> sync (sync r e) e' = sync r e'.
Proof.
  intros [H1 H2]. unfold sync. cbn [fst snd]. f_equal.
  - destruct (s_id e') eqn:E'; [reflexivity|]. destruct (s_id e); [|reflexivity].
    exfalso. apply H1; [discriminate|reflexivity].
  - destruct (s_retry e') eqn:E'; [reflexivity|]. destruct (s_retry e); [|reflexivity].
    exfalso. apply H2; [discriminate|reflexivity].
Qed.

Lemma last_cons_default {A} : forall (l : list A) x d, last (x :: l) d = last l x.
Proof.
  induction l as [|y l IH]; intros x d; [reflexivity|].
  change (last (x :: y :: l) d) with (last (y :: l) d). rewrite !IH. reflexivity.
Qed.

(* syncing after every read = syncing once with the final event-source state *)
Lemma trace_plain_last : forall reads s b r0 sf bf os,
  feeds sse_stage (Live s b) reads = (Live sf bf, os) ->
  last (trace_plain (Live s b) (sync r0 (snd s)) reads) (sync r0 (snd s)) = sync r0 (snd sf).
Proof.
  induction reads as [|c cs IH]; intros s b r0 sf bf os H.
  - cbn in H. inversion H; subst. reflexivity.
  - cbn [feeds] in H. cbn [trace_plain].
    destruct (feed sse_stage (Live s b) c) as [p' os1] eqn:Ef. cbn [fst].
    destruct p' as [s1 b1|k].
    + destruct (feeds sse_stage (Live s1 b1) cs) as [p2 os2] eqn:Efs. inversion H; subst.
      cbn [feed] in Ef. pose proof (run_mono _ _ _ _ _ _ Ef) as Hm.
      cbn [sync_p]. rewrite (sync_sync r0 _ _ Hm).
      rewrite last_cons_default. exact (IH s1 b1 r0 sf bf os2 Efs).
    + (* dead parsers stay dead *)
      assert (G : forall cs', fst (feeds sse_stage (Dead k) cs') = Dead k).
      { induction cs' as [|x xs IHx]; [reflexivity|]. cbn [feeds feed].
        destruct (feeds sse_stage (Dead k) xs) as [q oq] eqn:Eq. cbn [fst] in *. exact IHx. }
      specialize (G cs). destruct (feeds sse_stage (Dead k) cs) as [q oq]. cbn [fst] in G. subst q.
      discriminate.
Qed.

(* What a Respondent that started a response with (.leid, .retry) = r0 holds
   after the reads of a close-delimited event stream: the last id field and the
   last valid retry field of the stream if there is one, else what it had. *)
Theorem resp_tracks_spec : forall reads r0 sf bf os,
  feeds sse_stage sse_start reads = (Live sf bf, os) ->
  last (trace_plain sse_start r0 reads) r0 =
  (match snd (fst (sse_spec (concat reads))) with Some i => Some i | None => fst r0 end,
   match snd (sse_spec (concat reads)) with Some n => n | None => snd r0 end).
Proof.
  intros reads r0 sf bf os H.
  pose proof (trace_plain_last reads sse_init [] r0 sf bf os H) as Hl.
  assert (E0 : sync r0 (snd sse_init) = r0) by (destruct r0; reflexivity).
  rewrite E0 in Hl. unfold sse_start. rewrite Hl.
  pose proof (sse_matches_spec _ _ _ _ H) as Hs.
  rewrite <- Hs. reflexivity.
Qed.

(* A stream (or stream prefix) without an id field leaves the remembered last
   event id unchanged; without a valid retry field, the retry value. *)
Corollary resp_idless_unchanged : forall reads r0 sf bf os,
  feeds sse_stage sse_start reads = (Live sf bf, os) ->
  snd (fst (sse_spec (concat reads))) = None ->
  fst (last (trace_plain sse_start r0 reads) r0) = fst r0.
Proof. intros reads r0 sf bf os H Hn. rewrite (resp_tracks_spec _ _ _ _ _ H), Hn. reflexivity. Qed.

(* the same holds for every element of the trace, i.e. after every prefix *)
Lemma trace_plain_app : forall r1 p r r2,
  trace_plain p r (r1 ++ r2) =
  trace_plain p r r1 ++
  trace_plain (fst (feeds sse_stage p r1)) (last (trace_plain p r r1) r) r2.
Proof.
  induction r1 as [|c cs IH]; intros p r r2; [reflexivity|].
  cbn [app trace_plain feeds].
  destruct (feed sse_stage p c) as [p' os1] eqn:Ef. cbn [fst].
  rewrite IH. destruct (feeds sse_stage p' cs) as [p2 os2]. cbn [fst]. f_equal. f_equal.
  rewrite last_cons_default. reflexivity.
Qed.

(* chunked: every data chunk is one append-and-step; a read completes some
   chunks; the value after the read is the value after its last chunk *)
Lemma sse_chunks_trace : forall ds p r,
  sse_chunks p r ds = (fst (feeds sse_stage p ds), last (trace_plain p r ds) r).
Proof.
  induction ds as [|d ds IH]; intros p r; [reflexivity|].
  cbn [sse_chunks feeds trace_plain].
  destruct (feed sse_stage p d) as [p' os1]. cbn [fst]. rewrite IH.
  destruct (feeds sse_stage p' ds) as [p2 os2]. cbn [fst]. f_equal.
  rewrite last_cons_default. reflexivity.
Qed.

Lemma last_app_default {A} : forall (l1 l2 : list A) d, last (l1 ++ l2) d = last l2 (last l1 d).
Proof.
  induction l1 as [|x l1 IH]; intros l2 d; [reflexivity|].
  cbn [app]. rewrite !last_cons_default. apply IH.
Qed.

Lemma data_chunks_app a b : data_chunks (a ++ b) = data_chunks a ++ data_chunks b.
Proof. unfold data_chunks. rewrite somes_app, filter_app, map_app. reflexivity. Qed.

(* chunked response: after all reads the Respondent holds what it would hold
   had the data chunks been the reads of a close-delimited stream *)
Lemma trace_chunked_last : forall reads cp p r,
  last (trace_chunked cp p r reads) r =
  last (trace_plain p r (data_chunks (snd (feeds chunk_stage cp reads)))) r.
Proof.
  induction reads as [|c cs IH]; intros cp p r; [reflexivity|].
  cbn [trace_chunked feeds].
  destruct (feed chunk_stage cp c) as [cp' os] eqn:Ef.
  rewrite sse_chunks_trace.
  destruct (feeds chunk_stage cp' cs) as [cp2 os2] eqn:Efs. cbn [snd].
  rewrite last_cons_default, IH, Efs. cbn [snd].
  rewrite data_chunks_app, trace_plain_app, last_app_default. reflexivity.
Qed.
