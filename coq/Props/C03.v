(* C03 — virtual-time scheduling follows the documented cycle model.
   Model: Model/Sched.v.  Proofs: Proofs/SchedCycleTick.v (grid), SchedCycleDue.v
   (due rule, reference cycle model, refinement), SchedCycleRef.v (what the
   reference model says; closed form over Z), SchedCycleStop.v (cycle steps).
   See manifest.d/C03.json for what is full / partial / refuted. *)
From Hio Require Import Base.Prelude Base.AMap Base.Time Model.Sched Proofs.SchedFrame Proofs.SchedLife Proofs.SchedTop
  Proofs.SchedCycleTick Proofs.SchedCycleDue Proofs.SchedCycleRef Proofs.SchedCycleStop Proofs.SchedCycleTree.
From Hio Require Import Proofs.SchedAdo Proofs.SchedHist Proofs.SchedCycleHist.
From Hio Require Proofs.SchedDeque Proofs.SchedDequeSortB Proofs.SchedDequeEpos Proofs.SchedDequePass Proofs.SchedCycleOnce.

(* ------------------------------------------------------------------ *)
(* 1. The clock.  FULL: every program (static or dynamic, flat or nested, with
   faults), every time instance, every budget.

   grid start tock n = start + tock + ... + tock (n iterated tadd, left to right).
   [on_grid start tock n l]: the trace l (newest first) is block n ++ ... ++ block 0
   and all events of block k carry the tyme  grid k.  Hence: every event tyme and
   the final tyme are grid points, and the grid index never decreases along the
   trace. *)
Theorem C03_tick :
  forall (T : Type) (TT : Time T) (cycles fuel : nat) (p : prog T),
    exists n, tyme (do_run cycles fuel p) = grid (p_tyme p) (p_tock p) n /\
              on_grid (p_tyme p) (p_tock p) n (trace (do_run cycles fuel p)).
Proof. intros. destruct (do_run_grid cycles fuel p) as (n & Ty & G). exists n. split; assumption. Qed.
Print Assumptions C03_tick.

(* readable consequence: for any two events of a run, the older one has the
   smaller (or equal) grid index *)
Theorem C03_tick_monotone :
  forall (T : Type) (TT : Time T) (cycles fuel : nat) (p : prog T) l1 e2 l2 e1 l3,
    trace (do_run cycles fuel p) = l1 ++ e2 :: l2 ++ e1 :: l3 ->      (* e1 older than e2 *)
    exists k1 k2, (k1 <= k2)%nat /\ e_tyme e1 = grid (p_tyme p) (p_tock p) k1 /\
                  e_tyme e2 = grid (p_tyme p) (p_tock p) k2.
Proof.
  intros T TT cycles fuel p l1 e2 l2 e1 l3 E. destruct (do_run_grid cycles fuel p) as (n & _ & G).
  destruct (on_grid_mono _ _ _ _ G _ _ _ _ _ E) as (k1 & k2 & Hk & E1 & E2).
  exists k1, k2. split; [lia|]. split; assumption.
Qed.
Print Assumptions C03_tick_monotone.

(* one recur pass of any scheduler (root or DoDoer, at any depth): tyme does not
   move, every event emitted carries the pass's tyme *)
Theorem C03_pass_tyme :
  forall (T : Type) (TT : Time T) (tk : T) (fuel : nat) (s : st T) (sid : id) s' r,
    recur_pass tk fuel s sid = (s', r) ->
    tyme s' = tyme s /\ exists l, trace s' = l ++ trace s /\ Forall (fun e => e_tyme e = tyme s) l.
Proof. intros. eapply recur_pass_tyme; eassumption. Qed.
Print Assumptions C03_pass_tyme.

(* each completed cycle that does not end the run advances tyme by exactly one
   tadd of tock and goes on with the next cycle *)
Theorem C03_cycle_advance :
  forall (T : Type) (TT : Time T) (tk : T) (fuel c : nat) (s : st T) limit stop,
    cycle_ok tk fuel s = true -> stops limit stop (cycle_end tk fuel s) = false ->
    cycle_loop tk (S c) fuel s limit stop = cycle_loop tk c fuel (cycle_end tk fuel s) limit stop /\
    tyme (cycle_end tk fuel s) = tadd (tyme s) tk.
Proof.
  intros. split; [now apply cycle_loop_step|].
  pose proof (after_tyme tk fuel 1 s) as A. exact A.
Qed.
Print Assumptions C03_cycle_advance.

(* ------------------------------------------------------------------ *)
(* 2. The due-time rule of recur, as the code has it.  FULL for every program and
   every scheduler sid (root: sched_tock = root tock; DoDoer: its own |tock|,
   which is what finding D35 is about). *)
Theorem C03_due_rule :
  forall (T : Type) (TT : Time T) (tk : T) (f : nat) (s : st T) (sid i : id) (re : T) r,
    deeds (get_sched s sid) = DDeed i re :: r ->
    (tleb re (tyme s) = false ->          (* not due: no send, re-appended unchanged *)
       recur_loop tk (S f) s sid = recur_loop tk f (set_deeds (set_deeds s sid r) sid (r ++ [DDeed i re])) sid) /\
    (tleb re (tyme s) = true ->           (* due: exactly one send *)
       recur_loop tk (S f) s sid =
       let '(s2, g) := gen_send tk f (set_deeds s sid r) i in
       match g with
       | GYield t => recur_loop tk f (set_deeds s2 sid (deeds (get_sched s2 sid) ++
                        [DDeed i (next_due (tyme s2) (sched_tock tk s2 sid) re t)])) sid
       | GReturn => recur_loop tk f s2 sid
       | GRaise kbd => (s2, GRaise kbd)
       | GFuel => (s2, GFuel)
       end).
Proof. intros. split; intro; [now apply recur_loop_notdue|now apply recur_loop_due]. Qed.
Print Assumptions C03_due_rule.

(* ------------------------------------------------------------------ *)
(* 3. Static flat programs (flat_static: root doers pairwise distinct, none
   numbered 0, all leaves whose steps have no extend/remove effects and neither
   raise nor interrupt): do_run is exactly the reference cycle model ref_run
   (Proofs/SchedCycleDue.v, the Gallina mirror of reference_flat): same recur
   steps (doer, tyme) in the same order, same final tyme, same Doist.done.
   Fuel: the single hypothesis  oof = false  (no budget ran out). *)
Theorem C03_flat_refines :
  forall (T : Type) (TT : Time T) (cycles fuel : nat) (p : prog T),
    flat_static p = true -> oof (do_run cycles fuel p) = false ->
    exists blocks (dn : bool),
      ref_run cycles p = Some (blocks, tyme (do_run cycles fuel p), dn) /\
      recur_steps (do_run cycles fuel p) = concat blocks /\
      get_done (do_run cycles fuel p) 0%N = Some dn.
Proof. intros. now apply do_run_ref. Qed.
Print Assumptions C03_flat_refines.

(* ... and even the whole event trace: Enter of every root doer in order (a doer
   that returns at once: Enter Clean Exit), per cycle and per due doer Recur or
   Recur Clean Exit, at the end Cease Exit of the survivors in reverse enter order,
   DoReturn; all with their tymes (ref_trace, Proofs/SchedCycleDue.v). *)
Theorem C03_flat_trace :
  forall (T : Type) (TT : Time T) (cycles fuel : nat) (p : prog T),
    flat_static p = true -> oof (do_run cycles fuel p) = false ->
    ref_trace cycles p = Some (trace (do_run cycles fuel p)).
Proof. intros. now apply do_run_trace. Qed.
Print Assumptions C03_flat_trace.

(* the one-pass specification behind it, from any state and for ANY scheduler sid
   (the root Doist or a DoDoer at any depth): if sid's deque holds the entries q
   (suspended quiet leaves at their pcs, pairwise distinct: Good), one recur pass
   does exactly what ref_pass says - the due doers are sent once each in deque
   order, not-due entries stay unchanged, the new deque is the list of updated
   entries - with the asap tock  stock tk D sid = the root tock for the Doist, but
   |DoDoer.tock| for a DoDoer.  The latter is open finding D35 stated positively:
   inside a tock-0 DoDoer `yield 0/None` makes the doer due at tyme + 0, and a later
   cumulative `due + t` starts from there (see C03_nested_asap_refuted). *)
Theorem C03_pass_refines :
  forall (T : Type) (TT : Time T) (tk : T) (D : amap (fdef T)) (sid : id) (f : nat) (s : st T)
         (q : list (@rdoer T)) s' g,
    recur_pass tk f s sid = (s', g) -> g <> GFuel ->
    deeds (get_sched s sid) = map deed_of q -> Good D s q ->
    let tock := stock tk D sid in
    g = GReturn /\
    deeds (get_sched s' sid) = map deed_of (fst (ref_pass D (tyme s) tock q)) /\
    Good D s' (fst (ref_pass D (tyme s) tock q)) /\
    recs s' = rev (snd (ref_pass D (tyme s) tock q)) ++ recs s /\
    trace s' = pass_evs D (tyme s) q ++ trace s /\ tyme s' = tyme s.
Proof.
  intros T TT tk D sid f s q s' g E NF Dq Gd. cbv zeta.
  pose proof (pass_ref_at tk D sid f s q s' g E NF Dq Gd) as P.
  destruct (ref_pass D (tyme s) (stock tk D sid) q) as [q' o]. cbn [fst snd].
  destruct P as (P1 & P2 & P3 & P4 & P5 & _ & P7). repeat (split; try assumption).
Qed.
Print Assumptions C03_pass_refines.

(* ... hence: the recur steps of a run split into one block per cycle; block k
   happens at tyme  grid k  (every doer observes the cycle's tyme), its doers
   are a sub-sequence of the enter order p_doers (so: in enter order, each at
   most once per cycle), and the run ends at  grid (number of cycles). *)
Theorem C03_once_in_order :
  forall (T : Type) (TT : Time T) (cycles fuel : nat) (p : prog T),
    flat_static p = true -> oof (do_run cycles fuel p) = false ->
    exists blocks,
      recur_steps (do_run cycles fuel p) = concat blocks /\
      blocks_ok (p_tock p) (p_tyme p) (p_doers p) blocks /\
      NoDup (p_doers p) /\
      tyme (do_run cycles fuel p) = grid (p_tyme p) (p_tock p) (length blocks).
Proof.
  intros T TT cycles fuel p F O.
  destruct (do_run_ref cycles fuel p F O) as (res & dn & R & S & _).
  unfold ref_run in R. apply ref_cycles_blocks in R. destruct R as (news & -> & _ & Fin & B).
  exists news. cbn [app]. split; [exact S|]. split.
  - eapply blocks_ok_sub; [|exact B]. apply ref_enter_ids.
  - split; [apply (flat_static_inv p F)|exact Fin].
Qed.
Print Assumptions C03_once_in_order.

(* one pass of the reference: exactly the due doers run (tleb due now), once
   each, in list order; the entry of a doer that ran and yielded t becomes
   next_due now tock due t = (t None/falsy: now + tock; else: due + t, cumulative);
   a doer that returned leaves; a doer not due stays unchanged *)
Theorem C03_ref_pass :
  forall (T : Type) (TT : Time T) (D : amap (fdef T)) (tock now : T) (q : list (@rdoer T)),
    snd (ref_pass D now tock q) = map (fun d => (r_id d, now)) (filter (due_now now) q) /\
    fst (ref_pass D now tock q) = flat_map (fun d => fst (ref_visit D now tock d)) q /\
    forall d, visit_spec D tock now d (fst (ref_visit D now tock d)).
Proof. intros. split; [apply ref_pass_out|]. split; [apply ref_pass_keep|]. intro d. apply ref_visit_spec. Qed.
Print Assumptions C03_ref_pass.

(* ------------------------------------------------------------------ *)
(* 4. No drift.  Any time instance: as long as a doer has only yielded positive
   (non-falsy) tocks, its due tyme is the cumulative sum start + t1 + ... + t(pc-1)
   of what it yielded (due_cum), whatever the tymes at which it actually ran. *)
Theorem C03_cumulative :
  forall (T : Type) (TT : Time T) (D : amap (fdef T)) (tock start : T) ids now' q',
    ref_reach D tock start (ref_enter D start ids) now' q' ->
    forall d, In d q' -> all_pos D (r_id d) (r_pc d) -> r_due d = due_cum D start (r_id d) (r_pc d).
Proof.
  intros T TT D tock start ids now' q' R d I AP.
  assert (F : Forall (cum_ok D start) q').
  { eapply ref_reach_forall; [|exact R|apply cum_ok_enter]. intros now0 d0. apply cum_ok_visit. }
  rewrite Forall_forall in F. destruct (F d I) as (_ & P). now apply P.
Qed.
Print Assumptions C03_cumulative.

(* Exact time (ZTime): constant tock t <> 0 gives due = start + (pc-1)*t. *)
Theorem C03_no_drift_Z :
  forall (D : amap (fdef Z)) (tock start : Z) ids now' q' i t n,
    t <> 0%Z -> (forall pc, (1 <= pc < n)%nat -> out_at D i pc = OYield (Some t)) ->
    ref_reach D tock start (ref_enter D start ids) now' q' ->
    forall d, In d q' -> r_id d = i -> (r_pc d <= n)%nat ->
    r_due d = (start + Z.of_nat (r_pc d - 1) * t)%Z.
Proof. intros D tock start ids now' q' i t n Nz C R d I Ei Hn. eapply ref_no_drift; eauto. Qed.
Print Assumptions C03_no_drift_Z.

(* The same on the run itself (exact time, static flat program): walking through
   the per-cycle blocks of recur steps with now = the cycle's tyme and c = the number
   of earlier runs of doer i, as long as i's next step is one of its constant-tock
   steps (c+1 <= n):   i runs in this cycle  <->  start + c*t <= now.
   So its (c+1)-th run happens in the first cycle (after the previous run) whose tyme
   has reached start + c*t, however late the earlier runs were: no drift.
   (drift_ok, Proofs/SchedCycleRef.v.) *)
Theorem C03_no_drift_run :
  forall (cycles fuel : nat) (p : prog Z) (i : id) (t : Z) (n : nat),
    flat_static p = true -> oof (do_run cycles fuel p) = false ->
    In i (p_doers p) -> (exists t0, out_at (p_defs p) i 0 = OYield t0) ->
    t <> 0%Z -> (forall pc, (1 <= pc < n)%nat -> out_at (p_defs p) i pc = OYield (Some t)) ->
    exists blocks,
      recur_steps (do_run cycles fuel p) = concat blocks /\
      drift_ok (p_tock p) (p_tyme p) i t n (p_tyme p) 0 blocks.
Proof.
  intros cycles fuel p i t n F O I E0 Nz C.
  destruct (do_run_ref cycles fuel p F O) as (res & dn & R & S & _).
  unfold ref_run in R.
  assert (Jq : J (p_tyme p) i t n (ref_enter (p_defs p) (p_tyme p) (p_doers p)) 0).
  { apply J_enter; [apply (flat_static_inv p F)|exact I|exact E0]. }
  destruct (ref_cycles_drift (p_defs p) (p_tock p) (p_tyme p) i t n Nz C _ _ _ _ _ _ _ _ _ 0%nat R Jq) as (news & -> & Dr).
  exists news. split; [exact S|exact Dr].
Qed.
Print Assumptions C03_no_drift_run.

(* asap: a doer that yields 0/None in the pass at tyme now gets due = now + tock,
   the tyme of the next cycle, at which it is due again (tleb x x, exact time) *)
Theorem C03_asap_next :
  forall (T : Type) (TT : Time T) (D : amap (fdef T)) (tock now : T) (d : @rdoer T) t,
    tleb (r_due d) now = true -> out_at D (r_id d) (r_pc d) = OYield t ->
    (match t with None => true | Some x => tfalsy x end) = true ->
    fst (ref_visit D now tock d) = [{| r_id := r_id d; r_due := tadd now tock; r_pc := S (r_pc d) |}].
Proof. intros T TT D tock now d t Due Eo As. exact (asap_next D tock now d t Due Eo As). Qed.
Print Assumptions C03_asap_next.

(* ------------------------------------------------------------------ *)
(* 5. Nested doers: the asap base inside a DoDoer is tyme + DoDoer.tock, not the
   next cycle's tyme (open finding D35), so nesting in a tock-0 DoDoer is NOT
   transparent for the due rule.  REFUTED by the witness of findings.d/C03.json
   scaled to integers (tock 3, start 105, doer 1 yields None, 0, 7). *)
Definition Y (t : option Z) : fstep Z := {| f_es := []; f_out := OYield t |}.
Definition d35_defs : list (id * fdef Z) :=
  [(1%N, FLeaf KDoer [Y None; Y (Some 0%Z); Y (Some 7%Z)]); (2%N, FLeaf KDoer [Y None]);
   (3%N, FNest 0%Z false [1%N; 2%N])].
Definition d35_nested : prog Z :=
  {| p_tock := 3%Z; p_limit := None; p_tyme := 105%Z; p_doers := [3%N]; p_defs := d35_defs |}.
Definition d35_flat : prog Z :=
  {| p_tock := 3%Z; p_limit := None; p_tyme := 105%Z; p_doers := [1%N; 2%N]; p_defs := d35_defs |}.
Definition steps_of (i : id) (s : st Z) : list Z :=
  map snd (filter (fun x => N.eqb (fst x) i) (recur_steps s)).

Theorem C03_nested_asap_refuted :
  oof (do_run 20 100 d35_nested) = false /\ oof (do_run 20 100 d35_flat) = false /\
  (* flat: asap at 105 gives due 105+3 = 108; 108 + 7 = 115 -> run at 117 *)
  steps_of 1%N (do_run 20 100 d35_flat) = [105; 108; 117]%Z /\
  (* nested: asap at 105 gives due 105+0 = 105; 105 + 7 = 112 -> run at 114, only 6 after asking for 7 *)
  steps_of 1%N (do_run 20 100 d35_nested) = [105; 108; 114]%Z.
Proof. vm_compute. repeat split. Qed.
Print Assumptions C03_nested_asap_refuted.

(* the hypotheses of C03_pass_refines inside a DoDoer: the state of d35_nested after
   enter; scheduler 3 (the tock-0 DoDoer) holds leaves 1 and 2, both due at 105 *)
Example C03_example_nested_pass :
  let s := entered 100 d35_nested in
  let q := [{| r_id := 1%N; r_due := 105%Z; r_pc := 1 |}; {| r_id := 2%N; r_due := 105%Z; r_pc := 1 |}] in
  deeds (get_sched s 3%N) = map deed_of q /\ Good (p_defs d35_nested) s q /\
  snd (recur_pass 3%Z 50 s 3%N) = GReturn /\ stock 3%Z (p_defs d35_nested) 3%N = 0%Z /\
  fst (ref_pass (p_defs d35_nested) 105%Z 0%Z q) = [{| r_id := 1%N; r_due := 105%Z; r_pc := 2 |}].
Proof.
  cbv zeta. split; [vm_compute; reflexivity|]. split.
  - split; [reflexivity|]. split; [repeat constructor; cbn; intuition discriminate|].
    intros d [<-|[<-|[]]]; vm_compute; repeat split; discriminate.
  - vm_compute. repeat split.
Qed.

(* ------------------------------------------------------------------ *)
(* 6. NESTED static programs: forests of effect-free, fault-free leaves and
   non-`always` DoDoers with ANY tock (tree_static p forest: the root doers are the
   roots of a forest that agrees with the definitions; all ids distinct, none 0).
   The reference cycle model on trees (Proofs/SchedCycleTree.v): an item is a leaf
   (id, due, pc) or a DoDoer (id, due, kids); a DoDoer item is due like a leaf (it
   yields its own |tock| every pass, so the parent re-schedules it by next_due);
   when due it runs one reference pass over its kids with asap tock |its tock| (the
   D35 semantics, stated positively) and returns when its deque is empty.
   FULL under the side condition oof = false: do_run computes exactly this
   reference: same recur steps (doer, tyme) of all leaves AND DoDoers in the same
   order, same final tyme, same Doist.done. *)
Theorem C03_tree_refines :
  forall (T : Type) (TT : Time T) (cycles fuel : nat) (p : prog T) (forest : list ptree),
    tree_static p forest -> oof (do_run cycles fuel p) = false ->
    exists blocks (dn : bool),
      tref_run cycles p forest = Some (blocks, tyme (do_run cycles fuel p), dn) /\
      recur_steps (do_run cycles fuel p) = concat blocks /\
      get_done (do_run cycles fuel p) 0%N = Some dn.
Proof. intros. now apply do_run_tree. Qed.
Print Assumptions C03_tree_refines.

(* ... hence for nested programs too: one block of recur steps per cycle, block k
   at tyme grid k; the doers of a block are a sub-sequence of the depth-first
   pre-order of the forest (plids): every doer - leaf or DoDoer, at any depth - runs
   at most once per cycle, a DoDoer before its descendants, siblings in enter order;
   the run ends at grid(#cycles). *)
Theorem C03_tree_once_in_order :
  forall (T : Type) (TT : Time T) (cycles fuel : nat) (p : prog T) (forest : list ptree),
    tree_static p forest -> oof (do_run cycles fuel p) = false ->
    exists blocks,
      recur_steps (do_run cycles fuel p) = concat blocks /\
      blocks_ok (p_tock p) (p_tyme p) (plids forest) blocks /\
      NoDup (plids forest) /\
      tyme (do_run cycles fuel p) = grid (p_tyme p) (p_tock p) (length blocks).
Proof.
  intros T TT cycles fuel p forest St O.
  destruct (do_run_tree cycles fuel p forest St O) as (res & dn & R & S & _).
  unfold tref_run in R. apply tref_cycles_blocks in R. destruct R as (news & -> & _ & Fin & B).
  exists news. cbn [app]. split; [exact S|]. split.
  - eapply blocks_ok_sub; [|exact B]. apply tenters_ids.
  - split; [apply St|exact Fin].
Qed.
Print Assumptions C03_tree_once_in_order.

(* a forest three levels deep with DoDoer tocks 0 and 5 under a root tock 3 *)
Definition ex_tree : prog Z :=
  let R := {| f_es := []; f_out := OReturn RTrue |} in
  {| p_tock := 3%Z; p_limit := None; p_tyme := 105%Z; p_doers := [3; 4; 8]%N;
     p_defs := [(1, FLeaf KDoer [Y None; Y (Some 0%Z); Y (Some 7%Z); R]); (2, FLeaf KDoer [Y None; Y None]);
                (3, FNest 0%Z false [1; 2]); (4, FNest 5%Z false [5; 6]);
                (5, FLeaf KFunc [Y None; Y (Some 3%Z); Y (Some 3%Z)]); (6, FNest 0%Z false [7]);
                (7, FLeaf KDoerGen [Y None; Y None; Y None]); (8, FLeaf KFunc [Y None; Y (Some 4%Z); R])]%N |}.
Definition ex_forest : list ptree :=
  [PNest 3 [PLeaf 1; PLeaf 2]; PNest 4 [PLeaf 5; PNest 6 [PLeaf 7]]; PLeaf 8]%N.

Example C03_example_tree :
  tree_static ex_tree ex_forest /\ oof (do_run 40 200 ex_tree) = false /\
  option_map (fun r => (concat (fst (fst r)), snd (fst r), snd r)) (tref_run 40 ex_tree ex_forest) =
    Some (recur_steps (do_run 40 200 ex_tree), tyme (do_run 40 200 ex_tree), true) /\
  (* DoDoer 4 (tock 5) is due at 105, 110, 115 and runs at 105, 111, 117 (cumulative, no drift); leaf 1 shows D35: 105, 108, 114 *)
  map snd (filter (fun x => N.eqb (fst x) 4) (recur_steps (do_run 40 200 ex_tree))) = [105; 111; 117]%Z /\
  map snd (filter (fun x => N.eqb (fst x) 1) (recur_steps (do_run 40 200 ex_tree))) = [105; 108; 114]%Z.
Proof.
  split.
  - split; [reflexivity|]. split.
    + repeat (constructor; try (econstructor; [reflexivity|])); try reflexivity.
    + split; [vm_compute; repeat constructor; cbn; intuition discriminate|vm_compute; intuition discriminate].
  - vm_compute. repeat split.
Qed.

(* ------------------------------------------------------------------ *)
(* 7. DYNAMIC programs (extend / remove during a pass, nesting, raises): at most
   once per pass.  FULL for every program and every scheduler x whose pass is
   running (prot: x is executing, or x is the root and no doer is numbered 0):
   if x's deque is u ++ [marker] ++ rr with the deeds u pairwise distinct doers
   (true in every reachable state: no doer is held by two deeds, hold2_all of
   Proofs/SchedDequeUniq.v), the doers the pass sends (loop_sent = recur_loop
   instrumented with the list of doers it sends, Proofs/SchedDequePass.v) are a
   sub-sequence of u - in deque order - and pairwise distinct: every doer is sent
   at most once per pass, whatever the doers do meanwhile. *)
Theorem C03_dynamic_pass_once :
  forall (T : Type) (TT : Time T) (tk : T) (f : nat) (s : st T) (x : id) (u rr : list (deed T))
         (s' : st T) (r : gres) (l : list id),
    SchedDequeSortB.prot s x -> SchedDeque.dq s x = u ++ DMark :: rr -> SchedDequeEpos.mf u ->
    NoDup (SchedDeque.dids u) ->
    SchedDequePass.loop_sent tk f s x = (s', r, l) ->
    recur_loop tk f s x = (s', r) /\ SchedDequePass.subseq l (SchedDeque.dids u) /\ NoDup l.
Proof. intros. eapply SchedCycleOnce.pass_once; eassumption. Qed.
Print Assumptions C03_dynamic_pass_once.

(* ... and for every cycle k of every run of a program in which no doer is numbered
   0 (no pass before it raised, no budget exhausted): the doers sent by the root's
   pass of cycle k (root_sent) are pairwise distinct and a sub-sequence of the root
   deque at the start of the cycle. *)
Theorem C03_dynamic_run_once :
  forall (T : Type) (TT : Time T) (fuel : nat) (p : prog T) (k : nat),
    let tk := p_tock p in let s := after tk fuel (entered fuel p) k in
    get (p_defs p) 0%N = None -> enter_ok fuel p = true ->
    (forall j, (j < k)%nat -> cycle_ok tk fuel (after tk fuel (entered fuel p) j) = true) ->
    oof s = false ->
    NoDup (SchedCycleOnce.root_sent tk fuel s) /\
    SchedDequePass.subseq (SchedCycleOnce.root_sent tk fuel s) (SchedDeque.qids s 0%N).
Proof. intros T TT fuel p k. exact (SchedCycleOnce.run_pass_once fuel p k). Qed.
Print Assumptions C03_dynamic_run_once.

(* doer 1 extends the root with doer 3 in its first recur and removes doer 2 in its second *)
Definition ex_dyn : prog Z :=
  {| p_tock := 1%Z; p_limit := None; p_tyme := 0%Z; p_doers := [1; 2]%N;
     p_defs := [(1, FLeaf KDoer [Y None; {| f_es := [EExtend 0%N [3%N]]; f_out := OYield None |};
                                 {| f_es := [ERemove 0%N [2%N]]; f_out := OYield None |}; Y None]);
                (2, FLeaf KDoer [Y None; Y None; Y None; Y None]);
                (3, FLeaf KDoer [Y None; Y None; Y None])]%N |}.
Example C03_example_dynamic :
  let tk := 1%Z in let s0 := entered 100 ex_dyn in
  get (p_defs ex_dyn) 0%N = None /\ enter_ok 100 ex_dyn = true /\
  (forall j, (j < 2)%nat -> cycle_ok tk 100 (after tk 100 s0 j) = true) /\
  oof (after tk 100 s0 2) = false /\
  SchedCycleOnce.root_sent tk 100 (after tk 100 s0 0) = [1; 2]%N /\      (* 3 is entered in this pass, not sent *)
  (* deque [3; 1; 2] (the mid-pass extend put 3 in front: finding D3); 1 removes 2 before its turn *)
  SchedCycleOnce.root_sent tk 100 (after tk 100 s0 1) = [3; 1]%N /\
  SchedCycleOnce.root_sent tk 100 (after tk 100 s0 2) = [3; 1]%N.
Proof.
  cbv zeta. split; [reflexivity|]. split; [vm_compute; reflexivity|].
  split. { intros j Hj. destruct j as [|[|j]]; try lia; vm_compute; reflexivity. }
  vm_compute. repeat split.
Qed.

(* ------------------------------------------------------------------ *)
(* 8. HISTORIES (Proofs/SchedHist.v; vocabulary as in Props/C05.v section 5): the theorems
   above for every run r that follows ANY history h (s = run_hist ... h), sync or async,
   RAgain (same Doist, limit / tyme possibly new) or RFresh (new Doist). *)

(* the tick grid of a rerun starts at ITS start tyme rr_tyme s r: the final tyme is a grid
   point, the events the rerun added are blocks n, ..., 0 of that grid (so their grid index
   never decreases), the earlier trace is untouched.  FULL, every program. *)
Theorem C03_tick_histories :
  forall (T : Type) (TT : Time T) (cycles fuel : nat) (asyn : bool) (p : prog T) (h : list rerun) (r : rerun),
    let tk := p_tock p in let s := run_hist cycles fuel asyn p h in
    let fin := run_hist cycles fuel asyn p (h ++ [r]) in
    exists n, tyme fin = grid (rr_tyme s r) tk n /\
              exists l, trace fin = l ++ trace s /\ on_grid (rr_tyme s r) tk n l.
Proof.
  intros T TT cycles fuel asyn p h r. cbv zeta. rewrite run_hist_snoc, rerun_step_tail.
  destruct (tail_grid (p_tock p) fuel cycles (rr_start (run_hist cycles fuel asyn p h) r)
              (rr_doers (run_hist cycles fuel asyn p h) r) (rr_limit r)) as (n & Ty & l & E & G).
  rewrite rr_start_tyme in *. exists n. split; [exact Ty|]. exists l. split; [|exact G].
  rewrite E. destruct r as [l0 [t|]|l0 t0 ds]; reflexivity.
Qed.
Print Assumptions C03_tick_histories.

(* cycle advance and pass tyme are statements about cycle_loop / recur_pass from ANY state
   (C03_cycle_advance, C03_pass_tyme), hence hold in every run of a history as they stand;
   with the stop rule (C05_stop_rule_histories): a rerun that stops after cycle n ends at
   rr_tyme + (n+1) tocks. *)

(* static flat reruns.  Extra precondition, stated in full (flat_start): in the start
   state of the rerun the root deque is empty (true after every run that ended by exit()),
   the doers it enters are pairwise distinct, not 0, effect-free fault-free leaves, and
   ALL STARTABLE - never started or exited; a doer left suspended by an earlier run that
   ran out of budget would be skipped.  Then the rerun is exactly the reference cycle model
   started at the rerun's tyme: the recur steps it ADDS, its final tyme and Doist.done. *)
Theorem C03_flat_refines_histories :
  forall (T : Type) (TT : Time T) (cycles fuel : nat) (asyn : bool) (p : prog T) (h : list rerun) (r : rerun),
    let tk := p_tock p in let s := run_hist cycles fuel asyn p h in
    let fin := run_hist cycles fuel asyn p (h ++ [r]) in
    flat_start (p_defs p) (rr_start s r) (rr_doers s r) -> oof fin = false ->
    exists blocks (dn : bool),
      ref_cycles (p_defs p) tk (lim_of (rr_limit r)) (stop_of (rr_tyme s r) (rr_limit r)) cycles (rr_tyme s r)
                 (ref_enter (p_defs p) (rr_tyme s r) (rr_doers s r)) [] = Some (blocks, tyme fin, dn) /\
      recs fin = rev (concat blocks) ++ recs s /\
      get_done fin 0%N = Some dn.
Proof.
  intros T TT cycles fuel asyn p h r. cbv zeta. rewrite run_hist_snoc, rerun_step_tail. intros Fs O.
  destruct (tail_ref (p_tock p) (p_defs p) cycles fuel _ _ (rr_limit r) Fs O) as (res & dn & R & Rc & Dn).
  rewrite rr_start_tyme in R. exists res, dn. split; [exact R|]. split; [|exact Dn].
  rewrite Rc. destruct r as [l0 [t|]|l0 t0 ds]; reflexivity.
Qed.
Print Assumptions C03_flat_refines_histories.

(* no drift in a rerun (exact time): as C03_no_drift_run, with start = the rerun's tyme *)
Theorem C03_no_drift_histories :
  forall (cycles fuel : nat) (asyn : bool) (p : prog Z) (h : list rerun) (r : rerun) (i : id) (t : Z) (n : nat),
    let tk := p_tock p in let s := run_hist cycles fuel asyn p h in
    let fin := run_hist cycles fuel asyn p (h ++ [r]) in
    flat_start (p_defs p) (rr_start s r) (rr_doers s r) -> oof fin = false ->
    In i (rr_doers s r) -> (exists t0, out_at (p_defs p) i 0 = OYield t0) ->
    t <> 0%Z -> (forall pc, (1 <= pc < n)%nat -> out_at (p_defs p) i pc = OYield (Some t)) ->
    exists blocks,
      recs fin = rev (concat blocks) ++ recs s /\
      drift_ok tk (rr_tyme s r) i t n (rr_tyme s r) 0 blocks.
Proof.
  intros cycles fuel asyn p h r i t n. cbv zeta. intros Fs O I E0 Nz C.
  destruct (C03_flat_refines_histories Z ZTime cycles fuel asyn p h r Fs O) as (res & dn & R & S & _).
  assert (Jq : J (rr_tyme (run_hist cycles fuel asyn p h) r) i t n
                 (ref_enter (p_defs p) (rr_tyme (run_hist cycles fuel asyn p h) r) (rr_doers (run_hist cycles fuel asyn p h) r)) 0).
  { apply J_enter; [apply Fs|exact I|exact E0]. }
  destruct (ref_cycles_drift (p_defs p) (p_tock p) _ i t n Nz C _ _ _ _ _ _ _ _ _ 0%nat R Jq) as (news & -> & Dr).
  exists news. split; [exact S|exact Dr].
Qed.
Print Assumptions C03_no_drift_histories.

(* ------------------------------------------------------------------ *)
(* Non-vacuity of the hypotheses *)
Definition ex_flat : prog Z :=
  let R := {| f_es := []; f_out := OReturn RTrue |} in
  {| p_tock := 2%Z; p_limit := None; p_tyme := 10%Z; p_doers := [1; 2; 3]%N;
     p_defs := [(1, FLeaf KFunc [Y None; Y (Some 3%Z); Y (Some 3%Z); Y (Some 3%Z); R]);
                (2, FLeaf KDoer [Y None; Y None; Y (Some 0%Z); Y (Some 5%Z); R]);
                (3, FLeaf KDoerGen [R])]%N |}.

Example C03_example_flat :
  flat_static ex_flat = true /\ oof (do_run 50 100 ex_flat) = false /\
  ref_run 50 ex_flat = Some ([[(1%N, 10%Z); (2%N, 10%Z)]; [(2%N, 12%Z)]; [(1%N, 14%Z); (2%N, 14%Z)]; [(1%N, 16%Z)]; [];
                              [(1%N, 20%Z); (2%N, 20%Z)]], 22%Z, true) /\
  recur_steps (do_run 50 100 ex_flat) =
    [(1%N, 10%Z); (2%N, 10%Z); (2%N, 12%Z); (1%N, 14%Z); (2%N, 14%Z); (1%N, 16%Z); (1%N, 20%Z); (2%N, 20%Z)] /\
  tyme (do_run 50 100 ex_flat) = 22%Z /\
  option_map (fun tr => map (fun e => (e_kind e, e_id e, e_tyme e)) (rev tr)) (ref_trace 50 ex_flat) =
    Some [(Enter, 1%N, 10%Z); (Enter, 2%N, 10%Z); (Enter, 3%N, 10%Z); (Clean, 3%N, 10%Z); (Exit, 3%N, 10%Z);
          (Recur, 1%N, 10%Z); (Recur, 2%N, 10%Z); (Recur, 2%N, 12%Z); (Recur, 1%N, 14%Z); (Recur, 2%N, 14%Z);
          (Recur, 1%N, 16%Z); (Recur, 1%N, 20%Z); (Clean, 1%N, 20%Z); (Exit, 1%N, 20%Z);
          (Recur, 2%N, 20%Z); (Clean, 2%N, 20%Z); (Exit, 2%N, 20%Z); (DoReturn, 0%N, 22%Z)].
Proof. vm_compute. repeat split. Qed.

(* doer 1 asks for t = 3 with scheduler tock 2: due 10, 13, 16, 19 -> run at 10, 14, 16, 20 (no drift) *)
Example C03_example_no_drift :
  (forall pc, (1 <= pc < 4)%nat -> out_at (p_defs ex_flat) 1%N pc = OYield (Some 3%Z)) /\
  In 1%N (p_doers ex_flat) /\ (exists t0, out_at (p_defs ex_flat) 1%N 0 = OYield t0).
Proof.
  split; [intros pc Hpc; destruct pc as [|[|[|[|pc]]]]; try lia; reflexivity|].
  split; [left; reflexivity|]. eexists. reflexivity.
Qed.

(* a nested program with a raise in the middle of a pass, for the unconditional theorems *)
Definition ex_any : prog Z :=
  let X := {| f_es := []; f_out := ORaise |} in
  {| p_tock := 1%Z; p_limit := None; p_tyme := 0%Z; p_doers := [1; 2; 5]%N;
     p_defs := [(1, FLeaf KFunc [Y None; Y None; Y None; Y None]); (2, FNest 0%Z false [3; 4]);
                (3, FLeaf KDoer [Y None; Y None; Y None; Y None]); (4, FLeaf KDoerGen [Y None; Y None; X]);
                (5, FLeaf KFunc [Y None; Y None; Y None; Y None])]%N |}.
Example C03_example_any :
  let s := do_run 10 100 ex_any in
  oof s = false /\ tyme s = 1%Z /\ map e_tyme (rev (trace s)) = repeat 0%Z 10 ++ repeat 1%Z 15.
Proof. vm_compute. repeat split. Qed.

(* ex_flat run once (ends at 22, all doers complete), then again on the same Doist with limit 3
   and the tyme reset to 100, then under a new Doist at tyme 50 over doers [2; 1] *)
Definition ex_hist3 : list (@rerun Z) := [RAgain (Some 3%Z) (Some 100%Z); RFresh None 50%Z [2; 1]%N].
Example C03_example_histories :
  let p := ex_flat in
  let s1 := run_hist 50 100 false p [RAgain (Some 3%Z) (Some 100%Z)] in
  let r2 := RFresh None 50%Z [2; 1]%N in
  oof (run_hist 50 100 false p ex_hist3) = false /\
  tyme s1 = 104%Z /\ rr_tyme s1 r2 = 50%Z /\
  (* flat_start of the second rerun, decidable parts *)
  deeds (get_sched (rr_start s1 r2) 0%N) = [] /\ get_done (rr_start s1 r2) 0%N = Some false /\
  forallb (fun i => startable (rr_start s1 r2) i && negb (N.eqb i 0) && quiet_def (get (p_defs p) i)) (rr_doers s1 r2) = true /\
  (* what it adds: doer 2 first (the new enter order), doer 1 with its tock 3 from 50: due 50, 53, 56, 59 -> 50, 54, 56, 60 *)
  firstn 8 (rev (recs (run_hist 50 100 false p ex_hist3))) =
    [(1%N, 10%Z); (2%N, 10%Z); (2%N, 12%Z); (1%N, 14%Z); (2%N, 14%Z); (1%N, 16%Z); (1%N, 20%Z); (2%N, 20%Z)] /\
  skipn 11 (rev (recs (run_hist 50 100 false p ex_hist3))) =
    [(2%N, 50%Z); (1%N, 50%Z); (2%N, 52%Z); (2%N, 54%Z); (1%N, 54%Z); (1%N, 56%Z); (2%N, 60%Z); (1%N, 60%Z)] /\
  tyme (run_hist 50 100 false p ex_hist3) = 62%Z.
Proof. vm_compute. repeat split. Qed.

Example C03_example_histories_start :
  let p := ex_flat in let s1 := run_hist 50 100 false p [RAgain (Some 3%Z) (Some 100%Z)] in
  flat_start (p_defs p) (rr_start s1 (RFresh None 50%Z [2; 1]%N)) [2; 1]%N.
Proof.
  cbv zeta. split; [reflexivity|]. split; [vm_compute; reflexivity|]. split; [vm_compute; reflexivity|].
  split; [repeat constructor; cbn; intuition discriminate|].
  intros i [<-|[<-|[]]]; vm_compute; repeat split; discriminate.
Qed.

(* The lifecycle core C03 relies on (kept from the interim version). *)
Theorem C03_lifecycles_core :
  forall (T : Type) (TT : Time T) (cycles fuel : nat) (p : prog T) (j : id),
    life_ok (get_gen (do_run cycles fuel p) j) (events j (do_run cycles fuel p)).
Proof. intros. apply do_run_lifecycles. Qed.
Print Assumptions C03_lifecycles_core.
