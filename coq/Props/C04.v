(* C04 — nesting doers inside a tock-0 DoDoer is observationally transparent.

   FULL STATEMENT (properties.jsonl):  for every static doer forest and every way of
   regrouping consecutive siblings into tock-0, non-always DoDoers,
       leaf_view (do_run (grouped program)) = leaf_view (do_run (flat program)).
   It is FALSE of the faithful model and of the code (open finding D35): inside a
   DoDoer the asap branch of recur bases the next due tyme on tyme + DoDoer.tock
   (= tyme), in the Doist on tyme + doist.tock; a grouped doer that yields None/0
   and LATER a positive tock is re-run one root tock early.

   What is proved here (Model/Sched.v, frozen; proofs in Proofs/SchedFlat*.v):
   * C04_flatten_refuted (Theorem, Z) / C04_flatten_refuted_float (Example) : the witness of findings.d/C04.json, in exact
     (Z) time and bit-exact in binary64.
   * C04_flatten_partial : ONE level of grouping (a flat list of root leaves and a
     partition of consecutive runs into DoDoers of tock z0, always = false), any
     Time instance satisfying three laws (reflexivity of <=, the root tock moves
     time forward, |z0| is a right unit of +), arbitrary static scripts (any kinds,
     yielded tocks, completion points and return values), any limit, any start
     tyme: if no GROUPED leaf yields an asap tock (None/0) and later a positive one
     (tock yielded at enter excepted: the scheduler discards it), the two runs have the same leaf view:
     leaf and root events with tymes in order (enter order, (doer,tyme) recur
     steps, clean/exit at completion, forced cease/exit order), done flags of the
     leaves and of the Doist, final tyme.  Fuel: both runs are assumed not to run
     out of fuel or cycles (oof = false); budgets may differ.
   * C04_flatten_partial_Z : the instance for exact time, tock >= 0, z0 = 0, with no
     law hypotheses left.
   * C04_run_spec : do_run of any such grouped program (no hypothesis on tocks)
     computes the fuel-free structural specification spec_run — the model-side half
     of the argument, usable on its own.
   * C04_flatten_deep_partial (+ _Z) : the same statement for regrouping TREES of ANY
     depth (a tock-z0 non-always DoDoer inside a tock-z0 DoDoer, ...; empty DoDoers
     allowed): hypothesis on every leaf below at least one DoDoer; C04_tree_run_spec is
     the model-side half for trees (Proofs/SchedTree*.v: the three phases are proved for
     "the loop of a scheduler" and "a group" together by induction on fuel; the
     simulation relation follows the tree).  The one-level theorems are the special
     case where every kid of a group is a leaf; they are kept.

   * C04_flatten_histories (+ _Z, _onelevel) and C04_hist_spec : all of the above lifted from
     do_run to run_hist (Proofs/SchedHist.v): a first do()/ado() followed by any number of
     re-runs of the same doer objects, RAgain (same Doist, new limit/tyme) or RFresh (a NEW
     Doist with its own tyme).  The nested and the flat history are given together: a fresh
     Doist receives a duplicate-free selection, in any order, of the program's TOP-LEVEL items
     — the nested run their top ids, the flat run their leaves in tree order.  Proof: the
     phase lemmas again from an arbitrary pre-state (doers GDone or GNew), with two more
     conclusions — doers lists never change, every item leaving the live forest is ended —
     which re-establish "every doer startable, every DoDoer deque empty" after each run
     (Proofs/SchedTreeHistRun.v, SchedTreeHist.v, SchedFlatHist.v).  Full for the model side,
     partial (same hypothesis) for the comparison; nothing refuted: in the model every re-run
     re-enters all doers at the current Doist's tyme, which is what seeded/C04-3 breaks in the code.

   NOT proved (covered only by the correspondence + oracle of harness/drivers/c04.py):
   * RFresh lists that are not selections of top-level items (e.g. a DoDoer's kid handed
     directly to a new Doist);
   * groups with a non-zero tock or always = true below the root (the driver's C04 stream
     does not generate them; C03 does);
   * programs with extend/remove or raising doers (outside the quantifier of C04);
   * binary64 time: the three laws fail for nan only, but the theorem is stated for
     instances satisfying them and is instantiated at Z; the driver compares
     bit-exact floats on every case;
   * explicit sufficient fuel budgets (the hypothesis oof = false is checked by
     vm_compute in the examples and is part of check_case in the correspondence). *)
From Coq Require Import PrimFloat.
From Hio Require Import Base.Prelude Base.AMap Base.Time Model.Sched
  Proofs.SchedFlatDefs Proofs.SchedFlatRun Proofs.SchedFlatSim Proofs.SchedFlatTop
  Proofs.SchedTreeDefs Proofs.SchedTreeRun Proofs.SchedTreeSim Proofs.SchedTreeTop
  Proofs.SchedHist Proofs.SchedTreeHistRun Proofs.SchedTreeHist Proofs.SchedFlatHist.

(* ---------- the refutation: D35 ---------- *)

Definition yz (t : option Z) : fstep Z := {| f_es := []; f_out := OYield t |}.
Definition wz1 : leaf Z := {| lf_id := 1%N; lf_kind := KDoer; lf_script := [yz None; yz (Some 0%Z); yz (Some 7%Z)] |}.
Definition wz2 : leaf Z := {| lf_id := 2%N; lf_kind := KDoer; lf_script := [yz None] |}.
Definition wz_group : list (gitem Z) := [GGroup 3%N [wz1; wz2]].

(* root tock 3, start 105; leaf 1 yields 0 at 105 and 7 at 108: flat re-run at 117, grouped at 114 *)
Theorem C04_flatten_refuted :
  exists (tk t0 z0 : Z) (gs : list (gitem Z)) (cycles fuel : nat),
    wf_group gs /\
    oof (do_run cycles fuel (nest_prog tk None t0 z0 gs)) = false /\
    oof (do_run cycles fuel (flat_prog tk None t0 (flatten gs))) = false /\
    leaf_view (map lf_id (flatten gs)) (do_run cycles fuel (nest_prog tk None t0 z0 gs)) <>
    leaf_view (map lf_id (flatten gs)) (do_run cycles fuel (flat_prog tk None t0 (flatten gs))).
Proof.
  exists 3%Z, 105%Z, 0%Z, wz_group, 50%nat, 100%nat.
  split; [|split; [vm_compute; reflexivity|split; [vm_compute; reflexivity|]]].
  - split; [|reflexivity]. repeat constructor; cbn; intuition discriminate.
  - intro E. apply (f_equal snd) in E. vm_compute in E. discriminate.
Qed.
Print Assumptions C04_flatten_refuted.

(* the same, bit-exact in binary64: the witness of findings.d/C04.json
   (root tock 0.3, start 10.5, yields None, 0.0, 0.7) *)
Definition yf (t : option float) : fstep float := {| f_es := []; f_out := OYield t |}.
Definition wf1 : leaf float :=
  {| lf_id := 1%N; lf_kind := KDoer; lf_script := [yf None; yf (Some 0%float); yf (Some 0x1.6666666666666p-1%float)] |}.
Definition wf2 : leaf float := {| lf_id := 2%N; lf_kind := KDoer; lf_script := [yf None] |}.
Definition wf_group_f : list (gitem float) := [GGroup 3%N [wf1; wf2]].

Definition final_tyme_differs (a b : st float) : bool := negb (float_same (tyme a) (tyme b)).

Example C04_flatten_refuted_float :
  let nested := do_run 50 100 (nest_prog 0x1.3333333333333p-2%float None 10.5%float 0%float wf_group_f) in
  let flat := do_run 50 100 (flat_prog 0x1.3333333333333p-2%float None 10.5%float (flatten wf_group_f)) in
  oof nested = false /\ oof flat = false /\
  leaf_view [1%N; 2%N] nested <> leaf_view [1%N; 2%N] flat.
Proof.
  cbv zeta. split; [vm_compute; reflexivity|split; [vm_compute; reflexivity|]].
  intro E.
  apply (f_equal (fun v => PrimFloat.eqb (snd v)
    (tyme (do_run 50 100 (flat_prog 0x1.3333333333333p-2%float None 10.5%float (flatten wf_group_f)))))) in E.
  vm_compute in E. discriminate.
Qed.
(* (an Example, not a Theorem: it computes with Coq's primitive binary64 operations, which
   Print Assumptions lists as primitives) *)

(* ---------- the positive theorem ---------- *)

Theorem C04_flatten_partial :
  forall (T : Type) (TT : Time T) (tk : T) (limit : option T) (t0 z0 : T)
         (gs : list (gitem T)) (c1 f1 c2 f2 : nat),
    flat_laws tk z0 ->
    wf_group gs ->
    forallb no_asap_then_positive (grouped_leaves gs) = true ->
    oof (do_run c1 f1 (nest_prog tk limit t0 z0 gs)) = false ->
    oof (do_run c2 f2 (flat_prog tk limit t0 (flatten gs))) = false ->
    leaf_view (map lf_id (flatten gs)) (do_run c1 f1 (nest_prog tk limit t0 z0 gs)) =
    leaf_view (map lf_id (flatten gs)) (do_run c2 f2 (flat_prog tk limit t0 (flatten gs))).
Proof. intros. now apply flatten_run. Qed.
Print Assumptions C04_flatten_partial.

Lemma flat_laws_Z (tk : Z) : (0 <= tk)%Z -> flat_laws tk 0%Z.
Proof.
  intro Hk. split; [|split]; cbn.
  - intro a. apply Z.leb_refl.
  - intros a b Hab. apply Z.leb_le in Hab. apply Z.leb_le. lia.
  - intro a. lia.
Qed.

Theorem C04_flatten_partial_Z :
  forall (tk : Z) (limit : option Z) (t0 : Z) (gs : list (gitem Z)) (c1 f1 c2 f2 : nat),
    (0 <= tk)%Z ->
    wf_group gs ->
    forallb no_asap_then_positive (grouped_leaves gs) = true ->
    oof (do_run c1 f1 (nest_prog tk limit t0 0%Z gs)) = false ->
    oof (do_run c2 f2 (flat_prog tk limit t0 (flatten gs))) = false ->
    leaf_view (map lf_id (flatten gs)) (do_run c1 f1 (nest_prog tk limit t0 0%Z gs)) =
    leaf_view (map lf_id (flatten gs)) (do_run c2 f2 (flat_prog tk limit t0 (flatten gs))).
Proof. intros. apply flatten_run; auto using flat_laws_Z. Qed.
Print Assumptions C04_flatten_partial_Z.

(* the model-side half: the grouped run computes the structural specification *)
Theorem C04_run_spec :
  forall (T : Type) (TT : Time T) (tk : T) (limit : option T) (t0 z0 : T)
         (gs : list (gitem T)) (cycles fuel : nat),
    wf_group gs ->
    oof (do_run cycles fuel (nest_prog tk limit t0 z0 gs)) = false ->
    exists r, spec_run tk (tabs z0) cycles limit t0 gs = Some r /\
              leaf_view (map lf_id (flatten gs)) (do_run cycles fuel (nest_prog tk limit t0 z0 gs)) =
              view_of (map lf_id (flatten gs)) r.
Proof. intros. now apply nest_run_spec. Qed.
Print Assumptions C04_run_spec.

(* ---------- a concrete program satisfying the hypotheses ---------- *)

Definition rz (r : ret) : fstep Z := {| f_es := []; f_out := OReturn r |}.
(* root tock 2; five leaves of all kinds: positive tocks below/above/equal to the root tock,
   then asap tocks, returns of every kind, one leaf that returns at enter, one that outlives the limit *)
Definition ea : leaf Z := {| lf_id := 1%N; lf_kind := KFunc; lf_script := [yz (Some 0%Z); yz (Some 3%Z); yz (Some 1%Z); yz None; yz (Some 0%Z); rz RFalse] |}.
Definition eb : leaf Z := {| lf_id := 2%N; lf_kind := KDoer; lf_script := [yz None; yz (Some 5%Z); yz (Some 2%Z); yz None] |}.
Definition ec : leaf Z := {| lf_id := 3%N; lf_kind := KDoerGen; lf_script := [rz RNone] |}.
Definition ed : leaf Z := {| lf_id := 4%N; lf_kind := KDoerGen; lf_script := [yz (Some 7%Z); yz (Some 4%Z); yz (Some 4%Z); yz (Some 0%Z); yz None; yz None; yz None; yz None; yz None; yz None; yz None; yz None; yz None; yz None] |}.
Definition ee : leaf Z := {| lf_id := 5%N; lf_kind := KFunc; lf_script := [yz None; yz None; rz RTrue] |}.
Definition ef : leaf Z := {| lf_id := 6%N; lf_kind := KDoer; lf_script := [yz None; yz (Some 2%Z)] |}.
Definition ex_group : list (gitem Z) := [GLeaf ee; GGroup 10%N [ea; eb]; GGroup 11%N [ec]; GGroup 12%N [ed; ef]].

Example C04_example_hyps :
  wf_group ex_group /\
  forallb no_asap_then_positive (grouped_leaves ex_group) = true /\
  oof (do_run 40 200 (nest_prog 2%Z None 10%Z 0%Z ex_group)) = false /\
  oof (do_run 30 100 (flat_prog 2%Z None 10%Z (flatten ex_group))) = false /\
  oof (do_run 40 200 (nest_prog 2%Z (Some 9%Z) 10%Z 0%Z ex_group)) = false /\
  oof (do_run 30 100 (flat_prog 2%Z (Some 9%Z) 10%Z (flatten ex_group))) = false.
Proof.
  split; [|repeat split; vm_compute; reflexivity].
  split; [|reflexivity]. repeat constructor; cbn; intuition discriminate.
Qed.

(* the conclusion on that program, by the theorem (not by computation), to completion and to a limit *)
Example C04_example_use :
  leaf_view (map lf_id (flatten ex_group)) (do_run 40 200 (nest_prog 2%Z None 10%Z 0%Z ex_group)) =
  leaf_view (map lf_id (flatten ex_group)) (do_run 30 100 (flat_prog 2%Z None 10%Z (flatten ex_group))) /\
  leaf_view (map lf_id (flatten ex_group)) (do_run 40 200 (nest_prog 2%Z (Some 9%Z) 10%Z 0%Z ex_group)) =
  leaf_view (map lf_id (flatten ex_group)) (do_run 30 100 (flat_prog 2%Z (Some 9%Z) 10%Z (flatten ex_group))).
Proof.
  destruct C04_example_hyps as (W & Hy & O1 & O2 & O3 & O4).
  split; apply C04_flatten_partial_Z; auto; lia.
Qed.

(* the example is not trivial: both runs are long, leaves are force-closed under the limit *)
Example C04_example_nontrivial :
  length (fst (fst (leaf_view (map lf_id (flatten ex_group)) (do_run 40 200 (nest_prog 2%Z None 10%Z 0%Z ex_group))))) = 46%nat /\
  existsb (fun e => match e_kind e with Cease => true | _ => false end)
          (trace (do_run 40 200 (nest_prog 2%Z (Some 9%Z) 10%Z 0%Z ex_group))) = true.
Proof. split; vm_compute; reflexivity. Qed.

(* the refutation witness violates exactly the hypothesis on tocks *)
Example C04_witness_excluded : forallb no_asap_then_positive (grouped_leaves wz_group) = false.
Proof. reflexivity. Qed.

(* ---------- arbitrary depth: regrouping trees ---------- *)

(* A regrouping TREE: [TLeaf l] or [TGroup n kids] where the kids are again trees — a
   tock-z0, non-always DoDoer may hold leaves and further such DoDoers, to any depth.
   [gflatten] lists the leaves in tree order (= the flat program), [tgrouped_leaves]
   those below at least one DoDoer.  Same three time laws, same hypothesis on every
   grouped leaf, same conclusion as C04_flatten_partial. *)
Theorem C04_flatten_deep_partial :
  forall (T : Type) (TT : Time T) (tk : T) (limit : option T) (t0 z0 : T)
         (gs : list (gtree T)) (c1 f1 c2 f2 : nat),
    flat_laws tk z0 ->
    wf_tree gs ->
    forallb no_asap_then_positive (tgrouped_leaves gs) = true ->
    oof (do_run c1 f1 (tnest_prog tk limit t0 z0 gs)) = false ->
    oof (do_run c2 f2 (flat_prog tk limit t0 (gflatten gs))) = false ->
    leaf_view (map lf_id (gflatten gs)) (do_run c1 f1 (tnest_prog tk limit t0 z0 gs)) =
    leaf_view (map lf_id (gflatten gs)) (do_run c2 f2 (flat_prog tk limit t0 (gflatten gs))).
Proof. intros. now apply flatten_deep_run. Qed.
Print Assumptions C04_flatten_deep_partial.

Theorem C04_flatten_deep_partial_Z :
  forall (tk : Z) (limit : option Z) (t0 : Z) (gs : list (gtree Z)) (c1 f1 c2 f2 : nat),
    (0 <= tk)%Z ->
    wf_tree gs ->
    forallb no_asap_then_positive (tgrouped_leaves gs) = true ->
    oof (do_run c1 f1 (tnest_prog tk limit t0 0%Z gs)) = false ->
    oof (do_run c2 f2 (flat_prog tk limit t0 (gflatten gs))) = false ->
    leaf_view (map lf_id (gflatten gs)) (do_run c1 f1 (tnest_prog tk limit t0 0%Z gs)) =
    leaf_view (map lf_id (gflatten gs)) (do_run c2 f2 (flat_prog tk limit t0 (gflatten gs))).
Proof. intros. apply flatten_deep_run; auto using flat_laws_Z. Qed.
Print Assumptions C04_flatten_deep_partial_Z.

(* the model-side half at arbitrary depth, no hypothesis on tocks *)
Theorem C04_tree_run_spec :
  forall (T : Type) (TT : Time T) (tk : T) (limit : option T) (t0 z0 : T)
         (gs : list (gtree T)) (cycles fuel : nat),
    wf_tree gs ->
    oof (do_run cycles fuel (tnest_prog tk limit t0 z0 gs)) = false ->
    exists r, tspec_run tk (tabs z0) cycles limit t0 gs = Some r /\
              leaf_view (map lf_id (gflatten gs)) (do_run cycles fuel (tnest_prog tk limit t0 z0 gs)) =
              view_of (map lf_id (gflatten gs)) r.
Proof. intros. now apply tree_run_spec. Qed.
Print Assumptions C04_tree_run_spec.

(* a depth-3 regrouping of the six example leaves:
   root [ ee ; 10 [ ea ; 11 [ eb ; 12 [ ec ; ed ] ] ; 13 [] ] ; 14 [ 15 [ ef ] ] ] *)
Definition ex_tree : list (gtree Z) :=
  [TLeaf ee;
   TGroup 10%N [TLeaf ea; TGroup 11%N [TLeaf eb; TGroup 12%N [TLeaf ec; TLeaf ed]]; TGroup 13%N []];
   TGroup 14%N [TGroup 15%N [TLeaf ef]]].

Example C04_deep_example_hyps :
  wf_tree ex_tree /\
  forallb no_asap_then_positive (tgrouped_leaves ex_tree) = true /\
  oof (do_run 40 300 (tnest_prog 2%Z None 10%Z 0%Z ex_tree)) = false /\
  oof (do_run 30 100 (flat_prog 2%Z None 10%Z (gflatten ex_tree))) = false /\
  oof (do_run 40 300 (tnest_prog 2%Z (Some 9%Z) 10%Z 0%Z ex_tree)) = false /\
  oof (do_run 30 100 (flat_prog 2%Z (Some 9%Z) 10%Z (gflatten ex_tree))) = false.
Proof.
  split; [|repeat split; vm_compute; reflexivity].
  split; [|reflexivity]. vm_compute. repeat constructor; cbn; intuition discriminate.
Qed.

Example C04_deep_example_use :
  leaf_view (map lf_id (gflatten ex_tree)) (do_run 40 300 (tnest_prog 2%Z None 10%Z 0%Z ex_tree)) =
  leaf_view (map lf_id (gflatten ex_tree)) (do_run 30 100 (flat_prog 2%Z None 10%Z (gflatten ex_tree))) /\
  leaf_view (map lf_id (gflatten ex_tree)) (do_run 40 300 (tnest_prog 2%Z (Some 9%Z) 10%Z 0%Z ex_tree)) =
  leaf_view (map lf_id (gflatten ex_tree)) (do_run 30 100 (flat_prog 2%Z (Some 9%Z) 10%Z (gflatten ex_tree))).
Proof.
  destruct C04_deep_example_hyps as (W & Hy & O1 & O2 & O3 & O4).
  split; apply C04_flatten_deep_partial_Z; auto; lia.
Qed.

(* not trivial: the DoDoers really run (recur events of the depth-3 DoDoer 12), leaves are
   force-closed under the limit through three levels of DoDoers *)
Example C04_deep_example_nontrivial :
  existsb (fun e => match e_kind e with Recur => N.eqb (e_id e) 12 | _ => false end)
          (trace (do_run 40 300 (tnest_prog 2%Z None 10%Z 0%Z ex_tree))) = true /\
  existsb (fun e => match e_kind e with Cease => N.eqb (e_id e) 4 | _ => false end)
          (trace (do_run 40 300 (tnest_prog 2%Z (Some 9%Z) 10%Z 0%Z ex_tree))) = true.
Proof. split; vm_compute; reflexivity. Qed.

(* the D35 witness as a tree violates the hypothesis *)
Example C04_deep_witness_excluded :
  forallb no_asap_then_positive (tgrouped_leaves [TGroup 3%N [TLeaf wz1; TLeaf wz2]]) = false.
Proof. reflexivity. Qed.

(* ---------- histories: second and later runs of the same doer objects ---------- *)

(* Proofs/SchedHist.v: run_hist cycles fuel asyn p h = the first do()/ado() of p followed by the
   re-runs h (RAgain: the same Doist again, optionally with a new limit/tyme; RFresh: a NEW
   Doist with its own tyme, given a list of root doers).  A common history of the nested and
   of the flat program is a [trerun] list: TAgain, or TFresh with a duplicate-free selection
   [sel], in any order, of the program's TOP-LEVEL trees (wf_rerun).  The nested history
   (nest_rerun) hands the fresh Doist the top ids of sel (= p_doers of the nested program when
   sel is the whole program), the flat history (flat_rerun) the leaves of sel in tree order.
   Same laws, same hypothesis on grouped leaves; do and ado may be mixed (a1, a2). *)
Theorem C04_flatten_histories :
  forall (T : Type) (TT : Time T) (tk z0 : T) (gs : list (gtree T)) (limit : option T) (t0 : T)
         (h : list (trerun (T:=T))) (c1 f1 : nat) (a1 : bool) (c2 f2 : nat) (a2 : bool),
    flat_laws tk z0 ->
    wf_tree gs -> Forall (wf_rerun gs) h ->
    forallb no_asap_then_positive (tgrouped_leaves gs) = true ->
    oof (run_hist c1 f1 a1 (tnest_prog tk limit t0 z0 gs) (map nest_rerun h)) = false ->
    oof (run_hist c2 f2 a2 (flat_prog tk limit t0 (gflatten gs)) (map flat_rerun h)) = false ->
    leaf_view (map lf_id (gflatten gs)) (run_hist c1 f1 a1 (tnest_prog tk limit t0 z0 gs) (map nest_rerun h)) =
    leaf_view (map lf_id (gflatten gs)) (run_hist c2 f2 a2 (flat_prog tk limit t0 (gflatten gs)) (map flat_rerun h)).
Proof. intros. now apply flatten_hist. Qed.
Print Assumptions C04_flatten_histories.

Theorem C04_flatten_histories_Z :
  forall (tk : Z) (gs : list (gtree Z)) (limit : option Z) (t0 : Z)
         (h : list (trerun (T:=Z))) (c1 f1 : nat) (a1 : bool) (c2 f2 : nat) (a2 : bool),
    (0 <= tk)%Z ->
    wf_tree gs -> Forall (wf_rerun gs) h ->
    forallb no_asap_then_positive (tgrouped_leaves gs) = true ->
    oof (run_hist c1 f1 a1 (tnest_prog tk limit t0 0%Z gs) (map nest_rerun h)) = false ->
    oof (run_hist c2 f2 a2 (flat_prog tk limit t0 (gflatten gs)) (map flat_rerun h)) = false ->
    leaf_view (map lf_id (gflatten gs)) (run_hist c1 f1 a1 (tnest_prog tk limit t0 0%Z gs) (map nest_rerun h)) =
    leaf_view (map lf_id (gflatten gs)) (run_hist c2 f2 a2 (flat_prog tk limit t0 (gflatten gs)) (map flat_rerun h)).
Proof. intros. apply flatten_hist; auto using flat_laws_Z. Qed.
Print Assumptions C04_flatten_histories_Z.

(* one level of grouping (the programs of C04_flatten_partial), histories over its items *)
Theorem C04_flatten_histories_onelevel :
  forall (T : Type) (TT : Time T) (tk z0 : T) (gs : list (gitem T)) (limit : option T) (t0 : T)
         (h : list (grerun (T:=T))) (c1 f1 : nat) (a1 : bool) (c2 f2 : nat) (a2 : bool),
    flat_laws tk z0 -> wf_group gs -> Forall (wf_grerun gs) h ->
    forallb no_asap_then_positive (grouped_leaves gs) = true ->
    oof (run_hist c1 f1 a1 (nest_prog tk limit t0 z0 gs) (map gnest_rerun h)) = false ->
    oof (run_hist c2 f2 a2 (flat_prog tk limit t0 (flatten gs)) (map gflat_rerun h)) = false ->
    leaf_view (map lf_id (flatten gs)) (run_hist c1 f1 a1 (nest_prog tk limit t0 z0 gs) (map gnest_rerun h)) =
    leaf_view (map lf_id (flatten gs)) (run_hist c2 f2 a2 (flat_prog tk limit t0 (flatten gs)) (map gflat_rerun h)).
Proof. intros. now apply flatten_hist_onelevel. Qed.
Print Assumptions C04_flatten_histories_onelevel.

(* the model-side half over histories (C04_run_spec / C04_tree_run_spec lifted): the first run
   computes tspec_run, every later run tspec_tail from the tyme and outputs left behind, for the
   Doist's current doers; no hypothesis on tocks *)
Theorem C04_hist_spec :
  forall (T : Type) (TT : Time T) (tk z0 : T) (gs : list (gtree T)) (limit : option T) (t0 : T)
         (cycles fuel : nat) (asyn : bool) (h : list (trerun (T:=T))),
    wf_tree gs -> Forall (wf_rerun gs) h ->
    oof (run_hist cycles fuel asyn (tnest_prog tk limit t0 z0 gs) (map nest_rerun h)) = false ->
    exists st0 r, tspec_run tk (tabs z0) cycles limit t0 gs = Some st0 /\
      tspec_hist tk z0 cycles gs st0 h = Some r /\
      leaf_view (map lf_id (gflatten gs)) (run_hist cycles fuel asyn (tnest_prog tk limit t0 z0 gs) (map nest_rerun h)) =
      view_of (map lf_id (gflatten gs)) r.
Proof. intros. now apply tree_hist_spec. Qed.
Print Assumptions C04_hist_spec.

(* a history over the depth-3 example: the same Doist again with limit 5 from tyme 100, then a
   new Doist at tyme 200 given the third and the first top-level item, in that order *)
Definition ex_hist : list (trerun (T:=Z)) :=
  [TAgain (Some 5%Z) (Some 100%Z);
   TFresh None 200%Z [TGroup 14%N [TGroup 15%N [TLeaf ef]]; TLeaf ee]].

Example C04_hist_example_hyps :
  Forall (wf_rerun ex_tree) ex_hist /\
  oof (run_hist 40 300 false (tnest_prog 2%Z None 10%Z 0%Z ex_tree) (map nest_rerun ex_hist)) = false /\
  oof (run_hist 30 100 true (flat_prog 2%Z None 10%Z (gflatten ex_tree)) (map flat_rerun ex_hist)) = false.
Proof.
  split; [|split; vm_compute; reflexivity].
  apply Forall_cons; [exact I|]. apply Forall_cons; [|apply Forall_nil]. split.
  - intros g [<-|[<-|[]]]; cbn; auto.
  - vm_compute. repeat constructor; cbn; intuition discriminate.
Qed.

Example C04_hist_example_use :
  leaf_view (map lf_id (gflatten ex_tree))
    (run_hist 40 300 false (tnest_prog 2%Z None 10%Z 0%Z ex_tree) (map nest_rerun ex_hist)) =
  leaf_view (map lf_id (gflatten ex_tree))
    (run_hist 30 100 true (flat_prog 2%Z None 10%Z (gflatten ex_tree)) (map flat_rerun ex_hist)).
Proof.
  destruct C04_deep_example_hyps as (W & Hy & _).
  destruct C04_hist_example_hyps as (Wh & O1 & O2).
  apply C04_flatten_histories_Z; auto; lia.
Qed.

(* not vacuous: leaf 1 (inside DoDoer 10) is entered in the first and in the second run, leaf 6
   (inside DoDoers 14 > 15) in all three, the last time at the new Doist's tyme 200; the second run
   force-closes under its limit *)
Example C04_hist_example_nontrivial :
  let s := run_hist 40 300 false (tnest_prog 2%Z None 10%Z 0%Z ex_tree) (map nest_rerun ex_hist) in
  length (filter (fun e => match e_kind e with Enter => N.eqb (e_id e) 1 | _ => false end) (trace s)) = 2%nat /\
  length (filter (fun e => match e_kind e with Enter => N.eqb (e_id e) 6 | _ => false end) (trace s)) = 3%nat /\
  existsb (fun e => match e_kind e with Enter => N.eqb (e_id e) 6 && Z.eqb (e_tyme e) 200 | _ => false end) (trace s) = true /\
  existsb (fun e => match e_kind e with Cease => Z.leb 100 (e_tyme e) | _ => false end) (trace s) = true.
Proof. cbv zeta. repeat split; vm_compute; reflexivity. Qed.

(* the lifecycle invariant that the argument relies on (Props/C01.v) still holds for every run *)
From Hio Require Import Proofs.SchedLife Proofs.SchedTop.
Theorem C04_lifecycles_core :
  forall (T : Type) (TT : Time T) (cycles fuel : nat) (p : prog T) (j : id),
    life_ok (get_gen (do_run cycles fuel p) j) (events j (do_run cycles fuel p)).
Proof. intros. apply do_run_lifecycles. Qed.
Print Assumptions C04_lifecycles_core.
