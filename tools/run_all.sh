#!/bin/bash
# tools/run_all.sh [tier] — run every check of MANIFEST.json on the current tree; one summary line per property.
TIER="${1:-quick}"
cd "$(dirname "$0")/.."
for c in $(python3 -c "import json; print(' '.join(x['property_id'] for x in json.load(open('MANIFEST.json'))['checks']))"); do
  t0=$(date +%s)
  out=$(timeout 3600 ./check $c --tier $TIER 2>&1); rc=$?
  t1=$(date +%s)
  echo "$c rc=$rc wall=$((t1-t0))s viol=$(echo "$out" | grep -c '^VIOLATION') known=$(echo "$out" | grep -c '^KNOWN-FINDING') | $(echo "$out" | tail -1 | cut -c1-160)"
done
