(* Order of forced exits (C02).  close_list closes the suspended doers of its
   list in list order — the Cease events of the listed doers appear in exactly
   that order ([close_list_order]); exit() hands it the reversed, un-rotated
   deque ([close_own_order]); a DoDoer's own Cease comes first, then its
   children are closed in that order, then its own Exit ([gen_close_nest]). *)
From Hio Require Import Base.Prelude Base.AMap Base.Time Model.Sched Proofs.SchedEqs Proofs.SchedFrame Proofs.SchedLife
  Proofs.SchedDeque Proofs.SchedDequeHold Proofs.SchedDequeAll Proofs.SchedDequeUniq.

Section Order.
Context {T : Type} `{Time T}.
Implicit Types s a b : st T.
Variable tk : T.

Definition is_cease (e : ev T) : bool := match e_kind e with Cease => true | _ => false end.

(* ids of the Cease events of the doers in D, oldest first, of a segment (newest first) *)
Definition tops (D : list id) (seg : list (ev T)) : list id :=
  map e_id (filter (fun e => is_cease e && memN (e_id e) D) (rev seg)).

Lemma memN_in x l : memN x l = true <-> In x l.
Proof.
  unfold memN. rewrite existsb_exists. split.
  - intros [y [Hy E]]. apply N.eqb_eq in E. now subst.
  - intro Hin. exists x. split; [exact Hin|apply N.eqb_refl].
Qed.

Lemma filter_none {A} (p : A -> bool) l : (forall x, In x l -> p x = false) -> filter p l = [].
Proof.
  induction l as [|y l IH]; intro Hp; [reflexivity|]. cbn [filter].
  rewrite (Hp y) by now left. apply IH. intros x Hx. apply Hp. now right.
Qed.

(* ---------- what closing does to generators and to the trace ---------- *)

Definition CL a s' : Prop :=
  exists seg, trace s' = seg ++ trace a /\
    (forall j, get_gen s' j = get_gen a j \/ (is_susp a j /\ get_gen s' j = GDone)) /\
    (forall e, In e seg -> is_cease e = true -> is_susp a (e_id e) /\ get_gen s' (e_id e) = GDone).

Lemma cl_refl a : CL a a.
Proof. exists []. split; [reflexivity|]. split; [intro; now left|intros e []]. Qed.

Lemma cl_trans a b c : CL a b -> CL b c -> CL a c.
Proof.
  intros (s1 & T1 & G1 & C1) (s2 & T2 & G2 & C2). exists (s2 ++ s1). split; [|split].
  - now rewrite T2, T1, app_assoc.
  - intro j. destruct (G2 j) as [E2|[[pc S2] D2]].
    + rewrite E2. apply G1.
    + right. split; [|exact D2]. destruct (G1 j) as [E1|[_ D1]]; [exists pc; congruence|congruence].
  - intros e Hin Hc. apply in_app_or in Hin. destruct Hin as [Hin|Hin].
    + destruct (C2 e Hin Hc) as [[pc S2] D2]. split; [|exact D2].
      destruct (G1 (e_id e)) as [E1|[_ D1]]; [exists pc; congruence|congruence].
    + destruct (C1 e Hin Hc) as [S1 D1]. split; [exact S1|].
      destruct (G2 (e_id e)) as [E2|[_ D2]]; [congruence|exact D2].
Qed.

Lemma cl_same a s' : trace s' = trace a -> (forall j, get_gen s' j = get_gen a j) -> CL a s'.
Proof. intros Ht Hg. exists []. split; [exact Ht|]. split; [intro; left; apply Hg|intros e []]. Qed.

Definition ev_at s (k : ekind) (i : id) : ev T := {| e_kind := k; e_id := i; e_tyme := tyme s |}.

Lemma cl_nest s i pc s1 :
  get_gen s i = GSusp pc ->
  CL (emit (set_gen s i (GRun pc)) Cease i) s1 ->
  CL s (set_gen (emit s1 Exit i) i GDone).
Proof.
  intros G (seg & Tr & Gn & Ce).
  exists (ev_at s1 Exit i :: seg ++ [ev_at s Cease i]). split; [|split].
  - cbn [trace set_gen emit app]. rewrite Tr. cbn [trace emit set_gen]. unfold ev_at. cbn [tyme].
    rewrite <- app_assoc. reflexivity.
  - intro j. destruct (N.eq_dec j i) as [Heq|Hne].
    + subst j. right. split; [now exists pc|apply gen_set_gen_same].
    + rewrite gen_set_gen_other by exact Hne. rewrite gen_emit.
      destruct (Gn j) as [E1|[[pc' S1] D1]].
      * left. rewrite E1, gen_emit. now apply gen_set_gen_other.
      * right. split; [|exact D1]. exists pc'. rewrite gen_emit, gen_set_gen_other in S1 by exact Hne. exact S1.
  - intros e Hin Hc. destruct Hin as [Heq|Hin]; [subst e; discriminate|].
    apply in_app_or in Hin. destruct Hin as [Hin|[Heq|[]]].
    + destruct (Ce e Hin Hc) as [[pc' S1] D1].
      assert (Hne : e_id e <> i).
      { intro Heq. rewrite Heq, gen_emit, gen_set_gen_same in S1. discriminate. }
      rewrite gen_emit, gen_set_gen_other in S1 by exact Hne.
      split; [now exists pc'|]. rewrite gen_set_gen_other by exact Hne. exact D1.
    + subst e. cbn [e_id ev_at]. split; [now exists pc|apply gen_set_gen_same].
Qed.

Lemma cl_all : forall f,
  (forall s i, CL s (gen_close tk f s i)) /\
  (forall s sid, CL s (close_own tk f s sid)) /\
  (forall s ds, CL s (close_list tk f s ds)).
Proof.
  induction f as [|f (Icl & Ico & Ili)].
  - repeat split; intros; cbn; apply cl_same; reflexivity.
  - repeat split; intros.
    + rewrite gen_close_S. destruct (get_gen s i) eqn:G; try apply cl_refl.
      destruct (get (defs s) i) as [[k sc|t0 al kids]|]; [| |apply cl_refl].
      * apply (cl_nest s i pc (emit (set_gen s i (GRun pc)) Cease i) G). apply cl_refl.
      * cbv zeta. apply (cl_nest s i pc _ G). apply Ico.
    + rewrite close_own_S. cbv zeta. eapply cl_trans; [|apply Ili]. apply cl_same; reflexivity.
    + rewrite close_list_S. destruct ds as [|[|i re] r]; [apply cl_refl|apply Ili|].
      eapply cl_trans; [apply Icl|apply Ili].
Qed.

(* the shape of one forced close *)
Lemma gen_close_shape f s i pc :
  get_gen s i = GSusp pc -> get (defs s) i <> None ->
  exists inner, trace (gen_close tk (S f) s i) = ev_at s Exit i :: inner ++ ev_at s Cease i :: trace s /\
    get_gen (gen_close tk (S f) s i) i = GDone /\
    (forall e, In e inner -> is_cease e = true ->
       e_id e <> i /\ is_susp s (e_id e) /\ get_gen (gen_close tk (S f) s i) (e_id e) = GDone) /\
    (forall t0 al kids, get (defs s) i = Some (FNest t0 al kids) ->
       trace (close_own tk f (emit (set_gen s i (GRun pc)) Cease i) i) = inner ++ ev_at s Cease i :: trace s).
Proof.
  intros G D. rewrite gen_close_S, G.
  destruct (get (defs s) i) as [[k sc|t0 al kids]|] eqn:Dd; [| |congruence].
  - exists []. split; [reflexivity|]. split; [apply gen_set_gen_same|]. split; [intros e []|discriminate].
  - cbv zeta. destruct (cl_all f) as (_ & Ico & _).
    destruct (Ico (emit (set_gen s i (GRun pc)) Cease i) i) as (seg & Tr & Gn & Ce).
    exists seg. split; [|split; [|split]].
    + cbn [trace set_gen emit]. rewrite Tr. unfold ev_at.
      assert (Ty : tyme (close_own tk f (emit (set_gen s i (GRun pc)) Cease i) i) = tyme s).
      { destruct (frame_all tk f) as (_ & _ & _ & _ & Fco & _).
        apply (steps_tyme (emit (set_gen s i (GRun pc)) Cease i)). apply Fco, st_refl. }
      rewrite Ty. reflexivity.
    + apply gen_set_gen_same.
    + intros e Hin Hc. destruct (Ce e Hin Hc) as [[pc' S1] D1].
      assert (Hne : e_id e <> i).
      { intro Heq. rewrite Heq, gen_emit, gen_set_gen_same in S1. discriminate. }
      rewrite gen_emit, gen_set_gen_other in S1 by exact Hne.
      split; [exact Hne|]. split; [now exists pc'|]. rewrite gen_set_gen_other by exact Hne. exact D1.
    + intros _ _ _ _. exact Tr.
Qed.

(* ---------- B1: close_list closes in list order ---------- *)

Lemma oof_back_list f s ds : oof (close_list tk f s ds) = false -> oof s = false.
Proof.
  intro O. destruct (oof s) eqn:Os; [|reflexivity]. rewrite <- O. symmetry.
  destruct (frame_all tk f) as (_ & _ & _ & _ & _ & Fli & _).
  eapply steps_oof; [apply Fli, st_refl|exact Os].
Qed.

Lemma close_list_order : forall f s (ds : list (deed T)) X,
  Hold s (dids ds ++ X) -> Hold2 s (dids ds ++ X) -> oof (close_list tk f s ds) = false ->
  exists seg, trace (close_list tk f s ds) = seg ++ trace s /\ tops (dids ds) seg = dids ds.
Proof.
  induction f as [|f IH]; intros s ds X Hh Hh2 O; [cbn in O; discriminate|].
  rewrite close_list_S in *. destruct ds as [|[|i re] r].
  - exists []. split; reflexivity.
  - exact (IH s r X Hh Hh2 O).
  - set (s1 := gen_close tk f s i) in *.
    assert (O1 : oof s1 = false) by (eapply oof_back_list; exact O).
    assert (Hh1 : Hold s1 (dids r ++ X)).
    { destruct (hold_all tk f) as (_ & _ & _ & Icl & _).
      destruct (Icl s (dids r ++ X) i (or_intror Hh)) as [Ob|Hx]; [unfold s1 in O1; congruence|exact Hx]. }
    assert (Hh21 : Hold2 s1 (dids r ++ X)).
    { destruct (hold2_all tk f) as (_ & _ & _ & Icl & _).
      destruct (Icl s (dids r ++ X) i (or_intror Hh2)) as [Ob|Hx]; [unfold s1 in O1; congruence|exact Hx]. }
    destruct (IH s1 r X Hh1 Hh21 O) as (segr & Trr & Topr).
    destruct (susp_of_head s i _ Hh2) as [pc G].
    assert (Dd : get (defs s) i <> None) by (apply (h_def _ _ _ _ Hh); rewrite G; reflexivity).
    destruct f as [|f']; [cbn in O1; discriminate|].
    destruct (gen_close_shape f' s i pc G Dd) as (inner & Tri & Gi & Inn & _). fold s1 in Tri, Gi, Inn.
    exists (segr ++ ev_at s Exit i :: inner ++ [ev_at s Cease i]). split.
    + rewrite Trr, Tri. rewrite <- !app_assoc. cbn [app]. rewrite <- app_assoc. reflexivity.
    + destruct (cl_all (S f')) as (_ & _ & Ili). destruct (Ili s1 r) as (segr' & Trr' & _ & Cer).
      assert (segr' = segr) by (rewrite Trr in Trr'; now apply app_inv_tail in Trr'). subst segr'.
      unfold tops. rewrite rev_app_distr. cbn [rev]. rewrite rev_app_distr. cbn [rev app].
      rewrite <- !app_assoc. cbn [app filter].
      assert (Ci : is_cease (ev_at s Cease i) && memN (e_id (ev_at s Cease i)) (dids (DDeed i re :: r)) = true).
      { cbn. now rewrite N.eqb_refl. }
      rewrite Ci. cbn [map]. rewrite !filter_app, !map_app.
      rewrite (filter_none _ (rev inner)); [cbn [map app]|].
      * cbn [filter]. cbn [is_cease ev_at e_kind andb map app e_id].
        change (dids (DDeed i re :: r)) with (i :: dids r). f_equal.
        transitivity (map e_id (filter (fun e => is_cease e && memN (e_id e) (dids r)) (rev segr))); [|exact Topr].
        f_equal. apply filter_ext_in.
        intros e Hin. apply in_rev in Hin. destruct (is_cease e) eqn:Hc; [cbn [andb]|reflexivity].
        destruct (Cer e Hin Hc) as [[pc' S1] _].
        cbn [memN existsb].
        destruct (N.eqb (e_id e) i) eqn:Ei; [|reflexivity].
        apply N.eqb_eq in Ei. rewrite Ei, Gi in S1. discriminate.
      * intros e Hin. apply in_rev in Hin. destruct (is_cease e) eqn:Hc; [cbn [andb]|reflexivity].
        destruct (Inn e Hin Hc) as (Hne & _ & Dn).
        destruct (memN (e_id e) (dids (DDeed i re :: r))) eqn:M; [|reflexivity]. exfalso.
        apply memN_in in M. cbn [dids flat_map app] in M. destruct M as [M|M]; [congruence|].
        destruct (h2_susp _ _ _ Hh21 (e_id e)) as [pc' S1]; [left; apply in_or_app; now left|]. congruence.
Qed.

(* ---------- exit(): reverse of the un-rotated deque ---------- *)

Lemma close_own_order f s sid X :
  Hold s X -> Hold2 s X -> oof (close_own tk f s sid) = false ->
  exists seg, trace (close_own tk f s sid) = seg ++ trace s /\
              tops (dids (rev (unrotate (dq s sid)))) seg = dids (rev (unrotate (dq s sid))).
Proof.
  intros Hh Hh2 O. destruct f as [|f]; [cbn in O; discriminate|].
  rewrite close_own_S in *. cbv zeta in *.
  exact (close_list_order f (set_deeds s sid []) (rev (unrotate (dq s sid))) X
           (hold_clear s sid X Hh) (hold2_clear s sid X Hh2) O).
Qed.

(* ---------- a DoDoer: own Cease, children (reverse deque order), own Exit ---------- *)

Lemma gen_close_nest f s i pc t0 al kids X :
  Hold s (i :: X) -> Hold2 s (i :: X) ->
  get_gen s i = GSusp pc -> get (defs s) i = Some (FNest t0 al kids) ->
  oof (gen_close tk (S f) s i) = false ->
  exists seg, trace (gen_close tk (S f) s i) = ev_at s Exit i :: seg ++ ev_at s Cease i :: trace s /\
              tops (dids (rev (unrotate (dq s i)))) seg = dids (rev (unrotate (dq s i))).
Proof.
  intros Hh Hh2 G D O.
  assert (Dd : get (defs s) i <> None) by congruence.
  destruct (gen_close_shape f s i pc G Dd) as (inner & Tri & _ & _ & Sh).
  specialize (Sh _ _ _ D). exists inner. split; [exact Tri|].
  set (s0 := emit (set_gen s i (GRun pc)) Cease i) in *.
  assert (O0 : oof (close_own tk f s0 i) = false).
  { rewrite gen_close_S, G, D in O. exact O. }
  assert (H0 : Hold s0 X) by (apply hold_emit; eapply g_resume; eassumption).
  assert (H20 : Hold2 s0 X) by (apply hold2_emit; now apply g2_resume).
  destruct (close_own_order f s0 i X H0 H20 O0) as (seg & Tr & Top).
  assert (seg = inner).
  { rewrite Sh in Tr. change (trace s0) with (ev_at s Cease i :: trace s) in Tr. now apply app_inv_tail in Tr. }
  subst seg. exact Top.
Qed.

End Order.
