(* C26 — Base64 integer and code conversions are exact inverses.
   Statements only; proofs in Proofs/B64Proofs.v.  Model: Model/B64.v. *)
From Hio Require Import Base.Prelude Model.B64 Proofs.B64Proofs.
Local Open Scope N_scope.

(* FULL STATEMENT (what the property says): forall i l, b64ToInt (intToB64 i l) = Ok i.
   It is false of the code for l = 0 (finding D29, see C26_int_roundtrip_refuted):
   proved here for every integer and every minimum length >= 1. *)
Theorem C26_int_roundtrip_partial : forall (i : N) (l : nat),
  (0 < l)%nat -> b64ToInt (intToB64 i l) = Ok i.
Proof. exact int_roundtrip. Qed.
Print Assumptions C26_int_roundtrip_partial.

Theorem C26_int_roundtrip_refuted : exists (i : N) (l : nat), b64ToInt (intToB64 i l) <> Ok i.
Proof. exists 5, 0%nat. vm_compute. discriminate. Qed.
Print Assumptions C26_int_roundtrip_refuted.

(* the result has exactly max(l, number of base-64 digits of i) characters,
   and the number of digits is minimal *)
Theorem C26_int_length : forall (i : N) (l : nat), (0 < l)%nat ->
  let nd := length (digs (fuel_for i) i) in
  length (intToB64 i l) = Nat.max l nd /\ (1 <= nd)%nat /\
  i < 64 ^ N.of_nat nd /\ ((1 < nd)%nat -> 64 ^ N.of_nat (nd - 1) <= i).
Proof.
  intros i l Hl nd. destruct (fuel_ok i) as [F1 F2].
  destruct (digs_spec _ _ F1 F2) as (V & W & Ne & L).
  split; [now apply int_length|]. split.
  - subst nd. destruct (digs (fuel_for i) i); [contradiction|cbn; lia].
  - split; [|now apply digs_minimal].
    subst nd. rewrite <- V at 1. now apply val_lsb_bound.
Qed.
Print Assumptions C26_int_length.

(* every non-empty Base64 string converts to an integer and back (with its length) to itself *)
Theorem C26_text_roundtrip : forall s, s <> [] -> b64str s ->
  bind (b64ToInt s) (fun i => Ok (intToB64 i (length s))) = Ok s.
Proof. exact text_roundtrip. Qed.
Print Assumptions C26_text_roundtrip.

(* code string -> binary -> code string, for every non-empty Base64 string *)
Theorem C26_code_roundtrip : forall s, s <> [] -> b64str s ->
  bind (codeB64ToB2 s) (fun b => codeB2ToB64 b (length s)) = Ok s.
Proof. exact code_roundtrip. Qed.
Print Assumptions C26_code_roundtrip.

(* nabSextets: output has ceil(3l/4) bytes and, as an integer, has exactly
   the bits of the input prefix except the low 2*(l mod 4) pad bits, which are 0 *)
Theorem C26_nab_leading_bits : forall b l, Forall byte b -> (nbytes l <= length b)%nat ->
  exists out, nabSextets b l = Ok out /\ length out = nbytes l /\ Forall byte out /\
    forall k, N.testbit (from_bytes out) k =
              N.testbit (from_bytes (firstn (nbytes l) b)) k && (padbits l <=? k).
Proof. exact nab_spec. Qed.
Print Assumptions C26_nab_leading_bits.

(* non-vacuity *)
Example C26_example :
  intToB64 4095 3 = [65; 95; 95] /\ b64ToInt [65; 95; 95] = Ok 4095 /\
  codeB64ToB2 [97; 98; 99] = Ok [105; 183; 0] /\ codeB2ToB64 [105; 183; 0] 3 = Ok [97; 98; 99] /\
  nabSextets [255; 255; 255] 2 = Ok [255; 240] /\ b64str [97; 98; 99].
Proof. vm_compute. repeat split; repeat constructor; eexists; reflexivity. Qed.
