(* C14 — requests built by the HTTP client are recovered exactly by the
   server's request parser and WSGI environ.  Statements only; proofs are in
   Proofs/HttpReq*.v.  The model (Model/HttpReq.v) is of the tree after the two
   D20 fix commits (query keys and form fields are quoted).

   Main statement (C14_roundtrip, proved for ALL requests):
     wf_request r = true -> wf_endpoint host port = true -> roundtrip o host port r = true
   i.e. parse_request (build r) succeeds and yields the method, the path, the
   query arguments (through parse_qsl of QUERY_STRING), every header value
   (names case-insensitively, also as HTTP_* environ keys) and the body bytes
   (form fields through parse_qsl of the body) of r - for every outcome of
   the external url checks.  wf_request is a boolean predicate: one of the 9
   methods; an absolute path of Unicode scalar values without '?', '#', TAB,
   CR, LF and not starting with '//'; query / form dicts of scalar-value
   strings; token header names that are distinct case-insensitively, latin-1
   values without CR/LF, no Transfer-Encoding, an explicit Content-Length
   equal to the body length; and hio's parser limits (request line and header
   lines of at most 65536 bytes, at most 100 header fields, body length below
   10^40).  C14_history lifts it to every build of every history of rebuilds
   on one Requester. *)
From Hio Require Import Base.Prelude Model.HttpReqUrl Model.HttpTotal Model.HttpReq Proofs.HttpReqProofs
     Proofs.HttpReqCodec Proofs.HttpReqQuery Proofs.HttpReqHeaders Proofs.HttpReqTarget Proofs.HttpReqRoundtrip
     Proofs.HttpTotalFrag.
From Coq Require Import String.
Local Open Scope N_scope.

Theorem C14_roundtrip : forall o host port r,
  wf_request r = true -> wf_endpoint host port = true -> roundtrip o host port r = true.
Proof. exact roundtrip_general. Qed.
Print Assumptions C14_roundtrip.

(* a non-trivial request in the domain: non-ASCII and non-BMP path, reserved characters in keys
   and values, mixed-case header names, a form body, explicit Content-Length *)
Example C14_wf_example :
  let r := {| q_method := str "POST"; q_path := str "/a b/" ++ [233; 8364; 128512] ++ str "/100%/%41;=:@";
              q_qargs := [(str "k&1", str "v=2&x"); (str "sp ace", [233]); ([], str "+%"); (str "#?/", [])];
              q_headers := [(str "x-UPPER", str "A: b"); (str "X-Thing", str " lead "); (str "cookie", []);
                            (str "content-LENGTH", str "15")];
              q_body := Form [(str "a&b", str "c=d&e")] |} in
  wf_request r = true /\ wf_endpoint ghost 8080 = true.
Proof. vm_compute. split; reflexivity. Qed.

(* the same for a Requester that builds several requests in a row: every build of every history
   whose request is well formed is recovered *)
Theorem C14_history : forall o host port ops st, wf_endpoint host port = true ->
  Forall (fun rw => wf_request (fst rw) = true ->
                    exists p, parse_request o (snd rw) = Ok p /\ recovered (fst rw) p = true)
         (history host port st ops).
Proof.
  intros o host port ops st Hep. eapply Forall_impl; [|apply history_roundtrip].
  intros rw H Hwf. apply H. now apply roundtrip_general.
Qed.
Print Assumptions C14_history.

(* several requests on ONE server connection (one Requestant, pipelined or one after the
   other): parsing the concatenation of the built requests gives, request by request, exactly
   what parsing each alone gives - no header, length or body of request k reaches request k+1 -
   and each is the request that was built; [x] is whatever follows on the connection *)
Theorem C14_connection : forall o host port rs x, wf_endpoint host port = true ->
  forallb wf_request rs = true ->
  parse_many o (List.length rs) (flat_map (build host port) rs ++ x)
  = map (fun r => parse_request o (build host port r)) rs
  /\ Forall (fun r => parse_request o (build host port r) = Ok (parsed_of host port r)
                      /\ recovered r (parsed_of host port r) = true) rs.
Proof. exact parse_many_builds. Qed.
Print Assumptions C14_connection.

(* the WSGI environ (REQUEST_METHOD, PATH_INFO, QUERY_STRING, CONTENT_TYPE, CONTENT_LENGTH,
   wsgi.input, the HTTP_* set) the application gets for the k-th request of a keep-alive
   connection is build_environ of the k-th request alone: it does not depend on the
   connection's history *)
Theorem C14_environ_independent : forall o host port rs x, wf_endpoint host port = true ->
  forallb wf_request rs = true ->
  serve_many o (List.length rs) (flat_map (build host port) rs ++ x)
  = map (fun r => Ok (build_environ (parsed_of host port r))) rs.
Proof. exact serve_many_builds. Qed.
Print Assumptions C14_environ_independent.

(* fragmentation independence of the incremental request parser (Model/HttpTotal.v: one
   Requestant.parse() per receive, explicit generator state between receives): feeding the
   receives one by one gives the outcome of one parse of their concatenation, wherever the
   bytes are cut - in the request line, after a header line, between CR and LF, in the body *)
Theorem C14_fragmentation : forall o chunks s buf,
  match feed o s buf chunks with
  | PNeed s' b' => req_parse o s (buf ++ List.concat chunks) = PNeed s' b'
  | PDone ri body rest => exists rest', req_parse o s (buf ++ List.concat chunks) = PDone ri body rest'
  | PFail k => req_parse o s (buf ++ List.concat chunks) = PFail k
  | POut => False
  end.
Proof. exact feed_concat. Qed.
Print Assumptions C14_fragmentation.

(* the layers of the proof that are of independent interest *)
Theorem C14_utf8_roundtrip : forall s, text_ok s = true -> utf8_dec (utf8_enc s) = s.
Proof. exact utf8_dec_enc. Qed.
Print Assumptions C14_utf8_roundtrip.

Theorem C14_unquote_quote : forall s, text_ok s = true ->
  unquote (quote_path s) = s /\ unquote_plus (quote_plus [] s) = s.
Proof.
  intros s H. split; [apply unquote_quote; [split; reflexivity|exact H]|now apply unquote_plus_quote_plus].
Qed.
Print Assumptions C14_unquote_quote.

Theorem C14_query_roundtrip : forall l,
  forallb (fun kv => text_ok (fst kv) && text_ok (snd kv)) l = true -> parse_qsl (enc_pairs l) = l.
Proof. exact parse_qsl_enc_pairs. Qed.
Print Assumptions C14_query_roundtrip.

Theorem C14_headers_roundtrip : forall hl h fuel body,
  forallb field_ok hl = true -> distinct_keys (h ++ hl) = true ->
  (List.length h + List.length hl <= 100)%nat -> (List.length hl < fuel)%nat ->
  leader_all fuel h (flat_map hline hl ++ CRLFb ++ body) = Ok (h ++ titled hl, body).
Proof. exact leader_all_fields. Qed.
Print Assumptions C14_headers_roundtrip.

(* regression: the finite grid of the first version (2700 requests) *)
Theorem C14_roundtrip_grid : forall r, In r grid ->
  wf_request r = true /\ roundtrip o0 ghost 8080 r = true.
Proof. exact grid_roundtrip. Qed.
Print Assumptions C14_roundtrip_grid.

(* quote / quote_plus followed by unquote_to_bytes is the identity on every
   byte string, for every safe set that does not contain '%' *)
Theorem C14_percent_roundtrip : forall safe, mem_n 37 safe = false ->
  forall bs, Forall (fun b => b < 256) bs ->
  unquote_bytes (flat_map (quote_byte safe) bs) = bs.
Proof. exact unquote_quote_bytes. Qed.
Print Assumptions C14_percent_roundtrip.

(* ---- a Requester that builds several requests in a row (rebuild with some or no
   arguments; the other attributes are carried over) ---- *)

(* For all states, all rebuild-argument sequences: every build of the history
   sends exactly build(request it was asked to send) ... *)
Theorem C14_history_wire : forall host port ops st,
  Forall (fun rw => snd rw = build host port (fst rw)) (history host port st ops).
Proof. exact history_wire. Qed.
Print Assumptions C14_history_wire.

(* ... where that request is: the given fields, and for the fields not given
   those of the previous request *as they were given* (the path unquoted, the
   same query dict; headers as the previous build left them; body / data /
   fargs never carry over). *)
Theorem C14_carry_over : forall host port st a,
  let r := effective (request_of st) in
  let r' := request_of (reinit (snd (build_step host port st)) a) in
  q_method r' = match a_method a with Some m => m | None => q_method r end /\
  q_path r' = match a_path a with Some p => p | None => q_path r end /\
  q_qargs r' = match a_qargs a with Some q => q | None => q_qargs r end /\
  q_headers r' = match a_headers a with Some h => h | None => final_headers r end /\
  q_body r' = match a_data a, a_fargs a with
              | Some e, _ => Json e
              | None, Some f => Form f
              | None, None => Raw (match a_body a with Some b => b | None => [] end)
              end.
Proof. exact next_request. Qed.
Print Assumptions C14_carry_over.

(* a bare Client.transmit() (constructor request, backendRequest, the resend after an event
   stream reconnect) sends the held request again: body / data / form fields included *)
Theorem C14_resend : forall host port st,
  let r := effective (request_of st) in
  let r' := request_of (apply_args (snd (build_step host port st)) bare_args) in
  q_method r' = q_method r /\ q_path r' = q_path r /\ q_qargs r' = q_qargs r /\
  q_body r' = q_body r /\ q_headers r' = final_headers r.
Proof. exact resend_request. Qed.
Print Assumptions C14_resend.

(* a url given as path= may carry a query and a fragment: what is sent is the *effective*
   request (bare path; the query's arguments merged into the query dict); the fragment is not
   part of it, so it never reaches the wire; a url without '?' and '#' is taken as it is *)
Theorem C14_url_path : forall o host port ops st, wf_endpoint host port = true ->
  Forall (fun rw => snd rw = build host port (fst rw) /\
                    (wf_request (fst rw) = true ->
                     exists p, parse_request o (snd rw) = Ok p /\ recovered (fst rw) p = true))
         (history host port st ops)
  /\ (forall r, mem_n 35 (q_path r) = false -> mem_n 63 (q_path r) = false -> effective r = r).
Proof.
  intros o host port ops st Hep. split; [|exact effective_plain].
  pose proof (history_wire host port ops st) as Hw. pose proof (history_roundtrip o host port ops st) as Hr.
  rewrite Forall_forall in *. intros rw Hin. split; [now apply Hw|].
  intros Hwf. apply (Hr rw Hin). now apply roundtrip_general.
Qed.
Print Assumptions C14_url_path.

Example C14_url_example :
  let st := state_of {| q_method := str "PUT"; q_path := str "/doc/7?rev=2&a+b=c%20d#section two " ++ [252];
                        q_qargs := [(str "rev", str "1"); (str "k", str "v")]; q_headers := []; q_body := Raw (str "x") |} in
  map (fun rw => (q_path (fst rw), q_qargs (fst rw), firstn 41 (snd rw))) (history ghost 8080 st [no_args]) =
  [ (str "/doc/7", [(str "rev", str "2"); (str "k", str "v"); (str "a b", str "c d")], str "PUT /doc/7?rev=2&k=v&a+b=c+d HTTP/1.1" ++ [13; 10; 72; 111]);
    (str "/doc/7", [(str "rev", str "2"); (str "k", str "v"); (str "a b", str "c d")], str "PUT /doc/7?rev=2&k=v&a+b=c+d HTTP/1.1" ++ [13; 10; 72; 111]) ].
Proof. vm_compute. reflexivity. Qed.

(* Hence the single-request round trip lifts to every build of every history. *)
Theorem C14_history_lift : forall o host port ops st,
  Forall (fun rw => roundtrip o host port (fst rw) = true ->
                    exists p, parse_request o (snd rw) = Ok p /\ recovered (fst rw) p = true)
         (history host port st ops).
Proof. exact history_roundtrip. Qed.
Print Assumptions C14_history_lift.

(* Finite domain: 36 first requests (paths with blank, non-ASCII, literal %) x
   every sequence of at most two rebuilds out of 7 (no arguments, bare resend, method+body,
   path only, qargs+data, method+headers+fargs, GET with empty qargs): every
   build is well formed and parses back to the request of THAT build. *)
Theorem C14_history_partial : forall rs, In rs h_grid -> history_ok rs = true.
Proof. exact h_grid_roundtrip. Qed.
Print Assumptions C14_history_partial.

Example C14_history_example :
  let st := state_of {| q_method := str "GET"; q_path := str "/docs/annual report.txt";
                        q_qargs := []; q_headers := []; q_body := Raw [] |} in
  map (fun rw => (q_path (fst rw), firstn 34 (snd rw))) (history ghost 8080 st [no_args; no_args]) =
  let one := (str "/docs/annual report.txt", str "GET /docs/annual%20report.txt HTTP") in [one; one; one].
Proof. vm_compute. reflexivity. Qed.

(* Non-vacuity and the D20 witnesses: keys with '&', blank and non-ASCII, form
   values with '&' and '=' come back; the wire form is the expected one. *)
Example C14_example :
  let r := {| q_method := str "POST"; q_path := str "/a b/" ++ [233];
              q_qargs := [(str "k&1", str "v=2&x"); (str "sp ace", [233])];
              q_headers := [(str "x-UPPER", str "A: b")];
              q_body := Form [(str "a&b", str "c=d&e")] |} in
  wf_request r = true /\ roundtrip o0 ghost 8080 r = true /\
  firstn 59 (build ghost 8080 r) = str "POST /a%20b/%C3%A9?k%261=v%3D2%26x&sp+ace=%C3%A9 HTTP/1.1" ++ [13; 10] /\
  body_bytes r = str "a%26b=c%3Dd%26e".
Proof. vm_compute. repeat split. Qed.
