(* Enter order, regime A (the enter phase; programs without extend() and without
   remove() in a first resumption): entering a doer touches neither the doers
   that were live before nor their deques nor the root deque, and only doers
   that were startable get an Enter ([famx_all]); every deque is filled in enter
   order ([sorta_all]). *)
From Coq Require Import Sorting.Sorted.
From Hio Require Import Base.Prelude Base.AMap Base.Time Model.Sched Proofs.SchedEqs Proofs.SchedFrame Proofs.SchedLife
  Proofs.SchedDeque Proofs.SchedDequeHold Proofs.SchedDequeFam Proofs.SchedDequeAll Proofs.SchedDequeUniq
  Proofs.SchedDequeEffects Proofs.SchedDequeEpos Proofs.SchedDequeSortB.

Section SortA.
Context {T : Type} `{Time T}.
Implicit Types s a b : st T.
Variable tk : T.

(* the class: W and no extend() anywhere *)
Definition WX (d : amap (fdef T)) : Prop := W d /\ XF d.

Lemma step0_empty d i k sc : WX d -> get d i = Some (FLeaf k sc) -> f_es (nth 0 sc default_step) = [].
Proof.
  intros [Hw [_ Hx]] D. pose proof (w_nr0 _ Hw i k sc D) as Nr. pose proof (Hx i k sc 0%nat D) as Ne.
  destruct (f_es (nth 0 sc default_step)) as [|e es]; [reflexivity|exfalso].
  inversion Nr; inversion Ne; subst. destruct e; [contradiction|discriminate].
Qed.

Record FX a s : Prop := {
  fx_gen : forall j, startable a j = false -> get_gen s j = get_gen a j;
  fx_dq : forall x, startable a x = false \/ x = 0%N -> dq s x = dq a x;
  fx_fresh : forall sid, sid <> 0%N -> startable a sid = true -> forall j, In j (qids s sid) -> startable a j = true;
  fx_defs : defs s = defs a;
  fx_ent : exists seg, trace s = seg ++ trace a /\
                       forall e, In e seg -> e_kind e = Enter -> startable a (e_id e) = true }.

Lemma fx_refl a : (forall sid, sid <> 0%N -> startable a sid = true -> dq a sid = []) -> FX a a.
Proof.
  intro La. split; try reflexivity; auto.
  - intros sid Hz St j Hj. unfold qids in Hj. rewrite (La sid Hz St) in Hj. contradiction.
  - exists []. split; [reflexivity|intros e []].
Qed.
Lemma fx_same a s s' : (forall j, get_gen s' j = get_gen s j) -> (forall x, dq s' x = dq s x) -> defs s' = defs s ->
  trace s' = trace s -> FX a s -> FX a s'.
Proof.
  intros Hg Hq Hd Ht [A B C D E]. split.
  - intros j Sj. rewrite Hg. now apply A.
  - intros x Hx. rewrite Hq. now apply B.
  - intros sid Hz St j Hj. unfold qids in Hj. rewrite Hq in Hj. eapply C; eassumption.
  - congruence.
  - destruct E as (seg & Tr & F). exists seg. split; [congruence|exact F].
Qed.
Lemma fx_done a s i d : FX a s -> FX a (set_done s i d). Proof. now apply fx_same. Qed.
Lemma fx_oof a s : FX a s -> FX a (out_of_fuel s). Proof. now apply fx_same. Qed.
Lemma fx_if a s1 s2 (c : bool) : FX a s1 -> FX a s2 -> FX a (if c then s1 else s2). Proof. destruct c; auto. Qed.
Lemma fx_emit a s k i : (k = Enter -> startable a i = true) -> FX a s -> FX a (emit s k i).
Proof.
  intros Hk [A B C D (seg & Tr & F)]. split; try assumption.
  eexists (_ :: seg). split; [cbn [trace emit]; now rewrite Tr|].
  intros e [He|Hin] Ke; [subst e; now apply Hk|now apply F].
Qed.
Lemma fx_gen_fresh a s i g : startable a i = true -> FX a s -> FX a (set_gen s i g).
Proof.
  intros St [A B C D E]. split; try assumption.
  intros j Sj. rewrite gen_set_gen_other; [now apply A|]. intro Heq. subst j. congruence.
Qed.
Lemma fx_sched a s sid c' :
  sid <> 0%N -> startable a sid = true ->
  (forall j, In j (dids (deeds c')) -> startable a j = true) ->
  FX a s -> FX a (set_sched s sid c').
Proof.
  intros Hz St Fr [A B C D E]. split; try assumption.
  - intros x Hx. rewrite dq_set_other; [now apply B|]. intro Heq. subst x. destruct Hx; congruence.
  - intros x Hzx Sx j Hj. destruct (N.eq_dec x sid) as [Heq|Hne].
    + subst x. unfold qids in Hj. rewrite dq_set_same in Hj. now apply Fr.
    + unfold qids in Hj. rewrite dq_set_other in Hj by exact Hne. eapply C; eassumption.
Qed.

Lemma fx_startable a s i : FX a s -> startable s i = true -> startable a i = true.
Proof.
  intros F St. destruct (startable a i) eqn:Sa; [reflexivity|].
  unfold startable in *. rewrite (fx_gen _ _ F i Sa) in St. congruence.
Qed.

Section Ref.
Variable a : st T.
Hypothesis Wa : WX (defs a).
Hypothesis La : forall sid, sid <> 0%N -> startable a sid = true -> dq a sid = [].

Definition famx_at (f : nat) : Prop :=
  (forall s i s' r, FX a s -> gen_start tk f s i = (s', r) -> FX a s') /\
  (forall s i k sc s' r, FX a s -> startable a i = true -> get (defs a) i = Some (FLeaf k sc) ->
                         run_step tk f s i k sc 0 = (s', r) -> FX a s') /\
  (forall s i, FX a s -> startable a i = true -> FX a (gen_close tk f s i)) /\
  (forall s sid, FX a s -> startable a sid = true -> sid <> 0%N -> FX a (close_own tk f s sid)) /\
  (forall s (ds : list (deed T)), FX a s -> (forall j, In j (dids ds) -> startable a j = true) -> FX a (close_list tk f s ds)) /\
  (forall s sid ids s' r, FX a s -> startable a sid = true -> sid <> 0%N ->
                          enter_own tk f s sid ids = (s', r) -> FX a s').

Lemma nestx_ne0 s i t0 al kids : FX a s -> get (defs s) i = Some (FNest t0 al kids) -> i <> 0%N.
Proof. intros F D Heq. subst i. rewrite (fx_defs _ _ F), (proj1 (proj2 Wa)) in D. discriminate. Qed.

Lemma famx_all : forall f, famx_at f.
Proof.
  induction f as [|f IH].
  - unfold famx_at. repeat match goal with |- _ /\ _ => split end; intros;
      try match goal with E : _ = (_, _) |- _ => cbn in E; inversion E; subst; clear E end; cbn;
      apply fx_oof; assumption.
  - destruct IH as (Ist & Irs & Icl & Ico & Ili & Ieo).
    unfold famx_at. repeat match goal with |- _ /\ _ => split end.
    + (* gen_start *)
      intros s i s' r F E. rewrite gen_start_S in E.
      destruct (startable s i) eqn:St; cbn [negb] in E; [|fin; assumption].
      pose proof (fx_startable _ _ i F St) as Sa.
      destruct (get (defs s) i) as [[k sc|t0 al kids]|] eqn:D; [| |fin; assumption].
      * eapply Irs; [| | |exact E].
        -- apply fx_emit; [intros _; exact Sa|]. now apply fx_gen_fresh.
        -- exact Sa.
        -- rewrite <- (fx_defs _ _ F). exact D.
      * pose proof (nestx_ne0 _ _ _ _ _ F D) as Hz. cbv zeta in E.
        destruct (enter_own tk f _ i _) as [s2 r0] eqn:Ee.
        assert (F2 : FX a s2).
        { eapply Ieo; [| | |exact Ee]; [|exact Sa|exact Hz]. apply fx_emit; [intros _; exact Sa|]. now apply fx_gen_fresh. }
        destruct r0; fin; try assumption; try (apply fx_gen_fresh; assumption).
        apply fx_gen_fresh; [exact Sa|]. apply fx_emit; [discriminate|]. apply Ico; [|exact Sa|exact Hz].
        apply fx_if; [assumption|apply fx_emit; [discriminate|assumption]].
    + (* run_step at pc 0: no effects *)
      intros s i k sc s' r F Sa D E. rewrite run_step_S in E. cbv zeta in E.
      rewrite (step0_empty _ i k sc Wa D) in E.
      destruct f as [|f'].
      * cbn in E. fin. now apply fx_oof.
      * rewrite run_effects_S in E. cbv beta iota zeta in E.
        destruct (f_out _); fin;
          repeat first [assumption | apply fx_done | (apply fx_emit; [discriminate|]) | apply fx_gen_fresh].
    + (* gen_close *)
      intros s i F Sa. rewrite gen_close_S.
      destruct (get_gen s i) eqn:G; try assumption.
      destruct (get (defs s) i) as [[k sc|t0 al kids]|] eqn:D; [| |assumption].
      * repeat first [assumption | (apply fx_emit; [discriminate|]) | apply fx_gen_fresh].
      * cbv zeta. pose proof (nestx_ne0 _ _ _ _ _ F D) as Hz.
        apply fx_gen_fresh; [exact Sa|]. apply fx_emit; [discriminate|]. apply Ico; [|exact Sa|exact Hz].
        repeat first [assumption | (apply fx_emit; [discriminate|]) | apply fx_gen_fresh].
    + (* close_own *)
      intros s sid F Sa Hz. rewrite close_own_S. cbv zeta. apply Ili.
      * unfold set_deeds. apply fx_sched; [exact Hz|exact Sa|intros j []|exact F].
      * intros j Hj. apply (proj1 (dids_rev_in _ _)) in Hj. apply (proj1 (dids_unrotate_in _ _)) in Hj.
        exact (fx_fresh _ _ F sid Hz Sa j Hj).
    + (* close_list *)
      intros s ds F Fr. rewrite close_list_S. destruct ds as [|[|i re] r]; [assumption| |].
      * apply Ili; [exact F|exact Fr].
      * apply Ili; [apply Icl; [exact F|apply Fr; now left]|]. intros j Hj. apply Fr. now right.
    + (* enter_own *)
      intros s sid ids s' r F Sa Hz E. rewrite enter_own_S in E.
      destruct ids as [|i rest]; [fin; assumption|]. cbv zeta in E.
      destruct (gen_start tk f _ i) as [s1 r0] eqn:Eg.
      assert (F1 : FX a s1) by (eapply Ist; [apply fx_done; exact F|exact Eg]).
      destruct r0; fin; try assumption.
      * eapply Ieo; [| | |exact E]; try assumption.
        unfold set_deeds. apply fx_sched; [exact Hz|exact Sa| |exact F1]. cbn [deeds].
        intros j Hj. rewrite dids_app in Hj. apply in_app_or in Hj. destruct Hj as [Hj|[Hj|[]]].
        -- exact (fx_fresh _ _ F1 sid Hz Sa j Hj).
        -- subst j. apply (fx_startable _ (set_done s i (Some false))); [apply fx_done; exact F|].
           eapply gen_start_yield; exact Eg.
      * eapply Ieo; [| | |exact E]; assumption.
Qed.

End Ref.

(* ---------- deques are filled in enter order ---------- *)

Definition GoodA s : Prop := (forall x, srt (epos s) (dids (dq s x))) /\ (forall x, mf (dq s x)).

Lemma gooda_noenter s s' : NEn s s' -> (forall x, dq s' x = dq s x \/ dq s' x = []) -> GoodA s -> GoodA s'.
Proof.
  intros N Hq [S M]. split; intro x.
  - destruct (Hq x) as [E|E]; rewrite E; [|constructor].
    eapply srt_ext; [|apply S]. intros y _. now apply nen_epos.
  - destruct (Hq x) as [E|E]; rewrite E; [apply M|intros []].
Qed.

Lemma gooda_same s s' : trace s' = trace s -> (forall x, dq s' x = dq s x) -> GoodA s -> GoodA s'.
Proof.
  intros Ht Hq G. apply (gooda_noenter s); [exists []; split; [exact Ht|constructor]|intro x; left; apply Hq|exact G].
Qed.
Lemma gooda_gen s i g : GoodA s -> GoodA (set_gen s i g). Proof. now apply gooda_same. Qed.
Lemma gooda_done s i d : GoodA s -> GoodA (set_done s i d). Proof. now apply gooda_same. Qed.
Lemma gooda_oof s : GoodA s -> GoodA (out_of_fuel s). Proof. now apply gooda_same. Qed.
Lemma gooda_emit s k i : k <> Enter -> GoodA s -> GoodA (emit s k i).
Proof.
  intros Hk G. apply (gooda_noenter s); [|intro x; now left|exact G]. apply nen_emit; [exact Hk|apply nen_refl].
Qed.

Lemma gooda_close f s :
  (forall i, GoodA s -> GoodA (gen_close tk f s i)) /\
  (forall sid, GoodA s -> GoodA (close_own tk f s sid)) /\
  (forall ds, GoodA s -> GoodA (close_list tk f s ds)).
Proof.
  destruct (noenter_all tk f) as (_ & _ & Ncl & Nco & Nli & _).
  destruct (shrink_all tk f) as (Scl & Sco & Sli).
  split; [|split].
  - intros i G. apply (gooda_noenter s); [apply Ncl, nen_refl|apply (Scl s s i (sh_refl s))|exact G].
  - intros sid G. apply (gooda_noenter s); [apply Nco, nen_refl|apply (Sco s s sid (sh_refl s))|exact G].
  - intros ds G. apply (gooda_noenter s); [apply Nli, nen_refl|apply (Sli s s ds (sh_refl s))|exact G].
Qed.

Lemma gooda_enter s i : (forall x, ~ In i (qids s x)) -> GoodA s -> GoodA (emit (set_gen s i (GRun 0)) Enter i).
Proof.
  intros Ni [S M]. split; [|exact M]. intro x.
  change (dq (emit (set_gen s i (GRun 0)) Enter i) x) with (dq s x).
  eapply srt_ext; [|apply S]. intros y Hy. unfold epos. cbn [trace emit set_gen epos_tr].
  unfold is_enter_of. cbn [e_kind e_id].
  destruct (N.eqb i y) eqn:E; [|reflexivity]. apply N.eqb_eq in E. subst y. exfalso. exact (Ni x Hy).
Qed.

Lemma gooda_append s sid i re :
  (forall y, In y (qids s sid) -> (epos s y < epos s i)%nat) -> GoodA s ->
  GoodA (set_deeds s sid (dq s sid ++ [DDeed i re])).
Proof.
  intros C [S M]. split; intro x.
  - destruct (N.eq_dec x sid) as [Heq|Hne].
    + subst x. rewrite dq_deeds_same, dids_app. cbn [dids flat_map app]. apply srt_snoc; [apply S|exact C].
    + rewrite dq_deeds_other by exact Hne. apply S.
  - destruct (N.eq_dec x sid) as [Heq|Hne].
    + subst x. rewrite dq_deeds_same. apply mf_app. split; [apply M|intros [Hx|[]]; discriminate].
    + rewrite dq_deeds_other by exact Hne. apply M.
Qed.

Lemma run_step0_good f s i k sc s' r :
  WX (defs s) -> get (defs s) i = Some (FLeaf k sc) -> GoodA s -> run_step tk f s i k sc 0 = (s', r) -> GoodA s'.
Proof.
  intros Wx D G E. destruct f as [|f]; [cbn in E; fin; now apply gooda_oof|].
  rewrite run_step_S in E. cbv zeta in E. rewrite (step0_empty _ i k sc Wx D) in E.
  destruct f as [|f']; [cbn in E; fin; now apply gooda_oof|].
  rewrite run_effects_S in E. cbv beta iota zeta in E.
  destruct (f_out _); fin;
    repeat first [exact G | apply gooda_gen | apply gooda_done | (apply gooda_emit; [discriminate|])].
Qed.

Lemma gen_start_yield_defs f s i s' t : gen_start tk f s i = (s', GYield t) -> get (defs s) i <> None.
Proof.
  destruct f as [|f]; [cbn; discriminate|]. rewrite gen_start_S.
  destruct (startable s i); cbn [negb]; [|discriminate].
  destruct (get (defs s) i); [discriminate|discriminate].
Qed.

Lemma wx_defs s s' : defs s' = defs s -> WX (defs s) -> WX (defs s').
Proof. intros E X. now rewrite E. Qed.

Definition sorta_at (f : nat) : Prop :=
  (forall s X i s' r, WX (defs s) -> Hold s X -> Hold2 s X -> GoodA s ->
       gen_start tk f s i = (s', r) -> oof s' = false -> GoodA s') /\
  (forall s X sid ids s' r, WX (defs s) -> Hold s X -> Hold2 s X -> own s sid -> GoodA s ->
       enter_own tk f s sid ids = (s', r) -> oof s' = false -> GoodA s').

Lemma sorta_all : forall f, sorta_at f.
Proof.
  induction f as [|f IH].
  - split; intros; match goal with E : _ = (_, _) |- _ => cbn in E; inversion E; subst; clear E end;
      match goal with O : oof _ = false |- _ => cbn in O; discriminate end.
  - destruct IH as (Ist & Ieo).
    destruct (ob_all tk f) as (Brs & Bsd & Bcl & Bco & Bli & Bef & Brp & Brl).
    split.
    + (* gen_start *)
      intros s X i s' r Wx Hh Hh2 G E O. rewrite gen_start_S in E.
      destruct (startable s i) eqn:St; cbn [negb] in E; [|fin; exact G].
      assert (Ni : forall x, ~ In i (qids s x)).
      { intros x Hin. destruct (h2_susp _ _ _ Hh2 i) as [pc S]; [right; now exists x|].
        unfold startable in St. rewrite S in St. discriminate. }
      destruct (get (defs s) i) as [[k sc|t0 al kids]|] eqn:D; [| |fin; exact G].
      * eapply run_step0_good; [| | |exact E]; [exact Wx|exact D|now apply gooda_enter].
      * cbv zeta in E.
        set (s1 := emit (set_gen s i (GRun 0)) Enter i) in *.
        assert (G1 : GoodA s1) by now apply gooda_enter.
        assert (H1 : Hold s1 X) by (apply hold_emit, g_start; [exact Hh|rewrite D; discriminate]).
        assert (H21 : Hold2 s1 X) by (apply hold2_emit, g2_start; assumption).
        assert (W1 : own s1 i).
        { right. split; [exists 0%nat; apply gen_set_gen_same|]. unfold isnest. change (defs s1) with (defs s). now rewrite D. }
        destruct (enter_own tk f s1 i _) as [s2 r0] eqn:Ee.
        assert (O2 : oof s2 = false).
        { destruct r0; fin; try exact O. apply Bco in O. destruct kbd; exact O. }
        assert (G2 : GoodA s2) by (eapply Ieo; [| | | | |exact Ee|exact O2]; eassumption).
        destruct (gooda_close f (if match r0 with GRaise k => k | _ => true end then s2 else emit s2 Abort i)) as (_ & Gco & _).
        destruct r0; fin; try exact G2; try (apply gooda_gen; exact G2).
        apply gooda_gen. apply gooda_emit; [discriminate|]. apply Gco.
        destruct kbd; [exact G2|apply gooda_emit; [discriminate|exact G2]].
    + (* enter_own *)
      intros s X sid ids s' r Wx Hh Hh2 Wo G E O. rewrite enter_own_S in E.
      destruct ids as [|i rest]; [fin; exact G|]. cbv zeta in E.
      set (s0 := set_done s i (Some false)) in *.
      destruct (gen_start tk f s0 i) as [s1 r0] eqn:Eg.
      assert (O1 : oof s1 = false).
      { destruct (frame_all tk f) as (_ & _ & _ & _ & _ & _ & Feo & _).
        destruct r0; fin; try exact O;
          exact (oof_back_steps _ _ (Feo _ _ _ _ _ _ (st_refl _) E) O). }
      assert (G1 : GoodA s1).
      { eapply (Ist s0 X); [| | | |exact Eg|exact O1]; [exact Wx|exact Hh|exact Hh2|].
        apply gooda_done. exact G. }
      assert (Dd : defs s1 = defs s0) by (destruct (defs_all tk f) as (K & _); eapply K; exact Eg).
      assert (W1x : WX (defs s1)) by (eapply wx_defs; [exact Dd|exact Wx]).
      assert (H1 : Hold s1 (eout r0 i X)).
      { destruct (hold_all tk f) as (K & _). destruct (K s0 X i s1 r0 (or_intror Hh) Eg) as [Ob|Hx]; [congruence|exact Hx]. }
      assert (H21 : Hold2 s1 (eout r0 i X)).
      { destruct (hold2_all tk f) as (K & _). destruct (K s0 X i s1 r0 (or_intror Hh2) Eg) as [Ob|Hx]; [congruence|exact Hx]. }
      assert (Wo1 : own s1 sid).
      { apply (own_keep s0); [exact Wo|exact Dd|]. intro R. destruct (keep_all tk f sid) as (K & _). eapply K; eassumption. }
      destruct r0; fin.
      * (* the doer yielded: its deed goes to the end of the deque *)
        cbn [eout] in H1, H21.
        assert (St : startable s0 i = true) by (eapply gen_start_yield; exact Eg).
        assert (Di : get (defs s0) i <> None) by (eapply gen_start_yield_defs; exact Eg).
        assert (Fx : FX s0 s1).
        { destruct (famx_all s0 Wx f) as (K & _). eapply K; [|exact Eg].
          apply fx_refl. exact (hold_La s0 X Hh). }
        assert (Qs : dq s1 sid = dq s0 sid).
        { apply (fx_dq _ _ Fx). destruct Wo as [Hz|[[pc R] _]]; [now right|left]. unfold startable.
          change (get_gen s0 sid) with (get_gen s sid). now rewrite R. }
        destruct (en_all tk f) as (En & _).
        destruct (En s0 s0 i s1 _ (en_refl s0) Eg) as [_ Ent].
        destruct (Ent ltac:(discriminate) St Di) as (seg & e & Tr & Hin & Hk & Hi).
        destruct (fx_ent _ _ Fx) as (seg' & Tr' & Fe).
        assert (seg' = seg) by (rewrite Tr in Tr'; now apply app_inv_tail in Tr'). subst seg'.
        assert (Ei : (epos s1 i > length (trace s0))%nat).
        { unfold epos. rewrite Tr. apply epos_app_enter. exists e. split; [exact Hin|].
          unfold is_enter_of. rewrite Hk, Hi. apply N.eqb_refl. }
        eapply (Ieo _ X); [| | | | |exact E|exact O].
        -- exact W1x.
        -- apply (hold_append s1 sid [DDeed i (tyme s1)] X); [exact Wo1|exact H1].
        -- apply (hold2_append s1 sid [DDeed i (tyme s1)] X). exact H21.
        -- exact Wo1.
        -- apply gooda_append; [|exact G1]. intros y Hy. unfold qids in Hy. rewrite Qs in Hy.
           assert (Sy : startable s0 y = false).
           { destruct (h2_susp _ _ _ Hh2 y) as [pc S]; [right; now exists sid|].
             unfold startable. change (get_gen s0 y) with (get_gen s y). now rewrite S. }
           assert (Ey : epos s1 y = epos s0 y).
           { unfold epos. rewrite Tr. apply epos_app_noenter. intros x Hx. unfold is_enter_of.
             destruct (e_kind x) eqn:Kx; try reflexivity. apply N.eqb_neq. intro Heq.
             specialize (Fe x Hx Kx). rewrite Heq in Fe. congruence. }
           rewrite Ey. pose proof (epos_le (trace s0) y). unfold epos at 1. lia.
      * eapply (Ieo _ X); [| | | | |exact E|exact O]; eassumption.
      * exact G1.
      * exact G1.
Qed.

End SortA.
