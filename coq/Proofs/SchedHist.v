(* Histories of runs: a first do()/ado() followed by any number of further runs of the
   same doer objects, on the same Doist (do_again) or under new Doists (do_fresh).  The
   lifecycle invariant LInv of Proofs/SchedLife.v holds after every history. *)
From Hio Require Import Base.Prelude Base.AMap Base.Time Model.Sched Proofs.SchedEqs Proofs.SchedFrame
  Proofs.SchedLife Proofs.SchedTop Proofs.SchedAdo.

Section Hist.
Context {T : Type} `{Time T}.
Implicit Types s : st T.

(* one further run *)
Inductive rerun : Type :=
| RAgain (limit tyme' : option T)                       (* doist.do(limit=, tyme=) / ado again on the same Doist *)
| RFresh (limit : option T) (tyme0 : T) (ds : list id).  (* Doist(limit=, tyme=).do(doers=ds) with the same objects *)

Definition rerun_step (cycles fuel : nat) (tk : T) (asyn : bool) s (r : rerun) : st T :=
  match r with
  | RAgain l t => if asyn then ado_again cycles fuel tk l t s else do_again cycles fuel tk l t s
  | RFresh l t ds => do_fresh cycles fuel tk l t ds s
  end.

Definition run_hist (cycles fuel : nat) (asyn : bool) (p : prog T) (h : list rerun) : st T :=
  fold_left (rerun_step cycles fuel (p_tock p) asyn) h
            (if asyn then ado_run cycles fuel p else do_run cycles fuel p).

Lemma linv_tail tk cycles fuel s0 (ds : list id) (limit : option T) :
  LInv s0 ->
  LInv (let '(s1, r) := enter_own tk fuel s0 0%N ds in
        match r with
        | GRaise _ => emit (close_own tk fuel s1 0%N) DoRaise 0%N
        | GFuel => s1
        | _ =>
          let lim := option_map tabs limit in
          let stop := tadd (tyme s1) (match lim with Some l => l | None => tzero end) in
          cycle_loop tk cycles fuel (set_rlive s1 true) lim stop
        end).
Proof.
  intro L0.
  destruct (enter_own tk fuel s0 0%N ds) as [s1 r] eqn:E.
  assert (L1 : LInv s1).
  { destruct (linv_all tk fuel) as (_ & _ & _ & _ & _ & _ & Ieo & _). eapply Ieo; [exact L0|exact E]. }
  destruct r; try (apply linv_end; [reflexivity|assumption]); try assumption;
    cbv zeta; apply cycle_loop_linv; (eapply linv_same; [exact L1|apply same_rlive]).
Qed.

Lemma do_again_linv cycles fuel tk limit tyme' s : LInv s -> LInv (do_again cycles fuel tk limit tyme' s).
Proof.
  intro L. unfold do_again. cbv zeta. apply linv_tail.
  apply linv_done. eapply linv_same; [|apply same_rlive].
  destruct tyme' as [t|]; [eapply linv_same; [exact L|apply same_tyme]|exact L].
Qed.

Lemma do_fresh_linv cycles fuel tk limit tyme0 ds s : LInv s -> LInv (do_fresh cycles fuel tk limit tyme0 ds s).
Proof.
  intro L. unfold do_fresh. cbv zeta. apply linv_tail.
  apply linv_done. eapply linv_same; [|apply same_rlive].
  eapply linv_same; [|apply same_sched]. eapply linv_same; [exact L|apply same_tyme].
Qed.

Lemma rerun_step_linv cycles fuel tk asyn s r : LInv s -> LInv (rerun_step cycles fuel tk asyn s r).
Proof.
  intro L. destruct r as [l t|l t ds]; cbn [rerun_step].
  - destruct asyn; [rewrite ado_again_eq|]; now apply do_again_linv.
  - now apply do_fresh_linv.
Qed.

Theorem run_hist_linv cycles fuel asyn (p : prog T) (h : list rerun) : LInv (run_hist cycles fuel asyn p h).
Proof.
  unfold run_hist.
  assert (L0 : LInv (if asyn then ado_run cycles fuel p else do_run cycles fuel p)).
  { destruct asyn; [rewrite ado_run_eq|]; apply do_run_linv. }
  revert L0. generalize (if asyn then ado_run cycles fuel p else do_run cycles fuel p) as s.
  induction h as [|r h IH]; intros s L; cbn [fold_left]; [exact L|].
  apply IH. now apply rerun_step_linv.
Qed.

(* ---------- the manual API ---------- *)

Lemma manual_recurs_linv n : forall fuel tk s, LInv s -> LInv (fst (manual_recurs n fuel tk s)).
Proof.
  induction n as [|n IH]; intros fuel tk s L; cbn [manual_recurs]; [exact L|].
  destruct (recur_pass tk fuel s 0%N) as [s1 r] eqn:E.
  assert (L1 : LInv s1).
  { destruct (linv_all tk fuel) as (_ & _ & _ & _ & _ & _ & _ & _ & _ & Irp & _). eapply Irp; eassumption. }
  destruct r; try exact L1; apply IH; (eapply linv_same; [exact L1|apply same_tyme]).
Qed.

Theorem manual_run_linv n fuel (p : prog T) : LInv (manual_run n fuel p).
Proof.
  unfold manual_run.
  destruct (enter_own (p_tock p) fuel (set_done (init_st p) 0%N None) 0%N (p_doers p)) as [s1 r] eqn:E.
  assert (L1 : LInv s1).
  { destruct (linv_all (p_tock p) fuel) as (_ & _ & _ & _ & _ & _ & Ieo & _).
    eapply Ieo; [apply linv_done, linv_init|exact E]. }
  assert (K : forall s, LInv s ->
    LInv (let '(s2, bad) := manual_recurs n fuel (p_tock p) s in
          if oof s2 then s2 else emit (close_own (p_tock p) fuel s2 0%N) (if bad then DoRaise else DoReturn) 0%N)).
  { intros s L. pose proof (manual_recurs_linv n fuel (p_tock p) s L) as L2.
    destruct (manual_recurs n fuel (p_tock p) s) as [s2 bad]. cbn [fst] in L2.
    destruct (oof s2); [exact L2|]. apply linv_end; [destruct bad; reflexivity|exact L2]. }
  destruct r; try (apply linv_end; [reflexivity|assumption]); try assumption;
    apply K; (eapply linv_same; [exact L1|apply same_rlive]).
Qed.

Theorem manual_run_lifecycles n fuel (p : prog T) (j : id) :
  life_ok (get_gen (manual_run n fuel p) j) (events j (manual_run n fuel p)).
Proof. apply okj_life_ok, manual_run_linv. Qed.

Theorem run_hist_lifecycles cycles fuel asyn (p : prog T) (h : list rerun) (j : id) :
  life_ok (get_gen (run_hist cycles fuel asyn p h) j) (events j (run_hist cycles fuel asyn p h)).
Proof. apply okj_life_ok, run_hist_linv. Qed.

End Hist.
