(* C14, general theorem, layer 7a: Content-Length digits are read back by int(). *)
From Hio Require Import Base.Prelude Model.HttpReqUrl Model.HttpTotal Model.HttpReq
     Proofs.HttpReqProofs Proofs.HttpReqCodec Proofs.HttpReqLines.
From Coq Require Import String ZifyBool.
Local Open Scope N_scope.
Ltac Zify.zify_post_hook ::= Z.to_euclidean_division_equations.

Definition dvl (x : ustr) (a : N) : N := fold_left (fun a c => a * 10 + (c - 48)) x a.

Lemma digits_val_all : forall x a k, forallb is_digit x = true ->
  digits_val x a k false = Some (dvl x a, (k + List.length x)%nat).
Proof.
  induction x as [|c x IH]; intros a k H.
  - cbn. f_equal. f_equal. lia.
  - cbn [forallb] in H. apply andb_true_iff in H. destruct H as [Hc Hx].
    cbn [digits_val]. rewrite Hc, IH by exact Hx. cbn [dvl fold_left List.length]. f_equal. f_equal. lia.
Qed.

Lemma dec_digits_spec : forall f n acc, n < 10 ^ N.of_nat (S f) ->
  exists ds, dec_digits (S f) n acc = ds ++ acc /\ ds <> [] /\ forallb is_digit ds = true /\
             (List.length ds <= S f)%nat /\ dvl ds 0 = n.
Proof.
  induction f as [|f IH]; intros n acc Hn.
  - cbn [dec_digits]. change (10 ^ N.of_nat 1) with 10 in Hn.
    destruct (n <? 10) eqn:E; [|lia].
    exists [48 + n mod 10]. repeat split; try discriminate.
    + cbn [forallb]. unfold is_digit. lia.
    + cbn [List.length]. lia.
    + unfold dvl. cbn [fold_left]. lia.
  - cbn [dec_digits]. destruct (n <? 10) eqn:E.
    + exists [48 + n mod 10]. repeat split; try discriminate.
      * cbn [forallb]. unfold is_digit. lia.
      * cbn [List.length]. lia.
      * unfold dvl. cbn [fold_left]. lia.
    + assert (Hn' : n / 10 < 10 ^ N.of_nat (S f)).
      { replace (N.of_nat (S (S f))) with (N.succ (N.of_nat (S f))) in Hn by lia.
        rewrite N.pow_succ_r' in Hn. apply N.div_lt_upper_bound; lia. }
      destruct (IH (n / 10) ((48 + n mod 10) :: acc) Hn') as [ds [E1 [Hne [Hd [Hl Hv]]]]].
      exists (ds ++ [48 + n mod 10]). repeat split.
      * change (dec_digits (S f) (n / 10) ((48 + n mod 10) :: acc) = (ds ++ [48 + n mod 10]) ++ acc).
        rewrite E1, <- app_assoc. reflexivity.
      * destruct ds; discriminate.
      * rewrite forallb_app, Hd. cbn [forallb]. unfold is_digit. lia.
      * rewrite app_length. cbn [List.length]. lia.
      * unfold dvl. rewrite fold_left_app. fold (dvl ds 0). rewrite Hv. cbn [fold_left]. lia.
Qed.

Lemma dec_str_spec n : n < 10 ^ 40 ->
  dec_str n <> [] /\ forallb is_digit (dec_str n) = true /\ (List.length (dec_str n) <= 40)%nat /\ dvl (dec_str n) 0 = n.
Proof.
  intros Hn. unfold dec_str. destruct (dec_digits_spec 39 n [] Hn) as [ds [E [Hne [Hd [Hl Hv]]]]].
  change (dec_digits 40 n []) with (dec_digits (S 39) n []). rewrite E, app_nil_r. repeat split; assumption.
Qed.

Lemma digit_cases c : is_digit c = true -> In c [48; 49; 50; 51; 52; 53; 54; 55; 56; 57].
Proof. unfold is_digit. intros H. cbn [In]. lia. Qed.

Lemma drop_while_head (p : N -> bool) c s : p c = false -> drop_while p (c :: s) = c :: s.
Proof. intros H. cbn [drop_while]. now rewrite H. Qed.

Lemma strip_digits (p : N -> bool) s : (forall c, is_digit c = true -> p c = false) ->
  forallb is_digit s = true -> strip_with p s = s.
Proof.
  intros Hp Hd. unfold strip_with. rewrite !frev_rev.
  assert (H1 : drop_while p s = s).
  { destruct s as [|c s']; [reflexivity|]. cbn [forallb] in Hd. apply andb_true_iff in Hd.
    apply drop_while_head, Hp, Hd. }
  rewrite H1.
  assert (H2 : drop_while p (rev s) = rev s).
  { destruct (rev s) as [|c r] eqn:E; [reflexivity|]. apply drop_while_head, Hp.
    rewrite forallb_forall in Hd. apply Hd. apply in_rev. rewrite E. now left. }
  rewrite H2. apply rev_involutive.
Qed.

Theorem py_int_dec_str n : n < 10 ^ 40 -> py_int (dec_str n) = Some (Z.of_N n).
Proof.
  intros Hn. destruct (dec_str_spec n Hn) as [Hne [Hd [Hl Hv]]].
  unfold py_int. rewrite strip_digits; [|intros c Hc; unfold is_digit in Hc; unfold is_aspace; lia|exact Hd].
  destruct (dec_str n) as [|c s] eqn:E; [congruence|].
  assert (Hc : is_digit c = true) by (cbn [forallb] in Hd; apply andb_true_iff in Hd; tauto).
  assert (Hlen : (List.length (c :: s) <= 40)%nat) by exact Hl.
  pose proof (digit_cases c Hc) as Hin. cbn [In] in Hin.
  repeat (destruct Hin as [<-|Hin];
    [ cbv beta iota zeta;
      match goal with |- context [is_digit ?x] => change (is_digit x) with true end; cbn [negb];
      rewrite digits_val_all by exact Hd; rewrite Hv; cbn [plus];
      destruct (Nat.ltb 4300 (List.length (_ :: s))) eqn:El; [apply Nat.ltb_lt in El; lia|reflexivity] |]).
  destruct Hin.
Qed.

Lemma content_length_dec_str n : n < 10 ^ 40 -> content_length (dec_str n) = Some n.
Proof.
  intros Hn. unfold content_length. rewrite py_int_dec_str by exact Hn.
  destruct (Z.of_N n <? 0)%Z eqn:E; [lia|]. now rewrite N2Z.id.
Qed.
