(* Lemmas about Model/HttpClient.v *)
From Hio Require Import Base.Prelude Base.ListFacts Model.HttpClient.
Local Open Scope N_scope.

Lemma run_app s evs evs' : run s (evs ++ evs') = run (run s evs) evs'.
Proof. unfold run. apply fold_left_app. Qed.
