"""C22 — Memo receivers survive arbitrary datagrams and accept only authentic memos.

Drives the real Memoer receive path (receive via .echos -> _serviceOneReceived/pick/verify -> fuse ->
rxms -> inbox).  Memoer.verify is the real method (libsodium), wrapped only to record its calls: the model
(Model/MemoRx.v) is evaluated with that table standing for `verify`."""
from harness.drivers import memo_common as mc

PROP = "C22"
COQ_REQUIRES = ["Hio.Model.MemoGram", "Hio.Model.MemoRx"]
COQ_CHECK = "MemoRx.check_case"
COQ_CASE_TYPE = "MemoRx.case"
COQ_BRANCHES = ("MemoRx.case_branches", "MemoRx.n_branches")
SHARD = 60
RULE = ("datagram sequences fed to the real Memoer (authic on and off) and serviced with serviceReceives/"
        "serviceRxGrams/serviceRxMemos/serviceAllRx/serviceAllRxOnce: grams of real rend() output (4 zero codes x "
        "b64/b2, 1-4 grams, 3 signers) delivered intact, and every single-byte mutation class (code, neck, mid, vid, "
        "body, signature; to 0xff, '!', +1, other code letters incl. ack and unknown), truncation at every part "
        "boundary, gram numbers >= count, count 0, re-signed by another signer, undecodable bodies, random bytes with "
        "plausible first sextets, empty datagrams; memos signed for a transferable ('D') vid with the key embedded in "
        "the vid or with a rotated key, received with a keep that has the embedded key, the rotated key or no entry; "
        "every value of the pad bits of signature and vid text; EXHAUSTIVE sweep (extra) of every single alteration of the "
        "signature and vid fields (thorough: all head fields) of zeroth and non-zeroth signed grams, b64 and base2; "
        "non-trivial = contains a mutated/truncated valid gram or random "
        "bytes starting with a b64/b2 'b' sextet")
MODELLED = ["libsodium crypto_sign_verify_detached as a parameter `rawverify rawkey rawsig ser`, instantiated per case with "
            "the outcomes of the real calls keyed by raw key and raw signature; the text->raw decoders of vid, qvk and "
            "signature (code, length, Base64, zero pad bits) and the choice of the key (vid code B: the vid itself; D/E: "
            "keep lookup, missing -> rejected) are modelled (MemoGram.decode_key/decode_sgn/mverify); contract used by "
            "the totality theorems: rawverify returns True or raises MemoerError",
            "bytes.decode() as a strict UTF-8 validity predicate; memo text compared as UTF-8 bytes",
            "the four rx dicts as one insertion-ordered entry list; sources as N (the harness uses str paths, (host, port) "
            "tuples and the real UDP Peer.receive over a scripted socket)",
            "Memoer.receive via the .echos queue (echoic)"]

MEMOS = ["a", "Hello World! Hello World! 0123", "The quick brown fox jumps over the lazy dog. " * 2, "héllo wörld €\U0001f600 中文", "x" * 70]


# --------------------------------------------------------------------------- building blocks

def _cfgs():
    keep, vids = mc.keep_and_vids()
    out = []
    for code in mc.ZERO_CODES:
        for curt in (False, True):
            out.append((code, curt, vids[0] if code in mc.SIGNED else None))
    return out, vids


def _grams(memo, code, curt, vid, n, extra, keepmode="full"):
    """real rend() output with about n grams: size = zeroth overhead + extra body bytes."""
    zoz = 32 + (44 + 88 if code in mc.SIGNED else 0)
    noz = 32 + (88 if code in mc.SIGNED else 0)         # rend does not scale the non-zeroth overhead when curt
    if curt:
        zoz = 3 * zoz // 4
    size = max(zoz, noz) + extra                        # keeps both body sizes positive (see the C20 finding)
    grams, _ = mc.rend(memo, code=code, curt=curt, size=size, vid=vid, mid=mc.mid_of(n), keepmode=keepmode)
    return grams


def _parts(code, curt, zeroth):
    """part boundaries (name, start, end) of a gram head; signature is the last az bytes."""
    s = (lambda k: 3 * k // 4) if curt else (lambda k: k)
    p = [("code", 0, s(4)), ("neck", s(4), s(8)), ("mid", s(8), s(32))]
    if zeroth and code in mc.SIGNED:
        p.append(("vid", s(32), s(76)))
    return p, s(88) if code in mc.SIGNED else 0


def _mutations(g, code, curt, zeroth, rng=None):
    """(label, mutated gram) list: one or a few representatives per part and kind."""
    parts, az = _parts(code, curt, zeroth)
    hz = parts[-1][2]
    out = []
    regions = parts + [("body", hz, len(g) - az)] + ([("sig", len(g) - az, len(g))] if az else [])
    for name, a, b in regions:
        if b <= a:
            continue
        poss = sorted({a, b - 1, (a + b) // 2}) if rng is None else [rng.randrange(a, b)]
        for i in poss:
            for lab, val in (("ff", 0xff), ("bang", 0x21), ("inc", (g[i] + 1) % 256), ("x80", 0x80)):
                if g[i] != val:
                    out.append((f"{name}@{i}:{lab}", g[:i] + bytes([val]) + g[i + 1:]))
    # truncations at every boundary and one short of it, and just inside the signature
    for name, a, b in regions:
        for cut in (a, b - 1):
            if 0 <= cut < len(g):
                out.append((f"trunc@{cut}", g[:cut]))
    out.append(("extended", g + b"\x00"))
    return out


B64 = "ABCDEFGHIJKLMNOPQRSTUVWXYZabcdefghijklmnopqrstuvwxyz0123456789-_"


def _pad_mutations(g, code, curt, zeroth):
    """the non-canonical encodings: every non-zero value of the pad bits of the signature text (4 bits: top bits of
    its third character / low nibble of its second base2 byte) and of the vid text (2 bits: top bits of its second
    character / low 2 bits of its first base2 byte); under a lenient decoder they denote the same raw bytes"""
    parts, az = _parts(code, curt, zeroth)
    out = []
    if az:
        a = len(g) - az
        if curt:
            i = a + 1
            out += [(f"sigpad:{k}", g[:i] + bytes([g[i] ^ k]) + g[i + 1:]) for k in range(1, 16)]
        else:
            i = a + 2
            x = B64.index(chr(g[i]))
            out += [(f"sigpad:{k}", g[:i] + B64[x ^ (k << 2)].encode() + g[i + 1:]) for k in range(1, 16)]
    vidp = [p for p in parts if p[0] == "vid"]
    if vidp:
        a = vidp[0][1]
        if curt:
            out += [(f"keypad:{k}", g[:a] + bytes([g[a] ^ k]) + g[a + 1:]) for k in range(1, 4)]
        else:
            x = B64.index(chr(g[a + 1]))
            out += [(f"keypad:{k}", g[:a + 1] + B64[x ^ (k << 4)].encode() + g[a + 2:]) for k in range(1, 4)]
    return out


def _field_sweep(g, code, curt, zeroth, fields):
    """EVERY single alteration of the named head fields / the signature: each position x each other Base64 character
    (b64 heads) or each single-bit flip (base2 heads)"""
    parts, az = _parts(code, curt, zeroth)
    regions = [p for p in parts if p[0] in fields] + ([("sig", len(g) - az, len(g))] if az and "sig" in fields else [])
    for name, a, b in regions:
        for i in range(a, b):
            if curt:
                for bit in range(8):
                    yield f"{name}@{i}^{1 << bit}", g[:i] + bytes([g[i] ^ (1 << bit)]) + g[i + 1:]
            else:
                for ch in B64:
                    if ord(ch) != g[i]:
                        yield f"{name}@{i}:{ch}", g[:i] + ch.encode() + g[i + 1:]


def _code_swaps(g, curt):
    """replace the code letter by every other code letter A..K ('K' unknown)."""
    out = []
    if curt:
        from base64 import urlsafe_b64decode
        for l in "ABCDEFGHIJKZ":
            out.append((f"code->{l}", urlsafe_b64decode("bAA" + l) + g[3:]))
    else:
        for l in "ABCDEFGHIJKZ":
            out.append((f"code->{l}", b"bAA" + l.encode() + g[4:]))
    return [x for x in out if x[1] != g]


def _renumber(g, curt, n):
    """unsigned non-zeroth gram g with its gram number replaced by n"""
    from hio.help import helping
    return (g[:3] + n.to_bytes(3, "big") + g[6:]) if curt else (g[:4] + helping.intToB64b(n, 4) + g[8:])


def _beyond(code, curt, vid, n, rng=None):
    """datagrams of a memo with count >= 3 where the last gram is present, a middle gram is missing and grams with
    numbers BEYOND the count take the free slots (len(grams) >= count although the memo is incomplete).
    Unsigned: neck of copies rewritten; signed: authentic grams of a longer memo with the same mid and signer."""
    signed = code in mc.SIGNED
    extra = 5
    text = (MEMOS[2] if not curt else MEMOS[1]) if signed else MEMOS[1]
    g = _grams(text, code, curt, vid, n, extra)
    cnt = len(g)
    assert cnt >= 3, cnt
    if signed:
        longer = _grams(text * 3, code, curt, vid, n, extra)
        assert len(longer) > cnt + 1
        stray = longer[cnt:cnt + 2 + (cnt - 3)]
    else:
        stray = [_renumber(g[1], curt, cnt + 1 + j) for j in range(cnt - 2)]
    missing = 1 if rng is None else rng.randrange(1, cnt - 1)
    keepers = [x for i, x in enumerate(g) if i != missing]
    dg = [(keepers[0], 1)] + [(x, 1) for x in stray] + [(x, 1) for x in keepers[1:]]
    if rng is not None and rng.random() < 0.5:
        head, rest = dg[:1], dg[1:]
        rng.shuffle(rest)
        dg = (head if signed else []) + rest + ([] if signed else head)
    return dg, g[missing]


def _undecodable(code, curt, vid, n):
    """a COMPLETE single-gram memo every gram of which pick accepts but whose fused body is not valid UTF-8
    (signed codes: authentically re-signed by the sender's own key)"""
    import pysodium  # noqa
    g = _grams("xy", code, curt, vid, n, 9)[0]
    parts, az = _parts(code, curt, True)
    hz = parts[-1][2]
    ser = g[:hz] + b"\xff\xfe\xfd"
    if not az:
        return ser
    keep, _ = mc.keep_and_vids()
    tx = mc.memoer_class()(code=code, curt=curt, keep=keep, vid=vid)
    return ser + bytes(tx.sign(vid, ser))


def _rehead(g, code, curt, vid, zeroth, new_code=None, neck=None, mid=None):
    """gram g with head fields replaced (code text, neck value, 24 char mid); a signed gram is authentically re-signed
    by its sender, so that pick accepts the head as it stands"""
    from base64 import urlsafe_b64decode
    from hio.help import helping
    parts, az = _parts(code, curt, zeroth)
    hz = parts[-1][2]
    body = g[hz:len(g) - az]
    c_, n_, m_ = g[parts[0][1]:parts[0][2]], g[parts[1][1]:parts[1][2]], g[parts[2][1]:parts[2][2]]
    rest = g[parts[2][2]:hz]
    if new_code is not None:
        c_ = urlsafe_b64decode(new_code) if curt else new_code.encode()
    if neck is not None:
        n_ = neck.to_bytes(3, "big") if curt else helping.intToB64b(neck, 4)
    if mid is not None:
        m_ = urlsafe_b64decode(mid) if curt else mid.encode()
    ser = c_ + n_ + m_ + rest + body
    if not az:
        return ser
    keep, _ = mc.keep_and_vids()
    tx = mc.memoer_class()(code="bAAC", curt=curt, keep=keep, vid=vid)
    return ser + bytes(tx.sign(vid, ser))


PAIR = {"bAAA": "bAAB", "bAAC": "bAAD", "bAAE": "bAAF", "bAAG": "bAAH"}


def _structured(code, curt, vid, n, rng=None):
    """structured head mutations of the grams of a valid 3+ gram memo: gram number / count replaced by boundary values
    (0, 1, count-1, count, max) under zeroth and non-zeroth codes, mid of the in-flight memo or of an unknown one; each
    mutant arrives before, between or after the valid grams.  -> list of (label, datagram list)"""
    g = _grams(MEMOS[1] if code not in mc.SIGNED or curt else MEMOS[2], code, curt, vid, n, 5)
    cnt = len(g)
    other = mc.mid_of(n + 77777)
    muts = []
    for neck in (0, 1, cnt - 1, cnt, 16777215):
        muts.append((f"nonzeroth code gn={neck}", _rehead(g[1], code, curt, vid, False, neck=neck)))
        muts.append((f"nonzeroth code gn={neck} unknown mid", _rehead(g[1], code, curt, vid, False, neck=neck, mid=other)))
        muts.append((f"zeroth code count={neck}", _rehead(g[0], code, curt, vid, True, neck=neck)))
        muts.append((f"zeroth code count={neck} unknown mid", _rehead(g[0], code, curt, vid, True, neck=neck, mid=other)))
    if code not in mc.SIGNED:
        # code swapped between zeroth and non-zeroth (same part sizes when unsigned)
        muts.append(("zeroth gram under nonzeroth code", _rehead(g[0], code, curt, vid, True, new_code=PAIR[code])))
        muts.append(("nonzeroth gram under zeroth code", _rehead(g[1], code, curt, vid, False, new_code=code)))
        muts.append(("nonzeroth gram under zeroth code count 0", _rehead(g[1], code, curt, vid, False, new_code=code, neck=0)))
    out = []
    for lab, m in (muts if rng is None else rng.sample(muts, 2)):
        places = (0, 1, cnt) if rng is None else (rng.choice([0, 0, 1, cnt]),)
        for pos in places:
            dg = [(x, 1) for x in g]
            dg.insert(pos, (m, 1))
            out.append((f"{lab} @{pos}", dg))
    return out, MEMOS[1] if code not in mc.SIGNED or curt else MEMOS[2]


def _case(authic, dgrams, svc="all", kind="valid", keep="full"):
    """dgrams: list of (bytes, src).  svc: 'all' after every datagram | 'end' | 'once' | 'split'."""
    ops = []
    for g, src in dgrams:
        ops.append(["dgram", bytes(g).hex(), src])
        if svc == "all":
            ops.append(["all"])
        elif svc == "once":
            ops.append(["once"])
        elif svc == "split":
            ops += [["recv"], ["grams"], ["memos"]]
    if svc == "end":
        ops += [["all"]]
    elif svc == "once":
        ops += [["once"]] * 2
    c = {"authic": authic, "ops": ops, "kind": kind}
    if keep != "full":
        c["keep"] = keep
    return c


# --------------------------------------------------------------------------- streams

def directed():
    cfgs, vids = _cfgs()
    out = []
    n = 0
    for code, curt, vid in cfgs:
        n += 1
        g = _grams(MEMOS[1], code, curt, vid, n, 5)          # 3 grams
        signed = code in mc.SIGNED
        out.append(_case(signed, [(x, 1) for x in g], "all"))
        out.append(_case(False, [(x, 1) for x in g], "end"))
        # D25 witnesses (all fixed): unknown code, ack code, bad neck, bad mid, gram number >= count, count 0
        for lab, m in _code_swaps(g[0], curt):
            if lab[-1] in "IJKZ":
                out.append(_case(signed, [(m, 1)], "all", "mut:" + lab))
        z = g[0]
        nk = 3 if curt else 4
        big = (b"\x00\x00\x09" if curt else b"AAAJ")
        zero = (b"\x00\x00\x00" if curt else b"AAAA")
        if not signed:
            out.append(_case(False, [(z, 1), (g[1][:nk] + big + g[1][2 * nk:], 1), (g[2], 1)], "all", "mut:gn>=count"))
            out.append(_case(False, [(g[1][:nk] + big + g[1][2 * nk:], 1), (g[1], 1), (z, 2), (g[2], 1)], "split", "mut:gn>=count first"))
            out.append(_case(False, [(z[:nk] + zero + z[2 * nk:], 1)], "all", "mut:count0"))
            hz = 24 if curt else 32
            out.append(_case(False, [(z[:hz] + b"\xff\xfe", 1)] + [(x, 1) for x in g[1:]], "all", "mut:undecodable"))
    # non-Base64 / non-UTF-8 bytes in each b64 head part and the signature (signed and unsigned)
    for code, vid in (("bAAA", None), ("bAAC", vids[0])):
        n += 1
        g = _grams(MEMOS[0] * 3, code, False, vid, n, 8)
        for lab, m in _mutations(g[0], code, False, True):
            out.append(_case(code in mc.SIGNED, [(m, 1)], "all", "mut:" + lab))
    # signed by somebody else than the claimed vid; non-zeroth before zeroth; duplicate zeroth with other vid
    n += 1
    ga = _grams(MEMOS[2], "bAAC", False, vids[0], n, 5)
    gb = _grams(MEMOS[2].upper(), "bAAC", False, vids[1], n, 5)      # same mid, other signer, other text
    out.append(_case(True, [(ga[0], 1), (gb[1], 2), (ga[1], 1), (gb[2], 2), (ga[2], 1)], "all", "mut:other signer"))
    out.append(_case(True, [(ga[1], 1), (ga[0], 1), (ga[1], 1), (ga[2], 1)], "all", "order"))
    out.append(_case(True, [(ga[0], 1), (gb[0], 2), (ga[1], 1), (ga[2], 1)], "end", "mut:second zeroth"))
    gd = _grams(MEMOS[0], "bAAC", False, vids[2], n + 1, 5)          # 'D' vid: verkey from keep
    out.append(_case(True, [(gd[0], 3)], "all"))
    # transferable ('D') signer: the vid is only a label, the verkey must come from the receiver's keep.
    # sender signs with the key embedded in the vid ("full") or with a rotated key ("rotated");
    # receiver has the embedded key, the rotated key, or no entry at all for that vid
    for curt in (False, True):
        for snd in ("full", "rotated"):
            n += 1
            gk = _grams(MEMOS[2], "bAAC", curt, vids[2], n, 5, keepmode=snd)
            for rcv in ("full", "rotated", "nokeep"):
                out.append(_case(True, [(x, 3) for x in gk], "all", f"keep:{rcv}/{snd}", keep=rcv))
                out.append(_case(False, [(x, 3) for x in gk], "end", f"keep:{rcv}/{snd}", keep=rcv))
    # non-canonical signature / vid text (non-zero pad bits): every value, zeroth and non-zeroth gram, both encodings
    for curt in (False, True):
        for si in (0, 2):
            n += 1
            gp = _grams(MEMOS[2], "bAAC", curt, vids[si], n, 5)
            for lab, m in _pad_mutations(gp[0], "bAAC", curt, True):
                out.append(_case(True, [(m, 1), (gp[1], 1)], "all", "mut:" + lab))
            for lab, m in _pad_mutations(gp[1], "bAAC", curt, False):
                out.append(_case(True, [(gp[0], 1), (m, 1)], "all", "mut:" + lab))
    # complete memos whose fused body is not valid UTF-8 (dropped by the fuse-error path), with every kind of source
    # address the transports record (str path, (host, port) tuple, and through the real UDP PeerMemoer), followed by a
    # valid memo that must still be delivered; the dropped memo must leave no state
    for code, curt, vid in cfgs:
        n += 1
        bad = _undecodable(code, curt, vid, n)
        good = _grams(MEMOS[1], code, curt, vid, n + 500, 40)
        for src in ("str", "tuple", "udp"):
            for svc in ("all", "end"):
                c = _case(code in mc.SIGNED, [(bad, 1)] + [(x, 2) for x in good], svc, "mut:undecodable complete memo")
                c.update({"src": src, "expect": [MEMOS[1].encode().hex()], "clean": True})
                c["ops"] += [["all"], ["all"]]
                out.append(c)
    # structured head mutations (boundary gram numbers / counts under zeroth and non-zeroth codes, in-flight and unknown
    # mids), before / between / after the valid grams; a later valid memo must still be delivered
    for code, curt, vid in cfgs:
        n += 1
        sm, text = _structured(code, curt, vid, n)
        later = _grams(MEMOS[0] * 5, code, curt, vid, n + 900, 40)
        for lab, dg in sm:
            c = _case(False, dg + [(x, 2) for x in later], "all" if "@0" in lab else "end", "mut:head " + lab)
            c["expect"] = [(MEMOS[0] * 5).encode().hex()]
            c["ops"] += [["all"]]
            out.append(c)
            if code in mc.SIGNED and "@1" in lab:
                out.append(dict(c, authic=True))
    # gram numbers beyond the count while a middle gram is missing and the last one is present: must stay incomplete
    # without raising on any later pass, and complete once the missing gram arrives
    for code, curt, vid in cfgs:
        n += 1
        dg, late = _beyond(code, curt, vid, n)
        for svc in ("all", "end"):
            out.append(_case(code in mc.SIGNED, dg + [(late, 1)], svc, "mut:beyond count, middle missing"))
            out.append(_case(False, dg, svc, "mut:beyond count, middle missing"))
    # unsigned gram to an authic receiver; signed gram to a non-authic receiver; empty datagram stops the loop
    gu = _grams(MEMOS[0], "bAAA", False, None, n + 2, 5)
    out.append(_case(True, [(gu[0], 1)], "all", "mut:unsigned to authic"))
    out.append(_case(False, [(ga[0], 1), (ga[1], 1), (ga[2], 1)], "once"))
    out.append(_case(False, [(b"", 1), (gu[0], 1)], "end", "empty") | {"ops": [["dgram", "", 1], ["dgram", gu[0].hex(), 1], ["all"], ["all"]]})
    out += [dict(c, own=True) for c in out[:8]] + [dict(c, own=True) for c in out if c.get("kind", "").startswith("keep:full/full")][:4]
    # random / tiny
    for b in (b"b", b"bA", b"bAA", b"bAAA", b"l", b"l\x00", b"l\x00\x00", b"\x00", b"z", b"bAAAAAAB" + b"0" * 24, b"`AAA", b"cAAA" + b"A" * 40):
        out.append(_case(False, [(b, 1)], "all", "random"))
        out.append(_case(True, [(b, 1)], "all", "random"))
    return out


def generate(rng, tier):
    cfgs, vids = _cfgs()
    n_cases = 420 if tier == "quick" else 4500
    out = []
    for i in range(n_cases):
        code, curt, vid = cfgs[rng.randrange(len(cfgs))]
        signed = code in mc.SIGNED
        if signed:
            vid = vids[rng.randrange(3)]
        memo = rng.choice(MEMOS) if rng.random() < 0.6 else "".join(
            rng.choice("abcXYZ 09é€\U0001f600") for _ in range(rng.randint(1, 40)))
        extra = rng.choice([1, 2, 5, 9, 30, 200])
        if signed and len(memo.encode()) // extra > 3:
            extra = len(memo.encode()) // 3 + 1                      # keep signed cases small
        snd = rcv = "full"
        if signed and vid == vids[2]:
            snd = rng.choice(["full", "rotated"])
            rcv = rng.choice(["full", "rotated", "nokeep"])
        g = _grams(memo, code, curt, vid, 1000 + i, extra, keepmode=snd)
        authic = signed if rng.random() < 0.8 else (not signed)
        r = rng.random()
        dg = [(x, 1) for x in g]
        kind = "valid"
        if r < 0.55:                                   # one or two mutated copies woven into the valid stream
            k = rng.randrange(len(g))
            muts = _mutations(g[k], code, curt, k == 0, rng) + (_code_swaps(g[k], curt) if rng.random() < 0.3 else [])
            if signed and rng.random() < 0.3:
                muts = _pad_mutations(g[k], code, curt, k == 0)
            picks = rng.sample(muts, min(len(muts), rng.choice([1, 1, 2])))
            kind = "mut:" + ",".join(p[0] for p in picks)
            for lab, m in picks:
                pos = rng.choice([k, k, rng.randint(0, len(dg))])      # mostly in place of / before the original
                if rng.random() < 0.5:
                    dg.insert(pos, (m, rng.choice([1, 2])))
                else:
                    dg[min(pos, len(dg) - 1)] = (m, 1)
        elif r < 0.70:                                 # pure garbage with plausible starts
            dg = []
            for _ in range(rng.randint(1, 4)):
                ln = rng.choice([0, 1, 2, 3, 4, 8, 24, 32, 33, 80, 164, 200])
                body = bytes(rng.randrange(256) for _ in range(ln))
                start = rng.choice([b"b", b"bAA", b"bAA" + rng.choice(b"ABCDEFGHIJ").to_bytes(1, "big"), bytes([rng.choice([0x6c, 0x6d, 0x6e, 0x6f])]),
                                    b"l\x00" + bytes([rng.randrange(16)]), b""])
                dg.append((start + body, rng.choice([1, 2])))
            kind = "random"
        elif r < 0.85:                                 # reorder / duplicate valid grams, second memo interleaved
            g2 = _grams(rng.choice(MEMOS[:2]), code, curt, vid, 5000 + i, extra, keepmode=snd)
            dg = [(x, 1) for x in g] + [(x, 2) for x in g2] + [(rng.choice(g), 1)]
            rng.shuffle(dg)
            kind = "order"
        svc = rng.choice(["all", "all", "end", "once", "split"])
        if rng.random() < 0.06 and (snd, rcv) == ("full", "full"):
            dg, late = _beyond(code, curt, vid, 7000 + i, rng)
            if rng.random() < 0.5:
                dg = dg + [(late, 1)]
            kind = "mut:beyond count, middle missing"
        if (snd, rcv) != ("full", "full"):
            kind = f"keep:{rcv}/{snd}," + kind
        out.append(_case(authic, dg, svc, kind, keep=rcv))
        if rng.random() < 0.4:
            out[-1]["rxvid"] = rng.randrange(3)        # the receiver has a signer id of its own
        if rng.random() < 0.08 and (snd, rcv) == ("full", "full"):
            sm, _t = _structured(code, curt, vid, 9000 + i, rng)
            lab, dg2 = sm[0]
            out[-1] = _case(authic, dg2, rng.choice(["all", "end", "once", "split"]), "mut:head " + lab)
        r2 = rng.random()
        if r2 < 0.5:
            out[-1]["src"] = "tuple" if r2 < 0.3 else "udp"
        if rng.random() < 0.05 and (snd, rcv) == ("full", "full"):
            out[-1]["ops"] = [["dgram", _undecodable(code, curt, vid, 8000 + i).hex(), 3], [rng.choice(["all", "grams", "once"])]] + out[-1]["ops"]
            out[-1]["kind"] = "mut:undecodable complete memo," + out[-1]["kind"]
        if rng.random() < 0.3:
            out[-1]["own"] = True                      # application-owned (empty) containers and keep handed to the constructor
    return out


# --------------------------------------------------------------------------- implementation / oracle

def run_impl(case):
    m = mc.new_receiver(case["authic"], case.get("keep", "full"), rxclass=("udp" if case.get("src") == "udp" else None),
                        own=case.get("own", False), **({"vid": case["rxvid"]} if "rxvid" in case else {}))
    excs = mc.run_rx_ops(m, case["ops"], "tuple" if case.get("src") == "tuple" else "str")
    obs = mc.observe_rx(m)
    obs["excs"] = excs
    return obs


def _compose(text, bodies):
    """can text be written as a concatenation of elements of bodies?"""
    ok = [True] + [False] * len(text)
    for i in range(len(text)):
        if ok[i]:
            for b in bodies:
                if b and text.startswith(b, i):
                    ok[i + len(b)] = True
    return ok[len(text)] or (text == b"" )


def oracle(case, obs):
    if obs.get("not_adopted"):
        return f"containers handed to the constructor are not the ones the Memoer uses: {obs['not_adopted']}"
    if any(obs["excs"]):
        return f"servicing the receive side raised: {obs['excs']}"
    for want in case.get("expect", []):
        if not any(d[0] == want for d in obs["inbox"] + obs["rxms"]):
            return f"memo {bytes.fromhex(want)!r} was not delivered although all its (valid) grams arrived"
    if case.get("clean") and obs["rxgs"]:
        return f"state of a dropped memo was not cleaned: {[e[0] for e in obs['rxgs']]}"
    if any(e[3] not in ("ok", "MemoErr") for e in obs["verify"]):  # noqa
        return f"Memoer.verify raised something other than MemoerError: {[e[3] for e in obs['verify'] if e[3] not in ('ok', 'MemoErr')]}"
    if case["authic"]:
        keep, _ = mc.keep_and_vids(case.get("keep", "full"))      # the receiver's keep
        for memo in obs["rxms"] + obs["inbox"]:
            text, src, vid = bytes.fromhex(memo[0]), memo[1], memo[2]
            if vid is None:
                return f"memo {text!r} delivered without a signer id although signed grams are required"
            vid = bytes.fromhex(vid).decode()
            bodies = []
            for _k, _rs, ser, r, v, sg in obs["verify"]:
                if r == "ok" and bytes.fromhex(v).decode() == vid:
                    serb, sig = bytes.fromhex(ser), bytes.fromhex(sg).decode("latin1")
                    hl = mc.head_len(serb)
                    if hl is not None and mc.sodium_ok(vid, sig, serb, keep):
                        bodies.append(serb[hl:])
            if not _compose(text, bodies):
                return (f"memo {text!r} delivered for signer {vid} is not a concatenation of bodies of received grams "
                        f"whose Ed25519 signature verifies for that signer")
    return None


def to_coq(case, obs):
    return mc.coq_rx_case(case["authic"], case["ops"], obs, obs["excs"])


def nontrivial(case, obs):
    return case.get("kind", "").startswith(("mut", "random", "keep"))


def classify(case, obs, why):
    return None


def shrink(case):
    ops = case["ops"]
    for i in range(len(ops)):
        yield dict(case, ops=ops[:i] + ops[i + 1:])


def distribution(cases, obs):
    kinds = {}
    for c in cases:
        k = c.get("kind", "valid").split(":")[0]
        kinds[k] = kinds.get(k, 0) + 1
    delivered = sum(len(o.get("inbox", [])) + len(o.get("rxms", [])) for o in obs if isinstance(o, dict))
    ver = {"ok": 0, "rejected": 0}
    for o in obs:
        if isinstance(o, dict):
            for e in o.get("verify", []):
                ver["ok" if e[3] == "ok" else "rejected"] += 1
    return {"kinds": kinds, "memos_delivered": delivered, "verify_calls": ver,
            "authic": sum(1 for c in cases if c.get("authic"))}


def extra(tier, ctx):
    """Exhaustive: every 1- and 2-byte datagram (and, thorough, every 3-byte datagram whose first byte selects the
    b64 or b2 branch) is serviced by the real receiver, authic on and off, without an exception and without any
    state."""
    import itertools
    firsts = list(range(256))
    n = 0
    for authic in (False, True):
        m = mc.new_receiver(authic)
        for a in firsts:
            cands = [bytes([a])] + [bytes([a, b]) for b in range(256)]
            if tier == "thorough" and (a >> 2) in (0o30, 0o33):
                cands += [bytes([a, b, c]) for b in range(0, 256, 5) for c in range(256)]
            for d in cands:
                n += 1
                m.echos.append((d, "src1"))
                try:
                    m.serviceAllRx()
                except Exception as ex:
                    ctx.violations.append({"why": f"datagram {d!r} raised {type(ex).__name__} (authic={authic})",
                                           "case": {"authic": authic, "ops": [["dgram", d.hex(), 1], ["all"]], "kind": "random"}})
                    m = mc.new_receiver(authic)
                    break
        if m.rxgs or m.inbox or m.rxms:
            ctx.violations.append({"why": f"tiny datagrams left state behind (authic={authic})", "case": None})
    return {"exhaustive_tiny_datagrams": n, "exhaustive_field_alterations": _sweep(tier, ctx)}


def _sweep(tier, ctx):
    """Exhaustive over the signature and vid fields of authentic signed grams: every single alteration (each position x
    each other Base64 character, resp. each bit flip for base2 heads) of a zeroth and a non-zeroth gram must be dropped
    by a receiver that requires signatures: no trace in rxgs, nothing delivered."""
    _, vids = mc.keep_and_vids()
    cfgs = [("bAAC", False, 0), ("bAAC", True, 0)]
    if tier == "thorough":
        cfgs += [("bAAC", False, 2), ("bAAC", True, 2), ("bAAG", False, 1), ("bAAG", True, 1)]
    total, bad = 0, 0
    for ci, (code, curt, si) in enumerate(cfgs):
        g = _grams(MEMOS[1], code, curt, vids[si], 9000 + ci, 20)[:2]
        assert len(g) == 2
        for gi in (0, 1):
            rx = None
            for lab, m in _field_sweep(g[gi], code, curt, gi == 0, ("vid", "sig") if tier == "quick" else ("code", "neck", "mid", "vid", "sig")):
                if rx is None:
                    rx = mc.new_receiver(True)
                    if gi == 1:
                        rx.echos.append((g[0], "src1")); rx.serviceAllRx()
                    base = {k: sorted(v) for k, v in rx.rxgs.items()}
                total += 1
                rx.echos.append((m, "src1"))
                why = None
                try:
                    rx.serviceAllRx()
                except Exception as ex:
                    why = f"raised {type(ex).__name__}"
                now = {k: sorted(v) for k, v in rx.rxgs.items()}
                if why is None and (now != base or rx.inbox or rx.rxms):
                    why = "was accepted"
                if why:
                    bad += 1
                    if bad <= 3:
                        dg = ([(g[0], 1)] if gi == 1 else []) + [(m, 1)]
                        ctx.violations.append({"why": f"altered signed gram ({code} curt={curt} gram {gi}: {lab}) {why} by a receiver "
                                                      f"that requires signatures", "case": _case(True, dg, "all", "mut:sweep " + lab)})
                    rx = None
    return total
