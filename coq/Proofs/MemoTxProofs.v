(* Proofs about Model/MemoTx.v: byte conservation in queue order, drops only on
   unreachable errors, no exception under backpressure, fuel adequacy, drain. *)
From Hio Require Import Base.Prelude Model.MemoTx.

(* every byte tagged with its destination: the order-preserving flattening *)
Definition tag (gd : bytes * dst) : list (dst * N) := map (fun b => (snd gd, b)) (fst gd).
Definition tags (l : list (bytes * dst)) : list (dst * N) := flat_map tag l.

Definition ev_bytes (e : event) : list (dst * N) :=
  match e with Sent d b | Drop d b | Lost d b => tag (b, d) end.
Definition accounted (ev : list event) : list (dst * N) := flat_map ev_bytes ev.

Definition inflight (s : state) : list (dst * N) :=
  match txbs s with (g, Some d) => tag (g, d) | (_, None) => [] end.
Definition pending_bytes (s : state) : list (dst * N) := inflight s ++ tags (txgs s).

Fixpoint queued (ops : list op) : list (bytes * dst) :=
  match ops with
  | [] => []
  | Gramit g d :: ops' => (g, d) :: queued ops'
  | _ :: ops' => queued ops'
  end.

(* the kernel results the property quantifies over: counts and the would-block
   and unreachable errnos *)
Definition expected (k : kres) : bool :=
  match k with KErr e => would_block e || unreachable e | _ => true end.
Definition is_unreach (k : kres) : bool :=
  match k with KErr e => negb (would_block e) && unreachable e | _ => false end.
Definition is_drop (e : event) : bool := match e with Drop _ _ => true | _ => false end.
Definition is_lost (e : event) : bool := match e with Lost _ _ => true | _ => false end.
Definition n_unreach (ks : list kres) : nat := length (filter is_unreach ks).
Definition n_drop (ev : list event) : nat := length (filter is_drop ev).

Lemma tag_app : forall a b d, tag (a ++ b, d) = tag (a, d) ++ tag (b, d).
Proof. intros. unfold tag. cbn. apply map_app. Qed.

Lemma tags_app : forall a b, tags (a ++ b) = tags a ++ tags b.
Proof. intros. unfold tags. apply flat_map_app. Qed.

Lemma accounted_app : forall a b, accounted (a ++ b) = accounted a ++ accounted b.
Proof. intros. unfold accounted. apply flat_map_app. Qed.

(* ---- one send attempt ---- *)
Lemma attempt_conserve : forall g d fresh old r b ev x,
  attempt g d fresh old r = (b, ev, x) ->
  (x = Exc OSErr /\ b = old /\ ev = (if fresh then [Lost d g] else []) /\
   exists e, r = SRaise e /\ unreachable e = false)
  \/ ((x = Ok true \/ x = Ok false) /\
      accounted ev ++ (match b with (g', Some d') => tag (g', d') | (_, None) => [] end) = tag (g, d) /\
      (x = Ok true <-> snd b = None) /\ (snd b = None -> fst b = []) /\
      (forall d', snd b = Some d' -> d' = d)).
Proof.
  intros g d fresh old r b ev x H.
  assert (F : forall cnt, (let k := Nat.min cnt (length g) in
            match skipn k g with
            | [] => (([], None), [Sent d (firstn k g)], Ok true)
            | _ :: _ => ((skipn k g, Some d), [Sent d (firstn k g)], Ok false)
            end) = (b, ev, x) ->
          (x = Ok true \/ x = Ok false) /\
          accounted ev ++ (match b with (g', Some d') => tag (g', d') | (_, None) => [] end) = tag (g, d) /\
          (x = Ok true <-> snd b = None) /\ (snd b = None -> fst b = []) /\
          (forall d', snd b = Some d' -> d' = d)).
  { intros cnt. cbv zeta. set (k := Nat.min cnt (length g)).
    destruct (skipn k g) eqn:E; intros HH; inversion HH; subst; clear HH; cbn [accounted flat_map ev_bytes snd fst].
    - rewrite !app_nil_r. split; [auto|]. split.
      + rewrite <- (firstn_skipn k g) at 2. rewrite E, app_nil_r. reflexivity.
      + repeat split; auto; intros; discriminate.
    - rewrite app_nil_r. split; [auto|]. split.
      + rewrite <- E, <- tag_app, firstn_skipn. reflexivity.
      + repeat split; intros; try discriminate; try congruence. }
  destruct r as [n | | e]; cbn [attempt] in H.
  - right. apply (F n). exact H.
  - right. apply (F (length g)). exact H.
  - unfold attempt in H. destruct (unreachable e) eqn:U.
    + right. inversion H; subst; clear H. cbn. rewrite !app_nil_r.
      repeat split; auto; intros; discriminate.
    + left. inversion H; subst; clear H. repeat split; auto. exists e; auto.
Qed.

(* ---- _serviceOnceTxGrams ---- *)
Lemma once_conserve : forall s ks s' ks' ev r,
  once s ks = (s', ks', ev, r) ->
  accounted ev ++ pending_bytes s' = pending_bytes s /\ opened s' = opened s.
Proof.
  intros s ks s' ks' ev r H. unfold once in H.
  destruct (txbs s) as [gb [db|]] eqn:B.
  - destruct (next ks) as [k kk]. destruct (attempt gb db false (gb, Some db) (peer_send k)) as [[b e] x] eqn:A.
    inversion H; subst; clear H. split; [|reflexivity].
    unfold pending_bytes, inflight. cbn [txbs txgs]. rewrite B.
    apply attempt_conserve in A. destruct A as [(_ & -> & -> & _) | (_ & A & _)].
    + reflexivity.
    + rewrite app_assoc. f_equal. exact A.
  - destruct (txgs s) as [|[g d] q] eqn:Q.
    + inversion H; subst. split; reflexivity.
    + destruct (next ks) as [k kk]. destruct (attempt g d true (gb, None) (peer_send k)) as [[b e] x] eqn:A.
      inversion H; subst; clear H. split; [|reflexivity].
      unfold pending_bytes, inflight. cbn [txbs txgs]. rewrite B, Q. cbn [tags flat_map app].
      apply attempt_conserve in A. destruct A as [(_ & -> & -> & _) | (_ & A & _)].
      * cbn. rewrite app_nil_r. reflexivity.
      * rewrite app_assoc. f_equal. exact A.
Qed.

Lemma service_loop_conserve : forall fuel s ks s' ks' ev x,
  service_loop fuel s ks = (s', ks', ev, x) ->
  accounted ev ++ pending_bytes s' = pending_bytes s /\ opened s' = opened s.
Proof.
  induction fuel; intros s ks s' ks' ev x H; cbn [service_loop] in H.
  - inversion H; subst. split; reflexivity.
  - destruct (opened s && pending s).
    + destruct (once s ks) as [[[s1 k1] e1] r1] eqn:O.
      apply once_conserve in O. destruct O as [O1 O2].
      destruct r1 as [[|]|k].
      * destruct (service_loop fuel s1 k1) as [[[s2 k2] e2] x2] eqn:L.
        inversion H; subst; clear H. apply IHfuel in L. destruct L as [L1 L2].
        rewrite accounted_app, <- app_assoc, L1. split; [exact O1|congruence].
      * inversion H; subst. split; assumption.
      * inversion H; subst. split; assumption.
    + inversion H; subst. split; reflexivity.
Qed.

Lemma step_conserve : forall s ks o s' ks' ev x,
  step s ks o = (s', ks', ev, x) ->
  accounted ev ++ pending_bytes s' = pending_bytes s ++ tags (queued [o]).
Proof.
  intros s ks o s' ks' ev x H. destruct o; cbn [step queued tags flat_map] in *.
  - inversion H; subst; clear H. unfold pending_bytes, inflight. cbn [txbs txgs accounted flat_map app].
    rewrite tags_app. cbn. rewrite !app_nil_r, app_assoc. reflexivity.
  - rewrite app_nil_r. unfold service in H. apply service_loop_conserve in H. tauto.
  - rewrite app_nil_r. unfold service_once in H. destruct (opened s && pending s).
    + destruct (once s ks) as [[[s1 k1] e1] r1] eqn:O. inversion H; subst. apply once_conserve in O. tauto.
    + inversion H; subst. reflexivity.
  - inversion H; subst. rewrite app_nil_r. reflexivity.
Qed.

Lemma queued_cons : forall o ops, queued (o :: ops) = queued [o] ++ queued ops.
Proof. intros. destruct o; reflexivity. Qed.

Lemma run_conserve : forall ops s ks s' ks' ev xs,
  run s ks ops = (s', ks', ev, xs) ->
  accounted ev ++ pending_bytes s' = pending_bytes s ++ tags (queued ops).
Proof.
  induction ops as [|o ops IH]; intros s ks s' ks' ev xs H; cbn [run] in H.
  - inversion H; subst. cbn. rewrite app_nil_r. reflexivity.
  - destruct (step s ks o) as [[[s1 k1] e1] x1] eqn:S.
    destruct (run s1 k1 ops) as [[[s2 k2] e2] x2] eqn:R.
    inversion H; subst; clear H.
    apply step_conserve in S. apply IH in R.
    rewrite accounted_app, <- app_assoc, R, app_assoc, S. rewrite (queued_cons o ops), tags_app, app_assoc. reflexivity.
Qed.

(* ---- drops only on unreachable, losses/exceptions only on unexpected errnos ---- *)
Definition quiet (x : option exn) : bool := match x with None => true | Some _ => false end.

Lemma peer_send_expected : forall k e, expected k = true -> peer_send k = SRaise e -> unreachable e = true.
Proof.
  intros [n| |e0] e Hx H; cbn in *; try discriminate.
  destruct (would_block e0) eqn:W; try discriminate. inversion H; subst. cbn in Hx. exact Hx.
Qed.

Lemma attempt_events : forall g d fresh old k b ev x,
  attempt g d fresh old (peer_send k) = (b, ev, x) ->
  n_drop ev = (if is_unreach k then 1 else 0) /\
  (expected k = true -> filter is_lost ev = [] /\ forall kx, x <> Exc kx).
Proof.
  intros g d fresh old k b ev x H.
  destruct k as [n| |e]; cbn [peer_send] in H.
  - unfold attempt in H. destruct (skipn (Nat.min n (length g)) g); inversion H; subst; cbn; repeat split; auto; discriminate.
  - unfold attempt in H. destruct (skipn (Nat.min (length g) (length g)) g); inversion H; subst; cbn; repeat split; auto; discriminate.
  - cbn [is_unreach expected]. destruct (would_block e) eqn:W.
    + unfold attempt in H. destruct (skipn (Nat.min 0 (length g)) g); inversion H; subst; cbn; repeat split; auto; discriminate.
    + unfold attempt in H. destruct (unreachable e) eqn:U; inversion H; subst; cbn.
      * repeat split; auto; discriminate.
      * split; [destruct fresh; reflexivity|]. intros; discriminate.
Qed.

Lemma once_events : forall s ks s' ks' ev r,
  once s ks = (s', ks', ev, r) ->
  n_drop ev + n_unreach ks' = n_unreach ks /\
  (forallb expected ks = true ->
     forallb expected ks' = true /\ filter is_lost ev = [] /\ forall kx, r <> Exc kx).
Proof.
  intros s ks s' ks' ev r H. unfold once in H.
  assert (N : forall k kk, next ks = (k, kk) ->
              (if is_unreach k then 1 else 0) + n_unreach kk = n_unreach ks /\
              (forallb expected ks = true -> expected k = true /\ forallb expected kk = true)).
  { intros k kk E. destruct ks as [|k0 ks0]; cbn in E; inversion E; subst.
    - cbn. auto.
    - unfold n_unreach. cbn [filter forallb]. destruct (is_unreach k); cbn; split; auto; intros HH;
        apply andb_prop in HH; tauto. }
  destruct (txbs s) as [gb [db|]] eqn:B.
  - destruct (next ks) as [k kk] eqn:E. destruct (attempt gb db false (gb, Some db) (peer_send k)) as [[b e] x] eqn:A.
    inversion H; subst; clear H. apply attempt_events in A. destruct A as [A1 A2].
    destruct (N _ _ eq_refl) as [N1 N2]. split; [rewrite A1; exact N1|].
    intros HH. destruct (N2 HH) as [Hk Hkk]. destruct (A2 Hk). auto.
  - destruct (txgs s) as [|[g d] q] eqn:Q.
    + inversion H; subst. split; [reflexivity|]. intros HH. repeat split; auto. discriminate.
    + destruct (next ks) as [k kk] eqn:E. destruct (attempt g d true (gb, None) (peer_send k)) as [[b e] x] eqn:A.
      inversion H; subst; clear H. apply attempt_events in A. destruct A as [A1 A2].
      destruct (N _ _ eq_refl) as [N1 N2]. split; [rewrite A1; exact N1|].
      intros HH. destruct (N2 HH) as [Hk Hkk]. destruct (A2 Hk). auto.
Qed.

Lemma n_drop_app : forall a b, n_drop (a ++ b) = n_drop a + n_drop b.
Proof. intros. unfold n_drop. rewrite filter_app, app_length. reflexivity. Qed.

Lemma lost_app : forall a b, filter is_lost a = [] -> filter is_lost b = [] -> filter is_lost (a ++ b) = [].
Proof. intros a b Ha Hb. rewrite filter_app, Ha, Hb. reflexivity. Qed.

(* ---- fuel: grams_pending + 1 iterations always suffice ---- *)
Lemma once_true_decreases : forall s ks s' ks' ev,
  once s ks = (s', ks', ev, Ok true) -> S (grams_pending s') = grams_pending s.
Proof.
  intros s ks s' ks' ev H. unfold once in H.
  destruct (txbs s) as [gb [db|]] eqn:B.
  - destruct (next ks) as [k kk]. destruct (attempt gb db false (gb, Some db) (peer_send k)) as [[b e] x] eqn:A.
    inversion H; subst; clear H. apply attempt_conserve in A.
    destruct A as [(A & _) | (_ & _ & A & _)]; [discriminate|].
    unfold grams_pending. cbn [txgs txbs]. rewrite B. cbn [snd].
    destruct A as [A _]. rewrite (A eq_refl). lia.
  - destruct (txgs s) as [|[g d] q] eqn:Q.
    + inversion H.
    + destruct (next ks) as [k kk]. destruct (attempt g d true (gb, None) (peer_send k)) as [[b e] x] eqn:A.
      inversion H; subst; clear H. apply attempt_conserve in A.
      destruct A as [(A & _) | (_ & _ & A & _)]; [discriminate|].
      unfold grams_pending. cbn [txgs txbs]. rewrite B, Q. cbn [snd length].
      destruct A as [A _]. rewrite (A eq_refl). lia.
Qed.

Lemma service_loop_result : forall fuel s ks s' ks' ev x,
  grams_pending s < fuel ->
  service_loop fuel s ks = (s', ks', ev, x) ->
  x <> Some RuntimeErr /\
  n_drop ev + n_unreach ks' = n_unreach ks /\
  (forallb expected ks = true -> forallb expected ks' = true /\ filter is_lost ev = [] /\ x = None).
Proof.
  induction fuel; intros s ks s' ks' ev x Hf H; [lia|]. cbn [service_loop] in H.
  destruct (opened s && pending s).
  - destruct (once s ks) as [[[s1 k1] e1] r1] eqn:O.
    pose proof (once_events _ _ _ _ _ _ O) as [E1 E2].
    destruct r1 as [[|]|k].
    + destruct (service_loop fuel s1 k1) as [[[s2 k2] e2] x2] eqn:L.
      inversion H; subst; clear H. apply once_true_decreases in O.
      apply IHfuel in L; [|lia]. destruct L as (L1 & L2 & L3).
      split; [exact L1|]. split; [rewrite n_drop_app; lia|].
      intros HH. destruct (E2 HH) as (Ha & Hb & _). destruct (L3 Ha) as (Hc & Hd & He).
      repeat split; auto. apply lost_app; assumption.
    + inversion H; subst; clear H. split; [discriminate|]. split; [exact E1|].
      intros HH. destruct (E2 HH) as (Ha & Hb & _). auto.
    + inversion H; subst; clear H. split.
      * intros C. inversion C; subst. (* exceptions from once are OSErr only *)
        unfold once in O. destruct (txbs s) as [g [d|]]; [|destruct (txgs s) as [|[g1 d1] q]].
        -- destruct (next ks) as [kk kk']. destruct (attempt g d false (g, Some d) (peer_send kk)) as [[b e] xx] eqn:A.
           inversion O; subst. apply attempt_conserve in A. destruct A as [(A & _)|([A|A] & _)]; discriminate.
        -- inversion O.
        -- destruct (next ks) as [kk kk']. destruct (attempt g1 d1 true (g, None) (peer_send kk)) as [[b e] xx] eqn:A.
           inversion O; subst. apply attempt_conserve in A. destruct A as [(A & _)|([A|A] & _)]; discriminate.
      * split; [exact E1|]. intros HH. destruct (E2 HH) as (_ & _ & Hc). exfalso. apply (Hc k). reflexivity.
  - inversion H; subst; clear H. split; [discriminate|]. split; [reflexivity|]. intros HH. auto.
Qed.

Lemma step_result : forall s ks o s' ks' ev x,
  step s ks o = (s', ks', ev, x) ->
  x <> Some RuntimeErr /\
  n_drop ev + n_unreach ks' = n_unreach ks /\
  (forallb expected ks = true -> forallb expected ks' = true /\ filter is_lost ev = [] /\ x = None).
Proof.
  intros s ks o s' ks' ev x H. destruct o; cbn [step] in H.
  - inversion H; subst. split; [discriminate|]. split; [reflexivity|]. auto.
  - unfold service in H. eapply service_loop_result; [|exact H]. lia.
  - unfold service_once in H. destruct (opened s && pending s).
    + destruct (once s ks) as [[[s1 k1] e1] r1] eqn:O. inversion H; subst; clear H.
      pose proof (once_events _ _ _ _ _ _ O) as [E1 E2]. split.
      * destruct r1 as [b|k]; [discriminate|]. intros C. inversion C; subst.
        unfold once in O. destruct (txbs s) as [g [d|]]; [|destruct (txgs s) as [|[g1 d1] q]].
        -- destruct (next ks) as [kk kk']. destruct (attempt g d false (g, Some d) (peer_send kk)) as [[b e] xx] eqn:A.
           inversion O; subst. apply attempt_conserve in A. destruct A as [(A & _)|([A|A] & _)]; discriminate.
        -- inversion O.
        -- destruct (next ks) as [kk kk']. destruct (attempt g1 d1 true (g, None) (peer_send kk)) as [[b e] xx] eqn:A.
           inversion O; subst. apply attempt_conserve in A. destruct A as [(A & _)|([A|A] & _)]; discriminate.
      * split; [exact E1|]. intros HH. destruct (E2 HH) as (Ha & Hb & Hc). repeat split; auto.
        destruct r1 as [b|k]; [reflexivity|]. exfalso. apply (Hc k). reflexivity.
    + inversion H; subst. split; [discriminate|]. split; [reflexivity|]. auto.
  - inversion H; subst. split; [discriminate|]. split; [reflexivity|]. auto.
Qed.

Lemma run_result : forall ops s ks s' ks' ev xs,
  run s ks ops = (s', ks', ev, xs) ->
  ~ In (Some RuntimeErr) xs /\
  n_drop ev + n_unreach ks' = n_unreach ks /\
  (forallb expected ks = true -> forallb expected ks' = true /\ filter is_lost ev = [] /\ forallb quiet xs = true).
Proof.
  induction ops as [|o ops IH]; intros s ks s' ks' ev xs H; cbn [run] in H.
  - inversion H; subst. split; [intros []|]. split; [reflexivity|]. auto.
  - destruct (step s ks o) as [[[s1 k1] e1] x1] eqn:S.
    destruct (run s1 k1 ops) as [[[s2 k2] e2] x2] eqn:R.
    inversion H; subst; clear H.
    apply step_result in S. destruct S as (S1 & S2 & S3).
    apply IH in R. destruct R as (R1 & R2 & R3).
    split; [intros [C|C]; [congruence|tauto]|].
    split; [rewrite n_drop_app; lia|].
    intros HH. destruct (S3 HH) as (Ha & Hb & Hc). destruct (R3 Ha) as (Hd & He & Hf).
    repeat split; auto. { apply lost_app; assumption. } subst x1. cbn. exact Hf.
Qed.

(* ---- the transport-accepted stream is the accounted stream minus drops ---- *)
Definition wire (ev : list event) : list (dst * N) :=
  flat_map (fun e => match e with Sent d b => tag (b, d) | _ => [] end) ev.
Definition dropped (ev : list event) : list (bytes * dst) :=
  flat_map (fun e => match e with Drop d b => [(b, d)] | _ => [] end) ev.

Lemma no_drop_wire : forall ev, filter is_lost ev = [] -> n_drop ev = 0 -> wire ev = accounted ev.
Proof.
  induction ev as [|e ev IH]; intros HL HD; [reflexivity|].
  destruct e; cbn in *; unfold n_drop in *; cbn in *; try discriminate.
  f_equal. apply IH; auto.
Qed.

(* ---- drain: once the script is exhausted one greedy service empties everything ---- *)
Lemma once_all : forall s, opened s = true -> pending s = true ->
  exists s' ev, once s [] = (s', [], ev, Ok true) /\ opened s' = true.
Proof.
  intros s Ho Hp. unfold once, pending in *.
  assert (F : forall g d fresh old, exists ev,
             attempt g d fresh old (peer_send KAll) = (([], None), ev, Ok true)).
  { intros. cbn. unfold attempt. rewrite Nat.min_id, skipn_all. eexists; reflexivity. }
  destruct (txbs s) as [gb [db|]] eqn:B.
  - cbn [next]. destruct (F gb db false (gb, Some db)) as [ev ->]. eexists _, _. split; reflexivity || exact Ho.
  - destruct (txgs s) as [|[g1 d1] q] eqn:Q; [cbn in Hp; discriminate|].
    cbn [next]. destruct (F g1 d1 true (gb, None)) as [ev ->]. eexists _, _. split; reflexivity || exact Ho.
Qed.

Lemma service_loop_drain : forall fuel s, grams_pending s < fuel -> opened s = true ->
  exists s' ev, service_loop fuel s [] = (s', [], ev, None) /\ pending s' = false /\ opened s' = true.
Proof.
  induction fuel; intros s Hf Ho; [lia|]. cbn [service_loop]. rewrite Ho. cbn [andb].
  destruct (pending s) eqn:P.
  - destruct (once_all s Ho P) as (s1 & e1 & O & Ho1). rewrite O.
    pose proof (once_true_decreases _ _ _ _ _ O) as D.
    destruct (IHfuel s1) as (s2 & e2 & L & P2 & O2); [lia|exact Ho1|].
    rewrite L. eexists _, _. split; [reflexivity|]. auto.
  - eexists _, _. split; [reflexivity|]. auto.
Qed.

Lemma service_loop_consumes : forall fuel s k ks s' ks' ev x,
  opened s = true -> pending s = true ->
  service_loop (S fuel) s (k :: ks) = (s', ks', ev, x) -> length ks' <= length ks.
Proof.
  intros fuel s k ks s' ks' ev x Ho Hp H. cbn [service_loop] in H. rewrite Ho, Hp in H. cbn [andb] in H.
  assert (L : forall f s ks s' ks' ev x, service_loop f s ks = (s', ks', ev, x) -> length ks' <= length ks).
  { induction f; intros s0 ks0 s0' ks0' ev0 x0 H0; cbn [service_loop] in H0.
    - inversion H0; subst; lia.
    - destruct (opened s0 && pending s0); [|inversion H0; subst; lia].
      destruct (once s0 ks0) as [[[s1 k1] e1] r1] eqn:O.
      assert (length k1 <= length ks0).
      { unfold once in O. destruct (txbs s0) as [g [d|]]; [|destruct (txgs s0) as [|[g1 d1] q]].
        - destruct ks0; cbn [next] in O; destruct (attempt _ _ _ _ _) as [[b e] xx]; inversion O; subst; cbn; lia.
        - inversion O; subst; lia.
        - destruct ks0; cbn [next] in O; destruct (attempt _ _ _ _ _) as [[b e] xx]; inversion O; subst; cbn; lia. }
      destruct r1 as [[|]|kx]; try (inversion H0; subst; lia).
      destruct (service_loop f s1 k1) as [[[s2 k2] e2] x2] eqn:LL. inversion H0; subst.
      apply IHf in LL. lia. }
  destruct (once s (k :: ks)) as [[[s1 k1] e1] r1] eqn:O.
  assert (k1 = ks).
  { unfold once, pending in *. destruct (txbs s) as [g [d|]]; [|destruct (txgs s) as [|[g1 d1] q]].
    - cbn [next] in O. destruct (attempt _ _ _ _ _) as [[b e] xx]. inversion O; subst; reflexivity.
    - cbn in Hp. discriminate.
    - cbn [next] in O. destruct (attempt _ _ _ _ _) as [[b e] xx]. inversion O; subst; reflexivity. }
  subst k1. destruct r1 as [[|]|kx]; try (inversion H; subst; lia).
  destruct (service_loop fuel s1 ks) as [[[s2 k2] e2] x2] eqn:LL. inversion H; subst.
  apply L in LL. exact LL.
Qed.

(* n greedy services *)
Lemma drain : forall n s ks, opened s = true -> length ks < n ->
  forall s' ks' ev xs, run s ks (repeat Service n) = (s', ks', ev, xs) -> pending s' = false.
Proof.
  induction n; intros s ks Ho Hn s' ks' ev xs H; [lia|].
  cbn [repeat run step] in H.
  destruct (service s ks) as [[[s1 k1] e1] x1] eqn:HS.
  destruct (run s1 k1 (repeat Service n)) as [[[s2 k2] e2] x2] eqn:R.
  inversion H; subst; clear H.
  assert (Ho1 : opened s1 = true).
  { unfold service in HS. apply service_loop_conserve in HS. destruct HS as [_ HS]. congruence. }
  assert (Idle : forall m s0 k0, opened s0 = true -> pending s0 = false ->
            forall s3 k3 e3 x3, run s0 k0 (repeat Service m) = (s3, k3, e3, x3) -> pending s3 = false).
  { induction m; intros s0 k0 Ho0 Hp0 s3 k3 e3 x3 HH; cbn [repeat run step] in HH.
    - inversion HH; subst; exact Hp0.
    - unfold service in HH. cbn [service_loop] in HH. rewrite Ho0, Hp0 in HH. cbn [andb] in HH.
      destruct (run s0 k0 (repeat Service m)) as [[[s4 k4] e4] x4] eqn:RR. inversion HH; subst.
      eapply IHm; eauto. }
  destruct (pending s) eqn:P.
  - destruct ks as [|k ks].
    + unfold service in HS. destruct (service_loop_drain (S (grams_pending s)) s) as (sa & ea & La & Pa & Oa); [lia|exact Ho|].
      rewrite La in HS. inversion HS; subst. eapply Idle; eauto.
    + unfold service in HS. apply service_loop_consumes in HS; auto.
      eapply IHn; [exact Ho1| |exact R]. cbn in Hn. lia.
  - unfold service in HS. cbn [service_loop] in HS. rewrite Ho, P in HS. cbn [andb] in HS. inversion HS; subst.
    eapply Idle; eauto.
Qed.

(* ---- composition ---- *)
Lemma run_app : forall a b s ks,
  run s ks (a ++ b) =
  let '(s1, k1, e1, x1) := run s ks a in
  let '(s2, k2, e2, x2) := run s1 k1 b in (s2, k2, e1 ++ e2, x1 ++ x2).
Proof.
  induction a as [|o a IH]; intros b s ks; cbn [app run].
  - destruct (run s ks b) as [[[s2 k2] e2] x2]. reflexivity.
  - destruct (step s ks o) as [[[s0 k0] e0] x0]. rewrite IH.
    destruct (run s0 k0 a) as [[[s1 k1] e1] x1]. destruct (run s1 k1 b) as [[[s2 k2] e2] x2].
    rewrite app_assoc. reflexivity.
Qed.

Lemma queued_app : forall a b, queued (a ++ b) = queued a ++ queued b.
Proof. induction a as [|o a IH]; intros b; [reflexivity|]. destruct o; cbn; rewrite IH; reflexivity. Qed.

Lemma queued_services : forall n, queued (repeat Service n) = [].
Proof. induction n; cbn; auto. Qed.

Lemma idle_no_bytes : forall s, pending s = false -> pending_bytes s = [].
Proof.
  intros s H. unfold pending, pending_bytes, inflight in *.
  destruct (txgs s); [|discriminate]. destruct (txbs s) as [g [d|]]; cbn in *; [discriminate|reflexivity].
Qed.

Lemma run_length : forall ops s ks s' ks' ev xs,
  run s ks ops = (s', ks', ev, xs) -> length ks' <= length ks.
Proof.
  assert (O : forall s ks s' ks' ev r, once s ks = (s', ks', ev, r) -> length ks' <= length ks).
  { intros s ks s' ks' ev r H. unfold once in H.
    destruct (txbs s) as [gb [db|]]; [|destruct (txgs s) as [|[g1 d1] q]].
    - destruct ks; cbn [next] in H; destruct (attempt _ _ _ _ _) as [[b e] xx]; inversion H; subst; cbn; lia.
    - inversion H; subst; lia.
    - destruct ks; cbn [next] in H; destruct (attempt _ _ _ _ _) as [[b e] xx]; inversion H; subst; cbn; lia. }
  assert (L : forall f s ks s' ks' ev x, service_loop f s ks = (s', ks', ev, x) -> length ks' <= length ks).
  { induction f; intros s0 ks0 s0' ks0' ev0 x0 H0; cbn [service_loop] in H0.
    - inversion H0; subst; lia.
    - destruct (opened s0 && pending s0); [|inversion H0; subst; lia].
      destruct (once s0 ks0) as [[[s1 k1] e1] r1] eqn:E. apply O in E.
      destruct r1 as [[|]|kx]; try (inversion H0; subst; lia).
      destruct (service_loop f s1 k1) as [[[s2 k2] e2] x2] eqn:LL. inversion H0; subst.
      apply IHf in LL. lia. }
  induction ops as [|o ops IH]; intros s ks s' ks' ev xs H; cbn [run] in H.
  - inversion H; subst; lia.
  - destruct (step s ks o) as [[[s1 k1] e1] x1] eqn:St.
    destruct (run s1 k1 ops) as [[[s2 k2] e2] x2] eqn:R. inversion H; subst; clear H.
    apply IH in R. assert (length k1 <= length ks); [|lia].
    destruct o; cbn [step] in St.
    + inversion St; subst; lia.
    + unfold service in St. apply L in St. exact St.
    + unfold service_once in St. destruct (opened s && pending s); [|inversion St; subst; lia].
      destruct (once s ks) as [[[s3 k3] e3] r3] eqn:E. apply O in E. inversion St; subst. exact E.
    + inversion St; subst; lia.
Qed.

(* per-destination byte streams *)
Definition stream (d : dst) (l : list (dst * N)) : bytes :=
  map snd (filter (fun p => N.eqb (fst p) d) l).
Definition grams_for (d : dst) (l : list (bytes * dst)) : bytes :=
  concat (map fst (filter (fun gd => N.eqb (snd gd) d) l)).

Lemma stream_app : forall d a b, stream d (a ++ b) = stream d a ++ stream d b.
Proof. intros. unfold stream. rewrite filter_app, map_app. reflexivity. Qed.

Lemma stream_tag : forall d g d', stream d (tag (g, d')) = if N.eqb d' d then g else [].
Proof.
  intros d g d'. unfold stream, tag. cbn [fst snd]. induction g as [|x g IH]; cbn.
  - destruct (N.eqb d' d); reflexivity.
  - destruct (N.eqb d' d) eqn:E; cbn; rewrite IH; reflexivity.
Qed.

Lemma stream_tags : forall d l, stream d (tags l) = grams_for d l.
Proof.
  intros d l. induction l as [|[g d'] l IH]; [reflexivity|].
  unfold tags in *. cbn [flat_map]. rewrite stream_app, IH, stream_tag. unfold grams_for. cbn [filter snd].
  destruct (N.eqb d' d); reflexivity.
Qed.
