(* C12 — Idle HTTP connections time out after the configured tymeout.
   Statements only; proofs are in Proofs/IdleProofs.v.  The model (Model/Idle.v)
   is of the code after the fix commits: D13 (the server's tymeout reaches the
   Remoter), Remoter.refresh restarting the tymer from the current tyme, and
   RemoterTls refreshing on traffic like Remoter.  Virtual tyme is Z; a schedule
   is the list of (tyme, client action) of the Server.service() passes after
   the connection was accepted at tyme t0 by a server with tymeout T. *)
From Hio Require Import Base.Prelude Model.Idle Proofs.IdleProofs.
Local Open Scope Z_scope.

(* A connection that is not persistent and has had no traffic since tyme u
   (u = last_rx t0 sched: the latest pass with traffic, or the accept tyme) is
   closed by any service pass at a tyme >= u + T: in particular by the first
   one.  For every tymeout T > 0, accept tyme, earlier history and pass
   content (traffic arriving in that very pass comes too late). *)
Theorem C12_closes : forall T t0 sched now a,
  0 < T -> no_req sched = true -> last_rx t0 sched + T <= now ->
  closed (pass now a (run (accept T t0) sched)) = true.
Proof. exact closes. Qed.
Print Assumptions C12_closes.

(* ... and it remains closed whatever follows *)
Theorem C12_closes_for_good : forall T t0 sched now a rest,
  0 < T -> no_req sched = true -> last_rx t0 sched + T <= now ->
  closed (run (accept T t0) (sched ++ (now, a) :: rest)) = true.
Proof. exact closes_for_good. Qed.
Print Assumptions C12_closes_for_good.

(* A connection for which every service pass comes less than T after the latest
   traffic before it is never closed for idleness, at any point of the schedule. *)
Theorem C12_safe : forall T t0 s1 s2,
  busy T t0 (s1 ++ s2) -> closed (run (accept T t0) s1) = false.
Proof. exact safe_always. Qed.
Print Assumptions C12_safe.

(* The same with the property's wording: pass tymes do not go backwards and for
   every pass there is traffic (or the accept) less than T before it, i.e.
   there is traffic in every tymeout window. *)
Theorem C12_safe_windows : forall T t0 sched,
  sorted_from t0 sched -> windowed T [t0] sched -> closed (run (accept T t0) sched) = false.
Proof. exact safe_windows. Qed.
Print Assumptions C12_safe_windows.

(* Persistent connections (a completed keep-alive request zeroes the Remoter's
   tymeout) and servers with tymeout <= 0 never time a connection out. *)
Theorem C12_persistent : forall T t0 s1 k now s2,
  closed (run (accept T t0) (s1 ++ [(now, Req k)])) = false ->
  closed (run (accept T t0) (s1 ++ (now, Req k) :: s2)) = false.
Proof. exact persistent_never. Qed.
Print Assumptions C12_persistent.

Theorem C12_disabled : forall T t0 sched, T <= 0 -> closed (run (accept T t0) sched) = false.
Proof. exact disabled. Qed.
Print Assumptions C12_disabled.

(* Non-vacuity: T = 5, accepted at 0; a burst of 3 chunks at 1, one chunk at 4;
   still open at 8 (4 + 5 > 8), closed by the pass at 9. *)
Example C12_closes_example :
  let sched := [(0, Quiet); (1, Rx 3); (4, Rx 1); (8, Quiet)] in
  no_req sched = true /\ last_rx 0 sched = 4 /\
  closed (run (accept 5 0) sched) = false /\
  closed (pass 9 (Rx 2) (run (accept 5 0) sched)) = true.
Proof. vm_compute. repeat split. Qed.

Example C12_safe_example :
  let sched := [(0, Rx 1); (3, Rx 1); (6, Rx 2); (9, Quiet); (9, Rx 1); (12, Quiet)] in
  sorted_from 0 sched /\ windowed 4 [0] sched /\ closed (run (accept 4 0) sched) = false.
Proof.
  cbn [sorted_from windowed has_traffic N.ltb N.compare]. repeat split; try lia.
  - exists 0. split; [now left|lia].
  - exists 0. split; [now left|lia].
  - exists 3. split; [now left|lia].
  - exists 6. split; [now left|lia].
  - exists 6. split; [now left|lia].
  - exists 9. split; [now left|lia].
Qed.
