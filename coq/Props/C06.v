(* C06 — runtime extend/remove take effect exactly and preserve membership.
   Model: Model/Sched.v (run_effects, enter_local, close_list).
   Proofs: Proofs/SchedDequeEffects.v on top of the two invariants of
   Proofs/SchedDequeAll.v / SchedDequeUniq.v and the close order of SchedDequeOrder.v.

   FULL statement: (e1) doers added at run time are entered immediately, at the
   caller's tyme, before extend() returns; (e2) they first recur in the next
   cycle; (e3) adding present doers does nothing; (r1) removed doers are ceased
   and exited before remove() returns and never recur again; (r2) a doer removing
   itself keeps running; (m) the doers list is the insertion-ordered list of the
   added-and-not-removed doers.
   Proved here, for one effect executed on a live target from ANY state (for
   remove: any state satisfying the two invariants, i.e. every reachable state of
   a program of class W):
     e1 (window: unchanged tyme, every event at that tyme, no Recur before ExtRet,
         exact new doers/deeds)                        [C06_extend_window]
        (every added startable doer has its Enter in the window) [C06_extend_enters]
     e3                                                [C06_extend_present_identity]
     the new deeds are behind the marker of a pass under way
                                                       [C06_extend_behind_marker]
     and a pass sends only what was in front of its marker: e2 for the scheduler
     whose pass is running                             [C06_pass_sends_only_front]
     e2 as a forward invariant over all eleven functions and all programs: a doer
     sheltered behind the marker of a scheduler on the call stack (or of the root),
     directly or through suspended DoDoers, gets no Recur before a new Enter; extend()
     shelters its new doers iff the target is such a scheduler or is sheltered itself;
     exact time: after the root pass every Recur is at least one tock later
       [C06_sheltered_no_recur, C06_extend_shelters, C06_pass_shelter, C06_next_recur_later]
     r1, r2, m for remove                              [C06_remove]
     m for extend: doers' = doers ++ new               [C06_extend_window, last clause]
   e2 in full is FALSE of the code (open finding D42: extending a DoDoer that has
   not yet had its pass in the current root cycle) — [C06_next_cycle_refuted].
     m as a refinement to the list specification, class NE0: for the effects of one
       resumption [C06_members_refine_partial], for each of the eleven functions
       [C06_members_functions_partial] and for whole runs [C06_members_run_partial];
     m for ALL programs with call-time snapshots        [C06_members_run_snapshots]
   NOT PROVED as one run-level statement (covered by the correspondence and the
   call-log oracle of harness/drivers/c06.py): e2 across the partially executed stack
   frames between an ExtRet and the next loop boundary (each frame's remainder is
   covered by C06_sheltered_no_recur / C06_pass_shelter, which hold from any state). *)
From Hio Require Import Base.Prelude Base.AMap Base.Time Model.Sched Proofs.SchedLife Proofs.SchedTop
  Proofs.SchedDeque Proofs.SchedDequeHold Proofs.SchedDequeAll Proofs.SchedDequeUniq Proofs.SchedDequeOrder
  Proofs.SchedDequeEffects Proofs.SchedDequeTop Proofs.SchedDequeTop2 Proofs.SchedDequeEpos Proofs.SchedDequeSortB
  Proofs.SchedDequePass Proofs.SchedDequeMembers Proofs.SchedDequeRoot0 Proofs.SchedDequeShelter Proofs.SchedDequeShelter2
  Proofs.SchedDequeMembers2 Proofs.SchedDequeMembers3.

(* one extend(): new := the not-present doers, deduplicated; they are entered
   (running their first resumption) with the tyme unchanged, every event of the
   window carries that tyme and none is a Recur; then doers := doers ++ new,
   deeds := deeds ++ (deeds of those that yielded), ExtRet, and the caller goes on *)
Theorem C06_extend_window :
  forall (T : Type) (TT : Time T) (tk : T) (f : nat) (s : st T) (c t : id) (news : list id)
         (rest : list effect) (s' : st T) (r : gres),
    live s t = true ->
    run_effects tk (S f) s c (EExtend t news :: rest) = (s', r) ->
    exists s1 r1 acc seg,
      enter_local tk f s (new_of s t news) [] = (s1, r1, acc) /\
      tyme s1 = tyme s /\ trace s1 = seg ++ trace s /\
      Forall (fun e => e_kind e <> Recur /\ e_tyme e = tyme s) seg /\
      match r1 with
      | GRaise kbd => (s', r) = (s1, GRaise kbd)
      | GFuel => (s', r) = (s1, GFuel)
      | _ => run_effects tk f
               (emit (set_sched s1 t {| doers := doers (get_sched s1 t) ++ new_of s t news;
                                        deeds := deeds (get_sched s1 t) ++ acc |}) ExtRet c) c rest = (s', r)
      end.
Proof. intros. now apply extend_step. Qed.
Print Assumptions C06_extend_window.

(* the state in which doer 1 of [w_prog] makes its calls: after the enter phase *)
Definition w_state : st Z :=
  set_rlive (fst (enter_own 1%Z 100 (init_st w_prog) 0%N (p_doers w_prog))) true.

Example C06_extend_example :
  live w_state 2%N = true /\
  new_of w_state 2%N [3; 6; 6]%N = [6]%N /\
  oof (fst (run_effects 1%Z 50 w_state 1%N [EExtend 2%N [3; 6; 6]%N])) = false /\
  doers (get_sched (fst (run_effects 1%Z 50 w_state 1%N [EExtend 2%N [3; 6; 6]%N])) 2%N) = [3; 4; 6]%N.
Proof. vm_compute. repeat split. Qed.

(* every doer that was startable (new or finished) when extend() was called and is
   among the added ones has an Enter event inside the window, when the window
   completes (r1 = GReturn: no enter raised, budget not exhausted) *)
Theorem C06_extend_enters :
  forall (T : Type) (TT : Time T) (tk : T) (f : nat) (s : st T) (t : id) (news : list id) (s1 : st T) acc,
    enter_local tk f s (new_of s t news) [] = (s1, GReturn, acc) ->
    forall i, In i (new_of s t news) -> startable s i = true -> get (defs s) i <> None ->
    exists seg e, trace s1 = seg ++ trace s /\ In e seg /\ e_kind e = Enter /\ e_id e = i.
Proof. intros. eapply extend_enters; eassumption. Qed.
Print Assumptions C06_extend_enters.

Example C06_extend_enters_example :
  snd (fst (enter_local 1%Z 49 w_state (new_of w_state 2%N [3; 6; 6]%N) [])) = GReturn /\
  startable w_state 6%N = true /\ get (defs w_state) 6%N <> None.
Proof. split; [vm_compute; reflexivity|]. split; [vm_compute; reflexivity|]. vm_compute. discriminate. Qed.

Theorem C06_extend_present_identity :
  forall (T : Type) (TT : Time T) (tk : T) (f : nat) (s : st T) (c t : id) (news : list id)
         (rest : list effect) (s' : st T) (r : gres),
    live s t = true -> (forall x, In x news -> In x (doers (get_sched s t))) ->
    run_effects tk (S (S f)) s c (EExtend t news :: rest) = (s', r) ->
    exists s2, run_effects tk (S f) s2 c rest = (s', r) /\
      trace s2 = {| e_kind := ExtRet; e_id := c; e_tyme := tyme s |} :: trace s /\
      (forall x, get_sched s2 x = get_sched s x) /\ gens s2 = gens s /\ dones s2 = dones s /\ tyme s2 = tyme s.
Proof. intros. eapply extend_present; eassumption. Qed.
Print Assumptions C06_extend_present_identity.

Example C06_extend_present_example :
  live w_state 2%N = true /\ forallb (fun x => memN x (doers (get_sched w_state 2%N))) [4; 3; 4]%N = true.
Proof. vm_compute. split; reflexivity. Qed.

(* with a pass of the target under way (deque = unrun ++ marker :: rerun) the new
   deeds land behind the marker: the pass, which stops at the marker, does not
   reach them; exit() un-rotates them to the end *)
Theorem C06_extend_behind_marker :
  forall (T : Type) (u r acc : list (deed T)),
    ~ In DMark u ->
    split_mark ((u ++ DMark :: r) ++ acc) [] = Some (u, r ++ acc) /\
    unrotate ((u ++ DMark :: r) ++ acc) = (r ++ acc) ++ u.
Proof. intros. now apply extend_behind_marker. Qed.
Print Assumptions C06_extend_behind_marker.

(* e2 for the scheduler whose pass is running: a pass (recur_loop; [loop_sent] is
   recur_loop instrumented with the list of doers it sends, same states) of a
   scheduler x that is executing, or of the root, sends only doers that were in
   front of its marker when it started, in that order — whatever the doers do
   meanwhile (extend, remove, nested passes): by C06_extend_behind_marker a doer
   added to x during the pass is behind the marker, so it is not sent in this pass *)
Theorem C06_pass_sends_only_front :
  forall (T : Type) (TT : Time T) (tk : T) (f : nat) (s : st T) (x : id) (u rr : list (deed T))
         (s' : st T) (r : gres) (l : list id),
    prot s x -> dq s x = u ++ DMark :: rr -> mf u ->
    loop_sent tk f s x = (s', r, l) ->
    recur_loop tk f s x = (s', r) /\ subseq l (dids u).
Proof.
  intros T TT tk f s x u rr s' r l P Q M E. split.
  - rewrite <- loop_sent_erase, E. reflexivity.
  - eapply loop_sent_sub; eassumption.
Qed.
Print Assumptions C06_pass_sends_only_front.

(* doer 1 of w_prog, in the root's first pass, extends DoDoer 2 with 6 and removes 5;
   6 in its enter extends the root with 7: the pass sends 1 and 2 only; 7 waits *)
Definition w_pass : st Z := set_deeds w_state 0%N (dq w_state 0%N ++ [DMark]).
Example C06_pass_example :
  dq w_pass 0%N = [DDeed 1%N 0%Z; DDeed 2%N 0%Z; DDeed 5%N 0%Z] ++ DMark :: [] /\
  snd (loop_sent 1%Z 50 w_pass 0%N) = [1; 2]%N /\
  dids (dq (fst (fst (loop_sent 1%Z 50 w_pass 0%N))) 0%N) = [7; 1; 2]%N.
Proof. vm_compute. repeat split. Qed.

(* e2, the forward invariant, for ALL programs (extend included), every time instance.
   Fix a doer j, a set Pr of protected schedulers (each executing, or the root) and
   the definitions d (d 0 = None).  j is SHELTERED in state s w.r.t. a hand C
   ([hang s Pr (Lf d) C j]) when the deed holding it hangs, through deques of
   suspended DoDoers, from: behind the marker of a protected scheduler, a deque
   that is never processed (of a leaf), or the hand C (deeds about to be closed).
   [PJ j Pr (Lf d) a s C]: since state a no Recur of j was emitted before a new
   Enter of j ([nrbe]), and j is entered anew, or not alive, or executing, or
   sheltered.  The invariant is preserved by all eleven interpreter functions
   (never operating on a protected scheduler): a sheltered doer can only be closed. *)
Theorem C06_sheltered_no_recur :
  forall (T : Type) (TT : Time T) (tk : T) (j : id) (Pr : id -> Prop) (d : amap (fdef T)),
    get d j <> None -> get d 0%N = None -> forall f, shel_at tk j Pr d f.
Proof. intros. now apply shelter_all. Qed.
Print Assumptions C06_sheltered_no_recur.

(* how to read the trace part: no new Enter of j in the segment, then no Recur of j *)
Theorem C06_no_enter_no_recur :
  forall (T : Type) (j : id) (seg : list (ev T)),
    nrbe j seg -> ~ has_enter j seg -> forall e, In e seg -> is_recur_of j e = false.
Proof. intros. eapply nrbe_no_enter; eassumption. Qed.
Print Assumptions C06_no_enter_no_recur.

(* THE CLASS: extend() shelters the new doers exactly when its target t is a
   protected scheduler whose pass is under way (marker in its deque: the scheduler
   the caller runs under, or any scheduler further up, or the root) or is itself
   sheltered (a DoDoer that has already had its pass in this cycle).  D42 is the
   complement: t suspended in FRONT of a marker (not yet had its pass). *)
Theorem C06_extend_shelters :
  forall (T : Type) (Pr : id -> Prop) (d : amap (fdef T)) (s1 : st T) (t : id) (dl : list id)
         (acc : list (deed T)) (C : list id) (k : id),
    In k (dids acc) ->
    (Pr t /\ exists u r, dq s1 t = u ++ DMark :: r /\ mf u) \/ hang s1 Pr (Lf d) C t ->
    hang (set_sched s1 t {| doers := dl; deeds := dq s1 t ++ acc |}) Pr (Lf d) C k.
Proof. intros. now apply extend_shelters. Qed.
Print Assumptions C06_extend_shelters.

(* the rest of the pass of a protected scheduler x itself (x a DoDoer or the root):
   no Recur of a sheltered j before a new Enter of j *)
Theorem C06_pass_shelter :
  forall (T : Type) (TT : Time T) (tk : T) (j : id) (Pr : id -> Prop) (d : amap (fdef T)),
    get d j <> None -> get d 0%N = None ->
    forall f a s X C x (u rr : list (deed T)) s' r,
      HP Pr d s -> Hold2 s X -> incl C X -> Pr x -> (isnest d x = true \/ x = 0%N) ->
      dq s x = u ++ DMark :: rr -> mf u -> PJ j Pr (Lf d) a s C ->
      recur_loop tk f s x = (s', r) -> oof s' = false -> NRj j a s'.
Proof. intros. eapply loop_shelter; eassumption. Qed.
Print Assumptions C06_pass_shelter.

(* exact time, tock >= 0: every Recur event emitted after a root pass that started
   at tyme τ carries a tyme >= τ + tock; with tock > 0: strictly later.  Together
   with C06_pass_shelter for x = 0: a doer added to the Doist by extend() during a
   cycle at tyme τ (hence sheltered: C06_extend_shelters) has, unless it is removed
   and entered anew, its first Recur at a tyme >= τ + tock *)
Theorem C06_next_recur_later :
  forall (tk : Z) (c fuel : nat) (s : st Z) limit stop s1 r,
    (0 <= tk)%Z -> recur_pass tk fuel s 0%N = (s1, r) ->
    exists later, trace (cycle_loop tk (S c) fuel s limit stop) = later ++ trace s1 /\
                  Forall (fun e => e_kind e = Recur -> (tyme s + tk <= e_tyme e)%Z) later.
Proof. intros. eapply after_pass_later; eassumption. Qed.
Print Assumptions C06_next_recur_later.

(* w_prog in its first root pass, right after doer 1 was sent (it extended DoDoer 2
   with 6, whose enter extended the root with 7): 7 sits behind the root's marker;
   the rest of the pass recurs 2, 3, 4 and 6 (6: finding D42) but not 7 *)
Definition w_mid : st Z := fst (gen_send 1%Z 49 (set_deeds w_pass 0%N (tl (dq w_pass 0%N))) 1%N).
Definition w_mid2 : st Z := set_deeds w_mid 0%N (dq w_mid 0%N ++ [DDeed 1%N 1%Z]).
Example C06_shelter_example :
  dq w_mid2 0%N = [DDeed 2%N 0%Z] ++ DMark :: [DDeed 7%N 0%Z; DDeed 1%N 1%Z] /\
  behind w_mid2 0%N 7%N /\
  oof (fst (recur_loop 1%Z 48 w_mid2 0%N)) = false /\
  map e_id (filter (fun e => match e_kind e with Recur => true | _ => false end)
                   (firstn 4 (trace (fst (recur_loop 1%Z 48 w_mid2 0%N))))) = [6; 4; 3; 2]%N.
Proof.
  split; [vm_compute; reflexivity|]. split.
  - exists [DDeed 2%N 0%Z], [DDeed 7%N 0%Z; DDeed 1%N 1%Z]. split; [vm_compute; reflexivity|]. split.
    + intros [Hx|[]]. discriminate.
    + vm_compute. now left.
  - split; vm_compute; reflexivity.
Qed.

(* remove() closes in reverse ENTER order wherever the deque is in enter order
   (C02_deques_in_enter_order_partial: always, for programs without extend()) *)
Theorem C06_remove_in_enter_order :
  forall (T : Type) (ord : id -> nat) (rd : list id) (ds : list (deed T)),
    srt ord (canon ds) -> srt ord (dids (filter (is_rem rd) (unrotate ds))).
Proof. intros. now apply remove_sorted. Qed.
Print Assumptions C06_remove_in_enter_order.

(* one remove(): rd := the present doers among the arguments, deduplicated; their
   deeds are taken out of the deque and closed: every removed suspended doer gets
   its Cease (then Exit, C01) before RemRet, in the reverse of the un-rotated deque
   order, all at the unchanged tyme; afterwards it is GDone and no deque holds a
   deed for it (so it cannot recur again unless it is extended again); the doers
   list is the old one minus rd; the caller — also when it removes itself — is
   still executing and goes on with its remaining effects *)
Theorem C06_remove :
  forall (T : Type) (TT : Time T) (tk : T) (f : nat) (s : st T) (c t : id) (who : list id)
         (rest : list effect) (s' : st T) (r : gres) (X : list id),
    live s t = true -> Hold s X -> Hold2 s X ->
    run_effects tk (S f) s c (ERemove t who :: rest) = (s', r) ->
    let rd := rdoers_of s t who in
    let rdeeds := filter (is_rem rd) (unrotate (dq s t)) in
    let s1 := set_sched s t {| doers := fold_left (fun l d => remove_first d l) rd (doers (get_sched s t));
                               deeds := filter (fun d => negb (is_rem rd d)) (dq s t) |} in
    let s2 := close_list tk f s1 (rev rdeeds) in
    run_effects tk f (emit s2 RemRet c) c rest = (s', r) /\
    (oof s2 = false ->
       (exists seg, trace s2 = seg ++ trace s /\ tops (dids (rev rdeeds)) seg = dids (rev rdeeds) /\
                    Forall (fun e => e_tyme e = tyme s) seg) /\
       (forall i, In i (dids rdeeds) -> get_gen s2 i = GDone /\ forall sid, ~ In i (qids s2 sid)) /\
       doers (get_sched s2 t) = fold_left (fun l d => remove_first d l) rd (doers (get_sched s t)) /\
       (running s c -> running s2 c) /\ Hold s2 X /\ Hold2 s2 X).
Proof. intros. eapply remove_step; eassumption. Qed.
Print Assumptions C06_remove.

(* the hypotheses of C06_remove hold in the state after the enter phase of w_prog *)
Example C06_remove_example :
  live w_state 0%N = true /\ Hold w_state [] /\ Hold2 w_state [] /\
  rdoers_of w_state 0%N [5; 9; 5; 1]%N = [5; 1]%N /\
  oof (fst (run_effects 1%Z 50 w_state 7%N [ERemove 0%N [5; 9; 5; 1]%N])) = false /\
  doers (get_sched (fst (run_effects 1%Z 50 w_state 7%N [ERemove 0%N [5; 9; 5; 1]%N])) 0%N) = [2]%N.
Proof.
  assert (E : exists s1 r, enter_own 1%Z 100 (init_st w_prog) 0%N (p_doers w_prog) = (s1, r) /\
                           oof s1 = false /\ w_state = set_rlive s1 true).
  { eexists _, _. split; [vm_compute; reflexivity|]. split; [reflexivity|]. vm_compute. reflexivity. }
  destruct E as (s1 & r & E & O & Ws).
  assert (Hw : W (p_defs w_prog)) by (apply Wb_W; vm_compute; reflexivity).
  destruct (after_enter 100 w_prog s1 r Hw E O) as [Hh Hh2].
  split; [vm_compute; reflexivity|]. split; [rewrite Ws; exact Hh|]. split; [rewrite Ws; exact Hh2|].
  vm_compute. repeat split.
Qed.

(* (m) membership as a refinement: the effects of one resumption of a doer (any
   sequence of extend/remove calls on any schedulers) leave the doers list of every
   scheduler t equal to the list before, transformed by the list-specification
   operations [apply_mop] (append the not-present arguments, deduplicated / delete
   the present arguments) of the effects on t that were executed, in order (effects
   on a scheduler that is not running are skipped; a failing enter stops the
   sequence).  Class NE0: doers run no effect in their first resumption. *)
Theorem C06_members_refine_partial :
  forall (T : Type) (TT : Time T) (tk : T) (f : nat) (s : st T) (c : id) (es : list effect)
         (s' : st T) (r : gres) (t : id),
    NE0 (defs s) -> run_effects tk f s c es = (s', r) ->
    exists ops, subs ops (ops_on t es) /\
                doers (get_sched s' t) = fold_left apply_mop ops (doers (get_sched s t)).
Proof. intros. eapply members_refine; eassumption. Qed.
Print Assumptions C06_members_refine_partial.

Definition m_prog : prog Z :=
  let Y := {| f_es := []; f_out := OYield None |} in
  {| p_tock := 1%Z; p_limit := None; p_tyme := 0%Z; p_doers := [1; 2; 5]%N;
     p_defs := [(1, FLeaf KFunc [Y; Y; Y]); (2, FNest 0%Z true [3; 4]); (3, FLeaf KDoer [Y; Y; Y]);
                (4, FLeaf KDoerGen [Y; Y; Y]); (5, FLeaf KFunc [Y; Y; Y]); (7, FLeaf KDoer [Y; Y; Y])]%N |}.
Definition m_state : st Z :=
  set_rlive (fst (enter_own 1%Z 100 (init_st m_prog) 0%N (p_doers m_prog))) true.
Definition m_es : list effect :=
  [ERemove 0 [5; 9; 5]; EExtend 2 [3; 7]; EExtend 0 [7; 5; 7; 1]; ERemove 0 [1]; EExtend 8 [1]]%N.
Example C06_members_example :
  NE0b (defs m_state) = true /\
  doers (get_sched (fst (run_effects 1%Z 50 m_state 1%N m_es)) 0%N)
    = fold_left apply_mop (ops_on 0%N m_es) (doers (get_sched m_state 0%N)) /\
  doers (get_sched (fst (run_effects 1%Z 50 m_state 1%N m_es)) 0%N) = [2; 7; 5]%N /\
  doers (get_sched (fst (run_effects 1%Z 50 m_state 1%N m_es)) 2%N) = [3; 4; 7]%N.
Proof. vm_compute. repeat split. Qed.

(* (m) over whole runs, class NE0: ONE log of list-specification operations, every
   entry an extend/remove effect of some script of the program, such that for EVERY
   scheduler t the doers list at the end of the run is its initial list (the root's
   doers / the DoDoer's kids) transformed by the entries on t, in log order: the
   insertion-ordered added-and-not-removed list.  The same holds for each of the
   eleven interpreter functions from any state ([mr_all]). *)
Theorem C06_members_run_partial :
  forall (T : Type) (TT : Time T) (cycles fuel : nat) (p : prog T),
    NE0 (p_defs p) ->
    exists log : list (id * mop), Forall (from_prog (p_defs p)) log /\
      forall t, doers (get_sched (do_run cycles fuel p) t) = mrun (doers (get_sched (init_st p) t)) t log.
Proof. intros T TT cycles fuel p N. exact (do_run_members cycles fuel p N). Qed.
Print Assumptions C06_members_run_partial.

Theorem C06_members_functions_partial :
  forall (T : Type) (TT : Time T) (tk : T) (d : amap (fdef T)) (f : nat), mr_at tk d f.
Proof. intros. apply mr_all. Qed.
Print Assumptions C06_members_functions_partial.

Example C06_members_run_example :
  NE0b (p_defs m_prog) = true /\ doers (get_sched (do_run 10 100 m_prog) 0%N) = [1; 2; 5]%N.
Proof. vm_compute. repeat split. Qed.

(* (m) over whole runs for ALL programs: without NE0 the code's extend() computes the
   not-present arguments from the list AT THE CALL and appends them after the enters;
   log entries for extend carry that snapshot, and every snapshot is the value the
   target's list had after some earlier prefix of the log ([SnapOK]; under NE0 the
   current one, which is C06_members_run_partial) *)
Theorem C06_members_run_snapshots :
  forall (T : Type) (TT : Time T) (cycles fuel : nat) (p : prog T),
    exists log : list (id * sop), Forall (from_prog3 (p_defs p)) log /\
      (forall t, doers (get_sched (do_run cycles fuel p) t) = srun (doers (get_sched (init_st p) t)) t log) /\
      SnapOK (fun t => doers (get_sched (init_st p) t)) log.
Proof. intros T TT cycles fuel p. exact (do_run_members_all cycles fuel p). Qed.
Print Assumptions C06_members_run_snapshots.

(* "first recur in the next cycle" is false of the code for a target that has not
   yet had its pass in the current root cycle (finding D42): doer 1 extends the
   suspended DoDoer 2 with doer 4 at tyme 0; 4 recurs at tyme 0 *)
Definition d42_prog : prog Z :=
  let Y := {| f_es := []; f_out := OYield None |} in
  let R := {| f_es := []; f_out := OReturn RTrue |} in
  {| p_tock := 1%Z; p_limit := Some 6%Z; p_tyme := 0%Z; p_doers := [1; 2]%N;
     p_defs := [(1, FLeaf KFunc [Y; {| f_es := [EExtend 2 [4]]; f_out := OYield None |}; R]);
                (2, FNest 0%Z true [3]);
                (3, FLeaf KDoer [Y; Y; Y]);
                (4, FLeaf KFunc [Y; Y; R])]%N |}.
Theorem C06_next_cycle_refuted :
  exists (p : prog Z) cycles fuel (j : id) (t : Z),
    Wb (p_defs p) = true /\ oof (do_run cycles fuel p) = false /\
    In {| e_kind := Enter; e_id := j; e_tyme := t |} (trace (do_run cycles fuel p)) /\
    In {| e_kind := Recur; e_id := j; e_tyme := t |} (trace (do_run cycles fuel p)) /\
    ~ In j (p_doers p).
Proof.
  exists d42_prog, 10%nat, 100%nat, 4%N, 0%Z. vm_compute.
  repeat split; try (intuition congruence); tauto.
Qed.
Print Assumptions C06_next_cycle_refuted.

(* ---------- histories of runs: membership for EVERY rerun ---------- *)
From Hio Require Import Proofs.SchedHist Proofs.SchedDequeTop3 Proofs.SchedDequeHist.

(* every rerun transforms the doers lists it starts with (a run under a new Doist
   starts the root's list at the given doers) by one log of effects of the program;
   the first run is C06_members_run_partial / C06_members_run_snapshots *)
Theorem C06_members_histories_partial :
  forall (T : Type) (TT : Time T) (cycles fuel : nat) (asyn : bool) (p : prog T) (h : list rerun) (r : rerun),
    NE0 (p_defs p) ->
    exists log : list (id * mop), Forall (from_prog (p_defs p)) log /\
      forall t, doers (get_sched (run_hist cycles fuel asyn p (h ++ [r])) t)
                = mrun (doers (get_sched (rerun_start (run_hist cycles fuel asyn p h) r) t)) t log.
Proof. intros T TT cycles fuel asyn p h r N. exact (run_hist_members cycles fuel asyn p h r N). Qed.
Print Assumptions C06_members_histories_partial.

Theorem C06_members_histories :
  forall (T : Type) (TT : Time T) (cycles fuel : nat) (asyn : bool) (p : prog T) (h : list rerun) (r : rerun),
    exists log : list (id * sop), Forall (from_prog3 (p_defs p)) log /\
      (forall t, doers (get_sched (run_hist cycles fuel asyn p (h ++ [r])) t)
                 = srun (doers (get_sched (rerun_start (run_hist cycles fuel asyn p h) r) t)) t log) /\
      SnapOK (fun t => doers (get_sched (rerun_start (run_hist cycles fuel asyn p h) r) t)) log.
Proof. intros T TT cycles fuel asyn p h r. exact (run_hist_members_all cycles fuel asyn p h r). Qed.
Print Assumptions C06_members_histories.

Example C06_histories_example :
  NE0b (p_defs x_prog) = true /\
  doers (get_sched (run_hist 10 100 false x_prog [RAgain (Some 2%Z) None]) 0%N) = [1; 2; 6]%N /\
  doers (get_sched (run_hist 10 100 false x_prog x_hist) 0%N) = [2; 6]%N.
Proof. vm_compute. repeat split. Qed.
