(* Model of the timers of hio:
     hio.base.tyming.Tymer          (src/hio/base/tyming.py:179-279)  virtual tyme
     hio.help.timing.Timer          (src/hio/help/timing.py:21-103)   wall clock
     hio.help.timing.MonoTimer      (src/hio/help/timing.py:107-188)  wall clock, retrograde handling
     hio.help.timing.AsyncTimer     (src/hio/help/timing.py:191-274)  Timer over the event-loop clock
   generic in a [Time] instance (Base/Time.v): theorems are proved for every
   instance or under [TimeLaws] (discharged by Z); the correspondence runs the
   binary64 instance bit for bit against the real classes.

   The environment of a Tymer op is the tyme at which it happens ([None] = the
   Tymer is not wound to a Tymist: `.tyme` is None).  The environment of the
   wall-clock timers is the list of readings `time.time()` will return, one
   consumed per call, in the order the code makes the calls.

   Every raise site is listed: `None - x`, `x - None`, `None + x`, `None >= x`
   (TypeError) for a Tymer without tyme, RetroTimerError (OtherErr) for a
   MonoTimer with retro=False.  Arguments are floats (`float(x)` is the
   identity); `duration=None` to the Timer/MonoTimer constructors (TypeError,
   no object) is not modelled.  No proofs here. *)
From Hio Require Import Base.Prelude Base.Time.

Section Timers.
Context {T : Type} `{Time T}.

Inductive val := VT (t : T) | VB (b : bool).

(* which property is read *)
Inductive rd := RDuration | RElapsed | RRemaining | RExpired.

(* Python's  x - y  where either side may be None *)
Definition osub (a b : option T) : res T :=
  match a, b with Some x, Some y => Ok (tsub x y) | _, _ => Exc TypeErr end.

(* ------------------------------------------------------------------ Tymer *)

(* _start can become None: start() on an unwound Tymer assigns self.tyme (None)
   to _start before `None + duration` raises. *)
Record tymer := { y_start : option T; y_stop : T }.

Definition y_duration (s : tymer) : res T := osub (Some (y_stop s)) (y_start s).

(* Tymer.start(duration, start) at tyme [now] *)
Definition y_begin (s : tymer) (now dur start : option T) : tymer * res val :=
  match (match dur with Some d => Ok d | None => y_duration s end) with
  | Exc k => (s, Exc k)
  | Ok d =>
    match (match start with Some x => Some x | None => now end) with
    | None => ({| y_start := None; y_stop := y_stop s |}, Exc TypeErr)
    | Some st => ({| y_start := Some st; y_stop := tadd st d |}, Ok (VT st))
    end
  end.

(* Tymer.restart(duration) = start(duration, start=_stop) *)
Definition y_restart (s : tymer) (now dur : option T) : tymer * res val :=
  y_begin s now dur (Some (y_stop s)).

Definition y_read (s : tymer) (now : option T) (k : rd) : res val :=
  match k with
  | RDuration => bind (y_duration s) (fun d => Ok (VT d))
  | RElapsed => bind (osub now (y_start s)) (fun d => Ok (VT d))
  | RRemaining => bind (osub (Some (y_stop s)) now) (fun d => Ok (VT d))
  | RExpired => match now with
                | None => Exc TypeErr
                | Some n => Ok (VB (tleb (y_stop s) n))      (* tyme >= _stop *)
                end
  end.

(* Tymer(duration=dur, start=start) constructed at tyme [now] *)
Definition y_init (now dur start : option T) : tymer :=
  let d := match dur with Some d => d | None => tzero end in            (* Duration = 0.0 *)
  let st := match start with
            | Some x => x
            | None => match now with Some n => n | None => tzero end    (* unwound: start = 0.0 *)
            end in
  let s0 := {| y_start := Some st; y_stop := tadd st d |} in
  fst (y_begin s0 now (Some d) (Some st)).

Inductive yop :=
| YStart (dur start : option T)
| YRestart (dur : option T)
| YWind                          (* wind(tymth): new tyme base, then start() *)
| YRead (k : rd).

Definition y_step (s : tymer) (now : option T) (o : yop) : tymer * res val :=
  match o with
  | YStart dur start => y_begin s now dur start
  | YRestart dur => y_restart s now dur
  | YWind => y_begin s now None None
  | YRead k => (s, y_read s now k)
  end.

(* every op happens at its own tyme; result and state after each op *)
Fixpoint y_run (s : tymer) (ops : list (option T * yop)) : list (res val * tymer) :=
  match ops with
  | [] => []
  | (now, o) :: r => let (s', v) := y_step s now o in (v, s') :: y_run s' r
  end.

Fixpoint y_final (s : tymer) (ops : list (option T * yop)) : tymer :=
  match ops with
  | [] => s
  | (now, o) :: r => y_final (fst (y_step s now o)) r
  end.

(* ------------------------------------------------------------------ clock *)

Definition clock := list T.
(* one call of time.time(); the harness clock returns 0.0 once the script is used up *)
Definition tick (c : clock) : T * clock :=
  match c with [] => (tzero, []) | x :: r => (x, r) end.

Definition start_or_tick (start : option T) (c : clock) : T * clock :=
  match start with Some x => (x, c) | None => tick c end.

(* ------------------------------------------------------------------ Timer *)

Record timer := { w_start : T; w_stop : T }.

Definition w_begin (s : timer) (c : clock) (dur start : option T) : timer * clock * res val :=
  let d := match dur with Some d => d | None => tsub (w_stop s) (w_start s) end in
  let (st, c') := start_or_tick start c in
  ({| w_start := st; w_stop := tadd st d |}, c', Ok (VT st)).

(* Timer(duration, start): reads the clock for _start, then start() reads it again *)
Definition w_init (c : clock) (dur : T) (start : option T) : timer * clock :=
  let (st, c1) := start_or_tick start c in
  let s0 := {| w_start := st; w_stop := tadd st dur |} in
  let '(s, c2, _) := w_begin s0 c1 (Some dur) start in (s, c2).

(* AsyncTimer(duration, start): a textual copy of Timer over the event-loop clock [c]
   (asyncio.get_event_loop().time()), except that the constructor takes its
   provisional _start from the WALL clock time.time() before start() re-reads the
   loop clock; the explicit duration passed to start() makes the wall reading
   irrelevant.  All other ops are Timer's over [c]. *)
Definition a_init (wall : T) (c : clock) (dur : T) (start : option T) : timer * clock :=
  let st := match start with Some x => x | None => wall end in
  let s0 := {| w_start := st; w_stop := tadd st dur |} in
  let '(s, c2, _) := w_begin s0 c (Some dur) start in (s, c2).

Definition w_read (s : timer) (c : clock) (k : rd) : clock * res val :=
  match k with
  | RDuration => (c, Ok (VT (tsub (w_stop s) (w_start s))))
  | RElapsed => let (now, c') := tick c in (c', Ok (VT (tsub now (w_start s))))
  | RRemaining => let (now, c') := tick c in (c', Ok (VT (tsub (w_stop s) now)))
  | RExpired => let (now, c') := tick c in (c', Ok (VB (tleb (w_stop s) now)))
  end.

Inductive wop :=
| WStart (dur start : option T)
| WRestart (dur : option T)
| WRead (k : rd).

Definition w_step (s : timer) (c : clock) (o : wop) : timer * clock * res val :=
  match o with
  | WStart dur start => w_begin s c dur start
  | WRestart dur => w_begin s c dur (Some (w_stop s))
  | WRead k => let (c', v) := w_read s c k in (s, c', v)
  end.

Fixpoint w_run (s : timer) (c : clock) (ops : list wop) : list (res val * timer) * clock :=
  match ops with
  | [] => ([], c)
  | o :: r => let '(s', c', v) := w_step s c o in
              let (l, c'') := w_run s' c' r in ((v, s') :: l, c'')
  end.

(* ------------------------------------------------------------------ MonoTimer *)

Record mono := { m_start : T; m_stop : T; m_last : T; m_retro : bool }.

(* the `latest` property: one clock reading *)
Definition m_latest (s : mono) (c : clock) : mono * clock * res T :=
  let (now, c') := tick c in
  let delta := tsub now (m_last s) in
  if tltb delta tzero then
    if m_retro s then
      let s1 := {| m_start := tadd (m_start s) delta; m_stop := tadd (m_stop s) delta;
                   m_last := tadd (m_last s) delta; m_retro := m_retro s |} in
      (s1, c', Ok (m_last s1))
    else (s, c', Exc OtherErr)                       (* RetroTimerError, before `_last += delta` *)
  else
    let s1 := {| m_start := m_start s; m_stop := m_stop s;
                 m_last := tadd (m_last s) delta; m_retro := m_retro s |} in
    (s1, c', Ok (m_last s1)).

(* start()/restart() are Timer's: they read time.time() directly and leave _last alone *)
Definition m_begin (s : mono) (c : clock) (dur start : option T) : mono * clock * res val :=
  let d := match dur with Some d => d | None => tsub (m_stop s) (m_start s) end in
  let (st, c') := start_or_tick start c in
  ({| m_start := st; m_stop := tadd st d; m_last := m_last s; m_retro := m_retro s |}, c', Ok (VT st)).

Definition m_init (c : clock) (dur : T) (start : option T) (retro : bool) : mono * clock :=
  let (st, c1) := start_or_tick start c in
  let s0 := {| m_start := st; m_stop := tadd st dur; m_last := st; m_retro := retro |} in
  let '(s, c2, _) := m_begin s0 c1 (Some dur) start in (s, c2).

(* Python evaluates the operands left to right:
     elapsed   = self.latest - self._start     _start read after latest shifted it
     remaining = self._stop - self.latest      _stop read BEFORE latest shifts it
     expired   = self.latest >= self._stop     _stop read after *)
Definition m_read (s : mono) (c : clock) (k : rd) : mono * clock * res val :=
  match k with
  | RDuration => (s, c, Ok (VT (tsub (m_stop s) (m_start s))))
  | RElapsed => let '(s', c', l) := m_latest s c in
                (s', c', bind l (fun l => Ok (VT (tsub l (m_start s')))))
  | RRemaining => let stop0 := m_stop s in
                  let '(s', c', l) := m_latest s c in
                  (s', c', bind l (fun l => Ok (VT (tsub stop0 l))))
  | RExpired => let '(s', c', l) := m_latest s c in
                (s', c', bind l (fun l => Ok (VB (tleb (m_stop s') l))))
  end.

Inductive mop :=
| MStart (dur start : option T)
| MRestart (dur : option T)
| MRead (k : rd)
| MLatest.

Definition m_step (s : mono) (c : clock) (o : mop) : mono * clock * res val :=
  match o with
  | MStart dur start => m_begin s c dur start
  | MRestart dur => m_begin s c dur (Some (m_stop s))
  | MRead k => m_read s c k
  | MLatest => let '(s', c', l) := m_latest s c in (s', c', bind l (fun l => Ok (VT l)))
  end.

Fixpoint m_run (s : mono) (c : clock) (ops : list mop) : list (res val * mono) * clock :=
  match ops with
  | [] => ([], c)
  | o :: r => let '(s', c', v) := m_step s c o in
              let (l, c'') := m_run s' c' r in ((v, s') :: l, c'')
  end.

End Timers.

Arguments val T : clear implicits.
Arguments yop T : clear implicits.
Arguments wop T : clear implicits.
Arguments mop T : clear implicits.
Arguments tymer T : clear implicits.
Arguments timer T : clear implicits.
Arguments mono T : clear implicits.
Arguments clock T : clear implicits.

(* ------------------------------------------------------------------ correspondence (binary64) *)

Definition fl := PrimFloat.float.

Definition val_eqb (a b : val fl) : bool :=
  match a, b with
  | VT x, VT y => float_same x y
  | VB x, VB y => Bool.eqb x y
  | _, _ => false
  end.

Definition ysnap := (option fl * fl)%type.          (* _start, _stop *)
Definition wsnap := (fl * fl)%type.                 (* _start, _stop *)
Definition msnap := (fl * fl * fl)%type.            (* _start, _stop, _last *)

Inductive case :=
| CY (now dur start : option fl) (ops : list (option fl * yop fl))
     (snap0 : ysnap) (obs : list (res (val fl) * ysnap))
| CW (clk : list fl) (dur : fl) (start : option fl) (ops : list (wop fl))
     (snap0 : wsnap) (obs : list (res (val fl) * wsnap)) (unread : N)
| CM (clk : list fl) (dur : fl) (start : option fl) (retro : bool) (ops : list (mop fl))
     (snap0 : msnap) (obs : list (res (val fl) * msnap)) (unread : N)
| CA (wall : fl) (clk : list fl) (dur : fl) (start : option fl) (ops : list (wop fl))
     (snap0 : wsnap) (obs : list (res (val fl) * wsnap)) (unread : N).

Definition ysnap_eqb (s : tymer fl) (o : ysnap) : bool :=
  option_eqb float_same (y_start s) (fst o) && float_same (y_stop s) (snd o).
Definition wsnap_eqb (s : timer fl) (o : wsnap) : bool :=
  float_same (w_start s) (fst o) && float_same (w_stop s) (snd o).
Definition msnap_eqb (s : mono fl) (o : msnap) : bool :=
  let '(a, b, l) := o in
  float_same (m_start s) a && float_same (m_stop s) b && float_same (m_last s) l.

Definition obs_eqb {S O} (seqb : S -> O -> bool) (m : res (val fl) * S) (o : res (val fl) * O) : bool :=
  res_eqb val_eqb (fst m) (fst o) && seqb (snd m) (snd o).

Fixpoint list_eqb2 {A B} (eqb : A -> B -> bool) (x : list A) (y : list B) : bool :=
  match x, y with
  | [], [] => true
  | a :: x', b :: y' => eqb a b && list_eqb2 eqb x' y'
  | _, _ => false
  end.

Definition check_case (c : case) : bool :=
  match c with
  | CY now dur start ops snap0 obs =>
      let s := y_init now dur start in
      ysnap_eqb s snap0 && list_eqb2 (obs_eqb ysnap_eqb) (y_run s ops) obs
  | CW clk dur start ops snap0 obs unread =>
      let (s, c1) := w_init clk dur start in
      let (l, c2) := w_run s c1 ops in
      wsnap_eqb s snap0 && list_eqb2 (obs_eqb wsnap_eqb) l obs && N.eqb (N.of_nat (length c2)) unread
  | CM clk dur start retro ops snap0 obs unread =>
      let (s, c1) := m_init clk dur start retro in
      let (l, c2) := m_run s c1 ops in
      msnap_eqb s snap0 && list_eqb2 (obs_eqb msnap_eqb) l obs && N.eqb (N.of_nat (length c2)) unread
  | CA wall clk dur start ops snap0 obs unread =>
      let (s, c1) := a_init wall clk dur start in
      let (l, c2) := w_run s c1 ops in
      wsnap_eqb s snap0 && list_eqb2 (obs_eqb wsnap_eqb) l obs && N.eqb (N.of_nat (length c2)) unread
  end.

(* what the model computes, for diagnosis of a disagreement *)
Definition model_obs (c : case) : list (res (val fl)) :=
  match c with
  | CY now dur start ops _ _ => map fst (y_run (y_init now dur start) ops)
  | CW clk dur start ops _ _ _ => let (s, c1) := w_init clk dur start in map fst (fst (w_run s c1 ops))
  | CM clk dur start retro ops _ _ _ => let (s, c1) := m_init clk dur start retro in map fst (fst (m_run s c1 ops))
  | CA wall clk dur start ops _ _ _ => let (s, c1) := a_init wall clk dur start in map fst (fst (w_run s c1 ops))
  end.

(* ------------------------------------------------------------------ branch classifier *)

Definition is_some {A} (o : option A) : bool := match o with Some _ => true | None => false end.
Definition is_exc {A} (r : res A) : bool := match r with Exc _ => true | Ok _ => false end.

Definition y_branch (s : tymer fl) (now : option fl) (o : yop fl) : nat :=
  match o with
  | YStart dur start =>
      if is_exc (snd (y_step s now o)) then
        (if is_some dur || is_some (y_start s) then 5 else 6)
      else if is_some dur then 3 else 4
  | YRestart dur =>
      if is_some dur then 7 else if is_exc (snd (y_step s now o)) then 9 else 8
  | YWind => if is_exc (snd (y_step s now o)) then 11 else 10
  | YRead k =>
      match y_read s now k with
      | Exc _ => 13
      | Ok (VB true) => 14
      | Ok (VB false) => 15
      | Ok (VT _) => 12
      end
  end.

Fixpoint y_branches (s : tymer fl) (ops : list (option fl * yop fl)) : list nat :=
  match ops with
  | [] => []
  | (now, o) :: r => y_branch s now o :: y_branches (fst (y_step s now o)) r
  end.

Definition w_branch (s : timer fl) (c : clock fl) (o : wop fl) : nat :=
  match o with
  | WStart _ (Some _) => 18
  | WStart _ None => 19
  | WRestart _ => 20
  | WRead k => match snd (w_read s c k) with
               | Ok (VB true) => 22 | Ok (VB false) => 23 | _ => 21 end
  end.

Fixpoint w_branches (s : timer fl) (c : clock fl) (ops : list (wop fl)) : list nat :=
  match ops with
  | [] => []
  | o :: r => let '(s', c', _) := w_step s c o in w_branch s c o :: w_branches s' c' r
  end.

(* which way the clock moved at a `latest` *)
Definition m_latest_branch (s : mono fl) (c : clock fl) : nat :=
  let delta := tsub (fst (tick c)) (m_last s) in
  if tltb delta tzero then (if m_retro s then 29 else 30)
  else if tltb tzero delta then 27 else 28.

Definition m_branch (s : mono fl) (c : clock fl) (o : mop fl) : list nat :=
  match o with
  | MStart _ _ | MRestart _ => [26]
  | MRead RDuration => [21]
  | MRead RExpired =>
      m_latest_branch s c ::
      match snd (m_read s c RExpired) with
      | Ok (VB true) => [31] | Ok (VB false) => [32] | _ => [] end
  | MRead _ | MLatest => [m_latest_branch s c]
  end.

Fixpoint m_branches (s : mono fl) (c : clock fl) (ops : list (mop fl)) : list nat :=
  match ops with
  | [] => []
  | o :: r => let '(s', c', _) := m_step s c o in m_branch s c o ++ m_branches s' c' r
  end.

Definition n_branches : nat := 35.

Definition case_branches (c : case) : list nat :=
  match c with
  | CY now dur start ops _ _ =>
      (if is_some start then 0 else if is_some now then 1 else 2) :: y_branches (y_init now dur start) ops
  | CW clk dur start ops _ _ _ =>
      let (s, c1) := w_init clk dur start in
      (if is_some start then 16 else 17) :: w_branches s c1 ops
  | CM clk dur start retro ops _ _ _ =>
      let (s, c1) := m_init clk dur start retro in
      (if is_some start then 24 else 25) :: m_branches s c1 ops
  | CA wall clk dur start ops _ _ _ =>
      let (s, c1) := a_init wall clk dur start in
      (if is_some start then 33 else 34) :: w_branches s c1 ops
  end.
