"""C18 — WSGI responses are framed and pipelined requests are answered in order.

The real hio.core.http.Server (with its real tcp.Server/Remoter) is driven over a fake accepted
connection: a scripted socket object delivers the pipelined request bytes in scripted fragments and
accepts scripted amounts per send().  The WSGI app is scripted per request (selected by the path
/r<i>), so a mis-ordered or mis-parsed request shows up as the wrong response.  Everything the
server sends, and whether/when it closes the socket, is the observation.

The oracle re-reads the observed byte stream with Python's http.client (an independent reader) and
checks the property text directly.  The Gallina model (Model/Wsgi.v) recomputes the byte stream and
the close flag; its own reader is what the Coq theorems speak about.
"""
import errno, io
from harness.core import coq_bytes, coq_list, coq_bool, coq_option

PROP = "C18"
COQ_REQUIRES = ["Hio.Model.Wsgi"]
COQ_CHECK = "Wsgi.check_case"
COQ_CASE_TYPE = "Wsgi.case"
COQ_BRANCHES = ("Wsgi.case_branches", "Wsgi.n_branches")
SHARD = 60
RULE = ("1-5 pipelined requests on one connection (HTTP/1.0 and 1.1; Connection absent/close/keep-alive in several "
        "spellings; GET, POST with Content-Length body, POST with chunked body; optional malformed Content-Length), each "
        "answered by a scripted WSGI app (status, 0-4 headers incl. optional own Server/Date, 0-6 body pieces incl. empty "
        "ones, Content-Length absent / exact / shorter than the body / zero; generator or list style; optionally start_response "
        "virtual clock advancing up to 6 s per pass against the 5 s idle timeout on persistent connections with slow apps / idle gaps; start_response "
        "called twice with exc_info before the first write, first/second call with/without Content-Length, or illegally after the head was sent).  Request bytes are "
        "delivered in random fragments and the fake socket accepts random amounts per send.  A case is non-trivial when "
        ">= 2 requests were answered on the connection and at least one response had no Content-Length")
MODELLED = ["time: persistent requests switch the connection's idle timeout off, so the model has no clock; the harness advances a "
            "virtual clock and the stream must not depend on it (idle timeouts of non-persistent connections are C12's)",
            "request parsing is abstracted to (version, Connection header, body framing valid?) - the request bytes "
            "are rendered by the harness and parsed by the real Requestant",
            "CIMultiDict header container (as ordered association list, case-insensitive lookup)",
            "Date header value (clock frozen by rebinding serving.datetime; passed to the model as an input)",
            "service-pass scheduling, fragment boundaries and partial sends (the model emits the concatenated stream; "
            "the harness varies the schedule and the stream must not depend on it)"]

DATE = "Mon, 21 Sep 2026 12:00:00 GMT"
CA = ("127.0.0.1", 49152)
HA = ("127.0.0.1", 8080)


# --------------------------------------------------------------------------- fake transport

class FakeSock:
    """Scripted non-blocking socket handed to the real tcp.Server as an accepted connection."""
    def __init__(self, frags, caps):
        self.frags = list(frags)   # one entry per server pass: bytes delivered at that pass (b'' = nothing)
        self.caps = list(caps) or [1 << 20]
        self.k = 0
        self.out = bytearray()
        self.closed = False
        self.closed_at = None
        self.ready = b""

    def setblocking(self, flag): pass
    def getpeername(self): return CA
    def getsockname(self): return HA

    def feed(self):
        if self.frags:
            self.ready += self.frags.pop(0)

    def recv(self, n):
        if self.closed:
            raise OSError(errno.EBADF, "closed")
        if not self.ready:
            raise BlockingIOError(errno.EAGAIN, "would block")
        data, self.ready = self.ready[:n], self.ready[n:]
        return data

    def send(self, data):
        if self.closed:
            raise OSError(errno.EBADF, "closed")
        cap = self.caps[self.k % len(self.caps)]
        self.k += 1
        if cap == 0:
            raise BlockingIOError(errno.EAGAIN, "would block")
        data = bytes(data[:cap])
        self.out += data
        return len(data)

    def shutdown(self, how): pass

    def close(self):
        if not self.closed:
            self.closed = True
            self.closed_at = len(self.out)


class FakeListen:
    def __init__(self, sock):
        self.pending = [(sock, CA)]
    def accept(self):
        if self.pending:
            return self.pending.pop(0)
        raise BlockingIOError(errno.EAGAIN, "would block")
    def shutdown(self, how): pass
    def close(self): pass


class _FakeDatetimeModule:
    """Stands in for the `datetime` module inside serving.py: now() is frozen."""
    import datetime as _dt
    UTC = _dt.UTC
    class datetime(_dt.datetime):
        @classmethod
        def now(cls, tz=None):
            import datetime as dt
            return dt.datetime(2026, 9, 21, 12, 0, 0, tzinfo=tz)


# --------------------------------------------------------------------------- case helpers

def render_request(i, r):
    """Bytes of request i.  r = {v, conn, body} with body ["none"] | ["len", hex] | ["chunked", [hex,...]] |
    ["badlen", text]."""
    kind = r["body"][0]
    method = "GET" if kind == "none" else "POST"
    lines = [f"{method} /r{i} HTTP/{r['v']}", "Host: verif"]
    if r.get("conn") is not None:
        lines.append(f"Connection: {r['conn']}")
    body = b""
    if kind == "len":
        body = bytes.fromhex(r["body"][1])
        lines.append(f"Content-Length: {len(body)}")
    elif kind == "chunked":
        lines.append("Transfer-Encoding: chunked")
        for h in r["body"][1]:
            c = bytes.fromhex(h)
            if c:
                body += b"%x\r\n" % len(c) + c + b"\r\n"
        body += b"0\r\n\r\n"
    elif kind == "badlen":
        lines.append(f"Content-Length: {r['body'][1]}")
    return ("\r\n".join(lines) + "\r\n\r\n").encode("latin-1") + body


def req_persisted(r):
    """Reference reading of 'the request was persistent' (RFC 7230 6.3 as far as hio implements it)."""
    conn = (r.get("conn") or "").lower()
    if r["v"] == "1.1":
        return "close" not in conn
    return "keep-alive" in conn


def fragment(data, cuts):
    """Split data at the given cumulative fractions (ints = absolute sizes); [] = one piece."""
    out, pos = [], 0
    for c in cuts:
        if c == 0:
            out.append(b"")
            continue
        out.append(data[pos:pos + c]); pos += c
        if pos >= len(data):
            break
    if pos < len(data):
        out.append(data[pos:])
    return out


# --------------------------------------------------------------------------- implementation run

def eff_pieces(a):
    """pieces the app gets to yield: an illegal late start_response call kills the generator before piece `late`"""
    return a["pieces"][:a["late"]] if a.get("late") is not None else a["pieces"]


def _make_app(apps, calls, notes=None):
    import sys
    notes = notes if notes is not None else []

    def app(environ, start_response):
        i = int(environ["PATH_INFO"][2:])
        calls.append(i)
        sc = apps[i]
        hdrs = [(n, v) for n, v in sc["headers"]]
        pieces = [bytes.fromhex(p) for p in sc["pieces"]]
        boom = sc.get("raise")   # fault stream only: "call" | "prestart" | k (after start_response, before piece k)
        if boom == "call":
            raise KeyError("application raised when called")

        def begin():
            first = sc.get("first")
            if first:   # PEP 3333: replace a response that has not been sent yet
                start_response(first["status"], [(n, v) for n, v in first["headers"]])
                try:
                    raise RuntimeError("application failed after start_response")
                except RuntimeError:
                    start_response(sc["status"], hdrs, sys.exc_info())
            else:
                start_response(sc["status"], hdrs)

        if sc.get("style") == "list":
            begin()
            return pieces

        def gen():
            if boom == "prestart":
                raise KeyError("application raised before start_response")
            begin()
            for j, p in enumerate(pieces + [None]):
                if isinstance(boom, int) and j == boom:
                    raise KeyError("application raised while producing the body")
                if p is None:
                    return
                if sc.get("late") is not None and j == sc["late"]:
                    exc = RuntimeError("too late")
                    try:
                        raise exc
                    except RuntimeError:
                        try:   # head already sent: must re-raise exc, not replace anything
                            start_response("500 Too Late", [("X-Late", "1")], sys.exc_info())
                            notes.append(["late-accepted", i])
                        except RuntimeError as ex:
                            notes.append(["late-reraised", i, ex is exc])
                            raise
                yield p
        return gen()
    return app


def run_loopback(case, expect_out=None, expect_closed=None, cap=12.0):
    """The same case over a real loopback TCP connection (kernel sockets, real accept).  The server and the client
    socket are serviced until the run has reached the expected end state (all expected bytes received and the
    expected close seen) and then stayed quiet for a short while, or until what was received is no longer a prefix
    of the expected stream, or until a generous wall-clock cap.  Returns the bytes received, whether the server
    closed, the app calls and `reached`; nothing here depends on how many passes the kernel needed."""
    import select, socket, sys, time
    from hio.core import http
    from hio.core.http import serving
    from hio.base import tyming
    calls = []
    app = _make_app(case["apps"], calls)
    stream = b"".join(render_request(i, r) for i, r in enumerate(case["reqs"]))
    probe = socket.socket(); probe.bind(("127.0.0.1", 0)); port = probe.getsockname()[1]; probe.close()
    saved, saved_err = serving.datetime, sys.stderr
    serving.datetime = _FakeDatetimeModule
    sys.stderr = io.StringIO()
    server = cli = None
    try:
        tymist = tyming.Tymist(tyme=0.0)
        server = http.Server(app=app, host="127.0.0.1", port=port)
        server.wind(tymist.tymen())
        if not server.reopen():
            return None
        cli = socket.socket(); cli.connect(("127.0.0.1", port)); cli.setblocking(False)
        got, closed, quiet, sent = bytearray(), False, 0, 0
        deadline = time.time() + cap
        linger = 4   # quiet rounds (of ~50 ms) after the end state, to see stray bytes or an unexpected close

        def reached():
            return expect_out is not None and bytes(got) == expect_out and closed == bool(expect_closed)

        while time.time() < deadline and not closed:
            if sent < len(stream):
                try:
                    sent += cli.send(stream[sent:sent + 97])
                except (BlockingIOError, ConnectionResetError, BrokenPipeError):
                    pass
            server.service()
            progressed = False
            try:
                data = cli.recv(65536)
                if data == b"":
                    closed = True
                else:
                    got += data; progressed = True
            except BlockingIOError:
                pass
            except ConnectionResetError:
                closed = True
            if expect_out is not None and not expect_out.startswith(bytes(got)):
                break   # a real difference: no need to wait
            if progressed or sent < len(stream):
                quiet = 0
                continue
            # nothing moved: Nagle / delayed ACK / a loaded machine hold segments back - wait in real time
            quiet += 1
            if reached() and quiet >= linger:
                break
            if expect_out is None and quiet >= 40:
                break
            select.select([cli], [], [], 0.05)
        return {"out": bytes(got).hex(), "closed": closed, "calls": calls, "reached": reached()}
    finally:
        serving.datetime = saved
        sys.stderr = saved_err
        if cli:
            cli.close()
        if server:
            server.close()


def fault_cases(rng, n):
    """Apps that raise (when called / before start_response / after it, before or after the first body bytes) and apps
    that call start_response illegally after the head was sent.  Outside the Gallina model: checked by fault_oracle."""
    out = [
        {"reqs": [_req(), _req()], "apps": [dict(_app(pieces=["a"]), **{"raise": "call"}), _app(pieces=["next"])]},
        {"reqs": [_req(), _req()], "apps": [dict(_app(pieces=["a"]), **{"raise": "prestart"}), _app(pieces=["next"])]},
        {"reqs": [_req(), _req()], "apps": [dict(_app(pieces=["", "a"]), **{"raise": 1}), _app(pieces=["next"])]},
        {"reqs": [_req(), _req()], "apps": [dict(_app(headers=[("Content-Length", "6")], pieces=["abc", "def"]), **{"raise": 1}), _app(pieces=["next"])]},
        {"reqs": [_req(), _req()], "apps": [dict(_app(pieces=["abc", "def"]), **{"raise": 2}), _app(pieces=["next"])]},
        {"reqs": [_req(), _req()], "apps": [dict(_app(pieces=["sent", "more", "never"]), late=2), _app(pieces=["next"])]},
        {"reqs": [_req("1.0", "keep-alive"), _req()], "apps": [dict(_app(pieces=["x"]), **{"raise": "prestart"}), _app(pieces=["next"])]},
    ]
    while len(out) < n:
        c = gen_case(rng)
        c.pop("tx", None)   # an aborted response is flushed only once before the close: keep sends unlimited
        i = rng.randrange(len(c["apps"]))
        a = c["apps"][i]
        a.pop("first", None)
        a["style"] = "gen" if rng.random() < 0.8 else a["style"]
        kind = rng.random()
        if kind < 0.2:
            a["raise"] = "call"
        elif kind < 0.4 and a["style"] == "gen":
            a["raise"] = "prestart"
        elif kind < 0.8 and a["style"] == "gen":
            a["raise"] = rng.randint(0, len(a["pieces"]))
        elif a["style"] == "gen" and len(a["pieces"]) >= 2 and a["pieces"][0] and app_declared(a) is None:
            a["late"] = rng.randint(1, len(a["pieces"]) - 1)
        else:
            a["raise"] = "call"
        out.append(c)
    return out


def fault_oracle(case, obs):
    """Property of the fault stream: Server.service never raises; a failure before anything was sent is answered by a
    complete, length-framed 500 and the connection goes on as the request asked; a failure after the head was sent
    ends the connection after that response; every earlier response is exact."""
    if "harness_escape" in obs:
        return "Server.service() raised: " + obs["harness_escape"]
    answered, must_close = expected_answered(case)
    data = bytes.fromhex(obs["out"])
    expect, aborted = [], False
    for i in answered:
        a = case["apps"][i]
        boom = a.get("raise")
        pcs = [bytes.fromhex(p) for p in a["pieces"]]
        if boom in ("call", "prestart") or (isinstance(boom, int) and not any(pcs[:boom])):
            # a declared length already satisfied ends the response before the app is resumed
            expect.append((i, "500 Internal Server Error", b"Internal Server Error"))
            continue
        d = app_declared(a)
        k = boom if isinstance(boom, int) else a.get("late")
        if k is not None and not (d is not None and sum(len(p) for p in pcs[:k]) >= d):
            expect.append((i, None, None))   # aborted mid-body
            aborted = True
            break
        expect.append((i, a["status"], app_body(a)))
    if obs["calls"] != [e[0] for e in expect]:
        return f"app invoked for requests {obs['calls']}, expected {[e[0] for e in expect]}"
    if obs["closed"] != (aborted or must_close):
        return f"connection closed={obs['closed']}, expected {aborted or must_close} (aborted={aborted})"
    resps, rest = read_responses(data, len(expect))
    for k, (i, status, body) in enumerate(expect):
        if status is None:
            break
        if k >= len(resps) or "error" in resps[k]:
            return f"response {k} (request {i}) missing or unparsable"
        r = resps[k]
        if r["status"].strip() != status.strip() or r["body"] != body:
            return f"response {k} (request {i}): got {r['status']!r} / {len(r['body'])} bytes, expected {status!r} / {len(body)} bytes"
        if r["framed"] == "close" and not (k == len(expect) - 1 and obs["closed"]):
            if not in_open_class(case):
                return f"response {k} (request {i}) is unframed on an open connection"
    return None


def extra(tier, ctx):
    """Real-kernel soak: a sample of cases is replayed over a loopback TCP connection; the byte stream and the
    close must equal what the fake transport observed (so the fake socket does not distort anything)."""
    import random
    rng = random.Random(ctx.seed * 7919 + 18)
    cases = directed() + [gen_case(rng) for _ in range(10 if tier == "quick" else 90)]
    n = bad = inconclusive = 0
    for c in cases:
        if any(r["body"][0] == "badlen" for r in c["reqs"]):
            continue   # close on a parse error may race with unsent bytes (see design.d/C18.md)
        c = {k: v for k, v in c.items() if k not in ("rx", "tx")}
        fake = run_impl(c)
        want = bytes.fromhex(fake["out"])
        real = run_loopback(c, want, fake["closed"])
        if real is None:
            ctx.notes.append("loopback listen socket unavailable; soak skipped")
            break
        n += 1
        got = bytes.fromhex(real["out"])
        if (got, real["closed"], real["calls"]) == (want, fake["closed"], fake["calls"]):
            continue
        # outcome-level comparison only.  A real run that merely has not got to the end within the wall-clock cap
        # (received bytes are a proper prefix, calls a prefix, no premature close) is inconclusive, not a violation.
        prefix_only = (want.startswith(got) and fake["calls"][:len(real["calls"])] == real["calls"]
                       and not (real["closed"] and not fake["closed"]) and not (real["closed"] and got != want))
        if prefix_only:
            inconclusive += 1
            continue
        bad += 1
        if bad <= 2:
            ctx.violations.append({"kind": "loopback", "case": c,
                                   "why": "over a real loopback connection the server's byte stream / app calls / close differ from the "
                                          f"fake transport run: real closed={real['closed']} {len(got)} bytes calls={real['calls']}; "
                                          f"fake closed={fake['closed']} {len(want)} bytes calls={fake['calls']} "
                                          f"(received bytes are {'a prefix' if want.startswith(got) else 'NOT a prefix'} of the expected stream)"})
    if inconclusive:
        ctx.notes.append(f"loopback soak: {inconclusive} case(s) did not reach the end state within the wall-clock cap (inconclusive)")
    # fault stream: raising applications (not in the Gallina model)
    fc = fault_cases(rng, 150 if tier == "quick" else 1500)
    fbad = 0
    for c in fc:
        try:
            o = run_impl(c)
        except BaseException as ex:
            if isinstance(ex, (KeyboardInterrupt, SystemExit)):
                raise
            o = {"harness_escape": f"{type(ex).__name__}: {ex}"}
        why = fault_oracle(c, o)
        if why and not (in_open_class(c) and "harness_escape" not in o):
            fbad += 1
            if fbad <= 2:
                ctx.violations.append({"kind": "fault-stream", "case": c, "why": why, "observed": o})
    return {"loopback_soak_cases": n, "loopback_soak_mismatches": bad, "loopback_soak_inconclusive": inconclusive, "fault_stream_cases": len(fc), "fault_stream_failures": fbad}



def run_impl(case):
    from hio.core import http
    from hio.core.http import serving
    from hio.base import tyming

    reqs, apps = case["reqs"], case["apps"]
    calls, notes = [], []
    app = _make_app(apps, calls, notes)

    stream = b"".join(render_request(i, r) for i, r in enumerate(reqs))
    sock = FakeSock(fragment(stream, case.get("rx", [])), case.get("tx", []))

    import sys
    saved, saved_err = serving.datetime, sys.stderr
    serving.datetime = _FakeDatetimeModule
    sys.stderr = io.StringIO()   # serviceReqs reports parse errors on stderr
    try:
        # virtual clock: advances by case["tock"] seconds after every pass (0: frozen).  The server keeps its
        # default idle timeout of 5.0 s; a persistent request switches it off for its connection
        tymist = tyming.Tymist(tyme=0.0, tock=float(case.get("tock", 0.0)) or 0.03125)
        server = http.Server(app=app, ha=HA)
        server.wind(tymist.tymen())
        server.servant.ss = FakeListen(sock)
        server.servant.opened = True
        idle = 0
        passes = 0
        limit = 200000  # partial sends of 1 byte per pass are possible; the loop ends on quiescence
        while passes < limit and idle < 4:
            before = (len(sock.out), len(sock.frags), len(sock.ready), len(calls))
            sock.feed()
            server.service()
            passes += 1
            if case.get("tock"):
                tymist.tick()
            ix = server.servant.ixes.get(CA)
            busy = bool(ix and ix.txbs) or any(not r.ended for r in server.reps.values())
            after = (len(sock.out), len(sock.frags), len(sock.ready), len(calls))
            idle = 0 if (before != after or busy) and not sock.closed else idle + 1
        rep = server.reps.get(CA)
        obs = {
            "out": bytes(sock.out).hex(),
            "closed": sock.closed,
            "closed_at": sock.closed_at,
            "calls": calls, "notes": notes,
            "passes": passes,
            "unsent": len(server.servant.ixes[CA].txbs) if CA in server.servant.ixes else 0,
            "unread": len(sock.ready) + sum(len(f) for f in sock.frags),
        }
        server.servant.ss = None
        server.close()
        return obs
    finally:
        serving.datetime = saved
        sys.stderr = saved_err


# --------------------------------------------------------------------------- oracle (independent reader)

class _NoCloseReader(io.BufferedReader):
    def close(self):  # http.client closes its fp after each response; the stream is shared
        pass


class _SockShim:
    def __init__(self, fp): self.fp = fp
    def makefile(self, mode): return self.fp


def read_responses(data, n_expected):
    """Parse up to n_expected consecutive responses from data with http.client.  Returns list of dicts
    (or a dict with 'error' as last element) and the number of unconsumed bytes."""
    import http.client
    fp = _NoCloseReader(io.BytesIO(data))
    out = []
    for _ in range(n_expected):
        if not fp.peek(1):
            break
        resp = http.client.HTTPResponse(_SockShim(fp), method="GET")
        try:
            resp.begin()
            framed = "chunked" if resp.chunked else ("length" if resp.length is not None else "close")
            declared = resp.length
            body = resp.read()
        except Exception as ex:  # IncompleteRead, BadStatusLine, ...
            out.append({"error": f"{type(ex).__name__}: {ex}"})
            break
        out.append({"status": f"{resp.status} {resp.reason}", "headers": [[k.lower(), v] for k, v in resp.getheaders()],
                    "body": body, "framed": framed, "declared": declared})
    rest = len(fp.read())
    return out, rest


ADDED = ("server", "date", "transfer-encoding")


def expected_answered(case):
    """Indices of the requests that must be answered: up to and including the first non-persistent one;
    a request with a malformed Content-Length ends the connection unanswered (400-less close; C16's business)."""
    idx = []
    for i, r in enumerate(case["reqs"]):
        if r["body"][0] == "badlen":
            return idx, True
        idx.append(i)
        if not req_persisted(r):
            return idx, True
    return idx, False


def app_declared(a):
    for n, v in a["headers"]:
        if n.lower() == "content-length":
            return int(v)
    return None


def app_body(a):
    body = b"".join(bytes.fromhex(p) for p in eff_pieces(a))
    d = app_declared(a)
    return body if d is None else body[:d]


def oracle(case, obs):
    data = bytes.fromhex(obs["out"])
    answered, must_close = expected_answered(case)
    if obs["unsent"]:
        return f"{obs['unsent']} response bytes were never sent"
    # closed exactly when a non-persistent request was answered (or the stream turned invalid)
    if obs["closed"] != must_close:
        return (f"connection {'closed' if obs['closed'] else 'left open'} but "
                f"{'a non-persistent request was answered' if must_close else 'every request was persistent'}")
    if obs["closed"] and obs["closed_at"] != len(data):
        return "bytes were sent after close"
    for n in obs.get("notes", []):
        if n[0] == "late-accepted" or (n[0] == "late-reraised" and not n[2]):
            return f"start_response with exc_info after the head was sent did not re-raise the application's exception (request {n[1]})"
    if obs["calls"] != answered:
        return f"app invoked for requests {obs['calls']}, expected {answered} (request order / exactly once)"
    resps, rest = read_responses(data, len(answered))
    for k, i in enumerate(answered):
        a = case["apps"][i]
        if k >= len(resps):
            return f"response {k} (request {i}) missing from the stream"
        r = resps[k]
        if "error" in r:
            return f"response {k} (request {i}) does not parse: {r['error']}"
        last = (k == len(answered) - 1)
        if r["framed"] == "close" and not (last and obs["closed"]):
            return (f"response {k} (request {i}) is not self-delimiting (no Content-Length, not chunked) "
                    f"and the connection stays open")
        if r["status"].strip() != a["status"].strip():
            return f"response {k}: status {r['status']!r} != app's {a['status']!r}"
        got = [h for h in r["headers"] if h[0] not in ADDED or h[0] in [n.lower() for n, _ in a["headers"]]]
        want = [[n.lower(), v] for n, v in a["headers"]]
        if got != want:
            return f"response {k}: headers {got} != app's {want}"
        d = app_declared(a)
        if d is not None and len(r["body"]) > d:
            return f"response {k}: body of {len(r['body'])} bytes exceeds declared Content-Length {d}"
        if r["body"] != app_body(a):
            return f"response {k} (request {i}): body differs from the app's output ({len(r['body'])} vs {len(app_body(a))} bytes)"
    if rest or len(resps) > len(answered):
        return f"{rest} stray bytes after the last expected response"
    return None


def in_open_class(case):
    """D21b: an HTTP/1.0 keep-alive request answered without Content-Length (no chunking in 1.0, connection kept)."""
    answered, _ = expected_answered(case)
    for i in answered:
        r, a = case["reqs"][i], case["apps"][i]
        if r["v"] == "1.0" and req_persisted(r) and app_declared(a) is None:
            return True
    return False


def classify(case, obs, why):
    if in_open_class(case) and ("not self-delimiting" in why or "does not parse" in why or "missing from the stream" in why
                                or "differs" in why or "stray" in why):
        return "C18-D21b-http10-keepalive-unframed"
    return None


def nontrivial(case, obs):
    answered, _ = expected_answered(case)
    return len(obs["calls"]) >= 2 and any(app_declared(case["apps"][i]) is None for i in obs["calls"])


# --------------------------------------------------------------------------- streams

def _hx(s):
    return s.encode("latin-1").hex() if isinstance(s, str) else bytes(s).hex()


def _req(v="1.1", conn=None, body=("none",)):
    return {"v": v, "conn": conn, "body": list(body)}


def _app(status="200 OK", headers=(), pieces=(), style="gen"):
    return {"status": status, "headers": [list(h) for h in headers], "pieces": [_hx(p) for p in pieces], "style": style}


def directed():
    cl = lambda n: ("Content-Length", str(n))
    ct = ("Content-Type", "text/plain")
    return [
        # two 1.1 requests, both chunked responses (the D21 witness)
        {"reqs": [_req(), _req()], "apps": [_app(headers=[ct], pieces=["hello ", "", "world"]), _app(pieces=["second"])]},
        # first with Content-Length, second without (start() cleared chunkable)
        {"reqs": [_req(), _req(), _req(conn="close")],
         "apps": [_app(headers=[cl(5), ct], pieces=["hello"]), _app("404 Not Found", pieces=["a", "b"]), _app(pieces=[])]},
        # clamp: body longer than declared; early end; then another response
        {"reqs": [_req(), _req()], "apps": [_app(headers=[cl(4)], pieces=["ab", "cdef", "gh"]), _app(headers=[cl(0)], pieces=["x"])]},
        # HTTP/1.0 without keep-alive: unframed, delimited by close; later requests unanswered
        {"reqs": [_req("1.0"), _req()], "apps": [_app(pieces=["old", "school"]), _app(pieces=["never"])]},
        # HTTP/1.0 keep-alive with Content-Length, then 1.1 chunked on the same connection, then close
        {"reqs": [_req("1.0", "keep-alive"), _req(), _req("1.0")],
         "apps": [_app(headers=[cl(3)], pieces=["abc"]), _app(pieces=["x" * 20]), _app(headers=[cl(2)], pieces=["", "zz"])]},
        # HTTP/1.0 keep-alive without Content-Length (open finding D21b)
        {"reqs": [_req("1.0", "Keep-Alive"), _req("1.0", "Keep-Alive")], "apps": [_app(pieces=["one"]), _app(pieces=["two"])]},
        # request bodies (length and chunked) are consumed; app sets its own Server and Date
        {"reqs": [_req(body=("len", _hx("GET /r9 HTTP/1.1\r\n\r\n"))), _req(body=("chunked", [_hx("abc"), _hx("de")])), _req(conn="Close")],
         "apps": [_app(headers=[("Server", "mine"), ("X-A", "1")], pieces=["p"], style="list"),
                  _app(headers=[("date", "never"), cl(1)], pieces=["q"]), _app("500 Internal Server Error", pieces=["", ""])],
         "rx": [7, 1, 30, 0, 2, 50], "tx": [5, 0, 1, 200]},
        # malformed Content-Length in second request: connection closed, second unanswered
        {"reqs": [_req(), _req(body=("badlen", "abc")), _req()], "apps": [_app(pieces=["ok"]), _app(pieces=["no"]), _app(pieces=["no"])]},
        # start_response called twice (exc_info) before anything is written: first CL / no CL x second CL / no CL, 1.1 and 1.0
        {"reqs": [_req(), _req(), _req(), _req(), _req("1.0", "keep-alive"), _req("1.0", "keep-alive"), _req()],
         "apps": [dict(_app("500 Replaced", headers=[ct], pieces=["replacement body longer than five"]), first={"status": "200 OK", "headers": [list(cl(5))]}),
                  dict(_app("500 Replaced", headers=[cl(9)], pieces=["replacement"]), first={"status": "200 OK", "headers": [list(cl(2))]}),
                  dict(_app("500 Replaced", headers=[cl(4)], pieces=["abcd", "ef"]), first={"status": "200 OK", "headers": []}),
                  dict(_app("500 Replaced", pieces=["x", "", "yz"], style="list"), first={"status": "200 OK", "headers": [list(ct)]}),
                  dict(_app("500 Replaced", headers=[cl(3)], pieces=["abc"]), first={"status": "200 OK", "headers": [list(cl(50))]}),
                  dict(_app("500 Replaced", headers=[cl(3)], pieces=["abc"]), first={"status": "200 OK", "headers": []}),
                  _app(pieces=["after"])]},
        # virtual time advances 1.5 s per pass, server idle timeout 5 s: a persistent connection must survive a slow app
        # (many empty yields, > 5 s without a byte moved) and idle gaps between requests
        {"tock": 1.5, "reqs": [_req(), _req(), _req()],
         "apps": [_app(pieces=["start"] + [""] * 8 + ["end"]), _app(headers=[cl(6)], pieces=["abc"] + [""] * 7 + ["def"]), _app(pieces=["last"])],
         "rx": [33, 0, 0, 0, 0, 0, 0, 0, 0, 0, 0, 0, 0, 0, 33, 0, 0, 0, 0, 0, 0, 0, 0, 0, 0, 0, 0, 0, 0, 0, 0, 0, 33]},
        {"tock": 2.0, "reqs": [_req("1.0", "keep-alive"), _req("1.0", "keep-alive")],
         "apps": [_app(headers=[cl(4)], pieces=["ab", "", "", "", "", "cd"]), _app(headers=[cl(2)], pieces=["", "", "", "", "ok"])],
         "rx": [59, 0, 0, 0, 0, 0, 0, 0, 0, 0, 0, 0, 0, 59]},
        # Connection: close on 1.1 with chunked response, empty body
        {"reqs": [_req(conn="close")], "apps": [_app("204 No Content" if False else "200 OK", pieces=[""])]},
    ]


HEADER_POOL = [("Content-Type", "text/plain"), ("content-type", "application/json; charset=utf-8"), ("X-Tag", "a b  c"),
               ("ETag", "\"x:y\""), ("Set-Cookie", "a=1; Path=/"), ("Set-Cookie", "b=2"), ("Server", "scripted/1.0"),
               ("Date", "Thu, 01 Jan 1970 00:00:00 GMT"), ("x-empty", ""), ("Cache-Control", "no-cache, no-store")]
STATUSES = ["200 OK", "201 Created", "404 Not Found", "500 Internal Server Error", "302 Found", "418 I'm a teapot", "200 "]
CONNS = [None, None, None, "close", "Close", "keep-alive", "Keep-Alive", "keep-alive, Upgrade", "TE, close", "upgrade"]


def _rand_bytes(rng, n, tricky):
    if tricky and n >= 4 and rng.random() < 0.3:
        pool = [b"\r\n", b"0\r\n\r\n", b"HTTP/1.1 200 OK\r\n", b"Content-Length: 3\r\n\r\n", b"\r\n\r\n", b"5\r\n"]
        s = b""
        while len(s) < n:
            s += rng.choice(pool) if rng.random() < 0.5 else bytes([rng.randrange(256)])
        return s[:n]
    return bytes(rng.randrange(256) for _ in range(n))


def gen_case(rng, malformed=False):
    n = rng.choice([1, 2, 2, 3, 3, 4, 5])
    reqs, apps = [], []
    for i in range(n):
        v = "1.0" if rng.random() < 0.25 else "1.1"
        conn = rng.choice(CONNS)
        if v == "1.0" and rng.random() < 0.5:
            conn = rng.choice(["keep-alive", "Keep-Alive"])
        if i < n - 1 and rng.random() < 0.7 and conn and "close" in conn.lower():
            conn = None  # keep most connections going
        bk = rng.random()
        if malformed and rng.random() < 0.2:
            body = ["badlen", rng.choice(["abc", "-5", "1x"])]
        elif bk < 0.5:
            body = ["none"]
        elif bk < 0.8:
            body = ["len", _rand_bytes(rng, rng.choice([0, 1, 5, 40]), True).hex()]
        else:
            body = ["chunked", [_rand_bytes(rng, rng.choice([1, 3, 17]), True).hex() for _ in range(rng.randint(0, 3))]]
        reqs.append({"v": v, "conn": conn, "body": body})
        k = rng.choice([0, 1, 2, 2, 3, 4, 6])
        pieces = []
        for _ in range(k):
            ln = 0 if rng.random() < 0.25 else rng.choice([1, 2, 5, 16, 17, 60, 255, 256, 300])
            pieces.append(_rand_bytes(rng, ln, True))
        total = sum(len(p) for p in pieces)
        headers = [list(h) for h in rng.sample(HEADER_POOL, rng.randint(0, 3))]
        c = rng.random()
        want_cl = c < 0.45 or (v == "1.0" and conn and c < 0.8)
        if want_cl:
            m = rng.random()
            d = total if m < 0.6 else (rng.randint(0, total) if m < 0.9 or total == 0 else 0)
            name = rng.choice(["Content-Length", "content-length", "CONTENT-LENGTH"])
            headers.insert(rng.randint(0, len(headers)), [name, str(d)])
        ap = {"status": rng.choice(STATUSES).strip() if rng.random() < 0.95 else "200 OK", "headers": headers,
              "pieces": [p.hex() for p in pieces], "style": rng.choice(["gen", "gen", "list"])}
        if rng.random() < 0.25:   # an abandoned first start_response call
            fh = [list(h) for h in rng.sample(HEADER_POOL, rng.randint(0, 2))]
            if rng.random() < 0.6:
                fh.insert(rng.randint(0, len(fh)), ["Content-Length", str(rng.choice([0, 1, 3, 7, 40, 1000]))])
            ap["first"] = {"status": rng.choice(STATUSES).strip(), "headers": fh}
        apps.append(ap)
    case = {"reqs": reqs, "apps": apps}
    if not malformed and rng.random() < 0.2:
        # clocked case: every request persistent (their connection has its idle timeout switched off), slow apps and idle gaps
        for r in reqs:
            r["conn"] = "keep-alive" if r["v"] == "1.0" else rng.choice([None, "keep-alive", "upgrade"])
        for a in apps:
            if rng.random() < 0.6 and a["pieces"]:
                k = rng.randrange(len(a["pieces"]) + 1)
                a["pieces"][k:k] = [""] * rng.randint(4, 12)
        case["tock"] = rng.choice([0.7, 1.5, 3.0, 6.0])
        cuts = [len(render_request(0, reqs[0]))]   # the first request arrives whole: no idle time before it is parsed
        for i in range(1, len(reqs)):
            cuts += [0] * rng.randint(0, 10) + [len(render_request(i, reqs[i]))]
        case["rx"] = cuts
        if rng.random() < 0.5:
            case["tx"] = [rng.choice([1, 7, 50, 4096]) for _ in range(rng.randint(1, 4))]
        return case
    if malformed:
        # a malformed request closes the connection at once and drops what is still queued of the previous
        # response (outside the property's quantifier, see design.d/C18.md): keep sends unlimited here
        if rng.random() < 0.7:
            case["rx"] = [rng.choice([0, 1, 2, 3, 10, 40, 100, 1000]) for _ in range(rng.randint(1, 12))]
        return case
    if rng.random() < 0.7:
        case["rx"] = [rng.choice([0, 1, 2, 3, 10, 40, 100, 1000]) for _ in range(rng.randint(1, 12))]
    if rng.random() < 0.7:
        case["tx"] = [rng.choice([0, 1, 2, 7, 50, 100, 4096]) for _ in range(rng.randint(1, 6))]
        if not any(case["tx"]):
            case["tx"].append(9)
    return case


def generate(rng, tier):
    n = 500 if tier == "quick" else 8000
    out = [gen_case(rng) for _ in range(n)]
    out += [gen_case(rng, malformed=True) for _ in range(n // 8)]
    return out


def shrink(case):
    n = len(case["reqs"])
    for i in range(n):
        if n > 1:
            yield {**case, "reqs": case["reqs"][:i] + case["reqs"][i + 1:], "apps": case["apps"][:i] + case["apps"][i + 1:]}
    if case.get("rx"):
        yield {k: v for k, v in case.items() if k != "rx"}
    if case.get("tx"):
        yield {k: v for k, v in case.items() if k != "tx"}
    for i, a in enumerate(case["apps"]):
        for j in range(len(a["pieces"])):
            b = dict(a); b["pieces"] = a["pieces"][:j] + a["pieces"][j + 1:]
            yield {**case, "apps": case["apps"][:i] + [b] + case["apps"][i + 1:]}
        for j in range(len(a["headers"])):
            b = dict(a); b["headers"] = a["headers"][:j] + a["headers"][j + 1:]
            yield {**case, "apps": case["apps"][:i] + [b] + case["apps"][i + 1:]}


def distribution(cases, obs):
    d = {"requests": {}, "answered": {}, "no_content_length": 0, "http10": 0, "clamped": 0, "closed": 0}
    for c, o in zip(cases, obs):
        if not isinstance(o, dict) or "calls" not in o:
            continue
        d["requests"][len(c["reqs"])] = d["requests"].get(len(c["reqs"]), 0) + 1
        d["answered"][len(o["calls"])] = d["answered"].get(len(o["calls"]), 0) + 1
        d["closed"] += bool(o["closed"])
        for i in o["calls"]:
            a = c["apps"][i]
            dl = app_declared(a)
            d["no_content_length"] += dl is None
            d["http10"] += c["reqs"][i]["v"] == "1.0"
            d["clamped"] += dl is not None and dl < sum(len(p) // 2 for p in a["pieces"])
    return d


# --------------------------------------------------------------------------- Gallina emitter

def _b(s):
    return coq_bytes(s.encode("latin-1") if isinstance(s, str) else s)


def to_coq(case, obs):
    pairs = []
    for r, a in zip(case["reqs"], case["apps"]):
        rq = "{| Wsgi.r_v11 := %s; Wsgi.r_conn := %s; Wsgi.r_ok := %s |}" % (
            coq_bool(r["v"] == "1.1"), coq_option(r.get("conn"), _b, "bytes"), coq_bool(r["body"][0] != "badlen"))
        hs = coq_list(["(%s, %s)" % (_b(n), _b(v)) for n, v in a["headers"]], "bytes * bytes")
        f = a.get("first")
        fst = "(@None (bytes * list Wsgi.header))" if not f else "(Some (%s, %s))" % (
            _b(f["status"]), coq_list(["(%s, %s)" % (_b(n), _b(v)) for n, v in f["headers"]], "bytes * bytes"))
        ap = "{| Wsgi.a_status := %s; Wsgi.a_headers := %s; Wsgi.a_pieces := %s; Wsgi.a_first := %s |}" % (
            _b(a["status"]), hs, coq_list([coq_bytes(bytes.fromhex(p)) for p in eff_pieces(a)], "bytes"), fst)
        pairs.append(f"({rq}, {ap})")
    return "{| Wsgi.c_date := %s; Wsgi.c_conn := %s; Wsgi.c_out := %s; Wsgi.c_closed := %s |}" % (
        _b(DATE), coq_list(pairs, "Wsgi.req * Wsgi.app"), coq_bytes(bytes.fromhex(obs["out"])), coq_bool(obs["closed"]))
