From Hio Require Import Base.Prelude Model.B64.
From Coq Require Import ZifyBool ZifyN ZifyNat.
Local Open Scope N_scope.

(* ---------- digit <-> character tables (finite sweeps lifted) ---------- *)

Definition all_idx : list N := map N.of_nat (seq 0 64).
Definition all_chr : list N := map N.of_nat (seq 0 128).

Lemma in_all_idx d : d < 64 -> In d all_idx.
Proof.
  intros H. unfold all_idx. rewrite <- (N2Nat.id d). apply in_map, in_seq. lia.
Qed.
Lemma in_all_chr c : c < 128 -> In c all_chr.
Proof.
  intros H. unfold all_chr. rewrite <- (N2Nat.id c). apply in_map, in_seq. lia.
Qed.

Lemma idx_chr_sweep :
  forallb (fun d => option_eqb N.eqb (idx_of_chr (chr_of_idx d)) (Some d)) all_idx = true.
Proof. vm_compute. reflexivity. Qed.

Lemma idx_chr d : d < 64 -> idx_of_chr (chr_of_idx d) = Some d.
Proof.
  intros H. pose proof idx_chr_sweep as S. rewrite forallb_forall in S.
  specialize (S d (in_all_idx d H)). unfold option_eqb in S.
  destruct (idx_of_chr (chr_of_idx d)) as [x|]; [|discriminate].
  apply N.eqb_eq in S. now subst.
Qed.

Lemma chr_idx_sweep :
  forallb (fun c => match idx_of_chr c with
                    | Some d => N.eqb (chr_of_idx d) c && (d <? 64)
                    | None => true end) all_chr = true.
Proof. vm_compute. reflexivity. Qed.

Lemma idx_high c : 128 <= c -> idx_of_chr c = None.
Proof.
  intros H. unfold idx_of_chr.
  destruct ((65 <=? c) && (c <=? 90)) eqn:E1; [lia|].
  destruct ((97 <=? c) && (c <=? 122)) eqn:E2; [lia|].
  destruct ((48 <=? c) && (c <=? 57)) eqn:E3; [lia|].
  destruct (c =? 45) eqn:E4; [lia|].
  destruct (c =? 95) eqn:E5; [lia|]. reflexivity.
Qed.

Lemma chr_idx c d : idx_of_chr c = Some d -> chr_of_idx d = c /\ d < 64.
Proof.
  intros H. destruct (N.lt_ge_cases c 128) as [Hc|Hc].
  - pose proof chr_idx_sweep as S. rewrite forallb_forall in S.
    specialize (S c (in_all_chr c Hc)). rewrite H in S.
    apply andb_true_iff in S as [S1 S2]. apply N.eqb_eq in S1. apply N.ltb_lt in S2. now split.
  - rewrite idx_high in H by assumption. discriminate.
Qed.

(* ---------- base-64 value of a least-significant-first digit list ---------- *)

Fixpoint val_lsb (ds : list N) : N :=
  match ds with [] => 0 | d :: r => d + 64 * val_lsb r end.

Definition digit (d : N) : Prop := d < 64.

Lemma val_lsb_app a b : val_lsb (a ++ b) = val_lsb a + 64 ^ N.of_nat (length a) * val_lsb b.
Proof.
  induction a as [|d a IH]; cbn [app val_lsb length].
  - change (N.of_nat 0) with 0. rewrite N.pow_0_r. lia.
  - rewrite IH, Nat2N.inj_succ, N.pow_succ_r'. lia.
Qed.

Lemma val_lsb_zeros k : val_lsb (repeat 0 k) = 0.
Proof. induction k as [|k IH]; cbn [repeat val_lsb]; [reflexivity|]. rewrite IH. reflexivity. Qed.

Lemma val_lsb_bound ds : Forall digit ds -> val_lsb ds < 64 ^ N.of_nat (length ds).
Proof.
  induction 1 as [|d r Hd Hr IH]; cbn [val_lsb length].
  - change (N.of_nat 0) with 0. rewrite N.pow_0_r. lia.
  - rewrite Nat2N.inj_succ, N.pow_succ_r'. unfold digit in Hd. lia.
Qed.

Lemma val_lsb_zero_inv ds : Forall digit ds -> val_lsb ds = 0 -> ds = repeat 0 (length ds).
Proof.
  induction 1 as [|d r Hd Hr IH]; cbn [val_lsb length repeat]; intro E; [reflexivity|].
  assert (d = 0) by lia. assert (val_lsb r = 0) by lia. subst d. f_equal. now apply IH.
Qed.

(* digs computes the digits: value and well-formedness *)
Lemma digs_spec fuel : forall i, (0 < fuel)%nat -> i < 64 ^ N.of_nat fuel ->
  val_lsb (digs fuel i) = i /\ Forall digit (digs fuel i) /\ digs fuel i <> [] /\
  (length (digs fuel i) <= fuel)%nat.
Proof.
  induction fuel as [|f IH]; intros i Hf Hi; [lia|].
  cbn [digs].
  assert (Hm : i mod 64 < 64) by (apply N.mod_lt; lia).
  assert (Hdm : i = 64 * (i / 64) + i mod 64) by (apply N.div_mod'; lia).
  destruct (i / 64 =? 0) eqn:E.
  - apply N.eqb_eq in E. cbn [val_lsb length].
    repeat split; [lia| repeat constructor; exact Hm | discriminate | lia].
  - apply N.eqb_neq in E.
    rewrite Nat2N.inj_succ, N.pow_succ_r' in Hi.
    assert (Hq : i / 64 < 64 ^ N.of_nat f) by (apply N.div_lt_upper_bound; lia).
    assert (Hf' : (0 < f)%nat).
    { destruct f; [|lia]. change (N.of_nat 0) with 0 in Hq. rewrite N.pow_0_r in Hq. lia. }
    destruct (IH (i / 64) Hf' Hq) as (V & W & _ & L).
    cbn [val_lsb length]. rewrite V.
    repeat split; [lia| constructor; assumption | discriminate | lia].
Qed.

Lemma fuel_ok i : (0 < fuel_for i)%nat /\ i < 64 ^ N.of_nat (fuel_for i).
Proof.
  unfold fuel_for. split; [lia|].
  rewrite Nat2N.inj_succ, N2Nat.id.
  pose proof (N.size_gt i) as H.
  eapply N.lt_le_trans; [exact H|].
  change 64 with (2 ^ 6). rewrite <- N.pow_mul_r.
  apply N.pow_le_mono_r; lia.
Qed.

(* a digit list is determined by value and length *)
Lemma val_lsb_inj a : forall b, Forall digit a -> Forall digit b ->
  length a = length b -> val_lsb a = val_lsb b -> a = b.
Proof.
  induction a as [|x a IH]; intros [|y b] Ha Hb L E; cbn in L; try discriminate; [reflexivity|].
  inversion Ha as [|? ? Hx Ha']; inversion Hb as [|? ? Hy Hb']; subst.
  cbn [val_lsb] in E. unfold digit in Hx, Hy.
  assert (x = y) by lia. assert (val_lsb a = val_lsb b) by lia. subst. f_equal.
  apply IH; auto.
Qed.

(* ---------- b64ToInt ---------- *)

Lemma lor_shift_disjoint i d k : i < 2 ^ k -> N.lor i (N.shiftl d k) = i + d * 2 ^ k.
Proof.
  intros H. rewrite N.shiftl_mul_pow2.
  assert (L : N.land i (d * 2 ^ k) = 0).
  { apply N.bits_inj. intro n. rewrite N.land_spec, N.bits_0.
    destruct (N.lt_ge_cases n k) as [Hn|Hn].
    - rewrite N.mul_pow2_bits_low by assumption. apply andb_false_r.
    - destruct (N.eq_dec i 0) as [->|Hi]; [now rewrite N.bits_0|].
      rewrite (N.bits_above_log2 i n); [reflexivity|].
      apply N.log2_lt_pow2; [lia|]. eapply N.lt_le_trans; [exact H|].
      apply N.pow_le_mono_r; lia. }
  rewrite <- N.lxor_lor by exact L. symmetry. now apply N.add_nocarry_lxor.
Qed.

Lemma b64_fold_spec ds : forall e i, Forall digit ds -> i < 2 ^ (6 * e) ->
  b64_fold (map chr_of_idx ds) e i = Ok (i + val_lsb ds * 2 ^ (6 * e)).
Proof.
  induction ds as [|d r IH]; intros e i Hds Hi; cbn [map b64_fold val_lsb].
  - f_equal. lia.
  - inversion Hds as [|? ? Hd Hr]; subst. unfold digit in Hd.
    rewrite idx_chr by assumption.
    replace (e * 6) with (6 * e) by lia.
    rewrite lor_shift_disjoint by assumption.
    assert (P : 2 ^ (6 * (e + 1)) = 64 * 2 ^ (6 * e)).
    { replace (6 * (e + 1)) with (6 + 6 * e) by lia. rewrite N.pow_add_r. reflexivity. }
    rewrite IH; [|assumption|].
    + f_equal. rewrite P. lia.
    + rewrite P. nia.
Qed.

Definition b64str (s : list N) : Prop := Forall (fun c => exists d, idx_of_chr c = Some d) s.

Lemma b64str_digits s : b64str s -> exists ds, s = map chr_of_idx ds /\ Forall digit ds.
Proof.
  induction 1 as [|c s [d Hc] _ (ds & E & F)].
  - exists []. split; [reflexivity|constructor].
  - apply chr_idx in Hc as [Hc Hd]. exists (d :: ds). cbn [map]. split; [now rewrite Hc, E | now constructor].
Qed.

Lemma b64ToInt_spec ds : ds <> [] -> Forall digit ds ->
  b64ToInt (rev (map chr_of_idx ds)) = Ok (val_lsb ds).
Proof.
  intros Hne Hds. unfold b64ToInt.
  destruct (rev (map chr_of_idx ds)) eqn:E.
  - apply (f_equal (@length N)) in E. rewrite rev_length, map_length in E.
    destruct ds; [contradiction|discriminate].
  - rewrite <- E, rev_involutive.
    rewrite b64_fold_spec; [|assumption|rewrite N.mul_0_r, N.pow_0_r; lia].
    f_equal. rewrite N.mul_0_r, N.pow_0_r. lia.
Qed.

(* ---------- intToB64 / b64ToInt round trip ---------- *)

Lemma intToB64_rev i l : (0 < l)%nat ->
  rev (intToB64 i l) =
  map chr_of_idx (digs (fuel_for i) i ++ repeat 0 (l - length (digs (fuel_for i) i))).
Proof.
  intros Hl. unfold intToB64. destruct l as [|l']; [lia|].
  rewrite rev_app_distr, <- map_rev, rev_involutive, rev_length, map_app.
  f_equal.
  assert (R : forall k, rev (repeat 65 k) = map chr_of_idx (repeat 0 k)).
  { induction k as [|k IHk]; [reflexivity|]. cbn [repeat map rev]. rewrite IHk.
    change (chr_of_idx 0) with 65.
    clear. induction k as [|k IHk]; [reflexivity|]. cbn [repeat map app]. now rewrite IHk. }
  apply R.
Qed.

Lemma int_roundtrip i l : (0 < l)%nat -> b64ToInt (intToB64 i l) = Ok i.
Proof.
  intros Hl.
  destruct (fuel_ok i) as [F1 F2].
  destruct (digs_spec (fuel_for i) i F1 F2) as (V & W & Ne & _).
  rewrite <- (rev_involutive (intToB64 i l)), intToB64_rev by assumption.
  rewrite b64ToInt_spec.
  - rewrite val_lsb_app, val_lsb_zeros, V. f_equal. lia.
  - destruct (digs (fuel_for i) i); [contradiction|discriminate].
  - apply Forall_app. split; [assumption|].
    apply Forall_forall. intros x Hx. apply repeat_spec in Hx. subst. unfold digit. lia.
Qed.

Lemma int_length i l : (0 < l)%nat ->
  length (intToB64 i l) = Nat.max l (length (digs (fuel_for i) i)).
Proof.
  intros Hl. unfold intToB64. destruct l as [|l']; [lia|].
  rewrite app_length, repeat_length, map_length, rev_length. lia.
Qed.

(* the number of digits is minimal: 64^(n-1) <= i when n > 1 *)
Lemma digs_minimal fuel : forall i, (0 < fuel)%nat -> i < 64 ^ N.of_nat fuel ->
  (1 < length (digs fuel i))%nat -> 64 ^ N.of_nat (length (digs fuel i) - 1) <= i.
Proof.
  induction fuel as [|f IH]; intros i Hf Hi; [lia|].
  cbn [digs]. destruct (i / 64 =? 0) eqn:E; cbn [length]; [lia|]. intros _.
  apply N.eqb_neq in E.
  assert (Hdm : i = 64 * (i / 64) + i mod 64) by (apply N.div_mod'; lia).
  rewrite Nat2N.inj_succ, N.pow_succ_r' in Hi.
  assert (Hq : i / 64 < 64 ^ N.of_nat f) by (apply N.div_lt_upper_bound; lia).
  assert (Hf' : (0 < f)%nat).
  { destruct f; [|lia]. change (N.of_nat 0) with 0 in Hq. rewrite N.pow_0_r in Hq. lia. }
  destruct (digs_spec f (i / 64) Hf' Hq) as (_ & _ & Ne & _).
  replace (S (length (digs f (i / 64))) - 1)%nat with (length (digs f (i / 64))) by lia.
  destruct (Nat.lt_ge_cases 1 (length (digs f (i / 64)))) as [H1|H1].
  - specialize (IH (i / 64) Hf' Hq H1).
    replace (length (digs f (i / 64))) with (S (length (digs f (i / 64)) - 1)) at 1 by lia.
    rewrite Nat2N.inj_succ, N.pow_succ_r'. lia.
  - assert (L : length (digs f (i / 64)) = 1%nat).
    { destruct (digs f (i / 64)); [contradiction|]. cbn [length] in *. lia. }
    rewrite L. change (N.of_nat 1) with 1. rewrite N.pow_1_r. lia.
Qed.

(* ---------- the other direction: text -> int -> text ---------- *)

Lemma divmod64 d v : d < 64 -> (d + 64 * v) mod 64 = d /\ (d + 64 * v) / 64 = v.
Proof.
  intros Hd.
  assert (E : d + 64 * v = v * 64 + d) by lia. rewrite E.
  split.
  - rewrite N.add_comm, N.mod_add by lia. now apply N.mod_small.
  - rewrite N.div_add_l by lia. rewrite (N.div_small d 64) by exact Hd. lia.
Qed.

Lemma digs_of_val ds : forall fuel, Forall digit ds -> ds <> [] ->
  (length ds <= fuel)%nat ->
  digs fuel (val_lsb ds) ++ repeat 0 (length ds - length (digs fuel (val_lsb ds))) = ds.
Proof.
  induction ds as [|d r IH]; intros fuel Hds Hne Hf; [contradiction|].
  inversion Hds as [|? ? Hd Hr]; subst. unfold digit in Hd.
  destruct fuel as [|f]; [cbn in Hf; lia|].
  cbn [val_lsb digs].
  destruct (divmod64 d (val_lsb r) Hd) as [M Q].
  rewrite M, Q.
  destruct (val_lsb r =? 0) eqn:E.
  - apply N.eqb_eq in E. cbn [length app]. f_equal.
    rewrite (val_lsb_zero_inv r Hr E) at 2. f_equal. lia.
  - apply N.eqb_neq in E. cbn [length app]. f_equal.
    assert (Hrne : r <> []) by (intro; subst; cbn in E; contradiction).
    cbn [length] in Hf.
    replace (S (length r) - S (length (digs f (val_lsb r))))%nat
      with (length r - length (digs f (val_lsb r)))%nat by lia.
    apply IH; [assumption|assumption|lia].
Qed.

Lemma intToB64_of_val ds : Forall digit ds -> ds <> [] ->
  intToB64 (val_lsb ds) (length ds) = rev (map chr_of_idx ds).
Proof.
  intros Hds Hne.
  assert (Hl : (0 < length ds)%nat) by (destruct ds; [contradiction|cbn; lia]).
  rewrite <- (rev_involutive (intToB64 _ _)). f_equal.
  rewrite intToB64_rev by assumption. f_equal.
  (* digits computed with fuel_for agree with those computed with fuel = length ds *)
  destruct (fuel_ok (val_lsb ds)) as [F1 F2].
  destruct (digs_spec _ _ F1 F2) as (V & W & Ne & L).
  pose proof (val_lsb_bound ds Hds) as B.
  set (dg := digs (fuel_for (val_lsb ds)) (val_lsb ds)) in *.
  (* dg has at most length ds digits: otherwise 64^(len dg - 1) <= val < 64^(len ds) *)
  assert (Hlen : (length dg <= length ds)%nat).
  { destruct (Nat.le_gt_cases (length dg) (length ds)) as [?|Hgt]; [assumption|exfalso].
    assert (H1 : (1 < length dg)%nat) by lia.
    pose proof (digs_minimal _ _ F1 F2 H1) as Hmin. fold dg in Hmin.
    assert (64 ^ N.of_nat (length ds) <= 64 ^ N.of_nat (length dg - 1)) by (apply N.pow_le_mono_r; lia).
    lia. }
  apply val_lsb_inj.
  - apply Forall_app. split; [assumption|].
    apply Forall_forall. intros x Hx. apply repeat_spec in Hx. subst. unfold digit. lia.
  - assumption.
  - rewrite app_length, repeat_length. lia.
  - rewrite val_lsb_app, val_lsb_zeros, V. lia.
Qed.

Lemma text_roundtrip s : s <> [] -> b64str s ->
  bind (b64ToInt s) (fun i => Ok (intToB64 i (length s))) = Ok s.
Proof.
  intros Hne Hs. destruct (b64str_digits _ Hs) as (ds0 & E & F).
  set (ds := rev ds0).
  assert (Es : s = rev (map chr_of_idx ds)) by (unfold ds; now rewrite map_rev, rev_involutive).
  assert (Fd : Forall digit ds) by (unfold ds; apply Forall_rev; exact F).
  assert (Nd : ds <> []).
  { intro Z. rewrite Z in Es. cbn in Es. contradiction. }
  rewrite Es at 1. rewrite b64ToInt_spec by assumption. cbn [bind].
  f_equal. replace (length s) with (length ds) by (rewrite Es, rev_length, map_length; reflexivity).
  rewrite intToB64_of_val by assumption. now symmetry.
Qed.

(* ---------- bytes <-> integers ---------- *)

Definition byte (x : N) : Prop := x < 256.

Fixpoint val_le (l : list N) : N :=
  match l with [] => 0 | x :: r => x + 256 * val_le r end.

Lemma from_bytes_snoc b x : from_bytes (b ++ [x]) = from_bytes b * 256 + x.
Proof. unfold from_bytes. now rewrite fold_left_app. Qed.

Lemma from_bytes_rev l : from_bytes (rev l) = val_le l.
Proof.
  induction l as [|x l IH]; [reflexivity|].
  cbn [rev val_le]. rewrite from_bytes_snoc, IH. lia.
Qed.

Lemma to_bytes_le_length n : forall i, length (to_bytes_le n i) = n.
Proof. induction n as [|n IH]; intro i; cbn [to_bytes_le length]; [reflexivity|now rewrite IH]. Qed.

Lemma to_bytes_le_val n : forall i, i < 256 ^ N.of_nat n -> val_le (to_bytes_le n i) = i.
Proof.
  induction n as [|n IH]; intros i Hi; cbn [to_bytes_le val_le].
  - change (N.of_nat 0) with 0 in Hi. rewrite N.pow_0_r in Hi. lia.
  - rewrite Nat2N.inj_succ, N.pow_succ_r' in Hi.
    rewrite IH by (apply N.div_lt_upper_bound; lia).
    pose proof (N.div_mod' i 256). lia.
Qed.

Lemma to_bytes_le_bytes n : forall i, Forall byte (to_bytes_le n i).
Proof.
  induction n as [|n IH]; intro i; cbn [to_bytes_le]; constructor; [|apply IH].
  unfold byte. apply N.mod_lt. lia.
Qed.

Lemma val_le_bound l : Forall byte l -> val_le l < 256 ^ N.of_nat (length l).
Proof.
  induction 1 as [|x r Hx Hr IH]; cbn [val_le length].
  - change (N.of_nat 0) with 0. rewrite N.pow_0_r. lia.
  - rewrite Nat2N.inj_succ, N.pow_succ_r'. unfold byte in Hx. lia.
Qed.

Lemma from_bytes_bound b : Forall byte b -> from_bytes b < 256 ^ N.of_nat (length b).
Proof.
  intros H. rewrite <- (rev_involutive b) at 1. rewrite from_bytes_rev.
  rewrite <- (rev_length b). apply val_le_bound. now apply Forall_rev.
Qed.

Lemma from_to_bytes n i out : to_bytes n i = Ok out ->
  from_bytes out = i /\ length out = n /\ Forall byte out.
Proof.
  unfold to_bytes. destruct (i <? 256 ^ N.of_nat n) eqn:E; [|discriminate].
  intros H. injection H as <-. apply N.ltb_lt in E.
  rewrite from_bytes_rev, rev_length, to_bytes_le_length, to_bytes_le_val by assumption.
  repeat split. apply Forall_rev, to_bytes_le_bytes.
Qed.

Lemma to_bytes_ok n i : i < 256 ^ N.of_nat n -> exists out, to_bytes n i = Ok out.
Proof.
  intros H. unfold to_bytes. apply N.ltb_lt in H. rewrite H. eexists. reflexivity.
Qed.

(* 8 * ceil(3l/4) = 6l + 2*(l mod 4) *)
Lemma bits_layout l : 8 * N.of_nat (nbytes l) = 6 * N.of_nat l + padbits l.
Proof.
  unfold nbytes, padbits.
  assert (E : (l = 4 * (l / 4) + l mod 4)%nat) by (apply Nat.div_mod; lia).
  assert (B : (l mod 4 < 4)%nat) by (apply Nat.mod_upper_bound; lia).
  set (q := (l / 4)%nat) in *. set (r := (l mod 4)%nat) in *.
  assert (Hn : ((l * 3 + 3) / 4 = 3 * q + (3 * r + 3) / 4)%nat).
  { rewrite E. replace ((4 * q + r) * 3 + 3)%nat with ((3 * r + 3) + (3 * q) * 4)%nat by lia.
    rewrite Nat.div_add by lia. lia. }
  assert (Hm : N.of_nat l mod 4 = N.of_nat r).
  { rewrite E. rewrite Nat2N.inj_add, Nat2N.inj_mul. change (N.of_nat 4) with 4.
    rewrite N.add_comm, N.mul_comm, N.mod_add by lia. apply N.mod_small. lia. }
  rewrite Hn, Hm.
  assert (C : (r = 0 \/ r = 1 \/ r = 2 \/ r = 3)%nat) by lia.
  destruct C as [C|[C|[C|C]]]; rewrite C;
    match goal with |- context[((3 * ?x + 3) / 4)%nat] =>
      let v := eval compute in ((3 * x + 3) / 4)%nat in
      change ((3 * x + 3) / 4)%nat with v end; lia.
Qed.

Lemma pow256 n : 256 ^ n = 2 ^ (8 * n).
Proof. change 256 with (2 ^ 8). now rewrite <- N.pow_mul_r. Qed.
Lemma pow64 n : 64 ^ n = 2 ^ (6 * n).
Proof. change 64 with (2 ^ 6). now rewrite <- N.pow_mul_r. Qed.

(* ---------- code text -> binary -> text ---------- *)

Lemma code_roundtrip s : s <> [] -> b64str s ->
  bind (codeB64ToB2 s) (fun b => codeB2ToB64 b (length s)) = Ok s.
Proof.
  intros Hne Hs. destruct (b64str_digits _ Hs) as (ds0 & E & F).
  set (ds := rev ds0).
  assert (Es : s = rev (map chr_of_idx ds)) by (unfold ds; now rewrite map_rev, rev_involutive).
  assert (Fd : Forall digit ds) by (unfold ds; apply Forall_rev; exact F).
  assert (Nd : ds <> []) by (intro Z; rewrite Z in Es; cbn in Es; contradiction).
  assert (Ls : length s = length ds) by (rewrite Es, rev_length, map_length; reflexivity).
  unfold codeB64ToB2. rewrite Es at 1. rewrite b64ToInt_spec by assumption. cbn [bind].
  set (v := val_lsb ds). set (L := length s). set (p := padbits L). set (n := nbytes L).
  assert (Hv : v < 2 ^ (6 * N.of_nat L)).
  { unfold v, L. rewrite Ls, <- pow64. now apply val_lsb_bound. }
  assert (Hi : N.shiftl v p < 256 ^ N.of_nat n).
  { rewrite N.shiftl_mul_pow2, pow256. unfold n, p. rewrite bits_layout, N.pow_add_r.
    apply N.mul_lt_mono_pos_r; [|exact Hv]. apply N.neq_0_lt_0, N.pow_nonzero. lia. }
  destruct (to_bytes_ok _ _ Hi) as [out Ho]. rewrite Ho. cbn [bind].
  destruct (from_to_bytes _ _ _ Ho) as (Fo & Lo & _).
  unfold codeB2ToB64. fold L n p.
  assert (Hlt : Nat.ltb (length out) n = false) by (apply Nat.ltb_ge; lia).
  rewrite Hlt. f_equal.
  rewrite firstn_all2 by lia. rewrite Fo.
  rewrite N.shiftr_div_pow2, N.shiftl_mul_pow2, N.div_mul by (apply N.pow_nonzero; lia).
  unfold v, L. rewrite Ls, intToB64_of_val by assumption. now symmetry.
Qed.

(* ---------- nabSextets keeps exactly the leading 6*l bits ---------- *)

Lemma nab_spec b l : Forall byte b -> (nbytes l <= length b)%nat ->
  exists out, nabSextets b l = Ok out /\ length out = nbytes l /\ Forall byte out /\
    forall k, N.testbit (from_bytes out) k =
              N.testbit (from_bytes (firstn (nbytes l) b)) k && (padbits l <=? k).
Proof.
  intros Hb Hlen. unfold nabSextets.
  assert (Hlt : Nat.ltb (length b) (nbytes l) = false) by (apply Nat.ltb_ge; lia).
  rewrite Hlt.
  set (n := nbytes l). set (p := padbits l). set (P := from_bytes (firstn n b)).
  assert (HP : P < 256 ^ N.of_nat n).
  { unfold P. replace n with (length (firstn n b)) at 2 by (apply firstn_length_le; exact Hlen).
    apply from_bytes_bound. apply Forall_forall. intros x Hx.
    apply (proj1 (Forall_forall _ _) Hb). rewrite <- (firstn_skipn n b). apply in_or_app. now left. }
  assert (Hle : N.shiftl (N.shiftr P p) p <= P).
  { rewrite N.shiftl_mul_pow2, N.shiftr_div_pow2, N.mul_comm.
    apply N.mul_div_le. apply N.pow_nonzero. lia. }
  assert (Hi : N.shiftl (N.shiftr P p) p < 256 ^ N.of_nat n) by lia.
  destruct (to_bytes_ok _ _ Hi) as [out Ho]. exists out.
  destruct (from_to_bytes _ _ _ Ho) as (Fo & Lo & Bo).
  repeat split; try assumption.
  intros k. rewrite Fo.
  destruct (p <=? k) eqn:E.
  - apply N.leb_le in E. rewrite N.shiftl_spec_high' by exact E.
    rewrite N.shiftr_spec'. rewrite N.sub_add by exact E. now rewrite andb_true_r.
  - apply N.leb_gt in E. rewrite N.shiftl_spec_low by exact E. now rewrite andb_false_r.
Qed.
