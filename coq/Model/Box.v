(* Model of the boxwork executor: hio.base.hier.boxing (Box.pile/_trace, the
   Box nabe methods, Boxer.exen, Boxer.predo/rendo/endo/redo/exdo/rexdo, the
   first pass and the transition block of Boxer.run, Boxer.end), as of the
   tree with the four D28 repairs:
     exdos, endos, rexdos, rendos = self.exen(self.box, dest)
     rejected transition resets endos/rendos
     end() exits list(reversed(self.box.pile)).
   Boxes are numbered 0..n-1.  Every act is a trace-recording callable, so an
   act is identified by (kind, box, index in its act list); calling it emits
   that event.  No proofs here. *)
From Hio Require Import Base.Prelude.

Inductive kind := KPre | KRm | KRen | KEm | KEn | KRe | KAf | KGo | KEx | KRex.

Definition kind_idx (k : kind) : nat :=
  match k with KPre => 0 | KRm => 1 | KRen => 2 | KEm => 3 | KEn => 4
             | KRe => 5 | KAf => 6 | KGo => 7 | KEx => 8 | KRex => 9 end.
Definition kind_of_nat (n : nat) : kind :=
  match n with 0 => KPre | 1 => KRm | 2 => KRen | 3 => KEm | 4 => KEn
             | 5 => KRe | 6 => KAf | 7 => KGo | 8 => KEx | _ => KRex end.
Definition kind_eqb (a b : kind) : bool := Nat.eqb (kind_idx a) (kind_idx b).

Record ev := Ev { ek : kind; eb : nat; ei : nat }.
Definition E (k b i : nat) : ev := Ev (kind_of_nat k) b i.
Definition ev_eqb (x y : ev) : bool :=
  kind_eqb (ek x) (ek y) && Nat.eqb (eb x) (eb y) && Nat.eqb (ei x) (ei y).

(* .over, .unders and the lengths of the ten act lists of every box *)
Record forest := { overs : list (option nat);
                   unders : list (list nat);
                   counts : list (list nat) }.

Definition over (F : forest) (b : nat) : option nat := nth b (overs F) None.
Definition under0 (F : forest) (b : nat) : option nat :=
  match nth b (unders F) [] with u :: _ => Some u | [] => None end.
Definition cnt (F : forest) (k : kind) (b : nat) : nat :=
  nth (kind_idx k) (nth b (counts F) []) 0.
Definition size (F : forest) : nat := length (overs F).

(* Box._trace: overs inserted at the front while walking up, then self, then
   unders[0] appended while walking down.  Python loops while the link is
   truthy; fuel = number of boxes suffices for every acyclic forest. *)
Fixpoint ups (F : forest) (fuel b : nat) (acc : list nat) : list nat :=
  match fuel with
  | 0 => acc
  | S f => match over F b with Some o => ups F f o (o :: acc) | None => acc end
  end.
Fixpoint downs (F : forest) (fuel b : nat) : list nat :=
  match fuel with
  | 0 => []
  | S f => match under0 F b with Some u => u :: downs F f u | None => [] end
  end.
Definition pile (F : forest) (b : nat) : list nat :=
  ups F (size F) b [] ++ b :: downs F (size F) b.

(* Boxer.exen on the two piles: (common, near_only, far_only) at the first
   index i with far is nears[i] or fars[i] is not nears[i]; falling out of
   the loop returns None (the caller's unpacking then raises TypeError). *)
Fixpoint exen_split (far : nat) (nears fars : list nat)
  : option (list nat * list nat * list nat) :=
  match nears, fars with
  | n :: ns, f :: fs =>
    if Nat.eqb far n || negb (Nat.eqb f n) then Some ([], nears, fars)
    else match exen_split far ns fs with
         | Some (c, no, fo) => Some (f :: c, no, fo)
         | None => None
         end
  | _, _ => None
  end.

Record quad := { exdos : list nat; endos : list nat; rexdos : list nat; rendos : list nat }.
Definition exen (F : forest) (near far : nat) : option quad :=
  match exen_split far (pile F near) (pile F far) with
  | Some (c, no, fo) => Some {| exdos := rev no; endos := fo; rexdos := rev c; rendos := c |}
  | None => None
  end.

(* Box nabe methods: call the acts of a list in list order *)
Definition acts (F : forest) (k : kind) (b : nat) : list ev :=
  map (Ev k b) (seq 0 (cnt F k b)).
Definition box_rendo F b := acts F KRm b ++ acts F KRen b.
Definition box_endo F b := acts F KEm b ++ acts F KEn b.
Definition box_redo F b := acts F KRe b.
Definition box_afdo F b := acts F KAf b.
Definition box_exdo F b := acts F KEx b.
Definition box_rexdo F b := acts F KRex b.

(* Boxer.rendo/endo/exdo/rexdo: the given boxes in the given order *)
Definition rendo F l := flat_map (box_rendo F) l.
Definition endo F l := flat_map (box_endo F) l.
Definition redo F l := flat_map (box_redo F) l.
Definition exdo F l := flat_map (box_exdo F) l.
Definition rexdo F l := flat_map (box_rexdo F) l.

(* What a preact returns.  Box.predo tests "if not preact()": the precondition is met exactly when the value
   is truthy.  Preacts listed in [fs] return the given value during this op, all others return True. *)
Inductive pyv :=
| PTrue | PFalse | PNone
| PInt (z : Z)            (* 0 is falsy *)
| PFloat (zero : bool)    (* 0.0 is falsy *)
| PStr (len : nat)        (* '' is falsy *)
| PList (len : nat)       (* [] is falsy *)
| PObj.                   (* a plain object() is truthy *)
Definition truthy (v : pyv) : bool :=
  match v with
  | PTrue | PObj => true
  | PFalse | PNone => false
  | PInt z => negb (Z.eqb z 0)
  | PFloat zero => negb zero
  | PStr n | PList n => negb (Nat.eqb n 0)
  end.

Definition failset := list (nat * nat * pyv).
Fixpoint preact_value (fs : failset) (b i : nat) : pyv :=
  match fs with
  | [] => PTrue
  | (b', i', v) :: fs' => if Nat.eqb b' b && Nat.eqb i' i then v else preact_value fs' b i
  end.
(* met := truthy v *)
Definition fails (fs : failset) (b i : nat) : bool := negb (truthy (preact_value fs b i)).

Fixpoint box_predo_from (fs : failset) (b : nat) (is : list nat) : list ev * bool :=
  match is with
  | [] => ([], true)
  | i :: is' =>
    if fails fs b i then ([Ev KPre b i], false)
    else let (t, r) := box_predo_from fs b is' in (Ev KPre b i :: t, r)
  end.
Definition box_predo F fs b := box_predo_from fs b (seq 0 (cnt F KPre b)).

Fixpoint predo (F : forest) (fs : failset) (l : list nat) : list ev * bool :=
  match l with
  | [] => ([], true)
  | b :: l' =>
    let (t, ok) := box_predo F fs b in
    if ok then let (t', ok') := predo F fs l' in (t ++ t', ok')
    else (t, false)
  end.

(* goacts: (box, index, dest) triples return dest during this op, all other
   goacts return None *)
Definition goset := list (nat * nat * nat).
Fixpoint go_dest (gos : goset) (b k : nat) : option nat :=
  match gos with
  | [] => None
  | (b', k', d) :: g => if Nat.eqb b' b && Nat.eqb k' k then Some d else go_dest g b k
  end.

(* locals of one pass of the while loop in Boxer.run *)
Record pst := { p_tr : list ev;          (* events so far *)
                p_endos : list nat;      (* local endos *)
                p_rendos : list nat;     (* local rendos *)
                p_box : nat;             (* self.box *)
                p_transit : bool;
                p_err : bool }.          (* TypeError from unpacking None *)

Definition emit (s : pst) (t : list ev) : pst :=
  {| p_tr := p_tr s ++ t; p_endos := p_endos s; p_rendos := p_rendos s;
     p_box := p_box s; p_transit := p_transit s; p_err := p_err s |}.

(* for goact in box.goacts *)
Fixpoint go_loop (F : forest) (fs : failset) (gos : goset) (b : nat) (ks : list nat) (s : pst) : pst :=
  match ks with
  | [] => s
  | k :: ks' =>
    let s1 := emit s [Ev KGo b k] in
    match go_dest gos b k with
    | None => go_loop F fs gos b ks' s1
    | Some dest =>
      match exen F (p_box s1) dest with
      | None => {| p_tr := p_tr s1; p_endos := p_endos s1; p_rendos := p_rendos s1;
                   p_box := p_box s1; p_transit := false; p_err := true |}
      | Some q =>
        let (t, ok) := predo F fs (endos q) in
        if ok then
          {| p_tr := p_tr s1 ++ t ++ exdo F (exdos q) ++ rexdo F (rexdos q);
             p_endos := endos q; p_rendos := rendos q;
             p_box := dest; p_transit := true; p_err := false |}
        else
          go_loop F fs gos b ks'
            {| p_tr := p_tr s1 ++ t; p_endos := []; p_rendos := [];
               p_box := p_box s1; p_transit := false; p_err := false |}
      end
    end
  end.

(* for box in self.box.pile *)
Fixpoint box_loop (F : forest) (fs : failset) (gos : goset) (bs : list nat) (s : pst) : pst :=
  match bs with
  | [] => s
  | b :: bs' =>
    let s1 := go_loop F fs gos b (seq 0 (cnt F KGo b)) (emit s (box_afdo F b)) in
    if p_transit s1 || p_err s1 then s1 else box_loop F fs gos bs' s1
  end.

Inductive status := Idle | Active (b : nat) | Done (r : bool) | Crashed.

Definition status_eqb (x y : status) : bool :=
  match x, y with
  | Idle, Idle | Crashed, Crashed => true
  | Active a, Active b => Nat.eqb a b
  | Done a, Done b => Bool.eqb a b
  | _, _ => false
  end.

(* one pass without the end condition *)
Definition pass (F : forest) (fs : failset) (gos : goset) (active : nat) : status * list ev :=
  let s0 := {| p_tr := []; p_endos := []; p_rendos := []; p_box := active;
               p_transit := false; p_err := false |} in
  let s := box_loop F fs gos (pile F active) s0 in
  if p_err s then (Crashed, p_tr s)
  else (Active (p_box s),
        p_tr s ++ rendo F (p_rendos s) ++ endo F (p_endos s) ++ redo F (pile F (p_box s))).

(* next() plus the first send(): predo of first.pile, then enter it *)
Definition start (F : forest) (fs : failset) (first : nat) : status * list ev :=
  let (t, ok) := predo F fs (pile F first) in
  if ok then (Active first, t ++ rendo F [] ++ endo F (pile F first) ++ redo F (pile F first))
  else (Done false, t).

(* a pass that finds the end condition set: Boxer.end *)
Definition finish (F : forest) (active : nat) : status * list ev :=
  (Done true, exdo F (rev (pile F active))).

Inductive op :=
| Start (first : nat) (fs : failset)
| Pass (gos : goset) (fs : failset)
| End.

Definition step (F : forest) (st : status) (o : op) : status * list ev :=
  match st, o with
  | Idle, Start first fs => start F fs first
  | Active b, Pass gos fs => pass F fs gos b
  | Active b, End => finish F b
  | _, _ => (st, [])     (* nothing to drive: generator not created / already returned *)
  end.

Fixpoint run (F : forest) (st : status) (ops : list op) : list (status * list ev) :=
  match ops with
  | [] => []
  | o :: ops' => let r := step F st o in r :: run F (fst r) ops'
  end.

(* events that exit, re-exit, re-enter or enter a box *)
Definition is_struct (k : kind) : bool :=
  match k with KRm | KRen | KEm | KEn | KEx | KRex => true | _ => false end.
Definition structural (t : list ev) : list ev := filter (fun e => is_struct (ek e)) t.

(* --- all forests over n boxes in which every over has a smaller number
   (children ordered by number): every ordered forest shape has such a
   numbering (preorder) --- *)
Fixpoint all_overs (n : nat) : list (list (option nat)) :=
  match n with
  | 0 => [[]]
  | S m => flat_map (fun l => map (fun c => l ++ [c]) (None :: map Some (seq 0 m))) (all_overs m)
  end.
Definition option_nat_eqb := option_eqb Nat.eqb.
Definition unders_of (ov : list (option nat)) : list (list nat) :=
  map (fun b => filter (fun u => option_nat_eqb (nth u ov None) (Some b)) (seq 0 (length ov)))
      (seq 0 (length ov)).
Definition forest_of (ov : list (option nat)) (cs : list nat) : forest :=
  {| overs := ov; unders := unders_of ov; counts := map (fun _ => cs) ov |}.

(* --- correspondence --- *)
(* ---- building the boxwork with the bx verb: Boxer.bx(name, over) where over is an explicit box (by name or
   object), None (top level), or left to its default "" = the current level, i.e. the over given to the previously
   declared box (None before the first box): "m.over = over" after every declaration ---- *)
Inductive omode := MExplicit (o : nat) | MNone | MDefault.

Definition resolve_over (level : option nat) (m : omode) : option nat :=
  match m with MExplicit o => Some o | MNone => None | MDefault => level end.

Fixpoint build_from (level : option nat) (ds : list (nat * omode)) : list (nat * option nat) :=
  match ds with
  | [] => []
  | (b, m) :: ds' => let o := resolve_over level m in (b, o) :: build_from o ds'
  end.
(* (box, its over) in declaration order *)
Definition build (ds : list (nat * omode)) : list (nat * option nat) := build_from None ds.
(* over.unders.append(box) in declaration order *)
Definition built_unders (bo : list (nat * option nat)) (b : nat) : list nat :=
  map fst (filter (fun e => option_nat_eqb (snd e) (Some b)) bo).
Fixpoint built_over (bo : list (nat * option nat)) (b : nat) : option (option nat) :=
  match bo with
  | [] => None
  | (b', o) :: bo' => if Nat.eqb b' b then Some o else built_over bo' b
  end.

(* ---- the verbs at / do / be: under which context (nabe) an act is filed.  Contexts are numbered 0 = native and
   kind_idx k + 1 for the act lists (so 5 = endo).  at(ctx) sets the current context, every bx resets it to native;
   do / be file their act under the explicit nabe= when given, else under the current context, and native means the
   act class's own default context [dflt] (endo for Act and Beact, redo for Count, exdo for Discount, enmark /
   remark for the marks, ...) ---- *)
Definition NATIVE : nat := 0.
Definition ENDO : nat := 5.
Definition verb_ctx (explicit : option nat) (at_ctx dflt : nat) : nat :=
  let n := match explicit with Some e => e | None => at_ctx end in
  if Nat.eqb n NATIVE then dflt else n.

Inductive stmt :=
| SAt (ctx : nat)
| SAct (explicit : option nat) (dflt : nat) (k j : nat).   (* do / be of the act (kind k, index j), class default dflt *)

(* the statements of one box -> (context filed under, k, j) in filing order *)
Fixpoint file_from (at_ctx : nat) (ss : list stmt) : list (nat * (nat * nat)) :=
  match ss with
  | [] => []
  | SAt c :: ss' => file_from c ss'
  | SAct e d k j :: ss' => (verb_ctx e at_ctx d, (k, j)) :: file_from at_ctx ss'
  end.
Definition file_acts (ss : list stmt) : list (nat * (nat * nat)) := file_from NATIVE ss.
Definition filed_under (fl : list (nat * (nat * nat))) (ctx : nat) : list (nat * nat) :=
  map snd (filter (fun e => Nat.eqb (fst e) ctx) fl).

Record case := { c_forest : forest;
                 c_ops : list op;
                 c_obs : list (status * list ev);
                 c_decl : list (nat * omode);                       (* the bx declarations, [] = boxes linked directly *)
                 c_built : list (nat * option nat * list nat);      (* observed per declared box: over, unders *)
                 c_stmts : list (list stmt);                        (* per box: its at / do / be statements *)
                 c_filed : list (list (nat * list (nat * nat)));    (* observed per box: (context, acts in that list) *)
                 c_rstmts : list (list stmt);                       (* per box: do(<registered class name>) statements, built only *)
                 c_rfiled : list (list (nat * list (nat * nat))) }.

(* the structure bx built is the model's fold, and it is the forest the case runs on *)
Definition check_built (c : case) : bool :=
  let bo := build (c_decl c) in
  list_eqb (fun x y => Nat.eqb (fst (fst x)) (fst (fst y)) && option_nat_eqb (snd (fst x)) (snd (fst y))
                       && list_eqb Nat.eqb (snd x) (snd y))
           (map (fun e => (fst e, snd e, built_unders bo (fst e))) bo) (c_built c) &&
  forallb (fun e => option_nat_eqb (over (c_forest c) (fst e)) (snd e) &&
                    list_eqb Nat.eqb (nth (fst e) (unders (c_forest c)) []) (built_unders bo (fst e))) bo.

(* the act lists the verbs built are the model's filing, and every act sits in the list of its own kind, in index
   order, as many as the forest says *)
Definition pair_nat_eqb (x y : nat * nat) : bool := Nat.eqb (fst x) (fst y) && Nat.eqb (snd x) (snd y).
Definition filing_agrees (ss : list (list stmt)) (obs : list (list (nat * list (nat * nat)))) : bool :=
  Nat.eqb (length ss) (length obs) &&
  forallb (fun so => forallb (fun co => list_eqb pair_nat_eqb (filed_under (file_acts (fst so)) (fst co)) (snd co))
                             (snd so))
          (combine ss obs).

Definition check_filed (c : case) : bool :=
  filing_agrees (c_stmts c) (c_filed c) && filing_agrees (c_rstmts c) (c_rfiled c) &&
  forallb (fun bs =>
             let b := fst bs in
             forallb (fun k => list_eqb pair_nat_eqb (filed_under (file_acts (snd bs)) (S k))
                                        (map (fun j => (k, j)) (seq 0 (nth k (nth b (counts (c_forest c)) []) 0))))
                     [0; 1; 2; 3; 4; 5; 6; 8; 9])
          (combine (seq 0 (length (c_stmts c))) (c_stmts c)).

Definition check_case (c : case) : bool :=
  check_built c && check_filed c &&
  list_eqb (pair_eqb status_eqb (list_eqb ev_eqb)) (run (c_forest c) Idle (c_ops c)) (c_obs c).

(* branch classifier: one id per op *)
Definition count_go (t : list ev) : nat := length (filter (fun e => kind_eqb (ek e) KGo) t).
Definition branch_of (F : forest) (st : status) (o : op) : nat :=
  match st, o with
  | Idle, Start first fs => if snd (predo F fs (pile F first)) then 0 else 1
  | Active b, End => 2
  | Active b, Pass gos fs =>
    let s := box_loop F fs gos (pile F b)
               {| p_tr := []; p_endos := []; p_rendos := []; p_box := b; p_transit := false; p_err := false |} in
    let rejected := existsb (fun e => fails fs (eb e) (ei e) && kind_eqb (ek e) KPre) (p_tr s) in
    if p_err s then 9
    else if p_transit s then
      (if existsb (Nat.eqb (p_box s)) (pile F b) then (if rejected then 7 else 6)   (* forced re-entry *)
       else if rejected then 5 else 4)
    else if rejected then 8 else 3
  | _, _ => 10
  end.
Fixpoint branches (F : forest) (st : status) (ops : list op) : list nat :=
  match ops with
  | [] => []
  | o :: ops' => branch_of F st o :: branches F (fst (step F st o)) ops'
  end.
Definition n_branches : nat := 11.
Definition case_branches (c : case) : list nat := branches (c_forest c) Idle (c_ops c).
