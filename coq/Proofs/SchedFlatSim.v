(* C04 — the specification of a grouped program and of the flat program agree
   as long as no grouped leaf yields an asap tock and later a positive one
   (finding D35).  Pure reasoning on Proofs/SchedFlatDefs.v; the time laws used
   are listed as hypotheses of the section. *)
From Hio Require Import Base.Prelude Base.AMap Base.Time Model.Sched Proofs.SchedFlatDefs.

Section Sim.
Context {T : Type} `{Time T}.
Variables tk zb : T.      (* root tock; |tock| of the groups *)

(* what is needed of the time type: reflexivity, the root tock moves time forward,
   the group tock is a right unit of addition *)
Hypothesis L_refl : forall a : T, tleb a a = true.
Hypothesis L_fwd : forall a b : T, tleb a b = true -> tleb a (tadd b tk) = true.
Hypothesis L_zero : forall a : T, tadd a zb = a.

Definition script_of (v : lv T) : list (fstep T) := lf_script (v_leaf v).

(* a leaf in the flat run (vf) and the same leaf inside a group (vn), t = tyme of the next pass:
   either the due tymes are equal and the rest of the script is positive* asap*,
   or the rest of the script only yields asap tocks and both are due from now on *)
Definition lrel (t : T) (vf vn : lv T) : Prop :=
  v_leaf vf = v_leaf vn /\ v_pc vf = v_pc vn /\
  ((v_re vf = v_re vn /\ pos_then_asap (skipn (v_pc vn) (script_of vn)) = true) \/
   (asap_only (skipn (v_pc vn) (script_of vn)) = true /\
    tleb (v_re vf) t = true /\ tleb (v_re vn) t = true)).

Lemma skipn_nth (sc : list (fstep T)) : forall pc,
  (skipn pc sc = [] /\ nth pc sc default_step = default_step) \/
  skipn pc sc = nth pc sc default_step :: skipn (S pc) sc.
Proof.
  induction sc as [|st sc IH]; intro pc.
  - left. destruct pc; split; reflexivity.
  - destruct pc as [|pc]; [right; reflexivity|].
    cbn [skipn nth]. destruct (IH pc) as [[E1 E2]|E]; [left; split; assumption|right].
    rewrite E. destruct sc; [destruct pc; discriminate|reflexivity].
Qed.

Lemma lrel_shift t vf vn : lrel t vf vn -> lrel (tadd t tk) vf vn.
Proof.
  intros (L & P & [A|(A & D1 & D2)]); split; [assumption|split; [assumption|now left]| assumption|].
  split; [assumption|]. right. split; [assumption|]. split; now apply L_fwd.
Qed.

(* one step of the same leaf in both runs *)
Lemma lv_step_rel t vf vn o :
  lrel t vf vn ->
  tleb (v_re vf) t = tleb (v_re vn) t /\
  (tleb (v_re vn) t = true ->
   match lv_step tk t vf o, lv_step zb t vn o with
   | (Some vf', o1), (Some vn', o2) => o1 = o2 /\ lrel (tadd t tk) vf' vn'
   | (None, o1), (None, o2) => o1 = o2
   | _, _ => False
   end).
Proof.
  destruct vf as [lf pcf ref], vn as [ln pcn ren]. unfold lrel, script_of; cbn [v_leaf v_pc v_re].
  intros (<- & <- & Alt). split.
  - destruct Alt as [[-> _]|(_ & -> & ->)]; reflexivity.
  - intro Due. unfold lv_step, lv_stp, lv_id; cbn [v_leaf v_pc v_re].
    destruct (skipn_nth (lf_script lf) pcf) as [[E1 E2]|E].
    + rewrite E2. cbn [default_step f_out]. reflexivity.
    + destruct (f_out (nth pcf (lf_script lf) default_step)) as [x|r| |] eqn:Fo; try reflexivity.
      split; [reflexivity|]. unfold lrel, script_of; cbn [v_leaf v_pc v_re].
      split; [reflexivity|]. split; [reflexivity|].
      rewrite E in Alt. cbn [pos_then_asap asap_only] in Alt. rewrite Fo in Alt.
      destruct (asap_tock x) eqn:Ax.
      * right. split.
        -- destruct Alt as [[_ A]|(A & _)]; [exact A|]. now apply andb_true_iff in A as [_ A].
        -- rewrite L_zero. split; [apply L_refl|apply L_fwd, L_refl].
      * destruct Alt as [[-> A]|(A & _)]; [|discriminate].
        left. split; [reflexivity|exact A].
Qed.

Lemma lvs_pass_rel t : forall kf kn o, Forall2 (lrel t) kf kn ->
  exists kf' kn' o', lvs_pass tk t kf o = (kf', o') /\ lvs_pass zb t kn o = (kn', o') /\
    Forall2 (lrel (tadd t tk)) kf' kn'.
Proof.
  intros kf kn o F. revert o. induction F as [|vf vn kf kn R F IH]; intro o.
  - exists [], [], o. repeat split; constructor.
  - cbn [lvs_pass]. destruct (lv_step_rel t vf vn o R) as [Eq St]. rewrite Eq.
    destruct (tleb (v_re vn) t) eqn:Due.
    + specialize (St eq_refl).
      destruct (lv_step tk t vf o) as [[vf'|] o1], (lv_step zb t vn o) as [[vn'|] o2]; try contradiction.
      * destruct St as [<- R']. destruct (IH o1) as (kf' & kn' & o' & -> & -> & F').
        eexists _, _, _. split; [reflexivity|]. split; [reflexivity|]. now constructor.
      * subst o2. destruct (IH o1) as (kf' & kn' & o' & -> & -> & F').
        eexists _, _, _. split; [reflexivity|]. split; [reflexivity|]. exact F'.
    + destruct (IH o) as (kf' & kn' & o' & -> & -> & F').
      eexists _, _, _. split; [reflexivity|]. split; [reflexivity|].
      constructor; [now apply lrel_shift|exact F'].
Qed.

Lemma lvs_pass_app (b t : T) : forall (a c : list (lv T)) o,
  lvs_pass b t (a ++ c) o =
  let '(a', o1) := lvs_pass b t a o in let '(c', o2) := lvs_pass b t c o1 in (a' ++ c', o2).
Proof.
  induction a as [|v a IH]; intros c o; cbn [app lvs_pass].
  - destruct (lvs_pass b t c o); reflexivity.
  - destruct (tleb (v_re v) t).
    + destruct (lv_step b t v o) as [ov o1]. rewrite IH.
      destruct (lvs_pass b t a o1) as [a' o2]. destruct (lvs_pass b t c o2) as [c' o3].
      destruct ov; reflexivity.
    + rewrite IH. destruct (lvs_pass b t a o) as [a' o2]. destruct (lvs_pass b t c o2) as [c' o3]. reflexivity.
Qed.

(* the flat program: all items are root leaves *)
Lemma flat_pass t : forall (fl : list (lv T)) o,
  its_pass tk zb t (map ALeaf fl) o = let '(fl', o') := lvs_pass tk t fl o in (map ALeaf fl', o').
Proof.
  induction fl as [|v fl IH]; intro o; cbn [map its_pass lvs_pass]; [reflexivity|].
  destruct (tleb (v_re v) t).
  - destruct (lv_step tk t v o) as [ov o1]. rewrite IH. destruct (lvs_pass tk t fl o1) as [fl' o2].
    destruct ov; reflexivity.
  - rewrite IH. destruct (lvs_pass tk t fl o) as [fl' o2]. reflexivity.
Qed.

(* flat list of live leaves vs grouped items; strict: every group is non-empty *)
Inductive sim (strict : bool) (t : T) : list (lv T) -> list (aitem T) -> Prop :=
| sim_nil : sim strict t [] []
| sim_leaf v fl its : sim strict t fl its -> sim strict t (v :: fl) (ALeaf v :: its)
| sim_group n npc re kf kn fl its :
    Forall2 (lrel t) kf kn -> tleb re t = true -> (strict = true -> kn <> []) ->
    sim strict t fl its -> sim strict t (kf ++ fl) (AGroup n npc re kn :: its).

Lemma sim_pass b t : forall fl its o, sim b t fl its ->
  exists fl' its' o', lvs_pass tk t fl o = (fl', o') /\ its_pass tk zb t its o = (its', o') /\
    sim true (tadd t tk) fl' its'.
Proof.
  intros fl its o S. revert o. induction S as [|v fl its S IH|n npc re kf kn fl its F Due NE S IH]; intro o.
  - exists [], [], o. repeat split; constructor.
  - cbn [lvs_pass its_pass]. destruct (tleb (v_re v) t).
    + destruct (lv_step tk t v o) as [ov o1]. destruct (IH o1) as (fl' & its' & o' & -> & -> & S').
      destruct ov; eexists _, _, _; (split; [reflexivity|]); (split; [reflexivity|]); [now constructor|exact S'].
    + destruct (IH o) as (fl' & its' & o' & -> & -> & S').
      eexists _, _, _. split; [reflexivity|]. split; [reflexivity|]. now constructor.
  - rewrite lvs_pass_app. cbn [its_pass]. rewrite Due.
    destruct (lvs_pass_rel t kf kn o F) as (kf' & kn' & o1 & -> & -> & F').
    destruct (IH o1) as (fl' & its' & o' & -> & -> & S').
    destruct kn' as [|vn kn'].
    + inversion F'; subst. eexists _, _, _. split; [reflexivity|]. split; [reflexivity|]. exact S'.
    + eexists _, _, _. split; [reflexivity|]. split; [reflexivity|].
      apply sim_group; [exact F'| |discriminate|exact S'].
      destruct (tfalsy zb); [apply L_refl|]. rewrite L_zero. now apply L_fwd.
Qed.

Lemma sim_empty t fl its : sim true t fl its -> (its = [] <-> fl = []).
Proof.
  intro S. inversion S as [|v fl' its' S'|n npc re kf kn fl' its' F Due NE S']; subst.
  - split; reflexivity.
  - split; discriminate.
  - split; [discriminate|]. intro E. apply app_eq_nil in E as [-> _]. inversion F; subst.
    exfalso. now apply NE.
Qed.

Lemma sim_ids b t fl its : sim b t fl its -> map lv_id fl = map lv_id (aflatten its).
Proof.
  induction 1 as [|v fl its S IH|n npc re kf kn fl its F Due NE S IH]; [reflexivity| |].
  - unfold aflatten. cbn [flat_map a_leaves map app]. fold (aflatten its). now rewrite IH.
  - unfold aflatten. cbn [flat_map a_leaves]. fold (aflatten its). rewrite !map_app, IH. f_equal.
    clear - F. induction F as [|vf vn kf kn R F IH]; [reflexivity|]. cbn [map].
    destruct R as (L & _). unfold lv_id at 1 3. now rewrite L, IH.
Qed.

(* ---------- exit ---------- *)

Lemma lvs_close_app (t : T) : forall (a c : list (lv T)) o, lvs_close t (a ++ c) o = lvs_close t c (lvs_close t a o).
Proof. induction a as [|v a IH]; intros c o; cbn [app lvs_close]; [reflexivity|apply IH]. Qed.
Lemma its_close_app (t : T) : forall (a c : list (aitem T)) o, its_close t (a ++ c) o = its_close t c (its_close t a o).
Proof.
  induction a as [|it a IH]; intros c o; cbn [app its_close]; [reflexivity|].
  destruct it; apply IH.
Qed.

Lemma its_close_flatten (t : T) : forall (its : list (aitem T)) o,
  its_close t (rev its) o = lvs_close t (rev (aflatten its)) o.
Proof.
  induction its as [|it its IH]; intro o; [reflexivity|].
  unfold aflatten. cbn [rev flat_map]. fold (aflatten its).
  rewrite its_close_app, rev_app_distr, lvs_close_app, IH.
  destruct it; reflexivity.
Qed.

Lemma lvs_close_ids (t : T) : forall (a c : list (lv T)) o, map lv_id a = map lv_id c -> lvs_close t a o = lvs_close t c o.
Proof.
  induction a as [|v a IH]; intros [|w c] o E; try discriminate; [reflexivity|].
  cbn [map] in E. injection E as E1 E2. cbn [lvs_close]. rewrite E1. now apply IH.
Qed.

Lemma aflatten_flat (fl : list (lv T)) : aflatten (map ALeaf fl) = fl.
Proof. induction fl as [|v fl IH]; [reflexivity|]. unfold aflatten in *. cbn [map flat_map a_leaves app]. now rewrite IH. Qed.

Lemma sim_close b t t' fl its o : sim b t fl its ->
  its_close t' (rev its) o = its_close t' (rev (map ALeaf fl)) o.
Proof.
  intro S. rewrite !its_close_flatten, aflatten_flat. apply lvs_close_ids.
  rewrite !map_rev. f_equal. symmetry. eapply sim_ids; exact S.
Qed.

(* ---------- the cycles ---------- *)

Lemma spec_cycles_sim limit stop : forall c1 c2 b t fl its o r1 r2,
  sim b t fl its ->
  spec_cycles tk zb c1 t its o limit stop = Some r1 ->
  spec_cycles tk zb c2 t (map ALeaf fl) o limit stop = Some r2 ->
  r1 = r2.
Proof.
  induction c1 as [|c1 IH]; intros c2 b t fl its o r1 r2 S E1 E2; [discriminate|].
  destruct c2 as [|c2]; [discriminate|].
  cbn [spec_cycles] in E1, E2. rewrite flat_pass in E2.
  destruct (sim_pass b t fl its o S) as (fl' & its' & o' & Hf & Hn & S').
  rewrite Hf in E2. rewrite Hn in E1.
  pose proof (sim_empty _ _ _ S') as Emp.
  destruct its' as [|it its'].
  - rewrite (proj1 Emp eq_refl) in E2. cbn [map] in E2. congruence.
  - destruct fl' as [|v fl']; [discriminate (proj2 Emp eq_refl)|].
    cbn [map] in E2.
    destruct (limited limit && tleb stop (tadd t tk)).
    + rewrite (sim_close _ _ _ _ _ _ S') in E1. cbn [map] in E1. congruence.
    + eapply IH; [exact S'|exact E1|exact E2].
Qed.

(* ---------- enter ---------- *)

Lemma gs_enter_flat t : forall (ls : list (leaf T)) o,
  gs_enter t (map GLeaf ls) o = let '(vs, o') := lfs_enter t ls o in (map ALeaf vs, o').
Proof.
  induction ls as [|l ls IH]; intro o; cbn [map gs_enter lfs_enter]; [reflexivity|].
  destruct (lf_enter t l o) as [ov o1]. rewrite IH. destruct (lfs_enter t ls o1) as [vs o2].
  destruct ov; reflexivity.
Qed.

Lemma lfs_enter_app t : forall (a c : list (leaf T)) o,
  lfs_enter t (a ++ c) o =
  let '(a', o1) := lfs_enter t a o in let '(c', o2) := lfs_enter t c o1 in (a' ++ c', o2).
Proof.
  induction a as [|l a IH]; intros c o; cbn [app lfs_enter].
  - destruct (lfs_enter t c o); reflexivity.
  - destruct (lf_enter t l o) as [ov o1]. rewrite IH.
    destruct (lfs_enter t a o1) as [a' o2]. destruct (lfs_enter t c o2) as [c' o3].
    destruct ov; reflexivity.
Qed.

Lemma lfs_enter_rel t : forall (ls : list (leaf T)) o vs o',
  forallb no_asap_then_positive ls = true ->
  lfs_enter t ls o = (vs, o') -> Forall2 (lrel t) vs vs.
Proof.
  induction ls as [|l ls IH]; intros o vs o' Hy E; cbn [lfs_enter] in E.
  - inversion E; subst. constructor.
  - cbn [forallb] in Hy. apply andb_true_iff in Hy as [Hl Hy].
    destruct (lf_enter t l o) as [ov o1] eqn:El. destruct (lfs_enter t ls o1) as [vs' o2] eqn:Es.
    inversion E; subst. specialize (IH _ _ _ Hy Es).
    destruct ov as [v|]; [|exact IH]. constructor; [|exact IH].
    unfold lf_enter in El. destruct (f_out _); inversion El; subst.
    unfold lrel, script_of; cbn [v_leaf v_pc v_re]. split; [reflexivity|]. split; [reflexivity|].
    left. split; [reflexivity|]. unfold no_asap_then_positive in Hl.
    destruct (lf_script l); exact Hl.
Qed.

Lemma enter_sim t : forall (gs : list (gitem T)) o,
  forallb no_asap_then_positive (grouped_leaves gs) = true ->
  exists fl its o', lfs_enter t (flatten gs) o = (fl, o') /\ gs_enter t gs o = (its, o') /\ sim false t fl its.
Proof.
  induction gs as [|g gs IH]; intros o Hy.
  - exists [], [], o. repeat split; constructor.
  - unfold flatten, grouped_leaves in *. cbn [flat_map] in *.
    destruct g as [l|n kids]; cbn [g_leaves gs_enter app lfs_enter] in *.
    + destruct (lf_enter t l o) as [ov o1]. destruct (IH o1 Hy) as (fl & its & o' & -> & -> & S).
      destruct ov; eexists _, _, _; (split; [reflexivity|]); (split; [reflexivity|]); [now constructor|exact S].
    + rewrite forallb_app in Hy. apply andb_true_iff in Hy as [Hk Hy].
      rewrite lfs_enter_app. destruct (lfs_enter t kids o) as [kids' o1] eqn:Ek.
      destruct (IH o1 Hy) as (fl & its & o' & -> & -> & S).
      eexists _, _, _. split; [reflexivity|]. split; [reflexivity|].
      apply sim_group; [exact (lfs_enter_rel t kids o kids' o1 Hk Ek)|apply L_refl|intro X; discriminate X|exact S].
Qed.

Theorem spec_run_sim c1 c2 limit t0 (gs : list (gitem T)) r1 r2 :
  forallb no_asap_then_positive (grouped_leaves gs) = true ->
  spec_run tk zb c1 limit t0 gs = Some r1 ->
  spec_run tk zb c2 limit t0 (ungroup gs) = Some r2 ->
  r1 = r2.
Proof.
  intros Hy E1 E2. unfold spec_run, ungroup in *. rewrite gs_enter_flat in E2.
  destruct (enter_sim t0 gs out0 Hy) as (fl & its & o' & Hf & Hn & S).
  rewrite Hf in E2. rewrite Hn in E1.
  eapply spec_cycles_sim; eassumption.
Qed.

End Sim.
