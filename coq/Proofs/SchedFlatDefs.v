(* C04 — vocabulary: static leaf programs, one level of grouping under tock-0
   DoDoers, the leaf view of a run, the hypothesis that excludes finding D35, and a
   fuel-free structural specification of what the scheduler does to such programs
   (enter / one recur pass / exit), over an abstract state made of "live leaves"
   and groups.  Proofs/SchedFlatRun.v shows Model/Sched.v computes exactly this
   specification; Proofs/SchedFlatSim.v compares grouped and flat specifications. *)
From Hio Require Import Base.Prelude Base.AMap Base.Time Model.Sched.

Section Defs.
Context {T : Type} `{Time T}.

(* ---------- programs ---------- *)

Record leaf := { lf_id : id; lf_kind : kind; lf_script : list (fstep T) }.

(* a static step: no extend/remove, no raise *)
Definition pure_step (st : fstep T) : bool :=
  match f_es st, f_out st with
  | [], OYield _ | [], OReturn _ => true
  | _, _ => false
  end.
Definition pure_leaf (l : leaf) : bool := forallb pure_step (lf_script l).

(* a partition of the flat list of root leaves into consecutive runs: a run is
   either left in the root (GLeaf) or put under a DoDoer n (GGroup) *)
Inductive gitem := GLeaf (l : leaf) | GGroup (n : id) (kids : list leaf).

Definition g_leaves (g : gitem) : list leaf := match g with GLeaf l => [l] | GGroup _ kids => kids end.
Definition g_top (g : gitem) : id := match g with GLeaf l => lf_id l | GGroup n _ => n end.
Definition g_nests (g : gitem) : list id := match g with GLeaf _ => [] | GGroup n _ => [n] end.
Definition flatten (gs : list gitem) : list leaf := flat_map g_leaves gs.
Definition nest_ids (gs : list gitem) : list id := flat_map g_nests gs.

Definition leaf_def (l : leaf) : id * fdef T := (lf_id l, FLeaf (lf_kind l) (lf_script l)).
Definition g_nestdef (z0 : T) (g : gitem) : list (id * fdef T) :=
  match g with GLeaf _ => [] | GGroup n kids => [(n, FNest z0 false (map lf_id kids))] end.

Definition flat_prog (tk : T) (limit : option T) (t0 : T) (ls : list leaf) : prog T :=
  {| p_tock := tk; p_limit := limit; p_tyme := t0; p_doers := map lf_id ls; p_defs := map leaf_def ls |}.

(* the grouped program: every group is a DoDoer with tock z0, always = false *)
Definition nest_prog (tk : T) (limit : option T) (t0 z0 : T) (gs : list gitem) : prog T :=
  {| p_tock := tk; p_limit := limit; p_tyme := t0; p_doers := map g_top gs;
     p_defs := map leaf_def (flatten gs) ++ flat_map (g_nestdef z0) gs |}.

Definition ungroup (gs : list gitem) : list gitem := map GLeaf (flatten gs).

(* identifiers: 0 is the root; leaves and groups pairwise distinct *)
Definition wf_group (gs : list gitem) : Prop :=
  NoDup (0%N :: map lf_id (flatten gs) ++ nest_ids gs) /\
  forallb pure_leaf (flatten gs) = true.

(* ---------- the observable: leaf view ---------- *)

(* events of the root (DoReturn/DoRaise carry id 0) and of the leaves, oldest first,
   with their tymes; done flags of the root and of the leaves; final tyme *)
Definition leaf_view (ids : list id) (s : st T) : list (ev T) * list (option bool) * T :=
  (filter (fun e => memN (e_id e) (0%N :: ids)) (rev (trace s)),
   map (get_done s) (0%N :: ids),
   tyme s).

(* ---------- the hypothesis excluding D35 ---------- *)

Definition asap_tock (t : option T) : bool := match t with None => true | Some x => tfalsy x end.

(* every tock yielded from here on is asap (None or falsy); steps behind a return are dead *)
Fixpoint asap_only (sc : list (fstep T)) : bool :=
  match sc with
  | [] => true
  | st :: r => match f_out st with
               | OYield t => asap_tock t && asap_only r
               | _ => true
               end
  end.

(* positive* asap* : after the first asap yield no positive tock is yielded *)
Fixpoint pos_then_asap (sc : list (fstep T)) : bool :=
  match sc with
  | [] => true
  | st :: r => match f_out st with
               | OYield t => if asap_tock t then asap_only r else pos_then_asap r
               | _ => true
               end
  end.

(* the tock yielded by the first step (at enter) is discarded by the scheduler *)
Definition no_asap_then_positive (l : leaf) : bool := pos_then_asap (tl (lf_script l)).

Definition grouped_leaves (gs : list gitem) : list leaf :=
  flat_map (fun g => match g with GLeaf _ => [] | GGroup _ kids => kids end) gs.

(* ---------- abstract state ---------- *)

(* a live leaf: its generator is suspended before step v_pc, due at v_re *)
Record lv := { v_leaf : leaf; v_pc : nat; v_re : T }.
Definition lv_id (v : lv) : id := lf_id (v_leaf v).

Inductive aitem := ALeaf (v : lv) | AGroup (n : id) (npc : nat) (re : T) (kids : list lv).

Definition a_leaves (it : aitem) : list lv := match it with ALeaf v => [v] | AGroup _ _ _ kids => kids end.
Definition aflatten (its : list aitem) : list lv := flat_map a_leaves its.

(* what is observable: leaf/root events (newest first) and done flags *)
Record out := { o_ev : list (ev T); o_dn : id -> option bool }.

Definition upd (f : id -> option bool) (i : id) (d : option bool) : id -> option bool :=
  fun j => if N.eqb j i then d else f j.
Definition o_emit (o : out) (k : ekind) (i : id) (t : T) : out :=
  {| o_ev := {| e_kind := k; e_id := i; e_tyme := t |} :: o_ev o; o_dn := o_dn o |}.
Definition o_done (o : out) (i : id) (d : option bool) : out :=
  {| o_ev := o_ev o; o_dn := upd (o_dn o) i d |}.

Definition lv_stp (v : lv) : fstep T := nth (v_pc v) (lf_script (v_leaf v)) default_step.

(* the generator of leaf l returns r at tyme t *)
Definition o_return (o : out) (l : leaf) (r : ret) (t : T) : out :=
  let o2 := o_emit (o_emit o Clean (lf_id l) t) Exit (lf_id l) t in
  o_done o2 (lf_id l) (done_after (lf_kind l) r (o_dn o2 (lf_id l))).

(* ---------- specification: enter ---------- *)

Definition lf_enter (t : T) (l : leaf) (o : out) : option lv * out :=
  let o1 := o_emit (o_done o (lf_id l) (Some false)) Enter (lf_id l) t in
  match f_out (nth 0 (lf_script l) default_step) with
  | OYield _ => (Some {| v_leaf := l; v_pc := 1; v_re := t |}, o1)
  | OReturn r => (None, o_return o1 l r t)
  | _ => (None, o1)
  end.

Fixpoint lfs_enter (t : T) (ls : list leaf) (o : out) : list lv * out :=
  match ls with
  | [] => ([], o)
  | l :: r =>
    let '(ov, o1) := lf_enter t l o in
    let '(r', o2) := lfs_enter t r o1 in
    (match ov with Some v => v :: r' | None => r' end, o2)
  end.

Fixpoint gs_enter (t : T) (gs : list gitem) (o : out) : list aitem * out :=
  match gs with
  | [] => ([], o)
  | GLeaf l :: r =>
    let '(ov, o1) := lf_enter t l o in
    let '(r', o2) := gs_enter t r o1 in
    (match ov with Some v => ALeaf v :: r' | None => r' end, o2)
  | GGroup n kids :: r =>
    let '(kids', o1) := lfs_enter t kids o in
    let '(r', o2) := gs_enter t r o1 in
    (AGroup n 1 t kids' :: r', o2)
  end.

(* ---------- specification: one recur pass at tyme t ---------- *)

(* b = the tock of the scheduler holding the leaf (base of the asap branch) *)
Definition lv_step (b t : T) (v : lv) (o : out) : option lv * out :=
  let o1 := o_emit o Recur (lv_id v) t in
  match f_out (lv_stp v) with
  | OYield x =>
    let re' := if asap_tock x then tadd t b
               else match x with Some y => tadd (v_re v) y | None => v_re v end in
    (Some {| v_leaf := v_leaf v; v_pc := S (v_pc v); v_re := re' |}, o1)
  | OReturn r => (None, o_return o1 (v_leaf v) r t)
  | _ => (None, o1)
  end.

Fixpoint lvs_pass (b t : T) (vs : list lv) (o : out) : list lv * out :=
  match vs with
  | [] => ([], o)
  | v :: r =>
    if tleb (v_re v) t then
      let '(ov, o1) := lv_step b t v o in
      let '(r', o2) := lvs_pass b t r o1 in
      (match ov with Some v' => v' :: r' | None => r' end, o2)
    else
      let '(r', o2) := lvs_pass b t r o in (v :: r', o2)
  end.

(* tk = root tock, zb = |tock| of the groups *)
Fixpoint its_pass (tk zb t : T) (its : list aitem) (o : out) : list aitem * out :=
  match its with
  | [] => ([], o)
  | ALeaf v :: r =>
    if tleb (v_re v) t then
      let '(ov, o1) := lv_step tk t v o in
      let '(r', o2) := its_pass tk zb t r o1 in
      (match ov with Some v' => ALeaf v' :: r' | None => r' end, o2)
    else
      let '(r', o2) := its_pass tk zb t r o in (ALeaf v :: r', o2)
  | AGroup n npc re kids :: r =>
    if tleb re t then
      let '(kids', o1) := lvs_pass zb t kids o in
      let '(r', o2) := its_pass tk zb t r o1 in
      (match kids' with
       | [] => r'
       | _ => AGroup n npc (if tfalsy zb then tadd t tk else tadd re zb) kids' :: r'
       end, o2)
    else
      let '(r', o2) := its_pass tk zb t r o in (AGroup n npc re kids :: r', o2)
  end.

(* ---------- specification: exit ---------- *)

(* forced exit of the given live leaves, in list order *)
Fixpoint lvs_close (t : T) (vs : list lv) (o : out) : out :=
  match vs with
  | [] => o
  | v :: r => lvs_close t r (o_emit (o_emit o Cease (lv_id v) t) Exit (lv_id v) t)
  end.

Fixpoint its_close (t : T) (its : list aitem) (o : out) : out :=
  match its with
  | [] => o
  | ALeaf v :: r => its_close t r (o_emit (o_emit o Cease (lv_id v) t) Exit (lv_id v) t)
  | AGroup _ _ _ kids :: r => its_close t r (lvs_close t (rev kids) o)
  end.

(* ---------- specification: the whole run ---------- *)

Definition limited (limit : option T) : bool :=
  match limit with Some l => negb (tfalsy l) | None => false end.

(* None = the budget of cycles was not enough *)
Fixpoint spec_cycles (tk zb : T) (cycles : nat) (t : T) (its : list aitem) (o : out)
         (limit : option T) (stop : T) : option (T * out) :=
  match cycles with
  | O => None
  | S c =>
    let '(its', o1) := its_pass tk zb t its o in
    let t' := tadd t tk in
    match its' with
    | [] => Some (t', o_emit (o_done o1 0%N (Some true)) DoReturn 0%N t')
    | _ => if limited limit && tleb stop t'
           then Some (t', o_emit (its_close t' (rev its') o1) DoReturn 0%N t')
           else spec_cycles tk zb c t' its' o1 limit stop
    end
  end.

Definition out0 : out := {| o_ev := []; o_dn := upd (fun _ => None) 0%N (Some false) |}.

Definition spec_run (tk zb : T) (cycles : nat) (limit : option T) (t0 : T) (gs : list gitem) : option (T * out) :=
  let '(its, o) := gs_enter t0 gs out0 in
  let limit' := option_map tabs limit in
  let stop := tadd t0 (match limit' with Some l => l | None => tzero end) in
  spec_cycles tk zb cycles t0 its o limit' stop.

(* the leaf view determined by a specification result *)
Definition view_of (ids : list id) (r : T * out) : list (ev T) * list (option bool) * T :=
  (rev (o_ev (snd r)), map (o_dn (snd r)) (0%N :: ids), fst r).

End Defs.

Arguments leaf T : clear implicits.
Arguments gitem T : clear implicits.
Arguments lv T : clear implicits.
Arguments aitem T : clear implicits.
Arguments out T : clear implicits.

(* ---------- sublists, and what a pass keeps ---------- *)

Inductive subl {A : Type} : list A -> list A -> Prop :=
| subl_nil : subl [] []
| subl_skip x l1 l2 : subl l1 l2 -> subl l1 (x :: l2)
| subl_keep x l1 l2 : subl l1 l2 -> subl (x :: l1) (x :: l2).

Lemma subl_refl {A} (l : list A) : subl l l.
Proof. induction l; constructor; assumption. Qed.
Lemma subl_nil_l {A} (l : list A) : subl [] l.
Proof. induction l; constructor; assumption. Qed.
Lemma subl_In {A} (l1 l2 : list A) x : subl l1 l2 -> In x l1 -> In x l2.
Proof. induction 1; cbn; intuition. Qed.
Lemma subl_map {A B} (f : A -> B) l1 l2 : subl l1 l2 -> subl (map f l1) (map f l2).
Proof. induction 1; cbn [map]; [apply subl_nil|apply subl_skip; assumption|apply subl_keep; assumption]. Qed.
Lemma subl_app {A} (a a' b b' : list A) : subl a a' -> subl b b' -> subl (a ++ b) (a' ++ b').
Proof. induction 1; intro Hb; cbn [app]; [assumption|apply subl_skip; auto|apply subl_keep; auto]. Qed.
Lemma subl_trans {A} (a b c : list A) : subl a b -> subl b c -> subl a c.
Proof.
  intros Hab Hbc. revert a Hab. induction Hbc; intros a Hab.
  - assumption.
  - constructor. now apply IHHbc.
  - inversion Hab; subst; [apply subl_skip|apply subl_keep]; now apply IHHbc.
Qed.
Lemma subl_NoDup {A} (l1 l2 : list A) : subl l1 l2 -> NoDup l2 -> NoDup l1.
Proof.
  induction 1; intro N; [assumption| |].
  - apply NoDup_cons_iff in N as [_ N]. auto.
  - apply NoDup_cons_iff in N as [Nx N]. constructor; [|auto].
    intro Hx. apply Nx. eapply subl_In; eassumption.
Qed.
Lemma subl_Forall {A} (P : A -> Prop) (l1 l2 : list A) : subl l1 l2 -> Forall P l2 -> Forall P l1.
Proof. intros S F. rewrite Forall_forall in *. intros x Hx. apply F. eapply subl_In; eassumption. Qed.

Section Facts.
Context {T : Type} `{Time T}.

Lemma lv_step_leaf (b t : T) (v v' : lv T) o o' : lv_step b t v o = (Some v', o') -> v_leaf v' = v_leaf v.
Proof. unfold lv_step. destruct (f_out (lv_stp v)); intro E; inversion E; reflexivity. Qed.

Lemma lvs_pass_subl (b t : T) : forall (U : list (lv T)) o U' o',
  lvs_pass b t U o = (U', o') -> subl (map v_leaf U') (map v_leaf U).
Proof.
  induction U as [|v U IH]; intros o U' o' E; cbn [lvs_pass] in E.
  - inversion E; subst. constructor.
  - destruct (tleb (v_re v) t).
    + destruct (lv_step b t v o) as [ov o1] eqn:Es.
      destruct (lvs_pass b t U o1) as [r' o2] eqn:Ep. apply IH in Ep.
      inversion E; subst. destruct ov as [v'|]; cbn [map].
      * rewrite (lv_step_leaf _ _ _ _ _ _ Es). now apply subl_keep.
      * now apply subl_skip.
    + destruct (lvs_pass b t U o) as [r' o2] eqn:Ep. apply IH in Ep.
      inversion E; subst. cbn [map]. now apply subl_keep.
Qed.

Lemma lv_id_map (U : list (lv T)) : map lv_id U = map lf_id (map v_leaf U).
Proof. now rewrite map_map. Qed.

Lemma lf_enter_leaf (t : T) (l : leaf T) v o o' : lf_enter t l o = (Some v, o') -> v_leaf v = l.
Proof. unfold lf_enter. destruct (f_out _); intro E; inversion E; reflexivity. Qed.

Lemma lfs_enter_subl (t : T) : forall (ls : list (leaf T)) o vs o',
  lfs_enter t ls o = (vs, o') -> subl (map v_leaf vs) ls.
Proof.
  induction ls as [|l ls IH]; intros o vs o' E; cbn [lfs_enter] in E.
  - inversion E; subst. apply subl_nil.
  - destruct (lf_enter t l o) as [ov o1] eqn:Es.
    destruct (lfs_enter t ls o1) as [r' o2] eqn:Ep. apply IH in Ep.
    inversion E; subst. destruct ov as [v|]; cbn [map].
    + rewrite (lf_enter_leaf _ _ _ _ _ Es). now apply subl_keep.
    + now apply subl_skip.
Qed.

End Facts.
