(* Proofs for C14. *)
From Hio Require Import Base.Prelude Model.HttpReqUrl Model.HttpTotal Model.HttpReq.
From Coq Require Import String.
Local Open Scope N_scope.

(* ---------- exhaustive checks over an initial segment of N, lifted ---------- *)
Definition step_all (p : N -> bool) (st : N * bool) : N * bool := (fst st + 1, snd st && p (fst st)).
Definition all_below (n : N) (p : N -> bool) : bool := snd (N.iter n (step_all p) (0, true)).

Lemma iter_all_spec p : forall n,
  fst (N.iter n (step_all p) (0, true)) = n /\
  (snd (N.iter n (step_all p) (0, true)) = true -> forall c, c < n -> p c = true).
Proof.
  induction n as [|n [IH1 IH2]] using N.peano_ind.
  - split; [reflexivity|]. intros _ c Hc. lia.
  - rewrite N.iter_succ. unfold step_all at 1. cbn [fst snd]. rewrite IH1. split; [lia|].
    intros H c Hc. apply andb_true_iff in H. destruct H as [Ha Hb].
    rewrite IH1 in Hb. destruct (N.eq_dec c n) as [->|Hne]; [exact Hb|]. apply IH2; [exact Ha|lia].
Qed.

Lemma all_below_spec n p : all_below n p = true -> forall c, c < n -> p c = true.
Proof. unfold all_below. intros H. apply (proj2 (iter_all_spec p n) H). Qed.

(* ---------- percent coding is inverted by unquote on every byte string ---------- *)
Definition byte_ok (b : N) : bool :=
  is_hex (hexdig (b / 16)) && is_hex (hexdig (b mod 16)) &&
  N.eqb (hexval (hexdig (b / 16)) * 16 + hexval (hexdig (b mod 16))) b.

Lemma byte_ok_all : forall b, b < 256 -> byte_ok b = true.
Proof. apply all_below_spec. vm_compute. reflexivity. Qed.

Lemma safe_not_percent : forall b, b < 256 -> always_safe b = true -> N.eqb b 37 = false.
Proof.
  intros b Hb. revert b Hb.
  assert (H : forall b, b < 256 -> (negb (always_safe b) || negb (N.eqb b 37)) = true).
  { apply all_below_spec. vm_compute. reflexivity. }
  intros b Hb Hs. specialize (H b Hb). rewrite Hs in H. simpl in H. now apply negb_true_iff in H.
Qed.

Theorem unquote_quote_bytes safe : mem_n 37 safe = false ->
  forall bs, Forall (fun b => b < 256) bs ->
  unquote_bytes (flat_map (quote_byte safe) bs) = bs.
Proof.
  intros Hs bs H. induction H as [|b bs Hb _ IH]; [reflexivity|].
  cbn [flat_map]. unfold quote_byte at 1.
  destruct (always_safe b || mem_n b safe) eqn:E.
  - cbn [app unquote_bytes].
    assert (N.eqb b 37 = false) as ->.
    { apply orb_true_iff in E. destruct E as [E|E]; [now apply safe_not_percent|].
      destruct (N.eqb b 37) eqn:E37; [|reflexivity]. apply N.eqb_eq in E37. subst. congruence. }
    now rewrite IH.
  - pose proof (byte_ok_all b Hb) as Hok. unfold byte_ok in Hok.
    apply andb_true_iff in Hok. destruct Hok as [Hok Hv]. apply andb_true_iff in Hok. destruct Hok as [H1 H2].
    cbn [app unquote_bytes]. rewrite N.eqb_refl, H1, H2. cbn [andb].
    apply N.eqb_eq in Hv. rewrite Hv, IH. reflexivity.
Qed.

(* ---------- UTF-8: every scalar value decodes back from its encoding ---------- *)
Definition utf8_ok (c : N) : bool :=
  negb (scalar c) || ustr_eqb (utf8_dec (utf8_enc1 c)) [c].

Lemma utf8_bmp_roundtrip : forall c, c < 65536 -> scalar c = true -> utf8_dec (utf8_enc1 c) = [c].
Proof.
  assert (H : forall c, c < 65536 -> utf8_ok c = true).
  { apply all_below_spec. vm_compute. reflexivity. }
  intros c Hlt Hc.
  specialize (H c Hlt). unfold utf8_ok in H. rewrite Hc in H. cbn [negb orb] in H.
  unfold ustr_eqb in H. cbn [list_eqb] in H.
  destruct (utf8_dec (utf8_enc1 c)) as [|x [|y l]]; cbn [list_eqb] in H; try discriminate.
  - rewrite andb_true_r in H. apply N.eqb_eq in H. now subst.
  - rewrite andb_false_r in H. discriminate.
Qed.

(* beyond the BMP: every 97th scalar value up to U+10FFFF (sparse sweep) *)
Lemma utf8_astral_sample : all_below 10810 (fun i => utf8_ok (65536 + i * 97)) = true.
Proof. vm_compute. reflexivity. Qed.

(* ---------- a finite grid of requests, checked exhaustively ---------- *)
Definition o0 : url_oracle := {| ip6_ok := fun _ => false; nfkc_bad := fun _ => false |}.
Definition ghost : ustr := str "127.0.0.1".

Definition g_paths : list ustr :=
  [ str "/"; str "/a b/c"; str "/" ++ [233] ++ str "/" ++ [8364; 128512]; str "/%41%2F%";
    str "/;=:@&+,$!*()'"; str "/~._-""<>[]{}|\^`" ++ [160; 255; 256] ].
Definition g_qargs : list (list (ustr * ustr)) :=
  [ [];
    [(str "k&1", str "v=2&x")];
    [(str "sp ace", [233]); (str "a+b", str "c+d")];
    [(str "%41", str "%2F%"); ([], str "v"); (str "k", [])];
    [(str "k" ++ [233], [8364; 128512]); (str "#?;/", str " ")] ].
Definition g_headers : list (list (ustr * ustr)) :=
  [ [];
    [(str "x-UPPER", str "A: b"); (str "cookie", [])];
    [(str "Accept", str " lead "); (str "a1b-c2", [233; 255; 9])] ].
Definition g_bodies : list rbody :=
  [ Raw []; Raw [0; 255; 13; 10; 37; 65]; Json (str "{""a"":1}");
    Form [(str "a&b", str "c=d&e"); ([233], [8364; 43])]; Form [] ].

Definition with_cl (r : request) : request :=
  {| q_method := q_method r; q_path := q_path r; q_qargs := q_qargs r;
     q_headers := q_headers r ++ [(str "content-LENGTH", dec_str (blen (body_bytes r)))];
     q_body := q_body r |}.

Definition grid : list request :=
  flat_map (fun m => flat_map (fun p => flat_map (fun q => flat_map (fun h => flat_map (fun b =>
    let r := {| q_method := m; q_path := p; q_qargs := q; q_headers := h; q_body := b |} in
    [r; with_cl r]) g_bodies) g_headers) g_qargs) g_paths) (map str ["GET"; "POST"; "DELETE"]%string).

Lemma grid_ok : forallb (fun r => wf_request r && roundtrip o0 ghost 8080 r) grid = true.
Proof. vm_compute. reflexivity. Qed.

Lemma grid_roundtrip : forall r, In r grid -> wf_request r = true /\ roundtrip o0 ghost 8080 r = true.
Proof.
  intros r Hr. pose proof (proj1 (forallb_forall _ _) grid_ok r Hr) as H.
  now apply andb_true_iff in H.
Qed.

(* ---------- histories of builds on one Requester ---------- *)
Lemma build_step_wire host port st : fst (build_step host port st) = build host port (effective (request_of st)).
Proof. reflexivity. Qed.

(* what build() leaves behind: .path is the bare *unquoted* path and .qargs the dict of the
   request sent (a query given inside the path url merged in), the rest but .headers untouched *)
Lemma build_step_keeps host port st :
  let st' := snd (build_step host port st) in
  let r := effective (request_of st) in
  s_method st' = s_method st /\ s_path st' = q_path r /\ s_qargs st' = q_qargs r /\
  s_body st' = s_body st /\ s_data st' = s_data st /\ s_fargs st' = s_fargs st /\
  s_headers st' = final_headers r.
Proof. cbn. repeat split. Qed.

Lemma effective_same r :
  q_method (effective r) = q_method r /\ q_headers (effective r) = q_headers r /\ q_body (effective r) = q_body r.
Proof.
  unfold effective. destruct (partition1 35 (q_path r)) as [[p0 f] fr]. destruct (partition1 63 p0) as [[p g] q].
  repeat split.
Qed.

(* a path url without '?' and '#' and its qargs are taken as they are *)
Lemma effective_plain r : mem_n 35 (q_path r) = false -> mem_n 63 (q_path r) = false -> effective r = r.
Proof.
  intros H1 H2. unfold effective.
  assert (P1 : forall c s, mem_n c s = false -> partition1 c s = (s, false, [])).
  { intros c s. induction s as [|x s IH]; intros H; [reflexivity|].
    unfold mem_n in H. cbn [existsb] in H. apply orb_false_iff in H. destruct H as [Hx Hs].
    cbn [partition1]. rewrite N.eqb_sym in Hx. rewrite Hx, IH by exact Hs. reflexivity. }
  rewrite (P1 35 _ H1), (P1 63 _ H2). cbn [qargs_merge]. now destruct r.
Qed.

(* every build of a history sends exactly the request its arguments and the carried-over
   attributes describe *)
Lemma history_wire host port : forall ops st,
  Forall (fun rw => snd rw = build host port (fst rw)) (history host port st ops).
Proof.
  induction ops as [|a ops IH]; intros st; cbn [history build_step].
  - constructor; [reflexivity|constructor].
  - constructor; [reflexivity|]. apply IH.
Qed.

(* the request of the (i+1)-th build: given fields replace, the others are those of the i-th
   request (headers: as build i left them), body / data / fargs never carry over *)
Lemma next_request host port st a :
  let r := effective (request_of st) in
  let r' := request_of (reinit (snd (build_step host port st)) a) in
  q_method r' = match a_method a with Some m => m | None => q_method r end /\
  q_path r' = match a_path a with Some p => p | None => q_path r end /\
  q_qargs r' = match a_qargs a with Some q => q | None => q_qargs r end /\
  q_headers r' = match a_headers a with Some h => h | None => final_headers r end /\
  q_body r' = match a_data a, a_fargs a with
              | Some e, _ => Json e
              | None, Some f => Form f
              | None, None => Raw (match a_body a with Some b => b | None => [] end)
              end.
Proof.
  destruct (effective_same (request_of st)) as [Hm [Hh Hb]].
  cbn -[effective]. rewrite Hm. repeat split.
Qed.

Lemma history_roundtrip o host port ops st :
  Forall (fun rw => roundtrip o host port (fst rw) = true ->
                    exists p, parse_request o (snd rw) = Ok p /\ recovered (fst rw) p = true)
         (history host port st ops).
Proof.
  eapply Forall_impl; [|apply history_wire].
  intros [r w] Hw Hr. cbn [fst snd] in *. subst w. unfold roundtrip in Hr.
  destruct (parse_request o (build host port r)) as [p|k]; [|discriminate].
  exists p. split; [reflexivity|exact Hr].
Qed.

(* finite grid of histories: 36 first requests x all sequences of at most two rebuilds from 6 *)
Definition no_args : rargs :=
  {| a_method := None; a_path := None; a_qargs := None; a_headers := None;
     a_body := None; a_data := None; a_fargs := None; a_bare := false |}.
Definition bare_args : rargs :=
  {| a_method := None; a_path := None; a_qargs := None; a_headers := None;
     a_body := None; a_data := None; a_fargs := None; a_bare := true |}.

(* a bare transmit() resends the held request: same method, path, query, body; headers as the
   previous build left them *)
Lemma resend_request host port st :
  let r := effective (request_of st) in
  let r' := request_of (apply_args (snd (build_step host port st)) bare_args) in
  q_method r' = q_method r /\ q_path r' = q_path r /\ q_qargs r' = q_qargs r /\
  q_body r' = q_body r /\ q_headers r' = final_headers r.
Proof.
  destruct (effective_same (request_of st)) as [Hm [Hh Hb]].
  cbn -[effective]. rewrite Hm, Hb. repeat split.
Qed.

Definition h_ops : list rargs :=
  [ no_args; bare_args;
    {| a_method := Some (str "POST"); a_path := None; a_qargs := None; a_headers := None;
       a_body := Some (str "x y%"); a_data := None; a_fargs := None; a_bare := false |};
    {| a_method := None; a_path := Some (str "/c d/%25" ++ [8364]); a_qargs := None; a_headers := None;
       a_body := None; a_data := None; a_fargs := None; a_bare := false |};
    {| a_method := None; a_path := None; a_qargs := Some [(str "q ", str "%&=")]; a_headers := None;
       a_body := None; a_data := Some (str "{}"); a_fargs := None; a_bare := false |};
    {| a_method := Some (str "PUT"); a_path := None; a_qargs := None;
       a_headers := Some [(str "x-UPPER", str "v: w")];
       a_body := None; a_data := None; a_fargs := Some [(str "k&", [233; 43])]; a_bare := false |};
    {| a_method := Some (str "GET"); a_path := None; a_qargs := Some []; a_headers := None;
       a_body := None; a_data := None; a_fargs := None; a_bare := false |} ].
Definition h_first : list request :=
  flat_map (fun m => flat_map (fun p => flat_map (fun q => map (fun b =>
    {| q_method := m; q_path := p; q_qargs := q; q_headers := [(str "Accept", str "a/b")]; q_body := b |})
    [Raw []; Json (str "{""a"":1}"); Form [(str "a&b", str "c=d&e")]])
    [[]; [(str "sp ace", [233]); (str "%41", str "%")]])
    [str "/docs/annual report.txt"; str "/" ++ [233] ++ str "/100%/%41"; str "/"])
    (map str ["GET"; "POST"]%string).
Definition h_seqs : list (list rargs) :=
  [[]] ++ map (fun a => [a]) h_ops ++ flat_map (fun a => map (fun b => [a; b]) h_ops) h_ops.
Definition h_grid : list (request * list rargs) :=
  flat_map (fun r => map (fun s => (r, s)) h_seqs) h_first.

Definition history_ok (rs : request * list rargs) : bool :=
  forallb (fun rw => wf_request (fst rw) &&
                     match parse_request o0 (snd rw) with
                     | Ok p => recovered (fst rw) p
                     | Exc _ => false
                     end)
          (history ghost 8080 (state_of (fst rs)) (snd rs)).

Lemma h_grid_ok : forallb history_ok h_grid = true.
Proof. vm_compute. reflexivity. Qed.

Lemma h_grid_roundtrip : forall rs, In rs h_grid -> history_ok rs = true.
Proof. intros rs H. exact (proj1 (forallb_forall _ _) h_grid_ok rs H). Qed.
