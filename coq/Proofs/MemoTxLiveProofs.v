(* Liveness of the transmit side for arbitrary result scripts: enough results
   that accept at least one byte (or complete / drop a gram) drain everything. *)
From Hio Require Import Base.Prelude Model.MemoTx Proofs.MemoTxProofs.

(* a result that makes progress on a pending gram: accepts >= 1 byte, accepts
   all, or reports the destination unreachable (gram dropped) *)
Definition progress (k : kres) : bool :=
  match peer_send k with SCnt O => false | _ => true end.
Definition cp (ks : list kres) : nat := length (filter progress ks).

(* work left: every pending gram counts 1 + its unsent bytes *)
Definition units_q (q : list (bytes * dst)) : nat :=
  fold_right (fun gd a => S (length (fst gd)) + a) 0 q.
Definition units (s : state) : nat :=
  match txbs s with (g, Some _) => S (length g) | (_, None) => 0 end + units_q (txgs s).

Lemma units_zero_idle : forall s, units s = 0 -> pending s = false.
Proof.
  intros s H. unfold units, pending in *. destruct (txbs s) as [g [d|]]; [lia|].
  destruct (txgs s) as [|[g1 d1] q]; [reflexivity|]. cbn in H. lia.
Qed.

Lemma attempt_units : forall g d fresh old k b ev r,
  expected k = true ->
  attempt g d fresh old (peer_send k) = (b, ev, r) ->
  (if progress k then 1 else 0) + match b with (g', Some _) => S (length g') | (_, None) => 0 end
  <= S (length g).
Proof.
  intros g d fresh old k b ev r Hx H. unfold progress.
  assert (F : forall cnt, (let kk := Nat.min cnt (length g) in
            match skipn kk g with
            | [] => (([], None), [Sent d (firstn kk g)], Ok true)
            | _ :: _ => ((skipn kk g, Some d), [Sent d (firstn kk g)], Ok false)
            end) = (b, ev, r) ->
          (match cnt with O => 0 | _ => 1 end) + match b with (g', Some _) => S (length g') | (_, None) => 0 end
          <= S (length g)).
  { intros cnt. cbv zeta. destruct (skipn (Nat.min cnt (length g)) g) eqn:E; intros HH; inversion HH; subst.
    - destruct cnt; lia.
    - rewrite <- E, skipn_length. destruct cnt; [lia|].
      assert (length g <> 0) by (intros Z; destruct g; [rewrite skipn_nil in E; discriminate|discriminate]).
      lia. }
  destruct (peer_send k) as [n| |e] eqn:P.
  - apply (F n) in H. destruct n; exact H.
  - unfold attempt in H. rewrite Nat.min_id, skipn_all in H. inversion H; subst. lia.
  - unfold attempt in H. rewrite (peer_send_expected k e Hx P) in H. inversion H; subst. lia.
Qed.

Lemma expected_all : expected KAll = true. Proof. reflexivity. Qed.

Lemma once_units : forall s ks s' ks' ev r,
  pending s = true -> forallb expected ks = true ->
  once s ks = (s', ks', ev, r) ->
  cp ks + units s' <= cp ks' + units s /\ length ks' <= length ks /\ forallb expected ks' = true /\
  (ks <> [] -> length ks' < length ks).
Proof.
  intros s ks s' ks' ev r Hp Hx H. unfold once in H. unfold units, pending in *.
  assert (N : exists k, next ks = (k, tl ks) /\ expected k = true /\ forallb expected (tl ks) = true /\
                        cp ks = (if progress k then (match ks with [] => 0 | _ => 1 end) else 0) + cp (tl ks)).
  { destruct ks as [|k ks0].
    - exists KAll. repeat split; reflexivity.
    - cbn [forallb] in Hx. apply andb_prop in Hx. exists k. cbn [next tl]. repeat split; try tauto.
      unfold cp. cbn [filter]. destruct (progress k); reflexivity. }
  destruct N as (k & Nk & Ek & Et & Ck).
  assert (Lt : length (tl ks) <= length ks /\ (ks <> [] -> length (tl ks) < length ks)).
  { destruct ks; cbn [tl length]; split; try lia; intros C; try contradiction; lia. }
  destruct (txbs s) as [gb [db|]] eqn:B.
  - rewrite Nk in H. destruct (attempt gb db false (gb, Some db) (peer_send k)) as [[b e] x] eqn:A.
    inversion H; subst; clear H. cbn [txbs txgs].
    pose proof (attempt_units _ _ _ _ _ _ _ _ Ek A) as U.
    repeat split; try tauto. rewrite Ck. destruct (progress k); destruct ks; lia.
  - destruct (txgs s) as [|[g d] q] eqn:Q; [cbn in Hp; discriminate|].
    rewrite Nk in H. destruct (attempt g d true (gb, None) (peer_send k)) as [[b e] x] eqn:A.
    inversion H; subst; clear H. cbn [txbs txgs units_q fold_right fst].
    pose proof (attempt_units _ _ _ _ _ _ _ _ Ek A) as U.
    repeat split; try tauto. rewrite Ck. destruct (progress k); destruct ks; lia.
Qed.

Lemma service_loop_units : forall fuel s ks s' ks' ev x,
  forallb expected ks = true ->
  service_loop fuel s ks = (s', ks', ev, x) ->
  cp ks + units s' <= cp ks' + units s /\ length ks' <= length ks /\ forallb expected ks' = true /\
  (opened s = true -> pending s = true -> fuel <> 0 -> ks <> [] -> length ks' < length ks).
Proof.
  induction fuel as [|f IH]; intros s ks s' ks' ev x Hx H; cbn [service_loop] in H.
  - inversion H; subst. repeat split; auto; try lia; try (intros _ _ C; contradiction).
  - destruct (opened s && pending s) eqn:OP.
    + apply andb_prop in OP. destruct OP as [Ho Hp].
      destruct (once s ks) as [[[s1 k1] e1] r1] eqn:O.
      destruct (once_units _ _ _ _ _ _ Hp Hx O) as (U & L & E & Ls).
      destruct r1 as [[|]|kx].
      * destruct (service_loop f s1 k1) as [[[s2 k2] e2] x2] eqn:LL. inversion H; subst.
        destruct (IH _ _ _ _ _ _ E LL) as (U2 & L2 & E2 & _).
        split; [lia|]. split; [lia|]. split; [exact E2|]. intros _ _ _ Hne. specialize (Ls Hne). lia.
      * inversion H; subst. split; [lia|]. split; [lia|]. split; [exact E|]. intros _ _ _ Hne. exact (Ls Hne).
      * inversion H; subst. split; [lia|]. split; [lia|]. split; [exact E|]. intros _ _ _ Hne. exact (Ls Hne).
    + inversion H; subst. repeat split; auto; try lia. intros Ho Hp. rewrite Ho, Hp in OP. discriminate.
Qed.

(* Liveness.  For ANY script of kernel results made of acceptance counts,
   would-block and unreachable errors: if the script has at most m entries and
   contains at least as many progressing results (>= 1 byte accepted, or gram
   dropped as unreachable) as there is work pending (1 + unsent bytes per gram),
   then m greedy service calls on an open peer leave nothing pending.  No
   default acceptance is involved: the script need not run out. *)
Theorem liveness : forall m ks s, opened s = true -> forallb expected ks = true ->
  length ks <= m -> units s <= cp ks ->
  forall s' ks' ev xs, run s ks (repeat Service m) = (s', ks', ev, xs) -> pending s' = false.
Proof.
  assert (Idle : forall m s0 k0, opened s0 = true -> pending s0 = false ->
            forall s3 k3 e3 x3, run s0 k0 (repeat Service m) = (s3, k3, e3, x3) -> pending s3 = false).
  { induction m; intros s0 k0 Ho0 Hp0 s3 k3 e3 x3 HH; cbn [repeat run step] in HH.
    - inversion HH; subst; exact Hp0.
    - unfold service in HH. cbn [service_loop] in HH. rewrite Ho0, Hp0 in HH. cbn [andb] in HH.
      destruct (run s0 k0 (repeat Service m)) as [[[s4 k4] e4] x4] eqn:RR. inversion HH; subst.
      eapply IHm; eauto. }
  induction m as [|m IH]; intros ks s Ho Hx Hl Hu s' ks' ev xs H.
  - destruct ks; [|cbn in Hl; lia]. cbn in H. inversion H; subst. apply units_zero_idle. unfold cp in Hu. cbn in Hu. lia.
  - cbn [repeat run step] in H.
    destruct (service s ks) as [[[s1 k1] e1] x1] eqn:HS.
    destruct (run s1 k1 (repeat Service m)) as [[[s2 k2] e2] x2] eqn:R.
    inversion H; subst; clear H.
    assert (Ho1 : opened s1 = true).
    { unfold service in HS. apply service_loop_conserve in HS. destruct HS as [_ HS]. congruence. }
    unfold service in HS. destruct (service_loop_units _ _ _ _ _ _ _ Hx HS) as (U & L & E & Ls).
    destruct (pending s) eqn:P.
    + destruct ks as [|k ks0].
      * unfold cp in Hu. cbn in Hu. assert (Z : units s = 0) by lia. apply units_zero_idle in Z. congruence.
      * assert (length k1 < length (k :: ks0)) by (apply Ls; auto; discriminate).
        eapply (IH k1 s1); eauto; lia.
    + cbn [service_loop] in HS. rewrite Ho, P in HS. cbn [andb] in HS. inversion HS; subst. eapply Idle; eauto.
Qed.
