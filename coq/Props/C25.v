(* C25 — boxwork transitions run exit/enter actions in documented nested order.
   Statements only; proofs are in Proofs/BoxProofs.v.  The model (Model/Box.v)
   is the tree after the four D28 repairs; all theorems are full strength.

   Vocabulary: [pile F b] is the active pile of box b (top first);
   [exen_split far nears fars = Some (c, no, fo)] cuts the two piles into the
   retained boxes c, the boxes left no and the boxes arrived at fo;
   [candidates] are the destinations returned by the goacts of the pass, top
   box first, each box's goacts in declaration order; a candidate is
   [admissible] when every box arrived at passes its preconditions; [chosen]
   is the first admissible candidate; [structural] keeps the exit, re-exit,
   re-enter (mark + act) and enter (mark + act) events of a trace. *)
From Hio Require Import Base.Prelude Model.Box Proofs.BoxProofs.

(* exen: c is the longest common prefix of the two piles that does not reach
   far (far in the active pile forces exit and re-entry from far down). *)
Theorem C25_exen_spec : forall far nears fars c no fo,
  exen_split far nears fars = Some (c, no, fo) <-> is_split far nears fars c no fo.
Proof. intros; split; [apply exen_split_sound | apply exen_split_complete]. Qed.
Print Assumptions C25_exen_spec.

(* Every pass, for every forest, active box, goact results and failing
   preconditions: the trace is scan ++ exits (bottom-up over the boxes left)
   ++ re-exits (bottom-up over the retained) ++ re-enters (top-down over the
   retained) ++ enters (top-down over the boxes arrived at) ++ redo of the new
   pile, where scan holds afdo/godo/predo events only; rejected candidates
   before the chosen one contribute nothing but their predo events.  The only
   other outcome is the TypeError of a cut-less exen, which needs a candidate
   whose pile is a strict extension of the active pile (no box tree has one,
   see C25_trees_le6). *)
Theorem C25_transition : forall F fs gos near st t,
  pass F fs gos near = (st, t) ->
  (st = Crashed /\ exists d, In d (candidates F gos near) /\ exen_split d (pile F near) (pile F d) = None) \/
  match chosen F fs gos near with
  | Some far =>
    exists c no fo scan,
      exen_split far (pile F near) (pile F far) = Some (c, no, fo) /\
      st = Active far /\ structural scan = [] /\
      t = scan ++ exdo F (rev no) ++ rexdo F (rev c) ++ rendo F c ++ endo F fo ++ redo F (pile F far)
  | None =>
    st = Active near /\ exists scan, structural scan = [] /\ t = scan ++ redo F (pile F near)
  end.
Proof. exact pass_spec. Qed.
Print Assumptions C25_transition.

(* ... so the exit/enter actions that run are exactly the nested order of
   the transition taken. *)
Theorem C25_transition_order : forall F fs gos near st t,
  pass F fs gos near = (st, t) -> st <> Crashed ->
  match chosen F fs gos near with
  | Some far => exists c no fo,
      exen_split far (pile F near) (pile F far) = Some (c, no, fo) /\
      st = Active far /\
      structural t = exdo F (rev no) ++ rexdo F (rev c) ++ rendo F c ++ endo F fo
  | None => st = Active near /\ structural t = []
  end.
Proof. exact pass_structural. Qed.
Print Assumptions C25_transition_order.

(* A pass in which every fired transition fails an entry precondition runs
   no exit or entry action and keeps the active box. *)
Theorem C25_failed_pre : forall F fs gos near,
  (forall d, In d (candidates F gos near) -> admissible F fs near d = false) ->
  fst (pass F fs gos near) <> Crashed ->
  fst (pass F fs gos near) = Active near /\ structural (snd (pass F fs gos near)) = [].
Proof.
  intros F fs gos near H Hn. apply chosen_none in H.
  destruct (pass F fs gos near) as [st t] eqn:Hp.
  pose proof (pass_structural _ _ _ _ _ _ Hp Hn) as S. rewrite H in S. exact S.
Qed.
Print Assumptions C25_failed_pre.

(* A box's entry preconditions are met exactly when every one of its preacts
   returns a truthy value (None, 0, 0.0, '' and [] are not met, like False;
   1, 'x', an object are met, like True). *)
Theorem C25_met_is_truthy : forall F fs b,
  snd (box_predo F fs b) = forallb (fun i => truthy (preact_value fs b i)) (seq 0 (cnt F KPre b)).
Proof. intros. apply box_predo_truthy. Qed.
Print Assumptions C25_met_is_truthy.

(* The first pass enters the first pile top-down, or nothing at all when a
   precondition fails. *)
Theorem C25_start : forall F fs first,
  structural (snd (start F fs first)) =
    if snd (predo F fs (pile F first)) then endo F (pile F first) else [].
Proof. exact start_structural. Qed.
Print Assumptions C25_start.

(* Ending exits the active pile bottom-up, every active box exactly once. *)
Theorem C25_end : forall F b,
  step F (Active b) End = (Done true, exdo F (rev (pile F b))) /\
  (NoDup (pile F b) -> forall x, In x (pile F b) -> count_occ Nat.eq_dec (rev (pile F b)) x = 1).
Proof. intros. split; [reflexivity | intros; now apply finish_once]. Qed.
Print Assumptions C25_end.

(* ... and in every well-founded forest of any size (some rank decreases
   towards the top, primary unders name their over) the pile is free of
   duplicates, so ending exits every active box exactly once. *)
Theorem C25_end_once : forall F b,
  wf_forest F ->
  NoDup (pile F b) /\
  forall x, In x (pile F b) -> count_occ Nat.eq_dec (rev (pile F b)) x = 1.
Proof.
  intros F b W. pose proof (pile_nodup F b W) as N. split; auto.
  intros. now apply finish_once.
Qed.
Print Assumptions C25_end_once.

Example C25_wf_example :
  wf_forest (forest_of [None; Some 0; Some 1; Some 1; Some 0] [1; 1; 1; 1; 1; 1; 1; 1; 1; 1]).
Proof.
  exists (fun b => b). split.
  - intros b o. do 5 (destruct b as [|b]; [vm_compute; intros H; inversion H; subst; lia|]).
    unfold over. simpl. destruct b; discriminate.
  - intros b u. do 5 (destruct b as [|b]; [vm_compute; intros H; inversion H; subst; reflexivity|]).
    unfold under0. simpl. destruct b; discriminate.
Qed.

(* Each box's actions in a context run in declaration order: the i-th event
   of an act list is the call of its i-th act (mark lists before act lists
   by the definitions of box_rendo/box_endo). *)
Theorem C25_declaration_order : forall F k b i d,
  i < cnt F k b -> nth i (acts F k b) d = Ev k b i /\ length (acts F k b) = cnt F k b.
Proof. intros. split; [now apply acts_nth | apply acts_length]. Qed.
Print Assumptions C25_declaration_order.

(* Box trees, exhaustively for every forest of at most 6 boxes (every over
   numbered below its unders, unders in number order: every ordered forest
   shape), every near and far: piles have no duplicates, exen finds a cut,
   retained boxes are neither exited nor entered, and either far is active
   and both exits and enters start at far, or no box is both exited and
   entered. *)
Theorem C25_trees_le6 : forall ov cs near far,
  In ov (forests_le 6) -> near < length ov -> far < length ov ->
  let F := forest_of ov cs in
  NoDup (pile F near) /\
  exists c no fo, exen_split far (pile F near) (pile F far) = Some (c, no, fo) /\
    (forall x, In x c -> ~ In x no /\ ~ In x fo) /\
    ((In far (pile F near) /\ hd_error no = Some far /\ hd_error fo = Some far) \/
     (~ In far (pile F near) /\ forall x, In x no -> ~ In x fo)).
Proof. intros. apply pair_ok_spec. now apply forests_le6_pairs. Qed.
Print Assumptions C25_trees_le6.

(* No pass crashes when exen finds a cut for every candidate. *)
Theorem C25_no_crash : forall F fs gos near,
  (forall d, In d (candidates F gos near) -> exen_split d (pile F near) (pile F d) <> None) ->
  fst (pass F fs gos near) <> Crashed.
Proof. exact no_crash. Qed.
Print Assumptions C25_no_crash.

(* Building the boxwork with bx: whatever mix of explicit overs, over=None and
   default overs (= the current level, legal exactly where the level already
   is the intended over) declares the boxes, the built (box, over) list — and
   with it every unders list, which is its filter in declaration order — is
   the declared one. *)
Theorem C25_bx_builds_declared : forall ds ds',
  Forall (fun d => snd d <> MDefault) ds -> relaxes None ds ds' ->
  build ds' = map (fun d => (fst d, intended (snd d))) ds.
Proof. exact bx_builds_declared. Qed.
Print Assumptions C25_bx_builds_declared.

(* A box declared with over=None resets the current level: a default-over box
   right after it is a top-level box, whatever was declared before. *)
Theorem C25_bx_none_resets_level : forall l ds a b,
  exists pre, build_from l (ds ++ [(a, MNone); (b, MDefault)]) = pre ++ [(a, None); (b, None)].
Proof. exact none_resets_level. Qed.
Print Assumptions C25_bx_none_resets_level.

Example C25_bx_example :
  build [(0, MNone); (1, MExplicit 0); (2, MDefault); (3, MNone); (4, MDefault)] =
    [(0, None); (1, Some 0); (2, Some 0); (3, None); (4, None)] /\
  built_unders (build [(0, MNone); (1, MExplicit 0); (2, MDefault); (3, MNone); (4, MDefault)]) 0 = [1; 2].
Proof. vm_compute. split; reflexivity. Qed.

(* The verbs do / be file an act under the explicit nabe= when one is given
   (also when it is "endo" and the act class's own default is another
   context), else under the context chosen with at(...); native means the
   act class's own default. *)
Theorem C25_verb_context : forall explicit at_ctx dflt,
  verb_ctx explicit at_ctx dflt =
    match explicit with
    | Some e => if Nat.eqb e NATIVE then dflt else e
    | None => if Nat.eqb at_ctx NATIVE then dflt else at_ctx
    end.
Proof. exact verb_ctx_rule. Qed.
Print Assumptions C25_verb_context.

Theorem C25_verb_context_explicit : forall e at_ctx dflt,
  e <> NATIVE -> verb_ctx (Some e) at_ctx dflt = e /\ verb_ctx None e dflt = e.
Proof. intros. split; [now apply verb_ctx_explicit | now apply verb_ctx_at]. Qed.
Print Assumptions C25_verb_context_explicit.

(* Any sequence of at / do / be statements in which every act is declared for
   its own context — by nabe=, or by the current at() context, or by its
   class default under native — files every act in the list of that context
   (context S k for an act of kind k). *)
Theorem C25_filed_as_declared : forall ss at_ctx,
  all_well_declared at_ctx ss ->
  Forall (fun f => fst f = S (fst (snd f))) (file_from at_ctx ss).
Proof. exact filed_as_declared. Qed.
Print Assumptions C25_filed_as_declared.

Example C25_verbs_example :
  (* at("exdo"); be(...); at("rexdo"); be(...); be(..., nabe="rendo"); at(); do(...);
     at("endo"); do("count") [class default redo]; do("discount", nabe="endo") [class default exdo] *)
  file_acts [SAt 9; SAct None 5 8 0; SAt 10; SAct None 5 9 0; SAct (Some 3) 5 2 0; SAt 0; SAct None 5 4 0;
             SAt 5; SAct None 6 4 1; SAct (Some 5) 9 4 2] =
    [(9, (8, 0)); (10, (9, 0)); (3, (2, 0)); (5, (4, 0)); (5, (4, 1)); (5, (4, 2))].
Proof. reflexivity. Qed.

(* Non-vacuity.  Forest 0 > (1 > (2, 3), 4), two acts in every list.  From
   active box 3 the goact of box 1 fires to 4 (rejected: preact 0 of 4 returns None, which is falsy)
   and then to 2 (taken): boxes 0 and 1 are retained. *)
Example C25_example :
  let F := forest_of [None; Some 0; Some 1; Some 1; Some 0] [1; 1; 1; 1; 1; 0; 0; 2; 1; 1] in
  let r := pass F [(4, 0, PNone)] [(1, 0, 4); (1, 1, 2)] 3 in
  pile F 3 = [0; 1; 3] /\ candidates F [(1, 0, 4); (1, 1, 2)] 3 = [4; 2] /\
  chosen F [(4, 0, PNone)] [(1, 0, 4); (1, 1, 2)] 3 = Some 2 /\ fst r = Active 2 /\
  structural (snd r) =
    [E 8 3 0; E 9 1 0; E 9 0 0; E 1 0 0; E 2 0 0; E 1 1 0; E 2 1 0; E 3 2 0; E 4 2 0] /\
  snd (step F (Active 2) End) = [E 8 2 0; E 8 1 0; E 8 0 0] /\
  existsb (list_eqb option_nat_eqb [None; Some 0; Some 1; Some 1; Some 0]) (forests_le 6) = true.
Proof. vm_compute. repeat split. Qed.
