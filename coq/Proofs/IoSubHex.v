(* suffix / unsuffix: the 32-hex-digit ordinal is order preserving, free of the
   separator and parses back; how two suffixed keys of different user keys compare. *)
From Hio Require Import Base.Prelude Base.ListFacts Model.Lmdb Model.IoSub Proofs.LmdbProofs.
Local Open Scope N_scope.

Lemma hexdig_cmp a b : a < 16 -> b < 16 -> N.compare (hexdig a) (hexdig b) = N.compare a b.
Proof.
  intros Ha Hb. unfold hexdig.
  destruct (N.ltb a 10) eqn:Ea, (N.ltb b 10) eqn:Eb;
    try apply N.ltb_lt in Ea; try apply N.ltb_ge in Ea; try apply N.ltb_lt in Eb; try apply N.ltb_ge in Eb;
    destruct (N.compare_spec a b) as [E|L|G];
    try (subst; apply N.compare_eq_iff; lia); try (apply N.compare_lt_iff; lia); try (apply N.compare_gt_iff; lia).
Qed.

Lemma hexdig_ge d : 48 <= hexdig d.
Proof. unfold hexdig. destruct (N.ltb d 10); lia. Qed.

Lemma hexval_hexdig d : d < 16 -> hexval (hexdig d) = Some d.
Proof.
  intros H. unfold hexdig, hexval. destruct (N.ltb d 10) eqn:E.
  - apply N.ltb_lt in E.
    assert (A1 : N.leb 48 (48 + d) = true) by (apply N.leb_le; lia).
    assert (A2 : N.leb (48 + d) 57 = true) by (apply N.leb_le; lia).
    rewrite A1, A2. cbn [andb]. f_equal. lia.
  - apply N.ltb_ge in E.
    assert (A1 : N.leb 48 (87 + d) = true) by (apply N.leb_le; lia).
    assert (A2 : N.leb (87 + d) 57 = false) by (apply N.leb_gt; lia).
    assert (A3 : N.leb 97 (87 + d) = true) by (apply N.leb_le; lia).
    assert (A4 : N.leb (87 + d) 102 = true) by (apply N.leb_le; lia).
    rewrite A1, A2, A3, A4. cbn [andb]. f_equal. lia.
Qed.

Lemma hexfix_length w n : length (hexfix w n) = w.
Proof. revert n. induction w as [|w IH]; intros n; simpl; [reflexivity|]. rewrite app_length, IH. simpl. lia. Qed.

Lemma hexfix_nosep w n : ~ In ionsep (hexfix w n).
Proof.
  revert n. induction w as [|w IH]; intros n; simpl; [tauto|].
  rewrite in_app_iff. intros [H|[H|[]]]; [now apply (IH _ H)|].
  pose proof (hexdig_ge (n mod 16)). unfold ionsep in H. lia.
Qed.

Lemma bcmp_snoc A B x y : length A = length B ->
  bcmp (A ++ [x]) (B ++ [y]) = match bcmp A B with Eq => N.compare x y | c => c end.
Proof.
  revert B. induction A as [|a A IH]; intros [|b B] L; simpl in *; try discriminate.
  - now destruct (N.compare x y).
  - destruct (N.compare a b); auto.
Qed.

Lemma pow16_succ w : 16 ^ N.of_nat (S w) = 16 * 16 ^ N.of_nat w.
Proof. rewrite Nat2N.inj_succ. apply N.pow_succ_r'. Qed.

Lemma hexfix_cmp w a b : a < 16 ^ N.of_nat w -> b < 16 ^ N.of_nat w ->
  bcmp (hexfix w a) (hexfix w b) = N.compare a b.
Proof.
  revert a b. induction w as [|w IH]; intros a b Ha Hb.
  - simpl in *. assert (a = 0) by lia. assert (b = 0) by lia. now subst.
  - rewrite pow16_succ in Ha, Hb. cbn [hexfix].
    rewrite bcmp_snoc by now rewrite !hexfix_length.
    assert (Qa : a / 16 < 16 ^ N.of_nat w) by (apply N.div_lt_upper_bound; lia).
    assert (Qb : b / 16 < 16 ^ N.of_nat w) by (apply N.div_lt_upper_bound; lia).
    rewrite (IH _ _ Qa Qb).
    pose proof (N.div_mod' a 16) as Da. pose proof (N.div_mod' b 16) as Db.
    assert (Ra : a mod 16 < 16) by (apply N.mod_lt; lia).
    assert (Rb : b mod 16 < 16) by (apply N.mod_lt; lia).
    rewrite hexdig_cmp by assumption.
    set (qa := a / 16) in *. set (qb := b / 16) in *. set (ra := a mod 16) in *. set (rb := b mod 16) in *.
    clearbody qa qb ra rb. clear IH Qa Qb Ha Hb.
    destruct (N.compare_spec qa qb) as [E|L|G].
    + destruct (N.compare_spec ra rb) as [E2|L2|G2]; symmetry.
      * apply N.compare_eq_iff. lia.
      * apply N.compare_lt_iff. lia.
      * apply N.compare_gt_iff. lia.
    + symmetry. apply N.compare_lt_iff. lia.
    + symmetry. apply N.compare_gt_iff. lia.
Qed.

Lemma ionmax_pow : ionmax = 16 ^ N.of_nat 32.
Proof. vm_compute. reflexivity. Qed.

Lemma hex32_small i : i < ionmax -> hex32 i = hexfix 32 i.
Proof. intros H. unfold hex32. apply N.ltb_lt in H. now rewrite H. Qed.

Lemma hex32_cmp i j : i < ionmax -> j < ionmax -> bcmp (hex32 i) (hex32 j) = N.compare i j.
Proof.
  intros Hi Hj. rewrite !hex32_small by assumption. apply hexfix_cmp; now rewrite <- ionmax_pow.
Qed.

(* ---- parsing back ---- *)
Lemma parse_snoc acc l c :
  parse_hex_acc acc (l ++ [c]) =
  match parse_hex_acc acc l with
  | Some a => match hexval c with Some d => Some (a * 16 + d) | None => None end
  | None => None
  end.
Proof.
  revert acc. induction l as [|x l IH]; intros acc; simpl.
  - now destruct (hexval c).
  - destruct (hexval x); auto.
Qed.

Lemma parse_hexfix w acc n : n < 16 ^ N.of_nat w ->
  parse_hex_acc acc (hexfix w n) = Some (acc * 16 ^ N.of_nat w + n).
Proof.
  revert n. induction w as [|w IH]; intros n Hn.
  - simpl in *. f_equal. lia.
  - rewrite pow16_succ in *. cbn [hexfix]. rewrite parse_snoc.
    rewrite IH by (apply N.div_lt_upper_bound; lia).
    rewrite hexval_hexdig by (apply N.mod_lt; lia). f_equal.
    pose proof (N.div_mod' n 16) as D. set (q := n / 16) in *. set (r := n mod 16) in *.
    clearbody q r. set (p := 16 ^ N.of_nat w) in *. clearbody p. nia.
Qed.

Lemma parse_hex32 i : i < ionmax -> parse_hex (hex32 i) = Some i.
Proof.
  intros H. rewrite hex32_small by assumption. unfold parse_hex.
  destruct (hexfix 32 i) eqn:E.
  - apply (f_equal (@length N)) in E. rewrite hexfix_length in E. discriminate.
  - rewrite <- E. rewrite parse_hexfix by now rewrite <- ionmax_pow. f_equal.
Qed.

Lemma rsplit_none s l : ~ In s l -> rsplit s l = None.
Proof.
  induction l as [|x l IH]; simpl; intros H; [reflexivity|].
  rewrite IH by tauto. destruct (N.eqb x s) eqn:E; auto. apply N.eqb_eq in E. subst. tauto.
Qed.

Lemma rsplit_app s k h : ~ In s h -> rsplit s (k ++ s :: h) = Some (k, h).
Proof.
  intros H. induction k as [|x k IH]; simpl.
  - rewrite rsplit_none by assumption. now rewrite N.eqb_refl.
  - now rewrite IH.
Qed.

Lemma unsuffix_suffix k i : i < ionmax -> unsuffix (suffix k i) = Ok (k, i).
Proof.
  intros H. unfold unsuffix, suffix. rewrite rsplit_app.
  - now rewrite parse_hex32.
  - rewrite hex32_small by assumption. apply hexfix_nosep.
Qed.

(* ---- comparing suffixed keys ---- *)
Lemma suffix_cmp_same k i j : i < ionmax -> j < ionmax ->
  bcmp (suffix k i) (suffix k j) = N.compare i j.
Proof.
  intros Hi Hj. unfold suffix. rewrite bcmp_app_l. cbn [bcmp]. rewrite N.compare_refl. now apply hex32_cmp.
Qed.

Lemma suffix_lt_same k i j : i < ionmax -> j < ionmax -> blt (suffix k i) (suffix k j) = N.ltb i j.
Proof.
  intros Hi Hj. unfold blt. rewrite suffix_cmp_same by assumption. unfold N.ltb. reflexivity.
Qed.

(* the order of their suffixed keys does not depend on the ordinals *)
Lemma tag_cmp_gen (s : N) k k' x y : k <> k' ->
  prefixb (k ++ [s]) k' = false -> prefixb (k' ++ [s]) k = false ->
  bcmp (k ++ s :: x) (k' ++ s :: y) = bcmp (k ++ [s]) (k' ++ [s]) /\
  bcmp (k ++ [s]) (k' ++ [s]) <> Eq.
Proof.
  revert k'. induction k as [|c k IH]; intros [|c' k'] Hne H1 H2; cbn [app prefixb bcmp] in *.
  - congruence.
  - destruct (N.compare s c') eqn:E.
    + apply N.compare_eq in E. subst. rewrite N.eqb_refl in H1. discriminate.
    + split; congruence.
    + split; congruence.
  - destruct (N.compare c s) eqn:E.
    + apply N.compare_eq in E. subst. rewrite N.eqb_refl in H2. discriminate.
    + split; congruence.
    + split; congruence.
  - destruct (N.compare c c') eqn:E; try (split; congruence).
    apply N.compare_eq in E. subst c'. rewrite N.eqb_refl in H1, H2. cbn [andb] in H1, H2.
    apply IH; [congruence|assumption|assumption].
Qed.

Lemma tag_cmp k k' x y : k <> k' -> indep2 k k' ->
  bcmp (k ++ ionsep :: x) (k' ++ ionsep :: y) = bcmp (k ++ [ionsep]) (k' ++ [ionsep]) /\
  bcmp (k ++ [ionsep]) (k' ++ [ionsep]) <> Eq.
Proof. intros Hne [H1 H2]. now apply tag_cmp_gen. Qed.

Definition tag_lt (k k' : bytes) : bool := blt (k ++ [ionsep]) (k' ++ [ionsep]).

Lemma suffix_lt_other k k' i j : k <> k' -> indep2 k k' ->
  blt (suffix k i) (suffix k' j) = tag_lt k k'.
Proof.
  intros Hne Hi. unfold blt, tag_lt, suffix, blt.
  now rewrite (proj1 (tag_cmp k k' (hex32 i) (hex32 j) Hne Hi)).
Qed.

Lemma tag_lt_total k k' : k <> k' -> indep2 k k' -> tag_lt k' k = negb (tag_lt k k').
Proof.
  intros Hne Hi. unfold tag_lt, blt. rewrite (bcmp_antisym (k ++ [ionsep]) (k' ++ [ionsep])).
  pose proof (proj2 (tag_cmp k k' [] [] Hne Hi)). destruct (bcmp (k ++ [ionsep]) (k' ++ [ionsep])); simpl; congruence.
Qed.

Lemma indep2_sym k k' : indep2 k k' -> indep2 k' k.
Proof. unfold indep2. tauto. Qed.
