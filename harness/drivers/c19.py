"""C19 — HTTP client: requests are sent one at a time in queue order, one response entry each, in order,
carrying the originating request; redirects followed with history; https -> http redirect refused.

The real hio.core.http.clienting.Client (with real Requester/Respondent and the real tcp.Client code
for connect/send/receive) is driven against a scripted in-memory "network": the connector's socket
object is a FakeSock attached to a scripted server, and the connectors that Client.redirect creates
(tcp.Client / tcp.ClientTls) are the same fakes (the two names are rebound for the duration of a run).
The scripted server answers the k-th request it receives, on whatever connection, with reply k of the
case (status, optional Location, framing, delay in passes, fragments, close afterwards).

A case is a schedule: ["enq", tag] (Client.request with a unique path /t<tag> and kwarg tag=<tag>) and
["pass"] (one Client.service()).  The observation is the per-pass (waited, queue length, #responses,
#redirects), the final .responses entries and the server-side wire log.  The Gallina model
(Model/HttpClient.v) replays the same schedule with "a reply completed in this pass" flags.
"""
import errno
from harness.core import coq_N, coq_list, coq_bool, coq_option

PROP = "C19"
COQ_REQUIRES = ["Hio.Model.HttpClient"]
COQ_CHECK = "HttpClient.check_case"
COQ_CASE_TYPE = "HttpClient.case"
COQ_BRANCHES = ("HttpClient.case_branches", "HttpClient.n_branches")
SHARD = 150
RULE = ("schedules of 1-8 queued requests (GET/POST with bodies, unique path and tag kwarg) interleaved with service "
        "passes, against scripted server replies: 200/404/500 or 300/301/302/303/307 with Location relative / absolute "
        "same host / other host / other scheme / https->http / missing; Content-Length, chunked or close-delimited "
        "framing; 0-3 passes of delay, 1-3 fragments; optional close after the reply; http and https clients; "
        "redirectable on/off; methods GET/HEAD/POST/PUT mixed per request (HEAD replies carry a non-zero Content-Length and no "
        "body) and clients constructed with method HEAD/POST; requests with 0-3 query arguments (as qargs or written into the path) whose "
        "redirect Locations re-assign none / some / all of the keys, also over multi-hop chains; requests queued through Client.request WITHOUT qargs (default = copy of the requester's) with and without "
        "a query in their path, several queued before the earlier one is built; payload kinds per request (data= JSON, fargs= form, body= bytes, none) on "
        "GET/POST/PUT/PATCH/DELETE with explicit or default headers; reconnectable connectors (reconnect timer 1-12 passes of virtual "
        "time) against servers that close after replies, requests queued and popped during the cutoff, redirects followed across a close; in ~45% of the cases the answers are consumed through Client.respond(); replies optionally preceded by an interim 100 Continue (bare or with a header, same segment or earlier); in ~30% of the cases the application hands its own requests/responses/events/redirects "
        "containers (empty or pre-filled) to the constructor and works on those; request paths with characters quote() changes and requests that reuse the previous path/method; scenes where the server closes the idle keep-alive connection between groups of requests (idle passes with an empty queue, requests queued afterwards) (Client.request without path, raw dicts without path) "
        "(after every pass / only at the end / in bursts).  A case is non-trivial when >= 3 requests were queued and some reply was delayed, "
        "fragmented or a redirect")
MODELLED = ["response parsing (real Respondent) is abstracted to 'a complete reply with status s and Location l was "
            "consumed in this pass'; request building (real Requester) to the path that appears on the wire",
            "TLS: the https connector is the real tcp.ClientTls class with wrap/handshake replaced by no-ops over the fake socket",
            "service-pass timing, reply delays and fragmentation are inputs of the schedule, not modelled behaviour",
            "server replies only to requests it received (no unsolicited bytes)"]

HOSTS = [("127.0.0.1", 8000), ("127.0.0.1", 8001), ("127.0.0.1", 8002)]
REDIRECTS = (300, 301, 302, 303, 307)
REASON = {200: "OK", 404: "Not Found", 500: "Internal Server Error", 300: "Multiple Choices", 301: "Moved Permanently",
          302: "Found", 303: "See Other", 307: "Temporary Redirect", 304: "Not Modified", 308: "Permanent Redirect"}


# --------------------------------------------------------------------------- fake network

class Net:
    """Scripted server side: one logical server per (host, port, secure); replies consumed globally in order."""
    def __init__(self, replies):
        self.replies = replies
        self.k = 0            # index of next reply
        self.wire = []        # [conn_id, secure, host_index, path]
        self.asked = []       # raw request-line paths, in order
        self.lost = 0         # request bytes written to a connection the server had already closed
        self.socks = []
        self.nconn = 0

    def tick(self):
        for s in self.socks:
            s.tick()


class FakeSock:
    def __init__(self, net, ha, secure):
        self.net, self.ha, self.secure = net, ha, secure
        self.conn_id = net.nconn
        net.nconn += 1
        net.socks.append(self)
        self.rx = bytearray()     # bytes from the client not yet parsed by the server
        self.pending = []         # list of [delay, bytes | None(=close)]
        self.ready = bytearray()
        self.eof = False
        self.closed = False

    # --- socket API used by tcp.Client
    def setsockopt(self, *a): pass
    def getsockopt(self, *a): return 1 << 20
    def setblocking(self, flag): pass
    def connect_ex(self, ha): return 0
    def getsockname(self): return ("127.0.0.1", 40000 + self.conn_id)
    def getpeername(self): return self.ha
    def shutdown(self, how): pass
    def close(self): self.closed = True

    def recv(self, n):
        if self.ready:
            data = bytes(self.ready[:n]); del self.ready[:n]
            return data
        if self.eof:
            return b""
        raise BlockingIOError(errno.EAGAIN, "would block")

    def send(self, data):
        if self.eof:   # the peer has closed: like a kernel, the first writes are accepted and the bytes are lost
            self.net.lost += len(data)
            return len(data)
        self.rx += bytes(data)
        self._serve()
        return len(data)

    # --- scripted server
    def _serve(self):
        while True:
            i = self.rx.find(b"\r\n\r\n")
            if i < 0:
                return
            head = bytes(self.rx[:i]).decode("latin-1")
            lines = head.split("\r\n")
            n, ctype = 0, None
            for ln in lines[1:]:
                if ln.lower().startswith("content-length:"):
                    n = int(ln.split(":", 1)[1])
                if ln.lower().startswith("content-type:"):
                    ctype = ln.split(":", 1)[1].strip()
            if len(self.rx) < i + 4 + n:
                return
            body = bytes(self.rx[i + 4:i + 4 + n])
            del self.rx[:i + 4 + n]
            verb, path = lines[0].split(" ")[:2]
            self.net.wire.append([self.conn_id, self.secure, HOSTS.index(self.ha), path, verb, classify_body(body), ctype_kind(ctype)])
            self.net.asked.append(path.partition("?")[0])   # the raw (percent-encoded) path the server was asked for
            k = self.net.k
            self.net.k += 1
            r = self.net.replies[k] if k < len(self.net.replies) else {"status": 200}
            data = render_reply(k, r, verb)
            d = r.get("delay", 0)
            # interim 100 Continue before the final response: bare or with a header; in the same segment or earlier
            pre = {"bare": b"HTTP/1.1 100 Continue\r\n\r\n", "hdr": b"HTTP/1.1 100 Continue\r\nX-Note: wait\r\n\r\n"}.get(r.get("interim"), b"")
            if pre and r.get("interim_early"):
                self.pending.append([d, pre])
                d += 1
            else:
                data = pre + data
            nf = max(1, min(r.get("frags", 1), len(data)))
            step = -(-len(data) // nf)
            for j in range(0, len(data), step):
                self.pending.append([d, data[j:j + step]])
                d += 1
            if r.get("idle_close"):   # the server closes the idle keep-alive connection some passes after its reply
                self.pending.append([d - 1 + r["idle_close"], None])
            elif closes_after(r, verb):
                self.pending.append([d - 1, None])

    def tick(self):
        """Start of a client pass: release what is due."""
        keep = []
        for item in self.pending:
            if item[0] <= 0:
                if item[1] is None:
                    self.eof = True
                else:
                    self.ready += item[1]
            else:
                item[0] -= 1
                keep.append(item)
        self.pending = keep


KEYS = ["a", "b", "token", "id"]   # "id" identifies a request that reuses the previous path
SUFFIXES = ["", "/a b", "/x:y@z", "/p,q;r", "/100%", "/\u00e9t\u00e9", "/a%20b"]   # quote() changes all but the first


def q_text(q):
    return "&".join(f"{KEYS[k]}={v}" for k, v in q)


def q_parse(text):
    """'a=1&token=5' -> [[0, 1], [2, 5]] (order kept); unknown keys/values map to 99"""
    out = []
    for part in (text.split("&") if text else []):
        k, _, v = part.partition("=")
        out.append([KEYS.index(k) if k in KEYS else 99, int(v) if v.isdigit() else 99])
    return out


def split_target(path):
    """'/t5/a%20b?a=1' -> ('req', 5, [[0, 1]]); a request that reuses another path carries id=<tag> in its query"""
    import re
    p, _, query = path.partition("?")
    q = q_parse(query)
    ids = [v for k, v in q if k == 3]
    if ids:
        return "req", ids[0], q
    kind = "req" if p.startswith("/t") else "redir"
    m = re.match(r"/[tr](\d+)", p)
    return kind, int(m.group(1)) if m else 9999, q


def rmethod(ev, obs):
    """the request's method: as queued, or ("same") the requester's at the moment it was queued"""
    m = ev_method(ev)
    return obs.get("msnaps", {}).get(str(ev[1]), "GET") if m == "same" else m


def ev_sfx(ev):
    return SUFFIXES[ev[7]] if len(ev) > 7 and isinstance(ev[7], int) else ""


def ev_reuse(ev):
    """None | "nopath" (Client.request without path) | "rawnopath" (raw request dict without 'path')"""
    return ev[8] if len(ev) > 8 else None


def ev_path(ev):
    return f"/t{ev[1]}" + ev_sfx(ev)


def ev_explicit(ev):
    """qargs passed to Client.request: a list of pairs, or None when the argument is omitted ("none")."""
    if len(ev) > 3 and ev[3] == "none":
        return None
    if len(ev) > 4 and ev[4] == "inpath":
        return []
    return ev[3] if len(ev) > 3 else []


def ev_pathq(ev):
    """query written into the request's path"""
    if len(ev) > 4 and ev[4] == "inpath":
        return ev[3]
    return ev[4] if len(ev) > 4 and isinstance(ev[4], list) else []


def ev_pay(ev):
    """payload kind queued with the request: none | body | data | fargs (older cases: POST/PUT carry body=)"""
    if len(ev) > 5:
        return ev[5]
    return "body" if ev_method(ev) in ("POST", "PUT") else "none"


def ev_hdr(ev):
    """explicit headers= given to Client.request (else its default: a copy of the requester's)"""
    return bool(ev[6]) if len(ev) > 6 else False


def pay_of(ev):
    k = PAYKINDS.index(ev_pay(ev))
    return [k, ev[1] if k else 0]


def classify_body(body):
    """bytes the server received -> [kind, id]"""
    import json as _json, re
    if not body:
        return [0, 0]
    m = re.fullmatch(rb"payload (\d+)", body)
    if m:
        return [1, int(m.group(1))]
    m = re.fullmatch(rb"f=(\d+)", body)
    if m:
        return [3, int(m.group(1))]
    try:
        d = _json.loads(body)
        if isinstance(d, dict) and list(d) == ["d"] and isinstance(d["d"], int):
            return [2, d["d"]]
    except Exception:
        pass
    return [9, 9]


def ctype_kind(value):
    if not value:
        return None
    v = value.lower()
    return "json" if v.startswith("application/json") else ("form" if v.startswith("application/x-www-form-urlencoded") else "other")


def q_merge(base, upd):
    d = {k: v for k, v in base}
    for k, v in upd:
        d[k] = v
    return [[k, v] for k, v in d.items()]


def location_of(k, loc):
    if loc is None:
        return None
    path = f"/r{k}" + ("?" + q_text(loc["q"]) if loc.get("q") else "")
    if loc.get("host") is None:
        return path
    h, p = HOSTS[loc["host"]]
    return f"{'https' if loc.get('https') else 'http'}://{h}:{p}{path}"


def reply_body(k, r):
    return (f"body-of-reply-{k};" * r.get("blen", 1)).encode()


def closes_after(r, verb):
    """Does the scripted server close the connection after this reply?"""
    bodiless = verb == "HEAD" or r.get("status", 200) in (204, 304)
    return bool(r.get("close") or r.get("idle_close") or (r.get("framing") == "close" and not bodiless))


def render_reply(k, r, verb="GET"):
    st = r.get("status", 200)
    body = reply_body(k, r)
    lines = [f"HTTP/1.1 {st} {REASON.get(st, 'Status')}", "Content-Type: text/plain"]
    loc = location_of(k, r.get("loc"))
    if loc is not None:
        lines.append(f"Location: {loc}")
    fr = r.get("framing", "len")
    if st in (204, 304) and verb != "HEAD":  # no body allowed
        if r.get("close"):
            lines.append("Connection: close")
        return ("\r\n".join(lines) + "\r\n\r\n").encode("latin-1")
    if r.get("close") and fr != "close" and not r.get("idle_close"):
        lines.append("Connection: close")
    if verb == "HEAD":  # as real servers do: the headers of the GET reply (non-zero Content-Length), no body
        lines.append(f"Content-Length: {len(body)}")
        if r.get("close"):
            lines.append("Connection: close")
        return ("\r\n".join(lines) + "\r\n\r\n").encode("latin-1")
    if fr == "len":
        lines.append(f"Content-Length: {len(body)}")
        payload = body
    elif fr == "chunked":
        lines.append("Transfer-Encoding: chunked")
        half = len(body) // 2
        payload = b"".join(b"%x\r\n%s\r\n" % (len(c), c) for c in (body[:half], body[half:]) if c) + b"0\r\n\r\n"
    else:
        payload = body
    return ("\r\n".join(lines) + "\r\n\r\n").encode("latin-1") + payload


# --------------------------------------------------------------------------- implementation run

_NET = None
METHODS = ["GET", "HEAD", "POST", "PUT", "PATCH", "DELETE"]
PAYKINDS = ["none", "body", "data", "fargs"]


def ev_method(ev):
    m = ev[2] if len(ev) > 2 else "GET"
    return "POST" if m == "post" else m


def _fake_classes():
    from hio.core import tcp

    class FakeClient(tcp.Client):
        def open(self):
            self.accepted = False
            self.connected = False
            self.cutoff = False
            self.cs = FakeSock(_NET, self.ha, False)
            self.opened = True
            return True

    class FakeTls(tcp.ClientTls):
        """tcp.ClientTls without TLS: wrap/handshake are no-ops on the fake socket."""
        def __init__(self, context=None, **kwa):
            tcp.Client.__init__(self, **{k: v for k, v in kwa.items()
                                         if k not in ("version", "certify", "hostify", "certedhost", "keypath",
                                                      "certpath", "cafilepath")})
            self._connected = False
            self.context = context
            self.certedhost = self.hostname

        def open(self):
            self.accepted = False
            self.connected = False
            self.cutoff = False
            self.cs = FakeSock(_NET, self.ha, True)
            self.opened = True
            return True

        def wrap(self): pass

        def handshake(self):
            self.connected = True
            return True

        def receive(self): return tcp.Client.receive(self)
        def send(self, data): return tcp.Client.send(self, data)

    return FakeClient, FakeTls


def _pay_of_request(request):
    """the payload the entry's request dict shows: data, else fargs, else body"""
    d, f, b = request.get("data"), request.get("fargs"), request.get("body")
    if d is not None:
        return [2, d.get("d", 9) if isinstance(d, dict) else 9]
    if f is not None:
        v = f.get("f", "9") if hasattr(f, "get") else "9"
        return [3, int(v) if str(v).isdigit() else 9]
    return classify_body(bytes(b or b""))


def _target_of(request):
    kind, num, _ = split_target(request.get("path") or "/t9999")
    q = [[KEYS.index(k) if k in KEYS else 99, int(v) if str(v).isdigit() else 99] for k, v in (request.get("qargs") or {}).items()]
    ids = [v for k, v in q if k == 3]
    if ids:
        kind, num = "req", ids[0]
    return [kind == "redir", num, q]


def run_impl(case):
    global _NET
    from hio.core import tcp
    from hio.core.http import clienting
    from hio.base import tyming

    FakeClient, FakeTls = _fake_classes()
    saved = (tcp.Client, tcp.ClientTls)
    net = _NET = Net(case["replies"])
    tcp.Client, tcp.ClientTls = FakeClient, FakeTls
    try:
        tymist = tyming.Tymist(tyme=0.0, tock=1.0)   # virtual time: one tock per service pass
        cls = FakeTls if case.get("https") else FakeClient
        rc = case.get("reconnect")   # reconnect tymeout in passes; None: connector not reconnectable
        kwc = {"reconnectable": True, "tymeout": float(rc)} if rc else {}
        connector = cls(tymth=tymist.tymen(), ha=HOSTS[0], **kwc)
        from collections import deque
        owned = case.get("owned")   # None | "empty" | "prefilled": application-owned containers handed to the constructor
        kwo, identity = {}, {}
        if owned:
            app = {"requests": deque(), "responses": deque(), "events": deque(), "redirects": list()}
            if owned == "prefilled" and case["events"] and case["events"][0][0] == "enq":
                ev = case["events"][0]
                t, m, q, pq = ev[1], ev_method(ev), ev_explicit(ev), ev_pathq(ev)
                rq = {"method": m, "path": ev_path(ev) + ("?" + q_text(pq) if pq else ""),
                      "qargs": {KEYS[k]: str(v) for k, v in (q or [])}, "fragment": "",
                      "headers": {"X-Tag": str(t)} if ev_hdr(ev) else {}, "body": b"", "data": None, "fargs": None, "tag": t}
                pk = ev_pay(ev)
                if pk == "body":
                    rq["body"] = f"payload {t}".encode()
                elif pk == "data":
                    rq["data"] = {"d": t}
                elif pk == "fargs":
                    rq["fargs"] = {"f": str(t)}
                app["requests"].append(rq)
            kwo = dict(app)
        client = clienting.Client(connector=connector, redirectable=case.get("redirectable", True),
                                  method=case.get("cmethod", "GET"), **kwo)
        if owned:   # the containers in use ARE the ones handed in
            identity = {"requests": client.requests is app["requests"], "responses": client.responses is app["responses"],
                        "events": client.events is app["events"], "respondent.events": client.respondent.events is app["events"],
                        "redirects": client.redirects is app["redirects"],
                        "respondent.redirects": client.respondent.redirects is app["redirects"],
                        "respondent.msg": client.respondent.msg is client.connector.rxbs}
        # the application reads and writes ITS containers
        req_q = app["requests"] if owned else client.requests
        resp_q = app["responses"] if owned else client.responses
        prefilled = 1 if (owned == "prefilled" and len(req_q)) else 0
        client.reopen()
        trace, escaped, bodies, snaps, ctsnaps, psnaps, msnaps = [], None, [], {}, {}, {}, {}
        arrivals, takes = [], []   # every entry appended to .responses, in order; what each respond() returned

        def take():
            waiting = len(resp_q)
            r = client.respond()   # the public accessor
            if r is None:
                takes.append([None, waiting])
            else:
                idx = [i for i, a in enumerate(arrivals) if a["request"] is r.request]
                takes.append([idx[0] if idx else -1, waiting])
        events = list(case["events"])
        extra = 0
        take_mode = case.get("take")   # None | "each" (after every pass) | "end" | ["take"] events in the schedule
        while events or extra < case.get("drain", 12):
            if events:
                ev = events.pop(0)
            else:
                ev = ["pass"]; extra += 1
            if ev[0] == "take":
                take()
                continue
            if ev[0] == "enq" and prefilled:
                prefilled = 0   # this request was put on the deque before the Client was made
                snaps[ev[1]] = []
                ctsnaps[ev[1]] = None
                continue
            if ev[0] == "enq":
                t, m, q, pq = ev[1], ev_method(ev), ev_explicit(ev), ev_pathq(ev)
                kw = {"path": ev_path(ev) + ("?" + q_text(pq) if pq else "")}
                psnaps[t] = client.requester.path   # what a request without path reuses (Client.request copies it now)
                msnaps[t] = client.requester.method
                if ev_reuse(ev):
                    del kw["path"]
                if q is not None:
                    kw["qargs"] = {KEYS[k]: str(v) for k, v in q}
                pk = ev_pay(ev)
                if pk == "body":
                    kw["body"] = f"payload {t}".encode()
                elif pk == "data":
                    kw["data"] = {"d": t}
                elif pk == "fargs":
                    kw["fargs"] = {"f": str(t)}
                if ev_hdr(ev):
                    kw["headers"] = {"X-Tag": str(t)}
                ctsnaps[t] = ctype_kind(client.requester.headers.get("content-type"))
                # Client.request without qargs takes (a copy of) the requester's current ones: note them
                snaps[t] = _target_of({"path": "/t0", "qargs": client.requester.qargs})[2]
                if ev_reuse(ev) == "rawnopath":   # the docstring's other way in: a raw dict on the deque, here without 'path'
                    raw = {"method": m if m != "same" else None, "tag": t}
                    raw.update({k: v for k, v in kw.items() if k != "path"})
                    if raw["method"] is None:
                        del raw["method"]
                    req_q.append(raw)
                    continue
                client.request(method=(None if m == "same" else m), tag=t, **kw)
                if client.requests is not req_q:   # the application appends to ITS deque
                    req_q.append(client.requests.pop())
                continue
            net.tick()
            before = (len(resp_q), len(client.redirects))
            conn0, nsock0, cut0 = client.connector, net.nconn, bool(client.connector.cutoff)
            try:
                client.service()
            except Exception as ex:
                from harness.core import exn_kind
                escaped = [len(trace), exn_kind(ex), str(ex)[:80]]
                break
            narr = len(resp_q) - (before[0])   # entries appended in this pass (at most one)
            for a in list(resp_q)[len(resp_q) - narr:] if narr > 0 else []:
                arrivals.append(a)
                bodies.append(bytes(a["body"]).hex())   # copy at arrival
            after = (len(resp_q), len(client.redirects))
            # the reconnect timer fired in this pass: same connector object, new socket
            # (sockets opened in this pass, minus the one of a connector that redirect() created)
            refired = (net.nconn - nsock0 - (0 if client.connector is conn0 else 1)) > 0
            # the connector read the server's close in this pass (same connector object)
            cutnow = client.connector is conn0 and bool(client.connector.cutoff) and (refired or not cut0)
            trace.append([after != before, bool(client.waited), len(req_q), after[0], after[1], refired, cutnow,
                          len(arrivals)])
            tymist.tick()
            if take_mode == "each":
                take()
        if take_mode == "end":
            for _ in range(len(arrivals) + 2):
                take()
        entries = []
        for i, r in enumerate(arrivals):
            hist = [[h["status"], h["request"].get("tag")] for h in r.get("redirects", [])]
            entries.append({"status": r["status"], "tag": r["request"].get("tag"), "errored": bool(r["errored"]),
                            "history": hist, "path": r["request"].get("path"), "method": r["request"].get("method"),
                            "target": _target_of(r["request"]), "pay": _pay_of_request(r["request"]),
                            "targets": [_target_of(h["request"]) for h in r.get("redirects", [])],
                            "body": bodies[i] if i < len(bodies) else None,
                            "body_end": bytes(r["body"]).hex()})   # read only after the whole history
        wire = []
        for cid, sec, hi, path, verb, pay, ctk in net.wire:
            kind, num, q = split_target(path)
            wire.append([cid, bool(sec), hi, kind, num, verb, q, pay, ctk])
        return {"psnaps": {str(k): v for k, v in psnaps.items()}, "msnaps": {str(k): v for k, v in msnaps.items()},
                "asked": list(net.asked), "lost": net.lost, "takes": takes, "taken_each": take_mode == "each", "taken_end": take_mode == "end",
                "snaps": {str(k): v for k, v in snaps.items()}, "ctsnaps": {str(k): v for k, v in ctsnaps.items()},
                "trace": trace, "entries": entries, "wire": wire, "escaped": escaped, "unsent": len(client.connector.txbs),
                "final": [bool(client.waited), len(req_q), len(client.redirects)], "identity": identity,
                "conn_https": isinstance(client.connector, tcp.ClientTls), "replies_used": net.k,
                "conn_reconnectable": bool(client.connector.reconnectable and client.connector.tymeout > 0.0)}
    finally:
        tcp.Client, tcp.ClientTls = saved
        _NET = None


# --------------------------------------------------------------------------- oracle

def oracle(case, obs):
    if obs["escaped"]:
        return f"Client.service() raised {obs['escaped'][1]} at pass {obs['escaped'][0]}: {obs['escaped'][2]}"
    tags = [ev[1] for ev in case["events"] if ev[0] == "enq"]
    bad_id = [k for k, v in obs.get("identity", {}).items() if not v]
    if bad_id:
        return (f"the Client does not use the application's own (empty) containers handed to its constructor: {bad_id}; what the "
                f"application appends to / reads from them is lost")
    # one entry per request, same order, carrying its originating request
    origins = [(e["history"][0][1] if e["history"] else e["tag"]) for e in obs["entries"]]
    if origins != tags[:len(origins)]:
        return f"response entries originate from requests {origins}, queue order was {tags}"
    # one at a time, in queue order, on the wire
    wire_reqs = [w[4] for w in obs["wire"] if w[3] == "req"]
    if wire_reqs != tags[:len(wire_reqs)]:
        return f"requests went on the wire as {wire_reqs}, queue order was {tags}"
    done = 0
    # replay wire against completions: the k-th original request may only be sent once k-1 entries exist
    # (observed per pass: #responses at the pass in which the request was popped)
    popped = 0
    qlen_prev, enq_seen = 0, 0
    it = iter(obs["trace"])
    nresp_before = 0
    for ev in case["events"] + [["pass"]] * (len(obs["trace"])):
        if ev[0] == "take":
            continue
        if ev[0] == "enq":
            qlen_prev += 1
            continue
        try:
            row = next(it)
            changed, waited, qlen, nresp, nredir = row[:5]
            nresp = row[7] if len(row) > 7 else nresp   # entries ever delivered (respond() may have consumed some)
        except StopIteration:
            break
        if qlen < qlen_prev:  # a request was popped in this pass
            popped += qlen_prev - qlen
            if qlen_prev - qlen > 1:
                return "more than one request popped in one pass"
            if nresp_before < popped - 1:
                return f"request #{popped} transmitted while request #{nresp_before + 1} had no response entry yet"
        qlen_prev = qlen
        nresp_before = nresp
    if len(wire_reqs) > len(obs["entries"]) + 1:
        return "more than one request in flight"
    # redirects: history attached, statuses are redirect statuses, followed hops appear on the wire in order
    replies = case["replies"]
    redirectable = case.get("redirectable", True)
    k = 0  # reply index
    for e in obs["entries"]:
        hops = []
        while k < len(replies) and redirectable and replies[k].get("status", 200) in REDIRECTS and _followable(case, replies, k, hops):
            hops.append(k); k += 1
        final = replies[k] if k < len(replies) else {"status": 200}
        if [h[0] for h in e["history"]] != [replies[j]["status"] for j in hops]:
            return f"entry for request {e['tag']}: history {e['history']} but followed redirects were replies {hops}"
        if e["status"] != final.get("status", 200):
            return f"entry status {e['status']} != final reply status {final.get('status', 200)}"
        refused = redirectable and final.get("status", 200) in REDIRECTS
        if refused and not e["errored"]:
            return "a refused redirect was delivered without errored"
        k += 1
    # methods on the wire are the queued requests' methods; bodies intact (taken when the entry arrived)
    meth = {ev[1]: rmethod(ev, obs) for ev in case["events"] if ev[0] == "enq"}
    for w in obs["wire"]:
        if w[3] == "req" and w[5] != meth.get(w[4]):
            return f"request {w[4]} went on the wire as {w[5]}, queued as {meth.get(w[4])}"
    k = 0
    for e, o in zip(obs["entries"], origins):
        hops = len(e["history"])
        k += hops
        final = replies[k] if k < len(replies) else {"status": 200}
        m = meth.get(o)
        want = b"" if (m == "HEAD" or final.get("status", 200) in (204, 304)) else reply_body(k, final)
        if e["body"] is not None and bytes.fromhex(e["body"]) != want:
            return (f"entry for request {o} ({m}): body {bytes.fromhex(e['body'])[:40]!r} differs from the reply's body "
                    f"{want[:40]!r}")
        if bytes.fromhex(e["body_end"]) != want:
            return (f"entry for request {o} ({m}): body read after the whole history {bytes.fromhex(e['body_end'])[:40]!r} "
                    f"is not the reply's body {want[:40]!r} (it was intact on arrival: changed after delivery)")
        if e["method"] != m:
            return f"entry for request {o} carries method {e['method']}, queued as {m}"
        k += 1
    # transparency: every request line on the wire asks for exactly its own target; a follow-up for exactly the Location
    # what was queued for request k: its explicit qargs (or the requester's at the moment it was queued, when the
    # argument was omitted) merged with the query of its own path - nothing queued/sent later may change it
    qof = {ev[1]: q_merge(ev_explicit(ev) if ev_explicit(ev) is not None else obs["snaps"].get(str(ev[1]), []), ev_pathq(ev))
           for ev in case["events"] if ev[0] == "enq"}
    for w in obs["wire"]:
        if w[3] == "req":
            if w[6] != qof.get(w[4], []):
                return f"request {w[4]} went on the wire with query {w[6]}, queued with {qof.get(w[4], [])}"
        else:
            loc = (replies[w[4]].get("loc") or {}) if w[4] < len(replies) else {}
            if w[6] != (loc.get("q") or []):
                return (f"redirect follow-up for reply {w[4]} was sent with query {w[6]} but the Location's query is "
                        f"{loc.get('q') or []} (arguments of the redirected request carried over)")
    for e in obs["entries"]:
        want = qof.get(e["target"][1], []) if not e["target"][0] else \
            ((replies[e["target"][1]].get("loc") or {}).get("q") or [] if e["target"][1] < len(replies) else [])
        if e["target"][2] != want:
            return f"entry's request carries query {e['target'][2]} but was sent for target query {want}"
    # the public accessor: the i-th answer Client.respond() hands out is the i-th entry (so the i-th queued request's),
    # None only when nothing waits
    got = [t[0] for t in obs.get("takes", []) if t[0] is not None]
    if got != list(range(len(got))):
        return (f"Client.respond() handed out entries {got} (arrival order indices): not oldest first, the i-th respond() "
                f"does not return the i-th queued request's answer")
    for t in obs.get("takes", []):
        if (t[0] is None) != (t[1] == 0):
            return f"Client.respond() returned {'None' if t[0] is None else 'an entry'} with {t[1]} entries waiting"
    # paths: what the server was asked for, and what the entry's request records, is the queued path - for a request
    # queued without path the requester's path of that moment (Client.request) / of the previous transmission (raw dict)
    from urllib.parse import unquote as _unq, quote as _quo
    reqpos = [j for j, w in enumerate(obs["wire"]) if w[3] == "req"]
    for j in reqpos:
        w = obs["wire"][j]
        ev = evof.get(w[4]) if False else {e[1]: e for e in case["events"] if e[0] == "enq"}.get(w[4])
        if ev is None:
            continue
        if ev_reuse(ev) == "nopath":
            want = obs["psnaps"].get(str(w[4]))
        elif ev_reuse(ev) == "rawnopath":
            want = _unq(obs["asked"][j - 1]) if j > 0 else "/"
        else:
            want = ev_path(ev)
        got = obs["asked"][j] if j < len(obs.get("asked", [])) else None
        if want is not None and got != _quo(want):
            return (f"request {w[4]} was queued for path {want!r} (on the wire {_quo(want)!r}) but the server was asked for {got!r}")
    for e, o in zip(obs["entries"], origins):
        ev = {x[1]: x for x in case["events"] if x[0] == "enq"}.get(o)
        if ev is not None and not e["history"] and not ev_reuse(ev) and e["path"] != ev_path(ev):
            return f"entry for request {o}: request['path'] is {e['path']!r}, queued path {ev_path(ev)!r}"
        if ev is not None and not e["history"] and ev_reuse(ev) == "nopath" and e["path"] != obs["psnaps"].get(str(o)):
            return f"entry for request {o}: request['path'] is {e['path']!r}, the reused path was {obs['psnaps'].get(str(o))!r}"
    # payloads: the body bytes and Content-Type the server received for request k, and the entry's request dict,
    # are exactly what was queued for request k (nothing of an earlier request's data=/fargs=/body=)
    evof = {ev[1]: ev for ev in case["events"] if ev[0] == "enq"}
    for w in obs["wire"]:
        if w[3] == "req" and w[4] in evof:
            ev = evof[w[4]]
            want = [0, 0] if rmethod(ev, obs) == "GET" else pay_of(ev)
            if w[7] != want:
                return (f"request {w[4]} ({rmethod(ev, obs)}, queued with {ev_pay(ev)}) reached the server with payload {w[7]} "
                        f"(kind,id), expected {want}")
            if rmethod(ev, obs) != "GET":
                wct = {"data": "json", "fargs": "form"}.get(ev_pay(ev),
                                                            None if ev_hdr(ev) else obs["ctsnaps"].get(str(w[4])))
                if w[8] != wct:
                    return f"request {w[4]} ({ev_pay(ev)}) reached the server with Content-Type kind {w[8]}, expected {wct}"
        elif w[3] == "redir" and w[7] != [0, 0]:
            return f"redirect follow-up for reply {w[4]} carried a payload {w[7]}"
    for e, o in zip(obs["entries"], origins):
        if not e["history"] and o in evof and e["pay"] != pay_of(evof[o]):
            return f"entry for request {o}: request dict shows payload {e['pay']}, queued with {pay_of(evof[o])}"
    if obs.get("lost"):
        return f"{obs['lost']} request bytes were written to a connection the server had closed (the close was not noticed) and lost"
    # nothing left unsent / unanswered once the schedule has drained
    closed = any(closes_after(replies[j] if j < len(replies) else {}, obs["wire"][j][5])
                 for j in range(min(obs["replies_used"], len(obs["wire"]))))
    waited, qlen, nredir = obs["final"]
    if waited or qlen or obs["unsent"] or len(obs["entries"]) < len(tags):
        return (f"after draining: {len(obs['entries'])} of {len(tags)} requests have a response entry, waited={waited}, "
                f"{qlen} still queued, {obs['unsent']} request bytes unsent"
                + ("; a server closed its connection and every request that reached the wire was answered"
                   if closed and not obs.get("conn_reconnectable") and sum(1 for t in obs["trace"] if t[0]) == len(obs["wire"])
                   else ""))
    # https never downgraded
    if case.get("https"):
        if any(not w[1] for w in obs["wire"]) or not obs["conn_https"]:
            return "https client sent a request over a non-TLS connector (https -> http redirect followed)"
    return None


def _followable(case, replies, k, hops):
    """Would reply k (a redirect) be followed, given the connector state after the earlier hops?"""
    https, host = _conn_state(case, replies, k)
    loc = replies[k].get("loc")
    if loc is None:
        return False
    if loc.get("host") is None:
        return True
    if https and not loc.get("https"):
        return (loc["host"], False) == (host, https)  # never equal: refused
    return True


def _conn_state(case, replies, k):
    """(https, host) of the connector when reply k arrives: fold over all earlier followed redirects."""
    https, host = bool(case.get("https")), 0
    if not case.get("redirectable", True):
        return https, host
    for j in range(k):
        r = replies[j]
        loc = r.get("loc")
        if r.get("status", 200) in REDIRECTS and loc is not None and loc.get("host") is not None:
            sec = bool(loc.get("https"))
            if https and not sec:
                continue
            https, host = sec, loc["host"]
    return https, host


def classify(case, obs, why):
    # open finding: requests behind a server close are never sent / answered (no reconnect-and-resend, no errored entry)
    if why.startswith("after draining") and why.endswith("every request that reached the wire was answered"):
        return "C19-close-strands-queue"
    return None


def nontrivial(case, obs):
    n = sum(1 for ev in case["events"] if ev[0] == "enq")
    return n >= 3 and any(r.get("delay") or r.get("frags", 1) > 1 or r.get("status", 200) in REDIRECTS
                          for r in case["replies"][:obs["replies_used"]])


# --------------------------------------------------------------------------- streams

def _sched(tags, gaps=None, post=()):
    ev = []
    for i, t in enumerate(tags):
        ev.append(["enq", t] + (["post"] if t in post else []))
        for _ in range((gaps or [0] * len(tags))[i]):
            ev.append(["pass"])
    return ev


def directed():
    rel = {"host": None}
    return [
        {"events": _sched([1, 2, 3]), "replies": [{"status": 200}, {"status": 404, "delay": 2}, {"status": 200, "frags": 3}]},
        {"events": _sched([1, 2], [3, 0], post=(2,)), "replies": [{"status": 302, "loc": rel}, {"status": 200}, {"status": 200, "framing": "chunked"}]},
        {"events": _sched([5, 6]), "replies": [{"status": 301, "loc": {"host": 1, "https": False}}, {"status": 307, "loc": rel, "delay": 1},
                                                {"status": 200}, {"status": 500}]},
        {"https": True, "events": _sched([1, 2]), "replies": [{"status": 302, "loc": {"host": 1, "https": False}}, {"status": 200}]},
        {"https": True, "events": _sched([1, 2]), "replies": [{"status": 302, "loc": {"host": 1, "https": True}}, {"status": 200}, {"status": 200}]},
        {"events": _sched([1, 2]), "replies": [{"status": 303, "loc": {"host": 0, "https": True}}, {"status": 200}, {"status": 200}]},
        {"events": _sched([1, 2]), "replies": [{"status": 302}, {"status": 200}]},
        {"redirectable": False, "events": _sched([1, 2]), "replies": [{"status": 302, "loc": rel}, {"status": 200}]},
        {"events": _sched([1, 2, 3]), "replies": [{"status": 200, "close": True}, {"status": 200}]},
        {"events": _sched([1, 2]), "replies": [{"status": 200, "framing": "close", "frags": 2}, {"status": 200}]},
        {"events": _sched([1, 2]), "replies": [{"status": 302, "loc": rel, "close": True}, {"status": 200}]},
        {"events": _sched([1, 2]), "replies": [{"status": 302, "loc": {"host": 2, "https": False}, "close": True}, {"status": 200, "framing": "close"}, {"status": 200}]},
        {"events": [["pass"], ["pass"], ["enq", 9], ["pass"], ["enq", 4], ["enq", 7]], "replies": [{"status": 200, "delay": 3}, {"status": 304}, {"status": 308, "loc": rel}]},
        # method interleavings around HEAD (HEAD replies carry a non-zero Content-Length and no body)
        {"events": [["enq", 1, "GET"], ["enq", 2, "HEAD"], ["enq", 3, "GET"], ["enq", 4, "GET"]], "replies": [{}, {"blen": 3}, {"frags": 2}, {}]},
        {"events": [["enq", 1, "HEAD"], ["enq", 2, "HEAD"], ["enq", 3, "GET"], ["enq", 4, "PUT"]], "replies": [{"blen": 2}, {}, {"blen": 2}, {}]},
        {"cmethod": "HEAD", "events": [["enq", 1, "HEAD"], ["enq", 2, "GET"], ["enq", 3, "GET"]], "replies": [{}, {"blen": 2}, {}]},
        {"cmethod": "HEAD", "events": [["enq", 1, "GET"], ["enq", 2, "POST"], ["enq", 3, "HEAD"]], "replies": [{"framing": "chunked"}, {}, {"delay": 1}]},
        {"events": [["enq", 1, "POST"], ["enq", 2, "HEAD"], ["enq", 3, "PUT"], ["enq", 4, "HEAD"], ["enq", 5, "GET"]],
         "replies": [{}, {"status": 404}, {"status": 204}, {"status": 302, "loc": rel}, {}, {"status": 200, "blen": 2}]},
        {"events": [["enq", 1, "HEAD"], ["enq", 2, "GET"]], "replies": [{"status": 301, "loc": {"host": 1, "https": False}}, {"blen": 2}, {}]},
        # query arguments: the Location re-assigns some / none / all keys; multi-hop; relative and absolute
        {"events": [["enq", 1, "GET", [[2, 7], [0, 1]]], ["enq", 2, "GET", [[1, 4]]]],
         "replies": [{"status": 302, "loc": {"host": None, "q": [[0, 2]]}}, {}, {}]},
        {"events": [["enq", 1, "GET", [[2, 7]]], ["enq", 2, "GET"]],
         "replies": [{"status": 302, "loc": {"host": None}}, {}, {}]},
        {"events": [["enq", 1, "GET", [[0, 1], [1, 2]], "inpath"], ["enq", 2, "POST", [[2, 9]]]],
         "replies": [{"status": 301, "loc": {"host": 1, "https": False, "q": [[0, 3]]}}, {"status": 307, "loc": {"host": None, "q": [[1, 5]]}},
                     {"status": 303, "loc": {"host": None}}, {}, {"status": 302, "loc": {"host": 1, "https": False, "q": [[2, 9], [0, 0]]}}, {}]},
        # Client.request WITHOUT qargs, several queued before anything is built, earlier paths carry a query
        {"events": [["enq", 1, "GET", "none", [[0, 1]]], ["enq", 2, "GET", "none"], ["enq", 3, "GET", "none", [[1, 2]]], ["enq", 4, "GET", "none"]],
         "replies": [{}, {}, {}, {}]},
        # paths with characters quote() changes; later requests reuse the previous path (no path argument / raw dict without path)
        {"events": [["enq", 1, "GET", [], [], "none", True, 1], ["enq", 2, "POST", [[3, 2]], [], "body", True, 0, "nopath"], ["pass"], ["pass"], ["pass"],
                    ["enq", 3, "same", [[3, 3]], [], "none", False, 0, "nopath"], ["enq", 4, "PUT", [[3, 4]], [], "data", True, 0, "rawnopath"],
                    ["enq", 5, "GET", [], [], "none", True, 5], ["enq", 6, "GET", [[3, 6], [0, 1]], [], "none", True, 0, "nopath"]],
         "replies": [{}, {}, {}, {}, {}, {}], "drain": 40},
        {"events": [["enq", 1, "GET", [], [], "none", True, 4], ["pass"], ["pass"], ["enq", 2, "GET", [[3, 2]], [], "none", True, 0, "rawnopath"],
                    ["pass"], ["pass"], ["enq", 3, "GET", [[3, 3]], [], "none", True, 0, "nopath"], ["enq", 4, "GET", [], [], "none", True, 6]],
         "replies": [{}, {"status": 302, "loc": rel}, {}, {}, {}], "drain": 40},
        # application-owned containers handed to the constructor (empty / pre-filled), appended to afterwards
        {"owned": "empty", "events": _sched([1, 2, 3], [1, 0, 0]), "replies": [{}, {"delay": 1}, {}]},
        {"owned": "prefilled", "events": [["enq", 1, "POST", [[0, 1]], [], "data", True], ["pass"], ["enq", 2, "GET"], ["enq", 3, "HEAD"]],
         "replies": [{}, {"status": 302, "loc": rel}, {}, {}], "take": "end"},
        # interim 100 Continue responses (bare / with a header; same segment / earlier) are skipped, also twice in a row
        {"events": _sched([1, 2, 3]), "replies": [{"interim": "bare"}, {"interim": "hdr", "interim_early": True, "status": 404}, {"interim": "bare", "interim_early": True, "frags": 2}]},
        {"events": [["enq", 1, "POST", [], [], "data", True], ["enq", 2, "HEAD"], ["enq", 3, "GET"]],
         "replies": [{"interim": "bare", "status": 302, "loc": rel}, {"interim": "bare", "framing": "chunked"}, {"interim": "hdr"}, {"interim": "bare", "delay": 2}]},
        # the public accessor Client.respond(): after every pass / only at the end / in bursts
        {"take": "each", "events": _sched([1, 2, 3]), "replies": [{}, {"delay": 2}, {}]},
        {"take": "end", "events": _sched([1, 2, 3, 4]), "replies": [{}, {"status": 302, "loc": rel}, {}, {"status": 404}, {}]},
        {"events": [["enq", 1, "GET"], ["enq", 2, "GET"], ["enq", 3, "GET"], ["take"], ["pass"], ["pass"], ["pass"], ["pass"], ["pass"], ["pass"],
                    ["take"], ["take"], ["take"], ["pass"], ["pass"], ["pass"], ["take"], ["take"]], "replies": [{}, {}, {}]},
        # server closes after a reply; reconnectable connector (timer in passes): requests queued/popped during the cutoff
        # are sent after the reconnect; a redirect follow-up across a close too
        {"reconnect": 6, "events": _sched([1, 2, 3]), "replies": [{"status": 200, "close": True}, {"status": 200}, {"status": 200}], "drain": 30},
        {"reconnect": 3, "events": [["enq", 1, "GET"], ["pass"], ["pass"], ["pass"], ["pass"], ["pass"], ["enq", 2, "POST"], ["enq", 3, "GET"]],
         "replies": [{"status": 404, "close": True}, {"status": 200, "close": True}, {"status": 200}], "drain": 30},
        {"reconnect": 5, "events": _sched([1, 2]), "replies": [{"status": 302, "loc": rel, "close": True}, {"status": 200}, {"status": 200}], "drain": 30},
        {"reconnect": 4, "events": _sched([1, 2]), "replies": [{"status": 200, "framing": "close"}, {"status": 200, "frags": 2, "framing": "chunked"}], "drain": 30},
        # the server closes the IDLE keep-alive connection between requests; idle passes with an empty queue; a request
        # queued afterwards must go out on a fresh connection and be answered
        {"reconnect": 3, "events": [["enq", 1, "GET"]] + [["pass"]] * 10 + [["enq", 2, "POST"], ["pass"], ["pass"], ["enq", 3, "GET"]],
         "replies": [{"idle_close": 3}, {}, {}], "drain": 30},
        {"reconnect": 2, "take": "each", "events": [["enq", 1, "GET"], ["enq", 2, "GET"]] + [["pass"]] * 14 + [["enq", 3, "HEAD"]] + [["pass"]] * 9 + [["enq", 4, "GET"]],
         "replies": [{}, {"idle_close": 2, "frags": 2}, {"idle_close": 4}, {}], "drain": 30},
        # payload kinds over one client's history: data= / fargs= followed by body-only and payload-less non-GET requests
        {"events": [["enq", 1, "POST", [], [], "data", True], ["enq", 2, "POST", [], [], "body", True], ["enq", 3, "DELETE", [], [], "none", True],
                    ["enq", 4, "GET", [], [], "none", True]], "replies": [{}, {}, {}, {}]},
        {"events": [["enq", 1, "PUT", [], [], "fargs", False], ["pass"], ["pass"], ["enq", 2, "PATCH", [], [], "body", False],
                    ["enq", 3, "GET", [], [], "data", False], ["enq", 4, "POST", [], [], "none", False], ["enq", 5, "POST", [], [], "data", True]],
         "replies": [{}, {"delay": 1}, {}, {}, {}]},
        # ... and queued after an earlier one was built: the default is the requester's qargs of that moment
        {"events": [["enq", 1, "GET", [[2, 5]], [[0, 1]]], ["pass"], ["enq", 2, "GET", "none"], ["enq", 3, "POST", "none", [[0, 7]]], ["pass"], ["pass"],
                    ["enq", 4, "GET", [], [[1, 1]]], ["enq", 5, "HEAD", "none"]],
         "replies": [{"delay": 1}, {}, {"status": 302, "loc": {"host": None, "q": [[1, 3]]}}, {}, {}, {}]},
    ]


def gen_case(rng):
    n = rng.choice([1, 2, 3, 3, 4, 5, 8])
    tags = rng.sample(range(1, 60), n)
    events = []
    for t in tags:
        ev = ["enq", t, rng.choices(METHODS, [5, 3, 3, 2, 1, 1])[0]]
        payload = None
        if ev[2] not in ("HEAD",) and rng.random() < 0.6:
            payload = [rng.choice(PAYKINDS if ev[2] != "GET" else ["none", "data", "fargs"]), rng.random() < 0.6]
        rq = lambda: [[k, rng.randrange(10)] for k in rng.sample(range(3), rng.randint(1, 3))]
        x = rng.random()
        if x < 0.3:
            ev.append(rq())                     # explicit qargs
            if rng.random() < 0.3:
                ev.append(rq())                 # ... plus a query in the path
        elif x < 0.6:
            ev.append("none")                   # no qargs argument: Client.request's default
            if rng.random() < 0.6:
                ev.append(rq())                 # ... with a query in the path
        elif x < 0.7 and payload is None:
            ev += [rq(), "inpath"]
        if payload is not None:
            while len(ev) < 5:
                ev.append([])
            ev += payload
        if rng.random() < 0.35 and not (len(ev) > 3 and ev[3] == "none") and not (len(ev) > 4 and ev[4] == "inpath"):
            # a path quote() changes, or a request that reuses the previous path (identified by id=<tag>)
            while len(ev) < 5:
                ev.append([])
            if len(ev) < 7:
                ev += ["body" if ev[2] in ("POST", "PUT") else "none", rng.random() < 0.5]
            if events and rng.random() < 0.4:
                ev[3] = [[3, t]] + [p for p in ev[3] if p[0] != 3]
                ev[4] = []
                ev += [0, rng.choice(["nopath", "nopath", "rawnopath"])]
                if ev[8] == "rawnopath":
                    ev[6] = True   # a raw dict without headers reuses the requester's of the moment it is transmitted
                if rng.random() < 0.3 and ev[5] == "none" and ev[8] == "nopath":
                    ev[2] = "same"
            else:
                ev.append(rng.randrange(1, len(SUFFIXES)))
        if any(ev_reuse(e) for e in events if e[0] == "enq") and len(ev) > 3 and ev[3] == "none":
            ev[3] = []   # a default-qargs request would inherit the id= key of an earlier path-reusing request
        events.append(ev)
        for _ in range(rng.choice([0, 0, 0, 1, 2, 4])):
            events.append(["pass"])
    if rng.random() < 0.3:
        events = [["pass"]] * rng.randint(1, 2) + events
    https = rng.random() < 0.3
    replies = []
    for _ in range(n + rng.randint(0, 4)):
        r = {}
        x = rng.random()
        if x < 0.35:
            r["status"] = rng.choice(REDIRECTS)
            y = rng.random()
            if y < 0.35:
                r["loc"] = {"host": None}
            elif y < 0.9:
                r["loc"] = {"host": rng.randrange(3), "https": rng.random() < (0.7 if https else 0.3)}
            if "loc" in r and rng.random() < 0.6:
                r["loc"]["q"] = [[k, rng.randrange(10)] for k in rng.sample(range(3), rng.randint(1, 3))]
            # else: no Location
        else:
            r["status"] = rng.choice([200, 200, 200, 404, 500, 304, 308])
            if rng.random() < 0.1:
                r["loc"] = {"host": None}
        if rng.random() < 0.4:
            r["delay"] = rng.randint(1, 3)
        if rng.random() < 0.4:
            r["frags"] = rng.randint(2, 3)
        fr = rng.random()
        if r["status"] != 304:
            r["framing"] = "len" if fr < 0.6 else ("chunked" if fr < 0.96 else "close")
        if rng.random() < 0.03:
            r["close"] = True
        if rng.random() < 0.2:
            r["blen"] = rng.choice([0, 3, 40])
        if rng.random() < 0.2:
            r["interim"] = rng.choice(["bare", "bare", "hdr"])
            if rng.random() < 0.5:
                r["interim_early"] = True
        replies.append(r)
    case = {"events": events, "replies": replies, "drain": 12 + 6 * (len(replies) + n)}
    if https:
        case["https"] = True
    if rng.random() < 0.15:
        case["redirectable"] = False
    if rng.random() < 0.2:
        case["cmethod"] = rng.choice(["HEAD", "POST", "HEAD"])
    ow = rng.random()
    if ow < 0.2:
        case["owned"] = "empty"
    elif ow < 0.3 and case["events"][0][0] == "enq" and ev_explicit(case["events"][0]) is not None \
            and not (len(case["events"][0]) > 4 and case["events"][0][4] == "inpath"):
        case["owned"] = "prefilled"
    tk = rng.random()
    if tk < 0.15:
        case["take"] = "each"
    elif tk < 0.3:
        case["take"] = "end"
    elif tk < 0.45:   # bursts of respond() calls in the schedule
        ev2 = []
        for ev in case["events"] + [["pass"]] * rng.randint(4, 14):
            ev2.append(ev)
            if ev[0] == "pass" and rng.random() < 0.25:
                ev2 += [["take"]] * rng.randint(1, 3)
        case["events"] = ev2 + [["take"]] * rng.randint(0, 3)
    if rng.random() < 0.35:   # reconnectable connector; closing servers are then much more frequent
        case["reconnect"] = rng.choice([1, 2, 4, 7, 12])
        for r in replies:
            if rng.random() < 0.3:
                r["close"] = True
        case["drain"] += 40
    return case


def gen_idle_close(rng):
    """Scenes in which the server closes the idle keep-alive connection between requests: every group of requests is
    fully answered, then the close arrives during idle passes with an empty queue, then the next group is queued."""
    events, replies, tag = [], [], rng.randrange(1, 20)
    for g in range(rng.randint(2, 4)):
        k = rng.randint(1, 3)
        span = 0
        for j in range(k):
            events.append(["enq", tag, rng.choice(["GET", "GET", "POST", "HEAD", "PUT"])])
            tag += rng.randint(1, 3)
            r = {"status": rng.choice([200, 200, 404])}
            if rng.random() < 0.4:
                r["delay"] = rng.randint(1, 2)
            if rng.random() < 0.4:
                r["frags"] = rng.randint(2, 3)
            if r["status"] == 200 and rng.random() < 0.3:
                r["framing"] = "chunked"
            span += r.get("delay", 0) + r.get("frags", 1) + 2
            replies.append(r)
        idle = rng.randint(1, 5)
        replies[-1]["idle_close"] = idle
        events += [["pass"]] * (span + idle + rng.randint(2, 12))   # answered, closed while idle, some more idle passes
    case = {"events": events, "replies": replies, "reconnect": rng.choice([1, 2, 4, 7]), "drain": 40}
    if rng.random() < 0.4:
        case["take"] = rng.choice(["each", "end"])
    if rng.random() < 0.3:
        case["owned"] = "empty"
    return case


def generate(rng, tier):
    n = 700 if tier == "quick" else 12000
    return [gen_case(rng) for _ in range(n)] + [gen_idle_close(rng) for _ in range(n // 10)]


def shrink(case):
    ev = case["events"]
    for i in range(len(ev)):
        yield {**case, "events": ev[:i] + ev[i + 1:]}
    rp = case["replies"]
    for i in range(len(rp)):
        yield {**case, "replies": rp[:i] + rp[i + 1:]}
    for i, r in enumerate(rp):
        for key in ("delay", "frags", "close", "framing", "blen"):
            if key in r:
                r2 = {k: v for k, v in r.items() if k != key}
                yield {**case, "replies": rp[:i] + [r2] + rp[i + 1:]}


def distribution(cases, obs):
    d = {"queued": {}, "entries": 0, "redirect_hops": 0, "refused": 0, "https_cases": 0, "closed_server": 0, "new_connectors": 0}
    for c, o in zip(cases, obs):
        if not isinstance(o, dict) or "entries" not in o:
            continue
        n = sum(1 for ev in c["events"] if ev[0] == "enq")
        d["queued"][n] = d["queued"].get(n, 0) + 1
        d["entries"] += len(o["entries"])
        d["redirect_hops"] += sum(len(e["history"]) for e in o["entries"])
        d["refused"] += sum(1 for e in o["entries"] if e["errored"])
        d["https_cases"] += bool(c.get("https"))
        d["closed_server"] += any(r.get("close") or r.get("framing") == "close" for r in c["replies"][:o["replies_used"]])
        d["new_connectors"] += len({w[0] for w in o["wire"]}) - 1 if o["wire"] else 0
    return d


def extra(tier, ctx):
    """Identity probes for the other constructor-provided containers where an empty one is legal: the object keeps
    using the (empty) container it was given."""
    from collections import deque
    from hio.core.http import clienting, httping
    probes = {}
    m, e, r = bytearray(), deque(), []
    x = clienting.Respondent(msg=m, events=e, redirects=r)
    probes.update({"Respondent.msg": x.msg is m, "Respondent.events": x.events is e, "Respondent.redirects": x.redirects is r})
    q = {}
    probes["Requester.qargs"] = clienting.Requester(qargs=q).qargs is q
    raw, ev = bytearray(), deque()
    x = httping.EventSource(raw=raw, events=ev)
    probes.update({"EventSource.raw": x.raw is raw, "EventSource.events": x.events is ev})
    m2 = bytearray()
    probes["Parsent.msg"] = httping.Parsent(msg=m2).msg is m2
    m3 = bytearray()
    x = httping.Parsent(); x.reinit(msg=m3)
    probes["Parsent.reinit.msg"] = x.msg is m3
    for k, ok in probes.items():
        if not ok:
            ctx.violations.append({"kind": "identity-probe", "case": {"probe": k},
                                   "why": f"{k}: an empty container handed to the constructor is silently replaced by a private one"})
    # observation only (unchanged tree): Client(qargs={}) does `qargs or dict()`; the requester rebinds .qargs for
    # every request anyway, so nothing the application holds can go stale - not part of C19's text
    q2 = {}
    ctx.notes.append("Client(qargs={}) keeps the caller's empty dict: %s (observation, by design per-request value)"
                     % (clienting.Client(qargs=q2).requester.qargs is q2))
    return {"identity_probes": probes}


# --------------------------------------------------------------------------- Gallina emitter

def _q(q):
    return coq_list(["(%s, %s)" % (coq_N(_n(k)), coq_N(_n(v))) for k, v in q], "N * N")


def _pay(p):
    return "(%s, %s)" % (coq_N(_n(p[0])), coq_N(_n(p[1])))


def _tg(t):
    return "(%s, %s, %s)" % (coq_bool(bool(t[0])), coq_N(_n(t[1])), _q(t[2]))


def _n(x):
    """status None (unparsable reply) is emitted as 0; the oracle has already failed such a case"""
    return x if isinstance(x, int) and x >= 0 else 0


def _t(x):
    return x if isinstance(x, int) and x >= 0 else None


def to_coq(case, obs):
    """Schedule with completion flags taken from the observed trace; replies consumed in order."""
    evs = []
    trace = list(obs["trace"])
    k = 0   # next reply
    ti = 0
    sched = list(case["events"]) + [["pass"]] * len(trace)
    for ev in sched:
        if ev[0] == "take":
            evs.append("HttpClient.Take")
            continue
        if ev[0] == "enq":
            evs.append(f"(HttpClient.Enq {coq_N(ev[1])})")
            continue
        if ti >= len(trace):
            break
        changed = trace[ti][0]
        refired = coq_bool(bool(trace[ti][5]) if len(trace[ti]) > 5 else False)
        if len(trace[ti]) > 6 and trace[ti][6]:
            evs.append("HttpClient.Eof")
        ti += 1
        if changed:
            r = case["replies"][k] if k < len(case["replies"]) else {"status": 200}
            loc = r.get("loc")
            if loc is None:
                l = "(@None HttpClient.location)"
            else:
                l = "(Some {| HttpClient.l_host := %s; HttpClient.l_https := %s; HttpClient.l_query := %s |})" % (
                    coq_option(loc.get("host"), coq_N, "N"), coq_bool(bool(loc.get("https"))), _q(loc.get("q") or []))
            verb = obs["wire"][k][5] if k < len(obs["wire"]) else "GET"
            closes = closes_after(r, verb)
            evs.append("(HttpClient.Pass " + refired + " (Some {| HttpClient.rp_id := %s; HttpClient.rp_status := %s; HttpClient.rp_loc := %s; "
                       "HttpClient.rp_close := %s |}))" % (coq_N(k), coq_N(r.get("status", 200)), l, coq_bool(closes)))
            k += 1
        else:
            evs.append("(HttpClient.Pass " + refired + " None)")
        if obs.get("taken_each"):
            evs.append("HttpClient.Take")
    if obs.get("taken_end"):
        evs += ["HttpClient.Take"] * (len(obs["entries"]) + 2)
    tr = coq_list(["(%s, %s, %s, %s)" % (coq_bool(t[1]), coq_N(t[2]), coq_N(t[3]), coq_N(t[4])) for t in trace],
                  "bool * N * N * N")
    def _entry(e):
        return ("{| HttpClient.e_status := %s; HttpClient.e_tag := %s; HttpClient.e_errored := %s; HttpClient.e_history := %s; "
                "HttpClient.e_target := %s; HttpClient.e_targets := %s; HttpClient.e_pay := %s |}" % (
                    coq_N(_n(e["status"])), coq_option(_t(e["tag"]), coq_N, "N"), coq_bool(e["errored"]),
                    coq_list(["(%s, %s)" % (coq_N(_n(h[0])), coq_option(_t(h[1]), coq_N, "N")) for h in e["history"]], "N * option N"),
                    _tg(e["target"]), coq_list([_tg(x) for x in e["targets"]], "HttpClient.target"), _pay(e["pay"])))
    ents = coq_list([_entry(e) for e in obs["entries"]], "HttpClient.entry")
    dummy = {"status": 0, "tag": None, "errored": True, "history": [], "target": [False, 9999, []], "targets": [], "pay": [9, 9]}
    tks = coq_list([("(@None HttpClient.entry)" if t[0] is None else
                     "(Some %s)" % _entry(obs["entries"][t[0]] if 0 <= t[0] < len(obs["entries"]) else dummy))
                    for t in obs.get("takes", [])], "option HttpClient.entry")
    wire = coq_list(["{| HttpClient.w_conn := %s; HttpClient.w_https := %s; HttpClient.w_host := %s; HttpClient.w_item := %s; HttpClient.w_q := %s; HttpClient.w_pay := %s |}" % (
        coq_N(w[0]), coq_bool(w[1]), coq_N(w[2]),
        ("(HttpClient.WReq %s)" if w[3] == "req" else "(HttpClient.WRedir %s)") % coq_N(w[4]), _q(w[6]), _pay(w[7])) for w in obs["wire"]],
        "HttpClient.wentry")
    meths = coq_list(["(%s, %s)" % (coq_N(ev[1]), coq_N(METHODS.index(rmethod(ev, obs)) if rmethod(ev, obs) in METHODS else 0)) for ev in case["events"] if ev[0] == "enq"], "N * N")
    qas = coq_list(["(%s, %s)" % (coq_N(ev[1]), coq_option(ev_explicit(ev), _q, "HttpClient.qargs")) for ev in case["events"] if ev[0] == "enq"],
                   "N * option HttpClient.qargs")
    pays = coq_list(["(%s, %s)" % (coq_N(ev[1]), _pay(pay_of(ev))) for ev in case["events"] if ev[0] == "enq"], "N * HttpClient.payload")
    pqs = coq_list(["(%s, %s)" % (coq_N(ev[1]), _q(ev_pathq(ev))) for ev in case["events"] if ev[0] == "enq"], "N * HttpClient.qargs")
    return ("{| HttpClient.c_reconn := " + coq_bool(bool(case.get("reconnect"))) + "; HttpClient.c_https := %s; HttpClient.c_redirectable := %s; HttpClient.c_cmethod := %s; HttpClient.c_methods := %s; "
            "HttpClient.c_qargs := %s; HttpClient.c_pathq := %s; HttpClient.c_pays := %s; "
            "HttpClient.c_events := %s; HttpClient.c_trace := %s; "
            "HttpClient.c_entries := %s; HttpClient.c_wire := %s; HttpClient.c_takes := %s |}" % (
                coq_bool(bool(case.get("https"))), coq_bool(case.get("redirectable", True)),
                coq_N(METHODS.index(case.get("cmethod", "GET"))), meths, qas, pqs, pays,
                coq_list(evs, "HttpClient.event"), tr, ents, wire, tks))
