(* Lemmas about Model/Dom.v *)
From Hio Require Import Base.Prelude Base.ListFacts Model.Dom.

Lemma str_eqb_eq : forall a b, str_eqb a b = true <-> a = b.
Proof. apply list_eqb_eq. intros a b. apply N.eqb_eq. Qed.
Lemma str_eqb_refl : forall a, str_eqb a a = true.
Proof. intros. now apply str_eqb_eq. Qed.
Lemma str_eqb_neq : forall a b, a <> b -> str_eqb a b = false.
Proof. intros a b H. destruct (str_eqb a b) eqn:E; auto. apply str_eqb_eq in E. contradiction. Qed.

(* induction over the nested type dv *)
Section DvInd.
  Variable P : dv -> Prop.
  Hypothesis HNull : P DNull.
  Hypothesis HBool : forall b, P (DBool b).
  Hypothesis HInt : forall z, P (DInt z).
  Hypothesis HFloat : forall x, P (DFloat x).
  Hypothesis HStr : forall s, P (DStr s).
  Hypothesis HList : forall l, Forall P l -> P (DList l).
  Hypothesis HDict : forall kvs, Forall (fun kv => P (snd kv)) kvs -> P (DDict kvs).
  Hypothesis HDom : forall c fs, Forall (fun kv => P (snd kv)) fs -> P (DDom c fs).

  Fixpoint dv_ind' (d : dv) : P d :=
    match d with
    | DNull => HNull | DBool b => HBool b | DInt z => HInt z | DFloat x => HFloat x | DStr s => HStr s
    | DList l => HList l ((fix go (l : list dv) : Forall P l :=
                             match l with
                             | [] => Forall_nil _
                             | x :: l' => Forall_cons x (dv_ind' x) (go l')
                             end) l)
    | DDict kvs => HDict kvs ((fix go (l : list (str * dv)) : Forall (fun kv => P (snd kv)) l :=
                                 match l with
                                 | [] => Forall_nil _
                                 | (k, x) :: l' => Forall_cons (k, x) (dv_ind' x) (go l')
                                 end) kvs)
    | DDom c fs => HDom c fs ((fix go (l : list (str * dv)) : Forall (fun kv => P (snd kv)) l :=
                                 match l with
                                 | [] => Forall_nil _
                                 | (k, x) :: l' => Forall_cons (k, x) (dv_ind' x) (go l')
                                 end) fs)
    end.
End DvInd.

(* a value without data objects survives dictify / "return d" unchanged *)
Lemma embed_dictify : forall d, has_dom d = false -> embed (dictify d) = d.
Proof.
  induction d using dv_ind'; intros Hd; simpl in *; auto; try discriminate.
  - f_equal. induction l as [|x l IHl]; simpl in *; auto.
    apply orb_false_iff in Hd. destruct Hd as [H1 H2].
    rewrite (Forall_inv H) by auto. f_equal. apply IHl; auto. exact (Forall_inv_tail H).
  - f_equal. induction kvs as [|[k x] l IHl]; simpl in *; auto.
    apply orb_false_iff in Hd. destruct Hd as [H1 H2].
    pose proof (Forall_inv H) as Hx. simpl in Hx.
    rewrite Hx by auto. f_equal. apply IHl; auto. exact (Forall_inv_tail H).
Qed.

(* ---- datify on a dict, with the keyword-argument loop named ---- *)
Fixpoint args_with (g : ftype -> value -> dv) (fields : list (str * ftype)) (l : list (str * value))
  : option (list (str * dv)) :=
  match l with
  | [] => Some []
  | (k, x) :: l' =>
    match assoc k fields with
    | Some ft => match args_with g fields l' with
                 | Some r => Some ((k, g ft x) :: r)
                 | None => None
                 end
    | None => None
    end
  end.

Lemma datify_dict : forall S c kvs,
  datify S (TDom c) (VDict kvs) =
  match args_with (datify S) (fields_of S c) kvs with
  | Some kw => construct S c kw
  | None => embed (VDict kvs)
  end.
Proof.
  intros. simpl. 
  assert (E : forall l, (fix args (l : list (str * value)) : option (list (str * dv)) :=
               match l with
               | [] => Some []
               | (k, x) :: l' =>
                 match assoc k (fields_of S c) with
                 | Some ft => match args l' with
                              | Some r => Some ((k, datify S ft x) :: r)
                              | None => None
                              end
                 | None => None
                 end
               end) l = args_with (datify S) (fields_of S c) l).
  { induction l as [|[k x] l IH]; simpl; auto. destruct (assoc k (fields_of S c)); auto. now rewrite IH. }
  now rewrite E.
Qed.

Lemma assoc_in_nodup : forall {A} (l : list (str * A)) k a,
  NoDup (map fst l) -> In (k, a) l -> assoc k l = Some a.
Proof.
  induction l as [|[k' a'] l IH]; intros k a Hn Hin; simpl in *; [contradiction|].
  inversion Hn; subst. destruct Hin as [E|Hin].
  - inversion E; subst. now rewrite str_eqb_refl.
  - rewrite str_eqb_neq; [now apply IH|].
    intro; subst. apply H1. apply in_map_iff. now exists (k', a).
Qed.

(* the well-typed data objects: a dataclass-annotated field holds None or an
   instance of exactly that class with exactly its fields; every other field
   holds a value free of data objects *)
Inductive fits (S : schema) : ftype -> dv -> Prop :=
| fits_other : forall d, has_dom d = false -> fits S TOther d
| fits_null : forall c, fits S (TDom c) DNull
| fits_dom : forall c fs,
    Forall2 (fun (f : str * ftype) (kv : str * dv) => fst kv = fst f /\ fits S (snd f) (snd kv))
            (fields_of S c) fs ->
    fits S (TDom c) (DDom c fs).

Definition schema_ok (S : schema) : Prop := forall c, NoDup (map fst (fields_of S c)).

Lemma args_ok : forall S (all : list (str * ftype)) fields fs,
  NoDup (map fst all) -> incl fields all ->
  Forall2 (fun (f : str * ftype) (kv : str * dv) =>
             fst kv = fst f /\ datify S (snd f) (dictify (snd kv)) = snd kv) fields fs ->
  args_with (datify S) all (map (fun kv => match kv with (k, x) => (k, dictify x) end) fs) = Some fs.
Proof.
  intros S all fields fs Hn Hi H. induction H as [|[fk ft] [k x] fl r [Hk Hd] H IH]; simpl; auto.
  simpl in Hk, Hd. subst fk.
  rewrite (assoc_in_nodup all k ft Hn) by (apply Hi; now left).
  rewrite IH by (intros y Hy; apply Hi; now right). now rewrite Hd.
Qed.

Lemma construct_ok : forall S c fs,
  NoDup (map fst (fields_of S c)) ->
  Forall2 (fun (f : str * ftype) (kv : str * dv) => fst kv = fst f) (fields_of S c) fs ->
  construct S c fs = DDom c fs.
Proof.
  intros S c fs Hn H. unfold construct. f_equal.
  induction H as [|[fk ft] [k x] fl r Hk H IH]; simpl; auto.
  simpl in Hk. subst fk. rewrite str_eqb_refl. f_equal.
  simpl in Hn. pose proof (NoDup_cons_iff k (map fst fl)) as [ND _]. destruct (ND Hn) as [Hnot Hn'].
  etransitivity; [|apply IH; exact Hn']. apply map_ext_in. intros [gk gt] Hin. simpl.
  rewrite str_eqb_neq; auto. intro; subst. apply Hnot. apply in_map_iff. now exists (k, gt).
Qed.

Lemma datify_dictify : forall S, schema_ok S -> forall d t, fits S t d -> datify S t (dictify d) = d.
Proof.
  intros S HS. induction d using dv_ind'; intros t F.
  - inversion F; subst; reflexivity.
  - inversion F; subst; reflexivity.
  - inversion F; subst; reflexivity.
  - inversion F; subst; reflexivity.
  - inversion F; subst; reflexivity.
  - inversion F; subst. simpl datify. now apply (embed_dictify (DList l)).
  - inversion F; subst. simpl datify. now apply (embed_dictify (DDict kvs)).
  - inversion F; subst; [simpl in H0; discriminate|].
    cbn [dictify]. rewrite datify_dict.
    assert (A : Forall2 (fun (f : str * ftype) (kv : str * dv) =>
               fst kv = fst f /\ datify S (snd f) (dictify (snd kv)) = snd kv) (fields_of S c) fs).
    { clear F. induction H2 as [|f kv fl r [Hk Hf] H2 IH2]; constructor.
      - split; auto. exact (Forall_inv H _ Hf).
      - apply IH2. exact (Forall_inv_tail H). }
    rewrite (args_ok S (fields_of S c) (fields_of S c) fs (HS c) (incl_refl _) A).
    apply construct_ok; auto.
    clear - H2. induction H2 as [|f kv fl r [Hk Hf] H2 IH2]; constructor; auto.
Qed.

(* ---- the round trip over any codec that decodes its own encodings ---- *)
Section RoundTrip.
  Variable wire : Type.
  Variable enc : value -> wire.
  Variable dec : wire -> option value.
  Variable common : value -> Prop.            (* the values all three libraries represent *)
  Hypothesis dec_enc : forall v, common v -> dec (enc v) = Some v.

  Theorem roundtrip : forall S c fs,
    schema_ok S -> fits S (TDom c) (DDom c fs) -> common (dictify (DDom c fs)) ->
    from_x wire dec S c (as_x wire enc (DDom c fs)) = Ok (DDom c fs).
  Proof.
    intros S c fs HS F HC. unfold from_x, as_x. rewrite dec_enc by exact HC.
    rewrite datify_dictify by auto. simpl. now rewrite Nat.eqb_refl.
  Qed.
End RoundTrip.

(* the decidable test is sound for [fits] *)
Lemma fitsb_fits : forall S d t, fitsb S t d = true -> fits S t d.
Proof.
  intros S. induction d using dv_ind'; intros t Hf; destruct t as [tc|];
    try (apply fits_other; simpl in Hf |- *; first [reflexivity | now apply negb_true_iff in Hf]);
    try (simpl in Hf; discriminate); try apply fits_null.
  simpl in Hf. apply andb_true_iff in Hf. destruct Hf as [Hc Hg]. apply Nat.eqb_eq in Hc. subst tc.
  apply fits_dom. revert Hg. generalize (fields_of S c). intros fields. revert fields.
  induction fs as [|[k x] r IHr]; intros [|[fk ft] fl] Hg; simpl in Hg; try discriminate; constructor.
  - apply andb_true_iff in Hg. destruct Hg as [Hg _]. apply andb_true_iff in Hg. destruct Hg as [Hk Hx].
    apply str_eqb_eq in Hk. simpl. split; auto. exact (Forall_inv H _ Hx).
  - apply andb_true_iff in Hg. destruct Hg as [_ Hg]. apply IHr; auto. exact (Forall_inv_tail H).
Qed.
