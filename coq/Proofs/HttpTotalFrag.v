(* Fragmentation independence of the request parser model (used by C14 and C16):
   parsing a first receive and continuing with the next one is parsing their concatenation. *)
From Hio Require Import Base.Prelude Model.HttpReqUrl Model.HttpTotal Proofs.HttpTotalProofs.
From Coq Require Import String.
Local Open Scope N_scope.

(* ---------- stages are stable under extension of the buffer ---------- *)
Lemma take_lf_ext : forall b c l r, take_lf b = Some (l, r) -> take_lf (b ++ c) = Some (l, r ++ c).
Proof.
  induction b as [|x b IH]; intros c l r H; [discriminate|].
  cbn [app take_lf] in *. destruct (N.eqb x 10).
  - injection H as <- <-. reflexivity.
  - destruct (take_lf b) as [[l' r']|] eqn:E; [|discriminate]. injection H as <- <-.
    now rewrite (IH c l' r' eq_refl).
Qed.

Lemma take_crlf_eq x y r : take_crlf (x :: y :: r) =
  if N.eqb x 13 && N.eqb y 10 then Some ([], r)
  else match take_crlf (y :: r) with Some (l, rest) => Some (x :: l, rest) | None => None end.
Proof. reflexivity. Qed.

Lemma take_crlf_ext : forall b c l r, take_crlf b = Some (l, r) -> take_crlf (b ++ c) = Some (l, r ++ c).
Proof.
  induction b as [|x b IH]; intros c l r H; [discriminate|].
  destruct b as [|y b']; [discriminate|].
  rewrite take_crlf_eq in H. change ((x :: y :: b') ++ c) with (x :: y :: (b' ++ c)). rewrite take_crlf_eq.
  destruct (N.eqb x 13 && N.eqb y 10).
  - injection H as <- <-. reflexivity.
  - destruct (take_crlf (y :: b')) as [[l' r']|] eqn:E; [|discriminate]. injection H as <- <-.
    pose proof (IH c l' r' eq_refl) as Hx. change ((y :: b') ++ c) with (y :: b' ++ c) in Hx. now rewrite Hx.
Qed.

Lemma line_lf_got_ext b c l r : line_lf b = Got l r -> line_lf (b ++ c) = Got l (r ++ c).
Proof.
  unfold line_lf. destruct (take_lf b) as [[l0 r0]|] eqn:E.
  - rewrite (take_lf_ext b c l0 r0 E). destruct (MAXL <? blen (strip_cr l0)); [discriminate|].
    intros H. injection H as <- <-. reflexivity.
  - destruct (MAXL + 1 <? blen b); discriminate.
Qed.

Lemma line_crlf_got_ext b c l r : line_crlf b = Got l r -> line_crlf (b ++ c) = Got l (r ++ c).
Proof.
  unfold line_crlf. destruct (take_crlf b) as [[l0 r0]|] eqn:E.
  - rewrite (take_crlf_ext b c l0 r0 E). destruct (MAXL <? blen l0); [discriminate|].
    intros H. injection H as <- <-. reflexivity.
  - destruct (MAXL + 1 <? blen b); discriminate.
Qed.

Lemma leader_step_got_ext h b c a r : leader_step h b = Got a r -> leader_step h (b ++ c) = Got a (r ++ c).
Proof.
  unfold leader_step. destruct (line_lf b) as [|k rr|l r0] eqn:E; try discriminate.
  rewrite (line_lf_got_ext b c l r0 E). destruct l as [|x l'].
  - intros H. injection H as <- <-. reflexivity.
  - destruct (partition2 58 32 (x :: l')) as [[kk f] v]. destruct (negb f); [discriminate|].
    destruct (MAXH <? _); [discriminate|]. intros H. injection H as <- <-. reflexivity.
Qed.

Lemma blen_app b c : blen (b ++ c) = blen b + blen c.
Proof. unfold blen. rewrite app_length. lia. Qed.

Lemma chunk_step_got_ext cs body b c a r : chunk_step cs body b = Got a r -> chunk_step cs body (b ++ c) = Got a (r ++ c).
Proof.
  unfold chunk_step. destruct cs as [|n|ch|h].
  - destruct (line_crlf b) as [|k rr|l r0] eqn:E; try discriminate.
    rewrite (line_crlf_got_ext b c l r0 E).
    destruct (chunk_size l) as [[|p]|k]; try discriminate; intros H; injection H as <- <-; reflexivity.
  - destruct (blen b <? N.pos n) eqn:E; [discriminate|]. apply N.ltb_ge in E.
    assert (E2 : (blen (b ++ c) <? N.pos n) = false) by (apply N.ltb_ge; rewrite blen_app; lia).
    rewrite E2. intros H. injection H as <- <-.
    assert (Hl : (Pos.to_nat n <= List.length b)%nat) by (unfold blen in E; lia).
    rewrite firstn_app, skipn_app.
    replace (Pos.to_nat n - List.length b)%nat with 0%nat by lia.
    cbn [firstn skipn]. now rewrite app_nil_r.
  - destruct (line_crlf b) as [|k rr|l r0] eqn:E; try discriminate.
    rewrite (line_crlf_got_ext b c l r0 E). destruct l; [|discriminate].
    intros H. injection H as <- <-. reflexivity.
  - destruct (leader_step h b) as [|k rr|[h'|h'] r0] eqn:E; try discriminate;
      rewrite (leader_step_got_ext h b c _ r0 E); intros H; injection H as <- <-; reflexivity.
Qed.

(* ---------- surplus fuel does not matter ---------- *)
Lemma req_run_fuel o : forall f1 f2 s b, (List.length b < f1)%nat -> (List.length b < f2)%nat ->
  req_run f1 o s b = req_run f2 o s b.
Proof.
  induction f1 as [|f1 IH]; intros f2 s b H1 H2; [lia|].
  destruct f2 as [|f2]; [lia|].
  cbn [req_run]. destruct s as [|m v10 u h|ri n|ri c body].
  - destruct (line_lf b) as [|k rr|l rest] eqn:E; try reflexivity.
    apply line_lf_got in E. destruct (request_line o l) as [[[m v10] u]|k]; [|reflexivity]. apply IH; lia.
  - destruct (leader_step h b) as [|k rr|[h'|h'] rest] eqn:E; try reflexivity.
    + apply leader_step_got in E. apply IH; lia.
    + apply leader_step_got in E. destruct (is_chunked h'); [apply IH; lia|].
      destruct (req_length h'); [apply IH; lia|reflexivity].
  - reflexivity.
  - destruct (chunk_step c body b) as [|k rr|[[c' body']|body'] rest] eqn:E; try reflexivity.
    apply chunk_step_got in E. apply IH; lia.
Qed.

(* ---------- two receives = one ---------- *)
Lemma req_run_split o c : forall f s b s' b' f2 f3,
  (List.length b < f)%nat -> req_run f o s b = PNeed s' b' ->
  (List.length (b ++ c) < f2)%nat -> (List.length (b' ++ c) < f3)%nat ->
  req_run f2 o s (b ++ c) = req_run f3 o s' (b' ++ c).
Proof.
  induction f as [|f IH]; intros s b s' b' f2 f3 Hf H H2 H3; [lia|].
  destruct f2 as [|f2]; [lia|].
  cbn [req_run] in H. destruct s as [|m v10 u h|ri n|ri cs body].
  - destruct (line_lf b) as [|k rr|l rest] eqn:E; try discriminate.
    + injection H as <- <-. apply req_run_fuel; assumption.
    + pose proof (line_lf_got _ _ _ E) as Hl.
      destruct (request_line o l) as [[[m v10] u]|k] eqn:E2; [|discriminate].
      cbn [req_run]. rewrite (line_lf_got_ext b c l rest E), E2.
      eapply IH; [|exact H| |exact H3]; rewrite ?app_length in *; lia.
  - destruct (leader_step h b) as [|k rr|[h'|h'] rest] eqn:E; try discriminate.
    + injection H as <- <-. apply req_run_fuel; assumption.
    + pose proof (leader_step_got _ _ _ _ E) as Hl.
      cbn [req_run]. rewrite (leader_step_got_ext h b c _ rest E).
      eapply IH; [|exact H| |exact H3]; rewrite ?app_length in *; lia.
    + pose proof (leader_step_got _ _ _ _ E) as Hl.
      cbn [req_run]. rewrite (leader_step_got_ext h b c _ rest E).
      destruct (is_chunked h').
      * eapply IH; [|exact H| |exact H3]; rewrite ?app_length in *; lia.
      * destruct (req_length h'); [|discriminate].
        eapply IH; [|exact H| |exact H3]; rewrite ?app_length in *; lia.
  - destruct (blen b <? n) eqn:E; [|discriminate]. injection H as <- <-. apply req_run_fuel; assumption.
  - destruct (chunk_step cs body b) as [|k rr|[[c' body']|body'] rest] eqn:E; try discriminate.
    + injection H as <- <-. apply req_run_fuel; assumption.
    + pose proof (chunk_step_got _ _ _ _ _ E) as Hl.
      cbn [req_run]. rewrite (chunk_step_got_ext cs body b c _ rest E).
      eapply IH; [|exact H| |exact H3]; rewrite ?app_length in *; lia.
Qed.

(* Requestant.parse() after a first receive [b] needs more; parsing on after the next receive [c]
   gives what one parse of [b ++ c] gives: where the bytes were cut does not matter *)
Theorem req_parse_split o s b c s' b' :
  req_parse o s b = PNeed s' b' -> req_parse o s' (b' ++ c) = req_parse o s (b ++ c).
Proof.
  unfold req_parse. intros H. symmetry.
  eapply req_run_split; [|exact H| |]; lia.
Qed.

(* ---------- a request that ended or failed is not affected by later bytes ---------- *)
Lemma take_lf_none_app : forall b c, take_lf b = None ->
  take_lf (b ++ c) = match take_lf c with Some (l, r) => Some (b ++ l, r) | None => None end.
Proof.
  induction b as [|x b IH]; intros c H.
  - cbn [app]. destruct (take_lf c) as [[l r]|]; reflexivity.
  - cbn [take_lf] in H. cbn [app take_lf]. destruct (N.eqb x 10); [discriminate|].
    destruct (take_lf b) as [[l r]|] eqn:E; [discriminate|]. rewrite (IH c eq_refl).
    destruct (take_lf c) as [[l r]|]; reflexivity.
Qed.

Lemma strip_cr_len l : blen l <= blen (strip_cr l) + 1.
Proof.
  unfold strip_cr. assert (Hr : forall (x : bytes), frev x = rev x) by (intros; unfold frev; symmetry; apply rev_alt).
  rewrite Hr. destruct (rev l) as [|x r] eqn:E; [unfold blen; lia|].
  assert (Hl : List.length l = S (List.length r)) by (rewrite <- (rev_length l), E; reflexivity).
  destruct (N.eqb x 13); [rewrite Hr; unfold blen; rewrite rev_length; lia|unfold blen; lia].
Qed.

Lemma line_lf_fail_ext b c k r : line_lf b = Fail k r -> exists r', line_lf (b ++ c) = Fail k r'.
Proof.
  unfold line_lf. destruct (take_lf b) as [[l0 r0]|] eqn:E.
  - rewrite (take_lf_ext b c l0 r0 E). destruct (MAXL <? blen (strip_cr l0)); [|discriminate].
    intros H. injection H as <- _. eexists. reflexivity.
  - destruct (MAXL + 1 <? blen b) eqn:E2; [|discriminate]. intros H. injection H as <- _.
    rewrite (take_lf_none_app b c E). destruct (take_lf c) as [[l r1]|].
    + assert (MAXL <? blen (strip_cr (b ++ l)) = true) as ->.
      { apply N.ltb_lt in E2. apply N.ltb_lt. pose proof (strip_cr_len (b ++ l)). rewrite blen_app in H. lia. }
      eexists. reflexivity.
    + assert (MAXL + 1 <? blen (b ++ c) = true) as ->.
      { apply N.ltb_lt in E2. apply N.ltb_lt. rewrite blen_app. lia. }
      eexists. reflexivity.
Qed.

Lemma take_crlf_none_app_fail : forall b c, take_crlf b = None -> MAXL + 1 < blen b ->
  exists r', line_crlf (b ++ c) = Fail HTTPExc r'.
Proof.
  intros b c Hn Hl. unfold line_crlf. destruct (take_crlf (b ++ c)) as [[l r]|] eqn:E.
  - assert (Hlen : blen b <= blen l + 1).
    { clear Hl. revert l r E. induction b as [|x b IH]; intros l r E; [unfold blen; cbn; lia|].
      destruct b as [|y b'].
      - unfold blen. cbn. lia.
      - rewrite take_crlf_eq in Hn. change ((x :: y :: b') ++ c) with (x :: y :: (b' ++ c)) in E.
        rewrite take_crlf_eq in E. destruct (N.eqb x 13 && N.eqb y 10); [discriminate|].
        destruct (take_crlf (y :: b')) as [[l1 r1]|] eqn:E1; [discriminate|].
        destruct (take_crlf (y :: b' ++ c)) as [[l2 r2]|] eqn:E2; [|discriminate]. injection E as <- <-.
        specialize (IH eq_refl l2 r2). change ((y :: b') ++ c) with (y :: b' ++ c) in IH.
        specialize (IH E2). unfold blen in *. cbn [List.length] in *. lia. }
    assert (MAXL <? blen l = true) as -> by (apply N.ltb_lt; lia). eexists. reflexivity.
  - assert (MAXL + 1 <? blen (b ++ c) = true) as -> by (apply N.ltb_lt; rewrite blen_app; lia).
    eexists. reflexivity.
Qed.

Lemma line_crlf_fail_ext b c k r : line_crlf b = Fail k r -> exists r', line_crlf (b ++ c) = Fail k r'.
Proof.
  unfold line_crlf at 1. destruct (take_crlf b) as [[l0 r0]|] eqn:E.
  - destruct (MAXL <? blen l0) eqn:E2; [|discriminate]. intros H. injection H as <- _.
    unfold line_crlf. rewrite (take_crlf_ext b c l0 r0 E), E2. eexists. reflexivity.
  - destruct (MAXL + 1 <? blen b) eqn:E2; [|discriminate]. intros H. injection H as <- _.
    apply take_crlf_none_app_fail; [exact E|now apply N.ltb_lt].
Qed.

Lemma leader_step_fail_ext h b c k r : leader_step h b = Fail k r -> exists r', leader_step h (b ++ c) = Fail k r'.
Proof.
  unfold leader_step at 1. destruct (line_lf b) as [|k0 rr|l r0] eqn:E; try discriminate.
  - intros H. injection H as <- _. destruct (line_lf_fail_ext b c _ _ E) as [r' Hr].
    unfold leader_step. rewrite Hr. eexists. reflexivity.
  - unfold leader_step. rewrite (line_lf_got_ext b c l r0 E). destruct l as [|x l']; [discriminate|].
    destruct (partition2 58 32 (x :: l')) as [[kk f] v]. destruct (negb f).
    + intros H. injection H as <- _. eexists. reflexivity.
    + destruct (MAXH <? _); [|discriminate]. intros H. injection H as <- _. eexists. reflexivity.
Qed.

Lemma chunk_step_fail_ext cs body b c k r : chunk_step cs body b = Fail k r ->
  exists r', chunk_step cs body (b ++ c) = Fail k r'.
Proof.
  unfold chunk_step. destruct cs as [|n|ch|h].
  - destruct (line_crlf b) as [|k0 rr|l r0] eqn:E; try discriminate.
    + intros H. injection H as <- _. destruct (line_crlf_fail_ext b c _ _ E) as [r' Hr]. rewrite Hr. eexists. reflexivity.
    + rewrite (line_crlf_got_ext b c l r0 E). destruct (chunk_size l) as [[|p]|k0]; try discriminate.
      intros H. injection H as <- _. eexists. reflexivity.
  - destruct (blen b <? N.pos n); discriminate.
  - destruct (line_crlf b) as [|k0 rr|l r0] eqn:E; try discriminate.
    + intros H. injection H as <- _. destruct (line_crlf_fail_ext b c _ _ E) as [r' Hr]. rewrite Hr. eexists. reflexivity.
    + rewrite (line_crlf_got_ext b c l r0 E). destruct l; [discriminate|]. intros H. injection H as <- _. eexists. reflexivity.
  - destruct (leader_step h b) as [|k0 rr|[h'|h'] r0] eqn:E; try discriminate.
    intros H. injection H as <- _. destruct (leader_step_fail_ext h b c _ _ E) as [r' Hr]. rewrite Hr. eexists. reflexivity.
Qed.

Lemma req_run_end_ext o c : forall f s b f2, (List.length b < f)%nat -> (List.length (b ++ c) < f2)%nat ->
  (forall ri body rest, req_run f o s b = PDone ri body rest -> req_run f2 o s (b ++ c) = PDone ri body (rest ++ c)) /\
  (forall k, req_run f o s b = PFail k -> req_run f2 o s (b ++ c) = PFail k).
Proof.
  induction f as [|f IH]; intros s b f2 Hf H2; [lia|].
  destruct f2 as [|f2]; [lia|].
  cbn [req_run]. destruct s as [|m v10 u h|ri0 n|ri0 cs body0].
  - destruct (line_lf b) as [|k0 rr|l rest] eqn:E.
    + split; intros; discriminate.
    + destruct (line_lf_fail_ext b c _ _ E) as [r' Hr]. rewrite Hr. split; [intros; discriminate|].
      intros k H. exact H.
    + pose proof (line_lf_got _ _ _ E) as Hl. rewrite (line_lf_got_ext b c l rest E).
      destruct (request_line o l) as [[[m v10] u]|k0]; [|split; [intros; discriminate|intros k H; exact H]].
      apply IH; rewrite ?app_length in *; lia.
  - destruct (leader_step h b) as [|k0 rr|[h'|h'] rest] eqn:E.
    + split; intros; discriminate.
    + destruct (leader_step_fail_ext h b c _ _ E) as [r' Hr]. rewrite Hr. split; [intros; discriminate|intros k H; exact H].
    + pose proof (leader_step_got _ _ _ _ E) as Hl. rewrite (leader_step_got_ext h b c _ rest E).
      apply IH; rewrite ?app_length in *; lia.
    + pose proof (leader_step_got _ _ _ _ E) as Hl. rewrite (leader_step_got_ext h b c _ rest E).
      destruct (is_chunked h'); [apply IH; rewrite ?app_length in *; lia|].
      destruct (req_length h'); [apply IH; rewrite ?app_length in *; lia|].
      split; [intros; discriminate|intros k H; exact H].
  - destruct (blen b <? n) eqn:E; [split; intros; discriminate|]. apply N.ltb_ge in E.
    assert (E2 : (blen (b ++ c) <? n) = false) by (apply N.ltb_ge; rewrite blen_app; lia). rewrite E2.
    split; [|intros; discriminate]. intros ri body rest H. injection H as <- <- <-.
    assert (Hl : (N.to_nat n <= List.length b)%nat) by (unfold blen in E; lia).
    rewrite firstn_app, skipn_app. replace (N.to_nat n - List.length b)%nat with 0%nat by lia.
    cbn [firstn skipn]. now rewrite app_nil_r.
  - destruct (chunk_step cs body0 b) as [|k0 rr|[[c' body']|body'] rest] eqn:E.
    + split; intros; discriminate.
    + destruct (chunk_step_fail_ext cs body0 b c _ _ E) as [r' Hr]. rewrite Hr. split; [intros; discriminate|intros k H; exact H].
    + pose proof (chunk_step_got _ _ _ _ _ E) as Hl. rewrite (chunk_step_got_ext cs body0 b c _ rest E).
      apply IH; rewrite ?app_length in *; lia.
    + rewrite (chunk_step_got_ext cs body0 b c _ rest E). split; [|intros; discriminate].
      intros ri body rest0 H. injection H as <- <- <-. reflexivity.
Qed.

(* any number of receives, with a parse() after each *)
Fixpoint feed (o : url_oracle) (s : pst) (buf : bytes) (chunks : list bytes) : pres :=
  match chunks with
  | [] => req_parse o s buf
  | c :: cs => match req_parse o s buf with
               | PNeed s' b' => feed o s' (b' ++ c) cs
               | r => r        (* the request ended (or failed) before the later receives arrived *)
               end
  end.

(* the outcome of feeding the receives one by one is the outcome of one parse of their
   concatenation; bytes of later receives that were not needed stay in the buffer *)
Theorem feed_concat o : forall chunks s buf,
  match feed o s buf chunks with
  | PNeed s' b' => req_parse o s (buf ++ List.concat chunks) = PNeed s' b'
  | PDone ri body rest => exists rest', req_parse o s (buf ++ List.concat chunks) = PDone ri body rest'
  | PFail k => req_parse o s (buf ++ List.concat chunks) = PFail k
  | POut => False
  end.
Proof.
  induction chunks as [|c cs IH]; intros s buf.
  - cbn [feed List.concat]. rewrite app_nil_r. destruct (req_parse o s buf) eqn:E; try reflexivity.
    + eexists. reflexivity.
    + exact (proj1 (req_parse_spec o s buf) E).
  - cbn [feed List.concat]. destruct (req_parse o s buf) as [s' b'|k|ri body rest|] eqn:E.
    + specialize (IH s' (b' ++ c)).
      assert (Hsplit : req_parse o s' (b' ++ (c ++ List.concat cs)) = req_parse o s (buf ++ (c ++ List.concat cs)))
        by (now apply req_parse_split).
      rewrite <- app_assoc in IH. rewrite Hsplit in IH. exact IH.
    + unfold req_parse in *.
      refine (proj2 (req_run_end_ext o (c ++ List.concat cs) _ s buf _ _ _) k E); lia.
    + unfold req_parse in *. eexists.
      refine (proj1 (req_run_end_ext o (c ++ List.concat cs) _ s buf _ _ _) ri body rest E); lia.
    + exact (proj1 (req_parse_spec o s buf) E).
Qed.
