(* The whole-run theorems of Proofs/SchedDeque*.v lifted from do_run to histories
   of runs (Proofs/SchedHist.v: a first do()/ado(), then any list of reruns on
   the same Doist or under new Doists).  Every run of a history is the common
   tail "enter the root's doers, cycle, exit" started from a reset state; after a
   complete run (budget not exhausted) the two scheduler invariants hold with all
   generators finished and all deques empty, and the reset prefixes of do_again /
   do_fresh keep that: it is what the tail needs. *)
From Coq Require Import Sorting.Sorted.
From Hio Require Import Base.Prelude Base.AMap Base.Time Model.Sched Proofs.SchedEqs Proofs.SchedFrame Proofs.SchedLife
  Proofs.SchedTop Proofs.SchedAdo Proofs.SchedHist
  Proofs.SchedDeque Proofs.SchedDequeHold Proofs.SchedDequeAll Proofs.SchedDequeUniq Proofs.SchedDequeOrder
  Proofs.SchedDequeEffects Proofs.SchedDequeTop Proofs.SchedDequeTop2 Proofs.SchedDequeEpos Proofs.SchedDequeSortB
  Proofs.SchedDequeSortA Proofs.SchedDequeTop3 Proofs.SchedDequeMembers Proofs.SchedDequeMembers2 Proofs.SchedDequeMembers3.

Section Hist.
Context {T : Type} `{Time T}.
Implicit Types s : st T.

(* the common tail of do_run / do_again / do_fresh *)
Definition tail (tk : T) (cycles fuel : nat) s0 (ds : list id) (limit : option T) : st T :=
  let '(s1, r) := enter_own tk fuel s0 0%N ds in
  match r with
  | GRaise _ => emit (close_own tk fuel s1 0%N) DoRaise 0%N
  | GFuel => s1
  | _ =>
    let lim := option_map tabs limit in
    let stop := tadd (tyme s1) (match lim with Some l => l | None => tzero end) in
    cycle_loop tk cycles fuel (set_rlive s1 true) lim stop
  end.

(* the state in which a rerun starts its tail, and the doers it enters *)
Definition rerun_start s (r : rerun) : st T :=
  match r with
  | RAgain l t => set_done (set_rlive (match t with Some t' => set_tyme s t' | None => s end) false) 0%N (Some false)
  | RFresh l t ds => set_done (set_rlive (set_sched (set_tyme s t) 0%N {| doers := ds; deeds := [] |}) false) 0%N (Some false)
  end.
Definition rerun_doers s (r : rerun) : list id :=
  match r with RAgain _ _ => doers (get_sched (rerun_start s r) 0%N) | RFresh _ _ ds => ds end.
Definition rerun_limit (r : rerun) : option T := match r with RAgain l _ => l | RFresh l _ _ => l end.

Lemma do_run_tail cycles fuel (p : prog T) : do_run cycles fuel p = tail (p_tock p) cycles fuel (init_st p) (p_doers p) (p_limit p).
Proof. reflexivity. Qed.
Lemma rerun_step_tail cycles fuel tk asyn s r :
  rerun_step cycles fuel tk asyn s r = tail tk cycles fuel (rerun_start s r) (rerun_doers s r) (rerun_limit r).
Proof.
  destruct r as [l t|l t ds]; cbn [rerun_step]; [|reflexivity].
  destruct asyn; [rewrite ado_again_eq|]; reflexivity.
Qed.

(* ---------- what a complete run leaves behind ---------- *)

Definition ended' s : Prop := ended s /\ Hold s [] /\ Hold2 s [] /\ dq s 0%N = [].

Lemma close_end' tk fuel s k :
  (k = DoReturn \/ k = DoRaise) -> I s [] -> I2 s [] -> J s [] ->
  oof (emit (close_own tk fuel s 0%N) k 0%N) = false -> ended' (emit (close_own tk fuel s 0%N) k 0%N).
Proof.
  intros Hk HI HI2 HJ O. split; [now apply close_end|].
  change (oof (close_own tk fuel s 0%N) = false) in O.
  destruct (hold_all tk fuel) as (_ & _ & _ & _ & Ico & _).
  destruct (hold2_all tk fuel) as (_ & _ & _ & _ & Jco & _).
  destruct (Ico _ _ 0%N HI) as [Ob|Hh]; [congruence|]. destruct (Jco _ _ 0%N HI2) as [Ob|Hh2]; [congruence|].
  split; [exact Hh|]. split; [exact Hh2|]. exact (close_own_empty tk fuel s 0%N O).
Qed.

Lemma cycle_complete' tk cycles : forall fuel s limit stop,
  I s [] -> I2 s [] -> J s [] ->
  oof (cycle_loop tk cycles fuel s limit stop) = false -> ended' (cycle_loop tk cycles fuel s limit stop).
Proof.
  induction cycles as [|c IH]; intros fuel s limit stop HI HI2 HJ; cbn [cycle_loop].
  - cbn. discriminate.
  - destruct (recur_pass tk fuel s 0%N) as [s1 r] eqn:E.
    destruct (hold_all tk fuel) as (_ & _ & _ & _ & _ & _ & _ & _ & _ & Irp & _).
    destruct (hold2_all tk fuel) as (_ & _ & _ & _ & _ & _ & _ & _ & _ & Hrp & _).
    destruct (norun_all tk fuel) as (_ & _ & _ & _ & _ & _ & _ & _ & _ & Jrp & _).
    assert (I1 : I s1 []) by (eapply Irp; [exact HI|now left|exact E]).
    assert (H1 : I2 s1 []) by (eapply Hrp; [exact HI2|exact E]).
    assert (J1 : J s1 []) by (eapply Jrp; [exact HJ|exact E]).
    destruct r as [t| |[|]|].
    + destruct (deeds (get_sched (set_tyme s1 (tadd (tyme s1) tk)) 0%N)).
      * apply close_end'; [now left|exact I1|exact H1|exact J1].
      * destruct (_ && _); [apply close_end'; [now left|exact I1|exact H1|exact J1]|apply IH; assumption].
    + destruct (deeds (get_sched (set_tyme s1 (tadd (tyme s1) tk)) 0%N)).
      * apply close_end'; [now left|exact I1|exact H1|exact J1].
      * destruct (_ && _); [apply close_end'; [now left|exact I1|exact H1|exact J1]|apply IH; assumption].
    + apply close_end'; [now left|exact I1|exact H1|exact J1].
    + apply close_end'; [now right|exact I1|exact H1|exact J1].
    + intro O. destruct (fuel_all tk fuel) as (_ & _ & _ & _ & _ & _ & K & _). rewrite (K _ _ _ E) in O. discriminate.
Qed.

(* the pre-state of a tail: both invariants with nothing in hand, nothing executing *)
Definition ready s : Prop := Hold s [] /\ Hold2 s [] /\ NR s [].

Lemma tail_ended tk cycles fuel s0 ds limit :
  ready s0 -> oof (tail tk cycles fuel s0 ds limit) = false -> ended' (tail tk cycles fuel s0 ds limit).
Proof.
  intros (Hh & Hh2 & Hn). unfold tail.
  destruct (enter_own tk fuel s0 0%N ds) as [s1 r] eqn:E.
  destruct (hold_all tk fuel) as (_ & _ & _ & _ & _ & _ & Ieo & _).
  destruct (hold2_all tk fuel) as (_ & _ & _ & _ & _ & _ & Heo & _).
  destruct (norun_all tk fuel) as (_ & _ & _ & _ & _ & _ & Jeo & _).
  assert (I1 : I s1 []) by (eapply Ieo; [right; exact Hh|now left|exact E]).
  assert (H1 : I2 s1 []) by (eapply Heo; [right; exact Hh2|exact E]).
  assert (J1 : J s1 []) by (eapply Jeo; [right; exact Hn|exact E]).
  destruct r as [t| |k|].
  - apply cycle_complete'; assumption.
  - apply cycle_complete'; assumption.
  - apply close_end'; [now right|exact I1|exact H1|exact J1].
  - intro O. destruct (fuel_all tk fuel) as (_ & _ & _ & K & _). rewrite (K _ _ _ _ E) in O. discriminate.
Qed.

Lemma tail_oof_back tk cycles fuel s0 ds limit : oof (tail tk cycles fuel s0 ds limit) = false -> oof s0 = false.
Proof.
  unfold tail. destruct (enter_own tk fuel s0 0%N ds) as [s1 r] eqn:E. intro O.
  destruct (frame_all tk fuel) as (_ & _ & _ & _ & _ & _ & Feo & _).
  destruct (ob_all tk fuel) as (_ & _ & _ & Bco & _).
  apply (oof_back_steps s0 s1); [eapply Feo; [apply st_refl|exact E]|].
  destruct r as [t| |k|]; try exact O.
  - apply cycle_oof_back in O. exact O.
  - apply cycle_oof_back in O. exact O.
  - apply Bco in O. exact O.
Qed.

Lemma ready_init (p : prog T) : W (p_defs p) -> ready (init_st p).
Proof. intro Hw. split; [now apply hold_init|]. split; [apply hold2_init|apply nr_init]. Qed.

(* the reset prefixes of do_again / do_fresh keep a complete state ready *)
Lemma ended_nr s : ended s -> NR s [].
Proof. intros [G _] j [pc R]. destruct (G j); congruence. Qed.

Lemma ready_rerun s r : ended' s -> ready (rerun_start s r).
Proof.
  intros (En & Hh & Hh2 & Q0). destruct r as [l t|l t ds]; cbn [rerun_start].
  - split; [|split].
    + destruct t; exact Hh.
    + destruct t; exact Hh2.
    + destruct t; exact (ended_nr s En).
  - assert (Hs : Hold (set_sched s 0%N {| doers := ds; deeds := [] |}) []).
    { apply hold_sched with (E := []); [exact Hh|intros j []| |intros Hz; now destruct Hz].
      intros j Hj. unfold qids in Hj. rewrite Q0 in Hj. contradiction. }
    assert (Hs2 : Hold2 (set_sched s 0%N {| doers := ds; deeds := [] |}) []).
    { revert Hh2. apply hold2_sched. intro x. cbn. unfold qids. rewrite Q0. cbn. lia. }
    split; [exact Hs|]. split; [exact Hs2|exact (ended_nr s En)].
Qed.

(* ---------- 1. completeness over histories ---------- *)

Definition first_run (cycles fuel : nat) (asyn : bool) (p : prog T) : st T :=
  if asyn then ado_run cycles fuel p else do_run cycles fuel p.
Lemma first_run_eq cycles fuel asyn p : first_run cycles fuel asyn p = do_run cycles fuel p.
Proof. unfold first_run. destruct asyn; [apply ado_run_eq|reflexivity]. Qed.

Lemma hist_ended cycles fuel tk asyn : forall (h : list rerun) s,
  (oof s = false -> ended' s) ->
  oof (fold_left (rerun_step cycles fuel tk asyn) h s) = false ->
  ended' (fold_left (rerun_step cycles fuel tk asyn) h s).
Proof.
  induction h as [|r h IH]; intros s Es O; cbn [fold_left] in *; [now apply Es|].
  apply IH; [|exact O]. intro O1. rewrite rerun_step_tail in *.
  apply tail_ended; [|exact O1]. apply ready_rerun. apply Es.
  apply tail_oof_back in O1. destruct r as [l [t|]|l t ds]; exact O1.
Qed.

Theorem run_hist_ended cycles fuel asyn (p : prog T) (h : list rerun) :
  W (p_defs p) -> oof (run_hist cycles fuel asyn p h) = false -> ended' (run_hist cycles fuel asyn p h).
Proof.
  intros Hw O. unfold run_hist in *. fold (first_run cycles fuel asyn p) in *. rewrite first_run_eq in *.
  apply hist_ended; [|exact O]. intro O1. rewrite do_run_tail in *. apply tail_ended; [now apply ready_init|exact O1].
Qed.

(* every generator finished, every doer's events complete lifecycles, newest event DoReturn/DoRaise of the root *)
Theorem run_hist_complete cycles fuel asyn (p : prog T) (h : list rerun) :
  W (p_defs p) -> oof (run_hist cycles fuel asyn p h) = false ->
  (forall j, get_gen (run_hist cycles fuel asyn p h) j = GNew \/ get_gen (run_hist cycles fuel asyn p h) j = GDone) /\
  (forall j, lives (events j (run_hist cycles fuel asyn p h))) /\
  exists k t rest, trace (run_hist cycles fuel asyn p h) = {| e_kind := k; e_id := 0%N; e_tyme := t |} :: rest /\
                   (k = DoReturn \/ k = DoRaise).
Proof.
  intros Hw O. destruct (run_hist_ended cycles fuel asyn p h Hw O) as ([G Last] & _). split; [exact G|]. split; [|exact Last].
  intro j. pose proof (run_hist_lifecycles cycles fuel asyn p h j) as L. destruct (G j) as [E|E]; rewrite E in L; exact L.
Qed.

(* the last run of a history: prefix history and last rerun *)
Lemma run_hist_snoc cycles fuel asyn (p : prog T) h r :
  run_hist cycles fuel asyn p (h ++ [r]) = rerun_step cycles fuel (p_tock p) asyn (run_hist cycles fuel asyn p h) r.
Proof. unfold run_hist. now rewrite fold_left_app. Qed.

Lemma last_or_nil {A} (l : list A) : l = [] \/ exists l' a, l = l' ++ [a].
Proof. destruct l as [|x l]; [now left|right]. destruct (@exists_last _ (x :: l)) as (l' & a & E); [discriminate|]. now exists l', a. Qed.

Lemma cycle_defs tk cycles : forall fuel s limit stop, defs (cycle_loop tk cycles fuel s limit stop) = defs s.
Proof.
  induction cycles as [|c IH]; intros fuel s limit stop; cbn [cycle_loop]; [reflexivity|].
  destruct (recur_pass tk fuel s 0%N) as [s1 r] eqn:E.
  destruct (frame_all tk fuel) as (_ & _ & _ & _ & Fco & _ & _ & _ & _ & Frp & _).
  assert (D1 : defs s1 = defs s) by (apply steps_defs; eapply Frp; [apply st_refl|exact E]).
  assert (Dc : forall s3 k, defs (emit (close_own tk fuel s3 0%N) k 0%N) = defs s3).
  { intros s3 k. change (defs (close_own tk fuel s3 0%N) = defs s3). apply steps_defs. apply Fco, st_refl. }
  destruct r as [t| |[|]|]; rewrite ?Dc; try exact D1.
  - destruct (deeds (get_sched (set_tyme s1 (tadd (tyme s1) tk)) 0%N)); [rewrite Dc; exact D1|].
    destruct (_ && _); [rewrite Dc; exact D1|rewrite IH; exact D1].
  - destruct (deeds (get_sched (set_tyme s1 (tadd (tyme s1) tk)) 0%N)); [rewrite Dc; exact D1|].
    destruct (_ && _); [rewrite Dc; exact D1|rewrite IH; exact D1].
Qed.

Lemma tail_defs tk cycles fuel s0 ds limit : defs (tail tk cycles fuel s0 ds limit) = defs s0.
Proof.
  unfold tail. destruct (enter_own tk fuel s0 0%N ds) as [s1 r] eqn:E.
  destruct (frame_all tk fuel) as (_ & _ & _ & _ & Fco & _ & Feo & _).
  assert (D1 : defs s1 = defs s0) by (apply steps_defs; eapply Feo; [apply st_refl|exact E]).
  destruct r as [t| |k|]; try exact D1; try (rewrite cycle_defs; exact D1).
  change (defs (close_own tk fuel s1 0%N) = defs s0). rewrite <- D1. apply steps_defs. apply Fco, st_refl.
Qed.

Lemma rerun_start_defs s r : defs (rerun_start s r) = defs s.
Proof. destruct r as [l [t|]|l t ds]; reflexivity. Qed.

Lemma run_hist_defs cycles fuel asyn (p : prog T) h : defs (run_hist cycles fuel asyn p h) = p_defs p.
Proof.
  unfold run_hist. fold (first_run cycles fuel asyn p). rewrite first_run_eq.
  assert (D0 : defs (do_run cycles fuel p) = p_defs p) by (rewrite do_run_tail, tail_defs; reflexivity).
  revert D0. generalize (do_run cycles fuel p) as s. induction h as [|r h IH]; intros s D; cbn [fold_left]; [exact D|].
  apply IH. now rewrite rerun_step_tail, tail_defs, rerun_start_defs.
Qed.

Lemma empty_rerun s r : ended' s -> forall x, dq (rerun_start s r) x = [].
Proof.
  intros ((G & _) & Hh & _ & Q0) x.
  assert (Ex : dq s x = []).
  { destruct (N.eq_dec x 0) as [Hz|Hz]; [subst x; exact Q0|]. apply (hold_La s [] Hh x Hz).
    unfold startable. destruct (G x) as [E|E]; now rewrite E. }
  destruct r as [l [t|]|l t ds]; cbn [rerun_start]; try exact Ex.
  change (dq (set_sched (set_tyme s t) 0%N {| doers := ds; deeds := [] |}) x = []).
  destruct (N.eq_dec x 0) as [Hz|Hz]; [subst x; now rewrite dq_set_same|rewrite dq_set_other by exact Hz; exact Ex].
Qed.

(* whatever holds of every tail started from a ready state holds of the last run of every history *)
Lemma last_run (P : st T -> Prop) cycles fuel asyn (p : prog T) :
  W (p_defs p) ->
  (forall tk s0 ds limit, ready s0 -> (forall x, dq s0 x = []) -> defs s0 = p_defs p ->
                          oof (tail tk cycles fuel s0 ds limit) = false -> P (tail tk cycles fuel s0 ds limit)) ->
  forall h, oof (run_hist cycles fuel asyn p h) = false -> P (run_hist cycles fuel asyn p h).
Proof.
  intros Hw HP h O. destruct (last_or_nil h) as [->|(h' & r & ->)].
  - unfold run_hist in *. cbn [fold_left] in *. fold (first_run cycles fuel asyn p) in *. rewrite first_run_eq in *.
    rewrite do_run_tail in *. apply HP; [now apply ready_init|intro x; apply init_deeds|reflexivity|exact O].
  - rewrite run_hist_snoc in *. rewrite rerun_step_tail in *.
    assert (O' : oof (run_hist cycles fuel asyn p h') = false).
    { apply tail_oof_back in O. destruct r as [l [t|]|l t ds]; exact O. }
    pose proof (run_hist_ended cycles fuel asyn p h' Hw O') as En.
    apply HP; [now apply ready_rerun|now apply empty_rerun| |exact O].
    rewrite rerun_start_defs. apply run_hist_defs.
Qed.

(* ---------- 2. forced-exit order and membership for every run of a history ---------- *)

Lemma tail_final_close tk cycles fuel s0 ds limit :
  ready s0 -> oof (tail tk cycles fuel s0 ds limit) = false -> final_close (tail tk cycles fuel s0 ds limit).
Proof.
  intros (Hh & Hh2 & _). unfold tail.
  destruct (enter_own tk fuel s0 0%N ds) as [s1 r] eqn:E.
  destruct (hold_all tk fuel) as (_ & _ & _ & _ & _ & _ & Ieo & _).
  destruct (hold2_all tk fuel) as (_ & _ & _ & _ & _ & _ & Heo & _).
  assert (I1 : I s1 []) by (eapply Ieo; [right; exact Hh|now left|exact E]).
  assert (H1 : I2 s1 []) by (eapply Heo; [right; exact Hh2|exact E]).
  destruct r as [t| |k|].
  - apply cycle_final; assumption.
  - apply cycle_final; assumption.
  - apply close_end2; [now right|exact I1|exact H1].
  - intro O. destruct (fuel_all tk fuel) as (_ & _ & _ & K & _). rewrite (K _ _ _ _ E) in O. discriminate.
Qed.

Theorem run_hist_final_close cycles fuel asyn (p : prog T) (h : list rerun) :
  W (p_defs p) -> oof (run_hist cycles fuel asyn p h) = false -> final_close (run_hist cycles fuel asyn p h).
Proof.
  intros Hw. apply (last_run final_close cycles fuel asyn p Hw).
  intros tk s0 ds limit R _ _ O. now apply tail_final_close.
Qed.

Lemma tail_final_sorted tk cycles fuel s0 ds limit :
  ready s0 -> (forall x, dq s0 x = []) -> WX (defs s0) ->
  oof (tail tk cycles fuel s0 ds limit) = false -> final_sorted (tail tk cycles fuel s0 ds limit).
Proof.
  intros (Hh & Hh2 & _) Em Wx O. unfold tail in *.
  destruct (enter_own tk fuel s0 0%N ds) as [s1 r] eqn:E.
  destruct (hold_all tk fuel) as (_ & _ & _ & _ & _ & _ & Ieo & _).
  destruct (hold2_all tk fuel) as (_ & _ & _ & _ & _ & _ & Heo & _).
  destruct (ob_all tk fuel) as (_ & _ & _ & Bco & _).
  assert (I1 : I s1 []) by (eapply Ieo; [right; exact Hh|now left|exact E]).
  assert (H1 : I2 s1 []) by (eapply Heo; [right; exact Hh2|exact E]).
  assert (O1 : oof s1 = false).
  { destruct r as [t| |k|]; try exact O; try (apply Bco in O; exact O); apply cycle_oof_back in O; exact O. }
  assert (G0 : GoodA s0) by (split; intro x; rewrite Em; [constructor|intros []]).
  destruct (sorta_all tk fuel) as (_ & Seo).
  pose proof (Seo s0 [] 0%N ds s1 r Wx Hh Hh2 (or_introl eq_refl) G0 E O1) as [S1 M1].
  assert (SF : SrtF (epos s1) s1) by (intro x; rewrite (canon_mf _ (M1 x)); apply S1).
  assert (X1 : XF (defs s1)).
  { destruct (frame_all tk fuel) as (_ & _ & _ & _ & _ & _ & Feo & _).
    rewrite (steps_defs s0 s1); [exact (proj2 Wx)|]. eapply Feo; [apply st_refl|exact E]. }
  assert (G1 : GoodB (epos s1) s1) by (split; [exact SF|intros x _ Nm; now destruct (Nm (M1 x))]).
  destruct r as [t| |k|].
  - apply (cycle_sorted _ _ (epos s1)); [exact I1|exact H1|exact X1|exact G1|apply M1|reflexivity|exact O].
  - apply (cycle_sorted _ _ (epos s1)); [exact I1|exact H1|exact X1|exact G1|apply M1|reflexivity|exact O].
  - apply (close_end3 _ _ _ _ (epos s1)); [now right|exact I1|exact H1|exact SF|reflexivity|exact O].
  - destruct (fuel_all tk fuel) as (_ & _ & _ & K & _). rewrite (K _ _ _ _ E) in O. discriminate.
Qed.

Theorem run_hist_exit_order cycles fuel asyn (p : prog T) (h : list rerun) :
  WX (p_defs p) -> oof (run_hist cycles fuel asyn p h) = false -> final_sorted (run_hist cycles fuel asyn p h).
Proof.
  intros Wx. apply (last_run final_sorted cycles fuel asyn p (proj1 Wx)).
  intros tk s0 ds limit R Em D O. apply tail_final_sorted; [exact R|exact Em|now rewrite D|exact O].
Qed.

(* membership: every run transforms the doers lists it starts with by one log *)
Lemma tail_members tk d cycles fuel s0 ds limit : HD d s0 -> MR d s0 (tail tk cycles fuel s0 ds limit).
Proof.
  intro Hd. unfold tail. destruct (enter_own tk fuel s0 0%N ds) as [s1 r] eqn:E.
  destruct (mr_all tk d fuel) as (_ & _ & _ & _ & _ & _ & Ieo & _).
  assert (M1 : MR d s0 s1) by (eapply Ieo; eassumption).
  assert (Hd1 : HD d s1).
  { eapply hd_same; [|exact Hd]. destruct (frame_all tk fuel) as (_ & _ & _ & _ & _ & _ & Feo & _).
    apply steps_defs. eapply Feo; [apply st_refl|exact E]. }
  eapply mr_trans; [exact M1|].
  destruct r as [t| |k|].
  - eapply mr_trans; [|apply cycle_mr; eapply hd_same; [|exact Hd1]; reflexivity]. apply mr_same. reflexivity.
  - eapply mr_trans; [|apply cycle_mr; eapply hd_same; [|exact Hd1]; reflexivity]. apply mr_same. reflexivity.
  - apply mr_close_end.
  - apply mr_refl.
Qed.

Lemma tail_members_all tk d cycles fuel s0 ds limit : defs s0 = d -> MRS d s0 (tail tk cycles fuel s0 ds limit).
Proof.
  intro Dd. unfold tail. destruct (enter_own tk fuel s0 0%N ds) as [s1 r] eqn:E.
  destruct (mrs_all tk d fuel) as (_ & _ & _ & _ & _ & _ & Ieo & _).
  assert (M1 : MRS d s0 s1) by (eapply Ieo; eassumption).
  assert (D1 : defs s1 = d).
  { rewrite <- Dd. destruct (frame_all tk fuel) as (_ & _ & _ & _ & _ & _ & Feo & _).
    apply steps_defs. eapply Feo; [apply st_refl|exact E]. }
  eapply mrs_trans; [exact M1|].
  destruct r as [t| |k|].
  - eapply mrs_trans; [|apply cycle_mrs; exact D1]. apply mrs_same. reflexivity.
  - eapply mrs_trans; [|apply cycle_mrs; exact D1]. apply mrs_same. reflexivity.
  - apply mrs_close_end.
  - apply mrs_refl.
Qed.

(* every rerun of a history (the first run: do_run_members / do_run_members_all) *)
Theorem run_hist_members cycles fuel asyn (p : prog T) (h : list rerun) (r : rerun) :
  NE0 (p_defs p) ->
  MR (p_defs p) (rerun_start (run_hist cycles fuel asyn p h) r) (run_hist cycles fuel asyn p (h ++ [r])).
Proof.
  intro N. rewrite run_hist_snoc, rerun_step_tail. apply tail_members.
  split; [rewrite rerun_start_defs; apply run_hist_defs|exact N].
Qed.

Theorem run_hist_members_all cycles fuel asyn (p : prog T) (h : list rerun) (r : rerun) :
  MRS (p_defs p) (rerun_start (run_hist cycles fuel asyn p h) r) (run_hist cycles fuel asyn p (h ++ [r])).
Proof.
  rewrite run_hist_snoc, rerun_step_tail. apply tail_members_all. rewrite rerun_start_defs. apply run_hist_defs.
Qed.

End Hist.

(* ---------- examples and the D43 residue over histories ---------- *)

(* x_prog (nested DoDoer, a remove, a mid-pass raise) run, run again on the same
   Doist, then its DoDoer 2 and doer 6 under a new Doist starting at tyme 20 *)
Definition x_hist : list (rerun (T := Z)) := [RAgain (Some 2%Z) None; RFresh (Some 2%Z) 20%Z [2; 6]%N].

Example x_hist_ok :
  WXb (p_defs x_prog) = true /\ NE0b (p_defs x_prog) = true /\
  oof (run_hist 10 100 false x_prog x_hist) = false /\
  oof (run_hist 10 100 true x_prog x_hist) = false /\
  (* the last run: enters 2 3 4 6 at tyme 20, forced exits 6, then 2 with its children 4, 3 inside *)
  map (fun e => (e_kind e, e_id e)) (firstn 9 (trace (run_hist 10 100 false x_prog x_hist)))
    = [(DoReturn, 0); (Exit, 2); (Exit, 3); (Cease, 3); (Exit, 4); (Cease, 4); (Cease, 2); (Exit, 6); (Cease, 6)]%N /\
  doers (get_sched (run_hist 10 100 false x_prog x_hist) 0%N) = [2; 6]%N.
Proof. vm_compute. repeat split. Qed.

(* outside class W the leak of D43 survives into later runs: doer 4, entered under
   the first Doist at tyme 0 and never exited, is recurred by DoDoer 2 under a NEW
   Doist at tyme 10 without having been entered by it *)
Theorem run_hist_complete_refuted :
  exists (p : prog Z) (h : list rerun),
    oof (run_hist 10 100 false p h) = false /\
    events 4%N (run_hist 10 100 false p h) = [Enter; Recur; Recur; Cease; Exit] /\
    In {| e_kind := Enter; e_id := 4%N; e_tyme := 0%Z |} (trace (run_hist 10 100 false p h)) /\
    In {| e_kind := Recur; e_id := 4%N; e_tyme := 10%Z |} (trace (run_hist 10 100 false p h)).
Proof.
  exists d43_prog, [RFresh (Some 2%Z) 10%Z [2]%N]. vm_compute. repeat split; tauto.
Qed.
