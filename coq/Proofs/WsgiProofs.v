(* Lemmas about Model/Wsgi.v *)
From Hio Require Import Base.Prelude Base.ListFacts Model.Wsgi.
From Coq Require Import ZifyBool.
Local Open Scope N_scope.

(* the connection is closed exactly when an unparsable or a non persistent
   request was reached *)
Lemma serve_closed date : forall conn rs out cl,
  serve date rs conn = Ok (out, cl) -> cl = closes conn.
Proof.
  induction conn as [|[q a] rest IH]; intros rs out cl H; cbn [serve closes] in *.
  - now inversion H.
  - destruct (negb (r_ok q)); [now inversion H|].
    destruct (start _ _ _) as [r1|]; [|discriminate].
    destruct (run_pieces _ _ _) as [[r2 o]|]; [|discriminate].
    destruct (persisted q).
    + destruct (serve date (Some r2) rest) as [[o' c']|] eqn:E; [|discriminate].
      inversion H; subst. eapply IH; eauto.
    + now inversion H.
Qed.
