(* C12 — Idle HTTP connections time out after the configured tymeout.
   Statements only; proofs are in Proofs/IdleProofs.v.  The model (Model/Idle.v)
   is of the code after the fix commits: D13 (the server's tymeout reaches the
   Remoter), Remoter.refresh restarting the tymer from the current tyme, and
   RemoterTls refreshing on traffic like Remoter.  Virtual tyme is Z; a schedule
   is the list of (tyme, client action, bytes the kernel accepts from a send)
   of the Server.service() passes after the connection was accepted at tyme t0
   by a server with tymeout T; R is the size of a response.

   "Traffic" means bytes that actually moved.  The ghost field [last] is the
   tyme of the latest pass in which bytes moved (C12_last_spec): something was
   received, or output was pending and the kernel took some of it.  A send
   attempt that the kernel refuses (would block) is not traffic. *)
From Hio Require Import Base.Prelude Model.Idle Proofs.IdleProofs.
Local Open Scope Z_scope.

(* what [last] is: the accept tyme at first, then the tyme of every pass in which bytes moved and of
   every wind (Server.wind restarts the tymers at the new tymist's tyme; idleness is measured on the
   time base in force, later pass tymes are on that base) *)
Theorem C12_last_spec : forall T t0 R p c,
  last (accept T t0) = t0 /\
  (closed (pass R p c) = false ->
   last (pass R p c) = if moved R p c || is_wind (snd (fst p)) then fst (fst p) else last c).
Proof. intros. split; [reflexivity|apply last_pass_open]. Qed.
Print Assumptions C12_last_spec.

(* A connection that never had a persistent request and on which no byte has
   moved since tyme u = last c is closed by any service pass at a tyme >= u + T:
   in particular by the first one.  For every tymeout T > 0, accept tyme,
   response size, earlier history (including a queued, partly sent response)
   and content of that pass (bytes arriving in that very pass come too late).
   The history may contain winds to other tymists (earlier or later tymes): u
   and the pass tyme are then on the time base of the latest wind. *)
Theorem C12_closes : forall T t0 R sched now a cap,
  0 < T -> no_req sched = true -> is_wind a = false ->
  let c := run R (accept T t0) sched in
  last c + T <= now -> closed (pass R (now, a, cap) c) = true.
Proof. exact closes. Qed.
Print Assumptions C12_closes.

(* ... and it remains closed whatever follows *)
Theorem C12_closes_for_good : forall T t0 R sched now a cap rest,
  0 < T -> no_req sched = true -> is_wind a = false ->
  last (run R (accept T t0) sched) + T <= now ->
  closed (run R (accept T t0) (sched ++ (now, a, cap) :: rest)) = true.
Proof. exact closes_for_good. Qed.
Print Assumptions C12_closes_for_good.

(* Pending output and only blocked send attempts since u: after any history and
   then any number of passes in which the client is silent and the kernel
   accepts nothing from the send attempts, the pass at tyme >= u + T closes the
   connection; the blocked attempts did not change the deadline reference (nor
   does an app that produces its response, or empty results, meanwhile). *)
Theorem C12_closes_blocked : forall T t0 R sched quiet now a cap,
  0 < T -> no_req sched = true -> forallb blocked quiet = true -> is_wind a = false ->
  let c := run R (accept T t0) sched in
  last c + T <= now ->
  closed (pass R (now, a, cap) (run R c quiet)) = true /\
  (closed (run R c quiet) = false -> last (run R c quiet) = last c).
Proof. exact closes_blocked. Qed.
Print Assumptions C12_closes_blocked.

(* The timeout decision does not depend on a response being in progress: for an open connection
   whose tymer has expired, a service pass closes it as timed out whatever the Responder state
   (not ended, empty results still to come, bytes pending); and when the tymer has not expired (or
   the tymeout is <= 0) no response state makes the pass time it out.  [C12_closes] already covers
   reachable states with a deferred or never finishing app (ReqDefer is allowed in its history). *)
Theorem C12_expiry_ignores_response : forall R now a cap c b w n,
  is_wind a = false -> closed c = false -> 0 < tmo c -> sp c <= now ->
  pass R (now, a, cap) (set_resp b w (set_pend n c)) = close true (set_resp b w (set_pend n c)).
Proof. exact expiry_ignores_response. Qed.
Print Assumptions C12_expiry_ignores_response.

Theorem C12_no_expiry_ignores_response : forall R now a cap c b w n,
  closed c = false -> (0 <? tmo c) && expired now c = false ->
  timedout c = false -> timedout (pass R (now, a, cap) (set_resp b w (set_pend n c))) = false.
Proof. exact no_expiry_ignores_response. Qed.
Print Assumptions C12_no_expiry_ignores_response.

(* A connection for which every service pass (while it is open) comes less than T
   after the latest pass in which bytes moved is never closed for idleness, at
   any point of the schedule (it may be closed because its non-persistent
   response is completely out). *)
Theorem C12_safe : forall T t0 R s1 s2,
  busy R T (accept T t0) (s1 ++ s2) -> timedout (run R (accept T t0) s1) = false.
Proof. exact safe_always. Qed.
Print Assumptions C12_safe.

(* The same with the property's wording: pass tymes do not go backwards (a wind
   starts a new time base) and for every pass there is a receive (or the accept,
   or the latest wind) on the time base in force less than T before it, i.e.
   there is traffic in every tymeout window. *)
Theorem C12_safe_windows : forall T t0 R sched,
  sorted_from t0 sched -> windowed T [t0] sched -> timedout (run R (accept T t0) sched) = false.
Proof. exact safe_windows. Qed.
Print Assumptions C12_safe_windows.

(* Persistent connections (a completed keep-alive request zeroes the Remoter's
   tymeout) and servers with tymeout <= 0 never time a connection out. *)
Theorem C12_persistent : forall T t0 R s1 s2,
  let c := run R (accept T t0) s1 in
  persisted c = true -> timedout c = false -> timedout (run R (accept T t0) (s1 ++ s2)) = false.
Proof. exact persistent_never. Qed.
Print Assumptions C12_persistent.

Theorem C12_disabled : forall T t0 R sched, T <= 0 -> timedout (run R (accept T t0) sched) = false.
Proof. exact disabled. Qed.
Print Assumptions C12_disabled.

(* Non-vacuity: T = 5, accepted at 0; a burst of 3 chunks at 1, one chunk at 4;
   still open at 8 (4 + 5 > 8), closed by the pass at 9. *)
Example C12_closes_example :
  let sched := [(0, Quiet, 0%N); (1, Rx 3, 0%N); (4, Rx 1, 0%N); (8, Quiet, 0%N)] in
  no_req sched = true /\ last (run 225 (accept 5 0) sched) = 4 /\
  closed (run 225 (accept 5 0) sched) = false /\
  closed (pass 225 (9, Rx 2, 0%N) (run 225 (accept 5 0) sched)) = true.
Proof. vm_compute. repeat split. Qed.

(* T = 5: a non-persistent request at 0 queues 225 bytes; the reader takes 40 at 0 and 7 at 2,
   then stalls; the blocked attempts at 4 and 6 do not count, the pass at 7 = 2 + 5 closes it
   with 178 bytes still pending. *)
Example C12_blocked_example :
  let sched := [(0, ReqClose 1, 40%N); (2, Quiet, 7%N)] in
  let quiet := [(4, Quiet, 0%N); (6, Quiet, 0%N)] in
  let c := run 225 (accept 5 0) sched in
  no_req sched = true /\ forallb blocked quiet = true /\ last c = 2 /\ pend c = 178%N /\
  closed (run 225 c quiet) = false /\ pend (run 225 c quiet) = 178%N /\
  closed (pass 225 (7, Quiet, 1000%N) (run 225 c quiet)) = true /\
  timedout (pass 225 (7, Quiet, 1000%N) (run 225 c quiet)) = true.
Proof. vm_compute. repeat split. Qed.

(* a slow but steady reader is never timed out; the connection is closed when the response is out *)
Example C12_safe_example :
  let sched := [(0, ReqClose 2, 100%N); (3, Quiet, 100%N); (6, Quiet, 100%N); (9, Quiet, 100%N)] in
  busy 225 4 (accept 4 0) sched /\
  closed (run 225 (accept 4 0) sched) = true /\ timedout (run 225 (accept 4 0) sched) = false.
Proof. vm_compute. repeat split; intros; reflexivity || discriminate. Qed.

(* across winds: accepted at 50 on one tymist, wound at once to a tymist at 0 (T = 5): still open at 4,
   closed at 5; a busy connection wound from 3 to 100 survives the passes at 103, 104 and is closed
   at 108 = 103 + 5. *)
Example C12_wind_example :
  let early := [(50, Quiet, 0%N); (0, Rewind, 0%N); (4, Quiet, 0%N)] in
  let late := [(0, Rx 1, 0%N); (3, Rx 1, 0%N); (100, Rewind, 0%N); (103, Rx 1, 0%N); (104, Quiet, 0%N)] in
  no_req early = true /\ last (run 225 (accept 5 50) early) = 0 /\
  closed (run 225 (accept 5 50) early) = false /\
  closed (pass 225 (5, Quiet, 0%N) (run 225 (accept 5 50) early)) = true /\
  busy 225 5 (accept 5 0) late /\ closed (run 225 (accept 5 0) late) = false /\
  closed (pass 225 (108, Quiet, 0%N) (run 225 (accept 5 0) late)) = true.
Proof. vm_compute. repeat split; intros; reflexivity || discriminate. Qed.

(* T = 3: a non-persistent request at 0 to an app that never finishes (empty results for ever): no byte
   moves after 0, the Responder is still in progress at 2, the pass at 3 closes the connection; an app
   that answers after 2 empty results to a reader that takes everything is closed when done, not timed out. *)
Example C12_deferred_example :
  let never := [(0, ReqDefer 1 1000000, 1000%N); (1, Quiet, 1000%N); (2, Quiet, 1000%N)] in
  let later := [(0, ReqDefer 1 2, 1000%N); (1, Quiet, 1000%N); (2, Quiet, 1000%N); (3, Quiet, 1000%N)] in
  no_req never = true /\ last (run 225 (accept 3 0) never) = 0 /\
  closed (run 225 (accept 3 0) never) = false /\ inprog (run 225 (accept 3 0) never) = true /\
  timedout (pass 225 (3, Quiet, 1000%N) (run 225 (accept 3 0) never)) = true /\
  closed (run 225 (accept 3 0) later) = true /\ timedout (run 225 (accept 3 0) later) = false.
Proof. vm_compute. repeat split. Qed.

Example C12_windows_example :
  let sched := [(0, Rx 1, 0%N); (3, Rx 1, 0%N); (6, Rx 2, 0%N); (9, Quiet, 0%N); (9, Rx 1, 0%N); (12, Quiet, 0%N)] in
  sorted_from 0 sched /\ windowed 4 [0] sched /\ closed (run 0 (accept 4 0) sched) = false.
Proof.
  cbn [sorted_from windowed has_traffic is_wind N.ltb N.compare fst snd]. repeat split; try lia.
  - exists 0. split; [now left|lia].
  - exists 0. split; [now left|lia].
  - exists 3. split; [now left|lia].
  - exists 6. split; [now left|lia].
  - exists 6. split; [now left|lia].
  - exists 9. split; [now left|lia].
Qed.
