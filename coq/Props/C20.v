(* C20 — Memos survive segmentation into grams and any delivery order.
   Statements only; proofs in Proofs/MemoFuseProofs.v and Proofs/MemoCodecProofs.v.
   Models: Model/MemoGram.v (rend, pick) and Model/MemoRx.v (store, fuse,
   delivery), of the code after the two rend/size repairs found here.

   FULL STATEMENT (not provable, the code violates it in two design-level ways,
   see the _refuted theorems): for memos with distinct ids, every sequence of
   their grams covering all of them, in any order with duplicates and
   interleaving, and any placement of service calls, ends with each memo exactly
   once in the inbox with its text, source and signer, and an incomplete memo is
   never delivered.

   What is proved instead:
   - C20_codec_b64 / C20_codec_b2 : pick (gram produced by rend's gram_of for code c,
     number n, body b) returns exactly (mid, vid, n, count, b), for the four zero codes
     and their non-zeroth codes, Base64 and base2 (curt) heads, signed and unsigned
     (sign/verify premises explicit);
   - C20_rend_partition : rend's gram bodies partition the memo in order, gram numbers
     are 1,2,.. and the count in the zeroth gram is the number of grams;
   - C20_storage_partial .. C20_delivery_partial : for EVERY sequence of accepted
     grams (any order, duplication, interleaving of any number of memos) fed before a
     fuse pass: the receive state records per memo id the first body per gram number,
     the first count, vid and source; a memo whose grams 0..k-1 are all present is
     fused to the concatenation in gram order, once (one entry per memo id, removed
     on delivery); a memo with a gram missing is never fused and stays.
   - C20_reassembly_partial : the composition at datagram level (all grams of any number
     of memos, any schedule, then one service), and C20_rend_is_grams tying rend to it.
   The hypotheses that exclude the refuted classes: grams are "accepted" (for a
   signed non-zeroth gram this needs its zeroth gram earlier), and no copy of a
   memo's grams arrives after the pass that delivered it. *)
From Hio Require Import Base.Prelude Model.B64 Model.MemoGram Model.MemoRx
  Proofs.MemoRxProofs Proofs.MemoFuseProofs Proofs.MemoCodecProofs Proofs.MemoCodecB2Proofs Proofs.MemoRendProofs Proofs.MemoComposeProofs Proofs.MemoSignerProofs.
Local Open Scope N_scope.

(* ---- storage: any order / duplication / interleaving ---- *)
Theorem C20_storage_partial : forall l mid,
  match find_entry mid (feed [] l) with
  | Some e => entry_matches e l mid
  | None => first_pick l mid = None
  end.
Proof. exact feed_spec. Qed.
Print Assumptions C20_storage_partial.

(* ---- a complete memo is fused to exactly its text, in gram order ---- *)
Theorem C20_complete_fused_partial : forall l mid bodies e,
  find_entry mid (feed [] l) = Some e ->
  (forall j, (j < length bodies)%nat -> first_body l mid (N.of_nat j) = Some (nth j bodies [])) ->
  first_count l mid = Some (N.of_nat (length bodies)) ->
  utf8_ok (concat bodies) = true ->
  exists p s, first_pick l mid = Some (p, s) /\
              deliverable e = [(concat bodies, s, p_vid p)].
Proof.
  intros l mid bodies e F B C U. pose proof (feed_spec l mid) as S. rewrite F in S.
  destruct S as (_ & G & Cn & (p & s & P & V & Sr) & ND). exists p, s. split; [exact P|].
  unfold deliverable. rewrite Cn, C, fuse_complete, U; [rewrite V, Sr; reflexivity|exact ND|].
  intros j Hj. rewrite G. apply B. exact Hj.
Qed.
Print Assumptions C20_complete_fused_partial.

(* ---- a memo missing any gram below its count is never delivered ---- *)
Theorem C20_incomplete_never_delivered : forall l mid e j cnt,
  find_entry mid (feed [] l) = Some e ->
  first_count l mid = Some cnt -> j < cnt -> first_body l mid j = None ->
  deliverable e = [].
Proof.
  intros l mid e j cnt F C Hj B. pose proof (feed_spec l mid) as S. rewrite F in S.
  destruct S as (_ & G & Cn & _). unfold deliverable. rewrite Cn, C.
  rewrite (fuse_incomplete (e_grams e) cnt j Hj); [reflexivity|]. rewrite G. exact B.
Qed.
Print Assumptions C20_incomplete_never_delivered.

(* ... nor one whose zeroth gram (the count) has not arrived *)
Theorem C20_no_count_never_delivered : forall l mid e,
  find_entry mid (feed [] l) = Some e -> first_count l mid = None -> deliverable e = [].
Proof.
  intros l mid e F C. pose proof (feed_spec l mid) as S. rewrite F in S.
  destruct S as (_ & _ & Cn & _). unfold deliverable. rewrite Cn, C. reflexivity.
Qed.
Print Assumptions C20_no_count_never_delivered.

(* ---- one fuse pass delivers exactly the fusable entries, each once, and removes them ---- *)
Theorem C20_delivery_partial : forall es,
  snd (rx_grams es) = flat_map deliverable es /\
  forall e, In e (fst (rx_grams es)) <->
            In e es /\ (e_count e = None \/ exists c, e_count e = Some c /\ fuse (e_grams e) c = Ok None).
Proof. intros es. split; [apply rx_grams_delivers|apply rx_grams_keeps]. Qed.
Print Assumptions C20_delivery_partial.

(* ---- segmentation: rend's bodies partition the memo, numbers and count are right ---- *)
(* For every non-empty memo, every code/encoding and every size for which rend
   succeeds: the result is the zeroth gram carrying the first zbz bytes and the
   count, followed by grams numbered 1, 2, ... carrying the consecutive nbz-byte
   pieces (none empty); the bodies concatenate to the memo; the announced count
   max(1, ceil((ml+nbz-zbz)/nbz)) equals the number of grams. *)
Theorem C20_rend_partition : forall sign p memo grams,
  rend sign p memo = Ok grams -> memo <> [] ->
  let rest := chunks (length memo) (nbz p) 1 (skipn (zbz p) memo) in
  (0 < nbz p)%nat /\
  grams = gram_of sign p (r_code p) (N.of_nat (S (length rest))) (Nat.ltb 0 (vz (r_code p))) (firstn (zbz p) memo)
          :: map (fun x => gram_of sign p (pair_of (r_code p)) (fst x) false (snd x)) rest /\
  firstn (zbz p) memo ++ concat (map snd rest) = memo /\
  map fst rest = map (fun i => 1 + N.of_nat i) (seq 0 (length rest)) /\
  Forall (fun x => snd x <> []) rest.
Proof. exact rend_partition. Qed.
Print Assumptions C20_rend_partition.

(* ---- the gram size invariant of the configuration setters ---- *)
(* For EVERY construction (code, curt, requested size) and EVERY later sequence
   of .code / .curt / .size setter calls (each re-clamps .size for the
   configuration it has just established), the size in force exceeds both the
   zeroth overhead (reduced by 3/4 when curt) and the non-zeroth overhead of the
   CURRENT (curt, code), so rend's zeroth and non-zeroth body sizes are >= 1. *)
Theorem C20_size_invariant : forall c curt n h mid vid,
  let f := cfg_run c curt n h in
  let p := {| r_code := f_code f; r_curt := f_curt f; r_size := f_size f; r_mid := mid; r_vid := vid |} in
  (S (zoz p) <= r_size p)%nat /\ (S (noz p) <= r_size p)%nat /\ (1 <= zbz p)%nat /\ (1 <= nbz p)%nat.
Proof.
  intros c curt n h mid vid f p. destruct (cfg_run_good c curt n h) as [A B].
  destruct (cfg_bodies_positive c curt n h mid vid) as [C D]. repeat split; assumption.
Qed.
Print Assumptions C20_size_invariant.

Example C20_size_example :
  (* base2 signed at its minimum 124, then back to Base64 heads: re-clamped to 165 *)
  f_size (cfg_run AZ true 6 [SetCurt false]) = 165%nat /\
  f_size (cfg_run AZ true 6 []) = 124%nat /\
  f_size (cfg_run GZ true 6 [SetCode SAZ; SetSize 1; SetCurt false; SetCode GZ]) = 165%nat.
Proof. vm_compute. repeat split. Qed.

(* ---- codec round trip ---- *)
Theorem C20_codec_b64 : forall verify sign authic vids c n mid vid body,
  (auth c = true -> codec_premises verify sign vid) ->
  kind_of c <> KAck -> (authic = true -> auth c = true) ->
  n < 16777216 -> length mid = 24%nat -> is_b64 mid = true ->
  (auth c = true -> length vid = 44%nat /\ is_b64 vid = true) ->
  (kind_of c = KGram -> vids mid = (if auth c then vid else vids mid)) ->
  let p := {| r_code := c; r_curt := false; r_size := 0; r_mid := mid; r_vid := vid |} in
  pick verify authic vids (gram_of sign p c n (Nat.ltb 0 (vz c)) body) =
  Ok {| p_mid := mid;
        p_vid := (match kind_of c with
                  | KZero => if Nat.ltb 0 (vz c) then Some vid else None
                  | _ => vid_opt (vids mid) end);
        p_gn := (match kind_of c with KZero => 0 | _ => n end);
        p_gc := (match kind_of c with KZero => Some n | _ => None end);
        p_body := body |}.
Proof. exact codec_b64. Qed.
Print Assumptions C20_codec_b64.

Theorem C20_codec_b2 : forall verify sign authic vids c n mid vid body,
  (auth c = true -> codec_premises verify sign vid) ->
  kind_of c <> KAck -> (authic = true -> auth c = true) ->
  n < 16777216 -> length mid = 24%nat -> is_b64 mid = true ->
  (auth c = true -> length vid = 44%nat /\ is_b64 vid = true) ->
  (kind_of c = KGram -> vids mid = (if auth c then vid else vids mid)) ->
  let p := {| r_code := c; r_curt := true; r_size := 0; r_mid := mid; r_vid := vid |} in
  pick verify authic vids (gram_of sign p c n (Nat.ltb 0 (vz c)) body) =
  Ok {| p_mid := mid;
        p_vid := (match kind_of c with
                  | KZero => if Nat.ltb 0 (vz c) then Some vid else None
                  | _ => vid_opt (vids mid) end);
        p_gn := (match kind_of c with KZero => 0 | _ => n end);
        p_gc := (match kind_of c with KZero => Some n | _ => None end);
        p_body := body |}.
Proof. exact codec_b2. Qed.
Print Assumptions C20_codec_b2.

(* the premises of the codec theorems are satisfiable: a toy scheme whose
   signature is 88 'A's *)
Example C20_codec_example :
  let sign := fun (_ _ : bytes) => repeat 65 88 in
  let verify := fun (v s m : bytes) => if bytes_eqb s (repeat 65 88) then Ok tt else @Exc unit MemoErr in
  let vid := 66 :: repeat 120 43 in
  codec_premises verify sign vid /\
  forall curt, pick verify true (fun _ => vid)
       (gram_of sign {| r_code := AZ; r_curt := curt; r_size := 0; r_mid := repeat 77 24; r_vid := vid |}
                AN 5 false [104;105]) =
     Ok {| p_mid := repeat 77 24; p_vid := Some vid; p_gn := 5; p_gc := None; p_body := [104;105] |}.
Proof. split; [intros m; repeat split|intros []; vm_compute; reflexivity]. Qed.

(* ---- composition: from the sender's grams to the receiver's inbox ---- *)
(* ms : the memos as segmented (parameters, source, gram bodies; rend produces
   exactly [gram sign m 0; gram sign m 1; ..], C20_rend_is_grams).  s : ANY
   schedule of (memo index, gram index) pairs: any order, duplicates,
   interleaving of the memos, grams withheld.  All datagrams of the schedule
   arrive and the receiver is serviced once.  Premises = the two exclusions of
   the refuted classes: [ordered] (a signed memo's non-zeroth grams come after a
   copy of its zeroth gram) and service after the arrivals.  Then: no exception;
   every datagram is accepted; the inbox is exactly the fusable rx entries, one
   entry per memo id; a memo all of whose grams are in s is delivered with its
   text, source and signer id; a memo with a gram missing from s is not. *)
Theorem C20_reassembly_partial : forall verify sign authic ms,
  (forall j m, nth_error ms j = Some m -> msg_ok verify sign authic m) ->
  (forall j j' m m', nth_error ms j = Some m -> nth_error ms j' = Some m' -> g_mid m = g_mid m' -> j = j') ->
  forall s, Forall (valid ms) s -> ordered ms [] s ->
  let l := map (pick_of ms) s in
  let r := run verify authic init (ops_of sign ms s) in
  Forall (fun x => x = None) (snd r) /\
  rxms (fst r) = [] /\ queue (fst r) = [] /\
  inbox (fst r) = flat_map deliverable (feed [] l) /\
  NoDup (map e_mid (feed [] l)) /\
  (forall j m, nth_error ms j = Some m -> g_bodies m <> [] ->
     (forall i, (i < length (g_bodies m))%nat -> In (j, i) s) ->
     utf8_ok (concat (g_bodies m)) = true ->
     exists e, find_entry (g_mid m) (feed [] l) = Some e /\
               deliverable e = [(concat (g_bodies m), g_src m, g_vidopt m)]) /\
  (forall j m i e, nth_error ms j = Some m -> (i < length (g_bodies m))%nat -> ~ In (j, i) s ->
     find_entry (g_mid m) (feed [] l) = Some e -> deliverable e = []).
Proof.
  intros verify sign authic ms Hok Hd s Hv Ho l r.
  unfold r. rewrite (run_sched verify sign authic ms Hok Hd s Hv Ho). cbn [fst snd rxms queue inbox].
  split.
  { apply Forall_app. split; [|repeat constructor]. apply Forall_forall. intros x Hx.
    apply in_map_iff in Hx. destruct Hx as (y & <- & _). reflexivity. }
  split; [reflexivity|]. split; [reflexivity|]. split; [reflexivity|]. split; [apply feed_nodup|]. split.
  - intros j m Hm Hne Hall U. eapply complete_delivered; eauto.
  - intros j m i e Hm Hi Hn Fe. eapply incomplete_not_delivered; eauto.
Qed.
Print Assumptions C20_reassembly_partial.

(* rend's output is that gram list, and its bodies concatenate to the memo *)
Theorem C20_rend_is_grams : forall sign p src memo grams,
  rend sign p memo = Ok grams -> memo <> [] ->
  let m := msg_of p src memo in
  grams = map (gram sign m) (seq 0 (length (g_bodies m))) /\ concat (g_bodies m) = memo /\ g_bodies m <> [].
Proof. exact rend_is_grams. Qed.
Print Assumptions C20_rend_is_grams.

(* Non-vacuity: a signed memo of 3 grams (base2 heads) and an unsigned one of 2
   grams (Base64 heads), interleaved, with duplicates, zeroth first for the
   signed one; both delivered exactly once.  Premises hold for the toy scheme. *)
Definition ex_sign (_ _ : bytes) : bytes := repeat 65 88.
Definition ex_verify (v s m : bytes) : res unit :=
  match v with [] => Exc MemoErr | _ => if bytes_eqb s (repeat 65 88) then Ok tt else Exc MemoErr end.
Definition ex_ms : list msg :=
  [ {| g_p := {| r_code := AZ; r_curt := true; r_size := 0; r_mid := repeat 77 24; r_vid := 66 :: repeat 120 43 |};
       g_src := 1; g_bodies := [[104]; [105; 33]; [63]] |};
    {| g_p := {| r_code := GZ; r_curt := false; r_size := 0; r_mid := repeat 78 24; r_vid := [] |};
       g_src := 2; g_bodies := [[97; 98]; [99]] |} ].
Example C20_reassembly_example :
  let s := [(0, 0); (1, 1); (0, 2); (0, 2); (1, 0); (0, 1); (0, 0); (1, 1)]%nat in
  (forall j m, nth_error ex_ms j = Some m -> msg_ok ex_verify ex_sign false m) /\
  ordered ex_ms [] s /\ Forall (valid ex_ms) s /\
  inbox (fst (run ex_verify false init (ops_of ex_sign ex_ms s))) =
    [([104; 105; 33; 63], 1, Some (66 :: repeat 120 43)); ([97; 98; 99], 2, None)].
Proof.
  split.
  { intros [|[|j]] m H; cbn in H; inversion H; subst; clear H.
    - repeat split; try reflexivity; try (intros; discriminate).
    - repeat split; try reflexivity; try (intros; discriminate).
    - destruct j; discriminate. }
  split.
  { cbn. repeat split; intros m H; inversion H; subst; cbn; intros; try discriminate; try contradiction; auto 10. }
  split.
  { repeat constructor; eexists; split; cbn; try reflexivity; cbn; lia. }
  vm_compute. reflexivity.
Qed.

(* ---- refutations of the full statement (faithful model, concrete witnesses) ---- *)
Definition toy_verify (v s m : bytes) : res unit :=
  match v with
  | [] => Exc MemoErr
  | _ => if bytes_eqb s (repeat 65 88) then Ok tt else Exc MemoErr
  end.
Definition ex_mid : bytes := repeat 77 24.
Definition ex_vid : bytes := 66 :: repeat 120 43.
Definition ex_sig : bytes := repeat 65 88.
Definition sg0 : bytes := [98;65;65;67; 65;65;65;67] ++ ex_mid ++ ex_vid ++ [104;105] ++ ex_sig.  (* zeroth of 2 *)
Definition sg1 : bytes := [98;65;65;68; 65;65;65;66] ++ ex_mid ++ [33] ++ ex_sig.                (* gram 1 *)
Definition ug0 : bytes := [98;65;65;65; 65;65;65;66] ++ ex_mid ++ [104;105].                     (* single gram memo *)

(* ---- the receiver's own configuration does not matter ---- *)
(* .code / .curt / .size of a Memoer are its TRANSMIT settings (used by rend).
   The receive side of the model has no access to them at all: pick, store,
   fuse take no such argument, and setting them at any point of any run changes
   nothing of the receive state (what may matter on receive is authic and keep). *)
Theorem C20_receiver_config_irrelevant : forall verify authic ops s,
  fst (run verify authic s ops) = fst (run verify authic s (filter not_rxset ops)).
Proof. exact rxset_irrelevant. Qed.
Print Assumptions C20_receiver_config_irrelevant.

Example C20_receiver_config_example :
  inbox (fst (run toy_verify false init [RxSet (SetSize 1); Dgram ug0 1; RxSet (SetCurt true); SvcAllRx])) =
  [([104;105], 1, None)].
Proof. vm_compute. reflexivity. Qed.

(* ---- the signer id of a delivered memo ---- *)
(* For ANY receiver (authic or not), any datagrams and any service pattern: a
   memo is delivered with signer id Some v only if some received datagram
   carried a signed part whose signature verified for v (the zeroth gram of a
   signed memo).  In particular a memo of unsigned grams is delivered with
   signer id None whatever the arrival order; the receiver's own vid is not an
   input of the receive side at all.  (With C20_reassembly_partial: the id is
   exactly the sender's for a signed memo, None for an unsigned one.) *)
Theorem C20_signer_is_verified : forall verify authic ops text src v,
  let s := fst (run verify authic init ops) in
  In (text, src, Some v) (rxms s ++ inbox s) ->
  exists b d, In d (dgrams ops) /\ signed_ok verify v b d.
Proof.
  intros verify authic ops text src v s Hin.
  assert (I0 : sinv verify (dgrams ops) init) by (repeat split; try constructor; intros ? ? []).
  pose proof (run_sinv verify authic (dgrams ops) ops init (incl_refl _) I0) as (_ & _ & Im & Ii).
  fold s in Im, Ii. apply in_app_or in Hin. destruct Hin as [Hin|Hin].
  - eapply Forall_forall in Im; eauto. apply (Im v). reflexivity.
  - eapply Forall_forall in Ii; eauto. apply (Ii v). reflexivity.
Qed.
Print Assumptions C20_signer_is_verified.

Example C20_signer_example :
  (* unsigned two-gram memo, non-zeroth gram first: signer id None *)
  let g0 := [98;65;65;65; 65;65;65;67] ++ ex_mid ++ [104] in
  let g1 := [98;65;65;66; 65;65;65;66] ++ ex_mid ++ [105] in
  inbox (fst (run toy_verify false init [Dgram g1 1; Dgram g0 1; SvcAllRx])) = [([104;105], 1, None)].
Proof. vm_compute. reflexivity. Qed.

(* D23a: both grams of a signed memo arrive, the non-zeroth one first: it is
   dropped for good (no vid to verify against yet) and the memo is never
   delivered, however often the receiver is serviced afterwards. *)
Theorem C20_signed_out_of_order_refuted :
  exists ops, ops = [Dgram sg1 1; Dgram sg0 1; SvcAllRx; SvcAllRx] /\
  let (s, xs) := run toy_verify true init ops in
  inbox s = [] /\ rxms s = [] /\ map e_grams (rxgs s) = [[(0, [104;105])]] /\
  (* ... whereas in send order it is delivered *)
  inbox (fst (run toy_verify true init [Dgram sg0 1; Dgram sg1 1; SvcAllRx])) = [([104;105;33], 1, Some ex_vid)].
Proof. eexists; split; [reflexivity|]. vm_compute. repeat split. Qed.
Print Assumptions C20_signed_out_of_order_refuted.

(* D23b: a duplicate that arrives after its memo was completed and delivered
   starts the memo again: a single-gram memo is delivered twice. *)
Theorem C20_duplicate_after_completion_refuted :
  exists ops, ops = [Dgram ug0 1; SvcAllRx; Dgram ug0 1; SvcAllRx] /\
  inbox (fst (run toy_verify false init ops)) = [([104;105], 1, None); ([104;105], 1, None)].
Proof. eexists; split; [reflexivity|]. vm_compute. reflexivity. Qed.
Print Assumptions C20_duplicate_after_completion_refuted.

(* Non-vacuity of the positive theorems: three grams of one memo and one gram
   of another, shuffled with a duplicate; the first is fused in gram order. *)
Example C20_example :
  let pk m gn gc b := ({| p_mid := m; p_vid := None; p_gn := gn; p_gc := gc; p_body := b |}, 7) in
  let l := [pk [1] 2 None [99]; pk [2] 1 None [120]; pk [1] 0 (Some 3) [97]; pk [1] 2 None [0]; pk [1] 1 None [98]] in
  flat_map deliverable (feed [] l) = [([97;98;99], 7, None)] /\
  map e_mid (fst (rx_grams (feed [] l))) = [[2]].
Proof. vm_compute. split; reflexivity. Qed.
