(* Incremental HTTP message parsers: hio.core.http.httping.Parsent.parseMessage
   with serving.Requestant (requests) and clienting.Respondent (responses)
   parseHead/parseBody/checkPersisted, as one stage machine, plus the message
   loop (makeParser after .ended) and connection close as a final event.

   Outside the model (pure functions of the parsed head, no incremental
   state): urlsplit/unquote of the request target, content-type handling
   (jsoned, encoding, evented: responses are assumed not to be event streams
   here, see Model/Sse.v), redirectant.  No proofs here. *)
From Hio Require Import Base.Prelude Model.HttpLine Model.Chunk.

(* ----------------------------------------------------------- text helpers *)
(* str.isspace() on iso-8859-1 text; used by str.split() and int() *)
Definition ws_l1 (x : N) : bool :=
  (N.leb 9 x && N.leb x 13) || (N.leb 28 x && N.leb x 32) || N.eqb x 133 || N.eqb x 160.
(* the blanks int() strips (it does not strip 0x1c-0x1f) *)
Definition ws_int (x : N) : bool :=
  (N.leb 9 x && N.leb x 13) || N.eqb x 32 || N.eqb x 133 || N.eqb x 160.
Definition is_digit (x : N) : bool := N.leb 48 x && N.leb x 57.

(* str.split() *)
Fixpoint split_ws_aux (l : bytes) (cur : bytes) : list bytes :=
  match l with
  | [] => if is_nil cur then [] else [frev cur]
  | x :: l' =>
    if ws_l1 x then (if is_nil cur then split_ws_aux l' [] else frev cur :: split_ws_aux l' [])
    else split_ws_aux l' (x :: cur)
  end.
Definition split_ws (l : bytes) : list bytes := split_ws_aux l [].

(* int(str): optional blanks, optional sign, decimal digits with single
   underscores between digits *)
Fixpoint digits_us (l : bytes) (prev_digit : bool) (acc : N) : option N :=
  match l with
  | [] => if prev_digit then Some acc else None
  | x :: l' =>
    if is_digit x then digits_us l' true (10 * acc + (x - 48))
    else if N.eqb x 95 && prev_digit then digits_us l' false acc
    else None
  end.
Definition py_int (l : bytes) : option Z :=
  match strip ws_int l with
  | 43 :: r => option_map Z.of_N (digits_us r false 0)
  | 45 :: r => option_map (fun n => Z.opp (Z.of_N n)) (digits_us r false 0)
  | s => option_map Z.of_N (digits_us s false 0)
  end%N.

Definition join_sp (ws : list bytes) : bytes :=
  match ws with
  | [] => []
  | w :: ws' => w ++ concat (map (fun v => 32%N :: v) ws')
  end.

Definition ascii (l : list Byte.byte) : bytes := of_bytes l.
Import Init.Byte.
Definition s_http_slash := ascii [x48;x54;x54;x50;x2f].                  (* "HTTP/" *)
Definition s_http_1dot := ascii [x48;x54;x54;x50;x2f;x31;x2e].           (* "HTTP/1." *)
Definition s_http_10 := ascii [x48;x54;x54;x50;x2f;x31;x2e;x30].         (* "HTTP/1.0" *)
Definition s_http_09 := ascii [x48;x54;x54;x50;x2f;x30;x2e;x39].         (* "HTTP/0.9" *)
Definition s_chunked := ascii [x63;x68;x75;x6e;x6b;x65;x64].
Definition s_close := ascii [x63;x6c;x6f;x73;x65].
Definition s_keep_alive := ascii [x6b;x65;x65;x70;x2d;x61;x6c;x69;x76;x65].
Definition s_te := ascii [x74;x72;x61;x6e;x73;x66;x65;x72;x2d;x65;x6e;x63;x6f;x64;x69;x6e;x67].
Definition s_cl := ascii [x63;x6f;x6e;x74;x65;x6e;x74;x2d;x6c;x65;x6e;x67;x74;x68].
Definition s_connection := ascii [x63;x6f;x6e;x6e;x65;x63;x74;x69;x6f;x6e].
Definition s_proxy_connection := ascii [x70;x72;x6f;x78;x79;x2d;x63;x6f;x6e;x6e;x65;x63;x74;x69;x6f;x6e].
Definition methods : list bytes :=
  [ ascii [x47;x45;x54]; ascii [x48;x45;x41;x44]; ascii [x50;x55;x54]; ascii [x50;x41;x54;x43;x48];
    ascii [x50;x4f;x53;x54]; ascii [x44;x45;x4c;x45;x54;x45]; ascii [x4f;x50;x54;x49;x4f;x4e;x53];
    ascii [x54;x52;x41;x43;x45]; ascii [x43;x4f;x4e;x4e;x45;x43;x54] ].

(* ------------------------------------------------------------ start lines *)
Inductive kind :=
| Req                    (* serving.Requestant *)
| Resp (head : bool).    (* clienting.Respondent(method=HEAD?) *)

Record startline := {
  sl_method : bytes; sl_url : bytes;      (* request *)
  sl_status : N; sl_reason : bytes;       (* response *)
  sl_v11 : bool                           (* .version == (1, 1) else (1, 0) *)
}.

(* httping.parseRequestLine + the version tests of Requestant.parseHead.
   Every failure is an HTTPException (BadRequestLine, UnknownProtocol, BadMethod). *)
Definition parse_request_line (line : bytes) : res startline :=
  if is_nil line then Exc HTTPExc else
  let ws := split_ws line in
  let method := nth 0 ws [] in
  let path := nth 1 ws [] in
  let version := nth 2 ws [] in
  if negb (prefixb s_http_slash version) then Exc HTTPExc
  else if negb (existsb (bytes_eqb method) methods) then Exc HTTPExc
  else if negb (prefixb s_http_1dot version) then Exc HTTPExc
  else Ok {| sl_method := method; sl_url := path; sl_status := 0; sl_reason := [];
             sl_v11 := negb (prefixb s_http_10 version) |}.

(* httping.parseStatusLine + the version tests of Respondent.parseHead *)
Definition parse_status_line (line : bytes) : res startline :=
  if is_nil line then Exc HTTPExc else
  let ws := split_ws line in
  let version := nth 0 ws [] in
  let status := nth 1 ws [] in
  let reason := join_sp (skipn 2 ws) in
  if negb (prefixb s_http_slash version) then Exc HTTPExc else
  match py_int status with
  | None => Exc HTTPExc
  | Some z =>
    if (Z.ltb z 100 || Z.ltb 999 z)%Z then Exc HTTPExc else
    let st := Z.to_N z in
    if N.eqb st 100 then   (* CONTINUE: version is not looked at *)
      Ok {| sl_method := []; sl_url := []; sl_status := st; sl_reason := reason; sl_v11 := true |}
    else if bytes_eqb version s_http_10 || bytes_eqb version s_http_09 then
      Ok {| sl_method := []; sl_url := []; sl_status := st; sl_reason := reason; sl_v11 := false |}
    else if prefixb s_http_1dot version then
      Ok {| sl_method := []; sl_url := []; sl_status := st; sl_reason := reason; sl_v11 := true |}
    else Exc HTTPExc
  end.

(* --------------------------------------------------- head interpretation *)
Definition truthy (o : option bytes) : option bytes :=
  match o with Some (x :: l) => Some (x :: l) | _ => None end.

Definition te_chunked (h : headers) : bool :=
  match truthy (hget h s_te) with
  | Some v => bytes_eqb (lowerk (strip ws_l1 v)) s_chunked     (* .strip().lower() == "chunked" (2592cf7) *)
  | None => false
  end.

Definition nonneg (z : option Z) : option N :=
  match z with Some z => if Z.ltb z 0 then None else Some (Z.to_N z) | None => None end.

(* .length after parseHead *)
Definition head_length (k : kind) (sl : startline) (h : headers) : option N :=
  let chunked := te_chunked h in
  match k with
  | Req =>
    if chunked then None else
    match truthy (hget h s_cl) with
    | Some v => nonneg (py_int v)
    | None => Some 0%N
    end
  | Resp head =>
    let st := sl_status sl in
    if N.eqb st 204 || N.eqb st 304 || (N.leb 100 st && N.ltb st 200) || head then Some 0%N
    else if chunked then None
    else match truthy (hget h s_cl) with
         | Some v => nonneg (py_int v)
         | None => None
         end
  end.

Definition has_token (tok : bytes) (o : option bytes) : bool :=
  match truthy o with Some v => containsb tok (lowerk v) | None => false end.

(* checkPersisted (responses: .evented is falsy here) *)
Definition head_persisted (k : kind) (sl : startline) (h : headers) (len : option N) : bool :=
  let conn := hget h s_connection in
  let chunked := te_chunked h in
  if sl_v11 sl then
    if has_token s_close conn then false
    else if negb chunked && match len with None => true | Some _ => false end then false
    else true
  else
    match k with
    | Req => has_token s_keep_alive conn
    | Resp _ =>
      match truthy (hget h s_keep_alive) with
      | Some _ => true
      | None => has_token s_keep_alive conn || has_token s_keep_alive (hget h s_proxy_connection)
      end
    end.

(* -------------------------------------------------------------- the machine *)
Record head := {
  hd_start : startline; hd_headers : headers; hd_chunked : bool; hd_persisted : bool
}.

(* chunk parameters and trailers of the message being parsed (before bb92345
   they survived from one message to the next on the same parser object) *)
Record carry := { cy_parms : option parms; cy_trails : option headers }.

(* parser attributes when .ended and not .errored *)
Record msg := {
  g_start : startline; g_headers : headers; g_chunked : bool; g_persisted : bool;
  g_parms : option parms; g_trails : option headers; g_body : bytes
}.

Inductive phase :=
| PStart (cont : bool)                      (* waiting for / inside the start line; cont: after a 100 Continue *)
| PContinue (h : headers)                   (* response: header block of a 100 Continue *)
| PLeader (sl : startline) (h : headers)
| PChunk (hd : head) (cs : cstate) (body : bytes) (p : parms)
| PFixed (hd : head) (n : N)                (* n > 0 bytes still to come *)
| PUntil (hd : head) (rbody : bytes).       (* response body delimited by close (reversed) *)

Record mstate := { m_phase : phase; m_carry : carry }.

Definition finish_msg (hd : head) (cy : carry) (body : bytes) : msg :=
  {| g_start := hd_start hd; g_headers := hd_headers hd; g_chunked := hd_chunked hd;
     g_persisted := hd_persisted hd; g_parms := cy_parms cy; g_trails := cy_trails cy; g_body := body |}.

Definition init_carry : carry := {| cy_parms := None; cy_trails := None |}.
Definition start_state (cy : carry) : mstate := {| m_phase := PStart false; m_carry := cy |}.

Definition msg_stage (k : kind) (s : mstate) (b : bytes) : sres mstate (option msg) :=
  let cy := m_carry s in
  match m_phase s with
  | PStart _ =>
    match line_stage EHttp false b with
    | Need => Need
    | Fail e => Fail e
    | Step _ r l =>
      match (match k with Req => parse_request_line l | Resp _ => parse_status_line l end) with
      | Exc e => Fail e
      | Ok sl =>
        match k with
        | Resp _ => if N.eqb (sl_status sl) 100
                    then Step {| m_phase := PContinue []; m_carry := cy |} r None
                    else Step {| m_phase := PLeader sl []; m_carry := cy |} r None
        | Req => Step {| m_phase := PLeader sl []; m_carry := cy |} r None
        end
      end
    end
  | PContinue h =>
    match leader_step h b with
    | LNeed => Need
    | LFail e => Fail e
    | LMore h' r => Step {| m_phase := PContinue h'; m_carry := cy |} r None
    | LDone _ r => Step {| m_phase := PStart true; m_carry := cy |} r None   (* back to the status line *)
    end
  | PLeader sl h =>
    match leader_step h b with
    | LNeed => Need
    | LFail e => Fail e
    | LMore h' r => Step {| m_phase := PLeader sl h'; m_carry := cy |} r None
    | LDone h' r =>
      (* parseBody starts: del self.body[:]; self.parms = None; self.trails = None (bb92345) *)
      let cy := init_carry in
      let len := head_length k sl h' in
      let hd := {| hd_start := sl; hd_headers := h'; hd_chunked := te_chunked h';
                   hd_persisted := head_persisted k sl h' len |} in
      if te_chunked h' then   (* parseBody tests .chunked first; self.parms = dict() *)
        Step {| m_phase := PChunk hd CSize [] []; m_carry := cy |} r None
      else match len with
           | Some n =>
             if N.eqb n 0 then Step (start_state cy) r (Some (finish_msg hd cy []))
             else Step {| m_phase := PFixed hd n; m_carry := cy |} r None
           | None =>
             match k with
             | Req => Fail HTTPExc      (* "Invalid body, content-length not provided!" *)
             | Resp _ => Step {| m_phase := PUntil hd []; m_carry := cy |} r None
             end
           end
    end
  | PChunk hd cs body p =>
    match chunk_stage cs b with
    | Need => Need
    | Fail e => Fail e
    | Step cs' r None => Step {| m_phase := PChunk hd cs' body p; m_carry := cy |} r None
    | Step cs' r (Some ch) =>
      let p' := dupdate p (k_parms ch) in
      if N.eqb (k_size ch) 0 then
        let cy' := {| cy_parms := Some p';
                      cy_trails := if is_nil (k_trails ch) then cy_trails cy else Some (k_trails ch) |} in
        Step (start_state cy') r (Some (finish_msg hd cy' body))
      else Step {| m_phase := PChunk hd CSize (body ++ k_data ch) p'; m_carry := cy |} r None
    end
  | PFixed hd n =>   (* n <> 0 whenever this phase is entered; the second test only makes the stage total *)
    if N.ltb (lenN b) n || N.eqb n 0 then Need
    else Step (start_state cy) (skipn (N.to_nat n) b) (Some (finish_msg hd cy (firstn (N.to_nat n) b)))
  | PUntil hd rbody =>
    (* body.extend(msg[:]); del msg[:]  -- taken one byte per step so that the
       stage does not depend on how much happens to be buffered *)
    match b with
    | [] => Need
    | x :: b' => Step {| m_phase := PUntil hd (x :: rbody); m_carry := cy |} b' None
    end
  end.

(* Note: a chunked response with a forced zero length (HEAD, 204, 304, 1xx) is
   still parsed as chunked by parseBody ("if self.chunked" comes first). *)

Definition init_state : pstate mstate := Live (start_state init_carry) [].

(* ------------------------------------------------------- parsing while .closed *)
(* One step of the parser when .closed is True.  Closure only matters once the
   buffer has run dry: "if self.closed and not self.msg" precedes every
   next(lineParser / leaderParser / chunkParser) (Requestant after e09ff21 as
   Respondent), a data chunk that empties the buffer ends a chunked message, a
   close-delimited body ends, a request's fixed-length body that is not complete
   raises.  PrematureClosure is an HTTPException. *)
Definition msg_stage_closed (k : kind) (s : mstate) (b : bytes) : sres mstate (option msg) :=
  let cy := m_carry s in
  match m_phase s with
  | PStart cont =>
    if is_nil b then (match k with Resp _ => if cont then Fail HTTPExc else Need | Req => Need end)
    else msg_stage k s b
  | PContinue _ | PLeader _ _ => if is_nil b then Fail HTTPExc else msg_stage k s b
  | PChunk hd cs body p =>
    if is_nil b then Fail HTTPExc else
    match chunk_stage cs b with
    | Need => Need
    | Fail e => Fail e
    | Step cs' r None => Step {| m_phase := PChunk hd cs' body p; m_carry := cy |} r None
    | Step cs' r (Some ch) =>
      let p' := dupdate p (k_parms ch) in
      if N.eqb (k_size ch) 0 then
        let cy' := {| cy_parms := Some p';
                      cy_trails := if is_nil (k_trails ch) then cy_trails cy else Some (k_trails ch) |} in
        Step (start_state cy') r (Some (finish_msg hd cy' body))
      else if is_nil r then      (* "if self.closed and not self.msg: break": no more data so finish *)
        let cy' := {| cy_parms := Some p'; cy_trails := cy_trails cy |} in
        Step (start_state cy') r (Some (finish_msg hd cy' (body ++ k_data ch)))
      else Step {| m_phase := PChunk hd CSize (body ++ k_data ch) p'; m_carry := cy |} r None
    end
  | PFixed hd n =>
    if N.ltb (lenN b) n then
      (match k with Req => Fail HTTPExc | Resp _ => if is_nil b then Fail HTTPExc else Need end)
    else msg_stage k s b
  | PUntil hd rbody =>
    match b with
    | [] => Step (start_state cy) [] (Some (finish_msg hd cy (frev rbody)))
    | x :: b' => Step {| m_phase := PUntil hd (x :: rbody); m_carry := cy |} b' None
    end
  end.

(* parse() until quiescent with .closed True.  parseMessage resets .closed when
   the next message starts, so after a message completes the rest of the buffer
   is parsed as usual.  Returns also whether .closed is still set. *)
Fixpoint run_c (k : kind) (fuel : nat) (s : mstate) (b : bytes) : pstate mstate * list (option msg) * bool :=
  match fuel with
  | 0 => (Live s b, [], true)
  | S f =>
    match msg_stage_closed k s b with
    | Need => (Live s b, [], true)
    | Fail e => (Dead e, [], true)
    | Step s' b' (Some m) => let (p, os) := run (msg_stage k) f s' b' in (p, Some m :: os, false)
    | Step s' b' None => let '(p, os, c) := run_c k f s' b' in (p, None :: os, c)
    end
  end.

(* connection closed after everything received was parsed: .close() then parse() *)
Definition close_msg (k : kind) (p : pstate mstate) : pstate mstate * list (option msg) :=
  match p with
  | Dead e => (Dead e, [])
  | Live s b => let '(p', os, _) := run_c k (S (S (length b))) s b in (p', os)
  end.

(* Histories in which bytes arrive, the parser is stepped and the connection is
   closed in any order. *)
Inductive op :=
| OData (c : bytes)    (* msg.extend(c): bytes received, parser not yet stepped *)
| OParse               (* parse() until it yields None / raises; makeParser() after every ended message *)
| OClose               (* .close() *)
| ORebind (mk : bool) (c : bytes).
  (* the parser is pointed at a new receive buffer whose current content is c:
     mk = true: makeParser(msg=buffer) (new parseMessage generator); mk = false: reinit(msg=buffer) *)

Record hstate := {
  hs_p : pstate mstate;
  hs_closed : bool;
  hs_fresh : bool;      (* the parseMessage generator has not been stepped yet *)
  hs_started : bool;    (* .started: the current message has begun (parseMessage saw a non-empty .msg) *)
  hs_out : list (option msg)
}.
Definition hs_init : hstate :=
  {| hs_p := init_state; hs_closed := false; hs_fresh := true; hs_started := false; hs_out := [] |}.

(* after a parse: the parser waits for a message to start iff it is at the
   start line with nothing buffered (after a 100 Continue the message has begun) *)
Definition started_of (p : pstate mstate) : bool :=
  match p with
  | Live s b => negb (match m_phase s with PStart false => is_nil b | _ => false end)
  | Dead _ => true
  end.

Definition do_op (k : kind) (h : hstate) (o : op) : hstate :=
  match o with
  | OData c =>
    {| hs_p := match hs_p h with Live s b => Live s (b ++ c) | Dead e => Dead e end;
       hs_closed := hs_closed h; hs_fresh := hs_fresh h; hs_started := hs_started h; hs_out := hs_out h |}
  | OClose => {| hs_p := hs_p h; hs_closed := true; hs_fresh := hs_fresh h; hs_started := hs_started h; hs_out := hs_out h |}
  | ORebind mk c =>
    (* "if msg is not None: self.msg = msg" -- the buffer is adopted whether or not it is empty at the call *)
    match hs_p h with
    | Dead e => h
    | Live s _ =>
      {| hs_p := Live (if mk then start_state init_carry else s) c; hs_closed := hs_closed h;
         hs_fresh := if mk then true else hs_fresh h; hs_started := hs_started h; hs_out := hs_out h |}
    end
  | OParse =>
    match hs_p h with
    | Dead e => {| hs_p := Dead e; hs_closed := hs_closed h; hs_fresh := false; hs_started := true; hs_out := hs_out h |}
    | Live s b =>
      (* the first step of a parseMessage generator sets .closed = False, and so
         does the start of the message (0a30e14): a closure seen while idle is not
         about the message that arrives later *)
      let closed := if hs_fresh h || (negb (hs_started h) && negb (is_nil b)) then false else hs_closed h in
      if closed then
        let '(p, os, c) := run_c k (S (S (length b))) s b in
        {| hs_p := p; hs_closed := c; hs_fresh := false; hs_started := started_of p; hs_out := hs_out h ++ os |}
      else
        let (p, os) := run (msg_stage k) (S (length b)) s b in
        {| hs_p := p; hs_closed := false; hs_fresh := false; hs_started := started_of p; hs_out := hs_out h ++ os |}
    end
  end.
Definition run_ops (k : kind) (ops : list op) : hstate := fold_left (do_op k) ops hs_init.

(* feed all reads, optionally close *)
Definition run_case (k : kind) (reads : list bytes) (close : bool) : pstate mstate * list msg :=
  let (p, os) := feeds (msg_stage k) init_state reads in
  if close then let (p', os') := close_msg k p in (p', somes (os ++ os')) else (p, somes os).

(* ---------------------------------------------------------- correspondence *)
Record omsg := {   (* one snapshot observed on the implementation *)
  o_method : bytes; o_url : bytes; o_status : N; o_reason : bytes; o_v11 : bool;
  o_headers : headers; o_chunked : bool; o_persisted : bool;
  o_parms : option parms; o_trails : option headers; o_body : bytes
}.

Record case := {
  c_kind : kind;
  c_reads : list bytes;
  c_close : bool;
  c_msgs : list omsg;
  c_err : option exn;       (* Some HTTPExc = .errored; other kinds escaped parse() *)
  c_left : bytes            (* .msg afterwards (compared when no error) *)
}.

Definition msg_eqb (m : msg) (o : omsg) : bool :=
  let sl := g_start m in
  bytes_eqb (sl_method sl) (o_method o) && bytes_eqb (sl_url sl) (o_url o)
  && N.eqb (sl_status sl) (o_status o) && bytes_eqb (sl_reason sl) (o_reason o)
  && Bool.eqb (sl_v11 sl) (o_v11 o)
  && headers_eqb (g_headers m) (o_headers o) && Bool.eqb (g_chunked m) (o_chunked o)
  && Bool.eqb (g_persisted m) (o_persisted o)
  && option_eqb parms_eqb (g_parms m) (o_parms o)
  && option_eqb headers_eqb (g_trails m) (o_trails o)
  && bytes_eqb (g_body m) (o_body o).

Fixpoint msgs_eqb (ms : list msg) (os : list omsg) : bool :=
  match ms, os with
  | [], [] => true
  | m :: ms', o :: os' => msg_eqb m o && msgs_eqb ms' os'
  | _, _ => false
  end.

Definition check_case (c : case) : bool :=
  match run_case (c_kind c) (c_reads c) (c_close c) with
  | (Dead e, ms) => msgs_eqb ms (c_msgs c) && option_eqb exn_eqb (Some e) (c_err c)
  | (Live s b, ms) => msgs_eqb ms (c_msgs c) && option_eqb exn_eqb None (c_err c) && bytes_eqb b (c_left c)
  end.

(* what a WSGI application sees of each request when the real http.Server is
   fed a request sequence in fragments: (method, target, body) *)
Record scase := { s_reads : list bytes; s_seen : list (bytes * bytes * bytes) }.
Definition seen_of (reads : list bytes) : list (bytes * bytes * bytes) :=
  map (fun m => (sl_method (g_start m), sl_url (g_start m), g_body m)) (snd (run_case Req reads false)).
Definition check_scase (c : scase) : bool :=
  list_eqb (pair_eqb (pair_eqb bytes_eqb bytes_eqb) bytes_eqb) (seen_of (s_reads c)) (s_seen c).

(* a history case *)
Record hcase := {
  h_kind : kind;
  h_ops : list op;
  h_msgs : list omsg;
  h_err : option exn;
  h_left : bytes
}.
Definition check_hcase (c : hcase) : bool :=
  let h := run_ops (h_kind c) (h_ops c) in
  match hs_p h with
  | Dead e => msgs_eqb (somes (hs_out h)) (h_msgs c) && option_eqb exn_eqb (Some e) (h_err c)
  | Live s b => msgs_eqb (somes (hs_out h)) (h_msgs c) && option_eqb exn_eqb None (h_err c) && bytes_eqb b (h_left c)
  end.

(* the C17 check drives parseChunk directly and through both message parsers *)
Inductive c17case := KChunk (c : Chunk.case) | KHist (c : hcase).
Definition check_c17 (c : c17case) : bool :=
  match c with KChunk c => Chunk.check_case c | KHist c => check_hcase c end.
Definition c17_branches (c : c17case) : list nat :=
  match c with KChunk c => Chunk.case_branches c | KHist _ => [] end.

(* branch ids for generator coverage *)
Definition n_branches : nat := 16.
Definition branch_of (k : kind) (s : mstate) (b : bytes) : nat :=
  match m_phase s, msg_stage k s b with
  | _, Need => 0
  | PStart _, Step _ _ _ => 1
  | PStart _, Fail _ => 2
  | PContinue _, Step _ _ _ => 3
  | PContinue _, Fail _ => 4
  | PLeader _ _, Step {| m_phase := PLeader _ _ |} _ _ => 5
  | PLeader _ _, Step {| m_phase := PChunk _ _ _ _ |} _ _ => 6
  | PLeader _ _, Step {| m_phase := PFixed _ _ |} _ _ => 7
  | PLeader _ _, Step {| m_phase := PUntil _ _ |} _ _ => 8
  | PLeader _ _, Step _ _ _ => 9            (* zero-length message complete *)
  | PLeader _ _, Fail _ => 10
  | PChunk _ _ _ _, Step _ _ None => 11
  | PChunk _ _ _ _, Step _ _ (Some _) => 12
  | PChunk _ _ _ _, Fail _ => 13
  | PFixed _ _, _ => 14
  | PUntil _ _, _ => 15
  end.
Fixpoint branches_run (k : kind) (fuel : nat) (s : mstate) (b : bytes) : list nat * pstate mstate :=
  match fuel with
  | 0 => ([], Live s b)
  | S f => match msg_stage k s b with
           | Need => ([branch_of k s b], Live s b)
           | Step s' b' _ => let (l, p) := branches_run k f s' b' in (branch_of k s b :: l, p)
           | Fail e => ([branch_of k s b], Dead e)
           end
  end.
Fixpoint branches_reads (k : kind) (p : pstate mstate) (reads : list bytes) : list nat :=
  match reads, p with
  | [], _ => []
  | _, Dead _ => []
  | c :: cs, Live s b =>
    let (l, p') := branches_run k (S (length (b ++ c))) s (b ++ c) in l ++ branches_reads k p' cs
  end.
Definition case_branches (c : case) : list nat := branches_reads (c_kind c) init_state (c_reads c).

(* the C13 check drives the parsers directly and through the real WSGI server *)
Inductive c13case := KMsg (c : case) | KServer (c : scase) | KIdle (c : hcase).
Definition check_c13 (c : c13case) : bool :=
  match c with KMsg c => check_case c | KServer c => check_scase c | KIdle c => check_hcase c end.
Definition c13_branches (c : c13case) : list nat :=
  match c with
  | KMsg c => case_branches c
  | KServer c => branches_reads Req init_state (s_reads c)
  | KIdle _ => []
  end.
