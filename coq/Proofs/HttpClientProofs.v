(* Lemmas about Model/HttpClient.v *)
From Hio Require Import Base.Prelude Base.ListFacts Model.HttpClient.
From Coq Require Import ZifyBool.
Local Open Scope N_scope.

Section WithMethods.
Variable mof : N -> N.
Variable qof : N -> option qargs.
Variable pq : N -> qargs.
Variable pay : N -> payload.

Lemma run_app s evs evs' : run mof qof pq pay s (evs ++ evs') = run mof qof pq pay (run mof qof pq pay s evs) evs'.
Proof. unfold run. apply fold_left_app. Qed.

Lemma wire_reqs_app w w' : wire_reqs (w ++ w') = wire_reqs w ++ wire_reqs w'.
Proof.
  induction w as [|x w IH]; [reflexivity|]. cbn [List.app wire_reqs].
  destruct (w_item x); cbn [List.app]; now rewrite IH.
Qed.

Lemma enqs_app evs evs' : enqs (evs ++ evs') = enqs evs ++ enqs evs'.
Proof.
  induction evs as [|e evs IH]; [reflexivity|]. cbn [List.app enqs].
  destruct e; cbn [List.app]; now rewrite IH.
Qed.

(* ------------------------------------------------------------------ *)
(* The bookkeeping invariant.  [all] = tags queued so far, in order.    *)
Ltac split4 := split; [|split; [|split]].

Definition Inv (all : list N) (s : cstate) : Prop :=
  map Some all = map origin (responses s) ++ inflight s ++ map Some (queue s)
  /\ (waited s = false -> redirects s = [])
  /\ (exists u, map Some (wire_reqs (wire s)) ++ u = map origin (responses s) ++ inflight s
       /\ (u = [] \/ (sent s = false /\ waited s = true /\ length u = 1%nat)))
  /\ (sent s = true -> waited s = true).

Lemma inv_init sec rd m : Inv [] (init_m sec rd m).
Proof.
  unfold Inv, init_m, inflight. cbn.
  split; [reflexivity|]. split; [reflexivity|]. split; [|discriminate].
  exists []. split; [reflexivity | now left].
Qed.

Lemma inv_enq all s t : Inv all s -> Inv (all ++ [t]) (enq qof s t).
Proof.
  intros (H1 & H2 & H3 & H4). unfold Inv, enq, inflight in *. cbn [queue waited latest responses redirects sent wire].
  split4; auto.
  rewrite !map_app, H1. cbn [map]. now rewrite <- !app_assoc.
Qed.

Lemma inv_pump all s : Inv all s -> Inv all (pump mof qof pq pay s).
Proof.
  intros HI. unfold pump.
  destruct (waited s) eqn:Hw; [exact HI|].
  destruct (queue s) as [|t q] eqn:Hq; [exact HI|].
  destruct HI as (H1 & H2 & (u & H3 & Hu) & H4).
  assert (Hr := H2 Hw).
  assert (Hu0 : u = []) by (destruct Hu as [|(_ & X & _)]; [assumption | congruence]).
  subst u. unfold inflight in *. rewrite Hw in *. cbn [List.app] in *. rewrite !app_nil_r in H3.
  unfold Inv, inflight. cbn [queue waited latest responses redirects sent wire]. rewrite Hr.
  split4.
  - rewrite H1, Hq. reflexivity.
  - discriminate.
  - destruct (cut s) eqn:Hc; cbv beta iota.
    + exists [Some t]. split; [now rewrite H3 | right; split; [reflexivity | split; reflexivity]].
    + exists []. split; [|now left]. rewrite wire_reqs_app, map_app, H3. cbn [wire_reqs on_wire w_item map].
      now rewrite app_nil_r.
  - reflexivity.
Qed.

Lemma inv_deliver all s st err c :
  Inv all s -> waited s = true -> sent s = true -> Inv all (deliver s st err c).
Proof.
  intros (H1 & H2 & (u & H3 & Hu) & H4) Hw Hs.
  assert (Hu0 : u = []) by (destruct Hu as [|(X & _)]; [assumption | congruence]). subst u.
  unfold inflight in *. rewrite Hw in *. rewrite !app_nil_r in H3.
  unfold Inv, deliver, inflight. cbn [queue waited latest responses redirects sent wire].
  assert (E : origin {| e_status := st; e_tag := latest s; e_errored := err; e_history := redirects s;
                        e_target := rq_target s; e_targets := rtargets s; e_pay := rq_pay s |}
              = match redirects s with h :: _ => snd h | [] => latest s end).
  { unfold origin. cbn [e_history e_tag]. reflexivity. }
  split4.
  - rewrite H1, map_app. cbn [map]. rewrite E. now rewrite <- !app_assoc.
  - reflexivity.
  - exists []. split; [|now left]. rewrite H3, map_app. cbn [map]. rewrite E. now rewrite !app_nil_r.
  - discriminate.
Qed.

Lemma head_snoc (l : list hop) (x : hop) (d : option N) :
  match l ++ [x] with h :: _ => snd h | [] => d end
  = match l with h :: _ => snd h | [] => snd x end.
Proof. destruct l; reflexivity. Qed.

Lemma inv_complete all s r :
  Inv all s -> waited s = true -> sent s = true -> Inv all (complete s r).
Proof.
  intros HI Hw Hs. unfold complete.
  destruct (redirectable s && is_redirect (rp_status r)); [|now apply inv_deliver].
  destruct (rp_loc r) as [l|]; [|now apply inv_deliver].
  destruct HI as (H1 & H2 & (u & H3 & Hu) & H4).
  assert (Hu0 : u = []) by (destruct Hu as [|(X & _)]; [assumption | congruence]). subst u.
  unfold inflight in *. rewrite Hw in *. rewrite !app_nil_r in H3.
  match goal with |- context [if ?c then _ else _] => destruct c end.
  - unfold Inv, inflight. cbn [queue waited latest responses redirects sent wire].
    rewrite head_snoc. cbn [snd]. split4.
    + assumption.
    + discriminate.
    + exists []. split; [|now left]. rewrite app_nil_r.
      destruct (cut s || rp_close r); [assumption|].
      rewrite wire_reqs_app. cbn [wire_reqs on_wire w_item]. now rewrite app_nil_r.
    + reflexivity.
  - match goal with |- context [if ?c then _ else _] => destruct c end.
    { apply inv_deliver; auto. unfold Inv, inflight. rewrite Hw. split4; auto.
      exists []. rewrite app_nil_r. split; [assumption | now left]. }
    unfold Inv, inflight. cbn [queue waited latest responses redirects sent wire].
    rewrite head_snoc. cbn [snd]. split4.
    + assumption.
    + discriminate.
    + exists []. split; [|now left]. rewrite app_nil_r.
      rewrite wire_reqs_app. cbn [wire_reqs w_item]. now rewrite app_nil_r.
    + reflexivity.
Qed.

Lemma inv_step all s e :
  Inv all s -> Inv (all ++ match e with Enq t => [t] | Pass _ => [] end) (step mof qof pq pay s e).
Proof.
  intros HI. destruct e as [t|o]; cbn [step].
  - now apply inv_enq.
  - rewrite app_nil_r. pose proof (inv_pump all s HI) as HP.
    destruct o as [r|]; [|assumption].
    destruct (waited (pump mof qof pq pay s)) eqn:Hw; [|assumption].
    destruct (sent (pump mof qof pq pay s)) eqn:Hs; [|assumption].
    cbn [andb]. destruct (readable (pump mof qof pq pay s) r); [now apply inv_complete | assumption].
Qed.

Lemma inv_run : forall evs all s, Inv all s -> Inv (all ++ enqs evs) (run mof qof pq pay s evs).
Proof.
  induction evs as [|e evs IH]; intros all s HI; cbn [run fold_left enqs].
  - now rewrite app_nil_r.
  - apply (inv_step all s e) in HI. apply IH in HI. fold (run mof qof pq pay (step mof qof pq pay s e) evs).
    destruct e; cbn [enqs]; [now rewrite <- app_assoc in HI | now rewrite app_nil_r in HI].
Qed.

Lemma map_some_inj (a b : list N) : map Some a = map Some b -> a = b.
Proof.
  revert b. induction a as [|x a IH]; intros [|y b] H; try discriminate; [reflexivity|].
  cbn [map] in H. inversion H. f_equal. now apply IH.
Qed.

Lemma map_some_app_inv (a : list N) (x y : list (option N)) :
  map Some a = x ++ y -> exists a1 a2, a = a1 ++ a2 /\ x = map Some a1 /\ y = map Some a2.
Proof.
  revert a. induction x as [|o x IH]; intros a H.
  - exists [], a. auto.
  - destruct a as [|t a]; [discriminate|]. cbn [map List.app] in H. inversion H; subst.
    destruct (IH a H2) as (a1 & a2 & -> & -> & ->). exists (t :: a1), a2. auto.
Qed.

(* FIFO, one entry per request, at most one in flight; requests reach the wire
   in queue order and at most one of them is unanswered. *)
Theorem fifo sec rd m evs :
  let s := run mof qof pq pay (init_m sec rd m) evs in
  map Some (enqs evs) = map origin (responses s) ++ inflight s ++ map Some (queue s)
  /\ (length (inflight s) <= 1)%nat
  /\ (exists rest, enqs evs = wire_reqs (wire s) ++ rest)
  /\ (length (wire_reqs (wire s)) <= length (responses s) + 1)%nat.
Proof.
  intros s. destruct (inv_run evs [] (init_m sec rd m) (inv_init sec rd m)) as (H1 & H2 & (u & H3 & Hu) & H4).
  cbn [List.app] in H1. fold s in H1, H2, H3, Hu, H4.
  split; [exact H1|]. split.
  { unfold inflight. destruct (waited s); cbn [length]; lia. }
  split.
  - rewrite app_assoc in H1. rewrite <- H3 in H1. rewrite <- app_assoc in H1.
    destruct (map_some_app_inv _ _ _ H1) as (a1 & a2 & E & E1 & _).
    apply map_some_inj in E1. subst a1. now exists a2.
  - apply (f_equal (@length _)) in H3. rewrite !app_length, !map_length in H3.
    unfold inflight in H3. destruct (waited s); cbn [length] in H3; lia.
Qed.

(* ------------------------------------------------------------------ *)
(* An https client never leaves https.                                  *)
Definition InvS (s : cstate) : Prop :=
  https s = true /\ Forall (fun w => w_https w = true) (wire s).

Lemma invS_pump s : InvS s -> InvS (pump mof qof pq pay s).
Proof.
  intros [H1 H2]. unfold pump. destruct (waited s); [now split|].
  destruct (queue s); [now split|]. split; cbn [https wire]; [assumption|].
  destruct (cut s); [assumption|]. apply Forall_app. split; [assumption|].
  constructor; [exact H1 | constructor].
Qed.

Lemma invS_complete s r : InvS s -> InvS (complete s r).
Proof.
  intros [H1 H2]. unfold complete.
  assert (D : forall st e c, InvS (deliver s st e c)) by (intros; now split).
  destruct (redirectable s && is_redirect (rp_status r)); [|apply D].
  destruct (rp_loc r) as [l|]; [|apply D].
  match goal with |- context [if ?c then _ else _] => destruct c end.
  - split; cbn [https wire]; [assumption|].
    destruct (cut s || rp_close r); [assumption|]. apply Forall_app. split; [assumption|].
    constructor; [exact H1 | constructor].
  - destruct (match l_host l with Some _ => l_https l | None => https s end) eqn:E; cbn [negb];
      [rewrite andb_false_r | rewrite andb_true_r, H1; apply D].
    split; cbn [https wire]; [reflexivity|]. apply Forall_app. split; [assumption|].
    constructor; [reflexivity | constructor].
Qed.

Lemma invS_step s e : InvS s -> InvS (step mof qof pq pay s e).
Proof.
  intros H. destruct e as [t|o]; cbn [step]; [exact H|].
  apply invS_pump in H. destruct o as [r|]; [|assumption].
  destruct (waited (pump mof qof pq pay s) && sent (pump mof qof pq pay s) && readable (pump mof qof pq pay s) r); [now apply invS_complete | assumption].
Qed.

Theorem https_kept rd m evs :
  let s := run mof qof pq pay (init_m true rd m) evs in
  https s = true /\ Forall (fun w => w_https w = true) (wire s).
Proof.
  cbn zeta. unfold run.
  assert (G : forall evs s, InvS s -> InvS (fold_left (step mof qof pq pay) evs s)).
  { induction evs0 as [|e evs0 IH]; intros s H; [assumption|]. cbn [fold_left]. apply IH. now apply invS_step. }
  apply G. split; [reflexivity | constructor].
Qed.

(* what the refusal does: the 3xx response is delivered, errored, with the history;
   nothing is transmitted and the connector is kept *)
Lemma downgrade_refused s r l h :
  https s = true -> redirectable s = true -> is_redirect (rp_status r) = true ->
  rp_loc r = Some l -> l_host l = Some h -> l_https l = false ->
  complete s r = deliver s (rp_status r) true (cut s || rp_close r).
Proof.
  intros H1 H2 H3 H4 H5 H6. unfold complete. rewrite H2, H3, H4, H5, H6, H1. cbn [andb negb Bool.eqb].
  rewrite andb_false_r. reflexivity.
Qed.

(* ------------------------------------------------------------------ *)
(* Redirect history.                                                    *)
Definition tail_none (l : list hop) : Prop :=
  match l with [] => True | _ :: rest => Forall (fun x => snd x = None) rest end.
Definition all_redirects (l : list hop) : Prop := Forall (fun h => is_redirect (fst h) = true) l.
Definition good_entry (e : entry) : Prop :=
  all_redirects (e_history e) /\ tail_none (e_history e) /\ (e_history e <> [] -> e_tag e = None).

Definition InvH (s : cstate) : Prop :=
  all_redirects (redirects s) /\ tail_none (redirects s)
  /\ (redirects s <> [] -> latest s = None)
  /\ Forall good_entry (responses s).

Lemma invH_deliver s st err c : InvH s -> InvH (deliver s st err c).
Proof.
  intros (A & B & C & D). unfold InvH, deliver. cbn [redirects latest responses].
  split; [constructor|]. split; [exact I|]. split; [congruence|].
  apply Forall_app. split; [assumption|]. constructor; [|constructor].
  unfold good_entry. cbn [e_history e_tag]. auto.
Qed.

Lemma invH_follow (s : cstate) st :
  InvH s -> is_redirect st = true ->
  all_redirects (redirects s ++ [(st, latest s)]) /\ tail_none (redirects s ++ [(st, latest s)]).
Proof.
  intros (A & B & C & D) H. split.
  - apply Forall_app. split; [assumption|]. constructor; [exact H | constructor].
  - destruct (redirects s) as [|x rest] eqn:E; [cbn; constructor|]. cbn [List.app tail_none] in *.
    apply Forall_app. split; [assumption|]. constructor; [|constructor]. cbn [snd]. apply C. discriminate.
Qed.

Lemma invH_complete s r : InvH s -> InvH (complete s r).
Proof.
  intros H. unfold complete.
  destruct (redirectable s && is_redirect (rp_status r)) eqn:E; [|now apply invH_deliver].
  apply andb_true_iff in E as [_ E].
  destruct (rp_loc r) as [l|]; [|now apply invH_deliver].
  destruct (invH_follow s (rp_status r) H E) as [F1 F2]. destruct H as (A & B & C & D).
  match goal with |- context [if ?c then _ else _] => destruct c end.
  - unfold InvH. cbn [redirects latest responses]. auto.
  - match goal with |- context [if ?c then _ else _] => destruct c end.
    + apply invH_deliver. unfold InvH. auto.
    + unfold InvH. cbn [redirects latest responses]. auto.
Qed.

Lemma invH_step all s e : Inv all s -> InvH s -> InvH (step mof qof pq pay s e).
Proof.
  intros HI H. destruct e as [t|o]; cbn [step].
  - exact H.
  - assert (HP : InvH (pump mof qof pq pay s)).
    { unfold pump. destruct (waited s) eqn:Hw; [exact H|]. destruct (queue s); [exact H|].
      destruct HI as (_ & H2 & _). specialize (H2 Hw). destruct H as (A & B & C & D).
      unfold InvH. cbn [redirects latest responses]. rewrite H2.
      split; [constructor|]. split; [exact I|]. split; [congruence | assumption]. }
    destruct o as [r|]; [|assumption].
    destruct (waited (pump mof qof pq pay s) && sent (pump mof qof pq pay s) && readable (pump mof qof pq pay s) r); [now apply invH_complete | assumption].
Qed.

Theorem history_attached sec rd m evs :
  Forall good_entry (responses (run mof qof pq pay (init_m sec rd m) evs)).
Proof.
  assert (G : forall evs all s, Inv all s -> InvH s -> InvH (run mof qof pq pay s evs)).
  { induction evs0 as [|e evs0 IH]; intros all s HI H; [assumption|]. cbn [run fold_left].
    fold (run mof qof pq pay (step mof qof pq pay s e) evs0). eapply IH; [eapply inv_step; eassumption | eapply invH_step; eassumption]. }
  destruct (G evs [] (init_m sec rd m) (inv_init sec rd m)) as (_ & _ & _ & D); [|exact D].
  unfold InvH, init_m. cbn. split; [constructor|]. split; [exact I|]. split; [congruence | constructor].
Qed.

(* every followed redirect hop is recorded, in order: completing a reply either
   extends .redirects by exactly that hop or delivers an entry whose history is
   exactly the hops so far *)
Lemma complete_cases s r :
  (exists err c, complete s r = deliver s (rp_status r) err c)
  \/ (exists l, rp_loc r = Some l
      /\ redirects (complete s r) = redirects s ++ [(rp_status r, latest s)]
      /\ rtargets (complete s r) = rtargets s ++ [rq_target s]
      /\ rq_target (complete s r) = (true, rp_id r, l_query l)
      /\ (sent (complete s r) = true ->
          exists w, wire (complete s r) = wire s ++ [w] /\ w_item w = WRedir (rp_id r) /\ w_q w = l_query l)
      /\ responses (complete s r) = responses s /\ waited (complete s r) = true
      /\ is_redirect (rp_status r) = true /\ redirectable s = true).
Proof.
  unfold complete.
  destruct (redirectable s) eqn:R; cbn [andb]; [|left; eauto].
  destruct (is_redirect (rp_status r)) eqn:E; [|left; eauto].
  destruct (rp_loc r) as [l|]; [|left; eauto].
  match goal with |- context [if ?c then _ else _] => destruct c end.
  - right. exists l. cbn [redirects responses waited rtargets rq_target sent wire].
    repeat (split; [reflexivity|]). split; [|auto].
    destruct (cut s || rp_close r); cbn [negb]; [discriminate|]. intros _.
    eexists. split; [reflexivity|]. split; reflexivity.
  - match goal with |- context [if ?c then _ else _] => destruct c end; [left; eauto|].
    right. exists l. cbn [redirects responses waited rtargets rq_target sent wire].
    repeat (split; [reflexivity|]). split; [|auto].
    intros _. eexists. split; [reflexivity|]. split; reflexivity.
Qed.

(* a delivered entry names the request it answers and the request of every hop *)
Lemma deliver_targets s st err c :
  exists e, responses (deliver s st err c) = responses s ++ [e]
    /\ e_target e = rq_target s /\ e_targets e = rtargets s /\ e_history e = redirects s
    /\ e_pay e = rq_pay s.
Proof. eexists. split; [reflexivity|]. cbn. auto. Qed.

(* every original request goes on the wire with exactly the target it was queued with: the qargs its
   request dict got in Client.request (recorded in the append-only qlog when it was queued) merged with
   the query of its own path - whatever was queued, sent or answered in between *)
Definition wire_ok (lg : list (N * qargs)) (w : wentry) : Prop :=
  match w_item w with WReq t => w_q w = merge (qlookup lg t) (pq t) | WRedir _ => True end.

Lemma qlookup_app_keep lg t x q :
  In t (map fst lg) -> qlookup (lg ++ [(x, q)]) t = qlookup lg t.
Proof.
  induction lg as [|[k v] lg IH]; intros H; [destruct H|]. cbn [List.app qlookup].
  destruct (k =? t) eqn:E; [reflexivity|]. apply IH. cbn [map fst In] in H.
  destruct H as [H|H]; [apply N.eqb_neq in E; congruence | exact H].
Qed.

(* tags on the wire were queued before: their qlog entry exists and later queueing cannot change it *)
Definition InvQ (s : cstate) : Prop :=
  Forall (wire_ok (qlog s)) (wire s)
  /\ Forall (fun w => match w_item w with WReq t => In t (map fst (qlog s)) | WRedir _ => True end) (wire s)
  /\ Forall (fun t => In t (map fst (qlog s))) (queue s).

Lemma invQ_enq s t : InvQ s -> InvQ (enq qof s t).
Proof.
  intros (A & B & C). unfold InvQ, enq. cbn [qlog wire queue]. split; [|split].
  - rewrite Forall_forall in *. intros w Hw. specialize (A w Hw). specialize (B w Hw). unfold wire_ok in *.
    destruct (w_item w); [|exact I]. now rewrite qlookup_app_keep.
  - rewrite Forall_forall in *. intros w Hw. specialize (B w Hw). destruct (w_item w); [|exact I].
    rewrite map_app. apply in_or_app. now left.
  - apply Forall_app. split.
    + rewrite Forall_forall in *. intros x Hx. rewrite map_app. apply in_or_app. left. now apply C.
    + constructor; [|constructor]. rewrite map_app. apply in_or_app. right. now left.
Qed.

Lemma invQ_step s e : InvQ s -> InvQ (step mof qof pq pay s e).
Proof.
  intros H. destruct e as [t|o]; cbn [step]; [now apply invQ_enq|].
  assert (HP : InvQ (pump mof qof pq pay s)).
  { unfold pump. destruct (waited s); [exact H|]. destruct (queue s) as [|t q] eqn:Hq; [exact H|].
    destruct H as (A & B & C). rewrite Hq in C. inversion C as [|? ? Ct Cq]; subst.
    unfold InvQ. cbn [wire qlog queue]. destruct (cut s); [now repeat split|].
    split; [|split]; [| |assumption]; (apply Forall_app; split; [assumption|]); (constructor; [|constructor]).
    - unfold wire_ok, on_wire, sent_q. cbn [w_item w_q]. reflexivity.
    - cbn [on_wire w_item]. exact Ct. }
  destruct o as [r|]; [|assumption].
  destruct (waited (pump mof qof pq pay s) && sent (pump mof qof pq pay s) && readable (pump mof qof pq pay s) r); [|assumption].
  set (p := pump mof qof pq pay s) in *. unfold complete.
  assert (D : forall st e c, InvQ (deliver p st e c)) by (intros; exact HP).
  destruct (redirectable p && is_redirect (rp_status r)); [|apply D].
  destruct (rp_loc r) as [l|]; [|apply D].
  destruct HP as (A & B & C).
  match goal with |- context [if ?c then _ else _] => destruct c end.
  - unfold InvQ. cbn [wire qlog queue]. destruct (cut p || rp_close r); [now repeat split|].
    split; [|split]; [| |assumption]; (apply Forall_app; split; [assumption|]); (constructor; [exact I|constructor]).
  - match goal with |- context [if ?c then _ else _] => destruct c end; [apply D|].
    unfold InvQ. cbn [wire qlog queue].
    split; [|split]; [| |assumption]; (apply Forall_app; split; [assumption|]); (constructor; [exact I|constructor]).
Qed.

Theorem wire_queries sec rd m evs :
  let s := run mof qof pq pay (init_m sec rd m) evs in
  Forall (wire_ok (qlog s)) (wire s).
Proof.
  cbn zeta.
  assert (G : forall evs s, InvQ s -> InvQ (run mof qof pq pay s evs)).
  { induction evs0 as [|e evs0 IH]; intros s H; [assumption|]. cbn [run fold_left].
    fold (run mof qof pq pay (step mof qof pq pay s e) evs0). apply IH. now apply invQ_step. }
  apply G. unfold InvQ, init_m. cbn. repeat split; constructor.
Qed.

(* what is recorded when a request is queued: its explicit qargs, else a copy of the requester's
   current ones; an existing record is never rewritten *)
Lemma enq_records s t :
  qlog (enq qof s t) = qlog s ++ [(t, match qof t with Some q => q | None => snd (rq_target s) end)].
Proof. reflexivity. Qed.

Lemma qlog_grows s e : exists more, qlog (step mof qof pq pay s e) = qlog s ++ more.
Proof.
  destruct e as [t|o]; cbn [step].
  - eexists. apply enq_records.
  - exists []. rewrite app_nil_r.
    assert (P : qlog (pump mof qof pq pay s) = qlog s).
    { unfold pump. destruct (waited s); [reflexivity|]. destruct (queue s); reflexivity. }
    destruct o as [r|]; [|exact P].
    destruct (waited (pump mof qof pq pay s) && sent (pump mof qof pq pay s) && readable (pump mof qof pq pay s) r); [|exact P].
    rewrite <- P. unfold complete.
    destruct (redirectable _ && is_redirect _); [|reflexivity].
    destruct (rp_loc r); [|reflexivity].
    repeat match goal with |- context [if ?c then _ else _] => destruct c end; reflexivity.
Qed.

(* ------------------------------------------------------------------ *)
(* Methods: while a request is in flight the respondent reads the reply with the
   method of exactly that request (so the no-body rule for HEAD is applied to HEAD
   replies and to no others), also across followed redirects. *)
Definition InvM (s : cstate) : Prop :=
  waited s = true ->
  rs_method s = rq_method s /\ (forall t, inflight s = [Some t] -> rq_method s = mof t).

Lemma invM_step all s e : Inv all s -> InvM s -> InvM (step mof qof pq pay s e).
Proof.
  intros HI HM. destruct e as [t|o]; cbn [step].
  - exact HM.
  - assert (HP : InvM (pump mof qof pq pay s)).
    { unfold pump. destruct (waited s) eqn:Hw; [exact HM|]. destruct (queue s) as [|t q]; [exact HM|].
      destruct HI as (_ & H2 & _). specialize (H2 Hw).
      unfold InvM, inflight. cbn [waited redirects latest rs_method rq_method]. rewrite H2.
      intros _. split; [reflexivity|]. intros t' E. now inversion E. }
    destruct o as [r|]; [|assumption].
    destruct (waited (pump mof qof pq pay s)) eqn:Hw; [|assumption]. cbn [andb].
    destruct (sent (pump mof qof pq pay s) && readable (pump mof qof pq pay s) r); [|assumption].
    specialize (HP Hw). destruct HP as [E1 E2]. unfold inflight in E2. rewrite Hw in E2.
    set (p := pump mof qof pq pay s) in *. unfold complete.
    assert (D : forall st e c, InvM (deliver p st e c)) by (intros st e c X; discriminate X).
    destruct (redirectable p && is_redirect (rp_status r)); [|apply D].
    destruct (rp_loc r) as [l|]; [|apply D].
    match goal with |- context [if ?c then _ else _] => destruct c end.
    + unfold InvM, inflight. cbn [waited redirects latest rs_method rq_method].
      intros _. split; [reflexivity|]. rewrite head_snoc. cbn [snd]. exact E2.
    + match goal with |- context [if ?c then _ else _] => destruct c end; [apply D|].
      unfold InvM, inflight. cbn [waited redirects latest rs_method rq_method].
      intros _. split; [reflexivity|]. rewrite head_snoc. cbn [snd]. exact E2.
Qed.

Theorem method_tracks sec rd m evs :
  let s := run mof qof pq pay (init_m sec rd m) evs in
  waited s = true ->
  rs_method s = rq_method s /\ (forall t, inflight s = [Some t] -> rq_method s = mof t).
Proof.
  cbn zeta.
  assert (G : forall evs all s, Inv all s -> InvM s -> InvM (run mof qof pq pay s evs)).
  { induction evs0 as [|e evs0 IH]; intros all s HI H; [assumption|]. cbn [run fold_left].
    fold (run mof qof pq pay (step mof qof pq pay s e) evs0). eapply IH; [eapply inv_step; eassumption | eapply invM_step; eassumption]. }
  apply (G evs [] (init_m sec rd m) (inv_init sec rd m)). intros X. discriminate X.
Qed.

(* hence a consumed reply is always readable: no reply is ever left half read or
   over-read because of the method, for every schedule *)
Corollary always_readable sec rd m evs r :
  let s := run mof qof pq pay (init_m sec rd m) evs in
  waited s = true -> readable s r = true.
Proof.
  cbn zeta. intros Hw. destruct (method_tracks sec rd m evs Hw) as [E _].
  unfold readable. rewrite E. apply Bool.eqb_reflx.
Qed.

(* ------------------------------------------------------------------ *)
(* Payloads: what a request carries on the wire (body bytes, Content-Type) is its
   own payload - nothing of an earlier request's data=/fargs=/body= - and the
   requester holds exactly the in-flight request's payload. *)
Definition InvP (s : cstate) : Prop :=
  Forall (fun w => match w_item w with
                   | WReq t => w_pay w = wire_pay mof pay t
                   | WRedir _ => w_pay w = nopay end) (wire s)
  /\ (waited s = true -> redirects s = [] -> forall t, latest s = Some t -> rq_pay s = pay t).

Lemma invP_step s e : InvP s -> InvP (step mof qof pq pay s e).
Proof.
  intros H. destruct e as [t|o]; cbn [step]; [exact H|].
  assert (HP : InvP (pump mof qof pq pay s)).
  { unfold pump. destruct (waited s); [exact H|]. destruct (queue s) as [|t q]; [exact H|].
    destruct H as [A B]. unfold InvP. cbn [wire waited redirects latest rq_pay]. split.
    - destruct (cut s); [exact A|]. apply Forall_app. split; [exact A|]. constructor; [reflexivity|constructor].
    - intros _ _ t' E. now inversion E. }
  destruct o as [r|]; [|assumption].
  destruct (waited (pump mof qof pq pay s) && sent (pump mof qof pq pay s) && readable (pump mof qof pq pay s) r); [|assumption].
  set (p := pump mof qof pq pay s) in *. destruct HP as [A B]. unfold complete.
  assert (D : forall st e c, InvP (deliver p st e c)).
  { intros. split; [exact A|]. cbn [waited]. discriminate. }
  destruct (redirectable p && is_redirect (rp_status r)); [|apply D].
  destruct (rp_loc r) as [l|]; [|apply D].
  match goal with |- context [if ?c then _ else _] => destruct c end.
  - unfold InvP. cbn [wire waited redirects latest rq_pay]. split.
    + destruct (cut p || rp_close r); [exact A|]. apply Forall_app. split; [exact A|].
      constructor; [reflexivity|constructor].
    + intros _ _ t' E. discriminate E.
  - match goal with |- context [if ?c then _ else _] => destruct c end; [apply D|].
    unfold InvP. cbn [wire waited redirects latest rq_pay]. split.
    + apply Forall_app. split; [exact A|]. constructor; [reflexivity|constructor].
    + intros _ _ t' E. discriminate E.
Qed.

Theorem wire_payload sec rd m evs :
  let s := run mof qof pq pay (init_m sec rd m) evs in
  Forall (fun w => match w_item w with
                   | WReq t => w_pay w = wire_pay mof pay t
                   | WRedir _ => w_pay w = nopay end) (wire s)
  /\ (waited s = true -> redirects s = [] -> forall t, latest s = Some t -> rq_pay s = pay t).
Proof.
  cbn zeta.
  assert (G : forall evs s, InvP s -> InvP (run mof qof pq pay s evs)).
  { induction evs0 as [|e evs0 IH]; intros s H; [assumption|]. cbn [run fold_left].
    fold (run mof qof pq pay (step mof qof pq pay s e) evs0). apply IH. now apply invP_step. }
  apply G. unfold InvP, init_m. cbn. split; [constructor | discriminate].
Qed.

End WithMethods.
