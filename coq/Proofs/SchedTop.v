(* Lifting the invariants of Proofs/SchedLife.v and Proofs/SchedFrame.v to whole
   runs (do_run), and the reading of the lifecycle automaton as a language. *)
From Hio Require Import Base.Prelude Base.AMap Base.Time Model.Sched Proofs.SchedEqs Proofs.SchedFrame Proofs.SchedLife.

Section Top.
Context {T : Type} `{Time T}.
Implicit Types s : st T.

Lemma linv_init (p : prog T) : LInv (init_st p).
Proof. intro j. unfold okj, get_gen, evs, init_st; cbn. exact I. Qed.

Lemma same_tyme s t : samelife s (set_tyme s t). Proof. intro j. split; reflexivity. Qed.
Lemma same_rlive s (v : bool) : samelife s (set_rlive s v). Proof. intro j. split; reflexivity. Qed.

Lemma linv_end tk fuel s k : is_life k = false -> LInv s -> LInv (emit (close_own tk fuel s 0%N) k 0%N).
Proof.
  intros Hk L. eapply linv_same; [|now apply same_nonlife].
  destruct (linv_all tk fuel) as (_ & _ & _ & _ & Ico & _). now apply Ico.
Qed.

Lemma cycle_loop_linv tk cycles : forall fuel s limit stop,
  LInv s -> LInv (cycle_loop tk cycles fuel s limit stop).
Proof.
  induction cycles as [|c IH]; intros fuel s limit stop L; cbn [cycle_loop].
  - now apply linv_oof.
  - destruct (recur_pass tk fuel s 0%N) as [s1 r] eqn:E.
    assert (L1 : LInv s1).
    { destruct (linv_all tk fuel) as (_ & _ & _ & _ & _ & _ & _ & _ & _ & Irp & _). eapply Irp; eassumption. }
    destruct r as [t| |[|]|]; try (apply linv_end; [reflexivity|assumption]); try assumption.
    + set (s2 := set_tyme s1 (tadd (tyme s1) tk)).
      assert (L2 : LInv s2) by (eapply linv_same; [exact L1|apply same_tyme]).
      destruct (deeds (get_sched s2 0%N)).
      * apply linv_end; [reflexivity|]. now apply linv_done.
      * destruct (_ && _); [apply linv_end; [reflexivity|assumption]|apply IH; assumption].
    + set (s2 := set_tyme s1 (tadd (tyme s1) tk)).
      assert (L2 : LInv s2) by (eapply linv_same; [exact L1|apply same_tyme]).
      destruct (deeds (get_sched s2 0%N)).
      * apply linv_end; [reflexivity|]. now apply linv_done.
      * destruct (_ && _); [apply linv_end; [reflexivity|assumption]|apply IH; assumption].
Qed.

Theorem do_run_linv cycles fuel (p : prog T) : LInv (do_run cycles fuel p).
Proof.
  unfold do_run.
  destruct (enter_own (p_tock p) fuel (init_st p) 0%N (p_doers p)) as [s1 r] eqn:E.
  assert (L1 : LInv s1).
  { destruct (linv_all (p_tock p) fuel) as (_ & _ & _ & _ & _ & _ & Ieo & _).
    eapply Ieo; [apply linv_init|exact E]. }
  destruct r; try (apply linv_end; [reflexivity|assumption]); try assumption.
  - apply cycle_loop_linv. eapply linv_same; [exact L1|apply same_rlive].
  - apply cycle_loop_linv. eapply linv_same; [exact L1|apply same_rlive].
Qed.

(* ---------- the automaton as a language (events oldest first) ---------- *)

Definition terminal (k : ekind) : Prop := k = Clean \/ k = Cease \/ k = Abort.

(* one complete lifecycle; the second form (no clean/cease/abort) is what a
   KeyboardInterrupt passing through the doer leaves behind (finding D40-kbd) *)
Inductive life : list ekind -> Prop :=
| life_full n t : terminal t -> life (Enter :: repeat Recur n ++ [t; Exit])
| life_kbd n : life (Enter :: repeat Recur n ++ [Exit]).

Inductive lives : list ekind -> Prop :=
| lives_nil : lives []
| lives_cons l r : life l -> lives r -> lives (l ++ r).

(* a lifecycle in progress: entered and recurring, possibly already past its
   clean/cease/abort and about to exit *)
Inductive open_life : list ekind -> Prop :=
| open_run n : open_life (Enter :: repeat Recur n)
| open_end n t : terminal t -> open_life (Enter :: repeat Recur n ++ [t]).

Lemma lives_snoc a l : lives a -> life l -> lives (a ++ l).
Proof.
  induction 1 as [|x r Hx Hr IH]; intro Hl.
  - cbn. rewrite <- (app_nil_r l). constructor; [assumption|constructor].
  - rewrite <- app_assoc. constructor; [assumption|now apply IH].
Qed.

Lemma repeat_snoc {A} (x : A) n : repeat x n ++ [x] = repeat x (S n).
Proof. induction n as [|n IH]; cbn; [reflexivity|]. now rewrite IH. Qed.

(* what each automaton state says about the event list *)
Definition reads (q : lst) (l : list ekind) : Prop :=
  match q with
  | LIdle => lives l
  | LOpen => exists a n, l = a ++ Enter :: repeat Recur n /\ lives a
  | LEnding => exists a n t, l = a ++ Enter :: repeat Recur n ++ [t] /\ terminal t /\ lives a
  | LBad => True
  end.

Lemma lstate_reads (l : list ekind) : reads (lstate l) (rev l).
Proof.
  induction l as [|k older IH]; cbn [lstate rev]; [constructor|].
  destruct (lstate older) eqn:Q; cbn [reads] in IH.
  - (* idle *) destruct k; cbn [lstep reads]; try exact I.
    exists (rev older), 0%nat. split; [reflexivity|assumption].
  - (* open *) destruct IH as (a & n & E & La). rewrite E.
    destruct k; cbn [lstep reads]; try exact I.
    + exists a, (S n). split; [|assumption].
      rewrite <- app_assoc. cbn [app]. now rewrite repeat_snoc.
    + exists a, n, Clean. split; [now rewrite <- app_assoc|]. split; [left; reflexivity|assumption].
    + exists a, n, Cease. split; [now rewrite <- app_assoc|]. split; [right; left; reflexivity|assumption].
    + exists a, n, Abort. split; [now rewrite <- app_assoc|]. split; [right; right; reflexivity|assumption].
    + rewrite <- app_assoc. apply lives_snoc; [assumption|]. cbn [app]. apply life_kbd.
  - (* ending *) destruct IH as (a & n & t & E & Ht & La). rewrite E.
    destruct k; cbn [lstep reads]; try exact I.
    rewrite <- app_assoc. apply lives_snoc; [assumption|].
    cbn [app]. rewrite <- app_assoc. cbn [app]. now apply life_full.
  - destruct k; exact I.
Qed.

(* events of doer j, oldest first *)
Definition events (j : id) s : list ekind := rev (evs j s).

(* the state of the generator and the shape of its event list agree *)
Definition life_ok (g : gstate) (l : list ekind) : Prop :=
  match g with
  | GNew | GDone => lives l
  | GSusp _ => exists a n, l = a ++ Enter :: repeat Recur n /\ lives a
  | GRun _ => exists a b, l = a ++ b /\ lives a /\ open_life b
  end.

Lemma okj_life_ok s j : okj s j -> life_ok (get_gen s j) (events j s).
Proof.
  unfold okj, events. intro K. pose proof (lstate_reads (evs j s)) as R.
  destruct (get_gen s j), (lstate (evs j s)); cbn [okg] in K; try contradiction; cbn [reads life_ok] in *;
    try assumption.
  - destruct R as (a & n & E & La). exists a, (Enter :: repeat Recur n). repeat split; try assumption. constructor.
  - destruct R as (a & n & t & E & Ht & La). exists a, (Enter :: repeat Recur n ++ [t]).
    repeat split; try assumption. now constructor.
Qed.

Theorem do_run_lifecycles cycles fuel (p : prog T) (j : id) :
  life_ok (get_gen (do_run cycles fuel p) j) (events j (do_run cycles fuel p)).
Proof. apply okj_life_ok, do_run_linv. Qed.

End Top.
