From Hio Require Import Base.Prelude Model.Sched.
Theorem C02_placeholder : True. Proof. exact I. Qed.
Print Assumptions C02_placeholder.
