(* C10 — connection-level socket faults never escape servicing; the connection is marked
   cutoff (or aborted); other connections of the same server keep being serviced.
   Statements only; proofs are in Proofs/TcpFaultProofs.v.

   FULL STATEMENT (false of the code as it is, see C10_no_escape_refuted):
     forall s in all_sites, forall f in faults_at s,
       outcome_of s f <> ORaised /\ outcome_of s f = expected s
   where all_sites = send and receive of Client, ClientTls, Remoter, RemoterTls,
   RemoterTls.handshake, ClientTls.handshake, Client.accept, and faults_at s = the
   connection-level faults injectable there: OSError with ECONNRESET EPIPE ENETRESET
   ENETUNREACH EHOSTUNREACH ENETDOWN EHOSTDOWN ETIMEDOUT ECONNREFUSED (+ ECONNABORTED
   at handshakes), and SSLError with SSL_ERROR_EOF / SSL_ERROR_ZERO_RETURN at TLS sites.
   Two classes of the domain raise (open findings): EPIPE at the eight send/receive
   sites (D5) and every fault at ClientTls.handshake (D9).  [defect] is exactly that
   class: C10_raises_exactly_defects shows the hypothesis of the positive theorem is
   the weakest possible.  (SSL EOF at the TLS send/receive sites was a third class, D6,
   repaired in /repo; the model has the repaired tables.) *)
From Hio Require Import Base.Prelude Model.Stream Model.TcpFault Proofs.TcpFaultProofs.

(* Finite domain (11 sites x 9..12 faults), decided by vm_compute and lifted with forallb_forall. *)
Theorem C10_no_escape_partial : forall s f,
  In s all_sites -> In f (faults_at s) -> defect s f = false ->
  outcome_of s (fst f) (snd f) = expected s /\ handled (outcome_of s (fst f) (snd f)) = true.
Proof. exact table_handled. Qed.
Print Assumptions C10_no_escape_partial.

Theorem C10_no_escape_refuted :
  exists s f, In s all_sites /\ In f (faults_at s) /\ outcome_of s (fst f) (snd f) = ORaised.
Proof. exists (SSend KRemoter), (FOs, EPIPE). vm_compute. intuition. Qed.
Print Assumptions C10_no_escape_refuted.

Theorem C10_no_escape_refuted_handshake :
  exists f, In f (faults_at SHsClient) /\ outcome_of SHsClient (fst f) (snd f) = ORaised.
Proof. exists (FSsl, SSL_EOF). vm_compute. intuition. Qed.
Print Assumptions C10_no_escape_refuted_handshake.

Theorem C10_raises_exactly_defects : forall s f,
  In s all_sites -> In f (faults_at s) ->
  (outcome_of s (fst f) (snd f) = ORaised <-> defect s f = true).
Proof. exact table_raises_iff. Qed.
Print Assumptions C10_raises_exactly_defects.

(* In ANY state of a connection with data pending, a fault the table classifies as cutting
   makes serviceSends return normally with cutoff set and nothing else changed ... *)
Theorem C10_send_fault_marks_cutoff : forall c s e,
  classify (kd c) DTx e = CutOff -> txbs s <> [] -> gate c s = true ->
  service_sends c s (SFail e) = (cut s, Ok tt, 1).
Proof. exact send_fault_marks. Qed.
Print Assumptions C10_send_fault_marks_cutoff.

(* ... and makes serviceReceives return normally with cutoff set, keeping every chunk
   received before the fault in the same call, txbs untouched. *)
Theorem C10_recv_fault_marks_cutoff : forall c chunks s e rest,
  classify (kd c) DRx e = CutOff -> gate c s = true ->
  Forall (fun d => d <> []) chunks ->
  let x := service_receives c s (map RData chunks ++ RFail e :: rest) in
  snd (fst x) = Ok tt /\ cutoff (st x) = true /\ rxbs (st x) = rxbs s ++ concat chunks /\
  txbs (st x) = txbs s /\ k_sent (st x) = k_sent s /\ snd x = S (length chunks).
Proof. exact recv_fault_marks. Qed.
Print Assumptions C10_recv_fault_marks_cutoff.

(* Server.service / ServerTls.service: if no send answer of the pass is an error the table
   re-raises (in particular: only would-block, data, EOF and handled connection-level
   faults, on any number of connections), the pass does not raise and every connection
   ends exactly as if it had been served alone: its new state is a function of its own
   state and its own socket's answers only.  Receive-side errors of any kind never
   escape (the connection is removed and closed). *)
Theorem C10_isolation : forall c p sv,
  (forall ca, no_raise_send c (send_of (p_io p) ca) = true) ->
  snd (service c p sv) = Ok tt /\
  ixes (fst (service c p sv)) = flat_map (alone c (p_io p)) (present c p sv).
Proof. exact isolation. Qed.
Print Assumptions C10_isolation.

(* ... and if moreover no receive answer is a re-raised code (so: any mix of data, would-block,
   EOF and handled connection-level faults on any of the connections), nobody is removed:
   the server keeps exactly the connections it had (plus the handshakes completed in this
   pass), each in the state its own answers lead to (cutoff where C10_*_fault_marks_cutoff
   says so). *)
Theorem C10_server_no_escape : forall c p sv,
  (forall ca, no_raise_send c (send_of (p_io p) ca) = true) ->
  (forall ca, forallb (no_raise_recv c) (recvs_of (p_io p) ca) = true) ->
  snd (service c p sv) = Ok tt /\
  ixes (fst (service c p sv)) = map (served c (p_io p)) (present c p sv).
Proof. exact server_no_escape. Qed.
Print Assumptions C10_server_no_escape.

(* A connection accepted from an address that is still in .ixes (alive, cut off or closed): the old
   connection's socket is closed, the new connection takes its place (fresh state, same position), every
   other connection is untouched. *)
Theorem C10_replacement : forall ca l,
  mem_ix ca l = true ->
  accept_ix [(ca, false)] l = (put_ix ca l, [ca]) /\
  lookup ca (put_ix ca l) = Some (init true) /\
  map fst (put_ix ca l) = map fst l /\
  (forall k, N.eqb k ca = false -> lookup k (put_ix ca l) = lookup k l).
Proof. exact replacement. Qed.
Print Assumptions C10_replacement.

Example C10_replacement_example :
  let c := server_cfg false in
  let old := cut (set_txbs (init true) [7;7]%N) in
  let sv := {| ixes := [(1%N, init true); (2%N, old)]; cxes := []; closed := [] |} in
  let p := {| p_tx := [(1%N, [5]%N)]; p_acc := [(2%N, false); (3%N, true)]; p_hs := [];
              p_io := [(1%N, {| sc_recvs := []; sc_send := SAccept 1 |});
                       (2%N, {| sc_recvs := [RData [9]%N]; sc_send := SAccept 1 |})] |} in
  mem_ix 2 (ixes sv) = true /\ snd (service c p sv) = Ok tt /\
  map (fun x => (fst x, cutoff (snd x), txbs (snd x), rxbs (snd x))) (ixes (fst (service c p sv)))
    = [(1, false, [], []); (2, false, [], [9])]%N /\
  closed (fst (service c p sv)) = [2; 3]%N.
Proof. vm_compute. repeat split. Qed.

(* Pending TLS handshakes on the server: never raise, each decided by its own answer. *)
Theorem C10_server_handshakes : forall hs l,
  let '(pend, conn, ab) := service_cxes hs l in
  pend = filter (fun ca => hs_out_eqb (remoter_handshake (hs_of hs ca)) HsPending) l /\
  conn = filter (fun ca => hs_out_eqb (remoter_handshake (hs_of hs ca)) HsConnected) l /\
  ab = filter (fun ca => hs_out_eqb (remoter_handshake (hs_of hs ca)) HsAborted) l.
Proof. exact service_cxes_pointwise. Qed.
Print Assumptions C10_server_handshakes.

(* The hypothesis of C10_isolation is needed: serviceSendsAllIx has no handler, so with the
   EPIPE defect a broken pipe on connection 1 escapes Server.service and connection 2,
   healthy, is not serviced in that pass (its 2 queued bytes stay queued). *)
Theorem C10_isolation_refuted :
  let c := server_cfg false in
  let sv := {| ixes := [(1%N, init true); (2%N, init true)]; cxes := []; closed := [] |} in
  let p := {| p_tx := [(1%N, [7;7]%N); (2%N, [8;8]%N)]; p_acc := []; p_hs := [];
              p_io := [(1%N, {| sc_recvs := []; sc_send := SFail EPIPE |});
                       (2%N, {| sc_recvs := []; sc_send := SAccept 2 |})] |} in
  In (FOs, EPIPE) (faults_at (SSend KRemoter)) /\
  snd (service c p sv) = Exc OSErr /\
  map (fun x => txbs (snd x)) (ixes (fst (service c p sv))) = [[7;7]%N; [8;8]%N] /\
  map (fun x => txbs (snd x)) (flat_map (alone c (p_io p)) (present c p sv)) = [[7;7]%N; []].
Proof. vm_compute. intuition. Qed.
Print Assumptions C10_isolation_refuted.

(* Non-vacuity of the positive theorems. *)
Example C10_table_example :
  In (SRecv KRemoterTls) all_sites /\ In (FSsl, SSL_EOF) (faults_at (SRecv KRemoterTls)) /\
  defect (SRecv KRemoterTls) (FSsl, SSL_EOF) = false /\
  outcome_of (SRecv KRemoterTls) FSsl SSL_EOF = OCut /\
  outcome_of SHsRemoter FOs ECONNABORTED = OAborted /\ outcome_of SConnect FOs ECONNREFUSED = ORetry.
Proof. vm_compute. intuition. Qed.

Example C10_isolation_example :
  let c := server_cfg true in
  let sv := {| ixes := [(1%N, init true); (2%N, init true)]; cxes := [3%N; 4%N]; closed := [] |} in
  let p := {| p_tx := [(1%N, [7;7]%N); (2%N, [8;8]%N)];
              p_acc := []; p_hs := [(3%N, HFail FOs ECONNRESET); (4%N, HDone)];
              p_io := [(1%N, {| sc_recvs := [RData [5]%N; RFail ECONNRESET]; sc_send := SAccept 1 |});
                       (2%N, {| sc_recvs := [RData [6]%N]; sc_send := SAccept 1 |});
                       (4%N, {| sc_recvs := [RData [9]%N]; sc_send := SFail SSL_EOF |})] |} in
  (forall ca, no_raise_send c (send_of (p_io p) ca) = true) /\
  snd (service c p sv) = Ok tt /\
  map (fun x => (fst x, cutoff (snd x), txbs (snd x), rxbs (snd x))) (ixes (fst (service c p sv)))
    = [(1, true, [7;7], [5]); (2, false, [8], [6]); (4, false, [], [9])]%N /\
  closed (fst (service c p sv)) = [3%N].
Proof.
  split.
  - intros ca. unfold send_of. cbn [lookup p_io].
    destruct (N.eqb ca 1); [reflexivity|]. destruct (N.eqb ca 2); [reflexivity|].
    destruct (N.eqb ca 4); reflexivity.
  - vm_compute. intuition.
Qed.
