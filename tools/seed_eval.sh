#!/bin/bash
# tools/seed_eval.sh <prop> <outdir-of-seeding-agent> [name]
# Confirms a seeded change independently (patch applies to /repo HEAD in a scratch copy, demo passes without and
# fails with it), runs the property's quick check (and thorough if quick misses) against the patched copy, and
# stores patch.diff, demo.py, notes.md, meta.json under /verif/seeded/<prop>-<name>/.
set -u
PROP="$1"; SRC="$2"; NAME="${3:-1}"
V="$(cd "$(dirname "$0")/.." && pwd)"
D="$V/seeded/$PROP-$NAME"; mkdir -p "$D"
cp "$SRC/patch.diff" "$D/patch.diff"; cp "$SRC/demo.py" "$D/demo.py" 2>/dev/null; cp "$SRC/notes.md" "$D/notes.md" 2>/dev/null
W="/var/tmp/hio-seed-$$"; mkdir -p "$W/clean" "$W/mut" "$W/out"
cp -r /repo/src "$W/clean/src"; cp -r /repo/src "$W/mut/src"; cp -r /repo/tests "$W/clean/tests"; cp -r /repo/tests "$W/mut/tests"
( cd "$W/mut" && patch -p1 -s < "$D/patch.diff" ) || { echo "PATCH DOES NOT APPLY"; rm -rf "$W"; exit 3; }
run_demo() { ( cd "$W/$1" && sed "s#/tmp/seed[0-9]*-$PROP/src#$W/$1/src#g; s#/tmp/seed[0-9]*-$PROP#$W/$1#g; s#/tmp/seed3-$PROP/src#$W/$1/src#g; s#/tmp/seed3-$PROP#$W/$1#g; s#/tmp/seed2-$PROP/src#$W/$1/src#g; s#/tmp/seed2-$PROP#$W/$1#g; s#/tmp/seed-$PROP/src#$W/$1/src#g; s#/tmp/seed-$PROP#$W/$1#g" "$D/demo.py" > "$W/$1/demo.py" && PYTHONPATH="$W/$1/src" PYTHONWARNINGS=ignore TMPDIR="$W/out" timeout 300 /venv/bin/python "$W/$1/demo.py" > "$W/out/demo-$1.log" 2>&1 ); echo $?; }
if grep -q "def test_" "$D/demo.py" && ! grep -q "__main__" "$D/demo.py"; then
  run_demo() { ( cd "$W/$1" && sed "s#/tmp/seed[0-9]*-$PROP/src#$W/$1/src#g; s#/tmp/seed[0-9]*-$PROP#$W/$1#g; s#/tmp/seed3-$PROP/src#$W/$1/src#g; s#/tmp/seed3-$PROP#$W/$1#g; s#/tmp/seed2-$PROP/src#$W/$1/src#g; s#/tmp/seed2-$PROP#$W/$1#g; s#/tmp/seed-$PROP/src#$W/$1/src#g; s#/tmp/seed-$PROP#$W/$1#g" "$D/demo.py" > "$W/$1/test_demo.py" && PYTHONPATH="$W/$1/src" PYTHONWARNINGS=ignore TMPDIR="$W/out" timeout 300 /venv/bin/python -m pytest -q -p no:cacheprovider "$W/$1/test_demo.py" > "$W/out/demo-$1.log" 2>&1 ); echo $?; }
fi
RC_CLEAN=$(run_demo clean); RC_MUT=$(run_demo mut)
echo "demo: unchanged rc=$RC_CLEAN  changed rc=$RC_MUT"
tail -3 "$W/out/demo-mut.log"
# the property's check against the patched tree
VERIF_REPO="$W/mut" VERIF_OUT="$W/out" "$V/check" "$PROP" --tier quick > "$W/out/check-quick.log" 2>&1; RC_Q=$?
tail -2 "$W/out/check-quick.log" | cut -c1-300
RC_T="-"
if [ "$RC_Q" = "0" ]; then
  VERIF_SKIP_COQCHK=1 VERIF_REPO="$W/mut" VERIF_OUT="$W/out" "$V/check" "$PROP" --tier thorough > "$W/out/check-thorough.log" 2>&1; RC_T=$?
  tail -2 "$W/out/check-thorough.log" | cut -c1-300
fi
python3 - "$W/out" "$D/meta.json" "$PROP" "$NAME" "$RC_CLEAN" "$RC_MUT" "$RC_Q" "$RC_T" "$(git -C /repo rev-parse --short HEAD)" <<'PY'
import json, glob, sys
out, dest, prop, name, rc_clean, rc_mut, rc_q, rc_t, head = sys.argv[1:10]
fs = sorted(glob.glob(out + "/replays/*.json"))
why = (json.load(open(fs[0])).get("why", "") if fs else "")[:400]
import os
history = []
if os.path.exists(dest):
    try:
        old = json.load(open(dest))
        history = old.get("history", []) + [{"check_quick_rc": old.get("check_quick_rc"), "check_thorough_rc": old.get("check_thorough_rc"),
                                            "note": old.get("note", "")}]
    except Exception:
        pass
json.dump({"history": history,
           "property": prop, "name": name, "demo_rc_unchanged": int(rc_clean), "demo_rc_changed": int(rc_mut),
           "check_quick_rc": int(rc_q), "check_thorough_rc": rc_t, "first_violation": why,
           "ran": f"tools/seed_eval.sh {prop} <agent output dir> {name}: patch applied to a scratch copy of /repo/src at {head}; "
                  f"demo.py run on both copies; ./check {prop} against the patched copy (VERIF_REPO), thorough only if quick missed it"},
          open(dest, "w"), indent=1)
PY
rm -rf "$W"
echo "stored in $D"
