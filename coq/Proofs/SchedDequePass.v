(* One pass sends only the deeds in front of its marker (C06: a doer added to the
   scheduler whose pass is running is not sent in that pass).
   [grw_all]: during nested calls the deque of an executing scheduler (or the
   root) changes only by deletion of deeds and by appending deeds at its end —
   for ALL programs, extend() included.  [loop_sent]: recur_loop instrumented with
   the list of doers it sends (same states, [loop_sent_erase]); that list is a
   subsequence of the deeds in front of the marker when the loop starts. *)
From Hio Require Import Base.Prelude Base.AMap Base.Time Model.Sched Proofs.SchedEqs Proofs.SchedFrame Proofs.SchedLife
  Proofs.SchedDeque Proofs.SchedDequeHold Proofs.SchedDequeAll Proofs.SchedDequeEffects Proofs.SchedDequeEpos
  Proofs.SchedDequeSortB.

Section Pass.
Context {T : Type} `{Time T}.
Implicit Types s a b : st T.
Variable tk : T.

(* ---------- deletion + appending at the end ---------- *)

Definition grow (l' l : list (deed T)) : Prop := exists q add, l' = filter (keepf q) l ++ add /\ mf add.

Lemma keepf_true (l : list (deed T)) : filter (keepf (fun _ => true)) l = l.
Proof. induction l as [|d l IH]; [reflexivity|]. cbn [filter]. destruct d; cbn [keepf]; now rewrite IH. Qed.

Lemma grow_refl l : grow l l.
Proof. exists (fun _ => true), []. split; [now rewrite keepf_true, app_nil_r|intros []]. Qed.

Lemma filter_keepf2 q1 q2 (l : list (deed T)) :
  filter (keepf q2) (filter (keepf q1) l) = filter (keepf (fun i => q1 i && q2 i)) l.
Proof.
  induction l as [|d l IH]; [reflexivity|]. cbn [filter].
  destruct d as [|i re]; cbn [keepf filter]; [now rewrite IH|].
  destruct (q1 i); cbn [andb filter keepf]; [destruct (q2 i); now rewrite IH|exact IH].
Qed.

Lemma grow_trans l1 l2 l3 : grow l2 l1 -> grow l3 l2 -> grow l3 l1.
Proof.
  intros (q1 & a1 & E1 & M1) (q2 & a2 & E2 & M2). subst.
  exists (fun i => q1 i && q2 i), (filter (keepf q2) a1 ++ a2). split.
  - now rewrite filter_app, filter_keepf2, app_assoc.
  - apply mf_app. split; [now apply mf_filter|exact M2].
Qed.

Lemma grow_filter q l : grow (filter (keepf q) l) l.
Proof. exists q, []. split; [now rewrite app_nil_r|intros []]. Qed.
Lemma grow_app l add : mf add -> grow (l ++ add) l.
Proof. intro M. exists (fun _ => true), add. split; [now rewrite keepf_true|exact M]. Qed.

Definition gq (j : id) a s : Prop := grow (dq s j) (dq a j).
Lemma gq_same j a s s' : dq s' j = dq s j -> gq j a s -> gq j a s'.
Proof. unfold gq. intros E G. now rewrite E. Qed.
Lemma gq_step j a s s' : grow (dq s' j) (dq s j) -> gq j a s -> gq j a s'.
Proof. unfold gq. intros G1 G. eapply grow_trans; eassumption. Qed.

Definition D0 s : Prop := get (defs s) 0%N = None.

(* prot is kept by the remaining three functions as well *)
Lemma prot_more f j :
  (forall s i s' r, prot s j -> gen_start tk f s i = (s', r) -> prot s' j) /\
  (forall s sid ids s' r, prot s j -> enter_own tk f s sid ids = (s', r) -> prot s' j) /\
  (forall s ids acc s' r acc', prot s j -> enter_local tk f s ids acc = (s', r, acc') -> prot s' j).
Proof.
  destruct (framej_all tk j f) as (Jst & Jrs & Jsd & Jcl & Jco & Jli & Jeo & Jel & Jef & Jrp & Jrl).
  destruct (frame_all tk f) as (Fst & Frs & Fsd & Fcl & Fco & Fli & Feo & Fel & Fef & Frp & Frl).
  assert (K : forall s s', steps s s' -> (running s j -> noj j s s') -> prot s j -> prot s' j).
  { intros s s' St Nj [R|[Hz Dz]].
    - left. eapply running_noj; [exact R|now apply Nj].
    - right. split; [exact Hz|]. now rewrite (steps_defs _ _ St). }
  repeat split; intros.
  - eapply K; [eapply Fst; [apply st_refl|eassumption]| |eassumption]. intro R. eapply Jst; [exact R|apply noj_refl|eassumption].
  - eapply K; [eapply Feo; [apply st_refl|eassumption]| |eassumption]. intro R. eapply Jeo; [exact R|apply noj_refl|eassumption].
  - eapply K; [eapply Fel; [apply st_refl|eassumption]| |eassumption]. intro R. eapply Jel; [exact R|apply noj_refl|eassumption].
Qed.

Lemma prot_ne_start s i j : prot s j -> startable s i = true -> get (defs s) i <> None -> i <> j.
Proof.
  intros [R|[Hz Dz]] St D.
  - eapply startable_ne; eassumption.
  - intro Heq. subst. congruence.
Qed.

Definition grw_at (j : id) (f : nat) : Prop :=
  (forall a s i s' r, prot s j -> gq j a s -> gen_start tk f s i = (s', r) -> gq j a s') /\
  (forall a s i k sc pc s' r, prot s j -> i <> j -> gq j a s -> run_step tk f s i k sc pc = (s', r) -> gq j a s') /\
  (forall a s i s' r, prot s j -> gq j a s -> gen_send tk f s i = (s', r) -> gq j a s') /\
  (forall a s i, prot s j -> gq j a s -> gq j a (gen_close tk f s i)) /\
  (forall a s sid, sid <> j -> prot s j -> gq j a s -> gq j a (close_own tk f s sid)) /\
  (forall a s ds, prot s j -> gq j a s -> gq j a (close_list tk f s ds)) /\
  (forall a s sid ids s' r, sid <> j -> prot s j -> gq j a s -> enter_own tk f s sid ids = (s', r) -> gq j a s') /\
  (forall a s ids acc s' r acc', prot s j -> mf acc -> gq j a s -> enter_local tk f s ids acc = (s', r, acc') ->
       gq j a s' /\ mf acc') /\
  (forall a s c es s' r, prot s j -> gq j a s -> run_effects tk f s c es = (s', r) -> gq j a s') /\
  (forall a s sid s' r, sid <> j -> prot s j -> gq j a s -> recur_pass tk f s sid = (s', r) -> gq j a s') /\
  (forall a s sid s' r, sid <> j -> prot s j -> gq j a s -> recur_loop tk f s sid = (s', r) -> gq j a s').

Lemma grw_all j : forall f, grw_at j f.
Proof.
  induction f as [|f IH].
  - unfold grw_at. repeat match goal with |- _ /\ _ => split end; intros;
      try match goal with E : _ = _ |- _ => cbn in E; inversion E; subst; clear E end; cbn; try assumption.
    split; assumption.
  - destruct IH as (Ist & Irs & Isd & Icl & Ico & Ili & Ieo & Iel & Ief & Irp & Irl).
    destruct (prot_all tk f j) as (Prs & Psd & Pcl & Pco & Pli & Pef & Prp & Prl).
    destruct (prot_more f j) as (Pst & Peo & Pel).
    assert (PS : forall s0 (P0 : prot s0 j) s1, (forall x, get_gen s1 x = get_gen s0 x) -> defs s1 = defs s0 -> prot s1 j).
    { intros s0 P0 s1 Hg Hd. now apply (prot_same s0). }
    unfold grw_at. repeat match goal with |- _ /\ _ => split end.
    + (* gen_start *)
      intros a s i s' r P G E. rewrite gen_start_S in E.
      destruct (startable s i) eqn:St; cbn [negb] in E; [|fin; exact G].
      destruct (get (defs s) i) as [[k sc|t0 al kids]|] eqn:D; [| |fin; exact G].
      * assert (Hne : i <> j) by (eapply prot_ne_start; [exact P|exact St|congruence]).
        eapply Irs; [| | |exact E]; [|exact Hne|exact G].
        apply (prot_same (set_gen s i (GRun 0))); [reflexivity|reflexivity|now apply prot_gen].
      * assert (Hne : i <> j) by (eapply prot_ne_start; [exact P|exact St|congruence]).
        cbv zeta in E.
        set (s1 := emit (set_gen s i (GRun 0)) Enter i) in *.
        assert (P1 : prot s1 j) by (apply (prot_same (set_gen s i (GRun 0))); [reflexivity|reflexivity|now apply prot_gen]).
        destruct (enter_own tk f s1 i _) as [s2 r0] eqn:Ee.
        assert (G2 : gq j a s2) by (eapply Ieo; [exact Hne|exact P1|exact G|exact Ee]).
        assert (P2 : prot s2 j) by (eapply Peo; [exact P1|exact Ee]).
        destruct r0; fin; try exact G2.
        destruct kbd; (apply (Ico a _ i Hne); [|exact G2]); [exact P2|eapply PS; [exact P2|reflexivity|reflexivity]].
    + (* run_step *)
      intros a s i k sc pc s' r P Hne G E. rewrite run_step_S in E. cbv zeta in E.
      destruct (run_effects tk f s i _) as [s1 r0] eqn:Ee.
      assert (G1 : gq j a s1) by (eapply Ief; [exact P|exact G|exact Ee]).
      destruct r0; [| |destruct kbd|]; cbv beta iota zeta in E; try (destruct (f_out _)); fin; exact G1.
    + (* gen_send *)
      intros a s i s' r P G E. rewrite gen_send_S in E.
      destruct (get_gen s i) eqn:Gi; try (fin; exact G).
      destruct (get (defs s) i) as [[k sc|t0 al kids]|] eqn:D; [| |fin; exact G].
      * assert (Hne : i <> j) by (eapply prot_ne; [exact P|exact Gi|congruence]).
        eapply Irs; [| | |exact E]; [|exact Hne|exact G].
        apply (prot_same (set_gen s i (GRun pc))); [reflexivity|reflexivity|now apply prot_gen].
      * assert (Hne : i <> j) by (eapply prot_ne; [exact P|exact Gi|congruence]).
        cbv zeta in E.
        set (s1 := emit (set_gen s i (GRun pc)) Recur i) in *.
        assert (P1 : prot s1 j) by (apply (prot_same (set_gen s i (GRun pc))); [reflexivity|reflexivity|now apply prot_gen]).
        destruct (recur_pass tk f s1 i) as [s2 r0] eqn:Ee.
        assert (G2 : gq j a s2) by (eapply Irp; [exact Hne|exact P1|exact G|exact Ee]).
        assert (P2 : prot s2 j) by (eapply Prp; [exact P1|exact Ee]).
        assert (Fin : forall s3, gq j a s3 -> prot s3 j -> gq j a (set_gen (emit (close_own tk f s3 i) Exit i) i GDone)).
        { intros s3 G3 P3. apply (Ico a s3 i Hne P3 G3). }
        destruct r0; cbv beta iota zeta in E.
        -- match type of E with (if ?c then _ else _) = _ => destruct c end; fin; [apply Fin; [exact G2|exact P2]|exact G2].
        -- match type of E with (if ?c then _ else _) = _ => destruct c end; fin; [apply Fin; [exact G2|exact P2]|exact G2].
        -- fin. apply Fin; destruct kbd; assumption.
        -- fin. exact G2.
    + (* gen_close *)
      intros a s i P G. rewrite gen_close_S. destruct (get_gen s i) eqn:Gi; try exact G.
      destruct (get (defs s) i) as [[k sc|t0 al kids]|] eqn:D; [exact G| |exact G].
      cbv zeta. assert (Hne : i <> j) by (eapply prot_ne; [exact P|exact Gi|congruence]).
      apply (Ico a (emit (set_gen s i (GRun pc)) Cease i) i Hne); [|exact G].
      apply (prot_same (set_gen s i (GRun pc))); [reflexivity|reflexivity|now apply prot_gen].
    + (* close_own *)
      intros a s sid Hne P G. rewrite close_own_S. cbv zeta. apply Ili.
      * eapply PS; [exact P|reflexivity|reflexivity].
      * eapply gq_same; [|exact G]. apply dq_deeds_other. congruence.
    + (* close_list *)
      intros a s ds P G. rewrite close_list_S. destruct ds as [|[|i re] r]; [exact G|now apply Ili|].
      apply Ili; [now apply Pcl|now apply Icl].
    + (* enter_own *)
      intros a s sid ids s' r Hne P G E. rewrite enter_own_S in E.
      destruct ids as [|i rest]; [fin; exact G|]. cbv zeta in E.
      destruct (gen_start tk f _ i) as [s1 r0] eqn:Eg.
      assert (P0 : prot (set_done s i (Some false)) j) by (eapply PS; [exact P|reflexivity|reflexivity]).
      assert (G1 : gq j a s1) by (eapply Ist; [exact P0|exact G|exact Eg]).
      assert (P1 : prot s1 j) by (eapply Pst; [exact P0|exact Eg]).
      destruct r0; fin; try exact G1.
      * eapply Ieo; [exact Hne| | |exact E].
        -- eapply PS; [exact P1|reflexivity|reflexivity].
        -- eapply gq_same; [|exact G1]. apply dq_deeds_other. congruence.
      * eapply Ieo; [exact Hne|exact P1|exact G1|exact E].
    + (* enter_local *)
      intros a s ids acc s' r acc' P M G E. rewrite enter_local_S in E.
      destruct ids as [|i rest]; [fin; split; assumption|]. cbv zeta in E.
      destruct (gen_start tk f _ i) as [s1 r0] eqn:Eg.
      assert (P0 : prot (set_done s i (Some false)) j) by (eapply PS; [exact P|reflexivity|reflexivity]).
      assert (G1 : gq j a s1) by (eapply Ist; [exact P0|exact G|exact Eg]).
      assert (P1 : prot s1 j) by (eapply Pst; [exact P0|exact Eg]).
      destruct r0; fin.
      * eapply Iel; [exact P1| |exact G1|exact E]. apply mf_app. split; [exact M|intros [Hx|[]]; discriminate].
      * eapply Iel; [exact P1|exact M|exact G1|exact E].
      * split; [now apply Ili|intros []].
      * split; assumption.
    + (* run_effects *)
      intros a s c es s' r P G E. rewrite run_effects_S in E.
      destruct es as [|e rest]; [fin; exact G|].
      destruct (negb (live s match e with EExtend t _ => t | ERemove t _ => t end)); [eapply Ief; eassumption|].
      destruct e as [t news|t who]; cbv zeta in E.
      * (* extend: appends behind everything *)
        destruct (enter_local tk f s _ []) as [[s1 r0] acc] eqn:Ee.
        destruct (Iel a s _ [] s1 r0 acc P (fun x => x) G Ee) as [G1 Ma].
        assert (P1 : prot s1 j) by (eapply Pel; [exact P|exact Ee]).
        assert (G2 : forall dl, gq j a (emit (set_sched s1 t {| doers := dl; deeds := deeds (get_sched s1 t) ++ acc |}) ExtRet c)).
        { intro dl. destruct (N.eq_dec t j) as [Heq|Hne].
          - subst t. eapply gq_step; [|exact G1].
            change (grow (dq (set_sched s1 j {| doers := dl; deeds := deeds (get_sched s1 j) ++ acc |}) j) (dq s1 j)).
            rewrite dq_set_same. cbn [deeds]. now apply grow_app.
          - eapply gq_same; [|exact G1].
            change (dq (set_sched s1 t {| doers := dl; deeds := deeds (get_sched s1 t) ++ acc |}) j = dq s1 j).
            apply dq_set_other. congruence. }
        destruct r0; fin; try exact G1.
        -- eapply Ief; [|apply G2|exact E]. eapply PS; [exact P1|reflexivity|reflexivity].
        -- eapply Ief; [|apply G2|exact E]. eapply PS; [exact P1|reflexivity|reflexivity].
      * (* remove: deletes *)
        match type of E with run_effects tk f (emit (close_list tk f ?s1 ?l) RemRet c) c rest = _ =>
          assert (P1 : prot s1 j) by (eapply PS; [exact P|reflexivity|reflexivity]);
          assert (G1 : gq j a s1);
          [|eapply Ief; [| |exact E];
            [eapply PS; [apply (Pli s1 l P1)|reflexivity|reflexivity]
            |eapply gq_same; [|apply (Ili a s1 l P1 G1)]; reflexivity]]
        end.
        destruct (N.eq_dec t j) as [Heq|Hne].
        -- subst t. eapply gq_step; [|exact G]. rewrite dq_set_same. cbn [deeds].
           match goal with |- grow (filter ?p _) _ =>
             replace (filter p (deeds (get_sched s j))) with (filter (keepf (fun i => negb (memN i (dedupe (filter (fun d => memN d (doers (get_sched s j))) who) [])))) (dq s j))
               by (apply filter_ext; intros [|i re]; reflexivity) end.
           apply grow_filter.
        -- eapply gq_same; [|exact G]. apply dq_set_other. congruence.
    + (* recur_pass *)
      intros a s sid s' r Hne P G E. rewrite recur_pass_S in E. cbv zeta in E.
      eapply Irl; [exact Hne| | |exact E]; [eapply PS; [exact P|reflexivity|reflexivity]|].
      eapply gq_same; [|exact G]. apply dq_deeds_other. congruence.
    + (* recur_loop *)
      intros a s sid s' r Hne P G E. rewrite recur_loop_S in E.
      assert (SD : forall s0 l, gq j a s0 -> gq j a (set_deeds s0 sid l)).
      { intros s0 l G0. eapply gq_same; [|exact G0]. apply dq_deeds_other. congruence. }
      assert (SP : forall s0 l, prot s0 j -> prot (set_deeds s0 sid l) j).
      { intros s0 l P0. eapply PS; [exact P0|reflexivity|reflexivity]. }
      destruct (deeds (get_sched s sid)) as [|[|i re] rest]; [fin; exact G|fin; now apply SD|].
      cbv zeta in E. destruct (tleb re _).
      * destruct (gen_send tk f _ i) as [s2 g] eqn:Eg.
        assert (G2 : gq j a s2) by (eapply Isd; [| |exact Eg]; [now apply SP|now apply SD]).
        assert (P2 : prot s2 j) by (eapply Psd; [|exact Eg]; now apply SP).
        destruct g; fin; try exact G2.
        -- eapply Irl; [exact Hne| | |exact E]; [now apply SP|now apply SD].
        -- eapply Irl; [exact Hne|exact P2|exact G2|exact E].
      * eapply Irl; [exact Hne| | |exact E]; [now apply SP, SP|now apply SD, SD].
Qed.

(* ---------- recur_loop instrumented with the doers it sends ---------- *)

Fixpoint loop_sent (fuel : nat) (s : st T) (sid : id) {struct fuel} : st T * @gres T * list id :=
  match fuel with
  | O => (out_of_fuel s, @GFuel T, @nil id)
  | S f =>
    match deeds (get_sched s sid) return st T * @gres T * list id with
    | [] => (s, @GReturn T, @nil id)
    | DMark :: r => (set_deeds s sid r, @GReturn T, @nil id)
    | DDeed i re :: r =>
      let s1 := set_deeds s sid r in
      if tleb re (tyme s1) then
        match gen_send tk f s1 i return st T * @gres T * list id with
        | (s2, GYield t) =>
          let asap := match t with None => true | Some x => tfalsy x end in
          let re' := if asap then tadd (tyme s2) (sched_tock tk s2 sid)
                     else match t with Some x => tadd re x | None => re end in
          match loop_sent f (set_deeds s2 sid (deeds (get_sched s2 sid) ++ [DDeed i re'])) sid with
          | (s3, g3, l) => (s3, g3, i :: l)
          end
        | (s2, GReturn) => match loop_sent f s2 sid with (s3, g3, l) => (s3, g3, i :: l) end
        | (s2, GRaise kbd) => (s2, @GRaise T kbd, [i])
        | (s2, GFuel) => (s2, @GFuel T, [i])
        end
      else loop_sent f (set_deeds s1 sid (r ++ [DDeed i re])) sid
    end
  end.

Lemma loop_sent_erase : forall f s sid, fst (loop_sent f s sid) = recur_loop tk f s sid.
Proof.
  induction f as [|f IH]; intros s sid; [reflexivity|].
  rewrite recur_loop_S. cbn [loop_sent].
  destruct (deeds (get_sched s sid)) as [|[|i re] r]; [reflexivity|reflexivity|]. cbv zeta.
  destruct (tleb re _); [|apply IH].
  destruct (gen_send tk f _ i) as [s2 g]. destruct g as [t| |kbd|]; try reflexivity.
  - rewrite <- IH. destruct (loop_sent f _ sid) as [[s3 g3] l]. reflexivity.
  - rewrite <- IH. destruct (loop_sent f s2 sid) as [[s3 g3] l]. reflexivity.
Qed.

Inductive subseq : list id -> list id -> Prop :=
| sub_nil l : subseq [] l
| sub_take x l1 l2 : subseq l1 l2 -> subseq (x :: l1) (x :: l2)
| sub_skip x l1 l2 : subseq l1 l2 -> subseq l1 (x :: l2).

Lemma subseq_filter (q : id -> bool) l1 l2 : subseq l1 (filter q l2) -> subseq l1 l2.
Proof.
  revert l1. induction l2 as [|x l2 IH]; intros l1 S; [exact S|]. cbn [filter] in S.
  destruct (q x).
  - inversion S; subst; [constructor|constructor; now apply IH|apply sub_skip; now apply IH].
  - apply sub_skip. now apply IH.
Qed.

(* what one pass sends is a subsequence of what was in front of its marker *)
Theorem loop_sent_sub : forall f s x (u rr : list (deed T)) s' r l,
  prot s x -> dq s x = u ++ DMark :: rr -> mf u ->
  loop_sent f s x = (s', r, l) -> subseq l (dids u).
Proof.
  induction f as [|f IH]; intros s x u rr s' r l P Q Mu E; [cbn in E; fin; constructor|].
  cbn [loop_sent] in E. change (deeds (get_sched s x)) with (dq s x) in E. rewrite Q in E.
  destruct u as [|[|i re] u']; cbn [app] in E; [fin; constructor|exfalso; apply Mu; now left|].
  cbv zeta in E.
  assert (Mu' : mf u') by (intro Hin; apply Mu; now right).
  change (dids (DDeed i re :: u')) with (i :: dids u').
  set (s1 := set_deeds s x (u' ++ DMark :: rr)) in *.
  assert (P1 : prot s1 x) by (apply (prot_same s); [reflexivity|reflexivity|exact P]).
  destruct (tleb re (tyme s1)).
  - destruct (gen_send tk f s1 i) as [s2 g] eqn:Eg.
    destruct (grw_all x f) as (_ & _ & Gsd & _).
    destruct (Gsd s1 s1 i s2 g P1 (grow_refl _) Eg) as (q & add & Eq & Ma).
    unfold s1 in Eq. rewrite dq_deeds_same, filter_app in Eq. cbn [filter keepf] in Eq.
    rewrite <- app_assoc in Eq. cbn [app] in Eq.
    assert (P2 : prot s2 x) by (destruct (prot_all tk f x) as (_ & K & _); eapply K; [exact P1|exact Eg]).
    destruct g as [t| |kbd|].
    + destruct (loop_sent f _ x) as [[s3 g3] l3] eqn:El. fin. apply sub_take.
      apply (subseq_filter q). rewrite <- dids_keepf.
      eapply (IH _ x (filter (keepf q) u')); [| | |exact El].
      * apply (prot_same s2); [reflexivity|reflexivity|exact P2].
      * rewrite dq_deeds_same. change (deeds (get_sched s2 x)) with (dq s2 x). rewrite Eq, <- app_assoc. cbn [app].
        rewrite <- app_assoc. reflexivity.
      * now apply mf_filter.
    + destruct (loop_sent f s2 x) as [[s3 g3] l3] eqn:El. fin. apply sub_take.
      apply (subseq_filter q). rewrite <- dids_keepf.
      eapply (IH _ x (filter (keepf q) u')); [exact P2|exact Eq|now apply mf_filter|exact El].
    + fin. apply sub_take. constructor.
    + fin. apply sub_take. constructor.
  - apply sub_skip. eapply (IH _ x u' (rr ++ [DDeed i re])); [| | |exact E].
    + apply (prot_same s1); [reflexivity|reflexivity|exact P1].
    + rewrite dq_deeds_same, <- app_assoc. reflexivity.
    + exact Mu'.
Qed.

(* remove(): the removed deeds, taken from the un-rotated deque, inherit its order *)
Lemma dids_is_rem rd (l : list (deed T)) : dids (filter (is_rem rd) l) = filter (fun i => memN i rd) (dids l).
Proof.
  induction l as [|d l IH]; [reflexivity|]. cbn [filter]. destruct d as [|i re]; cbn [is_rem].
  - change (DMark :: l) with ([DMark] ++ l). rewrite dids_app. cbn. exact IH.
  - change (DDeed i re :: l) with ([DDeed i re] ++ l). rewrite dids_app. cbn [dids flat_map app filter].
    destruct (memN i rd); [|exact IH].
    change (DDeed i re :: filter (is_rem rd) l) with ([DDeed i re] ++ filter (is_rem rd) l). rewrite dids_app. cbn. now rewrite IH.
Qed.

Lemma remove_sorted ord rd (ds : list (deed T)) :
  srt ord (canon ds) -> srt ord (dids (filter (is_rem rd) (unrotate ds))).
Proof. intro S. rewrite dids_is_rem. now apply srt_filter. Qed.

End Pass.
