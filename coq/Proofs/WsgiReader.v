(* The independent reader of Model/Wsgi.v inverts the writer's encoding. *)
From Hio Require Import Base.Prelude Base.ListFacts Model.Wsgi Proofs.WsgiProofs.
From Coq Require Import ZifyBool.
Local Open Scope N_scope.

(* ---------- line splitting ---------- *)
Lemma split_crlf_cons2 c d s :
  split_crlf (c :: d :: s) =
  if (c =? 13) && (d =? 10) then Some ([], s)
  else match split_crlf (d :: s) with Some (l, r) => Some (c :: l, r) | None => None end.
Proof. reflexivity. Qed.

Lemma split_crlf_app : forall l r, ~ In 13 l -> split_crlf (l ++ 13 :: 10 :: r) = Some (l, r).
Proof.
  induction l as [|c l IH]; intros r Hn.
  - reflexivity.
  - assert (Hc : c <> 13) by (intro E; apply Hn; now left).
    assert (Hl : ~ In 13 l) by (intro E; apply Hn; now right).
    specialize (IH r Hl). cbn [List.app].
    destruct (l ++ 13 :: 10 :: r) as [|d s] eqn:E.
    { destruct l; discriminate. }
    rewrite split_crlf_cons2, IH.
    replace (c =? 13) with false by (symmetry; now apply N.eqb_neq). reflexivity.
Qed.

Lemma split_at_app x : forall l r, ~ In x l -> split_at x (l ++ x :: r) = Some (l, r).
Proof.
  induction l as [|c l IH]; intros r Hn; cbn [List.app split_at].
  - now rewrite N.eqb_refl.
  - assert (Hc : c <> x) by (intro E; apply Hn; now left).
    replace (c =? x) with false by (symmetry; now apply N.eqb_neq).
    rewrite IH; [reflexivity|]. intro E; apply Hn; now right.
Qed.

Lemma strip_ows_sp v : strip_ows (32 :: v) = strip_ows v.
Proof. reflexivity. Qed.

(* ---------- title-casing only changes the case of letters ---------- *)
Ltac case_ifs :=
  repeat match goal with
  | |- context [if ?b then _ else _] => let E := fresh "E" in destruct b eqn:E
  | H : context [if ?b then _ else _] |- _ => let E := fresh "E" in destruct b eqn:E
  end.

Lemma to_lower_idem c : to_lower (to_lower c) = to_lower c.
Proof. unfold to_lower, is_upper. case_ifs; lia. Qed.

Lemma lower_idem s : lower (lower s) = lower s.
Proof. unfold lower. rewrite map_map. apply map_ext. intros; apply to_lower_idem. Qed.

Lemma lower_title : forall s b, lower (title_from b s) = lower s.
Proof.
  induction s as [|c s IH]; intros b; cbn [title_from]; [reflexivity|].
  destruct (is_lower c) eqn:El; [|destruct (is_upper c) eqn:Eu];
    cbn [lower List.map]; fold (lower (title_from true s)); fold (lower (title_from false s));
    fold (lower s); rewrite IH; f_equal.
  - destruct b; [reflexivity|]. unfold to_lower, to_upper, is_upper, is_lower in *. rewrite El. case_ifs; lia.
  - destruct b; [|reflexivity]. apply to_lower_idem.
Qed.

Lemma title_nonletter x : is_upper x = false -> is_lower x = false ->
  forall s b, In x (title_from b s) -> In x s.
Proof.
  intros Hu Hl. induction s as [|c s IH]; intros b; cbn [title_from]; [auto|].
  destruct (is_lower c) eqn:El; [|destruct (is_upper c) eqn:Eu]; intros [E|E];
    try (right; eapply IH; eassumption); left.
  - destruct b; [assumption|]. exfalso. unfold to_upper, is_upper, is_lower in *. rewrite El in E. lia.
  - destruct b; [|assumption]. exfalso. unfold to_lower, is_upper, is_lower in *. rewrite Eu in E. lia.
  - assumption.
Qed.

Lemma title_nonnil s b : s <> [] -> title_from b s <> [].
Proof. destruct s as [|c s]; [congruence|]. intros _. cbn [title_from]. case_ifs; discriminate. Qed.

(* ---------- hexadecimal ---------- *)
Lemma hexval_digit d : d < 16 -> hexval (hexdigit d) = Some d.
Proof.
  intros H. unfold hexval, hexdigit. destruct (d <? 10) eqn:E.
  - replace ((48 <=? 48 + d) && (48 + d <=? 57)) with true by lia. f_equal. lia.
  - replace ((48 <=? 87 + d) && (87 + d <=? 57)) with false by lia.
    replace ((97 <=? 87 + d) && (87 + d <=? 102)) with true by lia. f_equal. lia.
Qed.

Lemma hexdigit_ge d : 48 <= hexdigit d.
Proof. unfold hexdigit. case_ifs; lia. Qed.

Lemma hex_acc_app : forall s a c d, hexval c = Some d ->
  hex_acc a (s ++ [c]) = match hex_acc a s with Some v => Some (v * 16 + d) | None => None end.
Proof.
  induction s as [|x s IH]; intros a c d H; cbn [List.app hex_acc].
  - now rewrite H.
  - destruct (hexval x); [now apply IH | reflexivity].
Qed.

Lemma to_hex_f_spec : forall f n, (N.to_nat n < f)%nat ->
  hex_acc 0 (to_hex_f f n) = Some n /\ to_hex_f f n <> [] /\ Forall (fun c => 48 <= c) (to_hex_f f n).
Proof.
  induction f as [|f IH]; intros n Hf; [lia|]. cbn [to_hex_f].
  destruct (n <? 16) eqn:E.
  - cbn [hex_acc]. rewrite hexval_digit by lia. cbn [hex_acc]. split; [|split]; [f_equal; lia | discriminate |].
    constructor; [apply hexdigit_ge | constructor].
  - assert (Hd : n / 16 < n) by (apply N.div_lt; lia).
    destruct (IH (n / 16)) as (H1 & H2 & H3); [lia|].
    split; [|split].
    + rewrite (hex_acc_app _ _ _ (n mod 16)) by (apply hexval_digit; apply N.mod_lt; lia).
      rewrite H1. f_equal. rewrite N.mul_comm. symmetry. apply N.div_mod'.
    + intro X. apply app_eq_nil in X. destruct X; discriminate.
    + apply Forall_app. split; [assumption|]. constructor; [apply hexdigit_ge | constructor].
Qed.

Lemma of_hex_to_hex n : of_hex (to_hex n) = Some n.
Proof.
  unfold of_hex, to_hex. destruct (to_hex_f_spec (S (N.to_nat n)) n) as (H1 & H2 & _); [lia|].
  destruct (to_hex_f (S (N.to_nat n)) n); [congruence|]. exact H1.
Qed.

Lemma to_hex_no_cr n : ~ In 13 (to_hex n).
Proof.
  unfold to_hex. destruct (to_hex_f_spec (S (N.to_nat n)) n) as (_ & _ & H3); [lia|].
  rewrite Forall_forall in H3. intro X. apply H3 in X. lia.
Qed.

(* ---------- header block ---------- *)
Definition wfh (h : header) : Prop :=
  fst h <> [] /\ ~ In 13 (fst h) /\ ~ In 58 (fst h) /\ ~ In 13 (snd h) /\ strip_ows (snd h) = snd h.

Lemma header_line_shape h more :
  header_line h ++ more = (title (fst h) ++ 58 :: 32 :: snd h) ++ 13 :: 10 :: more.
Proof. unfold header_line, s_colon_sp, crlf. rewrite <- !app_assoc. reflexivity. Qed.

Lemma read_headers_spec : forall hs fuel rest,
  Forall wfh hs -> (length hs < fuel)%nat ->
  read_headers fuel (List.concat (List.map header_line hs) ++ crlf ++ rest)
  = Some (List.map norm_header hs, rest).
Proof.
  induction hs as [|h hs IH]; intros fuel rest Hwf Hf; (destruct fuel as [|f]; [cbn [length] in Hf; lia|]).
  - reflexivity.
  - inversion Hwf as [|? ? (Hn & Hcr & Hco & Hvcr & Hst) Hwf']; subst.
    cbn [List.map List.concat read_headers]. rewrite <- app_assoc. rewrite header_line_shape.
    rewrite split_crlf_app.
    2:{ intro X. apply in_app_or in X. destruct X as [X|X].
        - apply Hcr. eapply title_nonletter; [reflexivity|reflexivity|exact X].
        - cbn [In] in X. destruct X as [X|[X|X]]; [discriminate|discriminate|contradiction]. }
    destruct (title (fst h) ++ 58 :: 32 :: snd h) as [|x l] eqn:E.
    { apply app_eq_nil in E. destruct E as [E _]. now apply title_nonnil in E. }
    cbn [is_nil]. rewrite <- E. rewrite split_at_app.
    2:{ intro X. apply Hco. eapply title_nonletter; [reflexivity|reflexivity|exact X]. }
    rewrite IH by (auto; cbn [length] in Hf; lia).
    unfold norm_header, title. rewrite lower_title, strip_ows_sp, Hst. reflexivity.
Qed.

Lemma length_concat_ge {A B} (f : A -> list B) : forall l,
  (forall x, In x l -> (1 <= length (f x))%nat) -> (length l <= length (List.concat (List.map f l)))%nat.
Proof.
  induction l as [|x l IH]; intros H; cbn [List.map List.concat length]; [lia|].
  rewrite app_length. specialize (H x (or_introl eq_refl)) as Hx.
  assert (length l <= length (List.concat (List.map f l)))%nat by (apply IH; intros; apply H; now right). lia.
Qed.

Lemma header_line_len h : (1 <= length (header_line h))%nat.
Proof. unfold header_line, s_colon_sp. rewrite !app_length. cbn [length]. lia. Qed.

(* ---------- lookups in normalised / extended header lists ---------- *)
Lemma name_is_norm l h : name_is l (norm_header h) = name_is l h.
Proof. unfold name_is, norm_header. cbn [fst]. now rewrite lower_idem. Qed.

Lemma hfind_norm l : forall hs, hfind l (List.map norm_header hs) = hfind l hs.
Proof.
  induction hs as [|h hs IH]; [reflexivity|]. cbn [List.map hfind]. rewrite name_is_norm, IH. reflexivity.
Qed.

Lemma hfind_app l : forall hs hs',
  hfind l (hs ++ hs') = match hfind l hs with Some v => Some v | None => hfind l hs' end.
Proof.
  induction hs as [|h hs IH]; intros hs'; [reflexivity|]. cbn [List.app hfind].
  destruct (name_is l h); [reflexivity | apply IH].
Qed.

Lemma hset_absent l v : forall hs, hfind l hs = None -> hset l v hs = hs ++ [(l, v)].
Proof.
  induction hs as [|h hs IH]; intros H; [reflexivity|]. cbn [hfind hset List.app] in *.
  destruct (name_is l h); [discriminate|]. now rewrite IH.
Qed.

(* ---------- status line + header block ---------- *)
Lemma notin_b x (l : bytes) : forallb (fun c => negb (c =? x)) l = true -> ~ In x l.
Proof.
  intros H X. rewrite forallb_forall in H. apply H in X. rewrite N.eqb_refl in X. discriminate.
Qed.

Definition read_body (st : bytes) (hs : list header) (s2 : bytes) (eof : bool) : option (response * bytes) :=
  let te := match hfind s_transfer_encoding hs with Some v => lower v | None => [] end in
  if bytes_eqb te s_chunked then
    match read_chunks (S (length s2)) s2 with
    | Some (b, r) => Some ({| p_status := st; p_headers := hs; p_body := b; p_framing := ByChunks |}, r)
    | None => None
    end
  else
    match hfind s_content_length hs with
    | Some v =>
      match parse_dec v with
      | None => None
      | Some n =>
        if len s2 <? n then None
        else Some ({| p_status := st; p_headers := hs; p_body := firstn (N.to_nat n) s2;
                      p_framing := ByLength |}, skipn (N.to_nat n) s2)
      end
    | None =>
      if eof then Some ({| p_status := st; p_headers := hs; p_body := s2; p_framing := ByClose |}, [])
      else None
    end.

Lemma s_http11_eq : s_http11 = [72; 84; 84; 80; 47; 49; 46; 49; 32].
Proof. vm_compute. reflexivity. Qed.

Lemma read_head st hs3 s2 eof :
  ~ In 13 st -> Forall wfh hs3 ->
  read_response ((s_http11 ++ st ++ crlf ++ List.concat (List.map header_line hs3) ++ crlf) ++ s2) eof
  = read_body st (List.map norm_header hs3) s2 eof.
Proof.
  intros Hst Hwf. unfold read_response.
  replace ((s_http11 ++ st ++ crlf ++ List.concat (List.map header_line hs3) ++ crlf) ++ s2)
    with ((s_http11 ++ st) ++ 13 :: 10 :: (List.concat (List.map header_line hs3) ++ crlf ++ s2))
    by (unfold crlf; rewrite <- !app_assoc; reflexivity).
  rewrite split_crlf_app.
  2:{ intro X. apply in_app_or in X. destruct X as [X|X]; [|auto].
      revert X. apply notin_b. vm_compute. reflexivity. }
  rewrite s_http11_eq.
  change (split_at 32 ([72; 84; 84; 80; 47; 49; 46; 49; 32] ++ st))
    with (Some ([72; 84; 84; 80; 47; 49; 46; 49], st)).
  replace (prefix_eqb s_http1_prefix [72; 84; 84; 80; 47; 49; 46; 49]) with true by (vm_compute; reflexivity).
  cbn [negb].
  rewrite read_headers_spec; [reflexivity | assumption |].
  rewrite !app_length.
  pose proof (length_concat_ge header_line hs3 (fun x _ => header_line_len x)) as Hle.
  eapply Nat.le_lt_trans; [exact Hle|]. apply Nat.lt_succ_r. apply Nat.le_add_r.
Qed.

(* ---------- chunked bodies ---------- *)
Lemma skipn_len_app {A} (l r : list A) : skipn (length l) (l ++ r) = r.
Proof. induction l; [reflexivity | assumption]. Qed.
Lemma firstn_len_app {A} (l r : list A) : firstn (length l) (l ++ r) = l.
Proof. induction l as [|a l IH]; [reflexivity|]. cbn [length firstn List.app]. now rewrite IH. Qed.

Lemma len_to_nat (p : bytes) : N.to_nat (len p) = length p.
Proof. unfold len. apply Nat2N.id. Qed.

Lemma chunk_body_nil_cons ps : chunk_body ([] :: ps) = chunk_body ps.
Proof. reflexivity. Qed.

Lemma chunk_body_cons p ps rest : is_nil p = false ->
  chunk_body (p :: ps) ++ rest
  = to_hex (len p) ++ 13 :: 10 :: (p ++ 13 :: 10 :: (chunk_body ps ++ rest)).
Proof.
  intros Hp. unfold chunk_body. cbn [List.filter]. change (nonnil p) with (negb (is_nil p)). rewrite Hp.
  cbn [negb List.map List.concat]. unfold pack_chunk at 1. unfold crlf.
  rewrite <- !app_assoc. reflexivity.
Qed.

Lemma read_chunks_spec : forall ps fuel rest, (length (List.filter nonnil ps) < fuel)%nat ->
  read_chunks fuel (chunk_body ps ++ rest) = Some (List.concat ps, rest).
Proof.
  induction ps as [|p ps IH]; intros fuel rest Hf.
  - destruct fuel as [|f]; [cbn [length List.filter] in Hf; lia|]. reflexivity.
  - destruct (is_nil p) eqn:Hp.
    { apply is_nil_true in Hp. subst p. rewrite chunk_body_nil_cons, concat_nil_cons.
      apply IH. exact Hf. }
    cbn [List.filter] in Hf. change (nonnil p) with (negb (is_nil p)) in Hf. rewrite Hp in Hf.
    cbn [negb length] in Hf.
    destruct fuel as [|f]; [lia|].
    rewrite chunk_body_cons by assumption. cbn [read_chunks].
    rewrite split_crlf_app by apply to_hex_no_cr.
    rewrite of_hex_to_hex.
    assert (Hn : len p <> 0) by (destruct p; [discriminate | unfold len; cbn [length]; lia]).
    replace (len p =? 0) with false by (symmetry; now apply N.eqb_neq).
    replace (len (p ++ 13 :: 10 :: chunk_body ps ++ rest) <? len p) with false
      by (unfold len; rewrite app_length; lia).
    rewrite len_to_nat, skipn_len_app, firstn_len_app.
    rewrite IH by lia. reflexivity.
Qed.

Lemma pack_chunk_len p : (1 <= length (pack_chunk p))%nat.
Proof. unfold pack_chunk, crlf. rewrite !app_length. cbn [length]. lia. Qed.

Lemma chunk_body_fuel ps rest :
  (length (List.filter nonnil ps) < S (length (chunk_body ps ++ rest)))%nat.
Proof.
  unfold chunk_body. rewrite !app_length.
  pose proof (length_concat_ge pack_chunk (List.filter nonnil ps) (fun x _ => pack_chunk_len x)) as Hle.
  eapply Nat.le_lt_trans; [exact Hle|]. apply Nat.lt_succ_r. rewrite <- Nat.add_assoc. apply Nat.le_add_r.
Qed.

(* ---------- boolean well-formedness -> facts ---------- *)
Lemma forallb_notin (P : N -> bool) x (l : bytes) :
  forallb (fun c => negb (P c)) l = true -> P x = true -> ~ In x l.
Proof. intros H Hx X. rewrite forallb_forall in H. apply H in X. rewrite Hx in X. discriminate. Qed.

Lemma no_crlf_spec s : no_crlf s = true -> ~ In 13 s.
Proof. intros H. eapply forallb_notin; [exact H | reflexivity]. Qed.

Lemma wf_value_spec v : wf_value v = true -> ~ In 13 v /\ strip_ows v = v.
Proof.
  unfold wf_value. intros H. apply andb_true_iff in H as [H1 H2].
  split; [now apply no_crlf_spec | now apply bytes_eqb_eq].
Qed.

Lemma wf_name_spec n : wf_name n = true -> n <> [] /\ ~ In 13 n /\ ~ In 58 n.
Proof.
  unfold wf_name. intros H. apply andb_true_iff in H as [H1 H2]. repeat split.
  - destruct n; [discriminate | congruence].
  - eapply forallb_notin; [exact H2 | reflexivity].
  - eapply forallb_notin; [exact H2 | reflexivity].
Qed.

Lemma wf_header_spec h : wf_header h = true -> wfh h /\ name_is s_transfer_encoding h = false.
Proof.
  unfold wf_header. intros H. apply andb_true_iff in H as [H H3]. apply andb_true_iff in H as [H1 H2].
  apply wf_name_spec in H1 as (A & B & C). apply wf_value_spec in H2 as (D & E).
  split; [repeat split; assumption | now apply negb_true_iff].
Qed.

Lemma wf_headers_spec hs : forallb wf_header hs = true ->
  Forall wfh hs /\ hfind s_transfer_encoding hs = None.
Proof.
  induction hs as [|h hs IH]; intros H; [split; [constructor | reflexivity]|].
  cbn [forallb] in H. apply andb_true_iff in H as [H1 H2].
  apply wf_header_spec in H1 as [A B]. destruct (IH H2) as [C D].
  split; [now constructor|]. cbn [hfind]. now rewrite B.
Qed.

Lemma built_spec date ck hs :
  hfind s_transfer_encoding hs = None -> wf_date date = true ->
  exists extra,
    built_headers date ck hs
    = (hs ++ extra ++ (if ck then [(s_transfer_encoding, s_chunked)] else []), ck)
    /\ Forall wfh extra
    /\ hfind s_transfer_encoding extra = None /\ hfind s_content_length extra = None.
Proof.
  intros Hte Hd. apply wf_value_spec in Hd as [Hd1 Hd2].
  assert (Wsrv : wfh (s_server, s_server_value)).
  { split; [vm_compute; discriminate|]. split; [apply notin_b; vm_compute; reflexivity|].
    split; [apply notin_b; vm_compute; reflexivity|]. split; [apply notin_b; vm_compute; reflexivity|].
    vm_compute; reflexivity. }
  assert (Wdate : wfh (s_date, date)).
  { split; [vm_compute; discriminate|]. split; [apply notin_b; vm_compute; reflexivity|].
    split; [apply notin_b; vm_compute; reflexivity|]. split; assumption. }
  unfold built_headers.
  destruct (hmem s_server hs) eqn:B1.
  - destruct (hmem s_date hs) eqn:B2.
    + exists []. rewrite Hte, andb_true_r. cbn [List.app]. repeat split; try constructor.
      destruct ck; [now rewrite hset_absent | now rewrite app_nil_r].
    + exists [(s_date, date)].
      assert (E : hfind s_transfer_encoding (hs ++ [(s_date, date)]) = None) by (rewrite hfind_app, Hte; reflexivity).
      rewrite E, andb_true_r. repeat split; try (constructor; [assumption|constructor]).
      destruct ck; [rewrite hset_absent by assumption; now rewrite <- app_assoc | now rewrite app_nil_r].
  - destruct (hmem s_date (hs ++ [(s_server, s_server_value)])) eqn:B2.
    + exists [(s_server, s_server_value)].
      assert (E : hfind s_transfer_encoding (hs ++ [(s_server, s_server_value)]) = None) by (rewrite hfind_app, Hte; reflexivity).
      rewrite E, andb_true_r. repeat split; try (constructor; [assumption|constructor]).
      destruct ck; [rewrite hset_absent by assumption; now rewrite <- app_assoc | now rewrite app_nil_r].
    + exists [(s_server, s_server_value); (s_date, date)].
      assert (E : hfind s_transfer_encoding ((hs ++ [(s_server, s_server_value)]) ++ [(s_date, date)]) = None).
      { rewrite !hfind_app, Hte. reflexivity. }
      rewrite E, andb_true_r. repeat split; try (constructor; [assumption|constructor; [assumption|constructor]]).
      destruct ck; [rewrite hset_absent by assumption; now rewrite <- !app_assoc | now rewrite app_nil_r, <- app_assoc].
Qed.

(* ---------- one whole response ---------- *)
Lemma read_one date q a more eof :
  wf_app a = true -> wf_date date = true ->
  (hmem s_content_length (a_headers a) = false -> r_v11 q = false -> eof = true /\ more = []) ->
  read_response (encode date (q, a) ++ more) eof = Some (expected date (q, a), more).
Proof.
  intros Hwf Hd Hfr. unfold wf_app in Hwf.
  apply andb_true_iff in Hwf as [Hwf H3]. apply andb_true_iff in Hwf as [H1 H2].
  apply andb_true_iff in H1 as [_ H1].
  apply no_crlf_spec in H1. destruct (wf_headers_spec _ H2) as [Wh Hte].
  unfold encode, enc_head, enc_body, expected, app_body, declared. cbn [fst snd].
  unfold hmem in *.
  remember (r_v11 q && negb (match hfind s_content_length (a_headers a) with Some _ => true | None => false end))
    as ck eqn:Eck.
  destruct (built_spec date ck (a_headers a) Hte Hd) as (extra & Eb & Wx & Xte & Xcl).
  rewrite Eb. cbv beta iota. cbn [fst snd].
  rewrite <- app_assoc. rewrite read_head; [|assumption|].
  2:{ apply Forall_app; split; [assumption|]. apply Forall_app; split; [assumption|].
      destruct ck; [|constructor]. constructor; [|constructor].
      split; [vm_compute; discriminate|]. split; [apply notin_b; vm_compute; reflexivity|].
      split; [apply notin_b; vm_compute; reflexivity|]. split; [apply notin_b; vm_compute; reflexivity|].
      vm_compute; reflexivity. }
  unfold read_body. rewrite !hfind_norm, !hfind_app, Hte, Xte, Xcl.
  destruct ck.
  - (* chunked *)
    assert (Hcl : hfind s_content_length (a_headers a) = None).
    { destruct (hfind s_content_length (a_headers a)); [|reflexivity].
      rewrite andb_false_r in Eck. discriminate. }
    rewrite Hcl.
    change (hfind s_transfer_encoding [(s_transfer_encoding, s_chunked)]) with (Some s_chunked).
    replace (bytes_eqb (lower s_chunked) s_chunked) with true by (vm_compute; reflexivity).
    rewrite read_chunks_spec by apply chunk_body_fuel. reflexivity.
  - (* not chunked *)
    cbn [hfind]. replace (bytes_eqb [] s_chunked) with false by (vm_compute; reflexivity).
    destruct (hfind s_content_length (a_headers a)) as [v|] eqn:Hcl.
    + destruct (parse_dec v) as [L|] eqn:Hp; [|discriminate].
      remember (firstn (N.to_nat L) (List.concat (a_pieces a))) as body eqn:Ebody.
      assert (Hlen : length body = N.to_nat L).
      { subst body. rewrite firstn_length. unfold total, len in H3. lia. }
      replace (len (body ++ more) <? L) with false by (unfold len; rewrite app_length; lia).
      rewrite <- Hlen, firstn_len_app, skipn_len_app. reflexivity.
    + assert (Hv : r_v11 q = false).
      { destruct (r_v11 q); [discriminate | reflexivity]. }
      destruct (Hfr eq_refl Hv) as [-> ->]. rewrite !app_nil_r. reflexivity.
Qed.

(* ---------- the whole connection ---------- *)
Lemma read_all_step f s eof : is_nil s = false ->
  read_all (S f) s eof =
  match read_response s eof with
  | None => None
  | Some (r, rest) => match read_all f rest eof with Some l => Some (r :: l) | None => None end
  end.
Proof. destruct s; [discriminate | reflexivity]. Qed.

Lemma read_all_nil f eof : read_all f [] eof = Some [].
Proof. destruct f; reflexivity. Qed.

Lemma encode_nonnil date qa more : is_nil (encode date qa ++ more) = false.
Proof. unfold encode, enc_head. rewrite s_http11_eq. reflexivity. Qed.

Lemma encode_len date qa : (1 <= length (encode date qa))%nat.
Proof.
  unfold encode, enc_head. rewrite s_http11_eq. rewrite <- !app_assoc. cbn [List.app length]. lia.
Qed.

Lemma read_conn date : wf_date date = true -> forall conn,
  wf_conn conn = true -> framed_conn conn = true ->
  forall fuel, (length (answered conn) <= fuel)%nat ->
  read_all fuel (List.concat (List.map (encode date) (answered conn))) (closes conn)
  = Some (List.map (expected date) (answered conn)).
Proof.
  intros Hd. induction conn as [|[q a] rest IH]; intros Hwf Hfr fuel Hf.
  - apply read_all_nil.
  - unfold wf_conn in Hwf. cbn [forallb fst snd] in Hwf.
    apply andb_true_iff in Hwf as [Hqa Hrest]. apply andb_true_iff in Hqa as [Hok Hwa].
    unfold framed_conn in Hfr. cbn [answered closes] in *. rewrite Hok in *. cbn [negb] in *.
    destruct (persisted q) eqn:Hp.
    + cbn [forallb length List.map List.concat] in *.
      apply andb_true_iff in Hfr as [Hq Hfr].
      destruct fuel as [|f]; [lia|].
      rewrite read_all_step by apply encode_nonnil.
      rewrite read_one; [| assumption | assumption |].
      2:{ intros Hm Hv. exfalso. unfold unframed_open in Hq. cbn [fst snd] in Hq.
          rewrite Hm, Hv, Hp in Hq. discriminate. }
      rewrite IH; [reflexivity | assumption | assumption | lia].
    + cbn [length List.map List.concat] in *.
      destruct fuel as [|f]; [lia|].
      rewrite read_all_step by apply encode_nonnil.
      rewrite read_one; [| assumption | assumption | intros _ _; split; reflexivity].
      now rewrite read_all_nil.
Qed.

Lemma wf_conn_cl_ok conn : wf_conn conn = true ->
  forall qa, In qa conn -> cl_ok (snd qa) /\ first_ok (snd qa) = true.
Proof.
  unfold wf_conn. rewrite forallb_forall. intros H qa Hin. specialize (H qa Hin).
  apply andb_true_iff in H as [_ H]. unfold wf_app in H. apply andb_true_iff in H as [H H3].
  apply andb_true_iff in H as [H _]. apply andb_true_iff in H as [Hf _]. split; [|exact Hf].
  unfold cl_ok. destruct (hfind s_content_length (a_headers (snd qa))); [|exact I].
  destruct (parse_dec b); [discriminate | discriminate].
Qed.

Theorem wsgi_main date conn :
  wf_date date = true -> wf_conn conn = true -> framed_conn conn = true ->
  exists out,
    serve date None conn = Ok (out, closes conn)
    /\ read_stream out (closes conn) = Some (List.map (expected date) (answered conn)).
Proof.
  intros Hd Hwf Hfr. eexists. split.
  - apply serve_spec. now apply wf_conn_cl_ok.
  - unfold read_stream. apply read_conn; try assumption.
    pose proof (length_concat_ge (encode date) (answered conn) (fun x _ => encode_len date x)) as Hle.
    eapply Nat.le_trans; [exact Hle|]. apply Nat.le_succ_diag_r.
Qed.

(* ---------- consequences stated on what the reader returns ---------- *)
Lemma expected_body_le date q a L :
  declared a = Some L -> len (p_body (expected date (q, a))) <= L.
Proof.
  intros H. unfold expected. destruct (built_headers _ _ _) as [hs ch]. cbn [p_body].
  unfold app_body. rewrite H. unfold len. rewrite firstn_length. lia.
Qed.

Lemma expected_status date q a : p_status (expected date (q, a)) = a_status a.
Proof. unfold expected. destruct (built_headers _ _ _). reflexivity. Qed.

Lemma expected_body_exact date q a :
  (forall L, declared a = Some L -> L <= total a) ->
  p_body (expected date (q, a)) = app_body a.
Proof. intros _. unfold expected. destruct (built_headers _ _ _). reflexivity. Qed.

Lemma added_norm (x : list header) :
  Forall (fun h => In (fst h) [s_server; s_date; s_transfer_encoding]) x ->
  Forall (fun h => In (fst h) [s_server; s_date; s_transfer_encoding]) (List.map norm_header x).
Proof.
  induction 1 as [|h x Hh _ IH]; cbn [List.map]; constructor; [|assumption].
  unfold norm_header. cbn [fst]. destruct Hh as [<-|[<-|[<-|[]]]].
  - left. vm_compute. reflexivity.
  - right; left. vm_compute. reflexivity.
  - right; right; left. vm_compute. reflexivity.
Qed.

(* the application's headers come back first, in order, names lower-cased;
   whatever follows was added by the server: Server, Date, Transfer-Encoding *)
Lemma expected_headers date q a :
  hfind s_transfer_encoding (a_headers a) = None ->
  exists added,
    p_headers (expected date (q, a)) = List.map norm_header (a_headers a) ++ added
    /\ Forall (fun h => In (fst h) [s_server; s_date; s_transfer_encoding]) added.
Proof.
  intros Hte. unfold expected, built_headers.
  set (ck := r_v11 q && negb (hmem s_content_length (a_headers a))).
  set (hs1 := if hmem s_server (a_headers a) then a_headers a else a_headers a ++ [(s_server, s_server_value)]).
  set (hs2 := if hmem s_date hs1 then hs1 else hs1 ++ [(s_date, date)]).
  assert (E1 : exists x1, hs1 = a_headers a ++ x1 /\ Forall (fun h => In (fst h) [s_server; s_date; s_transfer_encoding]) x1
                          /\ hfind s_transfer_encoding x1 = None).
  { subst hs1. destruct (hmem s_server (a_headers a)).
    - exists []. rewrite app_nil_r. repeat split; constructor.
    - eexists. split; [reflexivity|]. split; [|reflexivity]. constructor; [now left | constructor]. }
  destruct E1 as (x1 & E1 & F1 & T1).
  assert (E2 : exists x2, hs2 = a_headers a ++ x2 /\ Forall (fun h => In (fst h) [s_server; s_date; s_transfer_encoding]) x2
                          /\ hfind s_transfer_encoding x2 = None).
  { subst hs2. destruct (hmem s_date hs1).
    - exists x1. auto.
    - exists (x1 ++ [(s_date, date)]). rewrite E1, <- app_assoc. split; [reflexivity|]. split.
      + apply Forall_app. split; [assumption|]. constructor; [right; now left | constructor].
      + rewrite hfind_app, T1. reflexivity. }
  destruct E2 as (x2 & E2 & F2 & T2).
  assert (Hn : hfind s_transfer_encoding hs2 = None) by (rewrite E2, hfind_app, Hte; exact T2).
  rewrite Hn, andb_true_r. cbn [p_headers].
  destruct ck.
  - rewrite hset_absent by assumption. rewrite E2, <- app_assoc, map_app. eexists. split; [reflexivity|].
    rewrite map_app. apply Forall_app. split.
    + now apply added_norm.
    + constructor; [right; right; now left | constructor].
  - rewrite E2, map_app. eexists. split; [reflexivity|]. now apply added_norm.
Qed.

(* closing: every answered request but the last was persistent, and the
   connection is closed exactly when the last answered one was not *)
Lemma answered_inner_persisted : forall conn l1 qa l2,
  answered conn = l1 ++ qa :: l2 -> l2 <> [] -> persisted (fst qa) = true.
Proof.
  induction conn as [|[q a] rest IH]; intros l1 qa l2 H Hn; cbn [answered] in H.
  - destruct l1; discriminate.
  - destruct (negb (r_ok q)); [destruct l1; discriminate|].
    destruct (persisted q) eqn:Hp.
    + destruct l1 as [|x l1]; cbn [List.app] in H; inversion H; subst; [exact Hp|].
      eapply IH; eauto.
    + destruct l1 as [|x l1]; cbn [List.app] in H; inversion H; subst; [congruence|].
      destruct l1; discriminate.
Qed.

Lemma closes_iff : forall conn, forallb (fun qa => r_ok (fst qa)) conn = true ->
  (closes conn = true <-> exists l1 qa, answered conn = l1 ++ [qa] /\ persisted (fst qa) = false).
Proof.
  induction conn as [|[q a] rest IH]; intros Hok; cbn [closes answered forallb fst] in *.
  - split; [discriminate|]. intros (l1 & qa & H & _). destruct l1; discriminate.
  - apply andb_true_iff in Hok as [Hq Hrest]. rewrite Hq. cbn [negb].
    destruct (persisted q) eqn:Hp.
    + rewrite (IH Hrest). split.
      * intros (l1 & qa & H & Hn). exists ((q, a) :: l1), qa. cbn [List.app]. now rewrite H.
      * intros (l1 & qa & H & Hn). destruct l1 as [|x l1]; cbn [List.app] in H; inversion H; subst.
        { cbn [fst] in Hn. congruence. }
        eauto.
    + split; [|reflexivity]. intros _. exists [], (q, a). split; [reflexivity | exact Hp].
Qed.
