"""C15 — server-sent events are delivered exactly regardless of line endings and splits.

Drives the real httping.EventSource directly ("plain") and through clienting.Respondent with a text/event-stream
response whose body is close-delimited ("until") or chunked ("chunked")."""
import re
from harness.core import coq_N, coq_list, coq_bool, coq_option, exn_kind
from harness.drivers import c17 as K

PROP = "C15"
COQ_REQUIRES = ["Hio.Model.HttpLine", "Hio.Model.Chunk", "Hio.Model.Sse"]
COQ_CHECK = "Sse.check_case"
COQ_CASE_TYPE = "Sse.case"
COQ_BRANCHES = ("Sse.case_branches", "Sse.n_branches")
SHARD = 120
RULE = ("event streams of 0-6 blocks: optional id (also empty, with NUL), event name, 0-3 data lines (empty values, no "
        "colon, no space after colon, two spaces), retry (digits, leading zeros, empty, '+5', '1_0', ' 20', "
        "non-ASCII digits, 4300/4301 digits), comments, unknown fields, UTF-8 text; every line ends in CRLF, LF or CR "
        "chosen per line (uniform or mixed), streams end with or without the final blank line, possibly on a lone "
        "CR; delivered plain to EventSource, or to Respondent (response head with header names and values - "
        "Content-Type, Transfer-Encoding, Content-Length, Connection - in any case mix and with optional blanks "
        "around the values) as a close-delimited or chunked (random chunk "
        "boundaries; every chunk size in a random spelling: lower / UPPER / miXed case hex letters, leading zeros, "
        "blank padding; chunks from 1 byte to several hundred) text/event-stream response; reads: random cuts, every byte, inside every CRLF, whole.  "
        "Histories: one Respondent over 1-4 consecutive event-stream responses (chunked or close-delimited, complete "
        "or dropped mid-stream / mid-chunk), started with a remembered Last-Event-ID / retry or none, resumed streams "
        "beginning with id-less chunks (comments, data-only events, retry, NUL ids), (.leid, .retry) observed after "
        "every read and compared with the last id/retry field seen so far on any connection.  Delivery: the caller "
        "passes its own containers (events deque empty or preloaded; requests, responses, redirects, msg) to the real "
        "Client (over a scripted socket), to Respondent and to EventSource; the objects must be used as given "
        "(identity) and the stream's events must arrive in the caller's deque behind what it already held; at the "
        "Client level the peer's close becomes readable in the same service pass as its last event bytes, one pass "
        "later, after idle passes, or never.  "
        "Non-trivial: >= 2 events, >= 2 terminator kinds and >= 1 cut between the CR and LF of a CRLF")
MODELLED = ["UTF-8 decoding (events are compared as UTF-8 bytes; generated streams are valid UTF-8)",
            "int() of an ASCII digit string up to 4300 digits (as decimal value)",
            "collections.deque of event dicts (as list)",
            "Respondent head parsing and chunk framing on this path are covered by the C13/C17 models; here the head is a fixed prefix"]

h, unh = K.h, K.unh
HEAD_UNTIL = b"HTTP/1.1 200 OK\r\nContent-Type: text/event-stream\r\n\r\n"
HEAD_CHUNKED = b"HTTP/1.1 200 OK\r\nContent-Type: text/event-stream\r\nTransfer-Encoding: chunked\r\n\r\n"


def _mix(rng, text):
    r = rng.random()
    if r < 0.25:
        return text
    if r < 0.45:
        return text.upper()
    if r < 0.6:
        return text.lower()
    if r < 0.75:
        return text.title()
    return bytes(c ^ 0x20 if (65 <= c <= 90 or 97 <= c <= 122) and rng.random() < 0.5 else c for c in text)


def gen_head(rng, mode):
    """response head of an event stream with header names and values in any case mix and optional blanks around the
    values (the line still needs its ': ')"""
    ows = lambda: rng.choice([b"", b"", b" ", b"\t", b"  "])
    hdrs = [_mix(rng, b"Content-Type") + b": " + ows() + _mix(rng, b"text/event-stream") + rng.choice([b"", b"", b"; charset=utf-8"]) + ows()]
    if mode == "chunked":
        hdrs.append(_mix(rng, b"Transfer-Encoding") + b": " + ows() + _mix(rng, b"chunked") + ows())
        if rng.random() < 0.2:
            hdrs.append(_mix(rng, b"Content-Length") + b": " + ows() + b"%d" % rng.randint(0, 50))
    if rng.random() < 0.4:
        hdrs.append(_mix(rng, b"Connection") + b": " + ows() + _mix(rng, rng.choice([b"keep-alive", b"close"])) + ows())
    if rng.random() < 0.3:
        hdrs.append(_mix(rng, b"Cache-Control") + b": no-cache")
    rng.shuffle(hdrs)
    status = rng.choice([b"HTTP/1.1 200 OK", b"HTTP/1.1 200 OK", b"HTTP/1.0 200 OK" if mode != "chunked" else b"HTTP/1.1 200"])
    return status + b"\r\n" + b"".join(x + b"\r\n" for x in hdrs) + b"\r\n"


def head_of(conn):
    if conn.get("head"):
        return unh(conn["head"])
    return HEAD_CHUNKED if conn["mode"] == "chunked" else HEAD_UNTIL


# ----------------------------------------------------------------------------- reference (WHATWG, whole stream)

def sse_ref(stream):
    """Interpret a complete byte stream by the WHATWG event-stream algorithm.  Returns (events, last id buffer, retry)."""
    text = stream.decode("utf-8", errors="replace")
    lines = re.split("\r\n|\n|\r", text)[:-1]          # only terminated lines
    data, etype, lastid, retry, events = "", "", None, None, []
    for line in lines:
        if line == "":
            if data != "":
                if data.endswith("\n"):
                    data = data[:-1]
                events.append({"id": lastid, "name": etype, "data": data})
            data, etype = "", ""
            continue
        if line.startswith(":"):
            continue
        if ":" in line:
            field, value = line.split(":", 1)
            if value.startswith(" "):
                value = value[1:]
        else:
            field, value = line, ""
        if field == "event":
            etype = value
        elif field == "data":
            data += value + "\n"
        elif field == "id":
            if "\x00" not in value:
                lastid = value
        elif field == "retry":
            if value != "" and all(c in "0123456789" for c in value) and len(value) <= 4300:
                retry = int(value)
    return events, lastid, retry


# ----------------------------------------------------------------------------- implementation

def _events(evs):
    return [{"id": e["id"], "name": e["name"], "data": e["data"]} for e in evs]


def run_plain(reads):
    from hio.core.http import httping
    es = httping.EventSource()
    err, late = None, None
    for frag in reads:
        es.raw.extend(frag)
        try:
            es.parse()
        except Exception as ex:  # noqa
            if err is None:
                err = exn_kind(ex)
            else:
                late = exn_kind(ex)     # a parser that already failed must stay quiet (the model's Dead state)
    return {"events": _events(es.events), "leid": es.leid, "retry": es.retry, "err": err, "left": h(es.raw), "late": late}


def run_history(init, conns):
    """One Respondent for the whole history, as Client keeps it: per connection a text/event-stream response
    (fresh EventSource), reads fed one by one with (.leid, .retry) recorded after each, then the connection drops:
    close(), parse(), makeParser(), reinit() (what Client.service / transmit do on a reconnect)."""
    from hio.core.http import clienting
    msg = bytearray()
    p = clienting.Respondent(msg=msg, method="GET")
    if init:
        if init.get("leid") is not None:
            p.leid = init["leid"]           # the remembered Last-Event-ID
        if init.get("retry") is not None:
            p.retry = init["retry"]
    out = []
    for conn in conns:
        err = None

        def pump():
            nonlocal err
            if err or p.parser is None:
                return
            try:
                p.parse()
            except Exception as ex:  # noqa
                err = exn_kind(ex)
                return
            if p.parser is None and p.errored:
                err = "HTTPExc"

        start = [p.leid, p.retry]
        head = head_of(conn)
        for piece in K.cut(head, conn.get("head_cuts", [])):      # the response head may itself arrive in pieces
            msg.extend(piece)
            pump()
        trace = []
        for frag in conn["reads"]:
            msg.extend(frag)
            pump()
            trace.append([p.leid, p.retry])
        es = p.eventSource
        o = {"events": _events(p.events), "leid": es.leid, "retry": es.retry, "left": h(es.raw),
             "init": start, "trace": trace, "err": err}
        # the connection drops
        p.close()
        pump()
        o["close_err"] = err
        o["resp_leid"], o["resp_retry"], o["ended"] = p.leid, p.retry, bool(p.ended)
        out.append(o)
        del msg[:]                 # whatever was left of the dropped connection is discarded
        p.makeParser()
        err = None
        for _ in range(conn.get("idle", 0)):
            # still cut off, reconnect timer not expired: Client.service closes the respondent and steps it every pass
            p.close()
            pump()
            if p.parser is None:       # serviceResponse: makeParser() again whenever the respondent has ended
                p.makeParser()
            err = None
        p.reinit()
        p.events.clear()
    return out


# ----------------------------------------------------------------------------- application-level delivery

class _SseSock:
    """socket of a scripted event-stream server: after the request head arrived it releases the response one
    fragment per tick()"""
    def __init__(self, frags, fin=None):
        self.frags, self.rx, self.ready, self.armed, self.closed = list(frags), bytearray(), bytearray(), False, False
        self.fin, self.eof = fin, False     # fin: None = the peer never closes; k = it closes k passes after its last bytes
    def setsockopt(self, *a): pass
    def getsockopt(self, *a): return 1 << 20
    def setblocking(self, flag): pass
    def connect_ex(self, ha): return 0
    def getsockname(self): return ("127.0.0.1", 40001)
    def getpeername(self): return ("127.0.0.1", 8000)
    def shutdown(self, how): pass
    def close(self): self.closed = True
    def send(self, data):
        self.rx += bytes(data)
        if b"\r\n\r\n" in self.rx:
            self.armed = True
        return len(data)
    def recv(self, n):
        import errno
        if self.ready:
            d = bytes(self.ready[:n]); del self.ready[:n]
            return d
        if self.eof:
            return b""
        raise BlockingIOError(errno.EAGAIN, "would block")
    def tick(self):
        if self.armed and self.frags:
            self.ready += self.frags.pop(0)
            if not self.frags and self.fin == 0:
                self.eof = True        # the last bytes and the FIN are readable in the same pass
        elif self.armed and self.fin is not None and not self.eof:
            self.fin -= 1
            if self.fin <= 0:
                self.eof = True


def run_deliver(case):
    """The caller hands its own containers to the constructors (empty or preloaded) and must find the parsed events
    in them.  level client: the real clienting.Client over a scripted socket; respondent / source: direct."""
    from collections import deque
    from hio.core import tcp
    from hio.core.http import clienting, httping
    from hio.base import tyming
    reads = [unh(x) for x in case["reads"]]
    pre = [{"id": None, "name": "preloaded", "data": str(i)} for i in range(case.get("preload", 0))]
    mine = deque(pre)
    head = unh(case["head"]) if case.get("head") else (HEAD_CHUNKED if case["body"] == "chunked" else HEAD_UNTIL)
    ident, err, es = {}, None, None
    try:
        if case["level"] == "source":
            raw = bytearray()
            es = httping.EventSource(raw=raw, events=mine)
            ident = {"source.events": es.events is mine, "source.raw": es.raw is raw}
            for r in reads:
                raw.extend(r)
                es.parse()
        elif case["level"] == "respondent":
            msg, reds = bytearray(), []
            p = clienting.Respondent(msg=msg, method="GET", events=mine, redirects=reds)
            ident = {"respondent.events": p.events is mine, "respondent.msg": p.msg is msg, "respondent.redirects": p.redirects is reds}
            for r in [head] + reads:
                msg.extend(r)
                p.parse()
            es = p.eventSource
            ident["source.events"] = es.events is mine
        else:
            frags = K.cut(head, case.get("head_cuts", [])) + reads
            sock = _SseSock(frags, case.get("fin"))

            class _Conn(tcp.Client):
                def open(self_):
                    self_.accepted = False; self_.connected = False; self_.cutoff = False
                    self_.cs = sock; self_.opened = True
                    return True

            tymist = tyming.Tymist(tyme=0.0, tock=1.0)
            conn = _Conn(tymth=tymist.tymen(), ha=("127.0.0.1", 8000))
            requests, responses, reds = deque(), deque(), []
            client = clienting.Client(connector=conn, events=mine, requests=requests, responses=responses, redirects=reds)
            ident = {"client.events": client.events is mine, "client.requests": client.requests is requests,
                     "client.responses": client.responses is responses, "client.redirects": client.redirects is reds,
                     "respondent.events": client.respondent.events is mine,
                     "respondent.msg": client.respondent.msg is conn.rxbs}
            client.reopen()
            client.request(method="GET", path="/stream")
            for _ in range(len(frags) + 6 + (case.get("fin") or 0)):
                sock.tick()
                client.service()
                tymist.tick()
            es = client.respondent.eventSource
            ident["source.events"] = es is not None and es.events is mine
            ident["client.events_after"] = client.events is mine
    except Exception as ex:  # noqa
        err = exn_kind(ex)
    got = list(mine)
    return {"ident": ident, "preloaded_kept": got[:len(pre)] == pre, "events": _events(got[len(pre):]),
            "leid": es.leid if es else None, "retry": es.retry if es else None, "err": err,
            "left": h(es.raw) if es else "", "n_mine": len(got)}


def run_mode(mode, reads, head=None):
    if mode == "plain":
        return run_plain(reads)
    return run_history(None, [{"mode": mode, "reads": reads, "head": head}])[0]


def run_impl(case):
    if case["mode"] == "deliver":
        return run_deliver(case)
    if case["mode"] == "history":
        return {"conns": run_history(case.get("init"), [dict(c, reads=[unh(x) for x in c["reads"]]) for c in case["conns"]])}
    return run_mode(case["mode"], [unh(x) for x in case["reads"]], case.get("head"))


def _canon(o):
    return {"events": o["events"], "leid": o["leid"], "retry": o["retry"], "err": o["err"],
            "left": None if o["err"] else o["left"]}


# ----------------------------------------------------------------------------- oracle

def body_of(case):
    if case["mode"] == "chunked":
        return b"".join(unh(c) for c in case["chunks"])
    return b"".join(unh(x) for x in case["reads"])


def avail_body(mode, wire):
    """the event-stream bytes a receiver has been given by this prefix of the wire (complete data chunks only)"""
    if mode != "chunked":
        return wire
    body, pos = b"", 0
    while True:
        i = wire.find(b"\r\n", pos)
        if i < 0:
            return body
        n = int(wire[pos:i].strip(b" \t"), 16)
        if n == 0 or len(wire) < i + 2 + n + 2:
            return body
        body += wire[i + 2:i + 2 + n]
        pos = i + 4 + n


def oracle_history(case, obs):
    carry_leid = (case.get("init") or {}).get("leid")
    carry_retry = (case.get("init") or {}).get("retry")
    if carry_retry is None:
        carry_retry = 100
    whole = run_history(case.get("init"), [dict(c, reads=[b"".join(unh(x) for x in c["reads"])])
                                           for c in case["conns"]])
    for k, (c, o, w) in enumerate(zip(case["conns"], obs["conns"], whole)):
        if o["err"] is not None:
            return f"connection {k}: event stream rejected: {o['err']}"
        if (o["events"], o["resp_leid"], o["resp_retry"]) != (w["events"], w["resp_leid"], w["resp_retry"]):
            return (f"connection {k}: result depends on fragmentation: split {(o['events'], o['resp_leid'], o['resp_retry'])} "
                    f"vs whole {(w['events'], w['resp_leid'], w['resp_retry'])}")
        if o["init"] != [carry_leid, carry_retry]:
            return f"connection {k} starts with (leid, retry) = {o['init']}, remembered {[carry_leid, carry_retry]}"
        wire = b""
        for j, frag in enumerate(c["reads"]):
            wire += unh(frag)
            evs, lastid, retry = sse_ref(avail_body(c["mode"], wire))
            exp = [lastid if lastid is not None else carry_leid, retry if retry is not None else carry_retry]
            if o["trace"][j] != exp:
                return (f"connection {k}, after read {j}: Respondent (leid, retry) = {o['trace'][j]}, but the last id/retry "
                        f"fields seen so far on any connection give {exp}")
        evs, lastid, retry = sse_ref(avail_body(c["mode"], wire))
        if o["events"] != evs:
            return f"connection {k}: events {o['events']} differ from the stream's events {evs}"
        carry_leid = lastid if lastid is not None else carry_leid
        carry_retry = retry if retry is not None else carry_retry
        if [o["resp_leid"], o["resp_retry"]] != [carry_leid, carry_retry]:
            return f"connection {k}: after the drop Respondent holds {[o['resp_leid'], o['resp_retry']]}, expected {[carry_leid, carry_retry]}"
    return None


def oracle_deliver(case, obs):
    if obs["err"] is not None:
        return f"delivery through {case['level']} raised {obs['err']}"
    bad = [k for k, v in obs["ident"].items() if not v]
    if bad:
        return (f"the caller's own container is not the one used ({', '.join(bad)} is a different object): with "
                f"{case.get('preload', 0)} preloaded item(s) the caller finds {obs['n_mine']} item(s) in its deque")
    if not obs["preloaded_kept"]:
        return "items the caller had put into its deque were lost or reordered"
    body = b"".join(unh(c) for c in case["chunks"]) if case["body"] == "chunked" else b"".join(unh(x) for x in case["reads"])
    evs, lastid, retry = sse_ref(body)
    if obs["events"] != evs:
        return f"the caller's deque received {obs['events']}, the stream dispatches {evs}"
    if (obs["leid"], obs["retry"]) != (lastid, retry):
        return f"(leid, retry) = {(obs['leid'], obs['retry'])}, stream says {(lastid, retry)}"
    return None


def oracle(case, obs):
    if case["mode"] == "deliver":
        return oracle_deliver(case, obs)
    if case["mode"] == "history":
        return oracle_history(case, obs)
    reads = [unh(x) for x in case["reads"]]
    whole = run_mode(case["mode"], [b"".join(reads)], case.get("head"))
    if _canon(whole) != _canon(obs) and case["mode"] != "chunked":
        return f"result depends on fragmentation: split {_canon(obs)} vs whole {_canon(whole)}"
    if case["mode"] == "chunked" and (whole["events"], whole["leid"], whole["retry"], whole["err"]) != \
            (obs["events"], obs["leid"], obs["retry"], obs["err"]):
        return f"result depends on fragmentation: split {_canon(obs)} vs whole {_canon(whole)}"
    if obs.get("late") is not None:
        return f"parse() on an event source that had already failed raised {obs['late']} instead of doing nothing"
    if case.get("expect_error"):
        return None if obs["err"] == "HTTPExc" else f"over-long line not rejected: err={obs['err']}"
    if obs["err"] is not None:
        return f"event stream rejected: {obs['err']}"
    evs, lastid, retry = sse_ref(body_of(case))
    if obs["events"] != evs:
        return f"events {obs['events']} differ from the stream's events {evs}"
    if obs["leid"] != lastid:
        return f"last event id {obs['leid']!r}, stream says {lastid!r}"
    if obs["retry"] != retry:
        return f"retry {obs['retry']!r}, stream says {retry!r}"
    if case["mode"] != "plain":
        if lastid is not None and obs["resp_leid"] != lastid:
            return f"Respondent.leid {obs['resp_leid']!r}, stream says {lastid!r}"
        if retry is not None and obs["resp_retry"] != retry:
            return f"Respondent.retry {obs['resp_retry']!r}, stream says {retry!r}"
    return None


# ----------------------------------------------------------------------------- generation

TEXTS = ["x", "hello world", "", " lead", "a:b", "{\"k\": 1}", "caf\u00e9", "\u4f60\u597d", "\U0001f600", "tab\there", ":colon"]
RETRIES = ["5", "007", "3000", "", "+5", "1_0", " 20", "2 ", "1.5", "-1", "\uff12", "\u0663", "9" * 30]


def _line(rng, text):
    return text


def _gen_block(rng):
    lines = []
    n = rng.random()
    if n < 0.25:
        lines.append(":" + rng.choice(["", " keepalive", "x:y"]))
    if rng.random() < 0.4:
        v = rng.choice(["1", "42", "", "a b", "\u00e9", "nul\x00id", "7"])
        lines.append(rng.choice(["id: " + v, "id:" + v, "id"]) if v else rng.choice(["id", "id:", "id: "]))
    if rng.random() < 0.4:
        lines.append(rng.choice(["event: ", "event:"]) + rng.choice(["update", "msg", "", "\u00fcber"]))
    for _ in range(rng.choice([0, 1, 1, 1, 2, 3])):
        t = rng.choice(TEXTS)
        lines.append(rng.choice(["data: " + t, "data:" + t, "data:  " + t, "data" if t == "" else "data: " + t]))
    if rng.random() < 0.25:
        lines.append("retry" + rng.choice([": ", ":"]) + rng.choice(RETRIES))
    if rng.random() < 0.15:
        lines.append(rng.choice(["foo: bar", "Data: x", "datax", "retry", " data: x", "event"]))
    rng.shuffle(lines)
    return lines


def _gen_stream(rng):
    style = rng.choice(["crlf", "lf", "cr", "mixed", "mixed", "mixed"])
    eols = {"crlf": ["\r\n"], "lf": ["\n"], "cr": ["\r"], "mixed": ["\r\n", "\n", "\r"]}[style]
    out = ""
    for _ in range(rng.choice([0, 1, 2, 2, 3, 3, 4, 4, 6])):
        for ln in _gen_block(rng):
            out += ln + rng.choice(eols)
        r = rng.random()
        if r < 0.85:
            out += rng.choice(eols)                      # the blank line
            if rng.random() < 0.1:
                out += rng.choice(eols)                  # a second blank line
    if rng.random() < 0.3:
        out += rng.choice(["data: pending", "da", "data: x\r", "id: 9\r", "\r"])
    return out.encode("utf-8")


def _gen_case(rng):
    body = _gen_stream(rng)
    mode = rng.choice(["plain", "plain", "until", "chunked", "chunked"])
    if mode == "chunked":
        if not body:
            body = b"data: x\n\n"
        pts = sorted(set(rng.randrange(1, len(body)) for _ in range(rng.choice([0, 1, 2, 4]))) if len(body) > 1 else [])
        if rng.random() < 0.3:
            pts = sorted(set(pts + [i + 1 for i in range(len(body) - 1) if body[i:i + 2] == b"\r\n"]))
        chunks = K.cut(body, pts)
        wire = _enc_chunks(chunks, rng)
        return {"mode": mode, "chunks": [h(c) for c in chunks], "reads": [h(x) for x in K.cut(wire, K._rand_cuts(rng, wire))],
                "head": h(gen_head(rng, mode))}
    cuts = K._rand_cuts(rng, body) if body else []
    inside = [i + 1 for i in range(len(body) - 1) if body[i:i + 2] == b"\r\n"]
    if inside and rng.random() < 0.6:
        cuts = list(cuts) + [rng.choice(inside)]
    case = {"mode": mode, "reads": [h(x) for x in K.cut(body, cuts)] if body else [h(b"")]}
    if mode == "until":
        case["head"] = h(gen_head(rng, mode))
    return case


ID_LESS = [": keep-alive\n\n", "data: no id here\n\n", "retry: 2500\n\n", "event: ping\ndata: p\r\n\r\n", ":\r\r",
           "data\n\n", "id: a\x00b\ndata: nul id\n\n"]


def _gen_conn(rng, idless_first):
    body = b""
    if idless_first:
        for _ in range(rng.choice([1, 1, 2, 3])):
            body += rng.choice(ID_LESS).encode("utf-8")
    if rng.random() < 0.75:
        body += _gen_stream(rng)
    if not body:
        body = b": x\n\n"
    mode = rng.choice(["chunked", "chunked", "until"])
    cutoff = False
    if mode == "chunked":
        pts = sorted(set(rng.randrange(1, len(body)) for _ in range(rng.choice([0, 1, 2, 4, 8])))) if len(body) > 1 else []
        if idless_first and rng.random() < 0.5:
            pts = sorted(set(pts + [i + 1 for i in range(len(body) - 1) if body[i:i + 2] in (b"\n\n", b"\r\r")]))
        chunks = K.cut(body, pts)
        wire = _enc_chunks(chunks, rng, final=False)
        cutoff = rng.random() < 0.5
        if not cutoff:
            wire += b"0\r\n\r\n"
        elif rng.random() < 0.5:
            wire = wire[:rng.randrange(1, len(wire) + 1)]       # dropped in the middle of a chunk
    else:
        wire = body
    r = rng.random()
    cuts = list(range(1, len(wire))) if r < 0.2 and len(wire) < 400 else K._rand_cuts(rng, wire)
    head = gen_head(rng, mode)
    hl = [i + 2 for i in range(len(head) - 2) if head[i:i + 2] == b"\r\n"]
    head_cuts = rng.choice([[], [], hl[:1], hl, [rng.randrange(1, len(head))]])
    return {"mode": mode, "reads": [h(x) for x in K.cut(wire, cuts)], "cut": cutoff, "head": h(head),
            "head_cuts": head_cuts, "idle": rng.choice([0, 0, 1, 2, 3])}


def _gen_deliver(rng, level=None, preload=None):
    body = _gen_stream(rng) or b"data: x\n\n"
    level = level or rng.choice(["client", "client", "respondent", "source"])
    kind = "plain" if level == "source" else rng.choice(["until", "chunked"])
    case = {"mode": "deliver", "level": level, "body": kind, "preload": rng.choice([0, 0, 0, 1, 2]) if preload is None else preload}
    if kind == "chunked":
        pts = sorted(set(rng.randrange(1, len(body)) for _ in range(rng.choice([0, 1, 2, 4])))) if len(body) > 1 else []
        chunks = K.cut(body, pts)
        wire = _enc_chunks(chunks, rng)
        case["chunks"] = [h(c) for c in chunks]
    else:
        wire = body
    case["reads"] = [h(x) for x in K.cut(wire, K._rand_cuts(rng, wire))]
    if level != "source":
        case["head"] = h(gen_head(rng, kind))
    if level == "client":
        # the peer closes: in the very pass that delivers its last bytes, one pass later, after idle passes, or never
        case["fin"] = rng.choice([None, 0, 0, 0, 1, 2, 4])
        if rng.random() < 0.3:
            head = unh(case["head"])
            case["head_cuts"] = [rng.randrange(1, len(head))]
    return case


def _gen_history(rng):
    init = {"leid": rng.choice([None, None, "9", "last-\u00e9", ""]), "retry": rng.choice([None, None, 2500, 0])}
    conns = [_gen_conn(rng, idless_first=(k > 0 or init["leid"] is not None or rng.random() < 0.5))
             for k in range(rng.choice([1, 2, 2, 3, 4]))]
    return {"mode": "history", "init": init, "conns": conns}


def _hist(init, conns):
    out = []
    for mode, chunks, cuts, final in conns:
        if mode == "chunked":
            wire = b"".join(b"%x\r\n" % len(c) + c + b"\r\n" for c in chunks) + (b"0\r\n\r\n" if final else b"")
        else:
            wire = b"".join(chunks)
        out.append({"mode": mode, "reads": [h(x) for x in K.cut(wire, cuts)], "cut": not final})
    return {"mode": "history", "init": init, "conns": out}


def _enc_chunks(chunks, rng=None, final=True, spell=None):
    """chunked coding of the data chunks; the size of each chunk is written by spell(n) (default: any spelling a
    sender may use -- lower, UPPER or miXed case hex letters, leading zeros, blank padding -- drawn from rng)"""
    out = b""
    for c in chunks:
        size = spell(len(c)) if spell else (K._spell_hex(rng, len(c)) if rng else b"%x" % len(c))
        out += size + b"\r\n" + c + b"\r\n"
    return out + (b"0\r\n\r\n" if final else b"")


def _chunked_case(chunks, cuts=None):
    wire = b"".join(b"%x\r\n" % len(c) + c + b"\r\n" for c in chunks) + b"0\r\n\r\n"
    return {"mode": "chunked", "chunks": [h(c) for c in chunks],
            "reads": [h(x) for x in K.cut(wire, cuts if cuts is not None else [])]}


def directed():
    out = []
    s = ("id: 1\r\nevent: a\r\ndata: x\r\ndata: y\r\n\r\n" ": c\ndata\n\ndata:\n\n" "retry: 007\rid\rdata:  two\r\r"
         "data: caf\u00e9\r\nretry: +5\nretry: 1_0\r\nid: nul\x00\nfoo\n\r\n" "event: dropped\n\n" "data: tail").encode("utf-8")
    for cuts in ([], list(range(1, len(s))), K.interesting_cuts(s)):
        out.append({"mode": "plain", "reads": [h(x) for x in K.cut(s, cuts)]})
        out.append({"mode": "until", "reads": [h(x) for x in K.cut(s, cuts)]})
    out.append(_chunked_case([s[:7], s[7:8], s[8:40], s[40:]]))
    out.append(_chunked_case([s[:7], s[7:8], s[8:40], s[40:]], list(range(1, 60))))
    # chunk sizes as senders spell them: lower, UPPER, miXed case, leading zeros, blank padding; chunks of 10..255+
    # bytes so that the size needs hex letters (seeded C15-12: upper-case letters rejected)
    ev = b"id: 7\ndata: 0123456789abcdefghijklmnop\n\n"            # 43 bytes = 0x2b
    big = [ev[:13], ev[13:26] + ev[26:], ev * 4, ev[:10], ev[10:] + ev * 6 + b"retry: 12\n\n"]   # d, 1e, ac, a, 12e
    for name, spell in (("lower", lambda n: b"%x" % n), ("upper", lambda n: b"%X" % n),
                        ("mixed", lambda n: bytes(c - 32 if 97 <= c <= 102 and i % 2 == 0 else c for i, c in enumerate(b"%x" % n))),
                        ("zeros", lambda n: b"00%X" % n), ("padded", lambda n: b" %X\t" % n)):
        wire = _enc_chunks(big, spell=spell)
        for cuts in ([], K.interesting_cuts(wire)):
            out.append({"mode": "chunked", "chunks": [h(c) for c in big], "reads": [h(x) for x in K.cut(wire, cuts)]})
        hc = {"mode": "history", "init": {"leid": "3", "retry": None},
              "conns": [{"mode": "chunked", "reads": [h(x) for x in K.cut(wire, [5, 40, 200])], "cut": False}]}
        out.append(hc)
        out.append({"mode": "deliver", "level": "client", "body": "chunked", "preload": 1, "chunks": [h(c) for c in big],
                    "reads": [h(x) for x in K.cut(wire, [30, 300])]})
    # header names / values in other spellings, chunk boundaries inside events (seeded C15-13: coding name matched
    # case-sensitively; finding D43: blanks around the value)
    evs = b"id: 5\nevent: tick\ndata: alpha\ndata: beta\n\nretry: 40\nid: 6\ndata: gamma\n\n"
    inner = [evs[:9], evs[9:25], evs[25:40], evs[40:]]
    for te_name, te_val, ct in ((b"Transfer-Encoding", b"Chunked", b"text/event-stream"), (b"TRANSFER-ENCODING", b"CHUNKED", b"TEXT/EVENT-STREAM"),
                                (b"transfer-encoding", b"cHuNkEd", b"Text/Event-Stream; charset=utf-8"),
                                (b"Transfer-encoding", b" chunked ", b" text/event-stream"), (b"tRANSFER-eNCODING", b"\tCHUNKED", b"text/EVENT-stream\t")):
        head = b"HTTP/1.1 200 OK\r\n" + te_name + b": " + te_val + b"\r\nCONTENT-type: " + ct + b"\r\n\r\n"
        wire = _enc_chunks(inner)
        out.append({"mode": "chunked", "chunks": [h(c) for c in inner], "reads": [h(wire)], "head": h(head)})
        out.append({"mode": "chunked", "chunks": [h(c) for c in inner], "reads": [h(x) for x in K.cut(wire, list(range(1, len(wire), 7)))], "head": h(head)})
        out.append({"mode": "deliver", "level": "client", "body": "chunked", "preload": 0, "chunks": [h(c) for c in inner],
                    "reads": [h(x) for x in K.cut(wire, [20, 50])], "head": h(head)})
    # D14 witnesses: CRLF split between reads / chunks; mixed terminators
    out.append({"mode": "plain", "reads": [h(b"data: x\r"), h(b"\n\r"), h(b"\ndata: y\r\n\r\n")]})
    out.append(_chunked_case([b"data: x\r", b"\n\r", b"\ndata: y\r\n\r\n"]))
    out.append({"mode": "plain", "reads": [h(b"data: a\ndata: b\r\n\r\n")]})
    out.append({"mode": "plain", "reads": [h(b"data: a\r\rdata: b\r\r")]})
    out.append({"mode": "plain", "reads": [h(b"data: a\r"), h(b"\r")]})
    # D36 / D37 witnesses
    out.append({"mode": "plain", "reads": [h(b"data\n\ndata:\n\nevent: e\n\n")]})
    out.append({"mode": "plain", "reads": [h(b"retry: +5\nretry: 1_0\nretry:  20\nretry: \xef\xbc\x92\ndata: x\n\n")]})
    out.append({"mode": "plain", "reads": [h(b"retry: " + b"1" * 4300 + b"\ndata: x\n\n")]})
    out.append({"mode": "plain", "reads": [h(b"retry: 12\nretry: " + b"1" * 4301 + b"\ndata: x\n\n")]})
    out.append({"mode": "plain", "reads": [h(b"")]})
    out.append({"mode": "until", "reads": [h(b"")]})
    # resumed streams: the remembered last event id survives id-less chunks (seeded change C15-3), on both body kinds
    s1 = [b"retry: 1000\n\n", b"id: 3\r\ndata: three\r\n\r\n", b"id: 4\rdata: four\r\r"]
    s2 = [b": keep-alive\n\n", b"data: resumed, no id yet\n\n", b"id: 5\ndata: five\n\n"]
    for mode in ("chunked", "until"):
        out.append(_hist(None, [(mode, s1, [], False), (mode, s2, [], False), (mode, [b": only a comment\n\n"], [], True)]))
        out.append(_hist(None, [(mode, s1, list(range(1, 90)), False), (mode, s2, list(range(1, 90)), True)]))
        out.append(_hist({"leid": "77", "retry": 2500}, [(mode, s2[:2], [], True), (mode, [b"retry: 5\n\n"], [3], True)]))
        out.append(_hist({"leid": "77", "retry": None}, [(mode, [b"id\n\n", b"data: x\n\n"], [], True)]))
    # cut off with the reconnect timer not expired: the respondent is closed every pass while idle; the resumed
    # response (head split at a line end, body in fragments) must be parsed normally (finding D42, repo 0a30e14)
    for mode in ("until", "chunked"):
        hc = _hist(None, [(mode, s1, [], False), (mode, [b"data: b\n\n", b"data: c\n\n"], [9, 18] if mode == "until" else [14, 28], mode == "chunked")])
        hc["conns"][0]["idle"] = 3
        hc["conns"][1]["head_cuts"] = [17]
        out.append(hc)
    # the server's last events and its FIN readable in the same pass / a pass later / after idle passes (seeded C15-14)
    last = b"id: 1\ndata: first\n\n"
    final = b"id: 2\nretry: 77\ndata: final\n\n"
    for kind in ("until", "chunked"):
        for fin in (0, 1, 3, None):
            w2 = final if kind == "until" else _enc_chunks([final])
            w1 = last if kind == "until" else _enc_chunks([last], final=False)
            c = {"mode": "deliver", "level": "client", "body": kind, "preload": 0, "reads": [h(w1), h(w2)], "fin": fin}
            if kind == "chunked":
                c["chunks"] = [h(last), h(final)]
            out.append(c)
            c2 = dict(c, reads=[h(w1 + w2)])
            out.append(c2)
    # the caller's own containers (empty and preloaded) at every level (seeded C15-9)
    import random as _random
    drng = _random.Random(915)
    for level in ("client", "respondent", "source"):
        for preload in (0, 1, 2):
            out.append(_gen_deliver(drng, level=level, preload=preload))
    # line-length limit
    long_ok = b"data: " + b"z" * 65530 + b"\r\n\r\n"
    long_bad = b"data: " + b"z" * 65531 + b"\r\n\r\n"
    out.append({"mode": "plain", "reads": [h(long_ok)]})
    out.append({"mode": "plain", "reads": [h(long_ok[:65537]), h(long_ok[65537:])]})
    out.append({"mode": "plain", "reads": [h(long_bad)], "expect_error": True})
    out.append({"mode": "plain", "reads": [h(long_bad), h(b"data: more\n\n"), h(b"x")], "expect_error": True})
    out.append({"mode": "until", "reads": [h(long_bad[:65538]), h(long_bad[65538:])], "expect_error": True})
    return out


def generate(rng, tier):
    n, nh, nd = (600, 250, 150) if tier == "quick" else (4500, 2000, 1500)
    return ([_gen_case(rng) for _ in range(n)] + [_gen_history(rng) for _ in range(nh)] +
            [_gen_deliver(rng) for _ in range(nd)])


# ----------------------------------------------------------------------------- Gallina

def _u8(s):
    return K.coq_hexbytes(h(s.encode("utf-8"))) if s else "(@nil N)"


def coq_event(e):
    return "{| Sse.ev_id := %s; Sse.ev_name := %s; Sse.ev_data := %s |}" % (
        coq_option(e["id"], _u8, "bytes"), _u8(e["name"]), _u8(e["data"]))


def _rtrack(t):
    return f"({coq_option(t[0], _u8, 'bytes')}, {coq_N(t[1])})"


def coq_conn(mode, reads, o):
    cm = "Sse.MChunked" if mode == "chunked" else "Sse.MPlain"
    err = o["err"] is not None
    through_resp = "trace" in o
    return ("{| Sse.c_mode := %s; Sse.c_reads := %s; Sse.c_events := %s; Sse.c_leid := %s; Sse.c_retry := %s; "
            "Sse.c_err := %s; Sse.c_left := %s; Sse.c_init := %s; Sse.c_trace := %s |}" % (
                cm, coq_list([K.coq_hexbytes(x) for x in reads], "bytes"),
                coq_list([coq_event(e) for e in o["events"]], "Sse.event"),
                coq_option(o["leid"], _u8, "bytes"), coq_option(o["retry"], coq_N, "N"),
                coq_bool(err), K.coq_hexbytes("" if err else o["left"]),
                coq_option(o["init"] if through_resp else None, _rtrack, "Sse.rtrack"),
                coq_list([_rtrack(t) for t in o["trace"]] if through_resp else [], "Sse.rtrack")))


def to_coq(case, obs):
    if case["mode"] == "deliver":
        return coq_list([coq_conn(case["body"], case["reads"], obs)], "Sse.conn")
    if case["mode"] == "history":
        return coq_list([coq_conn(c["mode"], c["reads"], o) for c, o in zip(case["conns"], obs["conns"])], "Sse.conn")
    return coq_list([coq_conn(case["mode"], case["reads"], obs)], "Sse.conn")


def nontrivial(case, obs):
    if case["mode"] == "deliver":
        return len(obs.get("events", [])) >= 1 and case["level"] != "source"
    if case["mode"] == "history":
        # a resumed connection whose first completed read carries no id while an id is remembered
        for c, o in zip(case["conns"], obs.get("conns", [])):
            if o["init"][0] is not None and o["trace"] and any(t[0] == o["init"][0] for t in o["trace"]) and len(o["events"]) >= 1:
                return True
        return False
    reads = [unh(x) for x in case["reads"]]
    body = body_of(case)
    kinds = set(re.findall(b"\r\n|\n|\r", body))
    wire = b"".join(reads)
    pos, inside = 0, False
    for r in reads[:-1]:
        pos += len(r)
        if wire[pos - 1:pos + 1] == b"\r\n":
            inside = True
    if case["mode"] == "chunked":
        pos = 0
        for c in case["chunks"][:-1]:
            pos += len(unh(c))
            if body[pos - 1:pos + 1] == b"\r\n":
                inside = True
    return len(obs.get("events", [])) >= 2 and len(kinds) >= 2 and inside


def classify(case, obs, why):
    return None


def shrink(case):
    if case["mode"] == "deliver":
        return
    if case["mode"] == "history":
        conns = case["conns"]
        for i in range(len(conns)):
            if len(conns) > 1:
                yield dict(case, conns=conns[:i] + conns[i + 1:])
            r = conns[i]["reads"]
            if len(r) > 1:
                yield dict(case, conns=conns[:i] + [dict(conns[i], reads=["".join(r)])] + conns[i + 1:])
        return
    if case["mode"] == "chunked":
        return
    reads = case["reads"]
    if len(reads) > 1:
        for i in range(len(reads) - 1):
            yield dict(case, reads=reads[:i] + [reads[i] + reads[i + 1]] + reads[i + 2:])


def distribution(cases, obs):
    modes, nev, term = {}, 0, {"crlf": 0, "lf": 0, "cr": 0}
    nconn = 0
    for c, o in zip(cases, obs):
        modes[c["mode"]] = modes.get(c["mode"], 0) + 1
        if c["mode"] == "deliver":
            modes["deliver:" + c["level"]] = modes.get("deliver:" + c["level"], 0) + 1
            nev += len(o.get("events", [])) if isinstance(o, dict) else 0
            continue
        if c["mode"] == "history":
            nconn += len(c["conns"])
            nev += sum(len(x["events"]) for x in o.get("conns", [])) if isinstance(o, dict) else 0
            continue
        if isinstance(o, dict) and "events" in o:
            nev += len(o["events"])
        b = body_of(c)
        for t in re.findall(b"\r\n|\n|\r", b[:4000]):
            term[{b"\r\n": "crlf", b"\n": "lf", b"\r": "cr"}[t]] += 1
    return {"modes": modes, "events_delivered": nev, "terminators": term, "history_connections": nconn}


def extra(tier, ctx):
    """Every string of length <= 7 (thorough 8) over {d, :, space, CR, LF} prefixed by 'data' lines: EventSource bytewise
    vs whole vs the reference."""
    import itertools
    n, L = 0, (6 if tier == "quick" else 7)
    alphabet = b"d:\r\n "
    for t in itertools.product(alphabet, repeat=L):
        s = b"data:a\r" + bytes(t) + b"\n\n"
        n += 1
        ref = sse_ref(s)
        whole = run_plain([s])
        split = run_plain([bytes([x]) for x in s])
        got = (whole["events"], whole["leid"], whole["retry"])
        if _canon(whole) != _canon(split) or got != ref:
            ctx.violations.append({"kind": "oracle", "why": f"stream {s!r}: whole {got}, bytewise {_canon(split)}, reference {ref}",
                                   "case": {"mode": "plain", "reads": [h(bytes([x])) for x in s]}})
            return {"sse_strings_swept": n}
    return {"sse_strings_swept": n, "sse_sweep": f"'data:a\\r' + every string of length {L} over {alphabet!r} + '\\n\\n', whole and bytewise vs reference"}
