(* C25 — boxwork transitions run exit/enter actions in documented nested order.
   Statements only; proofs are in Proofs/BoxProofs.v. *)
From Hio Require Import Base.Prelude Model.Box Proofs.BoxProofs.

(* exen cuts the two piles at the maximal common prefix that stops at far. *)
Theorem C25_exen_spec : forall far nears fars c no fo,
  exen_split far nears fars = Some (c, no, fo) <-> is_split far nears fars c no fo.
Proof. intros; split; [apply exen_split_sound | apply exen_split_complete]. Qed.
Print Assumptions C25_exen_spec.
