(* Refinement of the dictionary of lists / ordered sets by the Io functions,
   for key universes in which no key followed by the ion separator starts
   another key. *)
From Hio Require Import Base.Prelude Base.ListFacts Model.Lmdb Model.IoSub
  Proofs.LmdbProofs Proofs.IoSubHex Proofs.IoSubBlock Proofs.IoSubOps.
Local Open Scope N_scope.

Lemma nonempty_match {A} (vs : list A) : match vs with [] => false | _ => true end = nonempty vs.
Proof. now destruct vs. Qed.

Lemma olast_map_snoc (m0 : list (N * bytes)) i v : olast (map snd (m0 ++ [(i, v)])) = Some v.
Proof. unfold olast. now rewrite map_app, rev_app_distr. Qed.

Lemma olast_snoc (m0 : list (N * bytes)) i v : olast (m0 ++ [(i, v)]) = Some (i, v).
Proof. unfold olast. now rewrite rev_app_distr. Qed.

Lemma snoc_cases {A} (l : list A) : l = [] \/ exists l0 a, l = l0 ++ [a].
Proof.
  destruct (rev l) as [|a t] eqn:E.
  - left. now apply rev_nil_inv.
  - right. exists (rev t), a. rewrite <- (rev_involutive l), E. reflexivity.
Qed.

Lemma length_filter_le {A} (f : A -> bool) l : (length (filter f l) <= length l)%nat.
Proof. induction l as [|a l IH]; simpl; [lia|]. destruct (f a); simpl; lia. Qed.

Lemma dedupe_acc_length seen vs : (length (dedupe_acc seen vs) <= length vs)%nat.
Proof.
  revert seen. induction vs as [|v vs IH]; intros seen; simpl; [lia|].
  destruct (existsb (bytes_eqb v) seen); simpl; [specialize (IH seen)|specialize (IH (v :: seen))]; lia.
Qed.

Lemma upd_same_b {A} (s : bytes -> A) k a : upd bytes_eqb s k a k = a.
Proof. unfold upd. now rewrite beqb_refl. Qed.
Lemma upd_other_b {A} (s : bytes -> A) k a k' : k' <> k -> upd bytes_eqb s k a k' = s k'.
Proof. intros H. unfold upd. now rewrite beqb_neq. Qed.

Section Refine.
  Variable U : bytes -> Prop.
  Hypothesis U_indep : forall k k', U k -> U k' -> k <> k' -> indep2 k k'.

  (* ---- the abstraction on a decomposed db ---- *)
  Lemma abs_below k L : Forall (below U k) L -> abs_io L k = [].
  Proof.
    unfold abs_io. induction L as [|[ik v] L IH]; intros H; simpl; auto.
    inversion H; subst. destruct (below_key U k _ H2) as (k' & i & Hne & E). simpl in E.
    unfold is_key. simpl. rewrite E, beqb_neq by assumption. now apply IH.
  Qed.
  Lemma abs_above k R : Forall (above U k) R -> abs_io R k = [].
  Proof.
    unfold abs_io. induction R as [|[ik v] R IH]; intros H; simpl; auto.
    inversion H; subst. destruct (above_key U k _ H2) as (k' & i & Hne & E). simpl in E.
    unfold is_key. simpl. rewrite E, beqb_neq by assumption. now apply IH.
  Qed.
  Lemma abs_blk_same k m : Forall (fun iv => fst iv < ionmax) m -> abs_io (blk k m) k = map snd m.
  Proof.
    unfold abs_io. induction m as [|[i v] m IH]; intros H; simpl; auto.
    inversion H; subst. simpl in H2. unfold is_key. simpl.
    rewrite unsuffix_suffix, beqb_refl by assumption. simpl. f_equal. now apply IH.
  Qed.
  Lemma abs_blk_other k k2 m : k2 <> k -> Forall (fun iv => fst iv < ionmax) m -> abs_io (blk k m) k2 = [].
  Proof.
    intros Hne. unfold abs_io. induction m as [|[i v] m IH]; intros H; simpl; auto.
    inversion H; subst. simpl in H2. unfold is_key. simpl.
    rewrite unsuffix_suffix by assumption. rewrite beqb_neq by congruence. now apply IH.
  Qed.
  Lemma abs_app d1 d2 k : abs_io (d1 ++ d2) k = abs_io d1 k ++ abs_io d2 k.
  Proof. unfold abs_io. now rewrite filter_app, map_app. Qed.

  Lemma incr_small B m : B <= maxsuffix -> incr B m -> Forall (fun iv => fst iv < ionmax) m.
  Proof.
    intros HB Hm. pose proof maxsuffix_lt. eapply Forall_impl; [|apply (incr_bound _ _ Hm)].
    intros iv H1. simpl in H1. lia.
  Qed.

  Definition Rel (B : N) (d : dbb) (s : bytes -> list bytes) : Prop :=
    Inv U B d /\ forall k, U k -> abs_io d k = s k.

  Lemma abs_dec k B L R m : Dec U k B L R -> incr B m -> abs_io (L ++ blk k m ++ R) k = map snd m.
  Proof.
    intros D Hm. rewrite !abs_app, (abs_below k L), (abs_above k R), (abs_blk_same k m), app_nil_r; auto.
    - apply (incr_small B); auto. apply D.
    - apply D.
    - apply D.
  Qed.

  Lemma rel_replace k B B' L R m m' s :
    Dec U k B L R -> incr B m -> B <= B' -> B' <= maxsuffix -> incr B' m' ->
    Rel B (L ++ blk k m ++ R) s ->
    Rel B' (L ++ blk k m' ++ R) (upd bytes_eqb s k (map snd m')).
  Proof.
    intros D Hm H1 H2 Hm' [_ Habs]. pose proof (Dec_mono U k B B' L R H1 H2 D) as D'. split.
    - now apply unblock.
    - intros k2 Uk2. destruct (bytes_eq_dec k2 k) as [->|Hne].
      + rewrite upd_same_b. now apply (abs_dec k B').
      + rewrite upd_other_b by assumption. rewrite <- (Habs k2 Uk2).
        rewrite !abs_app. rewrite !(abs_blk_other k k2); auto.
        * apply (incr_small B); auto. apply D.
        * apply (incr_small B'); auto.
  Qed.

  Lemma rel_mono B B' d s : B <= B' -> B' <= maxsuffix -> Rel B d s -> Rel B' d s.
  Proof.
    intros H1 H2 [(HB & S & W) A]. split; auto. split; [auto|]. split; auto.
    eapply Forall_impl; [|exact W]. intros e. now apply wf_mono.
  Qed.

  Lemma upd_id_rel B d s k : Rel B d s -> Rel B d (upd bytes_eqb s k (s k)).
  Proof.
    intros [I A]. split; auto. intros k2 Uk2. unfold upd. destruct (bytes_eqb k2 k) eqn:E; auto.
    apply bytes_eqb_eq in E. subst. auto.
  Qed.

  (* ---- every Io function on a decomposed db ---- *)
  Section OnBlock.
    Variables (k : bytes) (B : N) (L R : dbb) (m : list (N * bytes)).
    Hypothesis D : Dec U k B L R.
    Hypothesis Hm : incr B m.
    Let d := L ++ blk k m ++ R.

    Lemma next_small : next_ion m <= B /\ next_ion m < ionmax.
    Proof.
      destruct (next_ion_spec B m Hm) as [_ H]. pose proof maxsuffix_lt. pose proof (dec_B _ _ _ _ _ D). lia.
    Qed.

    Lemma getIoVals_dec : getIoVals d k = Ok (map snd m).
    Proof. unfold getIoVals, d. rewrite (seek_lo U U_indep k B L R D m Hm). simpl. now rewrite (scan_blk U k B L R D m Hm). Qed.

    Lemma getIoValFirst_dec : getIoValFirst d k = Ok (ohd (map snd m)).
    Proof.
      unfold getIoValFirst, d. rewrite (seek_lo U U_indep k B L R D m Hm). simpl.
      destruct m as [|[i v] m'] eqn:Em; simpl.
      - pose proof (R_head U k B L R D) as H. destruct R as [|[ik w] R']; auto.
        destruct H as (k' & i & Hne & E). simpl in E. rewrite E. now rewrite beqb_neq.
      - rewrite unsuffix_suffix, beqb_refl; [reflexivity|].
        apply (ion_small U k B L R D ((i, v) :: m') (i, v)); auto. now left.
    Qed.

    Lemma getIoValLast_dec : getIoValLast d k = Ok (olast (map snd m)).
    Proof.
      unfold getIoValLast, d. rewrite (seek_hi U U_indep k B L R D m Hm).
      pose proof (last_lookup U k B L R D m Hm) as LL.
      assert (Found :
        match R with
        | [] => match last_entry (L ++ blk k m ++ R) with
                | None => Ok None
                | Some (ik, _) => match unsuffix ik with
                                  | Exc e => Exc e
                                  | Ok (ck, ci) => Ok (if bytes_eqb ck k then Some ci else None)
                                  end
                end
        | (ik, _) :: _ =>
          match unsuffix ik with
          | Exc e => Exc e
          | Ok (ck, ci) =>
            if bytes_eqb ck k then Ok (Some ci)
            else match last_entry (L ++ blk k m) with
                 | None => Ok None
                 | Some (ik', _) => match unsuffix ik' with
                                    | Exc e => Exc e
                                    | Ok (ck', ci') => Ok (if bytes_eqb ck' k then Some ci' else None)
                                    end
                 end
          end
        end = Ok (option_map fst (olast m))).
      { pose proof (R_head U k B L R D) as H. destruct R as [|[ik w] R'].
        - rewrite app_nil_r. exact LL.
        - destruct H as (k' & i & Hne & E). simpl in E. rewrite E. rewrite beqb_neq by assumption. exact LL. }
      rewrite Found. clear Found LL.
      destruct (snoc_cases m) as [->|(m0 & [i v] & ->)].
      - reflexivity.
      - rewrite olast_snoc, olast_map_snoc. simpl.
        now rewrite (get_last U U_indep k B L R D m0 i v Hm).
    Qed.

    Lemma popIoVal_dec : popIoVal d k = (L ++ blk k (tl m) ++ R, Ok (ohd (map snd m))).
    Proof.
      unfold popIoVal, d. rewrite (seek_lo U U_indep k B L R D m Hm).
      destruct m as [|[i v] m'] eqn:Em; simpl.
      - pose proof (R_head U k B L R D) as H. destruct R as [|[ik w] R']; auto.
        destruct H as (k' & i & Hne & E). simpl in E. rewrite E. now rewrite beqb_neq.
      - rewrite unsuffix_suffix, beqb_refl; [reflexivity|].
        apply (ion_small U k B L R D ((i, v) :: m') (i, v)); auto. now left.
    Qed.

    Lemma remIoVals_dec : remIoVals d k = (L ++ blk k [] ++ R, Ok (nonempty m)).
    Proof.
      unfold remIoVals, d. rewrite (seek_lo U U_indep k B L R D m Hm).
      now rewrite (rem_scan_blk U k B L R D m Hm).
    Qed.

    Lemma addIoVal_dec v :
      addIoVal d k v = (L ++ blk k (m ++ [(next_ion m, v)]) ++ R, Ok true).
    Proof.
      unfold addIoVal, d. rewrite (seek_lo U U_indep k B L R D m Hm). simpl.
      rewrite (scan_blk U k B L R D m Hm).
      rewrite (put_new U U_indep k B L R D); [reflexivity| |apply next_small].
      apply (next_ion_spec B m Hm).
    Qed.

    Lemma putIoVals_dec vs : next_ion m + N.of_nat (length vs) <= ionmax ->
      putIoVals d k vs = (L ++ blk k (m ++ enum (next_ion m) vs) ++ R, Ok (nonempty vs)).
    Proof.
      intros Hb. unfold putIoVals, d. rewrite (seek_lo U U_indep k B L R D m Hm). simpl.
      rewrite (scan_blk U k B L R D m Hm).
      rewrite (put_from_new U U_indep k B L R D); [|apply (next_ion_spec B m Hm)|assumption].
      now rewrite nonempty_match.
    Qed.

    Lemma addIoSetVal_dec v :
      addIoSetVal d k v =
      if existsb (bytes_eqb v) (map snd m) then (d, Ok false)
      else (L ++ blk k (m ++ [(next_ion m, v)]) ++ R, Ok true).
    Proof.
      unfold addIoSetVal. unfold d at 1. rewrite (seek_lo U U_indep k B L R D m Hm). simpl.
      rewrite (scan_blk U k B L R D m Hm).
      destruct (existsb (bytes_eqb v) (map snd m)); [reflexivity|]. unfold d.
      rewrite (put_new U U_indep k B L R D); [reflexivity| |apply next_small].
      apply (next_ion_spec B m Hm).
    Qed.

    Lemma putIoSetVals_dec vs :
      let new := minus (dedupe vs) (map snd m) in
      next_ion m + N.of_nat (length new) <= ionmax ->
      putIoSetVals d k vs = (L ++ blk k (m ++ enum (next_ion m) new) ++ R, Ok (nonempty new)).
    Proof.
      intros new Hb. unfold putIoSetVals, d. rewrite (seek_lo U U_indep k B L R D m Hm). simpl.
      rewrite (scan_blk U k B L R D m Hm). fold new.
      rewrite (put_from_new U U_indep k B L R D); [|apply (next_ion_spec B m Hm)|assumption].
      now rewrite nonempty_match.
    Qed.

    Lemma remIoSetVal_dec val :
      remIoSetVal d k val =
      match rmfirst val m with
      | Some m' => (L ++ blk k m' ++ R, Ok true)
      | None => (d, Ok false)
      end.
    Proof.
      unfold remIoSetVal. unfold d at 1. rewrite (seek_lo U U_indep k B L R D m Hm).
      rewrite (remval_blk U k B L R D val m Hm). now destruct (rmfirst val m).
    Qed.
  End OnBlock.

  Lemma Dec_nil_incr B : incr B [].
  Proof. exact I. Qed.

  Lemma pinIoVals_dec k B L R m vs : Dec U k B L R -> incr B m ->
    N.of_nat (length vs) <= ionmax ->
    pinIoVals (L ++ blk k m ++ R) k vs = (L ++ blk k (enum 0 vs) ++ R, Ok (nonempty vs)).
  Proof.
    intros D Hm Hb. unfold pinIoVals. rewrite (remIoVals_dec k B L R m D Hm).
    pose proof (put_from_new U U_indep k B L R D true false vs [] 0 false) as P.
    simpl in P. simpl. rewrite P; auto.
  Qed.

  Lemma pinIoSetVals_dec k B L R m vs : Dec U k B L R -> incr B m ->
    N.of_nat (length (dedupe vs)) <= ionmax ->
    pinIoSetVals (L ++ blk k m ++ R) k vs =
      (L ++ blk k (enum 0 (dedupe vs)) ++ R, Ok (nonempty (dedupe vs))).
  Proof.
    intros D Hm Hb. unfold pinIoSetVals. rewrite (remIoVals_dec k B L R m D Hm).
    pose proof (put_from_new U U_indep k B L R D true true (dedupe vs) [] 0 false) as P.
    simpl in P. simpl. rewrite P; auto.
  Qed.

  Lemma incr_append B w m vs : incr B m -> N.of_nat (length vs) <= w ->
    incr (B + w) (m ++ enum (next_ion m) vs).
  Proof.
    intros Hm Hw. destruct (next_ion_spec B m Hm) as [H1 H2]. apply incr_app.
    - apply (incr_mono B); [lia|assumption].
    - apply incr_enum. lia.
    - intros a b Ha Hb. rewrite Forall_forall in H1. specialize (H1 a Ha).
      pose proof (enum_lower (next_ion m) vs) as E. rewrite Forall_forall in E. specialize (E b Hb).
      simpl in *. lia.
  Qed.
  Lemma incr_tl B m : incr B m -> incr B (tl m).
  Proof. destruct m as [|a m]; simpl; tauto. Qed.
  Lemma incr_enum0 B w vs : N.of_nat (length vs) <= w -> incr (B + w) (enum 0 vs).
  Proof. intros H. apply incr_enum. lia. Qed.

  Lemma remove1_absent v (l : list bytes) : existsb (bytes_eqb v) l = false -> remove1 v l = l.
  Proof.
    induction l as [|x l IH]; simpl; auto. destruct (bytes_eqb v x); simpl; [discriminate|].
    intros H. now rewrite IH.
  Qed.
  Lemma map_tl {A C} (f : A -> C) l : map f (tl l) = tl (map f l).
  Proof. now destruct l. Qed.

  Lemma minus_dedupe_length vs l : (length (minus (dedupe vs) l) <= length vs)%nat.
  Proof.
    unfold minus, dedupe. pose proof (length_filter_le (fun v => negb (existsb (bytes_eqb v) l)) (dedupe_acc [] vs)).
    pose proof (dedupe_acc_length [] vs). lia.
  Qed.

  Lemma finish k B w L R m m' s X :
    Dec U k B L R -> incr B m -> B + w <= maxsuffix -> incr (B + w) m' ->
    Rel B (L ++ blk k m ++ R) s -> X = map snd m' ->
    Rel (B + w) (L ++ blk k m' ++ R) (upd bytes_eqb s k X).
  Proof. intros D Hm Hw Hm' Hr ->. apply (rel_replace k B (B + w) L R m m'); auto. lia. Qed.

  Theorem step_io_refines set B d s o :
    Rel B d s -> U (tokey (op_key o)) -> B + weight o <= maxsuffix ->
    snd (step_io set d o) = snd (spec_io bytes_eqb set s o (tokey (op_key o))) /\
    Rel (B + weight o) (fst (step_io set d o)) (fst (spec_io bytes_eqb set s o (tokey (op_key o)))).
  Proof.
    intros Hr Uk Hw. pose proof Hr as [Iv A]. pose proof maxsuffix_lt as ML.
    destruct (block U U_indep B d _ Iv Uk) as (L & m & R & -> & D & Hm).
    pose proof (A _ Uk) as Hs. rewrite (abs_dec _ B L R m D Hm) in Hs.
    pose proof (next_small _ B L R m D Hm) as [Hn1 Hn2].
    assert (Same : forall r : res rv, r = r /\ Rel (B + 0) (L ++ blk (tokey (op_key o)) m ++ R) s).
    { intros r. split; auto. apply (rel_mono B); auto; lia. }
    destruct o as [k vs|k vs|k v|k|k|k|k|k|k v|k|k e]; cbn [op_key weight] in *;
      cbn [step_io spec_io lift fst snd rmap].
    - (* OPut *) destruct set.
      + pose proof (minus_dedupe_length vs (map snd m)) as Hl.
        rewrite (putIoSetVals_dec _ B L R m D Hm vs) by (cbn zeta; lia). cbn [fst snd rmap].
        rewrite <- Hs. split; [reflexivity|].
        apply (finish _ B _ L R m (m ++ enum (next_ion m) (minus (dedupe vs) (map snd m)))); auto.
        * apply incr_append; auto. lia.
        * now rewrite map_app, map_snd_enum.
      + rewrite (putIoVals_dec _ B L R m D Hm vs) by lia. cbn [fst snd rmap].
        rewrite <- Hs. split; [reflexivity|].
        apply (finish _ B _ L R m (m ++ enum (next_ion m) vs)); auto.
        * apply incr_append; auto. lia.
        * now rewrite map_app, map_snd_enum.
    - (* OPin *) destruct set.
      + pose proof (dedupe_acc_length [] vs) as Hl. fold (dedupe vs) in Hl.
        rewrite (pinIoSetVals_dec _ B L R m vs D Hm) by lia. cbn [fst snd rmap].
        split; [reflexivity|].
        apply (finish _ B _ L R m (enum 0 (dedupe vs))); auto.
        * apply incr_enum0. lia.
        * now rewrite map_snd_enum.
      + rewrite (pinIoVals_dec _ B L R m vs D Hm) by lia. cbn [fst snd rmap].
        split; [reflexivity|].
        apply (finish _ B _ L R m (enum 0 vs)); auto.
        * apply incr_enum0. lia.
        * now rewrite map_snd_enum.
    - (* OAdd *) destruct set; cbn [andb].
      + rewrite (addIoSetVal_dec _ B L R m D Hm v). rewrite <- Hs.
        destruct (existsb (bytes_eqb v) (map snd m)); cbn [fst snd rmap].
        * split; [reflexivity|]. apply (rel_mono B); auto; lia.
        * split; [reflexivity|].
          apply (finish _ B _ L R m (m ++ enum (next_ion m) [v])); auto.
          -- apply incr_append; auto. simpl. lia.
          -- now rewrite map_app, map_snd_enum.
      + rewrite (addIoVal_dec _ B L R m D Hm v). cbn [fst snd rmap]. rewrite <- Hs.
        split; [reflexivity|].
        apply (finish _ B _ L R m (m ++ enum (next_ion m) [v])); auto.
        * apply incr_append; auto. simpl. lia.
        * now rewrite map_app, map_snd_enum.
    - (* OGet *) rewrite (getIoVals_dec _ B L R m D Hm). cbn [rmap]. rewrite <- Hs. apply Same.
    - (* OGetFirst *) rewrite (getIoValFirst_dec _ B L R m D Hm). cbn [rmap]. rewrite <- Hs. apply Same.
    - (* OGetLast *) rewrite (getIoValLast_dec _ B L R m D Hm). cbn [rmap]. rewrite <- Hs. apply Same.
    - (* OPop *) rewrite (popIoVal_dec _ B L R m D Hm). cbn [fst snd rmap]. rewrite <- Hs.
      split; [reflexivity|].
      apply (finish _ B _ L R m (tl m)); auto.
      + apply (incr_mono B); [lia|]. now apply incr_tl.
      + now rewrite map_tl.
    - (* ORem *) rewrite (remIoVals_dec _ B L R m D Hm). cbn [fst snd rmap]. rewrite <- Hs.
      split; [now destruct m|].
      apply (finish _ B _ L R m []); auto. exact I.
    - (* ORemVal *) destruct set.
      + destruct v as [|b v].
        * rewrite (remIoVals_dec _ B L R m D Hm). cbn [fst snd rmap]. rewrite <- Hs.
          split; [now destruct m|].
          apply (finish _ B _ L R m []); auto. exact I.
        * rewrite (remIoSetVal_dec _ B L R m D Hm (b :: v)). rewrite <- Hs.
          pose proof (rmfirst_spec (b :: v) m) as RS.
          destruct (rmfirst (b :: v) m) as [m'|] eqn:Erm; cbn [fst snd rmap].
          -- destruct RS as [RS1 RS2]. rewrite RS1. split; [reflexivity|].
             apply (finish _ B _ L R m m'); auto.
             apply (incr_mono B); [lia|]. eapply rmfirst_incr; eauto.
          -- rewrite RS. split; [reflexivity|].
             apply (finish _ B _ L R m m); auto.
             ++ apply (incr_mono B); [lia|assumption].
             ++ now apply remove1_absent.
      + cbn [fst snd]. apply Same.
    - (* OCnt *) rewrite (getIoVals_dec _ B L R m D Hm). cbn [rmap]. rewrite <- Hs.
      rewrite map_length. apply Same.
    - (* ORaise *) cbn [fst snd]. apply Same.
  Qed.
End Refine.
