(* Doist.ado and Doist.do are two separately written loops; they compute the same run. *)
From Hio Require Import Base.Prelude Base.AMap Base.Time Model.Sched.

Section Ado.
Context {T : Type} `{Time T}.

Lemma acycle_loop_eq tk cycles : forall fuel (s : st T) limit stop,
  acycle_loop tk cycles fuel s limit stop = cycle_loop tk cycles fuel s limit stop.
Proof.
  induction cycles as [|c IH]; intros fuel s limit stop; cbn [acycle_loop cycle_loop]; [reflexivity|].
  destruct (recur_pass tk fuel s 0%N) as [s1 r].
  destruct r as [t| |[|]|]; try reflexivity.
  - unfold await_sleep0. destruct (deeds (get_sched (set_tyme s1 (tadd (tyme s1) tk)) 0%N)); [reflexivity|].
    destruct (_ && _); [reflexivity|apply IH].
  - unfold await_sleep0. destruct (deeds (get_sched (set_tyme s1 (tadd (tyme s1) tk)) 0%N)); [reflexivity|].
    destruct (_ && _); [reflexivity|apply IH].
Qed.

Lemma ado_run_eq cycles fuel (p : prog T) : ado_run cycles fuel p = do_run cycles fuel p.
Proof.
  unfold ado_run, do_run.
  destruct (enter_own (p_tock p) fuel (init_st p) 0%N (p_doers p)) as [s1 r].
  destruct r; try reflexivity; apply acycle_loop_eq.
Qed.

Lemma ado_again_eq cycles fuel tk limit tyme' (s : st T) :
  ado_again cycles fuel tk limit tyme' s = do_again cycles fuel tk limit tyme' s.
Proof.
  unfold ado_again, do_again. cbv zeta.
  destruct (enter_own tk fuel _ 0%N _) as [s1 r].
  destruct r; try reflexivity; apply acycle_loop_eq.
Qed.

(* any history of runs on one Doist *)
Lemma ado_history_eq cycles fuel tk (hist : list (option T * option T)) : forall (s : st T),
  fold_left (fun s '(l, t) => ado_again cycles fuel tk l t s) hist s =
  fold_left (fun s '(l, t) => do_again cycles fuel tk l t s) hist s.
Proof.
  induction hist as [|[l t] hist IH]; intro s; cbn [fold_left]; [reflexivity|].
  rewrite ado_again_eq. apply IH.
Qed.

End Ado.
