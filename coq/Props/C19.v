(* C19 — Client requests are sent one at a time and answered in FIFO order.
   Statements only; proofs are in Proofs/HttpClientProofs.v.

   run mof qof pq pay (init_m reconn https redirectable cmethod) evs : the client's bookkeeping (the
   tag t has method mof t, explicit query arguments qof t (None: Client.request was called without
   qargs and took a copy of the requester's) and the query pq t written into its path; the Client was constructed with method cmethod) after an arbitrary
   schedule evs of  Enq tag  (Client.request) and  Pass rc o  (one Client.service();
   rc = the reconnect timer of a reconnectable connector had expired at its start,
   o = Some reply when a complete reply was consumed in that pass) Eof  (the connector read the
   server's close) and  Take  (the application calls Client.respond()).  All theorems
   quantify over every schedule and every server behaviour (immediate, delayed =
   Pass false None, redirecting, closing = rp_close). *)
From Hio Require Import Base.Prelude Model.HttpClient Proofs.HttpClientProofs.
Local Open Scope N_scope.

(* Queue order is response order: the tags queued so far are exactly the origins
   of the response entries, then the (at most one) request in flight, then the
   still queued ones.  Hence one entry per answered request, none skipped, none
   twice, same order, each carrying its originating request (origin = the tag in
   the entry's request, or in the first redirect of its history).  On the wire the
   original requests appear in queue order and at most one is unanswered. *)
Theorem C19_fifo : forall mof qof pq pay reconn https redirectable cmethod evs,
  let s := run mof qof pq pay (init_m reconn https redirectable cmethod) evs in
  map Some (enqs evs) = map origin (responses s) ++ inflight s ++ map Some (queue s)
  /\ (length (inflight s) <= 1)%nat
  /\ (exists rest, enqs evs = wire_reqs (wire s) ++ rest)
  /\ (length (wire_reqs (wire s)) <= length (responses s) + 1)%nat.
Proof. exact fifo. Qed.
Print Assumptions C19_fifo.

(* Redirects are followed transparently with the history attached: completing a
   reply either delivers an entry (history := the hops so far) or, for a followed
   redirect, appends exactly that hop (with the target of the redirected request)
   and delivers nothing; the follow-up request is sent to exactly the Location's
   path and query - nothing of the redirected request's query is carried over -
   and that is what the requester now holds; *)
Theorem C19_redirect_step : forall s r,
  (exists err c, complete s r = deliver s (rp_status r) err c)
  \/ (exists l, rp_loc r = Some l
      /\ redirects (complete s r) = redirects s ++ [(rp_status r, latest s)]
      /\ rtargets (complete s r) = rtargets s ++ [rq_target s]
      /\ rq_target (complete s r) = (true, rp_id r, l_query l)
      /\ (sent (complete s r) = true ->
          exists w, wire (complete s r) = wire s ++ [w] /\ w_item w = WRedir (rp_id r) /\ w_q w = l_query l)
      /\ responses (complete s r) = responses s /\ waited (complete s r) = true
      /\ is_redirect (rp_status r) = true /\ redirectable s = true).
Proof. exact complete_cases. Qed.
Print Assumptions C19_redirect_step.

(* a delivered entry names the target (path, query) of the request it answers
   and of the request of every hop of its history; *)
Theorem C19_entry_targets : forall s st err c,
  exists e, responses (deliver s st err c) = responses s ++ [e]
    /\ e_target e = rq_target s /\ e_targets e = rtargets s /\ e_history e = redirects s
    /\ e_pay e = rq_pay s.
Proof. exact deliver_targets. Qed.
Print Assumptions C19_entry_targets.

(* the target a queued request is sent with is fixed when it is queued and depends on nothing that
   is queued, sent or answered afterwards: it is the qargs its request dict got in Client.request
   (explicit ones, else a copy of the requester's at that moment - recorded in the append-only qlog)
   merged with the query of its own path; *)
Theorem C19_wire_queries : forall mof qof pq pay reconn https redirectable cmethod evs,
  let s := run mof qof pq pay (init_m reconn https redirectable cmethod) evs in
  Forall (fun w => match w_item w with
                   | WReq t => w_q w = merge (qlookup (qlog s) t) (pq t)
                   | WRedir _ => True end) (wire s).
Proof. exact wire_queries. Qed.
Print Assumptions C19_wire_queries.

Theorem C19_queued_target_fixed : forall mof qof pq pay s t e,
  qlog (enq qof s t) = qlog s ++ [(t, match qof t with Some q => q | None => snd (rq_target s) end)]
  /\ exists more, qlog (step mof qof pq pay s e) = qlog s ++ more.
Proof. intros. split; [apply enq_records | apply qlog_grows]. Qed.
Print Assumptions C19_wire_queries.
Print Assumptions C19_queued_target_fixed.

(* the payload (body bytes and Content-Type: none / body= / data= JSON / fargs= form) a request
   puts on the wire is a function of that request alone - its own payload, or none for GET - whatever
   payloads earlier requests carried; a redirect follow-up carries none; and while an un-redirected
   request is in flight the requester (hence the entry's request dict, C19_entry_targets) holds exactly
   that request's payload; *)
Theorem C19_wire_payload : forall mof qof pq pay reconn https redirectable cmethod evs,
  let s := run mof qof pq pay (init_m reconn https redirectable cmethod) evs in
  Forall (fun w => match w_item w with
                   | WReq t => w_pay w = wire_pay mof pay t
                   | WRedir _ => w_pay w = nopay end) (wire s)
  /\ (waited s = true -> redirects s = [] -> forall t, latest s = Some t -> rq_pay s = pay t).
Proof. exact wire_payload. Qed.
Print Assumptions C19_wire_payload.

(* ... and in every reachable state every entry's history consists of redirect
   statuses only, only its first hop carries a request tag, and an entry with a
   history carries no tag itself (the originating request is in the history). *)
Theorem C19_history_attached : forall mof qof pq pay reconn https redirectable cmethod evs,
  Forall good_entry (responses (run mof qof pq pay (init_m reconn https redirectable cmethod) evs)).
Proof. exact history_attached. Qed.
Print Assumptions C19_history_attached.

(* https -> http is refused: an https client stays on https connectors whatever
   the servers answer, and everything it ever sent went over https; *)
Theorem C19_https_never_downgraded : forall mof qof pq pay reconn redirectable cmethod evs,
  let s := run mof qof pq pay (init_m reconn true redirectable cmethod) evs in
  https s = true /\ Forall (fun w => w_https w = true) (wire s).
Proof. exact https_kept. Qed.
Print Assumptions C19_https_never_downgraded.

(* ... the refused redirect is delivered as the final, errored response of its
   request with the history so far; nothing is transmitted, the connector stays. *)
Theorem C19_downgrade_refused : forall s r l h,
  https s = true -> redirectable s = true -> is_redirect (rp_status r) = true ->
  rp_loc r = Some l -> l_host l = Some h -> l_https l = false ->
  complete s r = deliver s (rp_status r) true (cut s).
Proof. exact downgrade_refused. Qed.
Print Assumptions C19_downgrade_refused.

(* Per-request methods (GET/HEAD/POST/PUT mixes, any constructor method): while a
   request is in flight the respondent reads the reply with the method of exactly
   that request, also across followed redirects, so the "HEAD reply has no body"
   rule is applied to HEAD replies and to no others and every reply the server
   sends for the request on the wire is consumed whole (readable). *)
Theorem C19_method_tracks : forall mof qof pq pay reconn https redirectable cmethod evs,
  let s := run mof qof pq pay (init_m reconn https redirectable cmethod) evs in
  waited s = true ->
  rs_method s = rq_method s /\ (forall t, inflight s = [Some t] -> rq_method s = mof t).
Proof. exact method_tracks. Qed.
Print Assumptions C19_method_tracks.

Theorem C19_reply_always_readable : forall mof qof pq pay reconn https redirectable cmethod evs r,
  let s := run mof qof pq pay (init_m reconn https redirectable cmethod) evs in
  waited s = true -> readable s r = true.
Proof. exact always_readable. Qed.
Print Assumptions C19_reply_always_readable.

(* Reconnect: on a reconnectable connector whose timer fired, a request that was popped while the
   connection was cut off (it waits in connector.txbs) goes on the wire of the new connection, exactly
   once and unchanged. *)
Example C19_example_reconnect :
  let evs := [Enq 1; Enq 2; Enq 3; Pass false None;
              Eof; Pass false (Some {| rp_id := 0; rp_status := 200; rp_loc := None; rp_close := true |});
              Pass false None; Pass false None; Pass true None;
              Pass false (Some {| rp_id := 1; rp_status := 200; rp_loc := None; rp_close := false |});
              Pass false None] in
  let s := run (fun _ => 0) (fun _ => None) (fun _ => []) (fun _ => nopay) (init_m true false true 0) evs in
  wire_reqs (wire s) = [1; 2; 3] /\ map w_conn (wire s) = [0; 1; 1] /\ length (responses s) = 2%nat.
Proof. vm_compute. repeat split. Qed.

(* Client.respond() hands the entries out oldest first: the non-None results of all respond() calls so
   far are exactly the first ntaken entries of the response log, in order (with C19_fifo: in queue order,
   the i-th answer handed out belongs to the i-th queued request); None is returned only when nothing
   waits. *)
Theorem C19_respond_fifo : forall mof qof pq pay reconn https redirectable cmethod evs,
  let s := run mof qof pq pay (init_m reconn https redirectable cmethod) evs in
  somes (takes s) = firstn (ntaken s) (responses s) /\ (ntaken s <= length (responses s))%nat.
Proof. exact respond_fifo. Qed.
Print Assumptions C19_respond_fifo.

(* The server closes the idle keep-alive connection between two requests: the client notices it in an
   idle pass (Eof with nothing in flight), reconnects when its timer fires, and a request queued
   afterwards goes out on the new connection. *)
Example C19_example_idle_close :
  let evs := [Enq 1; Pass false None;
              Pass false (Some {| rp_id := 0; rp_status := 200; rp_loc := None; rp_close := true |});
              Pass false None; Eof; Pass false None; Pass true None; Pass false None;
              Enq 2; Pass false None;
              Pass false (Some {| rp_id := 1; rp_status := 200; rp_loc := None; rp_close := false |})] in
  let s := run (fun _ => 0) (fun _ => None) (fun _ => []) (fun _ => nopay) (init_m true false true 0) evs in
  wire_reqs (wire s) = [1; 2] /\ map w_conn (wire s) = [0; 1] /\ length (responses s) = 2%nat /\ waited s = false.
Proof. vm_compute. repeat split. Qed.

(* Liveness is NOT part of what is proved and is false under a closing server
   (open finding C19-close-strands-queue): after a reply whose server closes the
   connection, the next request is popped but never reaches the wire and never
   gets an entry, however many passes follow. *)
Theorem C19_all_answered_refuted :
  exists evs, let s := run (fun _ => 0) (fun _ => None) (fun _ => []) (fun _ => nopay) (init_m false false true 0) (evs ++ repeat (Pass true None) 50) in
    enqs evs = [1; 2] /\ length (responses s) = 1%nat /\ waited s = true /\ wire_reqs (wire s) = [1].
Proof.
  exists [Enq 1; Enq 2; Pass false None; Eof; Pass false (Some {| rp_id := 0; rp_status := 200; rp_loc := None; rp_close := true |})].
  vm_compute. repeat split.
Qed.
Print Assumptions C19_all_answered_refuted.

(* Non-vacuity: three queued requests; the first is redirected twice (new host,
   then relative), the second is refused an https -> http... on an http client it
   is followed; the third gets a delayed plain answer. *)
Example C19_example :
  let rel := {| l_host := None; l_https := false; l_query := [(1, 7)] |} in
  let evs := [Enq 5; Enq 6; Enq 7; Pass false None;
              Pass false (Some {| rp_id := 0; rp_status := 301; rp_loc := Some {| l_host := Some 1; l_https := false; l_query := [] |}; rp_close := false |});
              Pass false None;
              Pass false (Some {| rp_id := 1; rp_status := 307; rp_loc := Some rel; rp_close := false |});
              Pass false (Some {| rp_id := 2; rp_status := 200; rp_loc := None; rp_close := false |});
              Pass false None; Pass false None;
              Pass false (Some {| rp_id := 3; rp_status := 404; rp_loc := None; rp_close := false |}); Pass false None] in
  let s := run (fun t => if t =? 6 then HEAD else 0) (fun t => if t =? 5 then Some [(0, 1)] else None) (fun t => if t =? 5 then [(1, 2)] else []) (fun t => (2, t)) (init_m false false true 0) evs in
  map origin (responses s) = [Some 5; Some 6] /\ inflight s = [Some 7] /\ queue s = [] /\
  map e_history (responses s) = [[(301, Some 5); (307, None)]; []] /\
  wire_reqs (wire s) = [5; 6; 7] /\ map w_conn (wire s) = [0; 1; 1; 1; 1] /\
  map w_q (wire s) = [[(0, 1); (1, 2)]; []; [(1, 7)]; []; []] /\
  map e_targets (responses s) = [[(false, 5, [(0, 1); (1, 2)]); (true, 0, [])]; []].
Proof. vm_compute. repeat split. Qed.

Example C19_example_refused :
  let evs := [Enq 1; Enq 2; Pass false None;
              Pass false (Some {| rp_id := 0; rp_status := 302; rp_loc := Some {| l_host := Some 1; l_https := false; l_query := [] |}; rp_close := false |});
              Pass false None] in
  let s := run (fun _ => 0) (fun _ => None) (fun _ => []) (fun _ => nopay) (init_m false true true HEAD) evs in
  map (fun e => (e_status e, e_errored e, e_tag e)) (responses s) = [(302, true, Some 1)] /\
  wire_reqs (wire s) = [1; 2] /\ map w_https (wire s) = [true; true].
Proof. vm_compute. repeat split. Qed.
