(* Membership over whole runs (C06), class NE0: there is ONE log of list-specification
   operations, every entry being an extend/remove effect of some script of the
   program, such that for EVERY scheduler t the doers list after the call (after
   the run) is the list before, transformed by the entries on t in log order.
   Lifted through all eleven interpreter functions, cycle_loop and do_run. *)
From Hio Require Import Base.Prelude Base.AMap Base.Time Model.Sched Proofs.SchedEqs Proofs.SchedFrame Proofs.SchedLife
  Proofs.SchedDeque Proofs.SchedDequeHold Proofs.SchedDequeAll Proofs.SchedDequeEffects Proofs.SchedDequeMembers.

Section Members2.
Context {T : Type} `{Time T}.
Implicit Types s a b : st T.
Variable tk : T.
Variable d : amap (fdef T).

Definition mlog := list (id * mop).
Definition on_t (t : id) (log : mlog) : list mop :=
  flat_map (fun '(t', o) => if N.eqb t' t then [o] else []) log.
Definition mrun (l : list id) (t : id) (log : mlog) : list id := fold_left apply_mop (on_t t log) l.

(* an effect of some script of the program *)
Definition eff_from (e : effect) : Prop :=
  exists i k sc pc, get d i = Some (FLeaf k sc) /\ In e (f_es (nth pc sc default_step)).
Definition entry_eff (x : id * mop) : effect :=
  match x with (t, MExt n) => EExtend t n | (t, MRem w) => ERemove t w end.
Definition from_prog (x : id * mop) : Prop := eff_from (entry_eff x).

Definition view s (t : id) : list id := doers (get_sched s t).
Definition MR s s' : Prop :=
  exists log, Forall from_prog log /\ forall t, view s' t = mrun (view s t) t log.

Lemma on_t_app t l1 l2 : on_t t (l1 ++ l2) = on_t t l1 ++ on_t t l2.
Proof. unfold on_t. apply flat_map_app. Qed.
Lemma mrun_app l t l1 l2 : mrun l t (l1 ++ l2) = mrun (mrun l t l1) t l2.
Proof. unfold mrun. now rewrite on_t_app, fold_left_app. Qed.

Lemma mr_refl s : MR s s.
Proof. exists []. split; [constructor|reflexivity]. Qed.
Lemma mr_trans a b c : MR a b -> MR b c -> MR a c.
Proof.
  intros (l1 & F1 & E1) (l2 & F2 & E2). exists (l1 ++ l2). split; [apply Forall_app; now split|].
  intro t. now rewrite E2, E1, mrun_app.
Qed.
Lemma mr_same s s' : (forall t, view s' t = view s t) -> MR s s'.
Proof. intro E. exists []. split; [constructor|exact E]. Qed.
Lemma mr_dsame s s' : dsame s s' -> MR s s'.
Proof. intro D. apply mr_same. intro t. apply D. Qed.

Lemma view_deeds s sid l t : view (set_deeds s sid l) t = view s t.
Proof. apply dsame_deeds. Qed.

Definition HD s : Prop := defs s = d /\ NE0 d.
Lemma hd_same s s' : defs s' = defs s -> HD s -> HD s'.
Proof. intros E [D N]. split; [congruence|exact N]. Qed.
Lemma hd_ne0 s : HD s -> NE0 (defs s).
Proof. intros [D N]. now rewrite D. Qed.

Definition mr_at (f : nat) : Prop :=
  (forall s i s' r, HD s -> gen_start tk f s i = (s', r) -> MR s s') /\
  (forall s i k sc pc s' r, HD s -> get d i = Some (FLeaf k sc) -> run_step tk f s i k sc pc = (s', r) -> MR s s') /\
  (forall s i s' r, HD s -> gen_send tk f s i = (s', r) -> MR s s') /\
  (forall s i, HD s -> MR s (gen_close tk f s i)) /\
  (forall s i, HD s -> MR s (close_own tk f s i)) /\
  (forall s ds, HD s -> MR s (close_list tk f s ds)) /\
  (forall s sid ids s' r, HD s -> enter_own tk f s sid ids = (s', r) -> MR s s') /\
  (forall s ids acc s' r acc', HD s -> enter_local tk f s ids acc = (s', r, acc') -> MR s s') /\
  (forall s c es s' r, HD s -> Forall eff_from es -> run_effects tk f s c es = (s', r) -> MR s s') /\
  (forall s sid s' r, HD s -> recur_pass tk f s sid = (s', r) -> MR s s') /\
  (forall s sid s' r, HD s -> recur_loop tk f s sid = (s', r) -> MR s s').

Lemma hd_all f :
  (forall s i s' r, HD s -> gen_send tk f s i = (s', r) -> HD s') /\
  (forall s ds, HD s -> HD (close_list tk f s ds)) /\
  (forall s ids acc s' r acc', HD s -> enter_local tk f s ids acc = (s', r, acc') -> HD s') /\
  (forall s c es s' r, HD s -> run_effects tk f s c es = (s', r) -> HD s').
Proof.
  destruct (defs_all tk f) as (_ & Dsd & Dli & Del & Def).
  repeat match goal with |- _ /\ _ => split end; intros; (eapply hd_same; [|eassumption]); eauto.
Qed.

Lemma mr_all : forall f, mr_at f.
Proof.
  induction f as [|f IH].
  - unfold mr_at. repeat match goal with |- _ /\ _ => split end; intros;
      try match goal with E : _ = _ |- _ => cbn in E; inversion E; subst; clear E end; cbn; apply mr_same; reflexivity.
  - destruct IH as (Ist & Irs & Isd & Icl & Ico & Ili & Ieo & Iel & Ief & Irp & Irl).
    destruct (dstart_all tk (S f)) as (Dst & Deo & Del).
    destruct (doers_close tk (S f)) as (Dcl & Dco & Dli).
    destruct (hd_all f) as (Hsd & Hli & Hel & Hef).
    unfold mr_at. repeat match goal with |- _ /\ _ => split end.
    + intros s i s' r Hd E. apply mr_dsame. eapply Dst; [apply hd_ne0; exact Hd|exact E].
    + (* run_step *)
      intros s i k sc pc s' r Hd D E. rewrite run_step_S in E. cbv zeta in E.
      destruct (run_effects tk f s i _) as [s1 r0] eqn:Ee.
      assert (M1 : MR s s1).
      { eapply Ief; [exact Hd| |exact Ee]. apply Forall_forall. intros e He. exists i, k, sc, pc. now split. }
      eapply mr_trans; [exact M1|]. apply mr_same. intro t.
      destruct r0; [| |destruct kbd|]; cbv beta iota zeta in E; try (destruct (f_out _)); fin; reflexivity.
    + (* gen_send *)
      intros s i s' r Hd E. rewrite gen_send_S in E.
      destruct (get_gen s i) eqn:G; try (fin; apply mr_refl).
      destruct (get (defs s) i) as [[k sc|t0 al kids]|] eqn:D; [| |fin; apply mr_refl].
      * eapply mr_trans; [|eapply Irs; [| |exact E]].
        -- apply mr_same. reflexivity.
        -- eapply hd_same; [|exact Hd]. reflexivity.
        -- rewrite <- (proj1 Hd). exact D.
      * cbv zeta in E. destruct (recur_pass tk f _ i) as [s2 r0] eqn:Ee.
        assert (M2 : MR s s2).
        { eapply mr_trans; [|eapply Irp; [|exact Ee]]; [apply mr_same; reflexivity|eapply hd_same; [|exact Hd]; reflexivity]. }
        eapply mr_trans; [exact M2|]. apply mr_same. intro t.
        destruct (doers_close tk f) as (_ & Dco' & _).
        destruct r0; cbv beta iota zeta in E.
        -- match type of E with (if ?c then _ else _) = _ => destruct c end; fin; [|reflexivity].
           match goal with |- view (set_gen (emit (close_own tk f ?x i) Exit i) i GDone) t = _ =>
             change (doers (get_sched (close_own tk f x i) t) = view s2 t); rewrite (Dco' x i t) end. reflexivity.
        -- match type of E with (if ?c then _ else _) = _ => destruct c end; fin; [|reflexivity].
           match goal with |- view (set_gen (emit (close_own tk f ?x i) Exit i) i GDone) t = _ =>
             change (doers (get_sched (close_own tk f x i) t) = view s2 t); rewrite (Dco' x i t) end. reflexivity.
        -- fin. match goal with |- view (set_gen (emit (close_own tk f ?x i) Exit i) i GDone) t = _ =>
             change (doers (get_sched (close_own tk f x i) t) = view s2 t); rewrite (Dco' x i t) end. destruct kbd; reflexivity.
        -- fin. reflexivity.
    + intros s i Hd. apply mr_same. intro t. apply Dcl.
    + intros s i Hd. apply mr_same. intro t. apply Dco.
    + intros s ds Hd. apply mr_same. intro t. apply Dli.
    + intros s sid ids s' r Hd E. apply mr_dsame. eapply Deo; [apply hd_ne0; exact Hd|exact E].
    + intros s ids acc s' r acc' Hd E. apply mr_dsame. eapply Del; [apply hd_ne0; exact Hd|exact E].
    + (* run_effects *)
      intros s c es s' r Hd Fe E. rewrite run_effects_S in E.
      destruct es as [|e rest]; [fin; apply mr_refl|].
      inversion Fe as [|e0 rest0 He Hrest]; subst.
      destruct (negb (live s match e with EExtend t0 _ => t0 | ERemove t0 _ => t0 end)); [eapply Ief; eassumption|].
      destruct e as [t' news|t' who]; cbv zeta in E.
      * destruct (enter_local tk f s _ []) as [[s1 r0] acc] eqn:Ee.
        destruct (dstart_all tk f) as (_ & _ & Del'). pose proof (Del' _ _ _ _ _ _ (hd_ne0 _ Hd) Ee) as D1.
        assert (Hd1 : HD s1) by (eapply Hel; eassumption).
        assert (Ext : MR s (emit (set_sched s1 t' {| doers := doers (get_sched s1 t') ++ dedupe (filter (fun x => negb (memN x (doers (get_sched s t')))) news) [];
                                                     deeds := deeds (get_sched s1 t') ++ acc |}) ExtRet c)).
        { exists [(t', MExt news)]. split; [constructor; [exact He|constructor]|]. intro t.
          unfold mrun, on_t. cbn [flat_map app]. unfold view.
          change (get_sched (emit ?x ExtRet c) t) with (get_sched x t).
          destruct (N.eqb t' t) eqn:Et.
          - apply N.eqb_eq in Et. subst t'. rewrite sched_set_same. cbn [doers fold_left apply_mop app]. now rewrite (D1 t).
          - apply N.eqb_neq in Et. rewrite sched_set_other by congruence. cbn [fold_left app]. apply D1. }
        destruct r0; fin; try (apply mr_dsame; exact D1).
        -- eapply mr_trans; [exact Ext|]. eapply Ief; [|exact Hrest|exact E]. eapply hd_same; [|exact Hd1]. reflexivity.
        -- eapply mr_trans; [exact Ext|]. eapply Ief; [|exact Hrest|exact E]. eapply hd_same; [|exact Hd1]. reflexivity.
      * destruct (doers_close tk f) as (_ & _ & Dli').
        match type of E with run_effects tk f (emit (close_list tk f ?s1 ?l) RemRet c) c rest = _ =>
          assert (Rem : MR s (emit (close_list tk f s1 l) RemRet c));
          [|eapply mr_trans; [exact Rem|]; eapply Ief; [|exact Hrest|exact E];
            eapply hd_same; [|apply (Hli s1 l); eapply hd_same; [|exact Hd]; reflexivity]; reflexivity]
        end.
        exists [(t', MRem who)]. split; [constructor; [exact He|constructor]|]. intro t.
        unfold mrun, on_t. cbn [flat_map app]. unfold view.
        change (get_sched (emit ?x RemRet c) t) with (get_sched x t). rewrite Dli'.
        destruct (N.eqb t' t) eqn:Et.
        -- apply N.eqb_eq in Et. subst t'. rewrite sched_set_same. reflexivity.
        -- apply N.eqb_neq in Et. rewrite sched_set_other by congruence. reflexivity.
    + intros s sid s' r Hd E. rewrite recur_pass_S in E. cbv zeta in E.
      eapply mr_trans; [|eapply Irl; [|exact E]]; [apply mr_same; intro x0; apply view_deeds|eapply hd_same; [|exact Hd]; reflexivity].
    + (* recur_loop *)
      intros s sid s' r Hd E. rewrite recur_loop_S in E.
      destruct (deeds (get_sched s sid)) as [|[|i re] rest]; [fin; apply mr_refl|fin; apply mr_same; intro x0; apply view_deeds|].
      cbv zeta in E. destruct (tleb re _).
      * destruct (gen_send tk f _ i) as [s2 g] eqn:Eg.
        assert (M2 : MR s s2).
        { eapply mr_trans; [|eapply Isd; [|exact Eg]]; [apply mr_same; intro x0; apply view_deeds|eapply hd_same; [|exact Hd]; reflexivity]. }
        assert (Hd2 : HD s2) by (eapply Hsd; [|exact Eg]; eapply hd_same; [|exact Hd]; reflexivity).
        destruct g; fin; try exact M2.
        -- eapply mr_trans; [exact M2|]. eapply mr_trans; [|eapply Irl; [|exact E]]; [apply mr_same; intro x0; apply view_deeds|eapply hd_same; [|exact Hd2]; reflexivity].
        -- eapply mr_trans; [exact M2|]. eapply Irl; [exact Hd2|exact E].
      * eapply mr_trans; [|eapply Irl; [|exact E]]; [apply mr_same; intro x0; rewrite !view_deeds; reflexivity|eapply hd_same; [|exact Hd]; reflexivity].
Qed.

(* ---------- whole runs ---------- *)

Lemma mr_close_end fuel s k : MR s (emit (close_own tk fuel s 0%N) k 0%N).
Proof.
  apply mr_same. intro t. destruct (doers_close tk fuel) as (_ & Dco & _).
  change (doers (get_sched (close_own tk fuel s 0%N) t) = view s t). apply Dco.
Qed.

Lemma hd_pass fuel s sid s' r : HD s -> recur_pass tk fuel s sid = (s', r) -> HD s'.
Proof.
  intros Hd E. eapply hd_same; [|exact Hd].
  destruct (frame_all tk fuel) as (_ & _ & _ & _ & _ & _ & _ & _ & _ & Frp & _).
  apply steps_defs. eapply Frp; [apply st_refl|exact E].
Qed.

Lemma cycle_mr cycles : forall fuel s limit stop, HD s -> MR s (cycle_loop tk cycles fuel s limit stop).
Proof.
  induction cycles as [|c IH]; intros fuel s limit stop Hd; cbn [cycle_loop].
  - apply mr_same. reflexivity.
  - destruct (recur_pass tk fuel s 0%N) as [s1 r] eqn:E.
    destruct (mr_all fuel) as (_ & _ & _ & _ & _ & _ & _ & _ & _ & Irp & _).
    assert (M1 : MR s s1) by (eapply Irp; eassumption).
    assert (Hd1 : HD s1) by (eapply hd_pass; eassumption).
    eapply mr_trans; [exact M1|].
    destruct r as [t| |[|]|]; try apply mr_close_end; try apply mr_refl.
    + destruct (deeds (get_sched (set_tyme s1 (tadd (tyme s1) tk)) 0%N)).
      * eapply mr_trans; [|apply mr_close_end]. apply mr_same. reflexivity.
      * destruct (_ && _); [eapply mr_trans; [|apply mr_close_end]; apply mr_same; reflexivity|].
        eapply mr_trans; [|apply IH; eapply hd_same; [|exact Hd1]; reflexivity]. apply mr_same. reflexivity.
    + destruct (deeds (get_sched (set_tyme s1 (tadd (tyme s1) tk)) 0%N)).
      * eapply mr_trans; [|apply mr_close_end]. apply mr_same. reflexivity.
      * destruct (_ && _); [eapply mr_trans; [|apply mr_close_end]; apply mr_same; reflexivity|].
        eapply mr_trans; [|apply IH; eapply hd_same; [|exact Hd1]; reflexivity]. apply mr_same. reflexivity.
Qed.

End Members2.

Section MembersRun.
Context {T : Type} `{Time T}.

(* the doers list of every scheduler at the end of a run is its initial list (the
   root's doers / the DoDoer's kids) transformed by one log of extend/remove effects
   of the program's scripts *)
Theorem do_run_members cycles fuel (p : prog T) :
  NE0 (p_defs p) -> MR (p_defs p) (init_st p) (do_run cycles fuel p).
Proof.
  intro N. unfold do_run.
  destruct (enter_own (p_tock p) fuel (init_st p) 0%N (p_doers p)) as [s1 r] eqn:E.
  assert (Hd0 : HD (p_defs p) (init_st p)) by (split; [reflexivity|exact N]).
  destruct (mr_all (p_tock p) (p_defs p) fuel) as (_ & _ & _ & _ & _ & _ & Ieo & _).
  assert (M1 : MR (p_defs p) (init_st p) s1) by (eapply Ieo; eassumption).
  assert (Hd1 : HD (p_defs p) s1).
  { eapply hd_same; [|exact Hd0]. destruct (frame_all (p_tock p) fuel) as (_ & _ & _ & _ & _ & _ & Feo & _).
    apply steps_defs. eapply Feo; [apply st_refl|exact E]. }
  eapply mr_trans; [exact M1|].
  destruct r as [t| |k|].
  - eapply mr_trans; [|apply cycle_mr; eapply hd_same; [|exact Hd1]; reflexivity]. apply mr_same. reflexivity.
  - eapply mr_trans; [|apply cycle_mr; eapply hd_same; [|exact Hd1]; reflexivity]. apply mr_same. reflexivity.
  - apply mr_close_end.
  - apply mr_refl.
Qed.

End MembersRun.
